/-
  (SEP) — the premise of the Go-memory-model argument behind C07, as a theorem about the log.

  Two steps of DIFFERENT threads of one run that may access the same node (or the root
  pointer) — i.e. some mutex `l` is in `stepHeld` of both — are separated in the log by an
  unlock of `l` by the earlier thread and a later lock of `l` by the later thread:

      cB'.log = newB ++ xs ++ acq t2 l :: ys ++ rel t1 l :: w ++ grantLog cA t1 th1

  where (newest first)
    * `grantLog cA t1 th1` = (`acq t1 _`?) `dec t1 _ :: cA.log` is the log at the beginning
      of step A, right after the scheduler's decision and the lock grant that open it: the
      release `rel t1 l` is NEWER than that, hence not older than step A's beginning;
    * `xs ++ acq t2 l :: … ` is exactly `grantLog cB t2 th2`, the log at the beginning of
      step B (after its decision and lock grant): the acquisition `acq t2 l` is not newer
      than the grant that opens step B (it IS that grant, or it is older than step B), and
      `newB`, the rest of step B's events, are releases of `t2` and notes only (`OnlyRel`);
    * `acq t2 l` is newer than `rel t1 l`;
    * from that acquisition up to the beginning of step B thread `t2` holds `l` at every
      instant of the log (so it is THE acquisition under which step B runs), and from that
      release up to that acquisition thread `t1` does not hold `l` at any instant.

  Method (`CSeparatedLog.lean`): the log shows mutual exclusion at every instant (`Excl`, an
  invariant of all reachable configurations without a panic), thread `t1` holds `l` at the
  beginning of step A and `t2` at the beginning of step B; `acq_split` finds the acquisition,
  exclusion at its instant says `t1` no longer holds `l` there, `rel_split` finds the release.
-/
import Gobptree.Proofs.CSeparatedLog
import Gobptree.Proofs.CNoLossSearch
import Gobptree.Props.C07

namespace Gobptree.Conc
open Gobptree

variable {K V : Type}

theorem reachable_log_grows {a b : Config K V} (h : Reachable a b) : ∃ m, b.log = m ++ a.log := by
  induction h with
  | refl => exact ⟨[], rfl⟩
  | @step c1 c2 t _ hs ih =>
    obtain ⟨m, hm⟩ := ih
    obtain ⟨n, hn⟩ := step_log_grows hs
    exact ⟨n ++ m, by rw [hn, hm, List.append_assoc]⟩

/-- every configuration of a run list reaches the newest one -/
theorem RunFrom.reach_of_mem {c0 d : Config K V} {rest : List (Config K V)} (h : RunFrom c0 (d :: rest)) :
    ∀ c ∈ d :: rest, Reachable c d := by
  generalize hl : d :: rest = l at h
  induction h generalizing d rest with
  | init =>
    cases hl
    intro c hc
    simp only [List.mem_singleton] at hc
    subst hc; exact .refl
  | @step c1 c2 hist t h1 hs ih =>
    cases hl
    intro c hc
    rcases List.mem_cons.1 hc with e | hc'
    · subst e; exact .refl
    · exact .step t (ih rfl c hc') hs

/-- the separation statement: the shape of `cB'.log` -/
def Separated (cA cB cB' : Config K V) (t1 t2 : Nat) (th1 th2 : Thread K V) (l : Lk) : Prop :=
  ∃ newB xs ys w,
    -- step B's log: its decision and lock grant, then releases of `t2` and notes only
    cB'.log = newB ++ grantLog cB t2 th2 ∧ OnlyRel t2 newB ∧
    -- at the beginning of step B the log already contains `rel t1 l` and, newer, `acq t2 l`,
    -- both newer than the beginning of step A
    grantLog cB t2 th2 = xs ++ Ev.acq t2 l :: (ys ++ Ev.rel t1 l :: (w ++ grantLog cA t1 th1)) ∧
    -- from that acquisition to the beginning of step B, `t2` holds `l` at every instant
    (∀ xs1 xs2, xs = xs1 ++ xs2 →
      l ∈ heldNow t2 (xs2 ++ Ev.acq t2 l :: (ys ++ Ev.rel t1 l :: (w ++ grantLog cA t1 th1)))) ∧
    -- from that release to that acquisition, `t1` does not hold `l` at any instant
    (∀ ys1 ys2, ys = ys1 ++ ys2 →
      l ∉ heldNow t1 (ys2 ++ Ev.rel t1 l :: (w ++ grantLog cA t1 th1)))

/-- **(SEP), for every run in which no thread has panicked before step B** (no hypothesis
    on the tree or on the programs) -/
theorem separated_alive (P : Params K) (tree : Tree K V) (progs : List (List (COp K V)))
    {cA cA' cB cB' : Config K V} {t1 t2 : Nat} {th1 th2 : Thread K V} {l : Lk}
    (hrA : Reachable (Config.init P tree progs) cA) (hA : cA.step t1 = some cA')
    (hAB : Reachable cA' cB) (hB : cB.step t2 = some cB') (hd : cB.dead = false)
    (hne : t1 ≠ t2) (h1 : cA.threads[t1]? = some th1) (h2 : cB.threads[t2]? = some th2)
    (hl1 : l ∈ stepHeld th1) (hl2 : l ∈ stepHeld th2) :
    Separated cA cB cB' t1 t2 th1 th2 l := by
  have hrA' : Reachable (Config.init P tree progs) cA' := .step t1 hrA hA
  have hrB := hrA'.trans hAB
  have hdA' := reachable_dead hAB hd
  have hdA := step_dead cA cA' t1 hA hdA'
  have okA := reachable_ok _ cA (init_ok P tree progs) hrA hdA
  have okB := reachable_ok _ cB (init_ok P tree progs) hrB hd
  have ownB := reachable_owner _ cB (init_ok P tree progs) (init_owner P tree progs) hrB hd
  have lokA := reachable_heldlogok P tree progs cA hrA hdA
  have lokB := reachable_heldlogok P tree progs cB hrB hd
  have lokB' := heldlogok_step hB okB ownB lokB
  obtain ⟨a, a', newA, ha, _, _, hlogA, _, _⟩ := step_log hA okA
  rw [h1] at ha; cases ha
  obtain ⟨b, b', newB, hb, _, _, hlogB, horB, _⟩ := step_log hB okB
  rw [h2] at hb; cases hb
  obtain ⟨m, hm⟩ := reachable_log_grows hAB
  obtain ⟨p, hp, _⟩ := grantLog_eq cB t2 th2
  have hg : grantLog cB t2 th2 = (p ++ Ev.dec t2 cB.enabledSet :: (m ++ newA)) ++ grantLog cA t1 th1 := by
    rw [hp, hm, hlogA]; simp only [List.append_assoc, List.cons_append]
  generalize p ++ Ev.dec t2 cB.enabledSet :: (m ++ newA) = mid at hg
  have hexB : Excl (grantLog cB t2 th2) := by
    have := lokB'.2; rw [hlogB] at this; exact Excl.suffix newB this
  have hhA : heldNow t1 (grantLog cA t1 th1) = stepHeld th1 :=
    heldNow_grant_self cA t1 th1 (by rw [lokA.1 t1]; unfold heldOf; rw [h1])
  have hhB : heldNow t2 (grantLog cB t2 th2) = stepHeld th2 :=
    heldNow_grant_self cB t2 th2 (by rw [lokB.1 t2]; unfold heldOf; rw [h2])
  have hexA : Excl (grantLog cA t1 th1) := by
    have := hexB; rw [hg] at this; exact Excl.suffix mid this
  have h1A : l ∈ heldNow t1 (grantLog cA t1 th1) := by rw [hhA]; exact hl1
  have h2B : l ∈ heldNow t2 (mid ++ grantLog cA t1 th1) := by rw [← hg, hhB]; exact hl2
  have h2A : l ∉ heldNow t2 (grantLog cA t1 th1) := fun h => hne (hexA.at t1 t2 l h1A h)
  obtain ⟨xs, m', hsplit, _, hhold⟩ := acq_split t2 l mid _ h2A h2B
  -- at the instant of the acquisition, `t1` no longer holds `l`
  have hex' : Excl (Ev.acq t2 l :: (m' ++ grantLog cA t1 th1)) := by
    have e : grantLog cB t2 th2 = xs ++ (Ev.acq t2 l :: (m' ++ grantLog cA t1 th1)) := by
      rw [hg, hsplit]; simp only [List.append_assoc, List.cons_append]
    have := hexB; rw [e] at this; exact Excl.suffix xs this
  have h1n : l ∉ heldNow t1 (m' ++ grantLog cA t1 th1) := by
    intro h
    have ha1 : l ∈ heldNow t1 (Ev.acq t2 l :: (m' ++ grantLog cA t1 th1)) := by
      show l ∈ upd t1 (Ev.acq t2 l : Ev K V) (heldNow t1 (m' ++ grantLog cA t1 th1))
      have : ¬ t2 = t1 := fun e => hne e.symm
      simp only [upd, this, if_false]; exact h
    have ha2 : l ∈ heldNow t2 (Ev.acq t2 l :: (m' ++ grantLog cA t1 th1)) :=
      hhold xs [] (List.append_nil xs).symm
    exact hne (hex'.1 t1 t2 l ha1 ha2)
  obtain ⟨ys, w, hm', hfree⟩ := rel_split t1 l m' _ h1A h1n
  refine ⟨newB, xs, ys, w, hlogB, horB, ?_, ?_, hfree⟩
  · rw [hg, hsplit, hm']; simp only [List.append_assoc, List.cons_append]
  · intro xs1 xs2 hx
    have := hhold xs1 xs2 hx
    rw [hm'] at this
    simpa only [List.append_assoc, List.cons_append] using this

/-- **(SEP)** for every run of disciplined programs from a tree satisfying the invariants
    (the hypotheses of `reachable_cinv`; no thread ever panics there) -/
theorem separated (P : Params K) (tree : Tree K V) (progs : List (List (COp K V)))
    (ht : TreeOk none tree) (ho : tree.order = P.order) (hp : PadOk P) (hd : Disciplined progs)
    (hdel : 4 ≤ tree.order ∨ NoDelete progs)
    {cA cA' cB cB' : Config K V} {t1 t2 : Nat} {th1 th2 : Thread K V} {l : Lk}
    (hrA : Reachable (Config.init P tree progs) cA) (hA : cA.step t1 = some cA')
    (hAB : Reachable cA' cB) (hB : cB.step t2 = some cB')
    (hne : t1 ≠ t2) (h1 : cA.threads[t1]? = some th1) (h2 : cB.threads[t2]? = some th2)
    (hl1 : l ∈ stepHeld th1) (hl2 : l ∈ stepHeld th2) :
    Separated cA cB cB' t1 t2 th1 th2 l := by
  have hrB : Reachable (Config.init P tree progs) cB := (Reachable.step t1 hrA hA).trans hAB
  exact separated_alive P tree progs hrA hA hAB hB
    (reachable_cinv P tree progs ht ho hp hd hdel cB hrB).alive hne h1 h2 hl1 hl2

/-- what `Separated` says in plain list splits: the log after step B contains `rel t1 l`
    NEWER than the `dec t1` that opens step A (`zs = w ++ dec t1 _ :: cA.log`), and, newer than
    that release, `acq t2 l`, which is NOT NEWER than the lock grant that opens step B (what is
    newer than it, `xs`, consists of `xs0`, which ends at step B's grant, and `newB`, the
    releases and notes step B logs after its grant) -/
theorem Separated.split {cA cB cB' : Config K V} {t1 t2 : Nat} {th1 th2 : Thread K V} {l : Lk}
    (h : Separated cA cB cB' t1 t2 th1 th2 l) :
    ∃ xs ys zs, cB'.log = xs ++ (Ev.acq t2 l :: (ys ++ (Ev.rel t1 l :: zs))) ∧
      (∃ w, zs = w ++ (Ev.dec t1 cA.enabledSet :: cA.log)) ∧
      -- the acquisition is not newer than the lock grant that opens step B
      (∃ newB xs0, xs = newB ++ xs0 ∧ OnlyRel t2 newB ∧
        xs0 ++ (Ev.acq t2 l :: (ys ++ (Ev.rel t1 l :: zs))) = grantLog cB t2 th2) := by
  obtain ⟨newB, xs, ys, w, h1, h2, h3, _, _⟩ := h
  obtain ⟨p, hp, _⟩ := grantLog_eq cA t1 th1
  refine ⟨newB ++ xs, ys, w ++ grantLog cA t1 th1, ?_, ⟨w ++ p, ?_⟩, newB, xs, rfl, h2, h3.symm⟩
  · rw [h1, h3, List.append_assoc]
  · rw [hp, List.append_assoc]

/-- **(SEP) on a run list**: `cA, cA'` and, later, `cB, cB'` consecutive configurations of one
    `RunFrom` list (newest first; `cB = cA'` allowed: `later = []`) -/
theorem separated_run (P : Params K) (tree : Tree K V) (progs : List (List (COp K V)))
    (ht : TreeOk none tree) (ho : tree.order = P.order) (hp : PadOk P) (hd : Disciplined progs)
    (hdel : 4 ≤ tree.order ∨ NoDelete progs)
    {cA cA' cB cB' : Config K V} {later hist : List (Config K V)}
    {t1 t2 : Nat} {th1 th2 : Thread K V} {l : Lk}
    (hrun : RunFrom (Config.init P tree progs) (cB' :: (later ++ cA' :: cA :: hist)))
    (hcB : (later ++ [cA']).head? = some cB)
    (hA : cA.step t1 = some cA') (hB : cB.step t2 = some cB')
    (hne : t1 ≠ t2) (h1 : cA.threads[t1]? = some th1) (h2 : cB.threads[t2]? = some th2)
    (hl1 : l ∈ stepHeld th1) (hl2 : l ∈ stepHeld th2) :
    Separated cA cB cB' t1 t2 th1 th2 l := by
  have hrunA : RunFrom (Config.init P tree progs) (cA :: hist) := by
    have := RunFrom.tail (cB' :: (later ++ [cA'])) (c := cA) (hist := hist)
      (by simpa only [List.cons_append, List.append_assoc, List.nil_append] using hrun)
    exact this
  have hAB : Reachable cA' cB := by
    cases later with
    | nil =>
      simp only [List.nil_append, List.head?_cons, Option.some.injEq] at hcB
      subst hcB; exact .refl
    | cons d later =>
      simp only [List.cons_append, List.head?_cons, Option.some.injEq] at hcB
      subst hcB
      have hrunB : RunFrom (Config.init P tree progs) (d :: (later ++ cA' :: cA :: hist)) :=
        RunFrom.tail [cB'] hrun
      exact hrunB.reach_of_mem cA' (by simp)
  exact separated P tree progs ht ho hp hd hdel hrunA.reachable hA hAB hB hne h1 h2 hl1 hl2

/-- **(SEP) for the root pointer**: two steps of different threads that both run under the
    tree-level mutex `rootMutex` (the only steps that may read or replace the root pointer)
    are separated by `rel t1 .tree` and a later `acq t2 .tree` -/
theorem separated_root (P : Params K) (tree : Tree K V) (progs : List (List (COp K V)))
    (ht : TreeOk none tree) (ho : tree.order = P.order) (hp : PadOk P) (hd : Disciplined progs)
    (hdel : 4 ≤ tree.order ∨ NoDelete progs)
    {cA cA' cB cB' : Config K V} {t1 t2 : Nat} {th1 th2 : Thread K V}
    (hrA : Reachable (Config.init P tree progs) cA) (hA : cA.step t1 = some cA')
    (hAB : Reachable cA' cB) (hB : cB.step t2 = some cB')
    (hne : t1 ≠ t2) (h1 : cA.threads[t1]? = some th1) (h2 : cB.threads[t2]? = some th2)
    (hl1 : Lk.tree ∈ stepHeld th1) (hl2 : Lk.tree ∈ stepHeld th2) :
    ∃ xs ys zs, cB'.log = xs ++ (Ev.acq t2 Lk.tree :: (ys ++ (Ev.rel t1 Lk.tree :: zs))) ∧
      (∃ w, zs = w ++ (Ev.dec t1 cA.enabledSet :: cA.log)) ∧
      (∃ newB xs0, xs = newB ++ xs0 ∧ OnlyRel t2 newB ∧
        xs0 ++ (Ev.acq t2 Lk.tree :: (ys ++ (Ev.rel t1 Lk.tree :: zs))) = grantLog cB t2 th2) :=
  (separated P tree progs ht ho hp hd hdel hrA hA hAB hB hne h1 h2 hl1 hl2).split

/-- **(SEP) for a node**: the same for the mutex of node `id` -/
theorem separated_node (P : Params K) (tree : Tree K V) (progs : List (List (COp K V)))
    (ht : TreeOk none tree) (ho : tree.order = P.order) (hp : PadOk P) (hd : Disciplined progs)
    (hdel : 4 ≤ tree.order ∨ NoDelete progs)
    {cA cA' cB cB' : Config K V} {t1 t2 : Nat} {th1 th2 : Thread K V} (id : Nat)
    (hrA : Reachable (Config.init P tree progs) cA) (hA : cA.step t1 = some cA')
    (hAB : Reachable cA' cB) (hB : cB.step t2 = some cB')
    (hne : t1 ≠ t2) (h1 : cA.threads[t1]? = some th1) (h2 : cB.threads[t2]? = some th2)
    (hl1 : Lk.node id ∈ stepHeld th1) (hl2 : Lk.node id ∈ stepHeld th2) :
    ∃ xs ys zs, cB'.log = xs ++ (Ev.acq t2 (Lk.node id) :: (ys ++ (Ev.rel t1 (Lk.node id) :: zs))) ∧
      (∃ w, zs = w ++ (Ev.dec t1 cA.enabledSet :: cA.log)) ∧
      (∃ newB xs0, xs = newB ++ xs0 ∧ OnlyRel t2 newB ∧
        xs0 ++ (Ev.acq t2 (Lk.node id) :: (ys ++ (Ev.rel t1 (Lk.node id) :: zs))) = grantLog cB t2 th2) :=
  (separated P tree progs ht ho hp hd hdel hrA hA hAB hB hne h1 h2 hl1 hl2).split

end Gobptree.Conc

#print axioms Gobptree.Conc.separated_alive
#print axioms Gobptree.Conc.separated
#print axioms Gobptree.Conc.Separated.split
#print axioms Gobptree.Conc.separated_run
#print axioms Gobptree.Conc.separated_root
#print axioms Gobptree.Conc.separated_node
#print axioms Gobptree.Conc.reachable_heldlogok
