/-
  Key-order block lemmas for the non-Delete continuations, part 8: the descent block of
  Insert/Update (`upChildArrive`): lower the parent's first separator, split the child.
-/
import Gobptree.Proofs.CKUpNode
import Gobptree.Proofs.CKUpRoot

namespace Gobptree.Conc
open Gobptree

variable {K V : Type} {lt : K → K → Bool}

/-! ### writing back a parent whose pairs are unchanged -/

theorem putInner_kfacts (h : SWO lt) {t : Tree K V} {d : Nat} {p : Node K V (d + 1)} (p' : Inner K (Node K V d))
    {lo' hi' : Option K} {PL PR : List (K × V)}
    (hf : t.find p'.id = some ⟨d + 1, p⟩) (hids : t.ids.Nodup) (hpar : ParTree t)
    (z : Zoom lt p'.id t.depth none none t.root (d + 1) p lo' hi' PL PR)
    (hO : Ord lt (d + 1) lo' hi' p') (hP : ParN (d + 1) p')
    (hpairs : Node.pairs (d := d + 1) p' = Node.pairs (d := d + 1) p)
    (W : Nat → Prop)
    (hroute : ∀ key x a b, (x, a, b) ∈ routeB lt key (d + 1) lo' hi' p → ¬ W x →
      (x, a, b) ∈ routeB lt key (d + 1) lo' hi' p') :
    OrdTree lt (putInner t p') ∧ ParTree (putInner t p') ∧ (putInner t p').abs = t.abs ∧
    (∀ key x, ¬ W x → (OnRoute lt t key x → OnRoute lt (putInner t p') key x) ∧
      (InBounds lt t key x → InBounds lt (putInner t p') key x)) ∧
    (putInner t p').find p'.id = some ⟨d + 1, p'⟩ ∧
    (∀ key, OnRoute lt t key p'.id → OnRoute lt (putInner t p') key p'.id) := by
  obtain ⟨h1, h2, h3⟩ := z.putInner p' hO hP
  refine ⟨h1, h2, ?_, ?_, find_putInner p' hf hids, ?_⟩
  · rw [h3, hpairs, z.abs]
  · intro key x hW
    obtain ⟨s1, s2⟩ := putInner_stable h p' hf hids hpar z.tree_bounds W key
      (fun x a b hx hW => ⟨a, b, hroute key x a b hx hW, loLe_refl h a, hiLe_refl h b⟩)
    exact ⟨s1 x hW, s2 x hW⟩
  · rintro key ⟨a, b, hab⟩
    obtain ⟨_, pre, _, _, hnew⟩ := putInner_route_on p' hf hids hpar key a b hab
    refine ⟨a, b, ?_⟩
    rw [hnew, routeB_succ]
    exact List.mem_append_right _ List.mem_cons_self

/-! ### what the block computes -/

theorem upChildArrive_nosplit (P : Params K) (t : Nat) (s : St K V) (key : K) (f : Option V → V) (y : Option Bool)
    (parent index child : Nat) {d : Nat} (p : Inner K (Node K V d)) (c left : Node K V d) (runts : List K)
    (hfind : s.tree.find parent = some ⟨d + 1, p⟩) (hpk : p.kids[index]? = some c)
    (hlow : lowerFirst P key index p.runts c = .ok runts)
    (hms : Node.maybeSplit P.order s.tree.nextId c = .ok (left, none)) :
    upChildArrive P t s key f y parent index child =
      upContinue P t
        (St.rel { s with tree := putInner s.tree (Inner.mk p.id runts (p.kids.set index left) : Inner K (Node K V d)) }
          t (.node parent)) key f y child := by
  unfold upChildArrive
  rw [hfind]
  simp only
  rw [hpk]
  simp only
  rw [hlow]
  simp only
  rw [hms]

/-- the state after the child was split and the parent rewritten -/
def splitState (s : St K V) {d : Nat} (p' : Inner K (Node K V d)) : St K V :=
  { s with tree := { putInner s.tree p' with nextId := (putInner s.tree p').nextId + 1 } }

theorem upChildArrive_split (P : Params K) (t : Nat) (s : St K V) (key : K) (f : Option V → V) (y : Option Bool)
    (parent index child : Nat) {d : Nat} (p : Inner K (Node K V d)) (c left right : Node K V d) (runts : List K)
    (pad rs : K)
    (hfind : s.tree.find parent = some ⟨d + 1, p⟩) (hpk : p.kids[index]? = some c)
    (hlow : lowerFirst P key index p.runts c = .ok runts)
    (hms : Node.maybeSplit P.order s.tree.nextId c = .ok (left, some right))
    (hpad : P.pad (some key) = some pad) (hrs : Node.smallest right = .ok rs) :
    upChildArrive P t s key f y parent index child =
      if (!P.lt key rs) = true then
        (splitState s (Inner.mk p.id (insertIdiom pad runts (index + 1) rs)
            ((insertIdiom right p.kids (index + 1) right).set index left) : Inner K (Node K V d)),
          .park (.want (.node (Node.id right)) (.upSib key f y parent child (Node.id right))))
      else
        upContinue P t
          (St.rel (splitState s (Inner.mk p.id (insertIdiom pad runts (index + 1) rs)
            ((insertIdiom right p.kids (index + 1) right).set index left) : Inner K (Node K V d))) t (.node parent))
          key f y child := by
  unfold upChildArrive
  rw [hfind]
  simp only
  rw [hpk]
  simp only
  rw [hlow]
  simp only
  rw [hms]
  simp only
  rw [hpad, hrs]
  rfl

/-! ### the block -/

/-- after acquiring the child in the descent loop -/
theorem upChildArrive_kres (P : Params K) (hK : KParams lt P) (t : Nat) (s : St K V) (key : K) (f : Option V → V)
    (y : Option Bool) (parent index child : Nat) (H : List Lk) (hole : Option Nat) (hpre : Pre P hole s)
    (hord : OrdTree lt s.tree) (hk : KontOk s.tree (.upChild key f y parent index child))
    (hpos : KPos lt s.tree (.upChild key f y parent index child))
    (hHp : Lk.node parent ∈ H) (hHc : Lk.node child ∈ H) (hcur : cursorLocks s.cursor = []) :
    KRes lt t key f H s (upChildArrive P t s key f y parent index child).1
      (upChildArrive P t s key f y parent index child).2 := by
  have hsw := hK.swo
  have hpost := fun y' => (upChildArrive_post P t s key f y' parent index child H hole hpre hk hHp hHc hcur).1.tree
  obtain ⟨hkid, hnfp⟩ := hk
  obtain ⟨hin, hidx⟩ : InBounds lt s.tree key parent ∧ index = searchLE lt key (keysOf s.tree parent) := hpos
  have hok := hpre.tree
  have hids := hok.ids.1
  have hpar := parTree_of_treeOk hok
  obtain ⟨shp, hlp, hkidx⟩ := kidAt_look hkid
  obtain ⟨an, hfind, hsh, _⟩ := find_some_of_look hlp
  obtain ⟨d, p, c, rfl, hpk, hcid⟩ := any_kid an index child (by rw [hsh]; exact hkidx)
  have hpid : p.id = parent := findNode_id hfind
  have hparp : ParN (d + 1) p := ParTree_find hfind hpar
  rw [keysOf_find hfind] at hidx
  -- the child is a node of the tree
  obtain ⟨_, L0, R0, hf0, _⟩ := Tree.find_modify hfind
  have hmemc : (Node.id c, shallow c) ∈ s.tree.flat := by
    rw [hf0]
    apply List.mem_append_left
    apply List.mem_append_right
    show (Node.id c, shallow c) ∈ flat (d := d + 1) p
    rw [flat_succ (d := d) p]
    exact List.mem_cons_of_mem _ (List.mem_flatMap.2 ⟨c, List.mem_of_getElem? hpk, self_mem_flat c⟩)
  have hoccC : NodeOcc P.order _ (shallow c) := hpre.order ▸ hok.occ _ hmemc
  have heven : P.order % 2 = 0 := hpre.order ▸ hok.even
  have ho4 : 2 ≤ P.order := hpre.order ▸ hok.order2
  -- decompose the parent at the routing index
  have hlenp := hparp.1
  have hidxlt : index < p.kids.length := (List.getElem?_eq_some_iff.1 hpk).1
  have hrk : p.runts[index]? = some (p.runts[index]'(by omega)) := List.getElem?_eq_getElem (by omega)
  obtain ⟨rA, rB, A, B, hr, hkk, hlA, hlA', hlB⟩ := decomp_at_index p hlenp index _ c hrk hpk
  generalize p.runts[index]'(by omega) = k at hr hrk
  obtain ⟨pid, pr, pk⟩ := p
  simp only at hr hkk hpid hlenp hpk hidx
  subst hr
  subst hkk
  subst hpid
  subst hlA'
  have hidx' : searchLE lt key (rA ++ k :: rB) = rA.length := by rw [hlA]; exact hidx.symm
  -- the parent in its interval
  obtain ⟨lo', hi', PL, PR, z⟩ := Tree.zoom hsw hfind hids hpar hord
  obtain ⟨a0, b0, hab, hle⟩ := hin
  have hb := Tree.route_bounds hids hpar key _ a0 b0 hab
  have e := z.tree_bounds
  rw [hb] at e
  injection e with e
  injection e with e1 e2
  subst e1
  subst e2
  have hhi : ltO lt key b0 := Tree.route_hi hsw hpar hord key _ _ _ hab
  have hsorted : Sorted lt (rA ++ k :: rB) := Ord_sorted hsw _ z.ord z.par
  obtain ⟨hF1, hF2⟩ := searchLE_split_facts hsw key rA rB k hsorted hidx'
  -- lowering
  have hlow : lowerFirst P key A.length (rA ++ k :: rB) c = .ok (rA ++ lowKey lt key rA k :: rB) := by
    rw [← hlA, ← hK.lt]
    exact lowerFirst_form P key rA rB k c
  generalize hk1 : lowKey lt key rA k = k1 at hlow
  have hk1le : lt k k1 = false := hk1 ▸ lowKey_le hsw key rA k
  have hk1ne : rA ≠ [] → k1 = k := fun hne => hk1 ▸ lowKey_of_ne key rA k hne
  have hk1key : lt key k1 = false := hk1 ▸ lowKey_le_key hsw key rA k hF1
  have hk1lo : rA = [] → leO lt a0 k1 := by
    intro e
    rw [← hk1]
    refine lowKey_lo key rA k a0 hle (z.ord.1 k ?_)
    subst e
    rfl
  have hO1 : Ord lt (d + 1) a0 b0 (Inner.mk pid (rA ++ k1 :: rB) (A ++ c :: B) : Inner K (Node K V d)) :=
    ord_lowered hsw pid rA rB k k1 A B c hlA z.ord hk1le hk1ne hk1lo
  have hP1 : ParN (d + 1) (Inner.mk pid (rA ++ k1 :: rB) (A ++ c :: B) : Inner K (Node K V d)) :=
    par_low pid rA rB k k1 _ z.par
  have hs1 : Sorted lt (rA ++ k1 :: rB) := Ord_sorted hsw _ hO1 hP1
  have hroute1 : ∀ key' x a b,
      (x, a, b) ∈ routeB lt key' (d + 1) a0 b0 (Inner.mk pid (rA ++ k :: rB) (A ++ c :: B) : Inner K (Node K V d)) →
      x ≠ Node.id c →
      (x, a, b) ∈ routeB lt key' (d + 1) a0 b0 (Inner.mk pid (rA ++ k1 :: rB) (A ++ c :: B) : Inner K (Node K V d)) := by
    intro key' x a b hx hne
    by_cases e : rA = []
    · subst e
      have hA : A = [] := List.eq_nil_of_length_eq_zero (by simpa using hlA.symm)
      subst hA
      exact route_low hsw key' a0 b0 pid k k1 rB c B hlB hsorted hs1 x a b hx hne
    · rw [hk1ne e]
      exact hx
  have hidx1 : searchLE lt key (rA ++ k1 :: rB) = A.length := by
    by_cases e : rA = []
    · subst e
      rw [← hlA]
      exact (searchLE_low hsw key k k1 rB hsorted hs1).trans hidx'
    · rw [hk1ne e, ← hlA]
      exact hidx'
  -- the child in its interval
  have hkids1 := hO1.2
  have hkids1' : Kids lt (fun a b c => Ord lt d a b c) b0 ((rA ++ k1 :: rB).zip (A ++ c :: B)) := hkids1
  rw [Kids_decomp b0 rA rB k1 A B c hlA] at hkids1'
  have hOc : Ord lt d (some k1) (nextLo b0 (rB.zip B)) c := hkids1'.2.1
  have hPc : ParN d c := z.par.2.2 c (by show c ∈ A ++ c :: B; simp)
  have hcW : ∀ x, ¬ (x = pid ∨ x = child) → x ≠ Node.id c := by
    intro x hW e
    exact hW (Or.inr (e.trans hcid))
  have hrel : ∀ (s' : St K V) arg, CbIn t arg (s'.rel t (Lk.node pid)).evs → CbIn t arg s'.evs :=
    fun s' arg ha => (cbIn_rel t t arg (Lk.node pid) s'.evs).1 ha
  have hstable : ∀ t1 : Tree K V,
      (∀ key x, ¬ (x = pid ∨ x = child) → (OnRoute lt s.tree key x → OnRoute lt t1 key x) ∧
        (InBounds lt s.tree key x → InBounds lt t1 key x)) → Stable lt H s.tree t1 := by
    intro t1 hst key' x hH
    apply hst key' x
    rintro (e | e)
    · exact hH (e ▸ hHp)
    · exact hH (e ▸ hHc)
  rcases maybeSplit_cases P.order s.tree.nextId heven c hoccC with ⟨_, hms⟩ | ⟨l, r, hms, _⟩
  · -- no split
    have hcomp := fun y' => upChildArrive_nosplit P t s key f y' pid A.length child
      (Inner.mk pid (rA ++ k :: rB) (A ++ c :: B) : Inner K (Node K V d)) c c _ hfind hpk hlow hms
    have hset : (A ++ c :: B).set A.length c = A ++ c :: B := form_set_pivot A B c c
    simp only [hset] at hcomp
    generalize hp1 : (Inner.mk pid (rA ++ k1 :: rB) (A ++ c :: B) : Inner K (Node K V d)) = p1 at hcomp hO1 hP1 hroute1
    have hp1id : p1.id = pid := by rw [← hp1]
    have hf' : s.tree.find p1.id = some ⟨d + 1, (Inner.mk pid (rA ++ k :: rB) (A ++ c :: B) : Inner K (Node K V d))⟩ := by
      rw [hp1id]; exact hfind
    have z' : Zoom lt p1.id s.tree.depth none none s.tree.root (d + 1)
        (Inner.mk pid (rA ++ k :: rB) (A ++ c :: B) : Inner K (Node K V d)) a0 b0 PL PR := by
      rw [hp1id]; exact z
    obtain ⟨hOt, hPt, habs, hst, hf1, hon1⟩ := putInner_kfacts hsw p1 hf' hids hpar z' hO1 hP1
      (by rw [← hp1]; rfl) (fun x => x = pid ∨ x = child)
      (fun key' x a b hx hW => hroute1 key' x a b hx (hcW x hW))
    have hok1 : TreeOk hole (putInner s.tree p1) := by
      have hp := hpost (some true)
      rw [hcomp (some true), upContinue_tree_yield] at hp
      exact hp
    rw [hcomp y]
    refine KRes.continue P hK hpre.pad y child
      (s1 := St.rel { s with tree := putInner s.tree p1 } t (.node pid)) hok1 hOt ?_ habs (hrel _) (hstable _ hst)
    have hon : OnRoute lt (putInner s.tree p1) key p1.id := hon1 key (by rw [hp1id]; exact ⟨a0, b0, hab⟩)
    have := Tree.inBounds_kid hsw hf1 hok1.ids.1 hPt hOt key hon k1 c
      (by rw [← hp1]; show (rA ++ k1 :: rB)[searchLE lt key (rA ++ k1 :: rB)]? = _
          rw [hidx1, ← hlA]; exact form_getElem_pivot rA rB k1)
      (by rw [← hp1]; show (A ++ c :: B)[searchLE lt key (rA ++ k1 :: rB)]? = _
          rw [hidx1]; exact form_getElem_pivot A B c)
      (fun _ => hk1key)
    rw [hcid] at this
    exact this
  · -- split
    have hsplit := maybeSplit_isSplit P.order s.tree.nextId heven c l r hoccC hms
    obtain ⟨rs, s0, sp⟩ := split_ord hsw (by omega) hsplit hOc hPc
    obtain ⟨pad, hp⟩ : ∃ pad, P.pad (some key) = some pad := by
      cases h : P.pad (some key) with
      | none => exact absurd h (hpre.pad key)
      | some x => exact ⟨x, rfl⟩
    have hcomp := fun y' => upChildArrive_split P t s key f y' pid A.length child
      (Inner.mk pid (rA ++ k :: rB) (A ++ c :: B) : Inner K (Node K V d)) c l r _ pad rs hfind hpk hlow hms hp sp.smr
    have hru : insertIdiom pad (rA ++ k1 :: rB) (A.length + 1) rs = rA ++ k1 :: rs :: rB := by
      rw [← hlA]; exact form_insert_next pad rA rB k1 rs
    have hks : (insertIdiom r (A ++ c :: B) (A.length + 1) r).set A.length l = A ++ l :: r :: B := by
      rw [form_insert_next, form_set_pivot]
    simp only [hru, hks] at hcomp
    rw [hK.lt] at hcomp
    have hO2 : Ord lt (d + 1) a0 b0 (Inner.mk pid (rA ++ k1 :: rs :: rB) (A ++ l :: r :: B) : Inner K (Node K V d)) :=
      ord_ins hsw pid rA rB k1 A B c l r _ rs s0 hlA hO1 sp
    have hP2 : ParN (d + 1) (Inner.mk pid (rA ++ k1 :: rs :: rB) (A ++ l :: r :: B) : Inner K (Node K V d)) :=
      par_ins pid rA rB k k1 rs A B c l r z.par sp.parl sp.parr
    have hs2 : Sorted lt (rA ++ k1 :: rs :: rB) := Ord_sorted hsw _ hO2 hP2
    have hins : InsAt (rA ++ k1 :: rB) (rA ++ k1 :: rs :: rB) (A.length + 1) rs := by
      rw [← hlA]; exact insAt_form rA rB k1 rs
    have hnl : hiAt (rA ++ k1 :: rB) A.length b0 = nextLo b0 (rB.zip B) := by
      rw [← hlA]; exact hiAt_decomp rA rB k1 B b0 hlB
    have hroute2 : ∀ key' x a b,
        (x, a, b) ∈ routeB lt key' (d + 1) a0 b0 (Inner.mk pid (rA ++ k :: rB) (A ++ c :: B) : Inner K (Node K V d)) →
        x ≠ Node.id c →
        (x, a, b) ∈ routeB lt key' (d + 1) a0 b0
          (Inner.mk pid (rA ++ k1 :: rs :: rB) (A ++ l :: r :: B) : Inner K (Node K V d)) := by
      intro key' x a b hx hne
      refine route_ins hsw key' a0 b0 pid _ _ A B c l r rs hins hs1 hs2 hP1.1 ?_ x a b
        (hroute1 key' x a b hx hne) hne
      rw [hnl]
      exact sp.route key'
    -- where the key goes in the rewritten parent
    have hidx2 : searchLE lt key (rA ++ k1 :: rs :: rB) = if lt key rs = true then A.length else A.length + 1 := by
      have hp1 := searchLE_picks hsw key _ hs1 (by simp)
      rw [hidx1] at hp1
      have := picks_unique hsw key _ hs2 _ (picks_ins hsw key _ _ (A.length + 1) rs (by omega) hins hs2 _ hp1)
      rw [this]
      unfold insIdx
      rw [if_neg (by omega), if_pos rfl]
    generalize hp2 : (Inner.mk pid (rA ++ k1 :: rs :: rB) (A ++ l :: r :: B) : Inner K (Node K V d)) = p2
      at hcomp hO2 hP2 hroute2
    have hp2id : p2.id = pid := by rw [← hp2]
    have hf' : s.tree.find p2.id = some ⟨d + 1, (Inner.mk pid (rA ++ k :: rB) (A ++ c :: B) : Inner K (Node K V d))⟩ := by
      rw [hp2id]; exact hfind
    have z' : Zoom lt p2.id s.tree.depth none none s.tree.root (d + 1)
        (Inner.mk pid (rA ++ k :: rB) (A ++ c :: B) : Inner K (Node K V d)) a0 b0 PL PR := by
      rw [hp2id]; exact z
    obtain ⟨hOt, hPt, habs, hst, hf1, hon1⟩ := putInner_kfacts hsw p2 hf' hids hpar z' hO2 hP2
      (by rw [← hp2]; exact pairs_ins pid _ _ A B c l r sp.pairs) (fun x => x = pid ∨ x = child)
      (fun key' x a b hx hW => hroute2 key' x a b hx (hcW x hW))
    -- all notions below ignore the allocation counter
    have hOt' : OrdTree lt (splitState s p2).tree := hOt
    have hPt' : ParTree (splitState s p2).tree := hPt
    have habs' : (splitState s p2).tree.abs = s.tree.abs := habs
    have hf1' : (splitState s p2).tree.find p2.id = some ⟨d + 1, p2⟩ := hf1
    have hst' : Stable lt H s.tree (splitState s p2).tree := hstable _ hst
    have hon : OnRoute lt (splitState s p2).tree key p2.id := hon1 key (by rw [hp2id]; exact ⟨a0, b0, hab⟩)
    have hok1 : TreeOk hole (splitState s p2).tree := by
      have hp := hpost (some true)
      rw [hcomp (some true)] at hp
      by_cases c : (!lt key rs) = true
      · rw [if_pos c] at hp; exact hp
      · rw [if_neg c, upContinue_tree_yield] at hp; exact hp
    rw [hcomp y]
    by_cases cc : (!lt key rs) = true
    · rw [if_pos cc]
      have cc' : lt key rs = false := by simpa using cc
      rw [if_neg (by rw [cc']; simp)] at hidx2
      refine ⟨hOt', ⟨(fun r' hr' => by cases hr'), fun _ _ => habs', fun arg ha => Or.inl ha⟩, ?_, ?_⟩
      · intro q hq
        cases hq
        show InBounds lt (splitState s p2).tree key (Node.id r)
        exact Tree.inBounds_kid hsw hf1' hok1.ids.1 hPt' hOt' key hon rs r
          (by rw [← hp2]; show (rA ++ k1 :: rs :: rB)[searchLE lt key (rA ++ k1 :: rs :: rB)]? = _
              rw [hidx2, ← hlA]; exact form_getElem_next rA rB k1 rs)
          (by rw [← hp2]; show (A ++ l :: r :: B)[searchLE lt key (rA ++ k1 :: rs :: rB)]? = _
              rw [hidx2]; exact form_getElem_next A B l r)
          (fun _ => cc')
      · intro key' id _ hH
        exact hst' key' id hH
    · rw [if_neg cc]
      have cc' : lt key rs = true := by simpa using cc
      rw [if_pos cc'] at hidx2
      refine KRes.continue P hK hpre.pad y child (s1 := St.rel (splitState s p2) t (.node pid)) hok1 hOt' ?_ habs'
        (hrel _) hst'
      have := Tree.inBounds_kid hsw hf1' hok1.ids.1 hPt' hOt' key hon k1 l
        (by rw [← hp2]; show (rA ++ k1 :: rs :: rB)[searchLE lt key (rA ++ k1 :: rs :: rB)]? = _
            rw [hidx2, ← hlA]; exact form_getElem_pivot rA (rs :: rB) k1)
        (by rw [← hp2]; show (A ++ l :: r :: B)[searchLE lt key (rA ++ k1 :: rs :: rB)]? = _
            rw [hidx2]; exact form_getElem_pivot A (r :: B) l)
        (fun _ => hk1key)
      rw [sp.idl, hcid] at this
      exact this

end Gobptree.Conc
