/-
  Separator invariant for Delete, part 5: the parent after a borrow between, or a merge of,
  two adjacent kids.
-/
import Gobptree.Proofs.CIDelParent

namespace Gobptree.Conc
open Gobptree

variable {K V : Type} {lt : K → K → Bool}

local notation:max "⟪" c "⟫" => (c : Inner K (Node K V _))

/-- what the separator layer needs of a rewritten parent: first separator kept, separator
    invariant kept, and the path of every key kept except for the three rewritten nodes -/
def ParentI (lt : K → K → Bool) (Wit : Nat → K → Prop) {d : Nat} (i i' : Inner K (Node K V d)) (a b : Nat) : Prop :=
  i'.runts.head? = i.runts.head? ∧ SepN lt Wit (d + 1) i' ∧
  ∀ key x, x ∈ rids lt key (d + 1) i → x ≠ i.id → x ≠ a → x ≠ b → x ∈ rids lt key (d + 1) i'

theorem mem_pair {α : Type} {a b c : α} {j : Nat} (h : [a, b][j]? = some c) : c = a ∨ c = b := by
  have := List.mem_of_getElem? h
  simpa using this

theorem head?_append_of_ne {α : Type} (a b : List α) (h : a ≠ []) : (a ++ b).head? = a.head? := by
  cases a with
  | nil => exact absurd rfl h
  | cons x a' => rfl

/-! ### borrow -/

theorem parent_borrow_I (h : SWO lt) (Wit : Nat → K → Prop) : ∀ {d : Nat} (i : Inner K (Node K V d)) (lo hi : Option K)
    (rA rB : List K) (A B : List (Node K V d)) (k1 k2 s : K) (c1 c2 c1' c2' : Node K V d),
    i.runts = rA ++ k1 :: k2 :: rB → i.kids = A ++ c1 :: c2 :: B →
    rA.length = A.length → rB.length = B.length →
    Ord lt (d + 1) lo hi i → ParN (d + 1) i →
    BorrowOut lt k1 k2 s (nextLo hi (rB.zip B)) c1 c2 c1' c2' → BorrowShape c1 c2 c1' c2' s →
    ∀ (i' : Inner K (Node K V d)),
      i' = (Inner.mk i.id (rA ++ k1 :: s :: rB) (A ++ c1' :: c2' :: B) : Inner K (Node K V d)) →
      SepN lt Wit (d + 1) i → (∀ x, ¬ Wit (Node.id c2) x) →
      ParentI lt Wit i i' (Node.id c1) (Node.id c2) := by
  intro d
  cases d with
  | zero =>
    intro i lo hi rA rB A B k1 k2 s c1 c2 c1' c2' hr hk hl hlB hO hP out _ i' hi' _ _
    obtain ⟨_, hO', hP', _, _⟩ := parent_borrow h i lo hi rA rB A B k1 k2 s c1 c2 c1' c2' hr hk hl hlB hO hP out i' hi'
    subst hi'
    refine ⟨?_, ⟨fun _ _ => trivial, fun _ _ => trivial⟩, ?_⟩
    · show (rA ++ k1 :: s :: rB).head? = i.runts.head?
      rw [hr]; exact head?_append_cons rA k1 _ _
    · intro key x hx hne h1 h2
      apply parent_route h key i _ rA rB k1 [k2] [s] A B c1 c1' [c2] [c2'] hr hk rfl rfl hl rfl rfl
        (Ord_sorted h i hO hP) (Ord_sorted h _ hO' hP') x hx hne
      intro c hc hxc
      have hxc' : x = Node.id c := List.mem_singleton.1 hxc
      rcases mem_pair hc with e | e
      · rw [e] at hxc'; exact absurd hxc' h1
      · rw [e] at hxc'; exact absurd hxc' h2
  | succ d0 =>
    intro i lo hi rA rB A B k1 k2 s c1 c2 c1' c2' hr hk hl hlB hO hP out sh i' hi' hsep hW2
    obtain ⟨_, hO', hP', _, _⟩ := parent_borrow h i lo hi rA rB A B k1 k2 s c1 c2 c1' c2' hr hk hl hlB hO hP out i' hi'
    subst hi'
    obtain ⟨_, hO1, h12, hO2, _, _⟩ := parent_split2 i lo hi rA rB A B k1 k2 c1 c2 hr hk hl hO
    have hP1 : ParN (d0 + 1) c1 := hP.2.2 c1 (by rw [hk]; exact List.mem_append_right _ List.mem_cons_self)
    have hP2 : ParN (d0 + 1) c2 := hP.2.2 c2 (by rw [hk]; exact List.mem_append_right _ (List.mem_cons_of_mem _ List.mem_cons_self))
    have sh' : ⟪c1'⟫.runts ++ ⟪c2'⟫.runts = ⟪c1⟫.runts ++ ⟪c2⟫.runts ∧
      ⟪c1'⟫.kids ++ ⟪c2'⟫.kids = ⟪c1⟫.kids ++ ⟪c2⟫.kids ∧
      ⟪c1'⟫.runts.length = ⟪c1'⟫.kids.length ∧ ⟪c1'⟫.runts.head? = ⟪c1⟫.runts.head? ∧ ⟪c1'⟫.runts ≠ [] ∧
      ⟪c2'⟫.runts.head? = some s := sh
    obtain ⟨sh1, sh2, sh3, sh4, sh5, sh6⟩ := sh'
    have hs12 : Sorted lt (⟪c1⟫.runts ++ ⟪c2⟫.runts) := sorted_concat h c1 c2 hO1 hO2 hP1 hP2
    have hzip : i.runts.zip i.kids = rA.zip A ++ (k1, c1) :: (k2, c2) :: rB.zip B := by
      rw [hr, hk, zip_decomp rA (k2 :: rB) k1 A (c2 :: B) c1 hl, List.zip_cons_cons]
    obtain ⟨hsz, hsk⟩ := hsep
    rw [hzip] at hsz
    rw [hk] at hsk
    have hs1 : SepN lt Wit (d0 + 1) c1 := hsk c1 (by simp)
    have hs2 : SepN lt Wit (d0 + 1) c2 := hsk c2 (by simp)
    obtain ⟨r0, hr0, he0⟩ : ∃ r0, ⟪c2⟫.runts.head? = some r0 ∧ eqv lt k2 r0 = true := by
      rcases (headOK_succ Wit k2 c2).1 (hsz (k2, c2) (by simp)) with hh | hw
      · exact hh
      · exact absurd hw (hW2 k2)
    have hne1 : ⟪c1⟫.runts ≠ [] := by
      intro e
      have := hP1.2.1
      rw [e] at this
      simp at this
    have hpool := zip_pool ⟪c1⟫.runts ⟪c2⟫.runts ⟪c1'⟫.runts ⟪c2'⟫.runts ⟪c1⟫.kids ⟪c2⟫.kids ⟪c1'⟫.kids ⟪c2'⟫.kids
      sh1 sh2 hP1.1 sh3
    refine ⟨?_, ⟨?_, ?_⟩, ?_⟩
    · show (rA ++ k1 :: s :: rB).head? = i.runts.head?
      rw [hr]; exact head?_append_cons rA k1 _ _
    · show ∀ e ∈ (rA ++ k1 :: s :: rB).zip (A ++ c1' :: c2' :: B),
        headOK lt Wit (d0 + 1) e.1 e.2
      rw [zip_decomp rA (s :: rB) k1 A (c2' :: B) c1' hl, List.zip_cons_cons]
      intro e he
      rcases List.mem_append.1 he with he | he
      · exact hsz e (List.mem_append_left _ he)
      · rcases List.mem_cons.1 he with rfl | he
        · exact headOK_congr Wit k1 c1 c1' out.id1 sh4 (hsz (k1, c1) (by simp))
        · rcases List.mem_cons.1 he with rfl | he
          · exact (headOK_succ Wit s c2').2 (Or.inl ⟨s, sh6, h.eqv_refl s⟩)
          · exact hsz e (List.mem_append_right _ (List.mem_cons_of_mem _ (List.mem_cons_of_mem _ he)))
    · intro y hy
      have hy' : y ∈ A ++ c1' :: c2' :: B := hy
      rcases List.mem_append.1 hy' with hy' | hy'
      · exact hsk y (List.mem_append_left _ hy')
      · rcases List.mem_cons.1 hy' with e | hy'
        · rw [e]
          apply sepN_pool Wit c1 c2 c1' ?_ ?_ hs1 hs2
          · intro e he
            rw [← hpool]; exact List.mem_append_left _ he
          · intro g hg
            rw [← sh2]; exact List.mem_append_left _ hg
        · rcases List.mem_cons.1 hy' with e | hy'
          · rw [e]
            apply sepN_pool Wit c1 c2 c2' ?_ ?_ hs1 hs2
            · intro e he
              rw [← hpool]; exact List.mem_append_right _ he
            · intro g hg
              rw [← sh2]; exact List.mem_append_right _ hg
          · exact hsk y (List.mem_append_right _ (List.mem_cons_of_mem _ (List.mem_cons_of_mem _ hy')))
    · intro key x hx hne h1 h2
      apply parent_route h key i _ rA rB k1 [k2] [s] A B c1 c1' [c2] [c2'] hr hk rfl rfl hl rfl rfl
        (Ord_sorted h i hO hP) (Ord_sorted h _ hO' hP') x hx hne
      intro c hc hxc
      obtain ⟨cc, hcc, hgk⟩ := pair_gk h key c1 c2 k1 k2 r0 h12 hs12 hne1 hP1.1 hr0 he0
      have ecc : some cc = some c := hcc.symm.trans hc
      injection ecc with ecc
      subst ecc
      have hne' : x ≠ Node.id (d := d0 + 1) cc := by
        rcases mem_pair hcc with e | e
        · rw [e]; exact h1
        · rw [e]; exact h2
      obtain ⟨g, hg, hxg⟩ := mem_rids_succ key cc x hxc hne'
      rw [hgk] at hg
      obtain ⟨cc', hcc', hgk'⟩ := pair_gk h key c1' c2' k1 s s out.lt1 (by rw [sh1]; exact hs12) sh5 sh3 sh6
        (h.eqv_refl s)
      rw [sh1, sh2, hg] at hgk'
      refine ⟨cc', hcc', ?_⟩
      rw [rids_succ_of key cc' g hgk']
      exact List.mem_cons_of_mem _ hxg

/-! ### merge -/

theorem parent_merge_I (h : SWO lt) (Wit : Nat → K → Prop) : ∀ {d : Nat} (i : Inner K (Node K V d)) (lo hi : Option K)
    (rA rB : List K) (A B : List (Node K V d)) (k1 k2 : K) (c1 c2 m : Node K V d),
    i.runts = rA ++ k1 :: k2 :: rB → i.kids = A ++ c1 :: c2 :: B →
    rA.length = A.length → rB.length = B.length →
    Ord lt (d + 1) lo hi i → ParN (d + 1) i →
    MergeOut lt k1 k2 (nextLo hi (rB.zip B)) c1 c2 m → MergeShape c1 c2 m →
    ∀ (i' : Inner K (Node K V d)),
      i' = (Inner.mk i.id (rA ++ k1 :: rB) (A ++ m :: B) : Inner K (Node K V d)) →
      SepN lt Wit (d + 1) i → (∀ x, ¬ Wit (Node.id c2) x) →
      ParentI lt Wit i i' (Node.id c1) (Node.id c2) := by
  intro d
  cases d with
  | zero =>
    intro i lo hi rA rB A B k1 k2 c1 c2 m hr hk hl hlB hO hP out _ i' hi' _ _
    obtain ⟨_, hO', hP', _, _⟩ := parent_merge h i lo hi rA rB A B k1 k2 c1 c2 m hr hk hl hlB hO hP out i' hi'
    subst hi'
    refine ⟨?_, ⟨fun _ _ => trivial, fun _ _ => trivial⟩, ?_⟩
    · show (rA ++ k1 :: rB).head? = i.runts.head?
      rw [hr]; exact head?_append_cons rA k1 _ _
    · intro key x hx hne h1 h2
      apply parent_route h key i _ rA rB k1 [k2] [] A B c1 m [c2] [] hr hk rfl rfl hl rfl rfl
        (Ord_sorted h i hO hP) (Ord_sorted h _ hO' hP') x hx hne
      intro c hc hxc
      have hxc' : x = Node.id c := List.mem_singleton.1 hxc
      rcases mem_pair hc with e | e
      · rw [e] at hxc'; exact absurd hxc' h1
      · rw [e] at hxc'; exact absurd hxc' h2
  | succ d0 =>
    intro i lo hi rA rB A B k1 k2 c1 c2 m hr hk hl hlB hO hP out sh i' hi' hsep hW2
    obtain ⟨_, hO', hP', _, _⟩ := parent_merge h i lo hi rA rB A B k1 k2 c1 c2 m hr hk hl hlB hO hP out i' hi'
    subst hi'
    obtain ⟨_, hO1, h12, hO2, _, _⟩ := parent_split2 i lo hi rA rB A B k1 k2 c1 c2 hr hk hl hO
    have hP1 : ParN (d0 + 1) c1 := hP.2.2 c1 (by rw [hk]; exact List.mem_append_right _ List.mem_cons_self)
    have hP2 : ParN (d0 + 1) c2 := hP.2.2 c2 (by rw [hk]; exact List.mem_append_right _ (List.mem_cons_of_mem _ List.mem_cons_self))
    have sh' : ⟪m⟫.runts = ⟪c1⟫.runts ++ ⟪c2⟫.runts ∧ ⟪m⟫.kids = ⟪c1⟫.kids ++ ⟪c2⟫.kids := sh
    obtain ⟨sh1, sh2⟩ := sh'
    have hs12 : Sorted lt (⟪c1⟫.runts ++ ⟪c2⟫.runts) := sorted_concat h c1 c2 hO1 hO2 hP1 hP2
    have hzip : i.runts.zip i.kids = rA.zip A ++ (k1, c1) :: (k2, c2) :: rB.zip B := by
      rw [hr, hk, zip_decomp rA (k2 :: rB) k1 A (c2 :: B) c1 hl, List.zip_cons_cons]
    obtain ⟨hsz, hsk⟩ := hsep
    rw [hzip] at hsz
    rw [hk] at hsk
    have hs1 : SepN lt Wit (d0 + 1) c1 := hsk c1 (by simp)
    have hs2 : SepN lt Wit (d0 + 1) c2 := hsk c2 (by simp)
    obtain ⟨r0, hr0, he0⟩ : ∃ r0, ⟪c2⟫.runts.head? = some r0 ∧ eqv lt k2 r0 = true := by
      rcases (headOK_succ Wit k2 c2).1 (hsz (k2, c2) (by simp)) with hh | hw
      · exact hh
      · exact absurd hw (hW2 k2)
    have hne1 : ⟪c1⟫.runts ≠ [] := by
      intro e
      have := hP1.2.1
      rw [e] at this
      simp at this
    refine ⟨?_, ⟨?_, ?_⟩, ?_⟩
    · show (rA ++ k1 :: rB).head? = i.runts.head?
      rw [hr]; exact head?_append_cons rA k1 _ _
    · show ∀ e ∈ (rA ++ k1 :: rB).zip (A ++ m :: B), headOK lt Wit (d0 + 1) e.1 e.2
      rw [zip_decomp rA rB k1 A B m hl]
      intro e he
      rcases List.mem_append.1 he with he | he
      · exact hsz e (List.mem_append_left _ he)
      · rcases List.mem_cons.1 he with rfl | he
        · refine headOK_congr Wit k1 c1 m out.id ?_ (hsz (k1, c1) (by simp))
          show ⟪m⟫.runts.head? = ⟪c1⟫.runts.head?
          rw [sh1]; exact head?_append_of_ne _ _ hne1
        · exact hsz e (List.mem_append_right _ (List.mem_cons_of_mem _ (List.mem_cons_of_mem _ he)))
    · intro y hy
      have hy' : y ∈ A ++ m :: B := hy
      rcases List.mem_append.1 hy' with hy' | hy'
      · exact hsk y (List.mem_append_left _ hy')
      · rcases List.mem_cons.1 hy' with e | hy'
        · rw [e]
          apply sepN_pool Wit c1 c2 m ?_ ?_ hs1 hs2
          · intro e he
            rw [sh1, sh2, zip_surgery _ _ _ _ hP1.1] at he
            exact he
          · intro g hg
            rw [sh2] at hg; exact hg
        · exact hsk y (List.mem_append_right _ (List.mem_cons_of_mem _ (List.mem_cons_of_mem _ hy')))
    · intro key x hx hne h1 h2
      apply parent_route h key i _ rA rB k1 [k2] [] A B c1 m [c2] [] hr hk rfl rfl hl rfl rfl
        (Ord_sorted h i hO hP) (Ord_sorted h _ hO' hP') x hx hne
      intro c hc hxc
      obtain ⟨cc, hcc, hgk⟩ := pair_gk h key c1 c2 k1 k2 r0 h12 hs12 hne1 hP1.1 hr0 he0
      have ecc : some cc = some c := hcc.symm.trans hc
      injection ecc with ecc
      subst ecc
      have hne' : x ≠ Node.id (d := d0 + 1) cc := by
        rcases mem_pair hcc with e | e
        · rw [e]; exact h1
        · rw [e]; exact h2
      obtain ⟨g, hg, hxg⟩ := mem_rids_succ key cc x hxc hne'
      rw [hgk, ← sh1, ← sh2] at hg
      refine ⟨m, ?_, ?_⟩
      · rw [searchLE_one]; rfl
      · rw [rids_succ_of key m g hg]
        exact List.mem_cons_of_mem _ hxg

end Gobptree.Conc
