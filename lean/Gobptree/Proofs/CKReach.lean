/-
  Reachable configurations of Delete-free program families satisfy the key-order invariant
  (given the per-block results `ResumeKU`).
-/
import Gobptree.Proofs.CKStep

namespace Gobptree.Conc
open Gobptree

variable {K V : Type}

structure KCInv (lt : K → K → Bool) (c : Config K V) : Prop where
  cinv  : CInv c
  kinv  : KInv lt c
  kp    : KParams lt c.P
  nodel : ∀ th ∈ c.threads, isDelPark th.park = false ∧ ∀ op ∈ th.prog, op.isDel = false

theorem init_kcinv (lt : K → K → Bool) (P : Params K) (tree : Tree K V) (progs : List (List (COp K V)))
    (hkp : KParams lt P) (ht : TreeOk none tree) (hord : OrdTree lt tree) (ho : tree.order = P.order)
    (hp : PadOk P) (hd : Disciplined progs) (hnd : NoDelete progs) :
    KCInv lt (Config.init P tree progs) := by
  have hths : ∀ th ∈ (Config.init P tree progs).threads,
      ∃ p ∈ progs, th = { prog := p, pc := 0, park := .start, held := [], cursor := none, exhausted := false } := by
    intro th hth
    simp only [Config.init, List.mem_map] at hth
    obtain ⟨p, hp, e⟩ := hth
    exact ⟨p, hp, e.symm⟩
  refine ⟨init_cinv P tree progs ht ho hp hd (Or.inr hnd), ⟨hord, ?_⟩, hkp, ?_⟩
  · intro th hth
    obtain ⟨p, _, e⟩ := hths th hth
    rw [e]; trivial
  · intro th hth
    obtain ⟨p, hpm, e⟩ := hths th hth
    rw [e]
    exact ⟨rfl, hnd p hpm⟩

theorem step_kcinv (RU : ResumeKU K V) (lt : K → K → Bool) (c c' : Config K V) (t : Nat)
    (hstep : c.step t = some c') (h : KCInv lt c) : KCInv lt c' := by
  have hnd : ∀ th ∈ c.threads, isDelPark th.park = false := fun th hth => (h.nodel th hth).1
  refine ⟨(step_cinv blocks_ok c c' t hstep h.cinv).1, step_kinv_nodel RU lt c c' t hstep h.cinv h.kinv h.kp hnd, ?_, ?_⟩
  · obtain ⟨th, ht, hen, r, hr, hc'⟩ := step_shape hstep
    rw [hc']; exact h.kp
  · obtain ⟨th, ht, hen, r, hr, hc'⟩ := step_shape hstep
    have htm : th ∈ c.threads := List.mem_of_getElem? ht
    have hths' : c'.threads = c.threads.set t r.1 := by rw [hc']
    intro b hb
    obtain ⟨j, hj⟩ := List.getElem?_of_mem hb
    rw [hths'] at hj
    rcases getElem?_set_cases _ _ _ _ _ hj with ⟨_, e⟩ | ⟨hne, hjo⟩
    · have := runThread_nodel c.P t th (stepSt c t th) (h.nodel th htm).2 (h.nodel th htm).1
      rw [← hr] at this
      rw [e]
      exact ⟨this.1, by rw [this.2]; exact (h.nodel th htm).2⟩
    · exact h.nodel b (List.mem_of_getElem? hjo)

theorem reachable_kcinv (RU : ResumeKU K V) (lt : K → K → Bool) (P : Params K) (tree : Tree K V)
    (progs : List (List (COp K V)))
    (hkp : KParams lt P) (ht : TreeOk none tree) (hord : OrdTree lt tree) (ho : tree.order = P.order)
    (hp : PadOk P) (hd : Disciplined progs) (hnd : NoDelete progs)
    (c : Config K V) (hr : Reachable (Config.init P tree progs) c) : KCInv lt c := by
  induction hr with
  | refl => exact init_kcinv lt P tree progs hkp ht hord ho hp hd hnd
  | @step c1 c2 t _ hs ih => exact step_kcinv RU lt c1 c2 t hs ih

end Gobptree.Conc
