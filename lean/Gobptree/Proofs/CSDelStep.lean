/-
  Tree-level steps of Delete: the rebalancing of one activation (find the node, `rebalance`,
  write it back), the leaf deletion, the root collapse — each as a local rewrite of the
  flat view with the tree invariant re-established for the new hole.
-/
import Gobptree.Proofs.CSDelReb

namespace Gobptree.Conc
open Gobptree

variable {K V : Type}

/-! ### what `find` tells about the flat view -/

theorem find_facts {t : Tree K V} {n d' : Nat} {m : Node K V d'} (hf : t.find n = some ⟨d', m⟩) :
    Node.id m = n ∧ t.look n = some (shallow m) ∧ ∃ L R, t.flat = L ++ flat m ++ R := by
  obtain ⟨hid, L, R, hflat, _⟩ := Tree.find_modify hf
  refine ⟨hid, ?_, L, R, hflat⟩
  rw [look_eq_find, hf]; rfl

theorem kid_mem_flat {d : Nat} (i : Inner K (Node K V d)) (k : Node K V d) (hk : k ∈ i.kids) :
    (Node.id k, shallow k) ∈ flat (d := d + 1) i := by
  rw [flat_inner]
  exact List.mem_cons_of_mem _ (List.mem_flatMap.2 ⟨k, hk, self_mem_flat k⟩)

theorem shallow_kids_getElem {d : Nat} (i : Inner K (Node K V d)) (j c : Nat) :
    (shallow (d := d + 1) i).kids[j]? = some c ↔ ∃ k, i.kids[j]? = some k ∧ Node.id k = c := by
  rw [shallow_inner_kids, List.getElem?_map]
  cases i.kids[j]? with
  | none => simp
  | some k => simp

/-- distinct children of a node have distinct identities -/
theorem kids_id_ne {d : Nat} (i : Inner K (Node K V d)) (hn : ((flat (d := d + 1) i).map Prod.fst).Nodup)
    {j j' : Nat} {k k' : Node K V d} (hk : i.kids[j]? = some k) (hk' : i.kids[j']? = some k') (hne : j ≠ j') :
    Node.id k ≠ Node.id k' := by
  have key : ∀ (a b : Nat) (x y : Node K V d), i.kids[a]? = some x → i.kids[b]? = some y → a < b →
      Node.id x ≠ Node.id y := by
    intro a b x y hx hy hlt
    obtain ⟨s1, s2, hs, _, _⟩ := flat_siblings (d := d + 1) i i.id (shallow (d := d + 1) i) a b (Node.id x) (Node.id y)
      (self_mem_flat (d := d + 1) i) ((shallow_kids_getElem i a _).2 ⟨x, hx, rfl⟩)
      ((shallow_kids_getElem i b _).2 ⟨y, hy, rfl⟩) hlt
    have h2 := hn.sublist (hs.map Prod.fst)
    simp only [List.map_cons, List.map_nil, List.nodup_cons, List.mem_singleton] at h2
    exact h2.1
  rcases Nat.lt_or_gt_of_ne hne with h | h
  · exact key j j' k k' hk hk' h
  · exact (key j' j k' k hk' hk h).symm

/-- a node one level below another node of the tree is not the root -/
theorem ne_root_of_height {t : Tree K V} (hi : IdsOk t) {x y : Nat} {sx sy : Shallow K V}
    (hx : t.look x = some sx) (hy : t.look y = some sy) (hlt : sx.height < sy.height) : x ≠ t.rootId := by
  intro e
  rw [e, look_root hi] at hx
  cases hx
  have := look_height_le hy
  rw [shallow_height] at hlt
  omega

theorem ne_of_height {t : Tree K V} {x y : Nat} {sx sy : Shallow K V}
    (hx : t.look x = some sx) (hy : t.look y = some sy) (hlt : sx.height < sy.height) : x ≠ y := by
  intro e
  rw [e, hy] at hx
  cases hx
  omega

theorem minOf_none_root_ge {o r id h : Nat} (ho : 4 ≤ o) (hh : 0 < h) : 2 ≤ minOf o r none id h := by
  unfold minOf
  by_cases h1 : id = r
  · have : h ≠ 0 := by omega
    simp [h1, this]
  · simp [h1]; omega

theorem minOf_none_nonroot {o r id h : Nat} (h1 : id ≠ r) : minOf o r none id h = o / 2 := by
  simp [minOf, h1]

/-! ### the hypotheses of `rebalance`, read off the tree -/

theorem rebIn_of_tree {t : Tree K V} {n c index d : Nat} {i : Inner K (Node K V d)}
    (hok : TreeOk' (some c) t) (hf : t.find n = some ⟨d + 1, i⟩)
    (hkid : t.kidAt n index = some c) (hsmall : isSmall t c) :
    ∃ child, i.kids[index]? = some child ∧ Node.id child = c ∧ RebIn t.order i index child ∧
      NodeOcc t.order (minOf t.order t.rootId none n (d + 1)) (shallow (d := d + 1) i) := by
  obtain ⟨hid, hlook, L, R, hflat⟩ := find_facts hf
  have hkid' : (shallow (d := d + 1) i).kids[index]? = some c := by
    unfold Tree.kidAt at hkid
    rw [hlook] at hkid
    simpa using hkid
  obtain ⟨child, hc, hcid⟩ := (shallow_kids_getElem i index c).1 hkid'
  have hsub : ∀ e ∈ flat (d := d + 1) i, e ∈ t.flat := by
    intro e he; rw [hflat]; simp [he]
  have hnd : ((flat (d := d + 1) i).map Prod.fst).Nodup := by
    have h1 : t.ids.Nodup := hok.ids.1
    unfold Tree.ids at h1
    rw [hflat] at h1
    refine h1.sublist (List.Sublist.map _ ?_)
    exact (List.sublist_append_right _ _).trans (List.sublist_append_left _ _)
  have hklook : ∀ k ∈ i.kids, t.look (Node.id k) = some (shallow k) := fun k hk =>
    mem_look hok.ids (hsub _ (kid_mem_flat i k hk))
  have hih : (shallow (d := d + 1) i).height = d + 1 := rfl
  have hkroot : ∀ k ∈ i.kids, Node.id k ≠ t.rootId := fun k hk =>
    ne_root_of_height hok.ids (hklook k hk) hlook (by rw [shallow_height, hih]; omega)
  have hcm : child ∈ i.kids := List.mem_of_getElem? hc
  have hlc : t.look c = some (shallow child) := by rw [← hcid]; exact hklook child hcm
  have hnc : c ≠ n := ne_of_height hlc hlook (by rw [shallow_height, hih]; omega)
  have occI : NodeOcc t.order (minOf t.order t.rootId none n (d + 1)) (shallow (d := d + 1) i) := by
    have := hok.occ (n, shallow (d := d + 1) i) (look_mem hlook)
    rw [minOf'_of_ne _ (by simpa using hnc)] at this
    exact this
  refine ⟨child, hc, hcid, ⟨hok.order4, hok.even, occI.par, ?_, hc, ?_, ?_, ?_, hnd, ?_⟩, occI⟩
  · have h1 := occI.2.1
    have h2 := minOf_none_root_ge (o := t.order) (r := t.rootId) (id := n) (h := d + 1) hok.order4 (by omega)
    exact Nat.le_trans h2 h1
  · have := hok.occ (c, shallow child) (look_mem hlc)
    have hcr : c ≠ t.rootId := by rw [← hcid]; exact hkroot child hcm
    simpa [minOf', hcr] using this
  · obtain ⟨sh, hl, hlt⟩ := hsmall
    rw [hlc] at hl
    cases hl
    rw [count_eqD]; exact hlt
  · intro j k hk hne
    have hkm : k ∈ i.kids := List.mem_of_getElem? hk
    have := hok.occ (Node.id k, shallow k) (look_mem (hklook k hkm))
    have hkc : Node.id k ≠ c := by rw [← hcid]; exact kids_id_ne i hnd hk hc hne
    rw [minOf'_of_ne _ (by simpa using fun e => hkc e.symm), minOf_none_nonroot (hkroot k hkm)] at this
    exact this
  · refine ⟨flatLeaves L, flatLeaves R, ?_⟩
    have h1 : Chain (flatLeaves t.flat) := hok.chain
    rw [hflat, flatLeaves_append, flatLeaves_append] at h1
    exact h1

/-! ### one rebalancing step on the tree -/

/-- the tree after the activation on node `n` (routing index `index`) has rebalanced -/
structure StepOut (t : Tree K V) (n index : Nat) (t' : Tree K V) (small' : Bool) : Prop where
  ok : TreeOk' (if small' then some n else none) t'
  root : t'.rootId = t.rootId
  order : t'.order = t.order
  nextId : t'.nextId = t.nextId
  small : small' = true → isSmall t' n
  frame : ∀ keep : Nat → Bool, keep n = false →
    (∀ j x, t.kidAt n j = some x → index ≤ j + 1 → j ≤ index + 1 → keep x = false) →
    FrameEq keep t.flat t'.flat
  look : ∀ x, x ≠ n → (∀ j, t.kidAt n j ≠ some x) → t'.look x = t.look x

theorem rebalance_step (P : Params K) (hp : PadOk P) {t : Tree K V} {n c index d : Nat}
    {i : Inner K (Node K V d)}
    (hok : TreeOk' (some c) t) (hord : t.order = P.order) (hf : t.find n = some ⟨d + 1, i⟩)
    (hkid : t.kidAt n index = some c) (hsmall : isSmall t c) :
    ∃ child i' small', i.kids[index]? = some child ∧
      rebalance P {} (P.order >>> 1) i index child = .ok (i', small') ∧
      StepOut t n index (putInner t i') small' := by
  obtain ⟨child, hc, hcid, hin, occI⟩ := rebIn_of_tree hok hf hkid hsmall
  obtain ⟨i', small', wr, new, heval, out⟩ := rebalance_rw P hp t.order i index child hin
  obtain ⟨hid, hlook, _⟩ := find_facts hf
  have hidn : i.id = n := hid
  rw [shiftRight_one_eq, ← hord]
  refine ⟨child, i', small', hc, heval, ?_⟩
  have hf' : t.find i'.id = some ⟨d + 1, i⟩ := by rw [out.id, hidn]; exact hf
  obtain ⟨L, R, hfl, hfl', hroot, _, hnid, hord'⟩ := putInner_flat i' hf' hok.ids.1
  have hrw := rw_tree hok.ids hfl hfl' out.rw
  have hkidAt : ∀ j (k : Node K V d), i.kids[j]? = some k → t.kidAt n j = some (Node.id k) := by
    intro j k hk
    unfold Tree.kidAt
    rw [hlook]
    exact (shallow_kids_getElem i j _).2 ⟨k, hk, rfl⟩
  have hkh : ∀ j x, t.kidAt n j = some x → x ≠ n ∧ x ≠ t.rootId := by
    intro j x hx
    obtain ⟨shx, hlx, hh⟩ := kid_look hok.ids hx hlook
    exact ⟨ne_of_height hlx hlook (by omega), ne_root_of_height hok.ids hlx hlook (by omega)⟩
  have wrK : ∀ x ∈ wr, x = n ∨ ∃ j, t.kidAt n j = some x ∧ index ≤ j + 1 ∧ j ≤ index + 1 := by
    intro x hx
    rcases out.wr_sub x hx with h | ⟨j, k, hk, hkx, h1, h2⟩
    · exact Or.inl (h.trans hidn)
    · exact Or.inr ⟨j, hkx ▸ hkidAt j k hk, h1, h2⟩
  have hlen := occI.1
  have hmin := occI.2.1
  have ho4 := hok.order4
  have hev := hok.even
  have hih : (shallow (d := d + 1) i').height = d + 1 := rfl
  have hkl : (shallow (d := d + 1) i').keys.length = i'.runts.length := rfl
  have hkl0 : (shallow (d := d + 1) i).keys.length = i.runts.length := rfl
  rw [hkl0] at hlen hmin
  have hok' : TreeOk' (if small' then some n else none) (putInner t i') := by
    refine treeOk_of_rw hok hrw hroot hord' hnid ?_ ?_
    · intro e he
      rcases out.new_occ e he with rfl | ⟨⟨j, k, hk, hke⟩, hocc⟩
      · simp only [hih, hidn]
        refine NodeOcc.of_par out.par ?_ ?_
        · rw [hkl]; rcases out.cnt with ⟨_, hl⟩ | ⟨hl, _⟩ <;> omega
        · rw [hkl]
          rcases out.cnt with ⟨hs, hl⟩ | ⟨hl, hs⟩
          · subst hs
            simp only [Bool.false_eq_true, if_false, minOf'_none]
            omega
          · by_cases hlt : i'.runts.length < t.order / 2
            · have : small' = true := by rw [hs]; simpa using hlt
              subst this
              simp only [if_true]
              unfold minOf at hmin
              unfold minOf'
              by_cases hr : n = t.rootId
              · simp [hr] at hmin ⊢; omega
              · simp [hr] at hmin ⊢; omega
            · have : small' = false := by rw [hs]; simpa using hlt
              subst this
              simp only [Bool.false_eq_true, if_false, minOf'_none]
              unfold minOf
              by_cases hr : n = t.rootId
              · simp [hr]; omega
              · simp [hr]; omega
      · have hx := hkidAt j k hk
        rw [hke] at hx
        obtain ⟨h1, h2⟩ := hkh j _ hx
        have hne : (if small' = true then some n else none) ≠ some e.1 := by
          cases small' <;> simp
          exact fun e' => h1 e'.symm
        rw [minOf'_of_ne _ hne, minOf_none_nonroot h2]
        exact hocc
    · intro h hh
      simp only [Option.some.injEq] at hh
      subst hh
      right
      rw [← hcid]; exact out.child_wr
  refine ⟨hok', hroot, hord', hnid, ?_, ?_, ?_⟩
  · intro hs
    have hm : (i'.id, shallow (d := d + 1) i') ∈ (putInner t i').flat := by
      rw [hfl']; simp [flat_inner]
    rw [out.id, hidn] at hm
    refine ⟨_, mem_look hok'.ids hm, ?_⟩
    rw [hkl, hord']
    rcases out.cnt with ⟨hs', _⟩ | ⟨_, hs'⟩
    · rw [hs] at hs'; cases hs'
    · rw [hs] at hs'; simpa using hs'.symm
  · intro keep hkn hkk
    apply hrw.frameEq
    intro x hx
    rcases wrK x hx with rfl | ⟨j, hj, h1, h2⟩
    · exact hkn
    · exact hkk j x hj h1 h2
  · intro x hxn hxk
    apply look_of_rw hrw
    intro hx
    rcases wrK x hx with h | ⟨j, hj, _, _⟩
    · exact hxn h
    · exact hxk j hj

end Gobptree.Conc
