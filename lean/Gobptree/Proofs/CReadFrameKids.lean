/-
  READ FRAME, part 3b: list surgery on related children lists; distinct identities after a
  write that adds fresh children.
-/
import Gobptree.Proofs.CReadFrameWrite

namespace Gobptree.Conc
open Gobptree

variable {K V : Type}

section
variable {S : Nat → Prop} {d : Nat}

theorem KRel.nil : KRel S ([] : List (Node K V d)) [] := ⟨rfl, fun j c1 c2 h => by simp at h⟩

theorem KRel.single {c1 c2 : Node K V d} (h : NRel c1 c2) : KRel S [c1] [c2] := by
  refine ⟨rfl, ?_⟩
  intro j a1 a2 h1 h2
  cases j with
  | zero =>
    simp only [List.getElem?_cons_zero, Option.some.injEq] at h1 h2
    subst h1 h2
    exact ⟨h.1, fun _ => h.2⟩
  | succ j => simp at h1

theorem KRel.single' {c1 c2 : Node K V d} (hid : Node.id c1 = Node.id c2)
    (hsh : S (Node.id c1) → shallow c1 = shallow c2) : KRel S [c1] [c2] := by
  refine ⟨rfl, ?_⟩
  intro j a1 a2 h1 h2
  cases j with
  | zero =>
    simp only [List.getElem?_cons_zero, Option.some.injEq] at h1 h2
    subst h1 h2
    exact ⟨hid, hsh⟩
  | succ j => simp at h1

theorem KRel.append {a1 a2 b1 b2 : List (Node K V d)} (ha : KRel S a1 a2) (hb : KRel S b1 b2) :
    KRel S (a1 ++ b1) (a2 ++ b2) := by
  refine ⟨by rw [List.length_append, List.length_append, ha.1, hb.1], ?_⟩
  intro j c1 c2 h1 h2
  by_cases hj : j < a1.length
  · rw [List.getElem?_append_left hj] at h1
    rw [List.getElem?_append_left (by rw [← ha.1]; exact hj)] at h2
    exact ha.2 j c1 c2 h1 h2
  · rw [List.getElem?_append_right (by omega)] at h1
    rw [List.getElem?_append_right (by rw [← ha.1]; omega), ← ha.1] at h2
    exact hb.2 _ c1 c2 h1 h2

theorem KRel.split {a1 a2 b1 b2 : List (Node K V d)} (h : KRel S (a1 ++ b1) (a2 ++ b2))
    (hl : a1.length = a2.length) : KRel S a1 a2 ∧ KRel S b1 b2 := by
  have hlen := h.1
  rw [List.length_append, List.length_append] at hlen
  refine ⟨⟨hl, ?_⟩, ⟨by omega, ?_⟩⟩
  · intro j c1 c2 h1 h2
    have hj : j < a1.length := (List.getElem?_eq_some_iff.1 h1).1
    apply h.2 j c1 c2
    · rw [List.getElem?_append_left hj]; exact h1
    · rw [List.getElem?_append_left (by rw [← hl]; exact hj)]; exact h2
  · intro j c1 c2 h1 h2
    apply h.2 (a1.length + j) c1 c2
    · rw [List.getElem?_append_right (by omega)]
      rw [show a1.length + j - a1.length = j by omega]; exact h1
    · rw [List.getElem?_append_right (by omega)]
      rw [show a1.length + j - a2.length = j by omega]; exact h2

theorem KRel.cons {c1 c2 : Node K V d} {k1 k2 : List (Node K V d)} (hid : Node.id c1 = Node.id c2)
    (hsh : S (Node.id c1) → shallow c1 = shallow c2) (hk : KRel S k1 k2) : KRel S (c1 :: k1) (c2 :: k2) :=
  (KRel.single' hid hsh).append hk

theorem KRel.cons_inv {c1 c2 : Node K V d} {k1 k2 : List (Node K V d)} (h : KRel S (c1 :: k1) (c2 :: k2)) :
    (Node.id c1 = Node.id c2 ∧ (S (Node.id c1) → shallow c1 = shallow c2)) ∧ KRel S k1 k2 :=
  ⟨h.2 0 c1 c2 rfl rfl, (KRel.split (a1 := [c1]) (a2 := [c2]) h rfl).2⟩

theorem KRel.getElem? {k1 k2 : List (Node K V d)} (h : KRel S k1 k2) (j : Nat) :
    (k1[j]? = none ∧ k2[j]? = none) ∨
    ∃ c1 c2, k1[j]? = some c1 ∧ k2[j]? = some c2 ∧ Node.id c1 = Node.id c2 ∧ (S (Node.id c1) → shallow c1 = shallow c2) := by
  by_cases hj : j < k1.length
  · right
    have hj2 : j < k2.length := by rw [← h.1]; exact hj
    refine ⟨k1[j], k2[j], List.getElem?_eq_getElem hj, List.getElem?_eq_getElem hj2, ?_⟩
    exact h.2 j _ _ (List.getElem?_eq_getElem hj) (List.getElem?_eq_getElem hj2)
  · left
    exact ⟨List.getElem?_eq_none (by omega), List.getElem?_eq_none (by rw [← h.1]; omega)⟩

end

/-! ### distinct identities after writing an inner node with fresh children -/

theorem putInner_nodup {T : Tree K V} {d : Nat} {p : Node K V (d + 1)} (p' : Inner K (Node K V d))
    (h : T.find p'.id = some ⟨d + 1, p⟩) (hn : T.ids.Nodup)
    (ht : (tails p'.kids).Perm (tails (p : Inner K (Node K V d)).kids))
    (F : List Nat) (hF : F.Nodup) (hFT : ∀ i ∈ F, i ∉ T.ids)
    (hk : (p'.kids.map (Node.id (d := d))).Perm (F ++ (p : Inner K (Node K V d)).kids.map (Node.id (d := d)))) :
    (putInner T p').ids.Nodup := by
  obtain ⟨Z, hp, hp'⟩ := putInner_perm p' h hn ht
  have hidp : (p : Inner K (Node K V d)).id = p'.id := (find_facts h).1
  have e1 : T.ids.Perm (Z.map Prod.fst ++ (p'.id :: (p : Inner K (Node K V d)).kids.map (Node.id (d := d)))) := by
    have := hp.map Prod.fst
    simp only [List.map_append] at this
    refine this.trans ?_
    show (Z.map Prod.fst ++ ((p : Inner K (Node K V d)).id :: ((p : Inner K (Node K V d)).kids.map top).map Prod.fst)).Perm _
    rw [hidp, List.map_map]
    exact List.Perm.refl _
  have e2 : (putInner T p').ids.Perm (Z.map Prod.fst ++ (p'.id :: p'.kids.map (Node.id (d := d)))) := by
    have := hp'.map Prod.fst
    simp only [List.map_append] at this
    refine this.trans ?_
    show (Z.map Prod.fst ++ (p'.id :: (p'.kids.map top).map Prod.fst)).Perm _
    rw [List.map_map]
    exact List.Perm.refl _
  have e3 : (putInner T p').ids.Perm (F ++ T.ids) := by
    refine e2.trans ?_
    refine List.Perm.trans ?_ (List.Perm.append_left F e1.symm)
    refine (List.Perm.append_left _ (List.Perm.cons _ hk)).trans ?_
    -- Z ++ (n :: (F ++ K))  ~  F ++ (Z ++ n :: K)
    have : (p'.id :: (F ++ (p : Inner K (Node K V d)).kids.map (Node.id (d := d)))).Perm
        (F ++ (p'.id :: (p : Inner K (Node K V d)).kids.map (Node.id (d := d)))) := List.perm_middle.symm
    refine (List.Perm.append_left _ this).trans ?_
    exact List.perm_append_comm_assoc _ _ _
  rw [e3.nodup_iff, List.nodup_append]
  refine ⟨hF, hn, ?_⟩
  intro a ha b hb e
  subst e
  exact hFT a ha hb

/-- writing an inner node back in the two runs: the new trees are related and keep distinct
    identities -/
theorem putInner_rf' {S : Nat → Prop} {R : Prop} {T1 T2 : Tree K V} (hT : TRel S R T1 T2)
    {n d : Nat} {p1 p2 p1' p2' : Inner K (Node K V d)}
    (hf1 : T1.find n = some ⟨d + 1, p1⟩) (hf2 : T2.find n = some ⟨d + 1, p2⟩)
    (hid1 : p1'.id = n) (hid2 : p2'.id = n)
    (hn1 : T1.ids.Nodup) (hn2 : T2.ids.Nodup)
    (ht1 : (tails p1'.kids).Perm (tails p1.kids)) (ht2 : (tails p2'.kids).Perm (tails p2.kids))
    (hsh : shallow (d := d + 1) p1 = shallow (d := d + 1) p2)
    (hsh' : shallow (d := d + 1) p1' = shallow (d := d + 1) p2')
    (hk' : KRel S p1'.kids p2'.kids)
    (F : List Nat) (hF : F.Nodup) (hF1 : ∀ i ∈ F, i ∉ T1.ids) (hF2 : ∀ i ∈ F, i ∉ T2.ids)
    (hk1 : (p1'.kids.map (Node.id (d := d))).Perm (F ++ p1.kids.map (Node.id (d := d))))
    (hk2 : (p2'.kids.map (Node.id (d := d))).Perm (F ++ p2.kids.map (Node.id (d := d)))) :
    TRel S R (putInner T1 p1') (putInner T2 p2') ∧ (putInner T1 p1').ids.Nodup ∧ (putInner T2 p2').ids.Nodup := by
  have hn1' := putInner_nodup p1' (by rw [hid1]; exact hf1) hn1 ht1 F hF hF1 hk1
  have hn2' := putInner_nodup p2' (by rw [hid2]; exact hf2) hn2 ht2 F hF hF2 hk2
  exact ⟨putInner_rf hT hf1 hf2 hid1 hid2 hn1 hn2 hn1' hn2' ht1 ht2 hsh hsh' hk', hn1', hn2'⟩

theorem TRel.bump {S : Nat → Prop} {R : Prop} {T1 T2 : Tree K V} (h : TRel S R T1 T2) (k : Nat) :
    TRel S R { T1 with nextId := T1.nextId + k } { T2 with nextId := T2.nextId + k } :=
  ⟨h.order, by show T1.nextId + k = T2.nextId + k; rw [h.nextId], h.look, h.root⟩

theorem smallest_eq_shallow : ∀ {d : Nat} (n : Node K V d),
    Node.smallest n = match (shallow n).keys with
      | [] => throw .noChildren
      | k :: _ => pure k
  | 0, _ => rfl
  | _ + 1, _ => rfl

theorem smallest_of_shallow {d : Nat} {n1 n2 : Node K V d} (h : shallow n1 = shallow n2) :
    Node.smallest n1 = Node.smallest n2 := by
  rw [smallest_eq_shallow, smallest_eq_shallow, h]

end Gobptree.Conc
