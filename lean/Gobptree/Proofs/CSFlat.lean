/-
  Flat-view machinery: `find`/`modify` by identity act on the flat view as a local list
  surgery.  (No invariant of the B+tree is used here except distinct identities.)
-/
import Gobptree.Proofs.CSFlatFacts

namespace Gobptree.Conc
open Gobptree

variable {K V : Type}

theorem flat_zero (n : Node K V 0) : flat n = [((n : Leaf K V).id, shallow n)] := rfl

theorem flat_succ {d : Nat} (n : Node K V (d + 1)) :
    flat n = ((n : Inner K (Node K V d)).id, shallow n) :: (n : Inner K (Node K V d)).kids.flatMap (flat (d := d)) := rfl

theorem flat_mk {d : Nat} (id : Nat) (runts : List K) (kids : List (Node K V d)) :
    flat (d := d + 1) (Inner.mk id runts kids : Inner K (Node K V d)) =
      (id, shallow (d := d + 1) (Inner.mk id runts kids : Inner K (Node K V d))) :: kids.flatMap (flat (d := d)) := rfl

theorem id_mem_flat {d : Nat} (n : Node K V d) : Node.id n ∈ (flat n).map Prod.fst := by
  obtain ⟨rest, h⟩ := flat_head n
  rw [h]; simp

/-- `findNode` fails exactly when the identity does not occur -/
theorem findNode_none (id : Nat) : ∀ (d : Nat) (n : Node K V d),
    findNode id d n = none ↔ id ∉ (flat n).map Prod.fst := by
  intro d
  induction d with
  | zero =>
    intro n
    show (if (n : Leaf K V).id = id then some (⟨0, n⟩ : AnyNode K V) else none) = none ↔ _
    by_cases h : (n : Leaf K V).id = id
    · simp [h, flat_zero]
    · simp [h, flat_zero]; exact fun e => h e.symm
  | succ d ih =>
    intro n
    show (if (n : Inner K (Node K V d)).id = id then some (⟨d + 1, n⟩ : AnyNode K V)
          else (n : Inner K (Node K V d)).kids.findSome? (findNode id d)) = none ↔ _
    by_cases h : (n : Inner K (Node K V d)).id = id
    · simp [h, flat_succ]
    · simp only [h, if_false, flat_succ, List.map_cons, List.mem_cons, not_or, List.findSome?_eq_none_iff]
      constructor
      · intro hk
        refine ⟨fun e => h e.symm, ?_⟩
        intro hm
        simp only [List.map_flatMap, List.mem_flatMap] at hm
        obtain ⟨c, hc, hm⟩ := hm
        exact (ih c).1 (hk c hc) hm
      · rintro ⟨_, hk⟩ c hc
        apply (ih c).2
        intro hm
        apply hk
        simp only [List.map_flatMap, List.mem_flatMap]
        exact ⟨c, hc, hm⟩

/-- rewriting an identity that does not occur changes nothing -/
theorem modifyNode_absent (id : Nat) (f : (d : Nat) → Node K V d → Node K V d) :
    ∀ (d : Nat) (n : Node K V d), id ∉ (flat n).map Prod.fst → modifyNode id f d n = n := by
  intro d
  induction d with
  | zero =>
    intro n h
    have : (n : Leaf K V).id ≠ id := by
      intro e; apply h; simp [flat_zero, e]
    show (if (n : Leaf K V).id = id then f 0 n else n) = n
    simp [this]
  | succ d ih =>
    intro n h
    simp only [flat_succ, List.map_cons, List.mem_cons, not_or] at h
    have h1 : (n : Inner K (Node K V d)).id ≠ id := fun e => h.1 e.symm
    show (if (n : Inner K (Node K V d)).id = id then f (d + 1) n
          else ({ (n : Inner K (Node K V d)) with kids := (n : Inner K (Node K V d)).kids.map (modifyNode id f d) } : Inner K (Node K V d))) = n
    simp only [h1, ↓reduceIte]
    have : (n : Inner K (Node K V d)).kids.map (modifyNode id f d) = (n : Inner K (Node K V d)).kids := by
      conv => rhs; rw [← List.map_id (n : Inner K (Node K V d)).kids]
      apply List.map_congr_left
      intro c hc
      apply ih
      intro hm
      apply h.2
      simp only [List.map_flatMap, List.mem_flatMap]
      exact ⟨c, hc, hm⟩
    rw [this]
    rfl

/-- `findSome?` picks the first element on which the function succeeds -/
theorem findSome?_split {α β : Type} (g : α → Option β) :
    ∀ (l : List α) (b : β), l.findSome? g = some b →
      ∃ A c B, l = A ++ c :: B ∧ g c = some b ∧ ∀ a ∈ A, g a = none := by
  intro l
  induction l with
  | nil => intro b h; simp at h
  | cons x xs ih =>
    intro b h
    rw [List.findSome?_cons] at h
    cases hx : g x with
    | some y =>
      rw [hx] at h
      have : y = b := by simpa using h
      subst this
      exact ⟨[], x, xs, rfl, hx, by simp⟩
    | none =>
      rw [hx] at h
      obtain ⟨A, c, B, e, hc, hA⟩ := ih b h
      refine ⟨x :: A, c, B, by rw [e]; rfl, hc, ?_⟩
      intro a ha
      rcases List.mem_cons.1 ha with rfl | ha
      · exact hx
      · exact hA a ha

/-- **context lemma.** The node found under an identity sits in the flat view as a
    contiguous segment; rewriting that identity replaces exactly this segment. -/
theorem find_modify_flat (id : Nat) : ∀ (d : Nat) (n : Node K V d) (d' : Nat) (m : Node K V d'),
    findNode id d n = some ⟨d', m⟩ →
    Node.id m = id ∧
    ∃ L R, flat n = L ++ flat m ++ R ∧ (∀ p ∈ L, p.1 ≠ id) ∧
      ∀ f : (d : Nat) → Node K V d → Node K V d, ((flat n).map Prod.fst).Nodup →
        Node.id (f d' m) = id →
        flat (modifyNode id f d n) = L ++ flat (f d' m) ++ R ∧
        Node.id (modifyNode id f d n) = Node.id n := by
  intro d
  induction d with
  | zero =>
    intro n d' m h
    have h' : (if (n : Leaf K V).id = id then some (⟨0, n⟩ : AnyNode K V) else none) = some ⟨d', m⟩ := h
    by_cases hid : (n : Leaf K V).id = id
    · simp only [hid, if_true, Option.some.injEq] at h'
      cases h'
      refine ⟨hid, [], [], by simp, by simp, ?_⟩
      intro f _ hfid
      have : modifyNode id f 0 n = f 0 n := by
        show (if (n : Leaf K V).id = id then f 0 n else n) = f 0 n
        simp [hid]
      rw [this]
      exact ⟨by simp, hfid.trans hid.symm⟩
    · simp [hid] at h'
  | succ d ih =>
    intro n d' m h
    have h' : (if (n : Inner K (Node K V d)).id = id then some (⟨d + 1, n⟩ : AnyNode K V)
          else (n : Inner K (Node K V d)).kids.findSome? (findNode id d)) = some ⟨d', m⟩ := h
    by_cases hid : (n : Inner K (Node K V d)).id = id
    · simp only [hid, if_true, Option.some.injEq] at h'
      cases h'
      refine ⟨hid, [], [], by simp, by simp, ?_⟩
      intro f _ hfid
      have : modifyNode id f (d + 1) n = f (d + 1) n := by
        show (if (n : Inner K (Node K V d)).id = id then f (d + 1) n else _) = f (d + 1) n
        simp [hid]
      rw [this]
      exact ⟨by simp, hfid.trans hid.symm⟩
    · simp only [hid, if_false] at h'
      obtain ⟨A, c, B, hk, hc, hA⟩ := findSome?_split _ _ _ h'
      obtain ⟨hmid, L, R, hflat, hL, hmod⟩ := ih c d' m hc
      refine ⟨hmid, ((n : Inner K (Node K V d)).id, shallow (d := d + 1) n) :: A.flatMap flat ++ L,
        R ++ B.flatMap flat, ?_, ?_, ?_⟩
      · rw [flat_succ, hk, List.flatMap_append, List.flatMap_cons, hflat]
        simp [List.append_assoc]
      · intro p hp
        rcases List.mem_append.1 hp with hp | hp
        · rcases List.mem_cons.1 hp with rfl | hp
          · exact hid
          · intro e
            obtain ⟨a, ha, hpa⟩ := List.mem_flatMap.1 hp
            have := (findNode_none id d a).1 (hA a ha)
            apply this
            exact List.mem_map.2 ⟨p, hpa, e⟩
        · exact hL p hp
      · intro f hnd hfid
        have hnd' : ((n : Inner K (Node K V d)).id :: ((A.flatMap flat).map Prod.fst ++
            ((flat c).map Prod.fst ++ (B.flatMap flat).map Prod.fst))).Nodup := by
          have := hnd
          rw [flat_succ, hk, List.flatMap_append, List.flatMap_cons] at this
          simpa [List.map_append] using this
        have hidc : id ∈ (flat c).map Prod.fst := by
          have := id_mem_flat m
          rw [hmid] at this
          rw [hflat]
          simp only [List.map_append, List.mem_append]
          exact Or.inl (Or.inr this)
        have hndc : ((flat c).map Prod.fst).Nodup := by
          have := (List.nodup_cons.1 hnd').2
          exact (List.nodup_append.1 (List.nodup_append.1 this).2.1).1
        have hB : ∀ b ∈ B, modifyNode id f d b = b := by
          intro b hb
          apply modifyNode_absent
          intro hm
          have h2 := (List.nodup_cons.1 hnd').2
          have h3 := (List.nodup_append.1 h2).2.1
          have h4 := (List.nodup_append.1 h3).2.2
          refine h4 id hidc id ?_ rfl
          simp only [List.map_flatMap, List.mem_flatMap]
          exact ⟨b, hb, hm⟩
        have hAm : ∀ a ∈ A, modifyNode id f d a = a := by
          intro a ha
          apply modifyNode_absent
          exact (findNode_none id d a).1 (hA a ha)
        have hkids : (n : Inner K (Node K V d)).kids.map (modifyNode id f d) = A ++ modifyNode id f d c :: B := by
          rw [hk, List.map_append, List.map_cons]
          congr 1
          · conv => rhs; rw [← List.map_id A]
            exact List.map_congr_left hAm
          · congr 1
            conv => rhs; rw [← List.map_id B]
            exact List.map_congr_left hB
        have hmn : modifyNode id f (d + 1) n =
            (Inner.mk (n : Inner K (Node K V d)).id (n : Inner K (Node K V d)).runts (A ++ modifyNode id f d c :: B) : Inner K (Node K V d)) := by
          show (if (n : Inner K (Node K V d)).id = id then f (d + 1) n
            else ({ (n : Inner K (Node K V d)) with kids := (n : Inner K (Node K V d)).kids.map (modifyNode id f d) } : Inner K (Node K V d))) = _
          simp only [hid, ↓reduceIte, hkids]
          rfl
        obtain ⟨hfc, hcid⟩ := hmod f hndc hfid
        refine ⟨?_, ?_⟩
        · rw [hmn, flat_mk]
          simp only [List.flatMap_append, List.flatMap_cons, hfc]
          have : shallow (d := d + 1) (Inner.mk (n : Inner K (Node K V d)).id (n : Inner K (Node K V d)).runts (A ++ modifyNode id f d c :: B) : Inner K (Node K V d)) = shallow n := by
            show Shallow.mk (d + 1) (n : Inner K (Node K V d)).runts [] none ((A ++ modifyNode id f d c :: B).map (Node.id (d := d))) =
              Shallow.mk (d + 1) (n : Inner K (Node K V d)).runts [] none ((n : Inner K (Node K V d)).kids.map (Node.id (d := d)))
            rw [hk]
            simp only [List.map_append, List.map_cons, hcid]
          rw [this]
          simp [List.append_assoc]
        · rw [hmn]; rfl


/-! ### `look` versus `find` -/

theorem lookup_append_of_not_mem {β : Type} (id : Nat) (L R : List (Nat × β)) (h : ∀ p ∈ L, p.1 ≠ id) :
    (L ++ R).lookup id = R.lookup id := by
  induction L with
  | nil => rfl
  | cons x xs ih =>
    obtain ⟨a, b⟩ := x
    have hx : a ≠ id := h (a, b) (by simp)
    have : (id == a) = false := by simp; exact fun e => hx e.symm
    rw [List.cons_append, List.lookup_cons, this]
    exact ih (fun p hp => h p (by simp [hp]))

theorem lookup_none_of_not_mem {β : Type} (id : Nat) (L : List (Nat × β)) (h : id ∉ L.map Prod.fst) :
    L.lookup id = none := by
  induction L with
  | nil => rfl
  | cons x xs ih =>
    obtain ⟨a, b⟩ := x
    simp only [List.map_cons, List.mem_cons, not_or] at h
    have : (id == a) = false := by simp; exact h.1
    rw [List.lookup_cons, this]
    exact ih h.2

/-- `look` returns the own fields of the node `find` returns -/
theorem look_eq_find (t : Tree K V) (id : Nat) :
    t.look id = (t.find id).map fun a => shallow a.n := by
  unfold Tree.look Tree.find Tree.flat
  cases h : findNode id t.depth t.root with
  | none =>
    rw [lookup_none_of_not_mem id _ ((findNode_none id _ _).1 h)]; rfl
  | some a =>
    obtain ⟨d', m⟩ := a
    obtain ⟨hmid, L, R, hflat, hL, _⟩ := find_modify_flat id _ _ d' m h
    obtain ⟨rest, hrest⟩ := flat_head m
    rw [hflat, List.append_assoc, lookup_append_of_not_mem id L _ hL, hrest, hmid]
    simp [List.lookup_cons]

theorem find_some_of_look {t : Tree K V} {id : Nat} {sh : Shallow K V} (h : t.look id = some sh) :
    ∃ a, t.find id = some a ∧ shallow a.n = sh ∧ Node.id a.n = id := by
  rw [look_eq_find] at h
  cases hf : t.find id with
  | none => rw [hf] at h; cases h
  | some a =>
    rw [hf] at h
    obtain ⟨d', m⟩ := a
    obtain ⟨hmid, _⟩ := find_modify_flat id _ _ d' m hf
    exact ⟨⟨d', m⟩, rfl, by simpa using h, hmid⟩

/-- membership form of `look` under distinct identities -/
theorem look_eq_some_iff {t : Tree K V} (hn : t.ids.Nodup) (id : Nat) (sh : Shallow K V) :
    t.look id = some sh ↔ (id, sh) ∈ t.flat := by
  unfold Tree.look
  unfold Tree.ids at hn
  generalize t.flat = l at hn
  induction l with
  | nil => simp
  | cons x xs ih =>
    obtain ⟨a, b⟩ := x
    rw [List.map_cons, List.nodup_cons] at hn
    rw [List.lookup_cons]
    by_cases e : id = a
    · subst e
      simp only [beq_self_eq_true, List.mem_cons, Prod.mk.injEq, true_and]
      constructor
      · intro h; left; exact (Option.some.inj h).symm
      · rintro (h | h)
        · rw [h]
        · exact absurd (List.mem_map.2 ⟨(id, sh), h, rfl⟩) hn.1
    · have : (id == a) = false := by simp; exact e
      rw [this]
      simp only [List.mem_cons, Prod.mk.injEq]
      rw [ih hn.2]
      constructor
      · intro h; exact Or.inr h
      · rintro (⟨h, _⟩ | h)
        · exact absurd h e
        · exact h

/-! ### tree-level context lemma -/

theorem Tree.find_modify {t : Tree K V} {id d' : Nat} {m : Node K V d'} (h : t.find id = some ⟨d', m⟩) :
    Node.id m = id ∧
    ∃ L R, t.flat = L ++ flat m ++ R ∧
      ∀ f : (d : Nat) → Node K V d → Node K V d, t.ids.Nodup → Node.id (f d' m) = id →
        (t.modify id f).flat = L ++ flat (f d' m) ++ R ∧ (t.modify id f).rootId = t.rootId := by
  obtain ⟨hmid, L, R, hflat, _, hmod⟩ := find_modify_flat id _ _ d' m h
  exact ⟨hmid, L, R, hflat, fun f hn hf => hmod f hn hf⟩

theorem putInner_apply {d : Nat} (p' : Inner K (Node K V d)) (m : Node K V (d + 1)) :
    (fun d' (n : Node K V d') => if h : d' = d + 1 then h ▸ (p' : Node K V (d + 1)) else n) (d + 1) m = p' := by
  simp; rfl

/-- writing an inner node back under its own identity -/
theorem putInner_flat {t : Tree K V} {d : Nat} {p : Node K V (d + 1)} (p' : Inner K (Node K V d))
    (h : t.find p'.id = some ⟨d + 1, p⟩) (hn : t.ids.Nodup) :
    ∃ L R, t.flat = L ++ flat p ++ R ∧ (putInner t p').flat = L ++ flat (d := d + 1) p' ++ R ∧
      (putInner t p').rootId = t.rootId ∧ (putInner t p').depth = t.depth ∧
      (putInner t p').nextId = t.nextId ∧ (putInner t p').order = t.order := by
  obtain ⟨_, L, R, hflat, hmod⟩ := Tree.find_modify h
  have := hmod (fun d' n => if h : d' = d + 1 then h ▸ (p' : Node K V (d + 1)) else n) hn (by simp; rfl)
  rw [dif_pos rfl] at this
  exact ⟨L, R, hflat, this.1, this.2, rfl, rfl, rfl⟩

/-- writing a leaf back under its own identity -/
theorem putLeaf_flat {t : Tree K V} {l : Node K V 0} (l' : Leaf K V)
    (h : t.find l'.id = some ⟨0, l⟩) (hn : t.ids.Nodup) :
    ∃ L R, t.flat = L ++ flat l ++ R ∧ (putLeaf t l').flat = L ++ flat (d := 0) l' ++ R ∧
      (putLeaf t l').rootId = t.rootId ∧ (putLeaf t l').depth = t.depth ∧
      (putLeaf t l').nextId = t.nextId ∧ (putLeaf t l').order = t.order := by
  obtain ⟨_, L, R, hflat, hmod⟩ := Tree.find_modify h
  have := hmod (fun d n => match d, n with
    | 0, _ => (l' : Leaf K V)
    | _ + 1, n => n) hn rfl
  exact ⟨L, R, hflat, this.1, this.2, rfl, rfl, rfl⟩

/-! ### local surgery: what carries over from `L ++ A ++ R` to `L ++ A' ++ R` -/

theorem FrameEq.refl (keep : Nat → Bool) (l : List (Nat × Shallow K V)) : FrameEq keep l l := rfl

theorem FrameEq.trans {keep : Nat → Bool} {a b c : List (Nat × Shallow K V)}
    (h1 : FrameEq keep a b) (h2 : FrameEq keep b c) : FrameEq keep a c := Eq.trans h1 h2

theorem FrameEq.context {keep : Nat → Bool} (L R : List (Nat × Shallow K V)) {A A' : List (Nat × Shallow K V)}
    (h : FrameEq keep A A') : FrameEq keep (L ++ A ++ R) (L ++ A' ++ R) := by
  unfold FrameEq at *
  simp only [List.filter_append, h]

/-- weaker `keep` (fewer identities kept) preserves frame equality -/
theorem FrameEq.mono {keep keep' : Nat → Bool} {a b : List (Nat × Shallow K V)}
    (hk : ∀ i, keep' i = true → keep i = true) (h : FrameEq keep a b) : FrameEq keep' a b := by
  unfold FrameEq at *
  have e : ∀ l : List (Nat × Shallow K V),
      l.filter (fun p => keep' p.1) = (l.filter (fun p => keep p.1)).filter (fun p => keep' p.1) := by
    intro l
    rw [List.filter_filter]
    apply List.filter_congr
    intro p _
    cases h1 : keep' p.1 with
    | false => simp
    | true => simp [hk p.1 h1]
  rw [e a, e b, h]

/-- a kept identity has the same own fields before and after -/
theorem FrameEq.lookup {keep : Nat → Bool} {a b : List (Nat × Shallow K V)} (h : FrameEq keep a b)
    (id : Nat) (hk : keep id = true) : a.lookup id = b.lookup id := by
  have key : ∀ l : List (Nat × Shallow K V), l.lookup id = (l.filter (fun p => keep p.1)).lookup id := by
    intro l
    induction l with
    | nil => rfl
    | cons x xs ih =>
      obtain ⟨i, sh⟩ := x
      rw [List.lookup_cons, List.filter_cons]
      by_cases e : id = i
      · subst e
        simp [hk, List.lookup_cons]
      · have hb : (id == i) = false := by simp; exact e
        rw [hb]
        cases hki : keep i with
        | true => simp only [hki, if_true, List.lookup_cons, hb]; exact ih
        | false => simp only [hki]; exact ih
  rw [key a, key b, h]

end Gobptree.Conc
