/-
  The two ends of Delete's unwinding: the deletion in the leaf, and the root collapse.
-/
import Gobptree.Proofs.CSDelStep

namespace Gobptree.Conc
open Gobptree

variable {K V : Type}

/-! ### the leaf -/

theorem deleteKey_facts (P : Params K) (l : Leaf K V) (m : Nat) (key : K)
    (hpar : l.keys.length = l.vals.length) :
    ∃ l' small, Leaf.deleteKey P l m key = .ok (l', small) ∧ l'.id = l.id ∧ l'.next = l.next ∧
      l'.keys.length = l'.vals.length ∧
      ((l' = l ∧ small = false) ∨
       (l'.keys.length + 1 = l.keys.length ∧ small = decide (l'.keys.length < m))) := by
  unfold Leaf.deleteKey
  simp only
  cases hk : l.keys[searchGE P.lt key l.keys]? with
  | none => exact ⟨l, false, rfl, rfl, rfl, hpar, Or.inl ⟨rfl, rfl⟩⟩
  | some k =>
    have hi : searchGE P.lt key l.keys < l.keys.length := (List.getElem?_eq_some_iff.1 hk).1
    simp only
    by_cases he : eqv P.lt key k = true
    · have h1 : ¬ l.vals.length ≤ searchGE P.lt key l.keys := by omega
      simp only [he, Bool.not_true, Bool.false_eq_true, if_false, h1]
      have e1 := deleteIdiom_length l.keys _ hi
      have e2 := deleteIdiom_length l.vals (searchGE P.lt key l.keys) (by omega)
      exact ⟨_, _, rfl, rfl, rfl, by simp only; omega, Or.inr ⟨e1, rfl⟩⟩
    · simp only [he, Bool.not_false, if_true]
      exact ⟨l, false, rfl, rfl, rfl, hpar, Or.inl ⟨rfl, rfl⟩⟩

/-- the tree after the leaf `n` has been processed -/
structure LeafOut (t : Tree K V) (n : Nat) (t' : Tree K V) (small : Bool) : Prop where
  ok : TreeOk' (if small then some n else none) t'
  root : t'.rootId = t.rootId
  order : t'.order = t.order
  nextId : t'.nextId = t.nextId
  small : small = true → isSmall t' n
  frame : ∀ keep : Nat → Bool, keep n = false → FrameEq keep t.flat t'.flat
  look : ∀ x, x ≠ n → t'.look x = t.look x

theorem leaf_step (P : Params K) {t : Tree K V} {n : Nat} {l : Leaf K V}
    (hok : TreeOk' none t) (hord : t.order = P.order) (hf : t.find n = some ⟨0, l⟩) (key : K) :
    ∃ l' small, Leaf.deleteKey P l (P.order >>> 1) key = .ok (l', small) ∧
      LeafOut t n (putLeaf t l') small := by
  obtain ⟨hid, hlook, _⟩ := find_facts hf
  have hidn : l.id = n := hid
  have occ := hok.occ (n, shallow (d := 0) l) (look_mem hlook)
  rw [minOf'_none] at occ
  have hpar : l.keys.length = l.vals.length := (par_leaf l).1 occ.par
  obtain ⟨l', small, heval, hid', hnext, hpar', hcnt⟩ := deleteKey_facts P l (P.order >>> 1) key hpar
  refine ⟨l', small, heval, ?_⟩
  rw [shiftRight_one_eq, ← hord] at hcnt
  have hf' : t.find l'.id = some ⟨0, l⟩ := by rw [hid', hidn]; exact hf
  obtain ⟨L, R, hfl, hfl', hroot, _, hnid, hord'⟩ := putLeaf_flat l' hf' hok.ids.1
  have hs := Rw.single (K := K) (V := V) n (shallow (d := 0) l) (shallow (d := 0) l') rfl (fun _ => hnext)
  have hfl0 : t.flat = L ++ [(n, shallow (d := 0) l)] ++ R := by
    rw [hfl, ← hidn]; rfl
  have hfl0' : (putLeaf t l').flat = L ++ [(n, shallow (d := 0) l')] ++ R := by
    rw [hfl', ← hidn, ← hid']; rfl
  have hrw := rw_tree hok.ids hfl0 hfl0' hs
  have hlen := occ.1
  have hmin := occ.2.1
  have hkl : (shallow (d := 0) l).keys.length = l.keys.length := rfl
  have hkl' : (shallow (d := 0) l').keys.length = l'.keys.length := rfl
  rw [hkl] at hlen hmin
  have ho4 := hok.order4
  have hok' : TreeOk' (if small then some n else none) (putLeaf t l') := by
    refine treeOk_of_rw hok hrw hroot hord' hnid ?_ (by intro h hh; cases hh)
    intro e he
    simp only [List.mem_singleton] at he
    subst he
    refine NodeOcc.of_par ((par_leaf l').2 hpar') ?_ ?_
    · show l'.keys.length ≤ t.order
      rcases hcnt with ⟨rfl, _⟩ | ⟨hl, _⟩ <;> omega
    · show _ ≤ l'.keys.length
      have hh0 : (shallow (d := 0) l').height = 0 := rfl
      simp only [hh0]
      rcases hcnt with ⟨rfl, hs'⟩ | ⟨hl, hs'⟩
      · subst hs'
        simp only [Bool.false_eq_true, if_false, minOf'_none]
        exact hmin
      · by_cases hlt : l'.keys.length < t.order / 2
        · have : small = true := by rw [hs']; simpa using hlt
          subst this
          simp only [if_true]
          unfold minOf at hmin
          unfold minOf'
          by_cases hr : n = t.rootId
          · simp [hr]
          · simp [hr] at hmin ⊢; omega
        · have : small = false := by rw [hs']; simpa using hlt
          subst this
          simp only [Bool.false_eq_true, if_false, minOf'_none]
          unfold minOf
          by_cases hr : n = t.rootId
          · simp [hr]
          · simp [hr]; omega
  refine ⟨hok', hroot, hord', hnid, ?_, ?_, ?_⟩
  · intro hsm
    have hm : (n, shallow (d := 0) l') ∈ (putLeaf t l').flat := by rw [hfl0']; simp
    refine ⟨_, mem_look hok'.ids hm, ?_⟩
    rw [hkl', hord']
    rcases hcnt with ⟨_, hs'⟩ | ⟨_, hs'⟩
    · rw [hsm] at hs'; cases hs'
    · rw [hsm] at hs'; simpa using hs'.symm
  · intro keep hkn
    apply hrw.frameEq
    intro x hx
    simp only [List.mem_singleton] at hx
    rw [hx]; exact hkn
  · intro x hxn
    apply look_of_rw hrw
    simpa using hxn

/-! ### the root collapse -/

/-- the tree `delFinish` leaves behind -/
def finishTree (t : Tree K V) (small : Bool) : Tree K V :=
  if !small ∨ Node.count t.root > 1 then t
  else match collapseRoot t.order t.nextId t.depth t.root with
    | .ok tr' => tr'
    | .error _ => t

theorem delFinish_tree (t : Nat) (s : St K V) (small : Bool) (rootWas : Nat) :
    (delFinish t s small rootWas).1.tree = finishTree s.tree small ∧
    (delFinish t s small rootWas).1.cursor = s.cursor ∧
    (delFinish t s small rootWas).2 = .done .ok := by
  by_cases hc : (!small) = true ∨ Node.count s.tree.root > 1
  · simp only [delFinish, finishTree, hc, if_true, rel_tree, rel_cursor, and_self]
  · simp only [delFinish, finishTree, hc, if_false, rel_tree, rel_cursor]
    cases collapseRoot s.tree.order s.tree.nextId s.tree.depth s.tree.root <;> simp

/-- a root hole that meets the root's minimum is no hole -/
theorem treeOk_of_root {t : Tree K V} {hole : Option Nat} (hok : TreeOk' hole t)
    (hh : ∀ c, hole = some c → c = t.rootId)
    (hr : hole = some t.rootId → minOf t.order t.rootId none t.rootId t.depth ≤ Node.count t.root) :
    TreeOk none t := by
  refine ⟨hok.ids, ?_, hok.chain, by have := hok.order4; omega, fun _ => hok.order4, hok.even⟩
  intro p hp
  have h0 := hok.occ p hp
  by_cases h1 : hole = some p.1
  · have hpr : p.1 = t.rootId := hh _ h1
    have hm : (t.rootId, shallow t.root) ∈ t.flat := self_mem_flat t.root
    have he : p = (t.rootId, shallow t.root) := entry_eq_of_nodup hok.ids.1 hp hm hpr
    rw [he]
    have hr' := hr (by rw [h1, hpr])
    rw [he] at h0
    refine NodeOcc.of_par h0.par h0.1 ?_
    simp only [shallow_height]
    rw [← count_eqD]
    exact hr'
  · rw [minOf'_of_ne _ h1] at h0
    exact h0

theorem finish_step {t : Tree K V} {small : Bool}
    (hok : TreeOk' (if small then some t.rootId else none) t) :
    TreeOk none (finishTree t small) ∧ (finishTree t small).order = t.order ∧
      (finishTree t small).nextId = t.nextId ∧
      ∀ keep : Nat → Bool, keep t.rootId = false → FrameEq keep t.flat (finishTree t small).flat := by
  cases small with
  | false =>
    have e : finishTree t false = t := by simp [finishTree]
    rw [e]
    exact ⟨treeOk_of_root hok (by intro c hc; simp at hc) (by intro hc; simp at hc), rfl, rfl,
      fun _ _ => FrameEq.refl _ _⟩
  | true =>
    simp only [if_true] at hok
    by_cases hcnt : Node.count t.root > 1
    · have e : finishTree t true = t := by simp [finishTree, hcnt]
      rw [e]
      refine ⟨treeOk_of_root hok (by intro c hc; simpa using hc.symm) ?_, rfl, rfl, fun _ _ => FrameEq.refl _ _⟩
      intro _
      unfold minOf
      simp only [if_true]
      split <;> omega
    · obtain ⟨o, d, r, nid⟩ := t
      cases d with
      | zero =>
        have e : finishTree (K := K) (V := V) ⟨o, 0, r, nid⟩ true = ⟨o, 0, r, nid⟩ := by
          simp [finishTree, hcnt, collapseRoot, pure, Except.pure]
        rw [e]
        refine ⟨treeOk_of_root hok (by intro c hc; simpa using hc.symm) ?_, rfl, rfl, fun _ _ => FrameEq.refl _ _⟩
        intro _
        simp [minOf]
      | succ d =>
        have occ := hok.occ ((r : Inner K (Node K V d)).id, shallow (d := d + 1) r)
          (self_mem_flat (d := d + 1) r)
        have hp := (par_inner (r : Inner K (Node K V d))).1 occ.par
        have hc1 : (r : Inner K (Node K V d)).runts.length = 1 := by
          have : Node.count (d := d + 1) r = (r : Inner K (Node K V d)).runts.length := rfl
          simp only at hcnt
          omega
        obtain ⟨k, hk⟩ : ∃ k, (r : Inner K (Node K V d)).kids = [k] := by
          have hl : (r : Inner K (Node K V d)).kids.length = 1 := by omega
          match h : (r : Inner K (Node K V d)).kids, hl with
          | [k], _ => exact ⟨k, rfl⟩
        have e : finishTree (K := K) (V := V) ⟨o, d + 1, r, nid⟩ true = ⟨o, d, k, nid⟩ := by
          simp [finishTree, hcnt, collapseRoot, hk, pure, Except.pure]
        rw [e]
        have hfl : (Tree.mk o (d + 1) r nid : Tree K V).flat =
            ((r : Inner K (Node K V d)).id, shallow (d := d + 1) r) :: flat k := by
          show flat (d := d + 1) r = _
          rw [flat_succ, hk]; simp
        have hnd : (((Tree.mk o (d + 1) r nid : Tree K V).flat).map Prod.fst).Nodup := hok.ids.1
        rw [hfl] at hnd
        have hrw := Rw.dropHead (K := K) (V := V) (r : Inner K (Node K V d)).id (shallow (d := d + 1) r) (flat k)
          (Nat.succ_ne_zero _) hnd
        have ho4 : 4 ≤ o := hok.order4
        refine ⟨⟨⟨hrw.nodup hnd, ?_⟩, ?_, ?_, (by omega : 2 ≤ o), fun _ => ho4, hok.even⟩, rfl, rfl, ?_⟩
        · intro x hx
          have := hrw.idmem x hx
          rw [← hfl] at this
          exact hok.ids.2 x this
        · intro p hp'
          have hpm : p ∈ (Tree.mk o (d + 1) r nid : Tree K V).flat := by
            rw [hfl]; exact List.mem_cons_of_mem _ hp'
          have h0 := hok.occ p hpm
          have hne : p.1 ≠ (r : Inner K (Node K V d)).id := by
            intro e'
            rw [List.map_cons, List.nodup_cons] at hnd
            have hm' : p.1 ∈ (flat k).map Prod.fst := fst_mem hp'
            rw [e'] at hm'
            exact hnd.1 hm'
          have hne' : (some (Tree.mk o (d + 1) r nid : Tree K V).rootId) ≠ some p.1 := by
            intro e'
            exact hne (Option.some.inj e').symm
          rw [minOf'_of_ne _ hne', minOf_none_nonroot (by exact hne)] at h0
          refine h0.mono ?_
          show minOf o _ none p.1 p.2.height ≤ o / 2
          unfold minOf
          split
          · split <;> omega
          · simp
        · have h1 : Chain (flatLeaves (Tree.mk o (d + 1) r nid : Tree K V).flat) := hok.chain
          rw [hfl] at h1
          have := hrw.chain [] [] (by simpa using h1)
          show Chain (flatLeaves (flat k))
          simpa using this
        · intro keep hk'
          show FrameEq keep (Tree.mk o (d + 1) r nid : Tree K V).flat (flat k)
          rw [hfl]
          exact hrw.frameEq keep (by intro x hx; simp only [List.mem_singleton] at hx; rw [hx]; exact hk')

end Gobptree.Conc
