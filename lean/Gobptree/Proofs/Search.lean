/-
  Specification of the two hand-written binary searches on strictly ascending
  input, for any strict weak order.
-/
import Gobptree.Search
import Gobptree.Proofs.Order

namespace Gobptree

variable {K : Type} {lt : K → K → Bool}

theorem shiftRight_one_eq (n : Nat) : n >>> 1 = n / 2 := by
  simp [Nat.shiftRight_eq_div_pow]

theorem Sorted.getElem_lt {vs : List K} (hs : Sorted lt vs) {i j : Nat} (hij : i < j)
    (hj : j < vs.length) : lt (vs[i]'(by omega)) vs[j] = true :=
  (List.pairwise_iff_getElem.mp hs) i j (by omega) hj hij

/-- bounds of the loop, no order assumptions -/
theorem searchGELoop_bounds (key : K) (vs : List K) :
    ∀ fuel lo hi, lo < hi →
      lo ≤ searchGELoop lt key vs fuel lo hi ∧ searchGELoop lt key vs fuel lo hi ≤ hi := by
  intro fuel
  induction fuel with
  | zero => intro lo hi hlh; simp [searchGELoop]; omega
  | succ fuel ih =>
    intro lo hi hlh
    have hm1 : lo ≤ (lo + hi) / 2 := by omega
    have hm2 : (lo + hi) / 2 < hi := by omega
    simp only [searchGELoop, shiftRight_one_eq]
    split
    · omega
    · split
      · split
        · have := ih lo ((lo + hi) / 2) (by assumption); omega
        · omega
      · split
        · split
          · have := ih ((lo + hi) / 2 + 1) hi (by assumption); omega
          · omega
        · omega

theorem searchGELoop_spec (h : SWO lt) (key : K) (vs : List K) (hs : Sorted lt vs) :
    ∀ fuel lo hi r, lo < hi → (hhi : hi < vs.length) → hi - lo ≤ fuel →
      (∀ i (hi' : i < vs.length), i < lo → lt vs[i] key = true) →
      (∀ (_ : hi + 1 < vs.length), lt vs[hi] key = false) →
      searchGELoop lt key vs fuel lo hi = r →
      (∀ i (hi' : i < vs.length), i < r → lt vs[i] key = true) ∧
      (∀ (hr : r + 1 < vs.length), lt (vs[r]'(by omega)) key = false) := by
  intro fuel
  induction fuel with
  | zero => intro lo hi r hlh _ hf; omega
  | succ fuel ih =>
    intro lo hi r hlh hhi hf hlo hhiP hr
    have hm1 : lo ≤ (lo + hi) / 2 := by omega
    have hm2 : (lo + hi) / 2 < hi := by omega
    simp only [searchGELoop, shiftRight_one_eq] at hr
    generalize hm : (lo + hi) / 2 = m at *
    have hml : m < vs.length := by omega
    rw [List.getElem?_eq_getElem hml] at hr
    simp only at hr
    by_cases h1 : lt key vs[m] = true
    · have h1' : lt vs[m] key = false := h.asymm h1
      simp only [h1, if_true] at hr
      by_cases h2 : lo < m
      · simp only [h2, if_true] at hr
        exact ih lo m r h2 hml (by omega) hlo (fun _ => h1') hr
      · simp only [h2, if_false] at hr
        have : lo = m := by omega
        subst this; subst hr
        exact ⟨hlo, fun _ => h1'⟩
    · simp only [h1] at hr
      by_cases h2 : lt vs[m] key = true
      · simp only [h2, if_true] at hr
        have hlo' : ∀ i (hi' : i < vs.length), i < m + 1 → lt vs[i] key = true := by
          intro i hi' him
          by_cases hE : i = m
          · subst hE; exact h2
          · exact h.trans _ _ _ (hs.getElem_lt (by omega) hml) h2
        by_cases h3 : m + 1 < hi
        · simp only [h3, if_true] at hr
          exact ih (m + 1) hi r h3 hhi (by omega) hlo' hhiP hr
        · simp only [h3, if_false] at hr
          have : m + 1 = hi := by omega
          subst this; subst hr
          exact ⟨hlo', hhiP⟩
      · simp only [h2] at hr
        have h1' : lt key vs[m] = false := by simpa using h1
        have h2' : lt vs[m] key = false := by simpa using h2
        simp at hr
        subst hr
        refine ⟨?_, fun _ => h2'⟩
        intro i hi' him
        exact h.lt_of_lt_of_le (hs.getElem_lt him hml) h1'

theorem searchGE_nil (key : K) : searchGE lt key [] = 0 := by
  simp [searchGE]

/-- the clamped search always returns a valid index of a non-empty list -/
theorem searchGE_lt_length (key : K) (vs : List K) (hne : vs ≠ []) :
    searchGE lt key vs < vs.length := by
  have hpos : 0 < vs.length := List.length_pos_iff.mpr hne
  unfold searchGE
  split
  · exact hpos
  · have := (searchGELoop_bounds (lt := lt) key vs vs.length 0 (vs.length - 1) (by omega)).2
    omega

theorem searchGE_spec (h : SWO lt) (key : K) (vs : List K) (hs : Sorted lt vs) :
    (∀ i (hi' : i < vs.length), i < searchGE lt key vs → lt vs[i] key = true) ∧
    (∀ (hr : searchGE lt key vs + 1 < vs.length),
      lt (vs[searchGE lt key vs]'(by omega)) key = false) := by
  unfold searchGE
  split
  · refine ⟨fun i _ hi => by omega, fun hr => by omega⟩
  · exact searchGELoop_spec h key vs hs vs.length 0 (vs.length - 1) _ (by omega) (by omega)
      (by omega) (fun i _ hi => by omega) (fun hr => by omega) rfl

/-- every element before the returned index is smaller than the key -/
theorem searchGE_before (h : SWO lt) (key : K) (vs : List K) (hs : Sorted lt vs)
    (i : Nat) (hi : i < searchGE lt key vs) (hlen : i < vs.length) : lt vs[i] key = true :=
  (searchGE_spec h key vs hs).1 i hlen hi

/-- unless the result is the last index (the clamp), the element there is ≥ key -/
theorem searchGE_at (h : SWO lt) (key : K) (vs : List K) (hs : Sorted lt vs)
    (hlt : searchGE lt key vs + 1 < vs.length) :
    lt (vs[searchGE lt key vs]'(by omega)) key = false :=
  (searchGE_spec h key vs hs).2 hlt

theorem searchLE_nil (key : K) : searchLE lt key [] = 0 := by
  simp [searchLE, searchGE]

theorem searchLE_cases (key : K) (vs : List K) (hne : vs ≠ []) :
    ∃ hg : searchGE lt key vs < vs.length,
      (lt key vs[searchGE lt key vs] = true ∧ searchLE lt key vs = searchGE lt key vs - 1) ∨
      (lt key vs[searchGE lt key vs] = false ∧ searchLE lt key vs = searchGE lt key vs) := by
  have hg := searchGE_lt_length (lt := lt) key vs hne
  refine ⟨hg, ?_⟩
  unfold searchLE
  simp only [List.getElem?_eq_getElem hg]
  cases hc : lt key vs[searchGE lt key vs]
  · right; simp
  · left; simp; omega

theorem searchLE_lt_length (key : K) (vs : List K) (hne : vs ≠ []) :
    searchLE lt key vs < vs.length := by
  obtain ⟨hg, ⟨_, e⟩ | ⟨_, e⟩⟩ := searchLE_cases (lt := lt) key vs hne <;> omega

/-- every element after the returned index is greater than the key -/
theorem searchLE_after (h : SWO lt) (key : K) (vs : List K) (hs : Sorted lt vs)
    (i : Nat) (hi : searchLE lt key vs < i) (hlen : i < vs.length) : lt key vs[i] = true := by
  have hne : vs ≠ [] := by intro e; subst e; simp at hlen
  obtain ⟨hg, ⟨hc, e⟩ | ⟨hc, e⟩⟩ := searchLE_cases (lt := lt) key vs hne
  · by_cases hE : i = searchGE lt key vs
    · subst hE; exact hc
    · exact h.trans _ _ _ hc (hs.getElem_lt (by omega) hlen)
  · have hat := searchGE_at h key vs hs (by omega)
    exact h.lt_of_le_of_lt hat (hs.getElem_lt (by omega) hlen)

/-- unless the result is index 0 (the clamp), the element there is ≤ key -/
theorem searchLE_at (h : SWO lt) (key : K) (vs : List K) (hs : Sorted lt vs)
    (h0 : 0 < searchLE lt key vs) (hlen : searchLE lt key vs < vs.length) :
    lt key vs[searchLE lt key vs] = false := by
  have hne : vs ≠ [] := by intro e; subst e; simp at hlen
  obtain ⟨hg, ⟨hc, e⟩ | ⟨hc, e⟩⟩ := searchLE_cases (lt := lt) key vs hne
  · generalize searchLE lt key vs = r at *
    subst e
    exact h.asymm (searchGE_before h key vs hs _ (by omega) hlen)
  · generalize searchLE lt key vs = r at *
    subst e
    exact hc

end Gobptree
