/-
  Surgery lemmas on the flat view used by the per-block proofs of the non-Delete
  continuations: the chain of leaves as a list of `(id, next)` pairs, identities after a
  local rewrite, occupancy after a local rewrite, and composition of stretches (`Step`).
-/
import Gobptree.Proofs.CSBlock
import Gobptree.Proofs.CSRank

namespace Gobptree.Conc
open Gobptree

variable {K V : Type}

/-! ### the leaf chain as a list of `(identity, next)` pairs -/

def chainView (l : List (Nat × Shallow K V)) : List (Nat × Option Nat) :=
  (flatLeaves l).map fun p => (p.1, p.2.next)

theorem chainView_nil : chainView ([] : List (Nat × Shallow K V)) = [] := rfl

theorem chainView_append (a b : List (Nat × Shallow K V)) :
    chainView (a ++ b) = chainView a ++ chainView b := by
  simp [chainView, flatLeaves]

theorem chainView_cons_leaf (id : Nat) (sh : Shallow K V) (l : List (Nat × Shallow K V)) (h : sh.height = 0) :
    chainView ((id, sh) :: l) = (id, sh.next) :: chainView l := by
  simp [chainView, flatLeaves, h]

theorem chainView_cons_inner (id : Nat) (sh : Shallow K V) (l : List (Nat × Shallow K V)) (h : 0 < sh.height) :
    chainView ((id, sh) :: l) = chainView l := by
  have : (sh.height == 0) = false := by simp; omega
  simp [chainView, flatLeaves, this]

def ChainV : List (Nat × Option Nat) → Prop
  | [] => True
  | [p] => p.2 = none
  | p :: q :: rest => p.2 = some q.1 ∧ ChainV (q :: rest)

theorem chainV_cons (x : Nat × Option Nat) (l : List (Nat × Option Nat)) :
    ChainV (x :: l) ↔ x.2 = l.head?.map Prod.fst ∧ ChainV l := by
  cases l with
  | nil => simp [ChainV]
  | cons q rest => simp [ChainV]

theorem chain_iff_map (l : List (Nat × Shallow K V)) :
    Chain l ↔ ChainV (l.map fun p => (p.1, p.2.next)) := by
  induction l with
  | nil => simp [Chain, ChainV]
  | cons p l ih =>
    cases l with
    | nil => simp [Chain, ChainV]
    | cons q rest =>
      simp only [Chain, List.map_cons, ChainV]
      simp only [List.map_cons] at ih
      rw [ih]

theorem chainOk_iff (t : Tree K V) : ChainOk t ↔ ChainV (chainView t.flat) :=
  chain_iff_map _

/-- how a block may change the chain: not at all, or by a leaf split -/
def ChainStep (a b : List (Nat × Option Nat)) : Prop :=
  a = b ∨ ∃ U W c n f, a = U ++ (c, n) :: W ∧ b = U ++ (c, some f) :: (f, n) :: W

theorem ChainStep.rfl' (a : List (Nat × Option Nat)) : ChainStep a a := Or.inl rfl

theorem ChainStep.context {a b : List (Nat × Option Nat)} (X Y : List (Nat × Option Nat)) (h : ChainStep a b) :
    ChainStep (X ++ a ++ Y) (X ++ b ++ Y) := by
  rcases h with h | ⟨U, W, c, n, f, ha, hb⟩
  · subst h; exact Or.inl rfl
  · refine Or.inr ⟨X ++ U, W ++ Y, c, n, f, ?_, ?_⟩
    · rw [ha]; simp [List.append_assoc]
    · rw [hb]; simp [List.append_assoc]

theorem chainV_split (U W : List (Nat × Option Nat)) (c : Nat) (n : Option Nat) (f : Nat) :
    ChainV (U ++ (c, n) :: W) → ChainV (U ++ (c, some f) :: (f, n) :: W) := by
  induction U with
  | nil =>
    intro h
    simp only [List.nil_append] at h ⊢
    rw [chainV_cons] at h
    rw [chainV_cons, chainV_cons]
    exact ⟨rfl, h.1, h.2⟩
  | cons x U ih =>
    intro h
    simp only [List.cons_append] at h ⊢
    rw [chainV_cons] at h ⊢
    refine ⟨?_, ih h.2⟩
    rw [h.1]
    cases U <;> rfl

theorem ChainStep.chain {a b : List (Nat × Option Nat)} (h : ChainStep a b) : ChainV a → ChainV b := by
  rcases h with h | ⟨U, W, c, n, f, ha, hb⟩
  · subst h; exact id
  · rw [ha, hb]; exact chainV_split U W c n f

/-- the chain after a local rewrite `L ++ A ++ R ↦ L ++ A' ++ R` -/
theorem chain_surgery {t t' : Tree K V} {L A A' R : List (Nat × Shallow K V)} (hc : ChainOk t)
    (hf : t.flat = L ++ A ++ R) (hf' : t'.flat = L ++ A' ++ R)
    (hs : ChainStep (chainView A) (chainView A')) : ChainOk t' := by
  rw [chainOk_iff] at hc ⊢
  rw [hf, chainView_append, chainView_append] at hc
  rw [hf', chainView_append, chainView_append]
  exact (hs.context _ _).chain hc

/-! ### identities after a local rewrite -/

theorem ids_surgery {t t' : Tree K V} {L A A' R : List (Nat × Shallow K V)} {F : List Nat} (hi : IdsOk t)
    (hf : t.flat = L ++ A ++ R) (hf' : t'.flat = L ++ A' ++ R)
    (hp : (A'.map Prod.fst).Perm (F ++ A.map Prod.fst)) (hF : F.Nodup)
    (hFb : ∀ i ∈ F, t.nextId ≤ i ∧ i < t'.nextId) (hn : t.nextId ≤ t'.nextId) : IdsOk t' := by
  have hperm : t'.ids.Perm (F ++ t.ids) := by
    unfold Tree.ids
    rw [hf, hf']
    simp only [List.map_append]
    refine ((hp.append_left _).append_right _).trans ?_
    simp only [List.append_assoc]
    exact List.perm_append_comm_assoc _ _ _
  constructor
  · rw [hperm.nodup_iff, List.nodup_append]
    refine ⟨hF, hi.1, ?_⟩
    intro a ha b hb e
    have := (hFb a ha).1
    have := hi.2 b hb
    omega
  · intro i hi'
    rcases List.mem_append.1 (hperm.mem_iff.1 hi') with h | h
    · exact (hFb i h).2
    · have := hi.2 i h; omega

/-! ### occupancy after a local rewrite -/

theorem occ_surgery {hole : Option Nat} {t t' : Tree K V} {L A A' R : List (Nat × Shallow K V)} (ho : OccOk hole t)
    (hf : t.flat = L ++ A ++ R) (hf' : t'.flat = L ++ A' ++ R)
    (hroot : t'.rootId = t.rootId) (horder : t'.order = t.order)
    (hA : ∀ p ∈ A', NodeOcc t.order (minOf t.order t.rootId hole p.1 p.2.height) p.2) : OccOk hole t' := by
  intro p hp
  rw [hroot, horder]
  rw [hf'] at hp
  simp only [List.mem_append] at hp
  rcases hp with (hp | hp) | hp
  · exact ho p (by rw [hf]; simp [hp])
  · exact hA p hp
  · exact ho p (by rw [hf]; simp [hp])

/-- the minimum demanded of a node other than the root is at most `order/2` -/
theorem minOf_le (o r : Nat) (hole : Option Nat) (id h : Nat) (hne : id ≠ r) : minOf o r hole id h ≤ o / 2 := by
  unfold minOf
  rw [if_neg hne]
  split <;> omega

theorem minOf_root_le (o r : Nat) (hole : Option Nat) (id h : Nat) : minOf o r hole id h ≤ max 2 (o / 2) := by
  unfold minOf
  split
  · split <;> omega
  · split <;> omega


/-! ### composition of stretches -/

/-- the tree part of `Post`, between two trees -/
structure Step (H : List Lk) (hole : Option Nat) (t t' : Tree K V) : Prop where
  tree   : TreeOk hole t'
  frame  : FrameEq (keepOf H t.nextId) t.flat t'.flat
  nextId : t.nextId ≤ t'.nextId
  root   : Lk.tree ∈ H ∨ (t'.rootId = t.rootId ∧ t'.depth = t.depth)
  order  : t'.order = t.order

theorem keepOf_mono (H : List Lk) {a b : Nat} (h : a ≤ b) (i : Nat) : keepOf H a i = true → keepOf H b i = true := by
  unfold keepOf
  simp only [Bool.and_eq_true, decide_eq_true_eq]
  intro ⟨h1, h2⟩
  exact ⟨by omega, h2⟩

theorem Step.refl {H : List Lk} {hole : Option Nat} {t : Tree K V} (h : TreeOk hole t) : Step H hole t t :=
  ⟨h, FrameEq.refl _ _, Nat.le_refl _, Or.inr ⟨rfl, rfl⟩, rfl⟩

/-- a stretch that starts with a rewrite `t ↦ s1.tree` and goes on with a stretch that satisfies `Post` -/
theorem Post.of_step {H : List Lk} {hole : Option Nat} {s s1 s' : St K V} {fl : Flow K V}
    (h1 : Step H hole s.tree s1.tree) (h2 : Post H hole s1 s' fl) : Post H hole s s' fl where
  nopanic := h2.nopanic
  tree := h2.tree
  frame := h1.frame.trans (h2.frame.mono (keepOf_mono H h1.nextId))
  nextId := Nat.le_trans h1.nextId h2.nextId
  root := by
    rcases h1.root with h | ⟨a, b⟩
    · exact Or.inl h
    · rcases h2.root with h | ⟨a', b'⟩
      · exact Or.inl h
      · exact Or.inr ⟨a'.trans a, b'.trans b⟩
  order := h2.order.trans h1.order
  kont := by
    intro p hp
    obtain ⟨a, b, c⟩ := h2.kont p hp
    exact ⟨a, b, fun x hx => Nat.le_trans h1.nextId (c x hx)⟩
  cursor := h2.cursor

/-- `Post` only looks at the tree of the initial state -/
theorem Post.of_tree_eq {H : List Lk} {hole : Option Nat} {s s0 s' : St K V} {fl : Flow K V}
    (e : s0.tree = s.tree) (h : Post H hole s0 s' fl) : Post H hole s s' fl := by
  obtain ⟨a, b, c, d, e', f, g, i⟩ := h
  rw [e] at c d e' f g
  exact ⟨a, b, c, d, e', f, g, i⟩

/-- a stretch that leaves the tree alone -/
theorem Post.of_unchanged {H : List Lk} {hole : Option Nat} {s s' : St K V} {fl : Flow K V}
    (htree : TreeOk hole s.tree) (e : s'.tree = s.tree) (hnp : fl ≠ .panic)
    (hk : ∀ p, fl = .park p → parkKontOk s.tree p ∧ ParkPre s'.cursor p ∧ parkExtra s.tree p = [])
    (hc : CursorOk s.tree false s'.cursor) : Post H hole s s' fl where
  nopanic := hnp
  tree := by rw [e]; exact htree
  frame := by rw [e]; exact FrameEq.refl _ _
  nextId := by rw [e]; exact Nat.le_refl _
  root := Or.inr (by rw [e]; exact ⟨rfl, rfl⟩)
  order := by rw [e]
  kont := by
    intro p hp
    obtain ⟨a, b, c⟩ := hk p hp
    rw [e]
    exact ⟨a, b, by rw [c]; intro x hx; cases hx⟩
  cursor := by rw [e]; exact hc

/-- a cursor that holds no leaf is consistent with every tree -/
theorem cursorOk_of_noLocks (t : Tree K V) (b : Bool) (c : Option (Option Nat × Int)) (h : cursorLocks c = []) :
    CursorOk t b c := by
  match c, h with
  | none, _ => trivial
  | some (none, _), _ => trivial
  | some (some _, _), h => simp [cursorLocks] at h

/-! ### membership and `look` -/

theorem notFull_of_mem {t : Tree K V} (hi : IdsOk t) {id : Nat} {sh : Shallow K V} (h : (id, sh) ∈ t.flat)
    (hl : sh.keys.length < t.order) : notFull t id := ⟨sh, mem_look hi h, hl⟩

theorem occ_of_look {hole : Option Nat} {t : Tree K V} (ho : OccOk hole t) {id : Nat} {sh : Shallow K V}
    (h : t.look id = some sh) : NodeOcc t.order (minOf t.order t.rootId hole id sh.height) sh :=
  ho (id, sh) (look_mem h)

/-- a child is not the root -/
theorem kid_ne_root {t : Tree K V} (hi : IdsOk t) {p j c : Nat} (h : t.kidAt p j = some c) : c ≠ t.rootId := by
  intro e
  obtain ⟨sh, hp, _⟩ := kidAt_look h
  obtain ⟨shc, hc, hh⟩ := kid_look hi h hp
  rw [e, look_root hi] at hc
  cases hc
  have := look_height_le hp
  rw [shallow_height] at hh
  omega

end Gobptree.Conc
