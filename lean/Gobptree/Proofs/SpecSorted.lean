/-
  The specification's contents are always strictly ascending in the key order, hence
  contain every key (modulo equivalence) at most once.
-/
import Gobptree.Run
import Gobptree.Proofs.SpecLemmas

namespace Gobptree

variable {K V : Type} {lt : K → K → Bool}

/-- strictly ascending keys -/
def KSorted (lt : K → K → Bool) (m : List (K × V)) : Prop := m.Pairwise (fun a b => lt a.1 b.1 = true)

theorem Spec.insert_mem_key (m : List (K × V)) (k : K) (v : V) :
    ∀ p ∈ Spec.insert lt m k v, p.1 = k ∨ ∃ q ∈ m, q.1 = p.1 := by
  induction m with
  | nil => intro p hp; simp [Spec.insert] at hp; left; rw [hp]
  | cons q m ih =>
    obtain ⟨k', v'⟩ := q
    intro p hp
    simp only [Spec.insert] at hp
    split at hp
    · cases List.mem_cons.mp hp with
      | inl e => left; rw [e]
      | inr e => right; exact ⟨p, e, rfl⟩
    · split at hp
      · cases List.mem_cons.mp hp with
        | inl e => right; exact ⟨(k', v'), by simp, by rw [e]⟩
        | inr e =>
          cases ih p e with
          | inl e' => left; exact e'
          | inr e' => obtain ⟨q, hq, e''⟩ := e'; right; exact ⟨q, by simp [hq], e''⟩
      · cases List.mem_cons.mp hp with
        | inl e => right; exact ⟨(k', v'), by simp, by rw [e]⟩
        | inr e => right; exact ⟨p, by simp [e], rfl⟩

theorem Spec.insert_sorted (h : SWO lt) (m : List (K × V)) (k : K) (v : V) (hs : KSorted lt m) :
    KSorted lt (Spec.insert lt m k v) := by
  induction m with
  | nil => simp [Spec.insert, KSorted]
  | cons q m ih =>
    obtain ⟨k', v'⟩ := q
    have hq := List.pairwise_cons.mp hs
    simp only [Spec.insert]
    split
    · rename_i hlt
      refine List.pairwise_cons.mpr ⟨?_, hs⟩
      intro p hp
      cases List.mem_cons.mp hp with
      | inl e => rw [e]; exact hlt
      | inr e => exact h.trans _ _ _ hlt (hq.1 p e)
    · split
      · rename_i hnlt hgt
        refine List.pairwise_cons.mpr ⟨?_, ih hq.2⟩
        intro p hp
        cases Spec.insert_mem_key (lt := lt) m k v p hp with
        | inl e => rw [e]; exact hgt
        | inr e => obtain ⟨q, hqm, e'⟩ := e; rw [← e']; exact hq.1 q hqm
      · exact List.pairwise_cons.mpr ⟨fun p hp => hq.1 p hp, hq.2⟩

theorem Spec.erase_sorted (m : List (K × V)) (k : K) (hs : KSorted lt m) : KSorted lt (Spec.erase lt m k) :=
  List.Pairwise.sublist (List.filter_sublist) hs

theorem Spec.from_sorted (m : List (K × V)) (s : K) (hs : KSorted lt m) : KSorted lt (Spec.from lt m s) :=
  List.Pairwise.sublist (List.filter_sublist) hs

theorem Spec.step_sorted (h : SWO lt) (m : List (K × V)) (op : Op K V) (hs : KSorted lt m) :
    KSorted lt (Spec.step lt m op).1 := by
  cases op with
  | insert k v => exact Spec.insert_sorted h m k v hs
  | update k f => exact Spec.insert_sorted h m k _ hs
  | delete k => exact Spec.erase_sorted m k hs
  | search k => exact hs

theorem Spec.run_sorted (h : SWO lt) (ops : List (Op K V)) :
    ∀ (m : List (K × V)), KSorted lt m → KSorted lt (Spec.run lt m ops).1 := by
  induction ops with
  | nil => intro m hs; exact hs
  | cons op ops ih =>
    intro m hs
    simp only [Spec.run]
    exact ih _ (Spec.step_sorted h m op hs)

/-- in a strictly ascending list an equivalence class of keys occurs at most once -/
theorem KSorted.unique (h : SWO lt) (m : List (K × V)) (hs : KSorted lt m) (i j : Nat)
    (hi : i < m.length) (hj : j < m.length) (he : eqv lt m[i].1 m[j].1 = true) : i = j := by
  rcases Nat.lt_trichotomy i j with hlt | heq | hgt
  · have := List.pairwise_iff_getElem.mp hs i j hi hj hlt
    simp [eqv, this] at he
  · exact heq
  · have := List.pairwise_iff_getElem.mp hs j i hj hi hgt
    simp [eqv, this] at he

end Gobptree
