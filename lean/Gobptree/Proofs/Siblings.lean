/-
  The three sibling operations of Delete's rebalancing on well-formed, linked
  siblings: borrow from the right, borrow from the left, merge.
-/
import Gobptree.Proofs.Context

namespace Gobptree

variable {K V : Type} {lt : K → K → Bool}

/-- the occupancy clause of `WF` can be re-set to any bound the node meets -/
theorem WF_set_m {o d m m' : Nat} {lo hi : Option K} {n : Node K V d}
    (hw : WF lt o d m lo hi n) (hm : m' ≤ Node.count n) : WF lt o d m' lo hi n := by
  cases d with
  | zero => obtain ⟨a, b, c, _, f⟩ := hw; exact ⟨a, b, c, hm, f⟩
  | succ d => obtain ⟨a, b, _, e, f, g⟩ := hw; exact ⟨a, b, hm, e, f, g⟩

/-- leaf case of `adoptFromRight`; the extra hypothesis `hlo` (`lo1 ≤ kr`) is needed when
    `left` is empty -/
theorem adoptFromRight_leaf (h : SWO lt) {o : Nat} {lo1 hi2 : Option K} {kr : K} {ml : Nat}
    (left right : Leaf K V) (hlo : leO lt lo1 kr)
    (hl : WF (V := V) lt o 0 ml lo1 (some kr) left)
    (hr : WF (V := V) lt o 0 (o / 2) (some kr) hi2 right)
    (hrc : 2 ≤ right.keys.length) (hlc : left.keys.length < o)
    (after : Option Nat)
    (hLl : left.next = some right.id) (hLr : right.next = after) :
    ∃ (left' right' : Leaf K V) (s : K),
      Node.adoptFromRight (d := 0) left right = .ok (left', right') ∧
      Node.smallest (d := 0) right' = .ok s ∧
      WF (V := V) lt o 0 0 lo1 (some s) left' ∧ WF (V := V) lt o 0 0 (some s) hi2 right' ∧
      left'.keys.length = left.keys.length + 1 ∧ right'.keys.length + 1 = right.keys.length ∧
      left'.keys.zip left'.vals ++ right'.keys.zip right'.vals =
        left.keys.zip left.vals ++ right.keys.zip right.vals ∧
      lt s kr = false ∧ ltO lt s hi2 ∧
      left'.next = some right'.id ∧ right'.next = after ∧ left'.id = left.id := by
  obtain ⟨lid, lkeys, lvals, lnext⟩ := left
  obtain ⟨rid, rkeys, rvals, rnext⟩ := right
  obtain ⟨la, lb, lc, le, lf⟩ := hl
  obtain ⟨ra, rb, rc, re, rf⟩ := hr
  simp only at la lb lc le lf ra rb rc re rf hrc hlc hLl hLr
  cases rkeys with
  | nil => simp at hrc
  | cons k0 rk1 =>
  cases rk1 with
  | nil => simp at hrc
  | cons s rk =>
  cases rvals with
  | nil => simp at rb
  | cons v0 rv1 =>
  cases rv1 with
  | nil => simp at rb
  | cons v1 rv =>
  have hk0 : lt k0 kr = false := (rf k0 (by simp)).1
  have hk0s : lt k0 s = true := (List.pairwise_cons.mp ra).1 s (by simp)
  have hra' : Sorted lt (s :: rk) := (List.pairwise_cons.mp ra).2
  have hskr : lt s kr = false := h.le_of_lt (h.lt_of_le_of_lt hk0 hk0s)
  have hlk0 : ∀ k ∈ lkeys, lt k k0 = true := fun k hk => h.lt_of_lt_of_le (lf k hk).2 hk0
  refine ⟨⟨lid, lkeys ++ [k0], lvals ++ [v0], lnext⟩, ⟨rid, s :: rk, v1 :: rv, rnext⟩, s,
    ?_, rfl, ?_, ?_, ?_, ?_, ?_, hskr, (rf s (by simp)).2, hLl, hLr, rfl⟩
  · simp [Node.adoptFromRight, popFrontIdiom_eq]
    rfl
  · refine ⟨sorted_append_singleton la hlk0, ?_, ?_, Nat.zero_le _, ?_⟩
    · simp only [List.length_append, List.length_cons, List.length_nil]; omega
    · simp only [List.length_append, List.length_cons, List.length_nil]; omega
    · intro k hk
      rcases List.mem_append.mp hk with hm | hm
      · exact ⟨(lf k hm).1, h.trans _ _ _ (hlk0 k hm) hk0s⟩
      · simp only [List.mem_singleton] at hm
        subst hm
        exact ⟨leO_trans h hlo hk0, hk0s⟩
  · refine ⟨hra', ?_, ?_, Nat.zero_le _, ?_⟩
    · simp only [List.length_cons] at rb ⊢; omega
    · simp only [List.length_cons] at rc ⊢; omega
    · intro k hk
      refine ⟨?_, (rf k (List.mem_cons_of_mem _ hk)).2⟩
      rcases List.mem_cons.mp hk with e | hm
      · subst e; exact h.irrefl _
      · exact h.le_of_lt ((List.pairwise_cons.mp hra').1 k hm)
  · simp
  · simp
  · show (lkeys ++ [k0]).zip (lvals ++ [v0]) ++ (s :: rk).zip (v1 :: rv) =
      lkeys.zip lvals ++ (k0 :: s :: rk).zip (v0 :: v1 :: rv)
    rw [zip_surgery _ _ _ _ lb]
    simp

/-- inner case of `adoptFromRight` -/
theorem adoptFromRight_inner (h : SWO lt) {o d : Nat} {lo1 hi2 : Option K} {kr : K} {ml : Nat}
    (left right : Inner K (Node K V d))
    (hl : WF (V := V) lt o (d + 1) ml lo1 (some kr) left)
    (hr : WF (V := V) lt o (d + 1) (o / 2) (some kr) hi2 right)
    (hrc : 2 ≤ right.runts.length) (hlc : left.runts.length < o)
    (after : Option Nat)
    (hLl : Linked (K := K) (V := V) (d + 1) (some (Node.firstId (d := d + 1) right)) left)
    (hLr : Linked (K := K) (V := V) (d + 1) after right) :
    ∃ (left' right' : Inner K (Node K V d)) (s : K),
      Node.adoptFromRight (d := d + 1) left right = .ok (left', right') ∧
      Node.smallest (d := d + 1) right' = .ok s ∧
      WF (V := V) lt o (d + 1) 0 lo1 (some s) left' ∧ WF (V := V) lt o (d + 1) 0 (some s) hi2 right' ∧
      left'.runts.length = left.runts.length + 1 ∧ right'.runts.length + 1 = right.runts.length ∧
      Node.pairs (d := d + 1) left' ++ Node.pairs (d := d + 1) right' =
        Node.pairs (d := d + 1) left ++ Node.pairs (d := d + 1) right ∧
      lt s kr = false ∧ ltO lt s hi2 ∧
      Linked (K := K) (V := V) (d + 1) (some (Node.firstId (d := d + 1) right')) left' ∧
      Linked (K := K) (V := V) (d + 1) after right' ∧
      Node.firstId (d := d + 1) left' = Node.firstId (d := d + 1) left := by
  obtain ⟨lid, lr, lk⟩ := left
  obtain ⟨rid, rr, rk⟩ := right
  obtain ⟨la, lb, lc, le, lf, lg⟩ := hl
  obtain ⟨ra, rb, rc, re, rf, rg⟩ := hr
  simp only at la lb lc le lf lg ra rb rc re rf rg hrc hlc
  cases rr with
  | nil => simp at hrc
  | cons k0 rr1 =>
  cases rr1 with
  | nil => simp at hrc
  | cons k1 rr =>
  cases rk with
  | nil => simp at ra
  | cons c0 rk1 =>
  cases rk1 with
  | nil => simp at ra
  | cons c1 rk =>
  rw [List.zip_cons_cons] at rg
  obtain ⟨wc0, hk01, rg'⟩ := rg
  rw [List.zip_cons_cons] at wc0 hk01
  have wc0' : WF lt o d (o / 2) (some k0) (some k1) c0 := wc0
  have hk01' : lt k0 k1 = true := hk01
  have hk0 : lt k0 kr = false := rf k0 rfl
  have hLl' : LinkedKids (Linked (K := K) (V := V) d) (Node.firstId (d := d))
      (some (Node.firstId c0)) lk := hLl
  obtain ⟨hL0, hLr'⟩ : Linked d (some (Node.firstId c1)) c0 ∧
      LinkedKids (Linked (K := K) (V := V) d) (Node.firstId (d := d)) after (c1 :: rk) := hLr
  have hlkne : lk ≠ [] := by
    intro e; rw [e] at la; simp only [List.length_nil] at la; omega
  refine ⟨⟨lid, lr ++ [k0], lk ++ [c0]⟩, ⟨rid, k1 :: rr, c1 :: rk⟩, k1,
    ?_, rfl, ?_, ?_, ?_, ?_, ?_, h.le_of_lt (h.lt_of_le_of_lt hk0 hk01'), ?_, ?_, hLr', ?_⟩
  · simp [Node.adoptFromRight, popFrontIdiom_eq]
    rfl
  · refine ⟨?_, ?_, Nat.zero_le _, ?_, ?_, ?_⟩
    · simp only [List.length_append, List.length_cons, List.length_nil]; omega
    · simp only [List.length_append, List.length_cons, List.length_nil]; omega
    · simp only [List.length_append, List.length_cons, List.length_nil]; omega
    · intro k hk
      apply lf k
      cases lr with
      | nil => simp at le
      | cons a lr' => simpa using hk
    · show Kids lt (fun a b c => WF lt o d (o / 2) a b c) (some k1) ((lr ++ [k0]).zip (lk ++ [c0]))
      rw [zip_surgery _ _ _ _ la, Kids_append]
      refine ⟨?_, wc0', hk01', trivial⟩
      exact Kids_mono_hi (R := fun a b c => WF lt o d (o / 2) a b c) h
        (fun a b b' c hb hr => WF_mono_hi h hb hr) (hi := some kr) (hi' := some k0) hk0 _ lg
  · refine ⟨?_, ?_, Nat.zero_le _, ?_, ?_, rg'⟩
    · simp only [List.length_cons] at ra ⊢; omega
    · simp only [List.length_cons] at rb ⊢; omega
    · simp
    · intro k hk
      simp at hk; subst hk; exact h.irrefl _
  · simp
  · simp
  · show (lk ++ [c0]).flatMap (Node.pairs (d := d)) ++ (c1 :: rk).flatMap (Node.pairs (d := d)) =
      lk.flatMap (Node.pairs (d := d)) ++ (c0 :: c1 :: rk).flatMap (Node.pairs (d := d))
    simp
  · exact Kids_keys_lt h hi2 _ rg' (k1, c1) (by simp)
  · show LinkedKids (Linked (K := K) (V := V) d) (Node.firstId (d := d)) (some (Node.firstId c1)) (lk ++ [c0])
    rw [LinkedKids_append]
    exact ⟨hLl', hL0, trivial⟩
  · cases lk with
    | nil => exact absurd rfl hlkne
    | cons a lk' => rfl

/-- `left.adoptFromRight(right)`, with the hypothesis `lo1 ≤ kr` that `adoptFromRight_ok`
    below lacks (it is only used when `left` is an empty leaf) -/
theorem adoptFromRight_ok' (h : SWO lt) {o d : Nat} {lo1 hi2 : Option K} {kr : K} {ml : Nat}
    (left right : Node K V d) (hlo : leO lt lo1 kr)
    (hl : WF lt o d ml lo1 (some kr) left) (hr : WF lt o d (o / 2) (some kr) hi2 right)
    (hrc : 2 ≤ Node.count right) (hlc : Node.count left < o)
    (after : Option Nat)
    (hLl : Linked d (some (Node.firstId right)) left) (hLr : Linked d after right) :
    ∃ (left' right' : Node K V d) (s : K),
      Node.adoptFromRight left right = .ok (left', right') ∧ Node.smallest right' = .ok s ∧
      WF lt o d 0 lo1 (some s) left' ∧ WF lt o d 0 (some s) hi2 right' ∧
      Node.count left' = Node.count left + 1 ∧ Node.count right' + 1 = Node.count right ∧
      Node.pairs left' ++ Node.pairs right' = Node.pairs left ++ Node.pairs right ∧
      lt s kr = false ∧ ltO lt s hi2 ∧
      Linked d (some (Node.firstId right')) left' ∧ Linked d after right' ∧
      Node.firstId left' = Node.firstId left := by
  cases d with
  | zero => exact adoptFromRight_leaf h left right hlo hl hr hrc hlc after hLl hLr
  | succ d => exact adoptFromRight_inner h left right hl hr hrc hlc after hLl hLr

/-- a non-empty well-formed node has `lo ≤ hi` -/
theorem WF_lo_le_hi (h : SWO lt) {o d m : Nat} {lo : Option K} {kr : K} {n : Node K V d}
    (hw : WF lt o d m lo (some kr) n) (hne : 1 ≤ Node.count n) : leO lt lo kr := by
  obtain ⟨s, _, h1, h2, _⟩ := WF_smallest h hw hne
  exact leO_trans h h1 (h.le_of_lt h2)

/-- `adoptFromRight_ok` holds as stated once `left` is non-empty -/
theorem adoptFromRight_ok_of_nonempty (h : SWO lt) {o d : Nat} {lo1 hi2 : Option K} {kr : K} {ml : Nat}
    (left right : Node K V d) (hne : 1 ≤ Node.count left)
    (hl : WF lt o d ml lo1 (some kr) left) (hr : WF lt o d (o / 2) (some kr) hi2 right)
    (hrc : 2 ≤ Node.count right) (hlc : Node.count left < o)
    (after : Option Nat)
    (hLl : Linked d (some (Node.firstId right)) left) (hLr : Linked d after right) :
    ∃ (left' right' : Node K V d) (s : K),
      Node.adoptFromRight left right = .ok (left', right') ∧ Node.smallest right' = .ok s ∧
      WF lt o d 0 lo1 (some s) left' ∧ WF lt o d 0 (some s) hi2 right' ∧
      Node.count left' = Node.count left + 1 ∧ Node.count right' + 1 = Node.count right ∧
      Node.pairs left' ++ Node.pairs right' = Node.pairs left ++ Node.pairs right ∧
      lt s kr = false ∧ ltO lt s hi2 ∧
      Linked d (some (Node.firstId right')) left' ∧ Linked d after right' ∧
      Node.firstId left' = Node.firstId left :=
  adoptFromRight_ok' h left right (WF_lo_le_hi h hl hne) hl hr hrc hlc after hLl hLr

/-- a non-empty list is `init ++ [last]` -/
theorem afl_snoc {α : Type} (l : List α) (hl : 1 ≤ l.length) :
    ∃ a x, l = a ++ [x] ∧ a.length + 1 = l.length := by
  obtain ⟨a, x, b, e, ha⟩ := split_at l (l.length - 1) (by omega)
  have hb : b = [] := by
    have := congrArg List.length e
    simp only [List.length_append, List.length_cons] at this
    exact List.eq_nil_of_length_eq_zero (by omega)
  subst hb
  exact ⟨a, x, e, by omega⟩

theorem afl_leaf_eval (P : Params K) (hpad : ∀ k, P.pad (some k) ≠ none)
    (left right : Leaf K V) (ks : List K) (s : K) (vs : List V) (v : V)
    (hk : left.keys = ks ++ [s]) (hv : left.vals = vs ++ [v]) (hlen : ks.length = vs.length)
    (r0 : K) (rk : List K) (hr : right.keys = r0 :: rk) :
    Node.adoptFromLeft (V := V) (d := 0) P left right =
      .ok (({ left with keys := ks, vals := vs } : Leaf K V),
           ({ right with keys := s :: right.keys, vals := v :: right.vals } : Leaf K V)) := by
  have h0 : right.keys[0]? = some r0 := by rw [hr]; rfl
  have hne : ¬ left.keys.length = 0 := by rw [hk]; simp
  have h1 : left.keys[left.keys.length - 1]? = some s := by simp [hk]
  have h2 : left.vals[left.keys.length - 1]? = some v := by simp [hk, hv, hlen]
  have h3 : left.keys.take (left.keys.length - 1) = ks := by simp [hk]
  have h4 : left.vals.take (left.keys.length - 1) = vs := by simp [hk, hv, hlen]
  simp only [Node.adoptFromLeft]
  rw [h0]
  cases hp : P.pad (some r0) with
  | none => exact absurd hp (hpad r0)
  | some pad =>
    simp only [hne, if_false, h1, h2, h3, h4, pushFrontIdiom_eq]
    rfl

theorem afl_inner_eval {d : Nat} (P : Params K) (hpad : ∀ k, P.pad (some k) ≠ none)
    (left right : Inner K (Node K V d)) (ks : List K) (s : K) (vs : List (Node K V d)) (v : Node K V d)
    (hk : left.runts = ks ++ [s]) (hv : left.kids = vs ++ [v]) (hlen : ks.length = vs.length)
    (r0 : K) (rk : List K) (hr : right.runts = r0 :: rk) :
    Node.adoptFromLeft (V := V) (d := d + 1) P left right =
      .ok (({ left with runts := ks, kids := vs } : Inner K (Node K V d)),
           ({ right with runts := s :: right.runts, kids := v :: right.kids } : Inner K (Node K V d))) := by
  have h0 : right.runts[0]? = some r0 := by rw [hr]; rfl
  have hne : ¬ left.runts.length = 0 := by rw [hk]; simp
  have h1 : left.runts[left.runts.length - 1]? = some s := by simp [hk]
  have h2 : left.kids[left.runts.length - 1]? = some v := by simp [hk, hv, hlen]
  have h3 : left.runts.take (left.runts.length - 1) = ks := by simp [hk]
  have h4 : left.kids.take (left.runts.length - 1) = vs := by simp [hk, hv, hlen]
  simp only [Node.adoptFromLeft]
  rw [h0]
  cases hp : P.pad (some r0) with
  | none => exact absurd hp (hpad r0)
  | some pad =>
    simp only [hne, if_false, h1, h2, h3, h4, pushFrontIdiom_eq]
    rfl

/-- `right.adoptFromLeft(left)` -/
theorem adoptFromLeft_ok (h : SWO lt) (P : Params K) (hP : P.lt = lt) (hpad : ∀ k, P.pad (some k) ≠ none)
    {o d : Nat} {lo1 hi2 : Option K} {k : K} {mr : Nat}
    (left right : Node K V d)
    (hl : WF lt o d (o / 2) lo1 (some k) left) (hr : WF lt o d mr (some k) hi2 right)
    (hlc : 2 ≤ Node.count left) (hrc1 : 1 ≤ Node.count right) (hrc : Node.count right < o)
    (after : Option Nat)
    (hLl : Linked d (some (Node.firstId right)) left) (hLr : Linked d after right) :
    ∃ (left' right' : Node K V d) (s : K),
      Node.adoptFromLeft P left right = .ok (left', right') ∧ Node.smallest right' = .ok s ∧
      WF lt o d 0 lo1 (some s) left' ∧ WF lt o d 0 (some s) hi2 right' ∧
      Node.count left' + 1 = Node.count left ∧ Node.count right' = Node.count right + 1 ∧
      Node.pairs left' ++ Node.pairs right' = Node.pairs left ++ Node.pairs right ∧
      lt s k = true ∧ (∀ kl, lo1 = some kl → lt kl s = true) ∧
      Linked d (some (Node.firstId right')) left' ∧ Linked d after right' ∧
      Node.firstId left' = Node.firstId left := by
  subst hP
  cases d with
  | zero =>
    obtain ⟨a, b, c, e, f⟩ := hl
    obtain ⟨a', b', c', e', f'⟩ := hr
    have hlc' : 2 ≤ (left : Leaf K V).keys.length := hlc
    have hrc1' : 1 ≤ (right : Leaf K V).keys.length := hrc1
    have hrc' : (right : Leaf K V).keys.length < o := hrc
    obtain ⟨ks, s, hks, hksl⟩ := afl_snoc (left : Leaf K V).keys (by omega)
    obtain ⟨vs, v, hvs, hvsl⟩ := afl_snoc (left : Leaf K V).vals (by omega)
    have hlen : ks.length = vs.length := by omega
    cases hrk : (right : Leaf K V).keys with
    | nil => rw [hrk] at hrc1'; simp at hrc1'
    | cons r0 rk =>
      have hr0 : r0 ∈ (right : Leaf K V).keys := by rw [hrk]; simp
      have hsm : s ∈ (left : Leaf K V).keys := by rw [hks]; simp
      have hsk : P.lt s k = true := (f s hsm).2
      rw [hks] at a
      have a2 := List.pairwise_append.mp a
      have hsr : ∀ x ∈ (right : Leaf K V).keys, P.lt s x = true := fun x hx =>
        h.lt_of_lt_of_le hsk (f' x hx).1
      refine ⟨({ (left : Leaf K V) with keys := ks, vals := vs } : Leaf K V),
        ({ (right : Leaf K V) with keys := s :: (right : Leaf K V).keys, vals := v :: (right : Leaf K V).vals } : Leaf K V),
        s, afl_leaf_eval P hpad _ _ ks s vs v hks hvs hlen r0 rk hrk, ?_, ?_, ?_, ?_, ?_, ?_, hsk, ?_, ?_, ?_, ?_⟩
      · rfl
      · refine ⟨a2.1, hlen, by show ks.length ≤ o; omega, Nat.zero_le _, fun x hx => ⟨?_, ?_⟩⟩
        · exact (f x (by rw [hks]; simp [hx])).1
        · exact a2.2.2 x hx s (by simp)
      · refine ⟨?_, ?_, ?_, Nat.zero_le _, fun x hx => ?_⟩
        · exact List.pairwise_cons.mpr ⟨hsr, a'⟩
        · show (s :: (right : Leaf K V).keys).length = (v :: (right : Leaf K V).vals).length
          simp [b']
        · show (s :: (right : Leaf K V).keys).length ≤ o
          simp; omega
        · have hx' : x ∈ s :: (right : Leaf K V).keys := hx
          cases List.mem_cons.mp hx' with
          | inl e1 =>
            subst e1
            refine ⟨h.irrefl _, ?_⟩
            have h1 := (f' r0 hr0).2
            have h2 := hsr r0 hr0
            cases hi2 with
            | none => trivial
            | some u => exact h.trans _ _ _ h2 h1
          | inr hm => exact ⟨h.le_of_lt (hsr x hm), (f' x hm).2⟩
      · show ks.length + 1 = (left : Leaf K V).keys.length
        omega
      · show (s :: (right : Leaf K V).keys).length = (right : Leaf K V).keys.length + 1
        simp
      · show ks.zip vs ++ (s :: (right : Leaf K V).keys).zip (v :: (right : Leaf K V).vals) =
          (left : Leaf K V).keys.zip (left : Leaf K V).vals ++ (right : Leaf K V).keys.zip (right : Leaf K V).vals
        rw [hks, hvs, zip_surgery _ _ _ _ hlen]
        simp
      · intro kl hkl
        subst hkl
        cases hkk : ks with
        | nil => rw [hkk] at hksl; simp at hksl; omega
        | cons k0 ks' =>
          have h1 : P.lt k0 kl = false := (f k0 (by rw [hks, hkk]; simp)).1
          have h2 : P.lt k0 s = true := a2.2.2 k0 (by rw [hkk]; simp) s (by simp)
          exact h.lt_of_le_of_lt h1 h2
      · exact hLl
      · exact hLr
      · rfl
  | succ d =>
    obtain ⟨a, b, c, e, f, g⟩ := hl
    obtain ⟨a', b', c', e', f', g'⟩ := hr
    have hlc' : 2 ≤ (left : Inner K (Node K V d)).runts.length := hlc
    have hrc' : (right : Inner K (Node K V d)).runts.length < o := hrc
    obtain ⟨rs, s, hrs, hrsl⟩ := afl_snoc (left : Inner K (Node K V d)).runts (by omega)
    obtain ⟨cs, cl, hcs, hcsl⟩ := afl_snoc (left : Inner K (Node K V d)).kids (by omega)
    have hlen : rs.length = cs.length := by omega
    cases hrr : (right : Inner K (Node K V d)).runts with
    | nil => rw [hrr] at e'; simp at e'
    | cons r0 rr =>
    cases hrk : (right : Inner K (Node K V d)).kids with
    | nil => rw [hrr, hrk] at a'; simp at a'
    | cons c0 cr =>
    cases hcc : cs with
    | nil => rw [hcc] at hcsl; simp at hcsl; omega
    | cons c1 cs' =>
    cases hrc : rs with
    | nil => rw [hrc, hcc] at hlen; simp at hlen
    | cons k0 rs' =>
      -- left's chain, split at the last entry
      rw [hrs, hcs, zip_surgery _ _ _ _ hlen, Kids_append] at g
      obtain ⟨gL, gcl, hsk, _⟩ := g
      have gL' : Kids P.lt (fun a b c => WF P.lt o d (o / 2) a b c) (some s) (rs.zip cs) := gL
      have gcl' : WF P.lt o d (o / 2) (some s) (some k) cl := gcl
      have hsk' : P.lt s k = true := hsk
      -- right's head
      have hr0k : P.lt r0 k = false := f' r0 (by rw [hrr]; rfl)
      have hsr0 : P.lt s r0 = true := h.lt_of_lt_of_le hsk' hr0k
      have hr0hi : ltO P.lt r0 hi2 :=
        Kids_keys_lt h hi2 _ g' (r0, c0) (by rw [hrr, hrk]; simp)
      have hnl : nextLo hi2 ((right : Inner K (Node K V d)).runts.zip (right : Inner K (Node K V d)).kids) = some r0 := by
        rw [hrr, hrk]; rfl
      -- linkage
      have hLl' : LinkedKids (Linked d) (Node.firstId (d := d)) (some (Node.firstId (d := d + 1) right))
          (left : Inner K (Node K V d)).kids := hLl
      have hLr' : LinkedKids (Linked d) (Node.firstId (d := d)) after
          (right : Inner K (Node K V d)).kids := hLr
      have hfr : Node.firstId (d := d + 1) right = Node.firstId c0 := by
        simp only [Node.firstId, hrk]
      rw [hcs, LinkedKids_append] at hLl'
      obtain ⟨hLcs, hLcl, _⟩ := hLl'
      have hLcs' : LinkedKids (Linked d) (Node.firstId (d := d)) (some (Node.firstId cl)) cs := hLcs
      have hLcl' : Linked d (some (Node.firstId (d := d + 1) right)) cl := hLcl
      refine ⟨({ (left : Inner K (Node K V d)) with runts := rs, kids := cs } : Inner K (Node K V d)),
        ({ (right : Inner K (Node K V d)) with runts := s :: (right : Inner K (Node K V d)).runts, kids := cl :: (right : Inner K (Node K V d)).kids } : Inner K (Node K V d)),
        s, afl_inner_eval P hpad _ _ rs s cs cl hrs hcs hlen r0 rr hrr, ?_, ?_, ?_, ?_, ?_, ?_, hsk', ?_, ?_, ?_, ?_⟩
      · rfl
      · refine ⟨hlen, by show rs.length ≤ o; omega, Nat.zero_le _, by show 1 ≤ rs.length; omega, ?_, gL'⟩
        intro x hx
        apply f x
        rw [hrs]
        have hx' : rs.head? = some x := hx
        rw [hrc] at hx' ⊢
        exact hx'
      · refine ⟨?_, ?_, Nat.zero_le _, ?_, ?_, ?_⟩
        · show (s :: (right : Inner K (Node K V d)).runts).length = (cl :: (right : Inner K (Node K V d)).kids).length
          simp [a']
        · show (s :: (right : Inner K (Node K V d)).runts).length ≤ o
          simp; omega
        · show 1 ≤ (s :: (right : Inner K (Node K V d)).runts).length
          simp
        · intro x hx
          have hx' : (s :: (right : Inner K (Node K V d)).runts).head? = some x := hx
          simp at hx'; subst hx'
          exact h.irrefl _
        · show Kids P.lt (fun a b c => WF P.lt o d (o / 2) a b c) hi2
            ((s :: (right : Inner K (Node K V d)).runts).zip (cl :: (right : Inner K (Node K V d)).kids))
          rw [List.zip_cons_cons, Kids_cons, hnl]
          exact ⟨WF_mono_hi h (hi := some k) (hi' := some r0) hr0k gcl', hsr0, g'⟩
      · show rs.length + 1 = (left : Inner K (Node K V d)).runts.length
        omega
      · show (s :: (right : Inner K (Node K V d)).runts).length = (right : Inner K (Node K V d)).runts.length + 1
        simp
      · show cs.flatMap (Node.pairs (d := d)) ++ (cl :: (right : Inner K (Node K V d)).kids).flatMap (Node.pairs (d := d)) =
          (left : Inner K (Node K V d)).kids.flatMap (Node.pairs (d := d)) ++
          (right : Inner K (Node K V d)).kids.flatMap (Node.pairs (d := d))
        rw [hcs]
        simp
      · intro kl hkl
        subst hkl
        have h1 : P.lt k0 kl = false := f k0 (by rw [hrs, hrc]; rfl)
        have h2 : P.lt k0 s = true := by
          rw [hrc, hcc] at gL'
          have := Kids_keys_lt h (some s) _ gL' (k0, c1) (by simp)
          exact this
        exact h.lt_of_le_of_lt h1 h2
      · show LinkedKids (Linked d) (Node.firstId (d := d)) (some (Node.firstId cl)) cs
        exact hLcs'
      · show LinkedKids (Linked d) (Node.firstId (d := d)) after (cl :: (right : Inner K (Node K V d)).kids)
        refine ⟨?_, hLr'⟩
        rw [hrk]
        show Linked d (some (Node.firstId c0)) cl
        rw [← hfr]
        exact hLcl'
      · show Node.firstId (d := d + 1) ({ (left : Inner K (Node K V d)) with runts := rs, kids := cs } : Inner K (Node K V d)) =
          Node.firstId (d := d + 1) left
        simp only [Node.firstId, hcs, hcc]
        rfl

/-- a non-empty node's lower bound is not above its upper bound -/
theorem WF_leO_hi (h : SWO lt) {o d m : Nat} {lo : Option K} {k : K} {n : Node K V d}
    (hw : WF lt o d m lo (some k) n) (hne : 1 ≤ Node.count n) : leO lt lo k := by
  obtain ⟨s, _, hs1, hs2, _⟩ := WF_smallest h hw hne
  exact leO_trans h hs1 (h.asymm hs2)

/-- a non-empty node's lower bound is strictly below its upper bound -/
theorem WF_ltO_lo (h : SWO lt) {o d m : Nat} {hi : Option K} {k : K} {n : Node K V d}
    (hw : WF lt o d m (some k) hi n) (hne : 1 ≤ Node.count n) : ltO lt k hi := by
  obtain ⟨s, _, hs1, hs2, _⟩ := WF_smallest h hw hne
  exact ltO_of_le h hs2 hs1

theorem ltO_of_lt (h : SWO lt) {hi : Option K} {a b : K} (h1 : lt a b = true) (h2 : ltO lt b hi) :
    ltO lt a hi := by
  cases hi with
  | none => trivial
  | some u => exact h.trans _ _ _ h1 h2

/-- `left.absorbRight(right)`, general form: instead of demanding that the two
    siblings be non-empty it takes the two facts the parent's `Kids` chain
    supplies anyway, `lo1 ≤ k` and `k < hi2` (so it also covers the empty leaf
    that Delete produces for orders 2 and 3). -/
theorem absorbRight_ok_of_bounds (h : SWO lt) {o d : Nat} {lo1 hi2 : Option K} {k : K} {ml mr : Nat}
    (left right : Node K V d)
    (hl : WF lt o d ml lo1 (some k) left) (hr : WF lt o d mr (some k) hi2 right)
    (hsum : Node.count left + Node.count right ≤ o)
    (hlk : leO lt lo1 k) (hkh : ltO lt k hi2)
    (after : Option Nat)
    (hLl : Linked d (some (Node.firstId right)) left) (hLr : Linked d after right) :
    ∃ left' : Node K V d,
      Node.absorbRight left right = .ok left' ∧ WF lt o d 0 lo1 hi2 left' ∧
      Node.count left' = Node.count left + Node.count right ∧
      Node.pairs left' = Node.pairs left ++ Node.pairs right ∧
      Linked d after left' ∧ Node.firstId left' = Node.firstId left := by
  cases d with
  | zero =>
    obtain ⟨sl, lenl, _, _, bl⟩ := hl
    obtain ⟨sr, lenr, _, _, br⟩ := hr
    have hnext : (left : Leaf K V).next = some (right : Leaf K V).id := hLl
    have hsum' : (left : Leaf K V).keys.length + (right : Leaf K V).keys.length ≤ o := hsum
    refine ⟨({ (left : Leaf K V) with
        keys := (left : Leaf K V).keys ++ (right : Leaf K V).keys,
        vals := (left : Leaf K V).vals ++ (right : Leaf K V).vals,
        next := (right : Leaf K V).next } : Leaf K V), ?_, ?_, ?_, ?_, ?_, ?_⟩
    · have hn : ¬ ((left : Leaf K V).next ≠ some (right : Leaf K V).id) := by
        intro hc; exact hc hnext
      show (if (left : Leaf K V).next ≠ some (right : Leaf K V).id
          then (throw Panic.badMerge : R (Leaf K V))
          else pure ({ (left : Leaf K V) with
            keys := (left : Leaf K V).keys ++ (right : Leaf K V).keys,
            vals := (left : Leaf K V).vals ++ (right : Leaf K V).vals,
            next := (right : Leaf K V).next } : Leaf K V)) = _
      exact if_neg hn
    · refine ⟨?_, ?_, ?_, Nat.zero_le _, ?_⟩
      · exact List.pairwise_append.mpr ⟨sl, sr, fun a ha b hb =>
          h.lt_of_lt_of_le (bl a ha).2 (br b hb).1⟩
      · show ((left : Leaf K V).keys ++ (right : Leaf K V).keys).length =
          ((left : Leaf K V).vals ++ (right : Leaf K V).vals).length
        rw [List.length_append, List.length_append, lenl, lenr]
      · show ((left : Leaf K V).keys ++ (right : Leaf K V).keys).length ≤ o
        rw [List.length_append]; exact hsum'
      · intro x hx
        have hx' : x ∈ (left : Leaf K V).keys ++ (right : Leaf K V).keys := hx
        cases List.mem_append.mp hx' with
        | inl hxl => exact ⟨(bl x hxl).1, ltO_of_lt h (bl x hxl).2 hkh⟩
        | inr hxr => exact ⟨leO_trans h hlk (br x hxr).1, (br x hxr).2⟩
    · show ((left : Leaf K V).keys ++ (right : Leaf K V).keys).length =
        (left : Leaf K V).keys.length + (right : Leaf K V).keys.length
      exact List.length_append
    · show ((left : Leaf K V).keys ++ (right : Leaf K V).keys).zip
          ((left : Leaf K V).vals ++ (right : Leaf K V).vals) =
        (left : Leaf K V).keys.zip (left : Leaf K V).vals ++
          (right : Leaf K V).keys.zip (right : Leaf K V).vals
      exact zip_surgery _ _ _ _ lenl
    · show (right : Leaf K V).next = after
      exact hLr
    · rfl
  | succ d =>
    obtain ⟨lenl, _, _, nel, hdl, kl⟩ := hl
    obtain ⟨lenr, _, _, ner, hdr, kr⟩ := hr
    have hsum' : (left : Inner K (Node K V d)).runts.length +
        (right : Inner K (Node K V d)).runts.length ≤ o := hsum
    -- both nodes are non-empty
    obtain ⟨l0, lrest, hlr⟩ : ∃ l0 lrest, (left : Inner K (Node K V d)).runts = l0 :: lrest := by
      cases hq : (left : Inner K (Node K V d)).runts with
      | nil => rw [hq] at nel; simp at nel
      | cons a b => exact ⟨a, b, rfl⟩
    obtain ⟨cl0, clrest, hlc⟩ : ∃ c0 crest, (left : Inner K (Node K V d)).kids = c0 :: crest := by
      cases hq : (left : Inner K (Node K V d)).kids with
      | nil => rw [hq, hlr] at lenl; simp at lenl
      | cons a b => exact ⟨a, b, rfl⟩
    obtain ⟨r0, rrest, hrr⟩ : ∃ r0 rrest, (right : Inner K (Node K V d)).runts = r0 :: rrest := by
      cases hq : (right : Inner K (Node K V d)).runts with
      | nil => rw [hq] at ner; simp at ner
      | cons a b => exact ⟨a, b, rfl⟩
    obtain ⟨c0, crest, hrc⟩ : ∃ c0 crest, (right : Inner K (Node K V d)).kids = c0 :: crest := by
      cases hq : (right : Inner K (Node K V d)).kids with
      | nil => rw [hq, hrr] at lenr; simp at lenr
      | cons a b => exact ⟨a, b, rfl⟩
    have hfr : Node.firstId (d := d + 1) right = Node.firstId c0 := by
      show (match (right : Inner K (Node K V d)).kids with
        | [] => 0 | c :: _ => Node.firstId (d := d) c) = _
      rw [hrc]
    refine ⟨({ (left : Inner K (Node K V d)) with
        runts := (left : Inner K (Node K V d)).runts ++ (right : Inner K (Node K V d)).runts,
        kids := (left : Inner K (Node K V d)).kids ++ (right : Inner K (Node K V d)).kids }
          : Inner K (Node K V d)), ?_, ?_, ?_, ?_, ?_, ?_⟩
    · rfl
    · refine ⟨?_, ?_, Nat.zero_le _, ?_, ?_, ?_⟩
      · show ((left : Inner K (Node K V d)).runts ++ (right : Inner K (Node K V d)).runts).length =
          ((left : Inner K (Node K V d)).kids ++ (right : Inner K (Node K V d)).kids).length
        rw [List.length_append, List.length_append, lenl, lenr]
      · show ((left : Inner K (Node K V d)).runts ++ (right : Inner K (Node K V d)).runts).length ≤ o
        rw [List.length_append]; exact hsum'
      · show 1 ≤ ((left : Inner K (Node K V d)).runts ++ (right : Inner K (Node K V d)).runts).length
        rw [List.length_append]; omega
      · intro k0 hk0
        apply hdl k0
        have hk0' : ((left : Inner K (Node K V d)).runts ++
            (right : Inner K (Node K V d)).runts).head? = some k0 := hk0
        rw [hlr] at hk0' ⊢
        simpa using hk0'
      · show Kids lt (fun a b c => WF lt o d (o / 2) a b c) hi2
          (((left : Inner K (Node K V d)).runts ++ (right : Inner K (Node K V d)).runts).zip
            ((left : Inner K (Node K V d)).kids ++ (right : Inner K (Node K V d)).kids))
        rw [zip_surgery _ _ _ _ lenl, Kids_append]
        refine ⟨?_, kr⟩
        have hnl : nextLo hi2 ((right : Inner K (Node K V d)).runts.zip
            (right : Inner K (Node K V d)).kids) = some r0 := by
          rw [hrr, hrc]; rfl
        rw [hnl]
        have hle : hiLe lt (some k) (some r0) := hdr r0 (by rw [hrr]; rfl)
        exact Kids_mono_hi (R := fun a b c => WF lt o d (o / 2) a b c) h
          (fun a b b' c hb hw => WF_mono_hi h hb hw) hle _ kl
    · show ((left : Inner K (Node K V d)).runts ++ (right : Inner K (Node K V d)).runts).length =
        (left : Inner K (Node K V d)).runts.length + (right : Inner K (Node K V d)).runts.length
      exact List.length_append
    · show ((left : Inner K (Node K V d)).kids ++ (right : Inner K (Node K V d)).kids).flatMap
          (Node.pairs (d := d)) =
        (left : Inner K (Node K V d)).kids.flatMap (Node.pairs (d := d)) ++
          (right : Inner K (Node K V d)).kids.flatMap (Node.pairs (d := d))
      exact List.flatMap_append
    · show LinkedKids (Linked d) (Node.firstId (d := d)) after
        ((left : Inner K (Node K V d)).kids ++ (right : Inner K (Node K V d)).kids)
      rw [LinkedKids_append]
      refine ⟨?_, hLr⟩
      have hao : afterOf (Node.firstId (d := d)) after (right : Inner K (Node K V d)).kids =
          some (Node.firstId (d := d + 1) right) := by
        rw [hfr, hrc]; rfl
      rw [hao]
      exact hLl
    · show (match (left : Inner K (Node K V d)).kids ++ (right : Inner K (Node K V d)).kids with
        | [] => 0 | c :: _ => Node.firstId (d := d) c) =
        (match (left : Inner K (Node K V d)).kids with
        | [] => 0 | c :: _ => Node.firstId (d := d) c)
      rw [hlc]; rfl

/-- `left.absorbRight(right)` -/
theorem absorbRight_ok (h : SWO lt) {o d : Nat} {lo1 hi2 : Option K} {k : K} {ml mr : Nat}
    (left right : Node K V d)
    (hl : WF lt o d ml lo1 (some k) left) (hr : WF lt o d mr (some k) hi2 right)
    (hsum : Node.count left + Node.count right ≤ o)
    (hrne : 1 ≤ Node.count right) (hlne : 1 ≤ Node.count left)
    (after : Option Nat)
    (hLl : Linked d (some (Node.firstId right)) left) (hLr : Linked d after right) :
    ∃ left' : Node K V d,
      Node.absorbRight left right = .ok left' ∧ WF lt o d 0 lo1 hi2 left' ∧
      Node.count left' = Node.count left + Node.count right ∧
      Node.pairs left' = Node.pairs left ++ Node.pairs right ∧
      Linked d after left' ∧ Node.firstId left' = Node.firstId left :=
  absorbRight_ok_of_bounds h left right hl hr hsum (WF_leO_hi h hl hlne) (WF_ltO_lo h hr hrne)
    after hLl hLr

end Gobptree
