/-
  The three sibling operations of Delete's rebalancing on well-formed, linked
  siblings: borrow from the right, borrow from the left, merge.
-/
import Gobptree.Proofs.Linked

namespace Gobptree

variable {K V : Type} {lt : K → K → Bool}

/-- the occupancy clause of `WF` can be re-set to any bound the node meets -/
theorem WF_set_m {o d m m' : Nat} {lo hi : Option K} {n : Node K V d}
    (hw : WF lt o d m lo hi n) (hm : m' ≤ Node.count n) : WF lt o d m' lo hi n := by
  cases d with
  | zero => obtain ⟨a, b, c, _, f⟩ := hw; exact ⟨a, b, c, hm, f⟩
  | succ d => obtain ⟨a, b, _, e, f, g⟩ := hw; exact ⟨a, b, hm, e, f, g⟩

/-- `left.adoptFromRight(right)` -/
theorem adoptFromRight_ok (h : SWO lt) {o d : Nat} {lo1 hi2 : Option K} {kr : K} {ml : Nat}
    (left right : Node K V d)
    (hl : WF lt o d ml lo1 (some kr) left) (hr : WF lt o d (o / 2) (some kr) hi2 right)
    (hrc : 2 ≤ Node.count right) (hlc : Node.count left < o)
    (after : Option Nat)
    (hLl : Linked d (some (Node.firstId right)) left) (hLr : Linked d after right) :
    ∃ (left' right' : Node K V d) (s : K),
      Node.adoptFromRight left right = .ok (left', right') ∧ Node.smallest right' = .ok s ∧
      WF lt o d 0 lo1 (some s) left' ∧ WF lt o d 0 (some s) hi2 right' ∧
      Node.count left' = Node.count left + 1 ∧ Node.count right' + 1 = Node.count right ∧
      Node.pairs left' ++ Node.pairs right' = Node.pairs left ++ Node.pairs right ∧
      lt s kr = false ∧ ltO lt s hi2 ∧
      Linked d (some (Node.firstId right')) left' ∧ Linked d after right' ∧
      Node.firstId left' = Node.firstId left := by
  sorry

/-- `right.adoptFromLeft(left)` -/
theorem adoptFromLeft_ok (h : SWO lt) (P : Params K) (hP : P.lt = lt) (hpad : ∀ k, P.pad (some k) ≠ none)
    {o d : Nat} {lo1 hi2 : Option K} {k : K} {mr : Nat}
    (left right : Node K V d)
    (hl : WF lt o d (o / 2) lo1 (some k) left) (hr : WF lt o d mr (some k) hi2 right)
    (hlc : 2 ≤ Node.count left) (hrc1 : 1 ≤ Node.count right) (hrc : Node.count right < o)
    (after : Option Nat)
    (hLl : Linked d (some (Node.firstId right)) left) (hLr : Linked d after right) :
    ∃ (left' right' : Node K V d) (s : K),
      Node.adoptFromLeft P left right = .ok (left', right') ∧ Node.smallest right' = .ok s ∧
      WF lt o d 0 lo1 (some s) left' ∧ WF lt o d 0 (some s) hi2 right' ∧
      Node.count left' + 1 = Node.count left ∧ Node.count right' = Node.count right + 1 ∧
      Node.pairs left' ++ Node.pairs right' = Node.pairs left ++ Node.pairs right ∧
      lt s k = true ∧ (∀ kl, lo1 = some kl → lt kl s = true) ∧
      Linked d (some (Node.firstId right')) left' ∧ Linked d after right' ∧
      Node.firstId left' = Node.firstId left := by
  sorry

/-- `left.absorbRight(right)` -/
theorem absorbRight_ok (h : SWO lt) {o d : Nat} {lo1 hi2 : Option K} {k : K} {ml mr : Nat}
    (left right : Node K V d)
    (hl : WF lt o d ml lo1 (some k) left) (hr : WF lt o d mr (some k) hi2 right)
    (hsum : Node.count left + Node.count right ≤ o)
    (after : Option Nat)
    (hLl : Linked d (some (Node.firstId right)) left) (hLr : Linked d after right) :
    ∃ left' : Node K V d,
      Node.absorbRight left right = .ok left' ∧ WF lt o d 0 lo1 hi2 left' ∧
      Node.count left' = Node.count left + Node.count right ∧
      Node.pairs left' = Node.pairs left ++ Node.pairs right ∧
      Linked d after left' ∧ Node.firstId left' = Node.firstId left := by
  sorry

end Gobptree
