/-
  Concurrent Insert / Update / Search (with cursor sessions alongside) are linearizable:
  every reachable configuration's history of map operations has a linearization
  (Herlihy–Wing), given the per-block key-order results `ResumeKU`.

  Linearization points: an operation takes effect in the scheduler step in which it returns.
-/
import Gobptree.Proofs.CLinInv

namespace Gobptree.Conc
open Gobptree Gobptree.Lin

variable {K V : Type}

/-! ### the abstract effect of a stretch, by the signature of its continuation -/

def SigEffect (lt : K → K → Bool) (t : Nat) (k : Kont K V) (s : St K V) (new : List (Ev K V)) (s' : St K V)
    (fl : Flow K V) : Prop :=
  match kontSig k with
  | .ro false key => s'.tree.abs = s.tree.abs ∧ ∀ v, fl = .done (.found v) → v = Spec.lookup lt s.tree.abs key
  | .ro true _ => s'.tree.abs = s.tree.abs
  | .other => s'.tree.abs = s.tree.abs
  | .up key f _ =>
    match cbArg k with
    | some arg => s'.tree.abs = Spec.update lt s.tree.abs key f ∧ arg = Spec.lookup lt s.tree.abs key
    | none =>
      (∀ r, fl = .done r → s'.tree.abs = Spec.update lt s.tree.abs key f) ∧
      (∀ p, fl = .park p → s'.tree.abs = s.tree.abs) ∧
      (∀ arg, Ev.note t (.cb arg) ∈ new → arg = Spec.lookup lt s.tree.abs key)

theorem sigEffect_of_abs (lt : K → K → Bool) (P : Params K) (t : Nat) (s : St K V) (k : Kont K V)
    (new : List (Ev K V)) (hk : isDelK k = false) (h0 : s.evs = [])
    (hnew : (resume P t s k).1.evs = new)
    (h : AbsEffect lt t k s (resume P t s k).1 (resume P t s k).2) :
    SigEffect lt t k s new (resume P t s k).1 (resume P t s k).2 := by
  have third : ∀ (key : K),
      (∀ arg, Ev.note t (.cb arg) ∈ (resume P t s k).1.evs → Ev.note t (.cb arg) ∈ s.evs ∨ arg = Spec.lookup lt s.tree.abs key) →
      ∀ arg, Ev.note t (.cb arg) ∈ new → arg = Spec.lookup lt s.tree.abs key := by
    intro key hc arg hm
    rw [← hnew] at hm
    rcases hc arg hm with h | h
    · rw [h0] at h; cases h
    · exact h
  cases k with
  | roTree sc key =>
    have h' : (resume P t s (.roTree sc key)).1.tree.abs = s.tree.abs := h
    cases sc with
    | true => exact h'
    | false => exact ⟨h', fun v hv => by simp [resume] at hv⟩
  | roNode sc key hold want =>
    cases sc with
    | true => exact h
    | false => exact h
  | upTree key f y =>
    have h' : (resume P t s (.upTree key f y)).1.tree.abs = s.tree.abs := h
    refine ⟨fun r hr => by simp [resume] at hr, fun _ _ => h', ?_⟩
    intro arg hm
    rw [← hnew] at hm
    simp [resume, St.acq, h0] at hm
  | upRoot key f y r => exact ⟨h.1, h.2.1, third key h.2.2⟩
  | upRootSib key f y root sib => exact ⟨h.1, h.2.1, third key h.2.2⟩
  | upChild key f y parent index child => exact ⟨h.1, h.2.1, third key h.2.2⟩
  | upSib key f y parent child sib => exact ⟨h.1, h.2.1, third key h.2.2⟩
  | upCallback key f leaf arg => exact h
  | hop cur next => exact h
  | paused => exact h
  | delTree key => cases hk
  | delRoot key r => cases hk
  | delLeft key frames node index left root => cases hk
  | delChild key frames node index left child root => cases hk
  | delRight key rest fr right root => cases hk

/-- everything the linearizability proof needs of one stretch of a continuation -/
theorem resume_facts (RU : ResumeKU K V) (lt : K → K → Bool) (P : Params K) (t : Nat) (s : St K V) (k : Kont K V)
    (H : List Lk) (hole : Option Nat)
    (hdel : isDelK k = false) (hkp : KParams lt P) (hpre : Pre P hole s) (hko : KontOk s.tree k)
    (hcur : CursorOk s.tree (isHopK k) s.cursor) (hkpre : KontPre s.cursor k) (hcov : Covers H s.cursor k)
    (hord : OrdTree lt s.tree) (hkpos : KPos lt s.tree k) :
    ∃ new, (resume P t s k).1.evs = new ++ s.evs ∧ new.all (quietB t) = true ∧
      FlowR t k new (resume P t s k).2 ∧ SigEffect lt t k s new (resume P t s k).1 (resume P t s k).2 := by
  let s0 : St K V := { s with evs := [] }
  have hs : s = s0.addEvs s.evs := by cases s; rfl
  have hres : resume P t s k = addR (resume P t s0 k) s.evs := by
    have := resume_addEvs P t s0 s.evs k hdel
    rw [← hs] at this; exact this
  obtain ⟨new, e, q, fl⟩ := resume_tr P t s0 k hdel
  have e' : (resume P t s0 k).1.evs = new := by rw [e]; exact List.append_nil _
  obtain ⟨hpost, _⟩ := RU lt P t s0 k H hole hdel hkp ⟨hpre.tree, hpre.order, hpre.pad⟩ hko hcur hkpre hcov hord hkpos
  have heff := sigEffect_of_abs lt P t s0 k new hdel rfl e' hpost.eff
  refine ⟨new, ?_, q, ?_, ?_⟩
  · rw [hres]; show (resume P t s0 k).1.evs ++ s.evs = new ++ s.evs; rw [e']
  · rw [hres]; exact fl
  · rw [hres]; exact heff

/-! ### destructors -/

theorem SigEffect.ro_false {lt : K → K → Bool} {t : Nat} {k : Kont K V} {s s' : St K V} {new : List (Ev K V)}
    {fl : Flow K V} {key : K} (hs : kontSig k = .ro false key) (h : SigEffect lt t k s new s' fl) :
    s'.tree.abs = s.tree.abs ∧ ∀ v, fl = .done (.found v) → v = Spec.lookup lt s.tree.abs key := by
  unfold SigEffect at h; rw [hs] at h; exact h

theorem SigEffect.ro_true {lt : K → K → Bool} {t : Nat} {k : Kont K V} {s s' : St K V} {new : List (Ev K V)}
    {fl : Flow K V} {key : K} (hs : kontSig k = .ro true key) (h : SigEffect lt t k s new s' fl) :
    s'.tree.abs = s.tree.abs := by
  unfold SigEffect at h; rw [hs] at h; exact h

theorem SigEffect.other {lt : K → K → Bool} {t : Nat} {k : Kont K V} {s s' : St K V} {new : List (Ev K V)}
    {fl : Flow K V} (hs : kontSig k = .other) (h : SigEffect lt t k s new s' fl) :
    s'.tree.abs = s.tree.abs := by
  unfold SigEffect at h; rw [hs] at h; exact h

theorem SigEffect.up_none {lt : K → K → Bool} {t : Nat} {k : Kont K V} {s s' : St K V} {new : List (Ev K V)}
    {fl : Flow K V} {key : K} {f : Option V → V} {y : Option Bool} (hs : kontSig k = .up key f y)
    (hc : cbArg k = none) (h : SigEffect lt t k s new s' fl) :
    (∀ r, fl = .done r → s'.tree.abs = Spec.update lt s.tree.abs key f) ∧
      (∀ p, fl = .park p → s'.tree.abs = s.tree.abs) ∧
      (∀ arg, Ev.note t (.cb arg) ∈ new → arg = Spec.lookup lt s.tree.abs key) := by
  unfold SigEffect at h; rw [hs] at h; simp only [hc] at h; exact h

theorem SigEffect.up_some {lt : K → K → Bool} {t : Nat} {k : Kont K V} {s s' : St K V} {new : List (Ev K V)}
    {fl : Flow K V} {key : K} {f : Option V → V} {y : Option Bool} {arg : Option V} (hs : kontSig k = .up key f y)
    (hc : cbArg k = some arg) (h : SigEffect lt t k s new s' fl) :
    s'.tree.abs = Spec.update lt s.tree.abs key f ∧ arg = Spec.lookup lt s.tree.abs key := by
  unfold SigEffect at h; rw [hs] at h; simp only [hc] at h; exact h

/-- a stretch that parks does not change the abstract map -/
theorem SigEffect.park {lt : K → K → Bool} {t : Nat} {k : Kont K V} {s s' : St K V} {new : List (Ev K V)}
    {p : Park K V} (hc : cbArg k = none) (h : SigEffect lt t k s new s' (.park p)) :
    s'.tree.abs = s.tree.abs := by
  cases hs : kontSig k with
  | ro sc key =>
    cases sc with
    | true => exact h.ro_true hs
    | false => exact (h.ro_false hs).1
  | up key f y => exact (h.up_none hs hc).2.1 p rfl
  | other => exact h.other hs

theorem DoneR.up {t : Nat} {k : Kont K V} {new : List (Ev K V)} {res : Res K V} {key : K} {f : Option V → V}
    {y : Option Bool} (hs : kontSig k = .up key f y) (h : DoneR t k new res) :
    res = .ok ∧ match cbArg k with
      | none => y.isSome = true → (lastCb t new).isSome = true
      | some _ => lastCb t new = none := by
  unfold DoneR at h; rw [hs] at h; exact h

theorem DoneR.ro_false {t : Nat} {k : Kont K V} {new : List (Ev K V)} {res : Res K V} {key : K}
    (hs : kontSig k = .ro false key) (h : DoneR t k new res) : ∃ v, res = .found v := by
  unfold DoneR at h; rw [hs] at h; exact h

theorem cbArg_none_of_sig {k : Kont K V} {key : K} {f : Option V → V} {y : Option Bool}
    (hs : kontSig k = .up key f y) (hy : y ≠ some true) : cbArg k = none := by
  cases k <;> first | rfl | skip
  simp only [kontSig, KSig.up.injEq] at hs
  exact absurd hs.2.2.symm hy

theorem KontFor.of_sig {cop : COp K V} {k k' : Kont K V} (hs : kontSig k' = kontSig k)
    (hne : kontSig k = .other → False) (h : KontFor cop k) : KontFor cop k' := by
  cases cop with
  | ins key v => exact hs.trans h
  | upd key g b => exact hs.trans h
  | get key => exact hs.trans h
  | ns key => exact hs.trans h
  | del key => trivial
  | scan => exact absurd h.1 hne
  | pair => exact absurd h.1 hne
  | close => exact absurd h.1 hne
  | pause => exact absurd h.1 hne

/-! ### the first stretch of a step that resumes a continuation -/

section Stretch

variable {lt : K → K → Bool} {init : List (K × V)} {progs : Nat → List (COp K V)} {t : Nat}
  {st0 : LinState K V} {cb0 : Nat → Option (Option V)}

theorem stretch_lin {s s' : St K V} {fl : Flow K V} {new : List (Ev K V)} {k : Kont K V} {h : List (HEv K V)}
    {pc : Nat} {cop : COp K V}
    (b : Base lt init progs t st0 cb0 s.tree.abs s.evs h)
    (hfresh : ∀ i, pc < i → (linState lt init h).status t i = .fresh)
    (hcop : (progs t)[pc]? = some cop) (hnd : cop.isDel = false)
    (hbk : KBk (linState lt init h) ((hx progs s.evs).cb t) t pc cop k)
    (e : s'.evs = new ++ s.evs) (q : new.all (quietB t) = true)
    (hfl : FlowR t k new fl) (heff : SigEffect lt t k s new s' fl) (hnp : fl ≠ .panic) :
    ∃ h', LoopI lt init progs t st0 cb0 s' fl pc h' := by
  have b' := b.quiet new q
  obtain ⟨_, _, hcbt⟩ := hx_quiet progs t s.evs new q
  obtain ⟨hst, hkf, hcb⟩ := hbk
  -- the stretch leaves the abstract map alone and completes no map operation
  have same : s'.tree.abs = s.tree.abs → (∀ r, fl = .done r → opOf cop = none) →
      (∀ p, fl = .park p → ParkBk (linState lt init h) ((hx progs s'.evs).cb t) t pc (progs t)[pc]? p) →
      ∃ h', LoopI lt init progs t st0 cb0 s' fl pc h' := by
    intro habs hdone hpark
    refine ⟨h, ⟨by rw [habs, e]; exact b', hfresh, ?_⟩⟩
    cases fl with
    | panic => trivial
    | park p => exact hpark p rfl
    | done r =>
      intro cop' op hc ho
      rw [hcop] at hc; cases hc
      rw [hdone r rfl] at ho; cases ho
  cases fl with
  | panic => exact absurd rfl hnp
  | park p =>
    obtain ⟨hne, hcn, k', hk', hsig, hcb'⟩ := hfl
    apply same (heff.park hcn) (fun r hr => by cases hr)
    intro p' hp'
    cases hp'
    have hb : KBk (linState lt init h) ((hx progs s'.evs).cb t) t pc cop k' := by
      refine ⟨hst, hkf.of_sig hsig hne, ?_⟩
      intro arg ha
      rw [e, hcbt, hcb' arg ha]
    cases p with
    | start => cases hk'
    | finished => cases hk'
    | want l k'' => cases hk'; exact ⟨cop, hcop, hb⟩
    | yielded k'' => cases hk'; exact ⟨cop, hcop, hb⟩
  | done r =>
    have hdr : DoneR t k new r := hfl
    -- a map operation completes: its linearization point
    have linpt : ∀ (op : Op K V), opOf cop = some op →
        s'.tree.abs = (Spec.step lt s.tree.abs op).1 →
        outOf cop r ((hx progs s'.evs).cb t) = some (Spec.step lt s.tree.abs op).2 →
        ∃ h', LoopI lt init progs t st0 cb0 s' (.done r) pc h' := by
      intro op ho habs hout
      obtain ⟨b2, hs2, hoth2⟩ := b'.lin (hst op ho)
      refine ⟨_, ⟨by rw [habs, e]; exact b2, ?_, ?_⟩⟩
      · intro i hi
        rw [hoth2 i (by omega)]
        exact hfresh i hi
      · intro cop' op' hc ho'
        rw [hcop] at hc; cases hc
        rw [ho] at ho'; cases ho'
        exact ⟨_, hs2, hout⟩
    cases cop with
    | ins key v =>
      have hsig : kontSig k = .up key (fun _ => v) none := hkf
      have hcn := cbArg_none_of_sig hsig (by intro h; cases h)
      have hres := (hdr.up hsig).1
      subst hres
      exact linpt (.insert key v) rfl ((heff.up_none hsig hcn).1 _ rfl) rfl
    | upd key g y =>
      have hsig : kontSig k = .up key g (some y) := hkf
      have hres := (hdr.up hsig).1
      subst hres
      cases hca : cbArg k with
      | none =>
        obtain ⟨hA, _, hC⟩ := heff.up_none hsig hca
        have := (hdr.up hsig).2
        rw [hca] at this
        have hsome := this rfl
        cases hl : lastCb t new with
        | none => rw [hl] at hsome; cases hsome
        | some arg =>
          have harg := hC arg (lastCb_mem t new arg hl)
          apply linpt (.update key g) rfl (hA _ rfl)
          rw [e, hcbt, hl, harg]
          rfl
      | some arg =>
        obtain ⟨hA, harg⟩ := heff.up_some hsig hca
        have := (hdr.up hsig).2
        rw [hca] at this
        apply linpt (.update key g) rfl hA
        rw [e, hcbt, this, hcb arg hca, harg]
        rfl
    | get key =>
      have hsig : kontSig k = .ro false key := hkf
      obtain ⟨v, hv⟩ := hdr.ro_false hsig
      subst hv
      obtain ⟨hA, hB⟩ := heff.ro_false hsig
      apply linpt (.search key) rfl hA
      rw [hB v rfl]
      rfl
    | del key => cases hnd
    | ns key =>
      have hsig : kontSig k = .ro true key := hkf
      exact same (heff.ro_true hsig) (fun _ _ => rfl) (fun p hp => by cases hp)
    | scan => exact same (heff.other hkf.1) (fun _ _ => rfl) (fun p hp => by cases hp)
    | pair => exact same (heff.other hkf.1) (fun _ _ => rfl) (fun p hp => by cases hp)
    | close => exact same (heff.other hkf.1) (fun _ _ => rfl) (fun p hp => by cases hp)
    | pause => exact same (heff.other hkf.1) (fun _ _ => rfl) (fun p hp => by cases hp)

end Stretch

/-! ### the invariant of configurations -/

/-- `h` decorates the history of `c` with linearization points -/
structure LinInv (lt : K → K → Bool) (init : List (K × V)) (c : Config K V) (h : List (HEv K V)) : Prop where
  pts : Points lt init h c.tree.abs
  vis : visible h = history c
  thr : ∀ t th, c.threads[t]? = some th → ThreadBk (linState lt init h) ((hxRun c).cb t) t th

theorem ThreadBk.congr {st st' : LinState K V} {cbt cbt' : Option (Option V)} {t : Nat} {th : Thread K V}
    (hs : ∀ i, st'.status t i = st.status t i) (hc : cbt' = cbt) (h : ThreadBk st cbt t th) :
    ThreadBk st' cbt' t th := by
  subst hc
  refine ⟨fun i hi => by rw [hs]; exact h.fresh i hi, ?_⟩
  have hp := h.park
  have hk : ∀ cop k, KBk st cbt' t th.pc cop k → KBk st' cbt' t th.pc cop k :=
    fun cop k hb => ⟨fun op ho => by rw [hs]; exact hb.1 op ho, hb.2.1, hb.2.2⟩
  cases hpk : th.park with
  | start => rw [hpk] at hp; exact ⟨hp.1, by rw [hs]; exact hp.2⟩
  | finished => trivial
  | want l k =>
    rw [hpk] at hp
    obtain ⟨cop, h1, h2⟩ := hp
    exact ⟨cop, h1, hk cop k h2⟩
  | yielded k =>
    rw [hpk] at hp
    obtain ⟨cop, h1, h2⟩ := hp
    exact ⟨cop, h1, hk cop k h2⟩

theorem progOf_of_get {c : Config K V} {t : Nat} {th : Thread K V} (ht : c.threads[t]? = some th) :
    progOf c t = th.prog := by
  unfold progOf; rw [ht]; rfl

theorem init_lininv (lt : K → K → Bool) (P : Params K) (tree : Tree K V) (progs : List (List (COp K V))) :
    LinInv lt tree.abs (Config.init P tree progs) [] := by
  refine ⟨Points.nil lt tree.abs, rfl, ?_⟩
  intro t th ht
  have hm : th ∈ (Config.init P tree progs).threads := List.mem_of_getElem? ht
  simp only [Config.init, List.mem_map] at hm
  obtain ⟨p, _, e⟩ := hm
  subst e
  exact ⟨fun _ _ => rfl, rfl, rfl⟩

/-- **a scheduler step keeps the linearizability invariant** -/
theorem step_lininv (RU : ResumeKU K V) (lt : K → K → Bool) (init : List (K × V)) (c c' : Config K V) (t : Nat)
    (hstep : c.step t = some c') (hk : KCInv lt c) (h : List (HEv K V)) (hl : LinInv lt init c h) :
    ∃ h', LinInv lt init c' h' := by
  obtain ⟨th, ht, hen, r, hr, hc'⟩ := step_shape hstep
  have hinv := hk.cinv
  have halive' : c'.dead = false := (step_cinv blocks_ok c c' t hstep hinv).1.alive
  have hdied : r.2.2 = false := by
    rw [hc'] at halive'
    simp only [Bool.or_eq_false_iff] at halive'
    exact halive'.2
  have htm : th ∈ c.threads := List.mem_of_getElem? ht
  have hS := hinv.s
  have hok := hS.cfg th htm
  have hsok := hS.threads th htm
  have hnf := enabled_not_finished hen
  have hprog : th.prog = progOf c t := (progOf_of_get ht).symm
  have hbk := hl.thr t th ht
  have hths' : c'.threads = c.threads.set t r.1 := by rw [hc']
  have hrprog : r.1.prog = th.prog := by rw [hr]; exact runThread_prog _ _ _ _
  have hprogs' : progOf c' = progOf c := by
    funext j
    unfold progOf
    rw [hths']
    by_cases e : j = t
    · subst e
      rw [List.getElem?_set_self', ht]
      simp [hrprog]
    · rw [List.getElem?_set_ne (Ne.symm e)]
  -- the decorated history before the step, seen from thread `t`
  have base0 : Base lt init (progOf c) t (linState lt init h) (hxRun c).cb c.tree.abs c.log h :=
    ⟨hl.pts, hl.vis, fun _ _ _ => rfl, fun _ _ => rfl⟩
  have base1 : Base lt init (progOf c) t (linState lt init h) (hxRun c).cb (stepSt c t th).tree.abs
      (stepSt c t th).evs h := base0.quiet [Ev.dec t c.enabledSet] rfl
  have hcb1 : (hx (progOf c) (stepSt c t th).evs).cb t = (hxRun c).cb t := by
    show (hx (progOf c) ([Ev.dec t c.enabledSet] ++ c.log)).cb t = _
    rw [hx_silent _ _ _ rfl]; rfl
  -- the step of the thread
  have main : ∃ h', FinalI lt init (progOf c) t (linState lt init h) (hxRun c).cb r h' := by
    have resumed : ∀ k, (th.park = .yielded k ∨ ∃ l, th.park = .want l k) →
        r = threadLoop t th th.prog.length (resume c.P t (stepSt c t th) k).1 (resume c.P t (stepSt c t th) k).2 th.pc →
        CursorOk c.tree (isHopK k) th.cursor →
        ∃ h', FinalI lt init (progOf c) t (linState lt init h) (hxRun c).cb r h' := by
      intro k hpk hrk hcur
      have hkpos : KPos lt c.tree k := by
        have := hk.kinv.pos th htm
        rcases hpk with hp | ⟨l, hp⟩ <;> rw [hp] at this <;> exact this
      have hdel : isDelK k = false := by
        have := (hk.nodel th htm).1
        rcases hpk with hp | ⟨l, hp⟩ <;> rw [hp] at this <;> exact this
      have hko : KontOk c.tree k := by
        have := hsok.1
        rcases hpk with hp | ⟨l, hp⟩ <;> rw [hp] at this <;> exact this
      have hkpre : KontPre th.cursor k := by
        have := hok.2.1
        rcases hpk with hp | ⟨l, hp⟩ <;> rw [hp] at this <;> exact this
      have hcov := covers_of_ok (s0 := stepSt c t th) rfl hok k hpk
      obtain ⟨new, e, q, hfl, heff⟩ := resume_facts RU lt c.P t (stepSt c t th) k (stepHeld th) (holeOf c.threads)
        hdel hk.kp ⟨hS.tree, hS.order, hS.pad⟩ hko hcur hkpre hcov hk.kinv.ord hkpos
      have hnp : (resume c.P t (stepSt c t th) k).2 ≠ .panic := by
        intro hp
        rw [hrk, hp, threadLoop_panic] at hdied
        cases hdied
      obtain ⟨cop, hcop, hkb⟩ : ∃ cop, th.prog[th.pc]? = some cop ∧
          KBk (linState lt init h) ((hxRun c).cb t) t th.pc cop k := by
        have := hbk.park
        rcases hpk with hp | ⟨l, hp⟩ <;> rw [hp] at this <;> exact this
      have hnd : cop.isDel = false := (hk.nodel th htm).2 cop (List.mem_of_getElem? hcop)
      obtain ⟨h1, hl1⟩ := stretch_lin (pc := th.pc) base1 hbk.fresh (by rw [← hprog]; exact hcop) hnd
        (by rw [hcb1]; exact hkb) e q hfl heff hnp
      rw [hrk]
      exact loop_lin th hprog _ _ _ _ h1 hl1
    rw [hr]
    unfold runThread
    cases hp : th.park with
    | finished => exact absurd hp hnf
    | start =>
      have hst := hbk.park
      rw [hp] at hst
      obtain ⟨hpc, hfr⟩ := hst
      simp only
      cases hop : th.prog[0]? with
      | none =>
        refine ⟨h, base1, ?_, trivial⟩
        exact hbk.fresh
      | some op =>
        simp only
        have hfresh : ∀ i, 0 ≤ i → (linState lt init h).status t i = .fresh := by
          intro i _
          cases i with
          | zero => exact hfr
          | succ i => exact hbk.fresh _ (by omega)
        obtain ⟨h1, hl1⟩ := begin_op (s := stepSt c t th) base1 hfresh (by rw [← hprog]; exact hop)
        exact loop_lin th hprog _ _ _ _ h1 hl1
    | want l k =>
      simp only
      have hcur : CursorOk c.tree (isHopK k) th.cursor := by
        have := hsok.2; rw [hp, isHop_want] at this; exact this
      have := resumed k (Or.inr ⟨l, hp⟩) (by rw [hr]; unfold runThread; rw [hp]) hcur
      rw [hr] at this; unfold runThread at this; rw [hp] at this
      exact this
    | yielded k =>
      simp only
      have hlock : kontLock k = none := by have := hok.2.2; rw [hp] at this; exact this
      have hhop : isHopK k = false := by
        cases k <;> first | rfl | (simp [kontLock] at hlock)
      have hcur : CursorOk c.tree (isHopK k) th.cursor := by
        have := hsok.2; rw [hp, isHop_yielded] at this; rw [hhop]; exact this
      have := resumed k (Or.inl hp) (by rw [hr]; unfold runThread; rw [hp]) hcur
      rw [hr] at this; unfold runThread at this; rw [hp] at this
      exact this
  obtain ⟨h', hfin⟩ := main
  have hlog' : c'.log = r.2.1.evs := by rw [hc']
  have htree' : c'.tree = r.2.1.tree := by rw [hc']
  have hrun' : hxRun c' = hx (progOf c) r.2.1.evs := by rw [hxRun_eq, hprogs', hlog']
  refine ⟨h', ⟨by rw [htree']; exact hfin.base.pts, ?_, ?_⟩⟩
  · show visible h' = (hxRun c').evs
    rw [hrun']; exact hfin.base.vis
  · intro j b hj
    rw [hths'] at hj
    rcases getElem?_set_cases _ _ _ _ _ hj with ⟨ej, eb⟩ | ⟨hne, hjo⟩
    · subst ej; subst eb
      rw [hrun']; exact hfin.bk
    · apply (hl.thr j b hjo).congr
      · intro i; exact hfin.base.oth j i hne
      · rw [hrun']; exact hfin.base.ocb j hne

/-- concurrent Insert/Update/Search (and cursor sessions alongside) are linearizable -/
theorem linearizable_nodelete (RU : ResumeKU K V) (lt : K → K → Bool) (P : Params K) (tree : Tree K V)
    (progs : List (List (COp K V)))
    (hkp : KParams lt P) (ht : TreeOk none tree) (hord : OrdTree lt tree) (ho : tree.order = P.order)
    (hp : PadOk P) (hd : Disciplined progs) (hnd : NoDelete progs)
    (c : Config K V) (hr : Reachable (Config.init P tree progs) c) :
    Lin.Linearizable lt tree.abs (history c) := by
  have key : ∃ h, LinInv lt tree.abs c h := by
    induction hr with
    | refl => exact ⟨[], init_lininv lt P tree progs⟩
    | @step c1 c2 t hr1 hs ih =>
      obtain ⟨h, hl⟩ := ih
      exact step_lininv RU lt tree.abs c1 c2 t hs
        (reachable_kcinv RU lt P tree progs hkp ht hord ho hp hd hnd c1 hr1) h hl
  obtain ⟨h, hl⟩ := key
  rw [← hl.vis]
  exact hl.pts.linearizable

#print axioms linearizable_nodelete

end Gobptree.Conc
