/-
  Concurrent Insert / Update / Search (with cursor sessions alongside) are linearizable:
  every reachable configuration's history of map operations has a linearization
  (Herlihy–Wing), given the per-block key-order results `ResumeKU`.

  Linearization points: an operation takes effect in the scheduler step in which it returns.
  The step-level assembly (`stretch_lin`, `step_lininv_gen`) is generic in the provider of the
  abstract effects (`StepEff`) and already covers Delete, whose linearization point is the
  stretch that removes the key from its leaf; `CLinDel.lean` instantiates it with `KBlocks`.
-/
import Gobptree.Proofs.CLinInv

namespace Gobptree.Conc
open Gobptree Gobptree.Lin

variable {K V : Type}

/-! ### the abstract effect of a stretch, by the signature of its continuation -/

def SigEffect (lt : K → K → Bool) (t : Nat) (k : Kont K V) (s : St K V) (new : List (Ev K V)) (s' : St K V)
    (fl : Flow K V) : Prop :=
  match kontSig k with
  | .ro false key => s'.tree.abs = s.tree.abs ∧ ∀ v, fl = .done (.found v) → v = Spec.lookup lt s.tree.abs key
  | .ro true _ => s'.tree.abs = s.tree.abs
  | .other => s'.tree.abs = s.tree.abs
  | .up key f _ =>
    match cbArg k with
    | some arg => s'.tree.abs = Spec.update lt s.tree.abs key f ∧ arg = Spec.lookup lt s.tree.abs key
    | none =>
      (∀ r, fl = .done r → s'.tree.abs = Spec.update lt s.tree.abs key f) ∧
      (∀ p, fl = .park p → s'.tree.abs = s.tree.abs) ∧
      (∀ arg, Ev.note t (.cb arg) ∈ new → arg = Spec.lookup lt s.tree.abs key)
  | .del key =>
    if postK k = true then s'.tree.abs = s.tree.abs
    else (postLeaf fl → s'.tree.abs = Spec.erase lt s.tree.abs key) ∧ (¬ postLeaf fl → s'.tree.abs = s.tree.abs)

theorem resume_delLeft_notPost (P : Params K) (t : Nat) (s : St K V) (key : K) (frames : List Frame)
    (node index left root : Nat) : ¬ postLeaf (resume P t s (.delLeft key frames node index left root)).2 := by
  simp only [resume]
  split
  · split <;> exact id
  · exact id

theorem sigEffect_of_abs (lt : K → K → Bool) (P : Params K) (t : Nat) (s : St K V) (k : Kont K V)
    (new : List (Ev K V)) (h0 : s.evs = [])
    (hnew : (resume P t s k).1.evs = new)
    (h : AbsEffect lt t k s (resume P t s k).1 (resume P t s k).2) :
    SigEffect lt t k s new (resume P t s k).1 (resume P t s k).2 := by
  have third : ∀ (key : K),
      (∀ arg, Ev.note t (.cb arg) ∈ (resume P t s k).1.evs → Ev.note t (.cb arg) ∈ s.evs ∨ arg = Spec.lookup lt s.tree.abs key) →
      ∀ arg, Ev.note t (.cb arg) ∈ new → arg = Spec.lookup lt s.tree.abs key := by
    intro key hc arg hm
    rw [← hnew] at hm
    rcases hc arg hm with h | h
    · rw [h0] at h; cases h
    · exact h
  cases k with
  | roTree sc key =>
    have h' : (resume P t s (.roTree sc key)).1.tree.abs = s.tree.abs := h
    cases sc with
    | true => exact h'
    | false => exact ⟨h', fun v hv => by simp [resume] at hv⟩
  | roNode sc key hold want =>
    cases sc with
    | true => exact h
    | false => exact h
  | upTree key f y =>
    have h' : (resume P t s (.upTree key f y)).1.tree.abs = s.tree.abs := h
    refine ⟨fun r hr => by simp [resume] at hr, fun _ _ => h', ?_⟩
    intro arg hm
    rw [← hnew] at hm
    simp [resume, St.acq, h0] at hm
  | upRoot key f y r => exact ⟨h.1, h.2.1, third key h.2.2⟩
  | upRootSib key f y root sib => exact ⟨h.1, h.2.1, third key h.2.2⟩
  | upChild key f y parent index child => exact ⟨h.1, h.2.1, third key h.2.2⟩
  | upSib key f y parent child sib => exact ⟨h.1, h.2.1, third key h.2.2⟩
  | upCallback key f leaf arg => exact h
  | hop cur next => exact h
  | paused => exact h
  | delTree key =>
    have h' : (resume P t s (.delTree key)).1.tree.abs = s.tree.abs := h
    exact ⟨fun hp => absurd hp id, fun _ => h'⟩
  | delRoot key r => exact h
  | delLeft key frames node index left root =>
    have h' : (resume P t s (.delLeft key frames node index left root)).1.tree.abs = s.tree.abs := h
    exact ⟨fun hp => absurd hp (resume_delLeft_notPost P t s key frames node index left root), fun _ => h'⟩
  | delChild key frames node index left child root => exact h
  | delRight key rest fr right root => exact h

/-- everything the linearizability proof needs of one stretch of a continuation, given its
    abstract effect (on the same state with an empty log) -/
theorem resume_facts_of_eff (lt : K → K → Bool) (P : Params K) (t : Nat) (s : St K V) (k : Kont K V)
    (hE : AbsEffect lt t k { s with evs := [] } (resume P t { s with evs := [] } k).1 (resume P t { s with evs := [] } k).2) :
    ∃ new, (resume P t s k).1.evs = new ++ s.evs ∧ new.all (quietB t) = true ∧
      FlowR t k new (resume P t s k).2 ∧ SigEffect lt t k s new (resume P t s k).1 (resume P t s k).2 := by
  let s0 : St K V := { s with evs := [] }
  have hs : s = s0.addEvs s.evs := by cases s; rfl
  have hres : resume P t s k = addR (resume P t s0 k) s.evs := by
    have := resume_addEvs P t s0 s.evs k
    rw [← hs] at this; exact this
  obtain ⟨new, e, q, fl⟩ := resume_tr P t s0 k
  have e' : (resume P t s0 k).1.evs = new := by rw [e]; exact List.append_nil _
  have heff := sigEffect_of_abs lt P t s0 k new rfl e' hE
  refine ⟨new, ?_, q, ?_, ?_⟩
  · rw [hres]; show (resume P t s0 k).1.evs ++ s.evs = new ++ s.evs; rw [e']
  · rw [hres]; exact fl
  · rw [hres]; exact heff

/-! ### destructors -/

theorem SigEffect.ro_false {lt : K → K → Bool} {t : Nat} {k : Kont K V} {s s' : St K V} {new : List (Ev K V)}
    {fl : Flow K V} {key : K} (hs : kontSig k = .ro false key) (h : SigEffect lt t k s new s' fl) :
    s'.tree.abs = s.tree.abs ∧ ∀ v, fl = .done (.found v) → v = Spec.lookup lt s.tree.abs key := by
  unfold SigEffect at h; rw [hs] at h; exact h

theorem SigEffect.ro_true {lt : K → K → Bool} {t : Nat} {k : Kont K V} {s s' : St K V} {new : List (Ev K V)}
    {fl : Flow K V} {key : K} (hs : kontSig k = .ro true key) (h : SigEffect lt t k s new s' fl) :
    s'.tree.abs = s.tree.abs := by
  unfold SigEffect at h; rw [hs] at h; exact h

theorem SigEffect.other {lt : K → K → Bool} {t : Nat} {k : Kont K V} {s s' : St K V} {new : List (Ev K V)}
    {fl : Flow K V} (hs : kontSig k = .other) (h : SigEffect lt t k s new s' fl) :
    s'.tree.abs = s.tree.abs := by
  unfold SigEffect at h; rw [hs] at h; exact h

theorem SigEffect.up_none {lt : K → K → Bool} {t : Nat} {k : Kont K V} {s s' : St K V} {new : List (Ev K V)}
    {fl : Flow K V} {key : K} {f : Option V → V} {y : Option Bool} (hs : kontSig k = .up key f y)
    (hc : cbArg k = none) (h : SigEffect lt t k s new s' fl) :
    (∀ r, fl = .done r → s'.tree.abs = Spec.update lt s.tree.abs key f) ∧
      (∀ p, fl = .park p → s'.tree.abs = s.tree.abs) ∧
      (∀ arg, Ev.note t (.cb arg) ∈ new → arg = Spec.lookup lt s.tree.abs key) := by
  unfold SigEffect at h; rw [hs] at h; simp only [hc] at h; exact h

theorem SigEffect.up_some {lt : K → K → Bool} {t : Nat} {k : Kont K V} {s s' : St K V} {new : List (Ev K V)}
    {fl : Flow K V} {key : K} {f : Option V → V} {y : Option Bool} {arg : Option V} (hs : kontSig k = .up key f y)
    (hc : cbArg k = some arg) (h : SigEffect lt t k s new s' fl) :
    s'.tree.abs = Spec.update lt s.tree.abs key f ∧ arg = Spec.lookup lt s.tree.abs key := by
  unfold SigEffect at h; rw [hs] at h; simp only [hc] at h; exact h

theorem SigEffect.del_post {lt : K → K → Bool} {t : Nat} {k : Kont K V} {s s' : St K V} {new : List (Ev K V)}
    {fl : Flow K V} {key : K} (hs : kontSig k = .del key) (hp : postK k = true)
    (h : SigEffect lt t k s new s' fl) : s'.tree.abs = s.tree.abs := by
  unfold SigEffect at h; rw [hs] at h; simp only [] at h; rw [if_pos hp] at h; exact h

theorem SigEffect.del_pre {lt : K → K → Bool} {t : Nat} {k : Kont K V} {s s' : St K V} {new : List (Ev K V)}
    {fl : Flow K V} {key : K} (hs : kontSig k = .del key) (hp : postK k = false)
    (h : SigEffect lt t k s new s' fl) :
    (postLeaf fl → s'.tree.abs = Spec.erase lt s.tree.abs key) ∧ (¬ postLeaf fl → s'.tree.abs = s.tree.abs) := by
  unfold SigEffect at h; rw [hs] at h; simp only [] at h
  rw [if_neg (by rw [hp]; exact Bool.false_ne_true)] at h; exact h

/-- a stretch that parks before the key of a Delete is removed does not change the abstract map -/
theorem SigEffect.park {lt : K → K → Bool} {t : Nat} {k : Kont K V} {s s' : St K V} {new : List (Ev K V)}
    {p : Park K V} (hc : cbArg k = none) (hq : postP p = false) (h : SigEffect lt t k s new s' (.park p)) :
    s'.tree.abs = s.tree.abs := by
  cases hs : kontSig k with
  | ro sc key =>
    cases sc with
    | true => exact h.ro_true hs
    | false => exact (h.ro_false hs).1
  | up key f y => exact (h.up_none hs hc).2.1 p rfl
  | other => exact h.other hs
  | del key =>
    cases hp : postK k with
    | true => exact h.del_post hs hp
    | false =>
      refine (h.del_pre hs hp).2 ?_
      intro hpl
      rw [(postLeaf_park p).1 hpl] at hq
      cases hq

theorem DoneR.up {t : Nat} {k : Kont K V} {new : List (Ev K V)} {res : Res K V} {key : K} {f : Option V → V}
    {y : Option Bool} (hs : kontSig k = .up key f y) (h : DoneR t k new res) :
    res = .ok ∧ match cbArg k with
      | none => y.isSome = true → (lastCb t new).isSome = true
      | some _ => lastCb t new = none := by
  unfold DoneR at h; rw [hs] at h; exact h

theorem DoneR.ro_false {t : Nat} {k : Kont K V} {new : List (Ev K V)} {res : Res K V} {key : K}
    (hs : kontSig k = .ro false key) (h : DoneR t k new res) : ∃ v, res = .found v := by
  unfold DoneR at h; rw [hs] at h; exact h

theorem DoneR.del {t : Nat} {k : Kont K V} {new : List (Ev K V)} {res : Res K V} {key : K}
    (hs : kontSig k = .del key) (h : DoneR t k new res) : res = .ok := by
  unfold DoneR at h; rw [hs] at h; exact h

theorem cbArg_none_of_sig {k : Kont K V} {key : K} {f : Option V → V} {y : Option Bool}
    (hs : kontSig k = .up key f y) (hy : y ≠ some true) : cbArg k = none := by
  cases k <;> first | rfl | skip
  simp only [kontSig, KSig.up.injEq] at hs
  exact absurd hs.2.2.symm hy

theorem postK_false_of_sig {k : Kont K V} (h : ∀ key, kontSig k = .del key → False) : postK k = false := by
  cases hp : postK k with
  | false => rfl
  | true =>
    obtain ⟨key, hk⟩ := postK_sig hp
    exact absurd hk (h key)

theorem KontFor.of_sig {cop : COp K V} {k k' : Kont K V} (hs : kontSig k' = kontSig k)
    (h : KontFor cop k) : KontFor cop k' := by
  cases cop <;> exact hs.trans h

theorem KontFor.del_eq {cop : COp K V} {k : Kont K V} {key : K} (hs : kontSig k = .del key)
    (h : KontFor cop k) : cop = .del key := by
  cases cop with
  | del key' =>
    have : kontSig k = .del key' := h
    rw [hs] at this
    cases this; rfl
  | ins key' v => have : kontSig k = _ := h; rw [hs] at this; cases this
  | upd key' g b => have : kontSig k = _ := h; rw [hs] at this; cases this
  | get key' => have : kontSig k = _ := h; rw [hs] at this; cases this
  | ns key' => have : kontSig k = _ := h; rw [hs] at this; cases this
  | scan => have : kontSig k = _ := h; rw [hs] at this; cases this
  | pair => have : kontSig k = _ := h; rw [hs] at this; cases this
  | close => have : kontSig k = _ := h; rw [hs] at this; cases this
  | pause => have : kontSig k = _ := h; rw [hs] at this; cases this

/-! ### the first stretch of a step that resumes a continuation -/

section Stretch

variable {lt : K → K → Bool} {init : List (K × V)} {progs : Nat → List (COp K V)} {t : Nat}
  {st0 : LinState K V} {cb0 : Nat → Option (Option V)}

theorem stretch_lin {s s' : St K V} {fl : Flow K V} {new : List (Ev K V)} {k : Kont K V} {h : List (HEv K V)}
    {pc : Nat} {cop : COp K V}
    (b : Base lt init progs t st0 cb0 s.tree.abs s.evs h)
    (hfresh : ∀ i, pc < i → (linState lt init h).status t i = .fresh)
    (hcop : (progs t)[pc]? = some cop)
    (hbk : KBk (linState lt init h) ((hx progs s.evs).cb t) t pc cop k (postK k))
    (e : s'.evs = new ++ s.evs) (q : new.all (quietB t) = true)
    (hfl : FlowR t k new fl) (heff : SigEffect lt t k s new s' fl) (hnp : fl ≠ .panic) :
    ∃ h', LoopI lt init progs t st0 cb0 s' fl pc h' := by
  have b' := b.quiet new q
  obtain ⟨_, _, hcbt⟩ := hx_quiet progs t s.evs new q
  obtain ⟨hst, hkf, hcb⟩ := hbk
  have hinvk : postK k = false → ∀ op, opOf cop = some op → (linState lt init h).status t pc = .invoked op := by
    intro hp op ho
    have := hst op ho
    rw [hp] at this; exact this
  have hlink : postK k = true → ∀ op, opOf cop = some op →
      (linState lt init h).status t pc = .linearized op .done := by
    intro hp op ho
    have := hst op ho
    rw [hp] at this; exact this
  -- the stretch leaves the abstract map alone and adds no linearization point
  have same : s'.tree.abs = s.tree.abs →
      FlowBk (linState lt init h) ((hx progs s'.evs).cb t) t pc (progs t)[pc]? fl →
      ∃ h', LoopI lt init progs t st0 cb0 s' fl pc h' :=
    fun habs hf => ⟨h, ⟨by rw [habs, e]; exact b', hfresh, hf⟩⟩
  -- the stretch contains the linearization point of the operation
  have linpt : ∀ (op : Op K V), postK k = false → opOf cop = some op →
      s'.tree.abs = (Spec.step lt s.tree.abs op).1 →
      (∀ st' : LinState K V, st'.status t pc = .linearized op (Spec.step lt s.tree.abs op).2 →
        FlowBk st' ((hx progs s'.evs).cb t) t pc (progs t)[pc]? fl) →
      ∃ h', LoopI lt init progs t st0 cb0 s' fl pc h' := by
    intro op hp ho habs hF
    obtain ⟨b2, hs2, hoth2⟩ := b'.lin (hinvk hp op ho)
    refine ⟨_, ⟨by rw [habs, e]; exact b2, ?_, hF _ hs2⟩⟩
    intro i hi
    rw [hoth2 i (by omega)]
    exact hfresh i hi
  cases fl with
  | panic => exact absurd rfl hnp
  | park p =>
    obtain ⟨hpp, hne, hcn, k', hk', hsig, hcb'⟩ := hfl
    have hkf' : KontFor cop k' := hkf.of_sig hsig
    have mk : ∀ (st' : LinState K V) (post' : Bool),
        (∀ op, opOf cop = some op → st'.status t pc = if post' then .linearized op .done else .invoked op) →
        KBk st' ((hx progs s'.evs).cb t) t pc cop k' post' := by
      intro st' post' hs'
      refine ⟨hs', hkf', ?_⟩
      intro arg ha
      rw [e, hcbt, hcb' arg ha]
    cases hq : postP p with
    | false =>
      have hpk : postK k = false := by
        cases hpk : postK k with
        | false => rfl
        | true => have := hpp hpk; rw [hq] at this; cases this
      apply same (heff.park hcn hq)
      have hb := mk (linState lt init h) false (by intro op ho; exact hinvk hpk op ho)
      cases p with
      | start => cases hk'
      | finished => cases hk'
      | want l k'' =>
        cases hk'
        have hq' : postK k' = false := hq
        exact ⟨cop, hcop, by rw [hq']; exact hb⟩
      | yielded k'' => cases hk'; exact ⟨cop, hcop, hb⟩
    | true =>
      cases p with
      | start => cases hq
      | finished => cases hq
      | yielded k'' => cases hq
      | want l k'' =>
        cases hk'
        have hq' : postK k' = true := hq
        obtain ⟨key, hsk'⟩ := postK_sig hq'
        have hsk : kontSig k = .del key := by rw [← hsig]; exact hsk'
        have hc := hkf.del_eq hsk
        subst hc
        cases hpk : postK k with
        | true =>
          apply same (heff.del_post hsk hpk)
          exact ⟨_, hcop, by rw [hq']; exact mk _ true (by intro op ho; exact hlink hpk op ho)⟩
        | false =>
          apply linpt (.delete key) hpk rfl ((heff.del_pre hsk hpk).1 ((postLeaf_park _).2 hq))
          intro st' hs'
          refine ⟨_, hcop, ?_⟩
          rw [hq']
          apply mk st' true
          intro op ho
          cases ho
          exact hs'
  | done r =>
    have hdr : DoneR t k new r := hfl
    have doneBk : ∀ (op : Op K V) (out : Out V), opOf cop = some op →
        outOf cop r ((hx progs s'.evs).cb t) = some out →
        ∀ st' : LinState K V, st'.status t pc = .linearized op out →
          FlowBk st' ((hx progs s'.evs).cb t) t pc (progs t)[pc]? (.done r) := by
      intro op out ho hout st' hs' cop' op' hc ho'
      rw [hcop] at hc; cases hc
      rw [ho] at ho'; cases ho'
      exact ⟨out, hs', hout⟩
    have noop : opOf cop = none → ∀ st' : LinState K V,
        FlowBk st' ((hx progs s'.evs).cb t) t pc (progs t)[pc]? (.done r) := by
      intro hn st' cop' op' hc ho'
      rw [hcop] at hc; cases hc
      rw [hn] at ho'; cases ho'
    cases cop with
    | ins key v =>
      have hsig : kontSig k = .up key (fun _ => v) none := hkf
      have hpk := postK_false_of_sig (k := k) (by intro key' h; rw [hsig] at h; cases h)
      have hcn := cbArg_none_of_sig hsig (by intro h; cases h)
      have hres := (hdr.up hsig).1
      subst hres
      exact linpt (.insert key v) hpk rfl ((heff.up_none hsig hcn).1 _ rfl) (doneBk _ _ rfl rfl)
    | upd key g y =>
      have hsig : kontSig k = .up key g (some y) := hkf
      have hpk := postK_false_of_sig (k := k) (by intro key' h; rw [hsig] at h; cases h)
      have hres := (hdr.up hsig).1
      subst hres
      cases hca : cbArg k with
      | none =>
        obtain ⟨hA, _, hC⟩ := heff.up_none hsig hca
        have := (hdr.up hsig).2
        rw [hca] at this
        have hsome := this rfl
        cases hl : lastCb t new with
        | none => rw [hl] at hsome; cases hsome
        | some arg =>
          have harg := hC arg (lastCb_mem t new arg hl)
          apply linpt (.update key g) hpk rfl (hA _ rfl) (doneBk _ _ rfl ?_)
          rw [e, hcbt, hl, harg]
          rfl
      | some arg =>
        obtain ⟨hA, harg⟩ := heff.up_some hsig hca
        have := (hdr.up hsig).2
        rw [hca] at this
        apply linpt (.update key g) hpk rfl hA (doneBk _ _ rfl ?_)
        rw [e, hcbt, this, hcb arg hca, harg]
        rfl
    | get key =>
      have hsig : kontSig k = .ro false key := hkf
      have hpk := postK_false_of_sig (k := k) (by intro key' h; rw [hsig] at h; cases h)
      obtain ⟨v, hv⟩ := hdr.ro_false hsig
      subst hv
      obtain ⟨hA, hB⟩ := heff.ro_false hsig
      apply linpt (.search key) hpk rfl hA (doneBk _ _ rfl ?_)
      rw [hB v rfl]
      rfl
    | del key =>
      have hsig : kontSig k = .del key := hkf
      have hres := hdr.del hsig
      subst hres
      cases hpk : postK k with
      | true => exact same (heff.del_post hsig hpk) (doneBk (.delete key) .done rfl rfl _ (hlink hpk _ rfl))
      | false =>
        exact linpt (.delete key) hpk rfl ((heff.del_pre hsig hpk).1 trivial) (doneBk _ _ rfl rfl)
    | ns key =>
      have hsig : kontSig k = .ro true key := hkf
      exact same (heff.ro_true hsig) (noop rfl _)
    | scan => exact same (heff.other hkf) (noop rfl _)
    | pair => exact same (heff.other hkf) (noop rfl _)
    | close => exact same (heff.other hkf) (noop rfl _)
    | pause => exact same (heff.other hkf) (noop rfl _)

end Stretch

/-! ### the invariant of configurations -/

/-- `h` decorates the history of `c` with linearization points -/
structure LinInv (lt : K → K → Bool) (init : List (K × V)) (c : Config K V) (h : List (HEv K V)) : Prop where
  pts : Points lt init h c.tree.abs
  vis : visible h = history c
  thr : ∀ t th, c.threads[t]? = some th → ThreadBk (linState lt init h) ((hxRun c).cb t) t th

theorem ThreadBk.congr {st st' : LinState K V} {cbt cbt' : Option (Option V)} {t : Nat} {th : Thread K V}
    (hs : ∀ i, st'.status t i = st.status t i) (hc : cbt' = cbt) (h : ThreadBk st cbt t th) :
    ThreadBk st' cbt' t th := by
  subst hc
  refine ⟨fun i hi => by rw [hs]; exact h.fresh i hi, ?_⟩
  have hp := h.park
  have hk : ∀ cop k post, KBk st cbt' t th.pc cop k post → KBk st' cbt' t th.pc cop k post :=
    fun cop k post hb => ⟨fun op ho => by rw [hs]; exact hb.1 op ho, hb.2.1, hb.2.2⟩
  cases hpk : th.park with
  | start => rw [hpk] at hp; exact ⟨hp.1, by rw [hs]; exact hp.2⟩
  | finished => trivial
  | want l k =>
    rw [hpk] at hp
    obtain ⟨cop, h1, h2⟩ := hp
    exact ⟨cop, h1, hk cop k _ h2⟩
  | yielded k =>
    rw [hpk] at hp
    obtain ⟨cop, h1, h2⟩ := hp
    exact ⟨cop, h1, hk cop k _ h2⟩

theorem progOf_of_get {c : Config K V} {t : Nat} {th : Thread K V} (ht : c.threads[t]? = some th) :
    progOf c t = th.prog := by
  unfold progOf; rw [ht]; rfl

theorem init_lininv (lt : K → K → Bool) (P : Params K) (tree : Tree K V) (progs : List (List (COp K V))) :
    LinInv lt tree.abs (Config.init P tree progs) [] := by
  refine ⟨Points.nil lt tree.abs, rfl, ?_⟩
  intro t th ht
  have hm : th ∈ (Config.init P tree progs).threads := List.mem_of_getElem? ht
  simp only [Config.init, List.mem_map] at hm
  obtain ⟨p, _, e⟩ := hm
  subst e
  exact ⟨fun _ _ => rfl, rfl, rfl⟩

/-- the abstract effect of the stretch thread `t` is about to run (on the state with an empty
    log: the code does not read the log) -/
def StepEff (lt : K → K → Bool) (c : Config K V) (t : Nat) : Prop :=
  ∀ th k, c.threads[t]? = some th → th.enabled c = true → (th.park = .yielded k ∨ ∃ l, th.park = .want l k) →
    AbsEffect lt t k { stepSt c t th with evs := [] }
      (resume c.P t { stepSt c t th with evs := [] } k).1 (resume c.P t { stepSt c t th with evs := [] } k).2

/-- **a scheduler step keeps the linearizability invariant**, given the abstract effect of
    the stepping thread's stretch -/
theorem step_lininv_gen (lt : K → K → Bool) (init : List (K × V)) (c c' : Config K V) (t : Nat)
    (hstep : c.step t = some c') (hinv : CInv c) (hE : StepEff lt c t) (h : List (HEv K V))
    (hl : LinInv lt init c h) : ∃ h', LinInv lt init c' h' := by
  obtain ⟨th, ht, hen, r, hr, hc'⟩ := step_shape hstep
  have halive' : c'.dead = false := (step_cinv blocks_ok c c' t hstep hinv).1.alive
  have hdied : r.2.2 = false := by
    rw [hc'] at halive'
    simp only [Bool.or_eq_false_iff] at halive'
    exact halive'.2
  have htm : th ∈ c.threads := List.mem_of_getElem? ht
  have hS := hinv.s
  have hok := hS.cfg th htm
  have hnf := enabled_not_finished hen
  have hprog : th.prog = progOf c t := (progOf_of_get ht).symm
  have hbk := hl.thr t th ht
  have hths' : c'.threads = c.threads.set t r.1 := by rw [hc']
  have hrprog : r.1.prog = th.prog := by rw [hr]; exact runThread_prog _ _ _ _
  have hprogs' : progOf c' = progOf c := by
    funext j
    unfold progOf
    rw [hths']
    by_cases e : j = t
    · subst e
      rw [List.getElem?_set_self', ht]
      simp [hrprog]
    · rw [List.getElem?_set_ne (Ne.symm e)]
  -- the decorated history before the step, seen from thread `t`
  have base0 : Base lt init (progOf c) t (linState lt init h) (hxRun c).cb c.tree.abs c.log h :=
    ⟨hl.pts, hl.vis, fun _ _ _ => rfl, fun _ _ => rfl⟩
  have base1 : Base lt init (progOf c) t (linState lt init h) (hxRun c).cb (stepSt c t th).tree.abs
      (stepSt c t th).evs h := base0.quiet [Ev.dec t c.enabledSet] rfl
  have hcb1 : (hx (progOf c) (stepSt c t th).evs).cb t = (hxRun c).cb t := by
    show (hx (progOf c) ([Ev.dec t c.enabledSet] ++ c.log)).cb t = _
    rw [hx_silent _ _ _ rfl]; rfl
  -- the step of the thread
  have main : ∃ h', FinalI lt init (progOf c) t (linState lt init h) (hxRun c).cb r h' := by
    have resumed : ∀ k, (th.park = .yielded k ∨ ∃ l, th.park = .want l k) →
        r = threadLoop t th th.prog.length (resume c.P t (stepSt c t th) k).1 (resume c.P t (stepSt c t th) k).2 th.pc →
        (∃ cop, th.prog[th.pc]? = some cop ∧ KBk (linState lt init h) ((hxRun c).cb t) t th.pc cop k (postK k)) →
        ∃ h', FinalI lt init (progOf c) t (linState lt init h) (hxRun c).cb r h' := by
      intro k hpk hrk hkb
      obtain ⟨new, e, q, hfl, heff⟩ := resume_facts_of_eff lt c.P t (stepSt c t th) k (hE th k ht hen hpk)
      have hnp : (resume c.P t (stepSt c t th) k).2 ≠ .panic := by
        intro hp
        rw [hrk, hp, threadLoop_panic] at hdied
        cases hdied
      obtain ⟨cop, hcop, hkb⟩ := hkb
      obtain ⟨h1, hl1⟩ := stretch_lin (pc := th.pc) base1 hbk.fresh (by rw [← hprog]; exact hcop)
        (by rw [hcb1]; exact hkb) e q hfl heff hnp
      rw [hrk]
      exact loop_lin th hprog _ _ _ _ h1 hl1
    rw [hr]
    unfold runThread
    cases hp : th.park with
    | finished => exact absurd hp hnf
    | start =>
      have hst := hbk.park
      rw [hp] at hst
      obtain ⟨hpc, hfr⟩ := hst
      simp only
      cases hop : th.prog[0]? with
      | none =>
        refine ⟨h, base1, ?_, trivial⟩
        exact hbk.fresh
      | some op =>
        simp only
        have hfresh : ∀ i, 0 ≤ i → (linState lt init h).status t i = .fresh := by
          intro i _
          cases i with
          | zero => exact hfr
          | succ i => exact hbk.fresh _ (by omega)
        obtain ⟨h1, hl1⟩ := begin_op (s := stepSt c t th) base1 hfresh (by rw [← hprog]; exact hop)
        exact loop_lin th hprog _ _ _ _ h1 hl1
    | want l k =>
      simp only
      have hkb := hbk.park
      rw [hp] at hkb
      have := resumed k (Or.inr ⟨l, hp⟩) (by rw [hr]; unfold runThread; rw [hp]) hkb
      rw [hr] at this; unfold runThread at this; rw [hp] at this
      exact this
    | yielded k =>
      simp only
      have hlock : kontLock k = none := by have := hok.2.2; rw [hp] at this; exact this
      have hpost : postK k = false := by
        cases k <;> first | rfl | (simp [kontLock] at hlock)
      have hkb := hbk.park
      rw [hp] at hkb
      have := resumed k (Or.inl hp) (by rw [hr]; unfold runThread; rw [hp]) (by rw [hpost]; exact hkb)
      rw [hr] at this; unfold runThread at this; rw [hp] at this
      exact this
  obtain ⟨h', hfin⟩ := main
  have hlog' : c'.log = r.2.1.evs := by rw [hc']
  have htree' : c'.tree = r.2.1.tree := by rw [hc']
  have hrun' : hxRun c' = hx (progOf c) r.2.1.evs := by rw [hxRun_eq, hprogs', hlog']
  refine ⟨h', ⟨by rw [htree']; exact hfin.base.pts, ?_, ?_⟩⟩
  · show visible h' = (hxRun c').evs
    rw [hrun']; exact hfin.base.vis
  · intro j b hj
    rw [hths'] at hj
    rcases getElem?_set_cases _ _ _ _ _ hj with ⟨ej, eb⟩ | ⟨hne, hjo⟩
    · subst ej; subst eb
      rw [hrun']; exact hfin.bk
    · apply (hl.thr j b hjo).congr
      · intro i; exact hfin.base.oth j i hne
      · rw [hrun']; exact hfin.base.ocb j hne

/-- the abstract effect of a step in a configuration without Delete, from `ResumeKU` -/
theorem stepEff_nodel (RU : ResumeKU K V) (lt : K → K → Bool) (c : Config K V) (t : Nat) (hk : KCInv lt c) :
    StepEff lt c t := by
  intro th k ht hen hpk
  have hinv := hk.cinv
  have htm : th ∈ c.threads := List.mem_of_getElem? ht
  have hS := hinv.s
  have hok := hS.cfg th htm
  have hsok := hS.threads th htm
  have hkpos : KPos lt c.tree k := by
    have := hk.kinv.pos th htm
    rcases hpk with hp | ⟨l, hp⟩ <;> rw [hp] at this <;> exact this
  have hdel : isDelK k = false := by
    have := (hk.nodel th htm).1
    rcases hpk with hp | ⟨l, hp⟩ <;> rw [hp] at this <;> exact this
  have hko : KontOk c.tree k := by
    have := hsok.1
    rcases hpk with hp | ⟨l, hp⟩ <;> rw [hp] at this <;> exact this
  have hkpre : KontPre th.cursor k := by
    have := hok.2.1
    rcases hpk with hp | ⟨l, hp⟩ <;> rw [hp] at this <;> exact this
  have hcov := covers_of_ok (s0 := stepSt c t th) rfl hok k hpk
  have hcur : CursorOk c.tree (isHopK k) th.cursor := by
    rcases hpk with hp | ⟨l, hp⟩
    · have hlock : kontLock k = none := by have := hok.2.2; rw [hp] at this; exact this
      have hhop : isHopK k = false := by
        cases k <;> first | rfl | (simp [kontLock] at hlock)
      have := hsok.2; rw [hp, isHop_yielded] at this; rw [hhop]; exact this
    · have := hsok.2; rw [hp, isHop_want] at this; exact this
  exact (RU lt c.P t { stepSt c t th with evs := [] } k (stepHeld th) (holeOf c.threads) hdel hk.kp
    ⟨hS.tree, hS.order, hS.pad⟩ hko hcur hkpre hcov hk.kinv.ord hkpos).1.eff

/-- **a scheduler step keeps the linearizability invariant** (no Delete) -/
theorem step_lininv (RU : ResumeKU K V) (lt : K → K → Bool) (init : List (K × V)) (c c' : Config K V) (t : Nat)
    (hstep : c.step t = some c') (hk : KCInv lt c) (h : List (HEv K V)) (hl : LinInv lt init c h) :
    ∃ h', LinInv lt init c' h' :=
  step_lininv_gen lt init c c' t hstep hk.cinv (stepEff_nodel RU lt c t hk) h hl

/-- concurrent Insert/Update/Search (and cursor sessions alongside) are linearizable -/
theorem linearizable_nodelete (RU : ResumeKU K V) (lt : K → K → Bool) (P : Params K) (tree : Tree K V)
    (progs : List (List (COp K V)))
    (hkp : KParams lt P) (ht : TreeOk none tree) (hord : OrdTree lt tree) (ho : tree.order = P.order)
    (hp : PadOk P) (hd : Disciplined progs) (hnd : NoDelete progs)
    (c : Config K V) (hr : Reachable (Config.init P tree progs) c) :
    Lin.Linearizable lt tree.abs (history c) := by
  have key : ∃ h, LinInv lt tree.abs c h := by
    induction hr with
    | refl => exact ⟨[], init_lininv lt P tree progs⟩
    | @step c1 c2 t hr1 hs ih =>
      obtain ⟨h, hl⟩ := ih
      exact step_lininv RU lt tree.abs c1 c2 t hs
        (reachable_kcinv RU lt P tree progs hkp ht hord ho hp hd hnd c1 hr1) h hl
  obtain ⟨h, hl⟩ := key
  rw [← hl.vis]
  exact hl.pts.linearizable

#print axioms linearizable_nodelete

end Gobptree.Conc
