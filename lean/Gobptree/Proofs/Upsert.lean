/-
  Correctness of the Insert/Update descent: `upsertNode` keeps the node well
  formed and performs exactly `Spec.insert` on the pairs beneath it.
-/
import Gobptree.Proofs.Context
import Gobptree.Proofs.Linked

namespace Gobptree

variable {K V : Type} {lt : K → K → Bool}

/-! ### step equations of the inner case -/

theorem lowerFirst_eq (P : Params K) (key : K) (index : Nat) (runts : List K) {d : Nat}
    (child : Node K V d) (s : K) (hs : runts[0]? = some s) :
    lowerFirst P key index runts child =
      .ok (if index = 0 ∧ P.lt key s = true then runts.set 0 key else runts) := by
  unfold lowerFirst
  by_cases h0 : index = 0
  · simp [h0, hs]
  · simp [h0]

theorem upsertNode_nosplit_eq (P : Params K) (key : K) (f : Option V → V) (d : Nat)
    (p : Inner K (Node K V d)) (nid : Nat)
    (child c' : Node K V d) (runts' : List K) (nid' : Nat) (cb : Option V)
    (index : Nat) (hindex : searchLE P.lt key p.runts = index)
    (hchild : p.kids[index]? = some child)
    (hlow : lowerFirst P key index p.runts child = .ok runts')
    (hms : Node.maybeSplit P.order nid child = .ok (child, none))
    (hrec : upsertNode P key f d child nid = .ok (c', nid', cb)) :
    upsertNode P key f (d + 1) p nid =
      .ok ((Inner.mk p.id runts' (p.kids.set index c') : Inner K (Node K V d)), nid', cb) := by
  subst hindex
  simp only [upsertNode, hchild, hlow, hms, hrec, bind, Except.bind, pure, Except.pure]

theorem upsertNode_split_right_eq (P : Params K) (key : K) (f : Option V → V) (d : Nat)
    (p : Inner K (Node K V d)) (nid : Nat)
    (child left right c' : Node K V d) (runts' : List K) (nid' : Nat) (cb : Option V) (pad sr : K)
    (index : Nat) (hindex : searchLE P.lt key p.runts = index)
    (hchild : p.kids[index]? = some child)
    (hlow : lowerFirst P key index p.runts child = .ok runts')
    (hms : Node.maybeSplit P.order nid child = .ok (left, some right))
    (hpad : P.pad (some key) = some pad)
    (hsr : Node.smallest right = .ok sr)
    (hlt : P.lt key sr = false)
    (hrec : upsertNode P key f d right (nid + 1) = .ok (c', nid', cb)) :
    upsertNode P key f (d + 1) p nid =
      .ok ((Inner.mk p.id (insertIdiom pad runts' (index + 1) sr)
        (((insertIdiom right p.kids (index + 1) right).set index left).set
          (index + 1) c') : Inner K (Node K V d)), nid', cb) := by
  subst hindex
  simp only [upsertNode, hchild, hlow, hms, hpad, hsr, hlt, hrec, bind, Except.bind, pure, Except.pure]
  simp

theorem upsertNode_split_left_eq (P : Params K) (key : K) (f : Option V → V) (d : Nat)
    (p : Inner K (Node K V d)) (nid : Nat)
    (child left right c' : Node K V d) (runts' : List K) (nid' : Nat) (cb : Option V) (pad sr : K)
    (index : Nat) (hindex : searchLE P.lt key p.runts = index)
    (hchild : p.kids[index]? = some child)
    (hlow : lowerFirst P key index p.runts child = .ok runts')
    (hms : Node.maybeSplit P.order nid child = .ok (left, some right))
    (hpad : P.pad (some key) = some pad)
    (hsr : Node.smallest right = .ok sr)
    (hlt : P.lt key sr = true)
    (hrec : upsertNode P key f d left (nid + 1) = .ok (c', nid', cb)) :
    upsertNode P key f (d + 1) p nid =
      .ok ((Inner.mk p.id (insertIdiom pad runts' (index + 1) sr)
        (((insertIdiom right p.kids (index + 1) right).set index left).set
          index c') : Inner K (Node K V d)), nid', cb) := by
  subst hindex
  simp only [upsertNode, hchild, hlow, hms, hpad, hsr, hlt, hrec, bind, Except.bind, pure, Except.pure]
  simp

/-! ### building a well-formed inner node from entries -/

/-- an inner node whose zipped entries are `A ++ mid ++ B` -/
theorem WF_inner_of_entries (h : SWO lt) {o d m : Nat} {lo hi : Option K} (id : Nat)
    (runts : List K) (kids : List (Node K V d))
    (hlen : runts.length = kids.length) (hle : runts.length ≤ o) (hm : m ≤ runts.length)
    (hne : 1 ≤ runts.length)
    (hlo : ∀ k, runts.head? = some k → leO lt lo k)
    (hk : Kids lt (fun a b c => WF lt o d (o / 2) a b c) hi (runts.zip kids)) :
    WF lt o (d + 1) m lo hi (Inner.mk id runts kids : Inner K (Node K V d)) :=
  ⟨hlen, hle, hm, hne, hlo, hk⟩

theorem pairsE_zip {d : Nat} (r : List K) (c : List (Node K V d)) (hlen : r.length = c.length) :
    pairsE (r.zip c) = c.flatMap (Node.pairs (d := d)) := by
  unfold pairsE
  conv => rhs; rw [← map_snd_zip_eq r c hlen]
  rw [List.flatMap_map]

theorem pairs_mk {d : Nat} (id : Nat) (runts : List K) (kids : List (Node K V d)) :
    Node.pairs (d := d + 1) (Inner.mk id runts kids : Inner K (Node K V d)) = kids.flatMap (Node.pairs (d := d)) := rfl

theorem leO_lowered_of_leO (h : SWO lt) {lo : Option K} {key k : K} (hk : leO lt lo k) :
    leO lt (lowered lt lo key) k :=
  leO_mono h (lowered_loLe h lo key) hk

/-- the inner case, given the induction hypothesis for the children -/
theorem upsertInner_ok (h : SWO lt) (P : Params K) (hP : P.lt = lt) (hpad : ∀ k, P.pad (some k) ≠ none)
    (ho : 2 ≤ P.order) (hev : P.order % 2 = 0) (key : K) (f : Option V → V) (d : Nat)
    (ih : ∀ (n : Node K V d) (m : Nat) (lo hi : Option K) (nid : Nat) (after : Option Nat),
      WF lt P.order d m lo hi n → Node.count n < P.order → ltO lt key hi → Linked d after n →
      ∃ (n' : Node K V d) (nid' : Nat),
        upsertNode P key f d n nid = .ok (n', nid', Spec.lookup lt (Node.pairs n) key) ∧
        WF lt P.order d m (lowered lt lo key) hi n' ∧
        Node.pairs n' = Spec.insert lt (Node.pairs n) key (f (Spec.lookup lt (Node.pairs n) key)) ∧
        Node.count n' ≤ Node.count n + 1 ∧ Linked d after n' ∧ Node.firstId n' = Node.firstId n)
    (p : Inner K (Node K V d)) (m : Nat) (lo hi : Option K) (nid : Nat) (after : Option Nat)
    (hw : WF lt P.order (d + 1) m lo hi p) (hroom : p.runts.length < P.order) (hhi : ltO lt key hi)
    (hL : Linked (d + 1) after p) :
    ∃ (n' : Inner K (Node K V d)) (nid' : Nat),
      upsertNode P key f (d + 1) p nid = .ok (n', nid', Spec.lookup lt (Node.pairs (d := d + 1) p) key) ∧
      WF lt P.order (d + 1) m (lowered lt lo key) hi n' ∧
      Node.pairs (d := d + 1) n' = Spec.insert lt (Node.pairs (d := d + 1) p) key
        (f (Spec.lookup lt (Node.pairs (d := d + 1) p) key)) ∧
      n'.runts.length ≤ p.runts.length + 1 ∧ Linked (d + 1) after n' ∧
      Node.firstId (d := d + 1) n' = Node.firstId (d := d + 1) p := by
  subst hP
  obtain ⟨pid, runts, kids⟩ := p
  obtain ⟨hlen, hle, hm, hne, hlo, hkids⟩ := hw
  simp only at hlen hle hm hne hlo hkids hroom
  have hnil : runts ≠ [] := by intro e; rw [e] at hne; simp at hne
  have hsorted : Sorted P.lt runts := by
    have := Kids_sorted h hi _ hkids
    rwa [map_fst_zip_eq _ _ hlen] at this
  have hidxlt : searchLE P.lt key runts < runts.length := searchLE_lt_length key runts hnil
  obtain ⟨rA, k, rB, hr, hrA⟩ := split_at runts _ hidxlt
  obtain ⟨cA, c, cB, hc, hcA⟩ := split_at kids (searchLE P.lt key runts) (by omega)
  subst hr; subst hc
  have hidx : searchLE P.lt key (rA ++ k :: rB) = rA.length := hrA.symm
  have hcl : cA.length = rA.length := by omega
  have hlB : rB.length = cB.length := by simp at hlen; omega
  obtain ⟨hF1, hF2⟩ := searchLE_split_facts h key rA rB k hsorted hidx
  rw [zip_surgery _ _ _ _ hcl.symm, List.zip_cons_cons, Kids_append, Kids_cons] at hkids
  obtain ⟨hA, hcW, hkhi, hB⟩ := hkids
  have hnl : nextLo hi ((k, c) :: rB.zip cB) = some k := rfl
  rw [hnl] at hA
  -- the chain around the routed child
  have hL0 : LinkedKids (Linked d) (Node.firstId (d := d)) after (cA ++ c :: cB) := hL
  rw [LinkedKids_append, LinkedKids_cons] at hL0
  obtain ⟨hLA, hLc, hLB⟩ := hL0
  have hrelink : ∀ (x : Node K V d) (y : List (Node K V d)), Node.firstId x = Node.firstId c →
      LinkedKids (Linked d) (Node.firstId (d := d)) after (x :: y) →
      LinkedKids (Linked d) (Node.firstId (d := d)) after (cA ++ x :: y) := by
    intro x y hx hxy
    rw [LinkedKids_append]
    refine ⟨?_, hxy⟩
    have : afterOf (Node.firstId (d := d)) after (x :: y) = afterOf (Node.firstId (d := d)) after (c :: cB) := by
      show some (Node.firstId x) = some (Node.firstId c)
      rw [hx]
    rw [this]; exact hLA
  -- the upper bound of the routed child
  have hkeyhiC : ltO P.lt key (nextLo hi (rB.zip cB)) := by
    cases rB with
    | nil => simp at hlB; have : cB = [] := List.eq_nil_of_length_eq_zero hlB.symm; subst this; exact hhi
    | cons x rB' =>
      cases cB with
      | nil => simp at hlB
      | cons y cB' => exact hF2 x (by simp)
  generalize hhiC : nextLo hi (rB.zip cB) = hiC at hcW hkhi hkeyhiC
  -- pairs around the routed child
  have hpA : AllLt P.lt (cA.flatMap (Node.pairs (d := d))) key := by
    by_cases hAnil : rA = []
    · subst hAnil
      have : cA = [] := List.eq_nil_of_length_eq_zero (by simpa using hcl)
      subst this; intro p hp; simp at hp
    · rw [← pairsE_zip rA cA hcl.symm]
      exact allLt_pairsE h k key _ hA (hF1 hAnil)
  have hpB : AllGt P.lt (cB.flatMap (Node.pairs (d := d))) key := by
    rw [← pairsE_zip rB cB hlB]
    apply allGt_pairsE h hi key _ hB
    intro e he
    exact hF2 e.1 (List.of_mem_zip he).1
  have hpairs : Node.pairs (d := d + 1) (Inner.mk pid (rA ++ k :: rB) (cA ++ c :: cB) : Inner K (Node K V d)) =
      cA.flatMap (Node.pairs (d := d)) ++ (Node.pairs c ++ cB.flatMap (Node.pairs (d := d))) := by
    rw [pairs_mk]; simp
  have hlook : Spec.lookup P.lt (Node.pairs (d := d + 1) (Inner.mk pid (rA ++ k :: rB) (cA ++ c :: cB) : Inner K (Node K V d))) key =
      Spec.lookup P.lt (Node.pairs c) key := by
    rw [hpairs, Spec.lookup_append_left h _ _ _ hpA, Spec.lookup_append_right h _ _ _ hpB]
  have hins : ∀ v, Spec.insert P.lt (Node.pairs (d := d + 1) (Inner.mk pid (rA ++ k :: rB) (cA ++ c :: cB) : Inner K (Node K V d))) key v =
      cA.flatMap (Node.pairs (d := d)) ++ (Spec.insert P.lt (Node.pairs c) key v ++ cB.flatMap (Node.pairs (d := d))) := by
    intro v
    rw [hpairs, Spec.insert_append_left h _ _ _ _ hpA, Spec.insert_append_right h _ _ _ _ hpB]
  -- the routed child is non-empty, so smallest() succeeds
  have hcnt := WF_count_le hcW
  have hcpos : 0 < Node.count c := by omega
  obtain ⟨s, hsm, hks, hshi, hcWs⟩ := WF_smallest h hcW hcpos
  have hchild : (cA ++ c :: cB)[rA.length]? = some c := by rw [← hcl]; exact form_getElem_pivot cA cB c
  -- the lowering step, uniformly: new first separator k', lower bound loC used for the child
  obtain ⟨k', loC, hlowEq, hWc, hlowered, hkA, hk'hi, hk'lo, hloLe⟩ :
      ∃ (k' : K) (loC : Option K),
        lowerFirst P key rA.length (rA ++ k :: rB) c = .ok (rA ++ k' :: rB) ∧
        WF P.lt P.order d (P.order / 2) loC hiC c ∧
        lowered P.lt loC key = some k' ∧
        (rA ≠ [] → k' = k) ∧ ltO P.lt k' hiC ∧
        (rA = [] → leO P.lt (lowered P.lt lo key) k') ∧
        loLe P.lt (some k') loC := by
    by_cases hlow : rA.length = 0 ∧ P.lt key k = true
    · have hAnil : rA = [] := List.eq_nil_of_length_eq_zero hlow.1
      refine ⟨key, some k, ?_, hcW, lowered_of_lt k key hlow.2, fun hn => absurd hAnil hn, hkeyhiC,
        fun _ => lowered_le_key h lo key, h.asymm hlow.2⟩
      subst hAnil
      rw [lowerFirst_eq P key _ _ c k (by simp)]
      simp only [hlow, and_self, if_true]
      rfl
    · have hkk : P.lt key k = false := by
        by_cases hAnil : rA = []
        · cases hx : P.lt key k with
          | false => rfl
          | true => exact absurd ⟨by simp [hAnil], hx⟩ hlow
        · exact hF1 hAnil
      refine ⟨k, some k, ?_, hcW, lowered_of_ge k key hkk, fun _ => rfl, hkhi, ?_, h.irrefl k⟩
      · by_cases hAnil : rA = []
        · subst hAnil
          rw [lowerFirst_eq P key _ _ c k (by simp)]
          simp [hkk]
        · obtain ⟨a, rA', rfl⟩ := List.exists_cons_of_ne_nil hAnil
          rw [lowerFirst_eq P key _ _ c a (by simp)]
          simp
      · intro hAnil
        subst hAnil
        exact leO_lowered_of_leO h (hlo k rfl)
  -- head clause of the new node
  have hhead : ∀ k0, (rA ++ k' :: rB).head? = some k0 → leO P.lt (lowered P.lt lo key) k0 := by
    intro k0 hk0
    cases rA with
    | nil => simp at hk0; subst hk0; exact hk'lo rfl
    | cons a rA' =>
      simp at hk0; subst hk0
      exact leO_lowered_of_leO h (hlo a rfl)
  -- chain to the left of the routed child, re-stated for k'
  have hA' : Kids P.lt (fun a b c => WF P.lt P.order d (P.order / 2) a b c) (some k') (rA.zip cA) := by
    by_cases hAnil : rA = []
    · subst hAnil; simp [Kids]
    · rw [hkA hAnil]; exact hA
  rcases maybeSplit_ok h ho hev nid hWc _ hLc with ⟨hroomc, hms⟩ | ⟨hfull, l, r, sr, hms, hsr, hWl, hWr, hcl', hcr', hpr, hsml, hsrhi, hLl, hLr, hfl⟩
  · -- the child has room: descend into it
    obtain ⟨c', nid', heq, hW', hp', hcnt', hLc', hfc'⟩ := ih c (P.order / 2) loC hiC nid _ hWc hroomc hkeyhiC hLc
    rw [hlowered] at hW'
    refine ⟨Inner.mk pid (rA ++ k' :: rB) (cA ++ c' :: cB), nid', ?_, ?_, ?_, by simp,
      hrelink c' cB hfc' ⟨hLc', hLB⟩, firstId_mk_append _ _ cA c cB c' hfc' _ _ cB⟩
    · rw [hlook]
      have := upsertNode_nosplit_eq P key f d (Inner.mk pid (rA ++ k :: rB) (cA ++ c :: cB)) nid c c'
        (rA ++ k' :: rB) nid' _ rA.length hidx hchild hlowEq hms heq
      rw [this]
      congr 3
      show (cA ++ c :: cB).set rA.length c' = cA ++ c' :: cB
      rw [← hcl]; exact form_set_pivot cA cB c c'
    · refine WF_inner_of_entries h pid _ _ (by simp; omega) (by simp at hle ⊢; omega) (by simp at hm ⊢; omega)
        (by simp; omega) hhead ?_
      rw [zip_surgery _ _ _ _ hcl.symm, List.zip_cons_cons, Kids_append, Kids_cons, hhiC]
      exact ⟨hA', hW', hk'hi, hB⟩
    · rw [pairs_mk, hlook, hins, List.flatMap_append, List.flatMap_cons, hp']
  · -- the child is full: split it, then descend left or right of the new separator
    cases hp : P.pad (some key) with
    | none => exact absurd hp (hpad key)
    | some pad =>
    have hk'sr : P.lt k' sr = true := by
      -- k' ≤ smallest of l < sr
      have hlpos : 0 < Node.count l := by omega
      obtain ⟨sl, _, hsl1, hsl2, _⟩ := WF_smallest h hWl hlpos
      have h1 : P.lt sl k' = false := by
        have := leO_mono h hloLe hsl1
        exact this
      exact h.lt_of_le_of_lt h1 hsl2
    have hWl' : WF P.lt P.order d (P.order / 2) (some k') (some sr) l := WF_mono_lo h hloLe hWl
    have hpl : AllLt P.lt (Node.pairs l) sr := fun q hq => (WF_pairs_bounds h hWl q hq).2
    have hpr' : ∀ q ∈ Node.pairs r, P.lt q.1 sr = false := fun q hq => (WF_pairs_bounds h hWr q hq).1
    have hform : insertIdiom pad (rA ++ k' :: rB) (rA.length + 1) sr = rA ++ k' :: sr :: rB :=
      form_insert_next pad rA rB k' sr
    have hformk : (insertIdiom r (cA ++ c :: cB) (rA.length + 1) r).set rA.length l = cA ++ l :: r :: cB := by
      rw [← hcl, form_insert_next r cA cB c r, form_set_pivot]
    cases hlt : P.lt key sr with
    | false =>
      -- descend into the new right sibling
      have hroomr : Node.count r < P.order := by omega
      obtain ⟨r', nid', heq, hW', hp', hcnt', hLr', hfr'⟩ := ih r (P.order / 2) (some sr) hiC (nid + 1) _ hWr hroomr hkeyhiC hLr
      rw [lowered_of_ge sr key hlt] at hW'
      have hlookc : Spec.lookup P.lt (Node.pairs c) key = Spec.lookup P.lt (Node.pairs r) key := by
        rw [hpr, Spec.lookup_append_left h _ _ _ (fun q hq => h.lt_of_lt_of_le (hpl q hq) hlt)]
      refine ⟨Inner.mk pid (rA ++ k' :: sr :: rB) (cA ++ l :: r' :: cB), nid', ?_, ?_, ?_, by simp; omega,
        hrelink l (r' :: cB) hfl ⟨by show Linked d (some (Node.firstId r')) l; rw [hfr']; exact hLl, hLr', hLB⟩,
        firstId_mk_append _ _ cA c cB l hfl _ _ (r' :: cB)⟩
      · rw [hlook, hlookc]
        have := upsertNode_split_right_eq P key f d (Inner.mk pid (rA ++ k :: rB) (cA ++ c :: cB)) nid c l r r'
          (rA ++ k' :: rB) nid' _ pad sr rA.length hidx hchild hlowEq hms hp hsr hlt heq
        rw [this, hform, hformk]
        congr 3
        rw [← hcl]; exact form_set_next cA cB l r r'
      · refine WF_inner_of_entries h pid _ _ (by simp; omega) (by simp at hle hroom ⊢; omega) (by simp at hm ⊢; omega)
          (by simp; omega) ?_ ?_
        · intro k0 hk0
          apply hhead k0
          cases rA <;> simpa using hk0
        · rw [zip_surgery _ _ _ _ hcl.symm, List.zip_cons_cons, List.zip_cons_cons, Kids_append, Kids_cons, Kids_cons, hhiC]
          exact ⟨hA', hWl', hk'sr, hW', hsrhi, hB⟩
      · rw [pairs_mk, hlook, hins, hlookc]
        have : Spec.insert P.lt (Node.pairs c) key (f (Spec.lookup P.lt (Node.pairs r) key)) =
            Node.pairs l ++ Node.pairs r' := by
          rw [hpr, Spec.insert_append_left h _ _ _ _ (fun q hq => h.lt_of_lt_of_le (hpl q hq) hlt), hp']
        rw [this, List.flatMap_append, List.flatMap_cons, List.flatMap_cons, List.append_assoc]
    | true =>
      -- stay in the left half
      have hrooml : Node.count l < P.order := by omega
      obtain ⟨l', nid', heq, hW', hp', hcnt', hLl', hfl'⟩ := ih l (P.order / 2) loC (some sr) (nid + 1) _ hWl hrooml hlt hLl
      rw [hlowered] at hW'
      have hgt : AllGt P.lt (Node.pairs r) key := fun q hq => h.lt_of_lt_of_le hlt (hpr' q hq)
      have hlookc : Spec.lookup P.lt (Node.pairs c) key = Spec.lookup P.lt (Node.pairs l) key := by
        rw [hpr, Spec.lookup_append_right h _ _ _ hgt]
      refine ⟨Inner.mk pid (rA ++ k' :: sr :: rB) (cA ++ l' :: r :: cB), nid', ?_, ?_, ?_, by simp; omega,
        hrelink l' (r :: cB) (hfl'.trans hfl) ⟨hLl', hLr, hLB⟩,
        firstId_mk_append _ _ cA c cB l' (hfl'.trans hfl) _ _ (r :: cB)⟩
      · rw [hlook, hlookc]
        have := upsertNode_split_left_eq P key f d (Inner.mk pid (rA ++ k :: rB) (cA ++ c :: cB)) nid c l r l'
          (rA ++ k' :: rB) nid' _ pad sr rA.length hidx hchild hlowEq hms hp hsr hlt heq
        rw [this, hform, hformk]
        congr 3
        rw [← hcl]; exact form_set_pivot cA (r :: cB) l l'
      · refine WF_inner_of_entries h pid _ _ (by simp; omega) (by simp at hle hroom ⊢; omega) (by simp at hm ⊢; omega)
          (by simp; omega) ?_ ?_
        · intro k0 hk0
          apply hhead k0
          cases rA <;> simpa using hk0
        · rw [zip_surgery _ _ _ _ hcl.symm, List.zip_cons_cons, List.zip_cons_cons, Kids_append, Kids_cons, Kids_cons, hhiC]
          exact ⟨hA', hW', hk'sr, hWr, hsrhi, hB⟩
      · rw [pairs_mk, hlook, hins, hlookc]
        have : Spec.insert P.lt (Node.pairs c) key (f (Spec.lookup P.lt (Node.pairs l) key)) =
            Node.pairs l' ++ Node.pairs r := by
          rw [hpr, Spec.insert_append_right h _ _ _ _ hgt, hp']
        rw [this, List.flatMap_append, List.flatMap_cons, List.flatMap_cons, List.append_assoc]

/-- the main statement, by induction on the height -/
theorem upsertNode_ok (h : SWO lt) (P : Params K) (hP : P.lt = lt) (hpad : ∀ k, P.pad (some k) ≠ none)
    (ho : 2 ≤ P.order) (hev : P.order % 2 = 0) (key : K) (f : Option V → V) :
    ∀ (d : Nat) (n : Node K V d) (m : Nat) (lo hi : Option K) (nid : Nat) (after : Option Nat),
      WF lt P.order d m lo hi n → Node.count n < P.order → ltO lt key hi → Linked d after n →
      ∃ (n' : Node K V d) (nid' : Nat),
        upsertNode P key f d n nid = .ok (n', nid', Spec.lookup lt (Node.pairs n) key) ∧
        WF lt P.order d m (lowered lt lo key) hi n' ∧
        Node.pairs n' = Spec.insert lt (Node.pairs n) key (f (Spec.lookup lt (Node.pairs n) key)) ∧
        Node.count n' ≤ Node.count n + 1 ∧ Linked d after n' ∧ Node.firstId n' = Node.firstId n := by
  intro d
  induction d with
  | zero =>
    intro n m lo hi nid after hw hroom hhi hL
    obtain ⟨a, b, c, e, fb⟩ := hw
    obtain ⟨l', heq, hid', hnext', hs', hlen', hzip, hge, hle', hmem⟩ :=
      Leaf.upsert_ok h P hP hpad (n : Leaf K V) key f a b
    refine ⟨l', nid, ?_, ?_, hzip, hle', by show l'.next = after; rw [hnext']; exact hL, hid'⟩
    · show (do let (l', cb) ← Leaf.upsert P (n : Leaf K V) key f; pure (l', nid, cb)) = _
      rw [heq]; rfl
    · have hroom' : (n : Leaf K V).keys.length < P.order := hroom
      refine ⟨hs', hlen', by omega, by omega, fun k hk => ?_⟩
      cases hmem k hk with
      | inl hin => exact ⟨leO_lowered_of_leO h (fb k hin).1, (fb k hin).2⟩
      | inr he => subst he; exact ⟨lowered_le_key h lo k, hhi⟩
  | succ d ih =>
    intro n m lo hi nid after hw hroom hhi hL
    exact upsertInner_ok h P hP hpad ho hev key f d ih n m lo hi nid after hw hroom hhi hL

end Gobptree
