/-
  Every map operation a thread has moved past has RETURNED in the client-visible history.

  Invariant over the log of every reachable configuration: for every thread and every index
  `i` below its program counter, if the `i`-th call of its program is a map operation
  (Insert / Update / Delete / Search) then `history c` contains a `ret` event for `(t, i)`;
  and a thread that has finished (without panic) has run its whole program.  Hence, once
  every thread has finished, every map operation of every program has returned.

  (The `ret` NOTE is logged unconditionally; that it leaves a `ret` EVENT in the history
  needs the shape of the result — `ok` for Insert/Update/Delete, `found _` for Search — and,
  for an Update, that its callback note has been logged: `DoneR` and the counting invariant
  of `CCbOnce`.)
-/
import Gobptree.Proofs.CCbOnce

namespace Gobptree.Conc
open Gobptree Gobptree.Lin

variable {K V : Type}

/-! ### the extracted history only grows -/

theorem hxStep_mono (progs : Nat → List (COp K V)) (st : HxSt K V) (e : Ev K V) (x : HEv K V)
    (hx : x ∈ st.evs) : x ∈ (hxStep progs st e).evs := by
  cases e with
  | note t n =>
    cases n with
    | inv idx =>
      simp only [hxStep]
      split
      · exact List.mem_append_left _ hx
      · exact hx
    | cb a => exact hx
    | ret idx r =>
      simp only [hxStep]
      split
      · split
        · exact List.mem_append_left _ hx
        · exact hx
      · exact hx
  | acq t l => exact hx
  | rel t l => exact hx
  | dec t l => exact hx

theorem hx_mono (progs : Nat → List (COp K V)) (evs : List (Ev K V)) (x : HEv K V) :
    ∀ new : List (Ev K V), x ∈ (hx progs evs).evs → x ∈ (hx progs (new ++ evs)).evs := by
  intro new
  induction new with
  | nil => exact id
  | cons e rest ih =>
    intro h
    rw [List.cons_append, hx_cons]
    exact hxStep_mono progs _ e x (ih h)

/-- a `ret` note of a map operation whose result has the right shape leaves a `ret` event -/
theorem hx_ret_note (progs : Nat → List (COp K V)) (t pc : Nat) (r : Res K V) (evs : List (Ev K V))
    (cop : COp K V) (out : Out V) (hc : (progs t)[pc]? = some cop)
    (ho : outOf cop r ((hx progs evs).cb t) = some out) :
    HEv.ret t pc out ∈ (hx progs (Ev.note t (.ret pc r) :: evs)).evs := by
  rw [hx_cons]
  simp only [hxStep, hc, ho]
  exact List.mem_append_right _ List.mem_cons_self

/-- once a thread has logged a callback note, its "last callback argument" is defined -/
theorem hx_cb_isSome (progs : Nat → List (COp K V)) (t : Nat) :
    ∀ evs : List (Ev K V), 0 < cbN t evs → ((hx progs evs).cb t).isSome = true := by
  intro evs
  induction evs with
  | nil => intro h; simp [cbN] at h
  | cons e rest ih =>
    intro h
    rw [hx_cons]
    cases e with
    | note t' n =>
      cases n with
      | inv idx =>
        have h' : 0 < cbN t rest := h
        simp only [hxStep]
        split
        · exact ih h'
        · exact ih h'
      | cb a =>
        simp only [hxStep]
        by_cases e : t = t'
        · rw [if_pos e]; rfl
        · rw [if_neg e]
          apply ih
          have hb : (t' == t) = false := by simpa using (Ne.symm e)
          simp only [cbN, hb, b2n] at h
          simpa using h
      | ret idx r =>
        have h' : 0 < cbN t rest := h
        simp only [hxStep]
        split
        · split
          · exact ih h'
          · exact ih h'
        · exact ih h'
    | acq t' l => exact ih h
    | rel t' l => exact ih h
    | dec t' l => exact ih h

/-! ### the loop of a step -/

section Loop

variable (progs : Nat → List (COp K V)) (t : Nat)

/-- what is known of the stretch that just ended with `fl` -/
def CurOk (prog : List (COp K V)) (s : St K V) (pc : Nat) : Flow K V → Prop
  | .panic => True
  | .park p => p ≠ .finished
  | .done r => ∀ cop op, prog[pc]? = some cop → opOf cop = some op →
      (outOf cop r ((hx progs s.evs).cb t)).isSome = true

/-- invariant of the loop of a step: the history at the start of the step (`H0`) is kept,
    and every map operation below `pc` has a `ret` event -/
structure LoopR (prog : List (COp K V)) (H0 : List (HEv K V)) (s : St K V) (fl : Flow K V) (pc : Nat) : Prop where
  mono : ∀ x ∈ H0, x ∈ (hx progs s.evs).evs
  past : ∀ i cop op, i < pc → prog[i]? = some cop → opOf cop = some op →
    ∃ out, HEv.ret t i out ∈ (hx progs s.evs).evs
  cur  : CurOk progs t prog s pc fl

/-- what a step of thread `t` establishes -/
structure FinalR (prog : List (COp K V)) (H0 : List (HEv K V)) (r : Thread K V × St K V × Bool) : Prop where
  mono : ∀ x ∈ H0, x ∈ (hx progs r.2.1.evs).evs
  past : ∀ i cop op, i < r.1.pc → prog[i]? = some cop → opOf cop = some op →
    ∃ out, HEv.ret t i out ∈ (hx progs r.2.1.evs).evs
  fin  : r.1.park = .finished → prog.length ≤ r.1.pc

variable {progs t}

theorem begin_ret {prog : List (COp K V)} {H0 : List (HEv K V)} {s : St K V} {j : Nat} {cop : COp K V}
    (hmono : ∀ x ∈ H0, x ∈ (hx progs s.evs).evs)
    (hpast : ∀ i cop op, i < j → prog[i]? = some cop → opOf cop = some op →
      ∃ out, HEv.ret t i out ∈ (hx progs s.evs).evs)
    (hcop : prog[j]? = some cop) :
    LoopR progs t prog H0 (startOp t (s.note t (.inv j)) cop).1 (startOp t (s.note t (.inv j)) cop).2 j := by
  obtain ⟨new, e, q, fl⟩ := startOp_tr t (s.note t (.inv j)) cop
  have hm : ∀ x, x ∈ (hx progs s.evs).evs → x ∈ (hx progs (startOp t (s.note t (.inv j)) cop).1.evs).evs := by
    intro x hx'
    rw [e]
    have : new ++ (s.note t (.inv j)).evs = (new ++ [Ev.note t (.inv j)]) ++ s.evs := by
      simp [St.note]
    rw [this]
    exact hx_mono progs s.evs x _ hx'
  refine ⟨fun x hx' => hm x (hmono x hx'), ?_, ?_⟩
  · intro i cop' op hi hc ho
    obtain ⟨out, hout⟩ := hpast i cop' op hi hc ho
    exact ⟨out, hm _ hout⟩
  · revert fl
    cases (startOp t (s.note t (.inv j)) cop).2 with
    | panic => intro _; trivial
    | done r =>
      intro fl cop' op hc ho
      rw [hcop] at hc; cases hc
      have hn : opOf cop = none := fl
      rw [hn] at ho; cases ho
    | park p =>
      intro fl
      obtain ⟨k, hk, _⟩ := fl
      intro hp
      rw [hp] at hk; cases hk

/-- the first stretch of a step that resumes continuation `k` of the operation `cop` -/
theorem resume_loopr (P : Params K) {prog : List (COp K V)} {H0 : List (HEv K V)} {s : St K V} {k : Kont K V}
    {pc : Nat} {cop : COp K V}
    (hmono : ∀ x ∈ H0, x ∈ (hx progs s.evs).evs)
    (hpast : ∀ i cop op, i < pc → prog[i]? = some cop → opOf cop = some op →
      ∃ out, HEv.ret t i out ∈ (hx progs s.evs).evs)
    (hcnt : cbN t s.evs = retU progs t s.evs + kCb k) (hcop : prog[pc]? = some cop) (hkf : KontFor cop k) :
    LoopR progs t prog H0 (resume P t s k).1 (resume P t s k).2 pc := by
  obtain ⟨new, e, q, hfl⟩ := resume_tr P t s k
  obtain ⟨h1, _, h3⟩ := hx_quiet progs t s.evs new q
  refine ⟨by rw [e, h1]; exact hmono, by rw [e, h1]; exact hpast, ?_⟩
  revert hfl
  cases (resume P t s k).2 with
  | panic => intro _; trivial
  | park p =>
    intro hfl
    obtain ⟨_, _, _, k', hk', _, _⟩ := hfl
    intro hp
    rw [hp] at hk'; cases hk'
  | done r =>
    intro hfl
    have hdr : DoneR t k new r := hfl
    intro cop' op hc ho
    rw [hcop] at hc; cases hc
    rw [e, h3]
    cases cop with
    | ins key v =>
      have hsig : kontSig k = .up key (fun _ => v) none := hkf
      have hres := (hdr.up hsig).1
      subst hres
      rfl
    | upd key g y =>
      have hsig : kontSig k = .up key g (some y) := hkf
      have hres := (hdr.up hsig).1
      subst hres
      have h2 := (hdr.up hsig).2
      cases hca : cbArg k with
      | none =>
        rw [hca] at h2
        have hsome := h2 rfl
        cases hl : lastCb t new with
        | none => rw [hl] at hsome; cases hsome
        | some a => rfl
      | some arg =>
        rw [hca] at h2
        simp only at h2
        rw [h2]
        have hk1 : kCb k = 1 := by
          cases k <;> first | rfl | cases hca
        have hpos : 0 < cbN t s.evs := by omega
        have := hx_cb_isSome progs t s.evs hpos
        cases hcb : (hx progs s.evs).cb t with
        | none => rw [hcb] at this; cases this
        | some a => rfl
    | get key =>
      have hsig : kontSig k = .ro false key := hkf
      obtain ⟨v, hv⟩ := hdr.ro_false hsig
      subst hv
      rfl
    | del key =>
      have hsig : kontSig k = .del key := hkf
      have hres := hdr.del hsig
      subst hres
      rfl
    | ns key => cases ho
    | scan => cases ho
    | pair => cases ho
    | close => cases ho
    | pause => cases ho

theorem loop_ret (th : Thread K V) (hprog : th.prog = progs t) (H0 : List (HEv K V)) :
    ∀ (fuel : Nat) (s : St K V) (fl : Flow K V) (pc : Nat), th.prog.length ≤ pc + 1 + fuel →
      LoopR progs t th.prog H0 s fl pc →
      (threadLoop t th fuel s fl pc).2.2 = false →
      FinalR progs t th.prog H0 (threadLoop t th fuel s fl pc) := by
  -- the `ret` note of the stretch that just ended
  have hret : ∀ (s : St K V) (r : Res K V) (pc : Nat), LoopR progs t th.prog H0 s (.done r) pc →
      (∀ x ∈ H0, x ∈ (hx progs (s.note t (.ret pc r)).evs).evs) ∧
      (∀ i cop op, i < pc + 1 → th.prog[i]? = some cop → opOf cop = some op →
        ∃ out, HEv.ret t i out ∈ (hx progs (s.note t (.ret pc r)).evs).evs) := by
    intro s r pc hl
    have hm : ∀ x, x ∈ (hx progs s.evs).evs → x ∈ (hx progs (s.note t (.ret pc r)).evs).evs :=
      fun x hx' => hx_mono progs s.evs x [Ev.note t (.ret pc r)] hx'
    refine ⟨fun x hx' => hm x (hl.mono x hx'), ?_⟩
    intro i cop op hi hc ho
    by_cases hlt : i < pc
    · obtain ⟨out, hout⟩ := hl.past i cop op hlt hc ho
      exact ⟨out, hm _ hout⟩
    · have hip : i = pc := by omega
      subst hip
      have := hl.cur cop op hc ho
      obtain ⟨out, hout⟩ := Option.isSome_iff_exists.1 this
      exact ⟨out, hx_ret_note progs t i r s.evs cop out (by rw [← hprog]; exact hc) hout⟩
  intro fuel
  induction fuel with
  | zero =>
    intro s fl pc hlen hl hd
    cases fl with
    | panic => rw [threadLoop_panic] at hd; cases hd
    | park p => exact ⟨hl.mono, hl.past, fun hp => absurd hp hl.cur⟩
    | done r =>
      obtain ⟨h1, h2⟩ := hret s r pc hl
      exact ⟨h1, h2, fun _ => hlen⟩
  | succ fuel ih =>
    intro s fl pc hlen hl hd
    cases fl with
    | panic => rw [threadLoop_panic] at hd; cases hd
    | park p => exact ⟨hl.mono, hl.past, fun hp => absurd hp hl.cur⟩
    | done r =>
      obtain ⟨h1, h2⟩ := hret s r pc hl
      unfold threadLoop at hd ⊢
      cases hop : th.prog[pc + 1]? with
      | none =>
        simp only [hop] at hd ⊢
        exact ⟨h1, h2, fun _ => List.getElem?_eq_none_iff.1 hop⟩
      | some cop =>
        simp only [hop] at hd ⊢
        exact ih _ _ _ (by omega) (begin_ret (s := s.note t (.ret pc r)) h1 h2 hop) hd

end Loop

/-! ### the invariant of configurations -/

structure RetOk (c : Config K V) (t : Nat) (th : Thread K V) : Prop where
  past : ∀ i cop op, i < th.pc → th.prog[i]? = some cop → opOf cop = some op →
    ∃ out, HEv.ret t i out ∈ history c
  fin  : th.park = .finished → th.prog.length ≤ th.pc

theorem step_ret (c c' : Config K V) (t : Nat) (hstep : c.step t = some c') (hinv : CInv c)
    (hC : ∀ j b, c.threads[j]? = some b → CbOk c j b)
    (hI : ∀ j b, c.threads[j]? = some b → RetOk c j b) :
    ∀ j b, c'.threads[j]? = some b → RetOk c' j b := by
  obtain ⟨th, ht, hen, r, hr, hc'⟩ := step_shape hstep
  have halive' : c'.dead = false := (step_cinv blocks_ok c c' t hstep hinv).1.alive
  have hdied : r.2.2 = false := by
    rw [hc'] at halive'
    simp only [Bool.or_eq_false_iff] at halive'
    exact halive'.2
  have htm : th ∈ c.threads := List.mem_of_getElem? ht
  have hok := hinv.s.cfg th htm
  have hnf := enabled_not_finished hen
  have hprog : th.prog = progOf c t := (progOf_of_get ht).symm
  have hths' : c'.threads = c.threads.set t r.1 := by rw [hc']
  have hlog' : c'.log = r.2.1.evs := by rw [hc']
  have hrprog : r.1.prog = th.prog := by rw [hr]; exact runThread_prog _ _ _ _
  have hprogs' : progOf c' = progOf c := by
    funext j
    unfold progOf
    rw [hths']
    by_cases e : j = t
    · subst e
      rw [List.getElem?_set_self', ht]
      simp [hrprog]
    · rw [List.getElem?_set_ne (Ne.symm e)]
  have hme := hI t th ht
  have hcb := hC t th ht
  have hhist' : history c' = (hx (progOf c) r.2.1.evs).evs := by
    show (hxRun c').evs = _
    rw [hxRun_eq, hprogs', hlog']
  -- the history at the start of the step
  have hst0 : hx (progOf c) (stepSt c t th).evs = hx (progOf c) c.log :=
    hx_silent (progOf c) c.log [Ev.dec t c.enabledSet] rfl
  have hmono0 : ∀ x ∈ history c, x ∈ (hx (progOf c) (stepSt c t th).evs).evs := by
    intro x hx'; rw [hst0]; exact hx'
  have hpast0 : ∀ i cop op, i < th.pc → th.prog[i]? = some cop → opOf cop = some op →
      ∃ out, HEv.ret t i out ∈ (hx (progOf c) (stepSt c t th).evs).evs := by
    intro i cop op hi hc ho
    rw [hst0]; exact hme.past i cop op hi hc ho
  have main : FinalR (progOf c) t th.prog (history c) r := by
    have resumed : ∀ k, (th.park = .yielded k ∨ ∃ l, th.park = .want l k) →
        r = threadLoop t th th.prog.length (resume c.P t (stepSt c t th) k).1 (resume c.P t (stepSt c t th) k).2 th.pc →
        FinalR (progOf c) t th.prog (history c) r := by
      intro k hpk hrk
      have hkcb : parkCb th.park = kCb k := by
        rcases hpk with hp | ⟨l, hp⟩
        · rw [hp]; cases k <;> rfl
        · have hlock : kontLock k = some l := by have := hok.2.2; rw [hp] at this; exact this
          rw [hp]
          cases k <;> first | rfl | (simp [kontLock] at hlock)
      obtain ⟨cop, hcop, hkf⟩ : ∃ cop, th.prog[th.pc]? = some cop ∧ KontFor cop k := by
        have := hcb.pf
        rcases hpk with hp | ⟨l, hp⟩ <;> rw [hp] at this <;> exact this
      have hcnt : cbN t (stepSt c t th).evs = retU (progOf c) t (stepSt c t th).evs + kCb k := by
        rw [← hkcb]; exact hcb.cnt
      have hl := resume_loopr (progs := progOf c) (t := t) (H0 := history c) c.P hmono0 hpast0 hcnt hcop hkf
      rw [hrk] at hdied ⊢
      exact loop_ret th hprog (history c) _ _ _ _ (by omega) hl hdied
    cases hp : th.park with
    | finished => exact absurd hp hnf
    | start =>
      have hpc : th.pc = 0 := by have := hcb.pf; rw [hp] at this; exact this
      have hr' := hr
      unfold runThread at hr'
      rw [hp] at hr'
      simp only at hr'
      cases hop : th.prog[0]? with
      | none =>
        rw [hop] at hr'
        simp only at hr'
        rw [hr']
        refine ⟨hmono0, ?_, fun _ => ?_⟩
        · intro i cop op hi
          simp only [hpc] at hi
          omega
        · simp only [hpc]
          exact List.getElem?_eq_none_iff.1 hop
      | some op =>
        rw [hop] at hr'
        simp only at hr'
        have hl := begin_ret (progs := progOf c) (t := t) (prog := th.prog) (H0 := history c)
          (s := stepSt c t th) (j := 0) hmono0 (fun i _ _ hi => absurd hi (Nat.not_lt_zero i)) hop
        rw [hr'] at hdied ⊢
        exact loop_ret th hprog (history c) _ _ _ _ (by omega) hl hdied
    | want l k => exact resumed k (Or.inr ⟨l, hp⟩) (by rw [hr]; unfold runThread; rw [hp])
    | yielded k => exact resumed k (Or.inl hp) (by rw [hr]; unfold runThread; rw [hp])
  intro j b hj
  rw [hths'] at hj
  rcases getElem?_set_cases _ _ _ _ _ hj with ⟨ej, eb⟩ | ⟨hne, hjo⟩
  · subst ej; subst eb
    refine ⟨?_, ?_⟩
    · rw [hhist', hrprog]; exact main.past
    · rw [hrprog]; exact main.fin
  · have := hI j b hjo
    refine ⟨?_, this.fin⟩
    intro i cop op hi hc ho
    obtain ⟨out, hout⟩ := this.past i cop op hi hc ho
    exact ⟨out, by rw [hhist']; exact main.mono _ hout⟩

/-- the programs of the threads never change -/
theorem reachable_progs (P : Params K) (tree : Tree K V) (progs : List (List (COp K V)))
    (c : Config K V) (hr : Reachable (Config.init P tree progs) c) :
    c.threads.map (·.prog) = progs := by
  induction hr with
  | refl => simp [Config.init, List.map_map, Function.comp_def]
  | @step c1 c2 t _ hs ih =>
    obtain ⟨th, ht, _, r, hr, hc'⟩ := step_shape hs
    have hths' : c2.threads = c1.threads.set t r.1 := by rw [hc']
    have hrprog : r.1.prog = th.prog := by rw [hr]; exact runThread_prog _ _ _ _
    rw [hths', List.map_set, hrprog, ← ih]
    apply List.ext_getElem?
    intro j
    by_cases e : j = t
    · subst e
      rw [List.getElem?_set_self', List.getElem?_map, ht]
      rfl
    · rw [List.getElem?_set_ne (Ne.symm e)]

/-- **every map operation a thread has moved past has returned** (in the client-visible
    history), and a finished thread has run its whole program: every reachable configuration -/
theorem reachable_retok (P : Params K) (tree : Tree K V) (progs : List (List (COp K V)))
    (ht : TreeOk none tree) (ho : tree.order = P.order) (hp : PadOk P) (hd : Disciplined progs)
    (hdel : 4 ≤ tree.order ∨ NoDelete progs)
    (c : Config K V) (hr : Reachable (Config.init P tree progs) c) :
    ∀ t th, c.threads[t]? = some th → RetOk c t th := by
  have key : (∀ j b, c.threads[j]? = some b → CbOk c j b) ∧ (∀ j b, c.threads[j]? = some b → RetOk c j b) := by
    induction hr with
    | refl =>
      constructor
      · intro j b hj
        have hm : b ∈ (Config.init P tree progs).threads := List.mem_of_getElem? hj
        simp only [Config.init, List.mem_map] at hm
        obtain ⟨p, _, e⟩ := hm
        subst e
        exact ⟨rfl, rfl⟩
      · intro j b hj
        have hm : b ∈ (Config.init P tree progs).threads := List.mem_of_getElem? hj
        simp only [Config.init, List.mem_map] at hm
        obtain ⟨p, _, e⟩ := hm
        subst e
        exact ⟨fun i _ _ hi => absurd hi (Nat.not_lt_zero i), fun h => by cases h⟩
    | @step c1 c2 t hr1 hs ih =>
      have hinv := reachable_cinv P tree progs ht ho hp hd hdel c1 hr1
      exact ⟨step_cb c1 c2 t hs hinv ih.1, step_ret c1 c2 t hs hinv ih.1 ih.2⟩
  exact key.2

/-- **once every thread has finished, every map operation of every program has returned** -/
theorem finished_all_returned (P : Params K) (tree : Tree K V) (progs : List (List (COp K V)))
    (ht : TreeOk none tree) (ho : tree.order = P.order) (hp : PadOk P) (hd : Disciplined progs)
    (hdel : 4 ≤ tree.order ∨ NoDelete progs)
    (c : Config K V) (hr : Reachable (Config.init P tree progs) c) (hu : c.unfinished = false) :
    ∀ t p i cop op, progs[t]? = some p → p[i]? = some cop → opOf cop = some op →
      ∃ out, HEv.ret t i out ∈ history c := by
  intro t p i cop op hpt hpi hop
  have hprogs := reachable_progs P tree progs c hr
  have hth : ∃ th, c.threads[t]? = some th ∧ th.prog = p := by
    rw [← hprogs, List.getElem?_map] at hpt
    cases h : c.threads[t]? with
    | none => rw [h] at hpt; cases hpt
    | some th => rw [h] at hpt; exact ⟨th, rfl, by simpa using hpt⟩
  obtain ⟨th, hth, rfl⟩ := hth
  have hok := reachable_retok P tree progs ht ho hp hd hdel c hr t th hth
  have hfin : th.park = .finished := by
    unfold Config.unfinished at hu
    have := List.any_eq_false.1 hu th (List.mem_of_getElem? hth)
    cases hpk : th.park <;> simp [hpk] at this ⊢
  have hlen := hok.fin hfin
  have hi : i < th.prog.length := (List.getElem?_eq_some_iff.1 hpi).1
  exact hok.past i cop op (by omega) hpi hop

end Gobptree.Conc
