/-
  C04: cursor steps are atomic successor queries.

  * `CCurSorted` — the abstract map of an ordered tree is strictly ascending
    (`Tree.abs_sorted`) and is the concatenation of the leaves' pairs in flat-view order
    (`Tree.abs_flat`, `Tree.ahead_split`).
  * `CCurStatic` — `CurPosW` (the form of `CurPos` that also covers a cursor waiting in the
    hop), `CurPosW.suffix`, `CurPosW.aheadSpec` / `CurPos.aheadSpec`, `CurPosW.head_least`,
    `CurPosW.ahead_nil_iff`, `CurPosW.ahead_from`, `CurPosW.strengthen`.
  * `CCurStep` — the block lemmas: `resume_newScanner`, `scan_inleaf`, `scan_park`,
    `scan_exhaust`, `pair_spec`, `resume_hop`; positions `curPos_gt`, `startIndex_spec`.
  * `CCurInv` — the invariant: `step_stable_routes`, `other_curPosW`, `step_cursorPosW`,
    `reachable_cursorPosW`, `reachable_cursorPos`.
  * `CCurExec` — every cursor call executed in a reachable step: `StepExec`, `stepExec_inv`,
    `exec_scan`, `exec_pair`, `step_newScanner`, `step_hop`.
-/
import Gobptree.Proofs.CCurExec

#print axioms Gobptree.Conc.Tree.abs_sorted
#print axioms Gobptree.Conc.CurPosW.suffix
#print axioms Gobptree.Conc.CurPos.aheadSpec
#print axioms Gobptree.Conc.CurPosW.aheadSpec
#print axioms Gobptree.Conc.CurPosW.head_least
#print axioms Gobptree.Conc.CurPosW.ahead_nil_iff
#print axioms Gobptree.Conc.CurPosW.strengthen
#print axioms Gobptree.Conc.resume_newScanner
#print axioms Gobptree.Conc.scan_inleaf
#print axioms Gobptree.Conc.scan_park
#print axioms Gobptree.Conc.scan_exhaust
#print axioms Gobptree.Conc.pair_spec
#print axioms Gobptree.Conc.resume_hop
#print axioms Gobptree.Conc.step_stable_routes
#print axioms Gobptree.Conc.other_curPosW
#print axioms Gobptree.Conc.step_cursorPosW
#print axioms Gobptree.Conc.reachable_cursorPosW
#print axioms Gobptree.Conc.reachable_cursorPos
#print axioms Gobptree.Conc.stepExec_inv
#print axioms Gobptree.Conc.exec_scan
#print axioms Gobptree.Conc.exec_pair
#print axioms Gobptree.Conc.step_newScanner
#print axioms Gobptree.Conc.step_hop
