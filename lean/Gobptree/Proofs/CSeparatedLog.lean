/-
  Log-level mutual exclusion "at every instant", and the two splitting lemmas behind
  `CSeparated.lean`.

  `heldNow t log` (CHeldTrace) replays thread `t`'s lock events of a newest-first log.
  * `Excl log`: at EVERY instant of the log (every suffix), no mutex is in the replayed held
    sets of two different threads.
  * `rel_split`: if `t` holds `l` at `base` and no longer at `mid ++ base`, then `mid`
    contains `Ev.rel t l`.
  * `acq_split`: if `t` does not hold `l` at `base` and holds it at `mid ++ base`, then `mid`
    contains an `Ev.acq t l` from which on `t` holds `l` at every instant up to `mid ++ base`.
  * `step_log`: the log a step produces is `new ++ grantLog c t th`, `new` being releases of
    `t` and notes only (`OnlyRel`), `grantLog` = the scheduler's `dec`, then the `acq` of the
    mutex the thread was parked at (if any).
  * `HeldLogOk c`: the replay of the log agrees with every thread's held list, and `Excl c.log`;
    it holds in every reachable configuration in which nobody has panicked.
-/
import Gobptree.Proofs.CHeldTrace
import Gobptree.Proofs.CSStep2

namespace Gobptree.Conc
open Gobptree

variable {K V : Type}

/-! ### pure log lemmas -/

theorem heldNow_cons (t : Nat) (e : Ev K V) (log : List (Ev K V)) :
    heldNow t (e :: log) = upd t e (heldNow t log) := rfl

/-- no mutex is (according to the replay) held by two threads at this instant -/
def ExclAt (log : List (Ev K V)) : Prop :=
  ∀ t t' l, l ∈ heldNow t log → l ∈ heldNow t' log → t = t'

/-- mutual exclusion at every instant of the log -/
def Excl : List (Ev K V) → Prop
  | [] => True
  | e :: s => ExclAt (e :: s) ∧ Excl s

theorem exclAt_nil : ExclAt ([] : List (Ev K V)) := by
  intro t t' l h
  simp [heldNow, replay] at h

theorem Excl.at : ∀ {log : List (Ev K V)}, Excl log → ExclAt log
  | [], _ => exclAt_nil
  | _ :: _, h => h.1

theorem Excl.suffix : ∀ (a : List (Ev K V)) {b : List (Ev K V)}, Excl (a ++ b) → Excl b
  | [], _, h => h
  | _ :: a, _, h => Excl.suffix a h.2

theorem upd_sub {t t' : Nat} (e : Ev K V) (he : okEv t e) (h : List Lk) : ∀ x ∈ upd t' e h, x ∈ h := by
  cases e with
  | acq t1 l => exact he.elim
  | rel t1 l =>
    intro x hx
    simp only [upd] at hx
    split at hx
    · exact List.mem_of_mem_erase hx
    · exact hx
  | note t1 n => intro x hx; exact hx
  | dec t1 en => intro x hx; exact hx

theorem replay_sub {t t' : Nat} : ∀ (new : List (Ev K V)), OnlyRel t new → ∀ h, ∀ x ∈ replay t' new h, x ∈ h := by
  intro new
  induction new with
  | nil => intro _ h x hx; exact hx
  | cons e new ih =>
    intro ho h x hx
    have hx' : x ∈ upd t' e (replay t' new h) := hx
    exact ih (fun e he => ho e (List.mem_cons_of_mem _ he)) h x
      (upd_sub e (ho e (List.mem_cons_self ..)) _ x hx')

theorem exclAt_of_sub {a b : List (Ev K V)} (hsub : ∀ t x, x ∈ heldNow t a → x ∈ heldNow t b)
    (hb : ExclAt b) : ExclAt a :=
  fun t t' l h1 h2 => hb t t' l (hsub t l h1) (hsub t' l h2)

/-- releases (and notes) on top of a log keep exclusion at every instant -/
theorem excl_append {t : Nat} : ∀ (new base : List (Ev K V)), OnlyRel t new → Excl base → ExclAt base →
    Excl (new ++ base) := by
  intro new
  induction new with
  | nil => intro base _ hb _; exact hb
  | cons e new ih =>
    intro base ho hb ha
    refine ⟨?_, ih base (fun e he => ho e (List.mem_cons_of_mem _ he)) hb ha⟩
    refine exclAt_of_sub ?_ ha
    intro t' x hx
    have hx' : x ∈ heldNow t' ((e :: new) ++ base) := hx
    rw [heldNow_append] at hx'
    exact replay_sub (e :: new) ho _ x hx'

/-- if `t` holds `l` at `base` and not at `mid ++ base`, `mid` contains the release after
    which `t` does not hold `l` at any instant up to `mid ++ base` -/
theorem rel_split (t : Nat) (l : Lk) : ∀ (mid base : List (Ev K V)),
    l ∈ heldNow t base → l ∉ heldNow t (mid ++ base) →
    ∃ ys zs, mid = ys ++ Ev.rel t l :: zs ∧
      ∀ ys1 ys2, ys = ys1 ++ ys2 → l ∉ heldNow t (ys2 ++ Ev.rel t l :: (zs ++ base)) := by
  intro mid
  induction mid with
  | nil => intro base h1 h2; exact absurd h1 h2
  | cons e m ih =>
    intro base h1 h2
    by_cases hm : l ∈ heldNow t (m ++ base)
    · have h2' : l ∉ upd t e (heldNow t (m ++ base)) := h2
      cases e with
      | acq t' l' =>
        exfalso; apply h2'
        simp only [upd]
        split
        · exact List.mem_append_left _ hm
        · exact hm
      | rel t' l' =>
        by_cases ht : t' = t
        · by_cases hl : l' = l
          · subst ht; subst hl
            refine ⟨[], m, rfl, ?_⟩
            intro ys1 ys2 hy
            have hy2 : ys2 = [] := by
              cases ys1 with
              | nil => exact hy.symm
              | cons a ys1 => cases hy
            rw [hy2]
            exact h2
          · exfalso; apply h2'
            simp only [upd, ht, if_true]
            exact (List.mem_erase_of_ne (fun e => hl e.symm)).2 hm
        · exfalso; apply h2'
          simp only [upd, ht, if_false]
          exact hm
      | note t' n => exact absurd hm h2'
      | dec t' en => exact absurd hm h2'
    · obtain ⟨ys, zs, e', hh⟩ := ih base h1 hm
      refine ⟨e :: ys, zs, by rw [e']; rfl, ?_⟩
      intro ys1 ys2 hy
      cases ys1 with
      | nil =>
        have : ys2 = e :: ys := hy.symm
        rw [this]
        have h3 : e :: ys ++ Ev.rel t l :: (zs ++ base) = e :: m ++ base := by
          rw [e']; simp
        rw [h3]; exact h2
      | cons a ys1 =>
        simp only [List.cons_append, List.cons.injEq] at hy
        exact hh ys1 ys2 hy.2

/-- if `t` does not hold `l` at `base` and holds it at `mid ++ base`, `mid` contains the
    acquisition from which on `t` holds `l` at every instant -/
theorem acq_split (t : Nat) (l : Lk) : ∀ (mid base : List (Ev K V)),
    l ∉ heldNow t base → l ∈ heldNow t (mid ++ base) →
    ∃ xs m', mid = xs ++ Ev.acq t l :: m' ∧ l ∉ heldNow t (m' ++ base) ∧
      ∀ xs1 xs2, xs = xs1 ++ xs2 → l ∈ heldNow t (xs2 ++ Ev.acq t l :: (m' ++ base)) := by
  intro mid
  induction mid with
  | nil => intro base h1 h2; exact absurd h2 h1
  | cons e m ih =>
    intro base h1 h2
    by_cases hm : l ∈ heldNow t (m ++ base)
    · obtain ⟨xs, m', e', hn, hh⟩ := ih base h1 hm
      refine ⟨e :: xs, m', by rw [e']; rfl, hn, ?_⟩
      intro xs1 xs2 hx
      cases xs1 with
      | nil =>
        have : xs2 = e :: xs := hx.symm
        rw [this]
        have h3 : e :: xs ++ Ev.acq t l :: (m' ++ base) = e :: m ++ base := by
          rw [e']; simp
        rw [h3]; exact h2
      | cons a xs1 =>
        simp only [List.cons_append, List.cons.injEq] at hx
        exact hh xs1 xs2 hx.2
    · have h2' : l ∈ upd t e (heldNow t (m ++ base)) := h2
      cases e with
      | acq t' l' =>
        by_cases ht : t' = t
        · simp only [upd, ht, if_true] at h2'
          rcases List.mem_append.1 h2' with h | h
          · exact absurd h hm
          · have hl : l = l' := by simpa using h
            subst ht; subst hl
            refine ⟨[], m, rfl, hm, ?_⟩
            intro xs1 xs2 hx
            have hx2 : xs2 = [] := by
              cases xs1 with
              | nil => exact hx.symm
              | cons a xs1 => cases hx
            rw [hx2]
            exact h2
        · simp only [upd, ht, if_false] at h2'
          exact absurd h2' hm
      | rel t' l' =>
        exfalso; apply hm
        simp only [upd] at h2'
        split at h2'
        · exact List.mem_of_mem_erase h2'
        · exact h2'
      | note t' n => exact absurd h2' hm
      | dec t' en => exact absurd h2' hm

/-! ### the log of one step -/

/-- the log right after the scheduler's decision and the lock grant that open a step of `t` -/
def grantLog (c : Config K V) (t : Nat) (th : Thread K V) : List (Ev K V) :=
  match th.park with
  | .want l _ => Ev.acq t l :: Ev.dec t c.enabledSet :: c.log
  | _ => Ev.dec t c.enabledSet :: c.log

/-- `grantLog` = (`acq`?) then `dec`, on top of the configuration's log -/
theorem grantLog_eq (c : Config K V) (t : Nat) (th : Thread K V) :
    ∃ p, grantLog c t th = p ++ Ev.dec t c.enabledSet :: c.log ∧
      (p = [] ∨ ∃ l k, th.park = .want l k ∧ p = [Ev.acq t l]) := by
  unfold grantLog
  cases hp : th.park with
  | want l k => exact ⟨[Ev.acq t l], rfl, Or.inr ⟨l, k, rfl, rfl⟩⟩
  | start => exact ⟨[], rfl, Or.inl rfl⟩
  | yielded k => exact ⟨[], rfl, Or.inl rfl⟩
  | finished => exact ⟨[], rfl, Or.inl rfl⟩

theorem heldNow_grant_self (c : Config K V) (t : Nat) (th : Thread K V) (h : heldNow t c.log = th.held) :
    heldNow t (grantLog c t th) = stepHeld th := by
  unfold grantLog stepHeld
  cases hp : th.park with
  | want l k =>
    show upd t (Ev.acq t l : Ev K V) (heldNow t c.log) = _
    simp [upd, h]
  | start => exact h
  | yielded k => exact h
  | finished => exact h

theorem heldNow_grant_other (c : Config K V) (t t' : Nat) (th : Thread K V) (hne : t' ≠ t) :
    heldNow t' (grantLog c t th) = heldNow t' c.log := by
  unfold grantLog
  cases hp : th.park with
  | want l k =>
    show upd t' (Ev.acq t l : Ev K V) (heldNow t' c.log) = _
    have : ¬ t = t' := fun e => hne e.symm
    simp [upd, this]
  | start => rfl
  | yielded k => rfl
  | finished => rfl

/-- **the log of a step**: the grant, then only releases of the stepping thread and notes;
    the thread's new held list is the replay of those releases from `stepHeld` -/
theorem step_log {c c' : Config K V} {t : Nat} (hs : c.step t = some c') (hok : ConfigOk c) :
    ∃ th th' new, c.threads[t]? = some th ∧ th.enabled c = true ∧ c'.threads = c.threads.set t th' ∧
      c'.log = new ++ grantLog c t th ∧ OnlyRel t new ∧ th'.held = replay t new (stepHeld th) := by
  obtain ⟨th, ht, hen, r, hr, hc'⟩ := step_shape hs
  have hmem : th ∈ c.threads := List.mem_of_getElem? ht
  obtain ⟨_, _, hpl⟩ := hok th hmem
  have hnf : th.park ≠ .finished := enabled_not_finished hen
  have hthr : c'.threads = c.threads.set t r.1 := by rw [hc']
  have hlog : c'.log = r.2.1.evs := by rw [hc']
  refine ⟨th, r.1, ?_⟩
  subst hr
  have hs0e : (stepSt c t th).evs = Ev.dec t c.enabledSet :: c.log := rfl
  have hs0h : (stepSt c t th).held = th.held := rfl
  rcases runThread_relm c.P t th (stepSt c t th) hpl hnf with ⟨hrel, hheld⟩ | ⟨hp, _, hsame, hheld⟩
  · cases hp : th.park with
    | want l k =>
      rw [hp] at hrel
      simp only at hrel
      obtain ⟨new, h1, h2, h3⟩ := hrel
      refine ⟨new, ht, hen, hthr, ?_, h2, ?_⟩
      · rw [hlog, h1]
        show new ++ (Ev.acq t l :: (stepSt c t th).evs) = _
        rw [hs0e]; unfold grantLog; rw [hp]
      · rw [hheld, h3]
        show replay t new ((stepSt c t th).held ++ [l]) = _
        rw [hs0h]; unfold stepHeld; rw [hp]
    | start =>
      rw [hp] at hrel
      simp only at hrel
      obtain ⟨new, h1, h2, h3⟩ := hrel
      refine ⟨new, ht, hen, hthr, ?_, h2, ?_⟩
      · rw [hlog, h1, hs0e]; unfold grantLog; rw [hp]
      · rw [hheld, h3, hs0h]; unfold stepHeld; rw [hp]
    | yielded k =>
      rw [hp] at hrel
      simp only at hrel
      obtain ⟨new, h1, h2, h3⟩ := hrel
      refine ⟨new, ht, hen, hthr, ?_, h2, ?_⟩
      · rw [hlog, h1, hs0e]; unfold grantLog; rw [hp]
      · rw [hheld, h3, hs0h]; unfold stepHeld; rw [hp]
    | finished => exact absurd hp hnf
  · refine ⟨[], ht, hen, hthr, ?_, fun _ h => by simp at h, ?_⟩
    · rw [hlog, hsame, hs0e]; unfold grantLog; rw [hp]; rfl
    · rw [hheld]; unfold stepHeld; rw [hp]; rfl

/-! ### the configuration invariant -/

/-- the replayed log agrees with the held lists, and showed exclusion at every instant -/
def HeldLogOk (c : Config K V) : Prop :=
  (∀ t, heldNow t c.log = heldOf c t) ∧ Excl c.log

theorem heldlogok_step {c c' : Config K V} {t0 : Nat} (hs : c.step t0 = some c') (hok : ConfigOk c)
    (ho : OwnerOk c) (hinv : HeldLogOk c) : HeldLogOk c' := by
  obtain ⟨th, th', new, ht, hen, hthr, hlog, hor, hheld⟩ := step_log hs hok
  have hheld0 : heldOf c t0 = th.held := by unfold heldOf; rw [ht]
  have hnow0 : heldNow t0 c.log = th.held := by rw [hinv.1 t0, hheld0]
  have hb0 : heldNow t0 (grantLog c t0 th) = stepHeld th := heldNow_grant_self c t0 th hnow0
  have hbo : ∀ t, t ≠ t0 → heldNow t (grantLog c t0 th) = heldOf c t := by
    intro t hne; rw [heldNow_grant_other c t0 t th hne, hinv.1 t]
  -- exclusion at the instant of the grant
  have hself : ∀ t l, t ≠ t0 → l ∈ heldOf c t → l ∉ stepHeld th := by
    intro t l hne hl
    unfold heldOf at hl
    cases hj : c.threads[t]? with
    | none => rw [hj] at hl; cases hl
    | some b => rw [hj] at hl; exact stepHeld_excl ho ht hj hne hen hl
  have hat : ExclAt (grantLog c t0 th) := by
    intro t t' l h1 h2
    by_cases e1 : t = t0
    · by_cases e2 : t' = t0
      · rw [e1, e2]
      · exfalso
        rw [e1, hb0] at h1
        rw [hbo t' e2] at h2
        exact hself t' l e2 h2 h1
    · by_cases e2 : t' = t0
      · exfalso
        rw [e2, hb0] at h2
        rw [hbo t e1] at h1
        exact hself t l e1 h1 h2
      · rw [hbo t e1] at h1
        rw [hbo t' e2] at h2
        unfold heldOf at h1 h2
        cases hi : c.threads[t]? with
        | none => rw [hi] at h1; cases h1
        | some a =>
          cases hj : c.threads[t']? with
          | none => rw [hj] at h2; cases h2
          | some b =>
            rw [hi] at h1; rw [hj] at h2
            exact held_excl ho hi hj h1 h2
  have hdecat : ExclAt (Ev.dec t0 c.enabledSet :: c.log) := by
    refine exclAt_of_sub ?_ hat
    intro t x hx
    have hx' : x ∈ heldNow t c.log := hx
    by_cases e : t = t0
    · rw [e, hb0]; rw [e, hnow0] at hx'; exact mem_stepHeld_of_held hx'
    · rw [heldNow_grant_other c t0 t th e]; exact hx'
  have hexb : Excl (grantLog c t0 th) := by
    have hdec : Excl (Ev.dec t0 c.enabledSet :: c.log) := ⟨hdecat, hinv.2⟩
    have hat' := hat
    unfold grantLog at hat' ⊢
    cases hp : th.park with
    | want l k => rw [hp] at hat'; exact ⟨hat', hdec⟩
    | start => exact hdec
    | yielded k => exact hdec
    | finished => exact hdec
  refine ⟨?_, by rw [hlog]; exact excl_append new _ hor hexb hat⟩
  intro t
  rw [hlog, heldNow_append]
  by_cases e : t = t0
  · subst e
    rw [heldOf_set_same c c' t th th' ht hthr, hheld, hb0]
  · rw [replay_other e new hor, hbo t e, heldOf_set_other c c' t0 t th' e hthr]

theorem init_heldlogok (P : Params K) (tree : Tree K V) (progs : List (List (COp K V))) :
    HeldLogOk (Config.init P tree progs) :=
  ⟨fun t => (init_loginv P tree progs t).1, True.intro⟩

/-- in every reachable configuration in which no thread has panicked, the log replays to the
    held lists and showed mutual exclusion at every instant -/
theorem reachable_heldlogok (P : Params K) (tree : Tree K V) (progs : List (List (COp K V)))
    (c : Config K V) (hr : Reachable (Config.init P tree progs) c) (hd : c.dead = false) : HeldLogOk c := by
  induction hr with
  | refl => exact init_heldlogok P tree progs
  | @step c1 c2 t hr1 hs ih =>
    have hd1 := step_dead c1 c2 t hs hd
    exact heldlogok_step hs (reachable_ok _ c1 (init_ok P tree progs) hr1 hd1)
      (reachable_owner _ c1 (init_ok P tree progs) (init_owner P tree progs) hr1 hd1) (ih hd1)

/-! ### reachability -/

theorem Reachable.trans {a b c : Config K V} (h1 : Reachable a b) (h2 : Reachable b c) : Reachable a c := by
  induction h2 with
  | refl => exact h1
  | @step c1 c2 t _ hs ih => exact .step t ih hs

theorem reachable_dead {a b : Config K V} (h : Reachable a b) (hd : b.dead = false) : a.dead = false := by
  induction h with
  | refl => exact hd
  | @step c1 c2 t _ hs ih => exact ih (step_dead c1 c2 t hs hd)

end Gobptree.Conc
