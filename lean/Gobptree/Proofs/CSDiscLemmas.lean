/-
  The client-discipline automaton (`CSDisc`) is sound for the code of the small-step model:
  what a continuation's `kontAbs` promises for the end of its operation is what `resume`
  delivers, and an operation the automaton allows is not a client fault.

  Method: every block of Conc.lean that belongs to a point operation (Search, Insert/Update,
  Delete) leaves `cursor`/`exhausted` alone and can only park with a continuation of a point
  operation again (`Keeps`); this is read off every block, as in ConcHeld/ConcOwner.
-/
import Gobptree.Proofs.CSDisc

namespace Gobptree.Conc
open Gobptree

variable {K V : Type}

/-- continuations whose code assigns the cursor -/
def setsCursor : Kont K V → Bool
  | .roNode true _ _ _ => true
  | .hop _ _ => true
  | _ => false

/-- continuations of the point operations Search, Insert/Update, Delete -/
def pointKont : Kont K V → Bool
  | .roTree sc _ => !sc
  | .roNode sc _ _ _ => !sc
  | .hop _ _ => false
  | .paused => false
  | _ => true

def pointPark : Park K V → Prop
  | .want _ k => pointKont k = true
  | .yielded k => pointKont k = true
  | _ => True

def pointFlow : Flow K V → Prop
  | .park p => pointPark p
  | _ => True

/-- same cursor state -/
def CurSame (s s' : St K V) : Prop := s'.cursor = s.cursor ∧ s'.exhausted = s.exhausted

/-- a block's result: cursor state untouched, parks only inside a point operation -/
def Keeps (s : St K V) (r : St K V × Flow K V) : Prop := CurSame s r.1 ∧ pointFlow r.2

theorem CurSame.trans {s s1 s2 : St K V} (h1 : CurSame s s1) (h2 : CurSame s1 s2) : CurSame s s2 :=
  ⟨h2.1.trans h1.1, h2.2.trans h1.2⟩

theorem Keeps.of {s s1 : St K V} {r : St K V × Flow K V} (h1 : CurSame s s1) (h2 : Keeps s1 r) : Keeps s r :=
  ⟨h1.trans h2.1, h2.2⟩

theorem relOpt_same (t : Nat) (s : St K V) (o : Option Nat) : CurSame s (relOpt t s o) := by
  cases o <;> exact ⟨rfl, rfl⟩

theorem frameUnlock_same (t : Nat) (s : St K V) (fr : Frame) (right : Option Nat) :
    CurSame s (frameUnlock t s fr right) := by
  unfold frameUnlock
  refine CurSame.trans ?_ (relOpt_same t _ fr.left)
  refine CurSame.trans (relOpt_same t s right) ?_
  exact ⟨rfl, rfl⟩

/-- closes `Keeps s (s', fl)` where `s'` is built from `s` by rel / note / tree updates and
    `fl` is explicit -/
macro "keeps" : tactic => `(tactic| first
  | exact ⟨⟨rfl, rfl⟩, trivial⟩
  | exact ⟨⟨rfl, rfl⟩, rfl⟩)

theorem kontAbs_point {k : Kont K V} (hp : pointKont k = true) (st' : CSt)
    (c : Option (Option Nat × Int)) (e : Bool) : kontAbs st' k c e = (st' = .N) := by
  cases k with
  | roTree sc key => cases sc <;> first | rfl | simp [pointKont] at hp
  | roNode sc key hold want => cases sc <;> first | rfl | simp [pointKont] at hp
  | hop cur next => simp [pointKont] at hp
  | paused => simp [pointKont] at hp
  | _ => rfl

theorem kontPre_point {k : Kont K V} (hp : pointKont k = true) (c : Option (Option Nat × Int))
    (hpre : KontPre c k) : cursorLocks c = [] := by
  cases k with
  | hop cur next => simp [pointKont] at hp
  | paused => simp [pointKont] at hp
  | _ => exact hpre

/-! ### the blocks -/

theorem roArrive_keeps (P : Params K) (t : Nat) (s : St K V) (key : K) (hold : Lk) (n : Nat) :
    Keeps s (roArrive P t s false key hold n) := by
  unfold roArrive
  simp only
  split
  · keeps
  · split
    · split
      · rename_i h; cases h
      · split
        · keeps
        · keeps
    · split
      · keeps
      · split <;> keeps

theorem upLeaf_keeps (P : Params K) (t : Nat) (s : St K V) (key : K) (f : Option V → V) (y : Option Bool) (n : Nat)
    (l : Leaf K V) : Keeps s (upLeaf P t s key f y n l) := by
  unfold upLeaf
  split
  · keeps
  · split
    · keeps
    · keeps
    · keeps

theorem upContinue_keeps (P : Params K) (t : Nat) (s : St K V) (key : K) (f : Option V → V) (y : Option Bool) (n : Nat) :
    Keeps s (upContinue P t s key f y n) := by
  unfold upContinue
  split
  · keeps
  · split
    · exact upLeaf_keeps P t s key f y n _
    · split
      · keeps
      · simp only
        split <;> keeps

theorem upChildArrive_keeps (P : Params K) (t : Nat) (s : St K V) (key : K) (f : Option V → V) (y : Option Bool)
    (parent index child : Nat) : Keeps s (upChildArrive P t s key f y parent index child) := by
  unfold upChildArrive
  split
  · split
    · keeps
    · split
      · keeps
      · split
        · keeps
        · exact Keeps.of ⟨rfl, rfl⟩ (upContinue_keeps P t _ key f y child)
        · split
          · split
            · keeps
            · exact Keeps.of ⟨rfl, rfl⟩ (upContinue_keeps P t _ key f y child)
          · keeps
  · keeps

theorem upRootArrive_keeps (P : Params K) (t : Nat) (s : St K V) (key : K) (f : Option V → V) (y : Option Bool)
    (root : Nat) : Keeps s (upRootArrive P t s key f y root) := by
  unfold upRootArrive
  simp only
  split
  · keeps
  · exact Keeps.of ⟨rfl, rfl⟩ (upContinue_keeps P t _ key f y root)
  · split
    · split
      · keeps
      · exact Keeps.of ⟨rfl, rfl⟩ (upContinue_keeps P t _ key f y root)
    · keeps

theorem delFinish_keeps (t : Nat) (s : St K V) (small : Bool) (root : Nat) :
    Keeps s (delFinish t s small root) := by
  unfold delFinish
  simp only
  split
  · keeps
  · split
    · keeps
    · keeps

theorem delUnwind_keeps (P : Params K) (t : Nat) (key : K) (root : Nat) :
    ∀ (frames : List Frame) (s : St K V) (small : Bool), Keeps s (delUnwind P t s key frames small root) := by
  intro frames
  induction frames with
  | nil => intro s small; unfold delUnwind; exact delFinish_keeps t s small root
  | cons fr rest ih =>
    intro s small
    unfold delUnwind
    split
    · exact Keeps.of (frameUnlock_same t s fr none) (ih _ false)
    · split
      · split
        · split <;> keeps
        · split
          · keeps
          · split
            · keeps
            · rename_i i' small' _
              refine Keeps.of ?_ (ih _ small')
              exact CurSame.trans (s1 := { s with tree := putInner s.tree i' }) ⟨rfl, rfl⟩
                (frameUnlock_same t _ fr none)
      · keeps

theorem delRightArrive_keeps (P : Params K) (t : Nat) (s : St K V) (key : K) (rest : List Frame) (fr : Frame)
    (right root : Nat) : Keeps s (delRightArrive P t s key rest fr right root) := by
  unfold delRightArrive
  split
  · split
    · keeps
    · split
      · keeps
      · rename_i i' small' _
        refine Keeps.of ?_ (delUnwind_keeps P t key root rest _ small')
        exact CurSame.trans (s1 := { s with tree := putInner s.tree i' }) ⟨rfl, rfl⟩
          (frameUnlock_same t _ fr (some right))
  · keeps

theorem delGo_keeps (P : Params K) (t : Nat) (s : St K V) (key : K) (frames : List Frame) (n root : Nat) :
    Keeps s (delGo P t s key frames n root) := by
  unfold delGo
  have henter : Keeps s ((delEnter P t s key frames n root).1, (delEnter P t s key frames n root).2.1) := by
    unfold delEnter
    split
    · keeps
    · split
      · split
        · keeps
        · keeps
      · split
        · keeps
        · simp only
          split
          · split <;> keeps
          · split <;> keeps
  split
  · rename_i s1 fl heq
    rw [heq] at henter; exact henter
  · rename_i s1 fl frames' small heq
    rw [heq] at henter
    exact Keeps.of henter.1 (delUnwind_keeps P t key root frames' s1 small)

/-! ### resume -/

theorem resume_keeps (P : Params K) (t : Nat) (s : St K V) (k : Kont K V) (hp : pointKont k = true) :
    Keeps s (resume P t s k) := by
  cases k with
  | roTree sc key =>
    cases sc with
    | true => simp [pointKont] at hp
    | false => simp only [resume]; keeps
  | roNode sc key hold want =>
    cases sc with
    | true => simp [pointKont] at hp
    | false => simp only [resume]; exact Keeps.of ⟨rfl, rfl⟩ (roArrive_keeps P t _ key hold want)
  | upTree key f y => simp only [resume]; keeps
  | upRoot key f y r => simp only [resume]; exact Keeps.of ⟨rfl, rfl⟩ (upRootArrive_keeps P t _ key f y r)
  | upRootSib key f y root sib =>
    simp only [resume]; exact Keeps.of ⟨rfl, rfl⟩ (upContinue_keeps P t _ key f y sib)
  | upChild key f y parent index child =>
    simp only [resume]; exact Keeps.of ⟨rfl, rfl⟩ (upChildArrive_keeps P t _ key f y parent index child)
  | upSib key f y parent child sib =>
    simp only [resume]; exact Keeps.of ⟨rfl, rfl⟩ (upContinue_keeps P t _ key f y sib)
  | upCallback key f leaf arg =>
    simp only [resume]
    split
    · split
      · split <;> keeps
      · keeps
    · keeps
  | delTree key => simp only [resume]; keeps
  | delRoot key r => simp only [resume]; exact Keeps.of ⟨rfl, rfl⟩ (delGo_keeps P t _ key [] r r)
  | delLeft key frames node index left root =>
    simp only [resume]
    split
    · split <;> keeps
    · keeps
  | delChild key frames node index left child root =>
    simp only [resume]; exact Keeps.of ⟨rfl, rfl⟩ (delGo_keeps P t _ key _ child root)
  | delRight key rest fr right root =>
    simp only [resume]; exact Keeps.of ⟨rfl, rfl⟩ (delRightArrive_keeps P t _ key rest fr right root)
  | hop cur next => simp [pointKont] at hp
  | paused => simp [pointKont] at hp

/-- only NewScanner's arrival at the leaf and the cursor hop assign the cursor -/
theorem resume_cursor_same (P : Params K) (t : Nat) (s : St K V) (k : Kont K V) (h : setsCursor k = false) :
    (resume P t s k).1.cursor = s.cursor ∧ (resume P t s k).1.exhausted = s.exhausted := by
  by_cases hp : pointKont k = true
  · exact (resume_keeps P t s k hp).1
  · cases k with
    | roTree sc key => exact ⟨rfl, rfl⟩
    | roNode sc key hold want =>
      cases sc with
      | true => simp [setsCursor] at h
      | false => simp [pointKont] at hp
    | hop cur next => simp [setsCursor] at h
    | paused => exact ⟨rfl, rfl⟩
    | _ => simp [pointKont] at hp

/-- a point operation's block ends in (or parks towards) abstract state `N` -/
theorem keeps_abs (s : St K V) (r : St K V × Flow K V) (hk : Keeps s r) (hc : cursorLocks s.cursor = []) :
    flowAbs .N r.2 r.1.cursor r.1.exhausted := by
  obtain ⟨s1, fl⟩ := r
  obtain ⟨⟨h1, _⟩, h2⟩ := hk
  simp only at h1 h2 ⊢
  cases fl with
  | panic => trivial
  | done r => show cursorLocks s1.cursor = []; rw [h1]; exact hc
  | park p =>
    cases p with
    | start => trivial
    | finished => trivial
    | want l k => show kontAbs .N k _ _; rw [kontAbs_point h2]
    | yielded k => show kontAbs .N k _ _; rw [kontAbs_point h2]

/-- NewScanner arriving at a node ends in (or parks towards) abstract state `F` -/
theorem roArrive_scanner_abs (P : Params K) (t : Nat) (s : St K V) (key : K) (hold : Lk) (n : Nat) :
    flowAbs .F (roArrive P t s true key hold n).2 (roArrive P t s true key hold n).1.cursor
      (roArrive P t s true key hold n).1.exhausted := by
  unfold roArrive
  simp only
  split
  · trivial
  · split
    · split
      · trivial
      · rename_i h; exact absurd trivial h
    · split
      · trivial
      · split
        · trivial
        · rfl

/-- the abstract cursor state promised for the end of the current operation is delivered -/
theorem resume_abs (P : Params K) (t : Nat) (s : St K V) (k : Kont K V) (st' : CSt)
    (ha : kontAbs st' k s.cursor s.exhausted) (hpre : KontPre s.cursor k) :
    flowAbs st' (resume P t s k).2 (resume P t s k).1.cursor (resume P t s k).1.exhausted := by
  by_cases hp : pointKont k = true
  · rw [kontAbs_point hp] at ha
    subst ha
    exact keeps_abs s _ (resume_keeps P t s k hp) (kontPre_point hp _ hpre)
  · cases k with
    | roTree sc key =>
      cases sc with
      | false => simp [pointKont] at hp
      | true => exact ha
    | roNode sc key hold want =>
      cases sc with
      | false => simp [pointKont] at hp
      | true =>
        have : st' = .F := ha
        subst this
        exact roArrive_scanner_abs P t _ key hold want
    | hop cur next =>
      have : st' = .S := ha
      subst this
      intro leaf i hci _
      simp only [resume, Option.some.injEq, Prod.mk.injEq] at hci
      omega
    | paused => exact ha
    | _ => simp [pointKont] at hp

/-! ### starting an operation -/

theorem misuse_false_of (s : St K V) (h : cursorLocks s.cursor = []) : misuse s = false := by
  simp [misuse, h]

/-- an operation the automaton allows is not a client fault, and ends in the promised state -/
theorem startOp_abs (t : Nat) (s : St K V) (op : COp K V) (st st' : CSt)
    (ha : AbsC st s.cursor s.exhausted) (hd : discStep st op = some st')
    (hci : ∀ leaf i, s.cursor = some (some leaf, i) → -1 ≤ i) :
    opFault s op = false ∧
    flowAbs st' (startOp t s op).2 (startOp t s op).1.cursor (startOp t s op).1.exhausted := by
  cases op with
  | ins k v =>
    cases st <;> cases hd
    have hm := misuse_false_of s ha
    refine ⟨hm, ?_⟩
    simp only [startOp, hm, Bool.false_eq_true, ↓reduceIte]
    exact rfl
  | upd k f y =>
    cases st <;> cases hd
    have hm := misuse_false_of s ha
    refine ⟨hm, ?_⟩
    simp only [startOp, hm, Bool.false_eq_true, ↓reduceIte]
    exact rfl
  | del k =>
    cases st <;> cases hd
    have hm := misuse_false_of s ha
    refine ⟨hm, ?_⟩
    simp only [startOp, hm, Bool.false_eq_true, ↓reduceIte]
    exact rfl
  | get k =>
    cases st <;> cases hd
    have hm := misuse_false_of s ha
    refine ⟨hm, ?_⟩
    simp only [startOp, hm, Bool.false_eq_true, ↓reduceIte]
    exact rfl
  | ns k =>
    cases st <;> cases hd
    have hm := misuse_false_of s ha
    refine ⟨hm, ?_⟩
    simp only [startOp, hm, Bool.false_eq_true, ↓reduceIte]
    exact rfl
  | pause =>
    cases st <;> cases hd <;> exact ⟨rfl, ha⟩
  | scan =>
    have hS : flowAbs .S (startOp t s .scan).2 (startOp t s .scan).1.cursor (startOp t s .scan).1.exhausted := by
      simp only [startOp]
      split
      · rename_i leaf i hcur hex
        split
        · trivial
        · split
          · split
            · intro l' i' h _
              simp at h
            · exact rfl
          · intro l' i' h _
            simp only [Option.some.injEq, Prod.mk.injEq] at h
            have := hci leaf i hcur
            omega
      · rename_i hne
        intro l' i' hc he
        exact (hne l' i' hc he).elim
    cases st with
    | N =>
      cases hd
      refine ⟨rfl, ?_⟩
      have hc : cursorLocks s.cursor = [] := ha
      simp only [startOp]
      split
      · rename_i leaf i hcur hex
        rw [hcur] at hc
        simp [cursorLocks] at hc
      · exact hc
    | F => cases hd; exact ⟨rfl, hS⟩
    | S => cases hd; exact ⟨rfl, hS⟩
  | pair =>
    cases st with
    | N =>
      cases hd
      have hc : cursorLocks s.cursor = [] := ha
      have hno : ∀ leaf i, s.cursor ≠ some (some leaf, i) := by
        intro leaf i hcur
        rw [hcur] at hc
        simp [cursorLocks] at hc
      refine ⟨?_, ?_⟩
      · simp only [opFault]
        split
        · rename_i leaf i hcur hex; exact absurd hcur (hno _ _)
        · rfl
      · simp only [startOp]
        split
        · rename_i leaf i hcur hex; exact absurd hcur (hno _ _)
        · exact hc
    | F => cases hd
    | S =>
      cases hd
      have hS : ∀ leaf i, s.cursor = some (some leaf, i) → s.exhausted = false → 0 ≤ i := ha
      refine ⟨?_, ?_⟩
      · simp only [opFault]
        split
        · rename_i leaf i hcur hex
          have := hS leaf i hcur hex
          simp only [decide_eq_false_iff_not]
          omega
        · rfl
      · simp only [startOp]
        split
        · split
          · trivial
          · split
            · trivial
            · split
              · exact hS
              · trivial
        · exact hS
  | close =>
    have hN : flowAbs .N (startOp t s .close).2 (startOp t s .close).1.cursor (startOp t s .close).1.exhausted := by
      simp only [startOp]
      split
      · rename_i hcur
        show cursorLocks s.cursor = []
        rw [hcur]; rfl
      · exact rfl
    cases st <;> cases hd <;> exact ⟨rfl, hN⟩

theorem startOp_tree (t : Nat) (s : St K V) (op : COp K V) : (startOp t s op).1.tree = s.tree := by
  cases op with
  | ins k v => simp only [startOp]; split <;> rfl
  | upd k f y => simp only [startOp]; split <;> rfl
  | del k => simp only [startOp]; split <;> rfl
  | get k => simp only [startOp]; split <;> rfl
  | ns k => simp only [startOp]; split <;> rfl
  | pause => rfl
  | scan =>
    simp only [startOp]
    split
    · split
      · rfl
      · split
        · split <;> rfl
        · rfl
    · rfl
  | pair =>
    simp only [startOp]
    split
    · split
      · rfl
      · split
        · rfl
        · split <;> rfl
    · rfl
  | close =>
    simp only [startOp]
    split
    · rfl
    · rename_i leaf? i _
      cases leaf? <;> rfl

/-- the operations started after the first one of a step do not touch the tree -/
theorem threadLoop_tree (t : Nat) (th : Thread K V) :
    ∀ (fuel : Nat) (s : St K V) (fl : Flow K V) (pc : Nat), (threadLoop t th fuel s fl pc).2.1.tree = s.tree := by
  intro fuel
  induction fuel with
  | zero =>
    intro s fl pc
    cases fl <;> simp only [threadLoop, note_tree]
  | succ fuel ih =>
    intro s fl pc
    cases fl with
    | panic => simp only [threadLoop, note_tree]
    | park p => simp only [threadLoop]
    | done r =>
      unfold threadLoop
      cases hop : th.prog[pc + 1]? with
      | none => rfl
      | some op =>
        simp only []
        rw [ih, startOp_tree]
        rfl

end Gobptree.Conc
