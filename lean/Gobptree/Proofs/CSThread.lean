/-
  One scheduler step of one thread (`runThread`): the first stretch (`resume`, or the first
  `startOp`) followed by the loop of `CSLoop`.
-/
import Gobptree.Proofs.CSLoop
import Gobptree.Proofs.CSParkKind

namespace Gobptree.Conc
open Gobptree

variable {K V : Type}

/-- the per-block results the assembly rests on (proved in `CSUp` / `CSDel` / `CSParkKind`) -/
def ResumeU (K V : Type) : Prop :=
  ∀ (P : Params K) (t : Nat) (s : St K V) (k : Kont K V) (H : List Lk) (hole : Option Nat),
    isDelK k = false → Pre P hole s →
    KontOk s.tree k → CursorOk s.tree (isHopK k) s.cursor → KontPre s.cursor k → Covers H s.cursor k →
    Post H hole s (resume P t s k).1 (resume P t s k).2 ∧ flowHole (resume P t s k).2 = none

def ResumeD (K V : Type) : Prop :=
  ∀ (P : Params K) (t : Nat) (s : St K V) (k : Kont K V) (H : List Lk),
    isDelK k = true → 4 ≤ s.tree.order →
    Pre P (kontHole k) s → KontOk s.tree k → KontPre s.cursor k → Covers H s.cursor k →
    Post H (flowHole (resume P t s k).2) s (resume P t s k).1 (resume P t s k).2

def ResumeLive (K V : Type) : Prop :=
  ∀ (P : Params K) (t : Nat) (s : St K V) (k : Kont K V) (p : Park K V), (resume P t s k).2 = .park p → parkLive p

structure Blocks (K V : Type) : Prop where
  start     : StartOpPost K V
  startLive : StartOpLive K V
  resU      : ResumeU K V
  resD      : ResumeD K V
  resLive   : ResumeLive K V

/-- mutexes the thread holds during the step: what it held, plus the one it is granted -/
def stepHeld (th : Thread K V) : List Lk :=
  match th.park with
  | .want l _ => th.held ++ [l]
  | _ => th.held

theorem parkHole_want (l : Lk) (k : Kont K V) : parkHole (.want l k) = kontHole k := by
  cases k <;> rfl

theorem isHop_want (l : Lk) (k : Kont K V) : isHop (.want l k) = isHopK k := by
  cases k <;> rfl

theorem isHop_yielded (k : Kont K V) : isHop (Park.yielded k) = false := rfl

/-- a block never parks at the cursor hop (only `Scan` itself does) -/
theorem resume_not_hop (P : Params K) (t : Nat) (s : St K V) (k : Kont K V) :
    flowIsHop (resume P t s k).2 = false := by
  by_cases hp : pointKont k = true
  · have := (resume_keeps P t s k hp).2
    cases hfl : (resume P t s k).2 with
    | panic => rfl
    | done r => rfl
    | park p =>
      rw [hfl] at this
      cases p with
      | start => rfl
      | finished => rfl
      | yielded k' => rfl
      | want l k' =>
        have hk' : pointKont k' = true := this
        cases k' <;> first | rfl | (simp [pointKont] at hk')
  · cases k with
    | roTree sc key => simp only [resume]; rfl
    | roNode sc key hold want =>
      simp only [resume, roArrive]
      split
      · rfl
      · split
        · split
          · rfl
          · split <;> rfl
        · split
          · rfl
          · split <;> rfl
    | hop cur next => simp only [resume]; rfl
    | paused => simp only [resume]; rfl
    | _ => simp [pointKont] at hp

structure ThreadOut (T0 : Tree K V) (H : List Lk) (hole' : Option Nat) (th : Thread K V)
    (r : Thread K V × St K V × Bool) : Prop where
  alive  : r.2.2 = false
  tree   : TreeOk hole' r.2.1.tree
  frame  : FrameEq (keepOf H T0.nextId) T0.flat r.2.1.tree.flat
  nextId : T0.nextId ≤ r.2.1.tree.nextId
  root   : Lk.tree ∈ H ∨ (r.2.1.tree.rootId = T0.rootId ∧ r.2.1.tree.depth = T0.depth)
  order  : r.2.1.tree.order = T0.order
  sok    : ThreadSOk r.2.1.tree r.1
  disc   : DiscOk r.1
  extra  : ∀ x ∈ parkExtra r.2.1.tree r.1.park, T0.nextId ≤ x
  prog   : r.1.prog = th.prog

/-- the loop after a first stretch that satisfied `Post` -/
theorem after_post (B : Blocks K V) (t : Nat) (th : Thread K V) (H : List Lk) (hole' : Option Nat)
    (s0 s : St K V) (fl : Flow K V) (pc : Nat) (hpost : Post H hole' s0 s fl)
    (hlive : ∀ p, fl = .park p → parkLive p) (hnh : flowIsHop fl = false)
    (hdisc : ∃ st', disciplined st' (th.prog.drop (pc + 1)) = true ∧ flowAbs st' fl s.cursor s.exhausted) :
    ThreadOut s0.tree H hole' th (threadLoop t th th.prog.length s fl pc) ∧
      parkHole (threadLoop t th th.prog.length s fl pc).1.park = flowHole fl := by
  have hinv : LoopInv s.tree s0.tree.nextId th s fl pc :=
    { tree := rfl
      nopanic := hpost.nopanic
      kont := fun p hp => ⟨(hpost.kont p hp).1, (hpost.kont p hp).2.1, (hpost.kont p hp).2.2, hlive p hp⟩
      cursor := by rw [hnh]; exact hpost.cursor
      disc := hdisc }
  have hout := loop_sinv B.start B.startLive t th s.tree hole' s0.tree.nextId hpost.tree th.prog.length s fl pc hinv
  refine ⟨⟨hout.alive, ?_, ?_, ?_, ?_, ?_, ?_, hout.disc, ?_, hout.prog⟩, hout.hole⟩
  · rw [hout.tree]; exact hpost.tree
  · rw [hout.tree]; exact hpost.frame
  · rw [hout.tree]; exact hpost.nextId
  · rw [hout.tree]; exact hpost.root
  · rw [hout.tree]; exact hpost.order
  · rw [hout.tree]; exact hout.sok
  · rw [hout.tree]; exact hout.extra


theorem mem_stepHeld_of_held {th : Thread K V} {l : Lk} (h : l ∈ th.held) : l ∈ stepHeld th := by
  unfold stepHeld
  cases th.park with
  | want l' k => exact List.mem_append_left _ h
  | _ => exact h

theorem covers_of_ok {th : Thread K V} {s0 : St K V} (hc0 : s0.cursor = th.cursor) (hok : ThreadOk th)
    (k : Kont K V) (hp : th.park = .yielded k ∨ ∃ l, th.park = .want l k) :
    Covers (stepHeld th) s0.cursor k := by
  obtain ⟨hperm, _, hlock⟩ := hok
  refine ⟨?_, ?_, ?_⟩
  · intro x hx
    apply mem_stepHeld_of_held
    apply hperm.mem_iff.2
    apply List.mem_append_right
    rcases hp with hp | ⟨l, hp⟩ <;> rw [hp] <;> exact hx
  · intro x hx
    rcases hp with hp | ⟨l, hp⟩
    · rw [hp] at hlock
      have : kontLock k = none := hlock
      rw [this] at hx; cases hx
    · rw [hp] at hlock
      have : kontLock k = some l := hlock
      rw [this] at hx
      cases hx
      unfold stepHeld; rw [hp]; simp
  · intro x hx
    apply mem_stepHeld_of_held
    apply hperm.mem_iff.2
    apply List.mem_append_left
    rw [← hc0]; exact hx

/-- **one scheduler step of one thread keeps the structural invariant**, given the
    per-block results -/
theorem runThread_sinv (B : Blocks K V) (P : Params K) (t : Nat) (th : Thread K V) (s0 : St K V) (hole : Option Nat)
    (h0 : s0.held = th.held) (hc0 : s0.cursor = th.cursor) (he0 : s0.exhausted = th.exhausted)
    (hpre : Pre P hole s0) (hok : ThreadOk th) (hs : ThreadSOk s0.tree th) (hd : DiscOk th)
    (hnf : th.park ≠ .finished)
    (hhole : isDelPark th.park = true → hole = parkHole th.park)
    (h4 : isDelPark th.park = true → 4 ≤ s0.tree.order) :
    ∃ hole', ThreadOut s0.tree (stepHeld th) hole' th (runThread P t th s0) ∧
      (isDelPark th.park = true → hole' = parkHole (runThread P t th s0).1.park) ∧
      (isDelPark th.park = false → hole' = hole ∧ parkHole (runThread P t th s0).1.park = none) := by
  unfold runThread
  cases hp : th.park with
  | finished => exact absurd hp hnf
  | start =>
    simp only
    unfold DiscOk at hd
    rw [hp] at hd
    obtain ⟨hdisc, hcur⟩ := hd
    cases hop : th.prog[0]? with
    | none =>
      refine ⟨hole, ⟨rfl, hpre.tree, FrameEq.refl _ _, Nat.le_refl _, Or.inr ⟨rfl, rfl⟩, rfl, ⟨trivial, ?_⟩, trivial, ?_, rfl⟩,
        fun h => by simp [isDelPark] at h, fun _ => ⟨rfl, rfl⟩⟩
      · rw [hcur]; trivial
      · intro x hx; cases hx
    | some op =>
      simp only
      have hlt : 0 < th.prog.length := by
        rcases Nat.lt_or_ge 0 th.prog.length with h | h
        · exact h
        · rw [List.getElem?_eq_none h] at hop; cases hop
      have hprog : th.prog = op :: th.prog.drop 1 := by
        have := List.drop_eq_getElem_cons (l := th.prog) (i := 0) hlt
        rw [List.drop_zero] at this
        rw [this]
        congr 1
        rw [List.getElem?_eq_getElem hlt] at hop
        exact Option.some.inj hop
      rw [hprog] at hdisc
      obtain ⟨st'', hstep, hrest⟩ := disciplined_cons hdisc
      let s1 := s0.note t (.inv 0)
      have hs1c : s1.cursor = none := by show s0.cursor = none; rw [hc0, hcur]
      have habs := startOp_abs t s1 op .N st'' (by show cursorLocks s1.cursor = []; rw [hs1c]; rfl) hstep
        (by intro leaf i e; rw [hs1c] at e; cases e)
      have hcok : CursorOk s1.tree false s1.cursor := by rw [hs1c]; trivial
      obtain ⟨hs_tree, hs_np, hs_park, hs_cur⟩ := B.start t s1 op hole hpre.tree hcok habs.1
      have hinv : LoopInv s0.tree s0.tree.nextId th (startOp t s1 op).1 (startOp t s1 op).2 0 :=
        { tree := hs_tree
          nopanic := hs_np
          kont := by
            intro p hp'
            obtain ⟨a, b, c, _⟩ := hs_park p hp'
            refine ⟨a, b, ?_, B.startLive t s1 op p hp'⟩
            have : parkExtra s0.tree p = [] := c
            rw [this]; intro x hx; cases hx
          cursor := hs_cur
          disc := ⟨st'', hrest, habs.2⟩ }
      have hout := loop_sinv B.start B.startLive t th s0.tree hole s0.tree.nextId hpre.tree th.prog.length _ _ 0 hinv
      refine ⟨hole, ⟨hout.alive, ?_, ?_, ?_, ?_, ?_, ?_, hout.disc, ?_, hout.prog⟩,
        fun h => by simp [isDelPark] at h, fun _ => ⟨rfl, ?_⟩⟩
      · rw [hout.tree]; exact hpre.tree
      · rw [hout.tree]; exact FrameEq.refl _ _
      · rw [hout.tree]; exact Nat.le_refl _
      · rw [hout.tree]; exact Or.inr ⟨rfl, rfl⟩
      · rw [hout.tree]
      · rw [hout.tree]; exact hout.sok
      · rw [hout.tree]; exact hout.extra
      · rw [hout.hole]
        cases hfl : (startOp t s1 op).2 with
        | panic => rfl
        | done _ => rfl
        | park p => exact (hs_park p hfl).2.2.2
  | want l k =>
    simp only
    unfold DiscOk at hd
    unfold ThreadSOk at hs
    rw [hp] at hd hs hhole h4
    obtain ⟨st', hd1, hd2⟩ := hd
    have hcov := covers_of_ok hc0 hok k (Or.inr ⟨l, hp⟩)
    have hkp : KontPre s0.cursor k := by
      have := hok.2.1; rw [hp] at this; rw [hc0]; exact this
    have hcur : CursorOk s0.tree (isHopK k) s0.cursor := by
      have := hs.2; rw [isHop_want] at this; rw [hc0]; exact this
    have habs := resume_abs P t s0 k st' (by rw [hc0, he0]; exact hd2) hkp
    cases hdel : isDelK k with
    | false =>
      obtain ⟨hpost, hfh⟩ := B.resU P t s0 k (stepHeld th) hole hdel hpre hs.1 hcur hkp hcov
      obtain ⟨hout, hh⟩ := after_post B t th (stepHeld th) hole s0 _ _ th.pc hpost
        (fun p hp' => B.resLive P t s0 k p hp') (resume_not_hop P t s0 k) ⟨st', hd1, habs⟩
      exact ⟨hole, hout, fun h => by simp [isDelPark, hdel] at h, fun _ => ⟨rfl, by rw [hh, hfh]⟩⟩
    | true =>
      have hhk : hole = kontHole k := by
        rw [hhole (by simp [isDelPark, hdel]), parkHole_want]
      have hpost := B.resD P t s0 k (stepHeld th) hdel (h4 (by simp [isDelPark, hdel]))
        (by rw [← hhk]; exact hpre) hs.1 hkp hcov
      obtain ⟨hout, hh⟩ := after_post B t th (stepHeld th) _ s0 _ _ th.pc hpost
        (fun p hp' => B.resLive P t s0 k p hp') (resume_not_hop P t s0 k) ⟨st', hd1, habs⟩
      exact ⟨_, hout, fun _ => hh.symm, fun h => by simp [isDelPark, hdel] at h⟩
  | yielded k =>
    simp only
    unfold DiscOk at hd
    unfold ThreadSOk at hs
    rw [hp] at hd hs hhole
    obtain ⟨st', hd1, hd2⟩ := hd
    have hcov := covers_of_ok hc0 hok k (Or.inl hp)
    have hkp : KontPre s0.cursor k := by
      have := hok.2.1; rw [hp] at this; rw [hc0]; exact this
    have hlock : kontLock k = none := by
      have := hok.2.2; rw [hp] at this; exact this
    have hdel : isDelK k = false := by
      cases k <;> first | rfl | (simp [kontLock] at hlock)
    have hhop : isHopK k = false := by
      cases k <;> first | rfl | (simp [kontLock] at hlock)
    have hcur : CursorOk s0.tree (isHopK k) s0.cursor := by
      have := hs.2; rw [isHop_yielded] at this; rw [hc0, hhop]; exact this
    have habs := resume_abs P t s0 k st' (by rw [hc0, he0]; exact hd2) hkp
    obtain ⟨hpost, hfh⟩ := B.resU P t s0 k (stepHeld th) hole hdel hpre hs.1 hcur hkp hcov
    obtain ⟨hout, hh⟩ := after_post B t th (stepHeld th) hole s0 _ _ th.pc hpost
      (fun p hp' => B.resLive P t s0 k p hp') (resume_not_hop P t s0 k) ⟨st', hd1, habs⟩
    exact ⟨hole, hout, fun h => by simp [isDelPark, hdel] at h, fun _ => ⟨rfl, by rw [hh, hfh]⟩⟩

end Gobptree.Conc
