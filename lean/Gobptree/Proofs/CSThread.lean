/-
  One scheduler step of one thread (`runThread`): the first stretch (`resume`, or the first
  `startOp`) followed by the loop of `CSLoop`.
-/
import Gobptree.Proofs.CSLoop
import Gobptree.Proofs.CSParkKind

namespace Gobptree.Conc
open Gobptree

variable {K V : Type}

/-- the per-block results the assembly rests on (proved in `CSUp` / `CSDel` / `CSParkKind`) -/
def ResumeU (K V : Type) : Prop :=
  ∀ (P : Params K) (t : Nat) (s : St K V) (k : Kont K V) (H : List Lk) (hole : Option Nat),
    isDelK k = false → Pre P hole s → (∀ x, hole = some x → Lk.node x ∉ H) →
    KontOk s.tree k → CursorOk s.tree (isHopK k) s.cursor → KontPre s.cursor k → Covers H s.cursor k →
    Post H hole s (resume P t s k).1 (resume P t s k).2 ∧ flowHole (resume P t s k).2 = none

def ResumeD (K V : Type) : Prop :=
  ∀ (P : Params K) (t : Nat) (s : St K V) (k : Kont K V) (H : List Lk),
    isDelK k = true → Pre P (kontHole k) s → KontOk s.tree k → KontPre s.cursor k → Covers H s.cursor k →
    Post H (flowHole (resume P t s k).2) s (resume P t s k).1 (resume P t s k).2

def ResumeLive (K V : Type) : Prop :=
  ∀ (P : Params K) (t : Nat) (s : St K V) (k : Kont K V) (p : Park K V), (resume P t s k).2 = .park p → parkLive p

structure Blocks (K V : Type) : Prop where
  start     : StartOpPost K V
  startLive : StartOpLive K V
  resU      : ResumeU K V
  resD      : ResumeD K V
  resLive   : ResumeLive K V

/-- mutexes the thread holds during the step: what it held, plus the one it is granted -/
def stepHeld (th : Thread K V) : List Lk :=
  match th.park with
  | .want l _ => th.held ++ [l]
  | _ => th.held

theorem parkHole_want (l : Lk) (k : Kont K V) : parkHole (.want l k) = kontHole k := by
  cases k <;> rfl

end Gobptree.Conc
