/-
  Separator invariant for Delete, part 4: a parent whose window of two adjacent kids is
  rewritten by a borrow or a merge keeps the separator invariant and routes every key to the
  same grandkid as before — because the boundary between the two kids is (equivalent to) the
  right kid's first separator, before and after.
-/
import Gobptree.Proofs.CIDelNode

namespace Gobptree.Conc
open Gobptree

variable {K V : Type} {lt : K → K → Bool}

/-! ### the pooled separators of two adjacent `Ord` siblings -/

theorem runts_lt_hi (h : SWO lt) {d : Nat} {lo : Option K} {k2 : K} (c : Inner K (Node K V d))
    (hO : Ord lt (d + 1) lo (some k2) c) (hP : ParN (d + 1) c) : ∀ x ∈ c.runts, lt x k2 = true := by
  intro x hx
  obtain ⟨y, hy⟩ := mem_zip_of_mem_left c.runts c.kids hP.1 x hx
  exact Kids_keys_lt h (some k2) _ hO.2 (x, y) hy

theorem runts_ge_lo (h : SWO lt) {d : Nat} {hi : Option K} {k2 : K} (c : Inner K (Node K V d))
    (hO : Ord lt (d + 1) (some k2) hi c) (hP : ParN (d + 1) c) : ∀ x ∈ c.runts, lt x k2 = false := by
  have hs := Ord_sorted h c hO hP
  intro x hx
  cases hr : c.runts with
  | nil => rw [hr] at hx; cases hx
  | cons r0 rs =>
    have h0 : lt r0 k2 = false := hO.1 r0 (by rw [hr]; rfl)
    rw [hr] at hx hs
    rcases List.mem_cons.1 hx with rfl | hx
    · exact h0
    · exact h.le_trans h0 (h.le_of_lt ((List.pairwise_cons.1 hs).1 x hx))

theorem sorted_concat (h : SWO lt) {d : Nat} {lo hi : Option K} {k2 : K} (c1 c2 : Inner K (Node K V d))
    (hO1 : Ord lt (d + 1) lo (some k2) c1) (hO2 : Ord lt (d + 1) (some k2) hi c2)
    (hP1 : ParN (d + 1) c1) (hP2 : ParN (d + 1) c2) : Sorted lt (c1.runts ++ c2.runts) := by
  apply List.pairwise_append.2
  refine ⟨Ord_sorted h c1 hO1 hP1, Ord_sorted h c2 hO2 hP2, ?_⟩
  intro x hx y hy
  exact h.lt_of_lt_of_le (runts_lt_hi h c1 hO1 hP1 x hx) (runts_ge_lo h c2 hO2 hP2 y hy)

theorem zip_pool {α β : Type} (R1 R2 R1' R2' : List α) (K1 K2 K1' K2' : List β)
    (hr : R1' ++ R2' = R1 ++ R2) (hk : K1' ++ K2' = K1 ++ K2)
    (hl : R1.length = K1.length) (hl' : R1'.length = K1'.length) :
    R1'.zip K1' ++ R2'.zip K2' = R1.zip K1 ++ R2.zip K2 := by
  rw [← zip_surgery (K := α) (C := β) _ _ _ _ hl, ← zip_surgery (K := α) (C := β) _ _ _ _ hl', hr, hk]

/-- an inner node whose entries come from the pooled entries of two nodes satisfying the
    separator invariant satisfies it -/
theorem sepN_pool (Wit : Nat → K → Prop) {d : Nat} (c1 c2 X : Inner K (Node K V d))
    (hz : ∀ e ∈ X.runts.zip X.kids, e ∈ c1.runts.zip c1.kids ++ c2.runts.zip c2.kids)
    (hk : ∀ g ∈ X.kids, g ∈ c1.kids ++ c2.kids)
    (s1 : SepN lt Wit (d + 1) c1) (s2 : SepN lt Wit (d + 1) c2) : SepN lt Wit (d + 1) X := by
  refine ⟨?_, ?_⟩
  · intro e he
    rcases List.mem_append.1 (hz e he) with he | he
    · exact s1.1 e he
    · exact s2.1 e he
  · intro g hg
    rcases List.mem_append.1 (hk g hg) with hg | hg
    · exact s1.2 g hg
    · exact s2.2 g hg

/-! ### routing through a pair of inner siblings -/

/-- the sibling chosen by the boundary `k2`, and the kid chosen inside it, in terms of the
    pooled separators -/
theorem pair_gk (h : SWO lt) (key : K) {d : Nat} (c1 c2 : Inner K (Node K V d)) (k1 k2 r0 : K)
    (h12 : lt k1 k2 = true) (hs : Sorted lt (c1.runts ++ c2.runts)) (hne : c1.runts ≠ [])
    (hl : c1.runts.length = c1.kids.length) (e2 : c2.runts.head? = some r0) (he : eqv lt k2 r0 = true) :
    ∃ c : Inner K (Node K V d),
      ([c1, c2] : List (Node K V (d + 1)))[searchLE lt key [k1, k2]]? = some c ∧
      c.kids[searchLE lt key c.runts]? = (c1.kids ++ c2.kids)[searchLE lt key (c1.runts ++ c2.runts)]? := by
  obtain ⟨R2', hR2⟩ : ∃ R2', c2.runts = r0 :: R2' := by
    cases hc : c2.runts with
    | nil => rw [hc] at e2; cases e2
    | cons a R2' =>
      rw [hc] at e2
      injection e2 with e2
      exact ⟨R2', by rw [e2]⟩
  rw [hR2] at hs ⊢
  obtain ⟨t1, t2⟩ := two_level h key k2 r0 c1.runts R2' c1.kids c2.kids hs hne hl he
  rw [searchLE_two h key k1 k2 h12]
  cases hk : lt key k2 with
  | true =>
    refine ⟨c1, rfl, ?_⟩
    exact t1 hk
  | false =>
    refine ⟨c2, rfl, ?_⟩
    rw [hR2]
    exact t2 hk

/-! ### the parent -/

/-- a key's path below a parent whose window is rewritten: it is enough to follow the keys
    that are routed into the window -/
theorem parent_route (h : SWO lt) (key : K) {d : Nat} (i i' : Inner K (Node K V d))
    (rA rB : List K) (k1 : K) (rW rW2 : List K) (A B : List (Node K V d)) (c1 c1' : Node K V d)
    (W W2 : List (Node K V d))
    (hr : i.runts = rA ++ k1 :: (rW ++ rB)) (hk : i.kids = A ++ c1 :: (W ++ B))
    (hr' : i'.runts = rA ++ k1 :: (rW2 ++ rB)) (hk' : i'.kids = A ++ c1' :: (W2 ++ B))
    (hl : rA.length = A.length) (hlW : rW.length = W.length) (hlW2 : rW2.length = W2.length)
    (hs : Sorted lt i.runts) (hs2 : Sorted lt i'.runts)
    (x : Nat) (hx : x ∈ rids lt key (d + 1) i) (hne : x ≠ i.id)
    (hin : ∀ c, (c1 :: W)[searchLE lt key (k1 :: rW)]? = some c → x ∈ rids lt key d c →
      ∃ c', (c1' :: W2)[searchLE lt key (k1 :: rW2)]? = some c' ∧ x ∈ rids lt key d c') :
    x ∈ rids lt key (d + 1) i' := by
  have er : ∀ rW : List K, rA ++ k1 :: (rW ++ rB) = rA ++ (k1 :: rW) ++ rB := by intro rW; simp
  have ek : ∀ (c : Node K V d) (W : List (Node K V d)), A ++ c :: (W ++ B) = A ++ (c :: W) ++ B := by
    intro c W; simp
  rw [er] at hr hr'
  rw [ek] at hk hk'
  rw [hr] at hs
  rw [hr'] at hs2
  obtain ⟨c, hc, hxc⟩ := mem_rids_succ key i x hx hne
  rw [hr, hk] at hc
  rcases window_kid h key rA rB k1 rW rW2 A B c1 c1' W W2 hl hlW hlW2 hs hs2 with ⟨e, _⟩ | ⟨e1, e2, _, _⟩
  · rw [e, ← hr', ← hk'] at hc
    rw [rids_succ_of key i' c hc]
    exact List.mem_cons_of_mem _ hxc
  · rw [e1] at hc
    obtain ⟨c', hc', hxc'⟩ := hin c hc hxc
    have : i'.kids[searchLE lt key i'.runts]? = some c' := by
      rw [hr', hk', e2]; exact hc'
    rw [rids_succ_of key i' c' this]
    exact List.mem_cons_of_mem _ hxc'

end Gobptree.Conc
