/-
  Stage C assembly: with Delete.  The full key-order invariant (ordering, positions, the
  separator invariant) is preserved by every scheduler step, given the per-block results.
-/
import Gobptree.Proofs.CIDefs

namespace Gobptree.Conc
open Gobptree

variable {K V : Type}

structure KBlocks (K V : Type) : Prop where
  ku : ResumeKU K V
  kd : ResumeKD K V
  iu : ResumeIU K V
  id : ResumeID K V

/-- the full invariant of a configuration -/
structure KFInv (lt : K → K → Bool) (c : Config K V) : Prop where
  cinv : CInv c
  kinv : KInv lt c
  isep : ISep lt c
  kp   : KParams lt c.P

theorem threadLoop_park_of_park (t : Nat) (th : Thread K V) (fuel : Nat) (s : St K V) (p : Park K V) (pc : Nat) :
    (threadLoop t th fuel s (.park p) pc).1.park = p := by
  cases fuel <;> simp [threadLoop]

theorem isepW_mono {lt : K → K → Bool} {W W' : Nat → K → Prop} {t : Tree K V}
    (h : ISepW lt W t) (hw : ∀ r x, W r x → W' r x) : ISepW lt W' t := by
  intro g j r sg sr s a b c d e
  rcases h g j r sg sr s a b c d e with h1 | h1
  · exact Or.inl h1
  · exact Or.inr (hw r s h1)

/-- the other threads' witnesses -/
def othersWit (c : Config K V) (t : Nat) : Nat → K → Prop :=
  fun r x => ∃ j b, j ≠ t ∧ c.threads[j]? = some b ∧ parkWit b.park r x

theorem parkWit_held {b : Thread K V} (hok : ThreadOk b) {r : Nat} {x : K} (h : parkWit b.park r x) :
    Lk.node r ∈ b.held := by
  cases hp : b.park with
  | want l k =>
    rw [hp] at h
    cases k with
    | upChild key f y parent index child =>
      cases index with
      | zero =>
        obtain ⟨e1, _⟩ := h
        apply hok.1.mem_iff.2
        apply List.mem_append_right
        rw [hp, e1]; simp [parkHeld, kontHeld]
      | succ n => exact absurd h id
    | _ => exact absurd h id
  | _ => rw [hp] at h; exact absurd h id

/-- **the full invariant survives a step** -/
theorem step_kfinv (B : KBlocks K V) (lt : K → K → Bool) (c c' : Config K V) (t : Nat)
    (hstep : c.step t = some c') (h : KFInv lt c) : KFInv lt c' := by
  have hinv := h.cinv
  have hk := h.kinv
  have hkp := h.kp
  obtain ⟨th, ht, hen, r, hr, hc'⟩ := step_shape hstep
  obtain ⟨hinv', th2, ht2, hframe⟩ := step_cinv blocks_ok c c' t hstep hinv
  rw [ht] at ht2
  cases ht2
  have htm : th ∈ c.threads := List.mem_of_getElem? ht
  have hS := hinv.s
  have hok := hS.cfg th htm
  have hsok := hS.threads th htm
  have hnf := enabled_not_finished hen
  have htree' : c'.tree = r.2.1.tree := by rw [hc']
  have hths' : c'.threads = c.threads.set t r.1 := by rw [hc']
  have hP' : c'.P = c.P := by rw [hc']
  -- witnesses of the other threads concern nodes outside the stepping thread's hands
  have hwit : ∀ r' x, othersWit c t r' x → Lk.node r' ∉ stepHeld th := by
    rintro r' x ⟨j, b, hne, hj, hw⟩
    exact stepHeld_excl hS.owner ht hj hne hen (parkWit_held (hS.cfg b (List.mem_of_getElem? hj)) hw)
  have hisep0 : ISepW lt (fun r' x => othersWit c t r' x ∨ parkWit th.park r' x) c.tree := by
    refine isepW_mono ((isep_iff lt c).1 h.isep) ?_
    rintro r' x ⟨b, hb, hw⟩
    obtain ⟨j, hj⟩ := List.getElem?_of_mem hb
    by_cases e : j = t
    · subst e; rw [ht] at hj; cases hj; exact Or.inr hw
    · exact Or.inl ⟨j, b, e, hj, hw⟩
  -- what the thread's own stretch gives
  have main : OrdTree lt r.2.1.tree ∧ parkKPos lt r.2.1.tree r.1.park ∧
      StableRoutes lt (stepHeld th) c.tree r.2.1.tree ∧
      ISepW lt (fun r' x => othersWit c t r' x ∨ parkWit r.1.park r' x) r.2.1.tree := by
    have hfin : ∀ (T : Tree K V) (fuel : Nat) (s : St K V) (fl : Flow K V) (pc : Nat),
        (∀ p, fl = .park p → parkKPos lt T p) → parkKPos lt T (threadLoop t th fuel s fl pc).1.park := by
      intro T fuel s fl pc hfl
      rcases threadLoop_park t th fuel s fl pc with h | h | ⟨s1, op, h⟩
      · exact hfl _ h
      · rw [h]; trivial
      · exact startOp_kpos lt T t s1 op _ h
    have hwfin : ∀ (T : Tree K V) (fuel : Nat) (s : St K V) (fl : Flow K V) (pc : Nat),
        ISepW lt (fun r' x => othersWit c t r' x ∨ flowWit fl r' x) T →
        ISepW lt (fun r' x => othersWit c t r' x ∨ parkWit (threadLoop t th fuel s fl pc).1.park r' x) T := by
      intro T fuel s fl pc hI
      refine isepW_mono hI ?_
      rintro r' x (hw | hw)
      · exact Or.inl hw
      · cases fl with
        | park p => rw [threadLoop_park_of_park]; exact Or.inr hw
        | done _ => exact absurd hw id
        | panic => exact absurd hw id
    rw [hr]
    unfold runThread
    cases hp : th.park with
    | finished => exact absurd hp hnf
    | start =>
      simp only
      rw [hp] at hisep0
      have hI0 : ISepW lt (fun r' x => othersWit c t r' x) c.tree :=
        isepW_mono hisep0 (by rintro r' x (hw | hw); exact hw; exact absurd hw id)
      cases hop : th.prog[0]? with
      | none => exact ⟨hk.ord, trivial, StableRoutes.refl _ _ _, isepW_mono hI0 (fun _ _ hw => Or.inl hw)⟩
      | some op =>
        simp only
        have ht1 : (threadLoop t th th.prog.length (startOp t ((stepSt c t th).note t (.inv 0)) op).1
            (startOp t ((stepSt c t th).note t (.inv 0)) op).2 0).2.1.tree = c.tree := by
          rw [threadLoop_tree, startOp_tree]; rfl
        rw [ht1]
        exact ⟨hk.ord, hfin _ _ _ _ _ (fun p h => startOp_kpos lt _ t _ op p h), StableRoutes.refl _ _ _,
          isepW_mono hI0 (fun _ _ hw => Or.inl hw)⟩
    | want l k =>
      simp only
      rw [hp] at hisep0
      have hkpos : KPos lt c.tree k := by
        have := hk.pos th htm; rw [hp] at this; exact this
      have hko : KontOk c.tree k := by have := hsok.1; rw [hp] at this; exact this
      have hcur : CursorOk c.tree (isHopK k) th.cursor := by
        have := hsok.2; rw [hp, isHop_want] at this; exact this
      have hkpre : KontPre th.cursor k := by have := hok.2.1; rw [hp] at this; exact this
      have hcov := covers_of_ok (s0 := stepSt c t th) rfl hok k (Or.inr ⟨l, hp⟩)
      rw [threadLoop_tree]
      cases hdel : isDelK k with
      | false =>
        obtain ⟨hpost, hst⟩ := B.ku lt c.P t (stepSt c t th) k (stepHeld th) (holeOf c.threads) hdel hkp
          ⟨hS.tree, hS.order, hS.pad⟩ hko hcur hkpre hcov hk.ord hkpos
        have hI := B.iu lt c.P t (stepSt c t th) k (stepHeld th) (holeOf c.threads) (othersWit c t) hdel hkp
          ⟨hS.tree, hS.order, hS.pad⟩ hko hcur hkpre hcov hk.ord hkpos hwit hisep0
        exact ⟨hpost.ord, hfin _ _ _ _ _ hpost.kpos, hst, hwfin _ _ _ _ _ hI⟩
      | true =>
        have hhole : holeOf c.threads = kontHole k := by
          rw [hole_of_stepper hS ht hen (by rw [hp]; exact hdel), hp, parkHole_want]
        have hpre : Pre c.P (kontHole k) (stepSt c t th) := ⟨by rw [← hhole]; exact hS.tree, hS.order, hS.pad⟩
        have hI0 : ISepW lt (othersWit c t) c.tree := by
          refine isepW_mono hisep0 ?_
          rintro r' x (hw | hw)
          · exact hw
          · exfalso
            cases k <;> first | exact hw | (simp [isDelK] at hdel)
        have h4 : 4 ≤ (stepSt c t th).tree.order := hinv.four htm (by rw [hp]; exact hdel)
        obtain ⟨hpost, _⟩ := B.kd lt c.P t (stepSt c t th) k (stepHeld th) hdel h4 hkp hpre hko hkpre hcov hk.ord hkpos
        obtain ⟨hI, hst⟩ := B.id lt c.P t (stepSt c t th) k (stepHeld th) (othersWit c t) hdel h4 hkp hpre hko hkpre hcov
          hk.ord hkpos hwit hI0
        exact ⟨hpost.ord, hfin _ _ _ _ _ hpost.kpos, hst,
          hwfin _ _ _ _ _ (isepW_mono hI (fun _ _ hw => Or.inl hw))⟩
    | yielded k =>
      simp only
      rw [hp] at hisep0
      have hkpos : KPos lt c.tree k := by
        have := hk.pos th htm; rw [hp] at this; exact this
      have hko : KontOk c.tree k := by have := hsok.1; rw [hp] at this; exact this
      have hlock : kontLock k = none := by have := hok.2.2; rw [hp] at this; exact this
      have hhop : isHopK k = false := by
        cases k <;> first | rfl | (simp [kontLock] at hlock)
      have hdel : isDelK k = false := by
        cases k <;> first | rfl | (simp [kontLock] at hlock)
      have hcur : CursorOk c.tree (isHopK k) th.cursor := by
        have := hsok.2; rw [hp, isHop_yielded] at this; rw [hhop]; exact this
      have hkpre : KontPre th.cursor k := by have := hok.2.1; rw [hp] at this; exact this
      have hcov := covers_of_ok (s0 := stepSt c t th) rfl hok k (Or.inl hp)
      rw [threadLoop_tree]
      obtain ⟨hpost, hst⟩ := B.ku lt c.P t (stepSt c t th) k (stepHeld th) (holeOf c.threads) hdel hkp
        ⟨hS.tree, hS.order, hS.pad⟩ hko hcur hkpre hcov hk.ord hkpos
      have hI0 : ISepW lt (fun r' x => othersWit c t r' x ∨ kontWit k r' x) c.tree :=
        isepW_mono hisep0 (by rintro r' x (hw | hw); exact Or.inl hw; exact absurd hw id)
      have hI := B.iu lt c.P t (stepSt c t th) k (stepHeld th) (holeOf c.threads) (othersWit c t) hdel hkp
        ⟨hS.tree, hS.order, hS.pad⟩ hko hcur hkpre hcov hk.ord hkpos hwit hI0
      exact ⟨hpost.ord, hfin _ _ _ _ _ hpost.kpos, hst, hwfin _ _ _ _ _ hI⟩
  obtain ⟨hord, hnewpos, hst, hIw⟩ := main
  have hnewt : c'.threads[t]? = some r.1 := by
    rw [hths', List.getElem?_set_self']; rw [ht]; rfl
  refine ⟨hinv', ⟨by rw [htree']; exact hord, ?_⟩, ?_, by rw [hP']; exact hkp⟩
  · intro b hb
    obtain ⟨j, hj⟩ := List.getElem?_of_mem hb
    rw [hths'] at hj
    rcases getElem?_set_cases _ _ _ _ _ hj with ⟨_, e⟩ | ⟨hne, hjo⟩
    · rw [e, htree']; exact hnewpos
    · exact other_kpos lt hinv ht hjo hne hen hframe (by rw [htree']; exact hst) (hk.pos b (List.mem_of_getElem? hjo))
  · rw [isep_iff, htree']
    refine isepW_mono hIw ?_
    rintro r' x (⟨j, b, hne, hj, hw⟩ | hw)
    · refine ⟨b, ?_, hw⟩
      have : c'.threads[j]? = some b := by rw [hths', List.getElem?_set_ne (Ne.symm hne)]; exact hj
      exact List.mem_of_getElem? this
    · exact ⟨r.1, List.mem_of_getElem? hnewt, hw⟩

end Gobptree.Conc

namespace Gobptree.Conc
open Gobptree

variable {K V : Type}

/-- the separator invariant of a tree on which no operation is in flight -/
def SepTree (lt : K → K → Bool) (t : Tree K V) : Prop := ISepW lt (fun _ _ => False) t

theorem init_kfinv (lt : K → K → Bool) (P : Params K) (tree : Tree K V) (progs : List (List (COp K V)))
    (hkp : KParams lt P) (ht : TreeOk none tree) (hord : OrdTree lt tree) (hsep : SepTree lt tree)
    (ho : tree.order = P.order) (hp : PadOk P) (hd : Disciplined progs)
    (hdel : 4 ≤ tree.order ∨ NoDelete progs) :
    KFInv lt (Config.init P tree progs) := by
  have hths : ∀ th ∈ (Config.init P tree progs).threads,
      ∃ p ∈ progs, th = { prog := p, pc := 0, park := .start, held := [], cursor := none, exhausted := false } := by
    intro th hth
    simp only [Config.init, List.mem_map] at hth
    obtain ⟨p, hp, e⟩ := hth
    exact ⟨p, hp, e.symm⟩
  refine ⟨init_cinv P tree progs ht ho hp hd hdel, ⟨hord, ?_⟩, ?_, hkp⟩
  · intro th hth
    obtain ⟨p, _, e⟩ := hths th hth
    rw [e]; trivial
  · rw [isep_iff]
    exact isepW_mono hsep (fun _ _ h => absurd h id)

theorem reachable_kfinv (B : KBlocks K V) (lt : K → K → Bool) (P : Params K) (tree : Tree K V)
    (progs : List (List (COp K V)))
    (hkp : KParams lt P) (ht : TreeOk none tree) (hord : OrdTree lt tree) (hsep : SepTree lt tree)
    (ho : tree.order = P.order) (hp : PadOk P) (hd : Disciplined progs)
    (hdel : 4 ≤ tree.order ∨ NoDelete progs)
    (c : Config K V) (hr : Reachable (Config.init P tree progs) c) : KFInv lt c := by
  induction hr with
  | refl => exact init_kfinv lt P tree progs hkp ht hord hsep ho hp hd hdel
  | @step c1 c2 t _ hs ih => exact step_kfinv B lt c1 c2 t hs ih

/-- a fresh tree has no inner node: the separator invariant and the ordering hold trivially -/
theorem new_sepTree (lt : K → K → Bool) (o : Nat) : SepTree lt (Tree.new o : Tree K V) := by
  intro g j r sg sr s hg hk hr hpos hs
  exfalso
  have hm : (g, sg) ∈ (Tree.new o : Tree K V).flat := look_mem hg
  have : (g, sg) = (0, shallow (d := 0) ({ id := 0, keys := [], vals := [], next := none } : Leaf K V)) := by
    simpa [Tree.flat, Tree.new, flat] using hm
  have e : sg.kids = [] := by
    have := congrArg Prod.snd this
    simp only at this
    rw [this]; rfl
  rw [e] at hk
  simp at hk

theorem new_ordTree (lt : K → K → Bool) (o : Nat) : OrdTree lt (Tree.new o : Tree K V) := by
  show Ord lt 0 none none ({ id := 0, keys := [], vals := [], next := none } : Leaf K V)
  exact ⟨List.Pairwise.nil, fun k hk => by cases hk⟩

end Gobptree.Conc
