/-
  C04: cursors.  The part of the abstract map that lies AHEAD of an open cursor, and the
  invariant that it is exactly the pairs of the map beyond the cursor's bound.
-/
import Gobptree.Proofs.CKFull

namespace Gobptree.Conc
open Gobptree

variable {K V : Type}

def shPairs (sh : Shallow K V) : List (K × V) := sh.keys.zip sh.vals

/-- the pairs after position `i` of leaf `leaf`, followed by the pairs of all later leaves -/
def aheadIn (leaf : Nat) (i : Int) : List (Nat × Shallow K V) → List (K × V)
  | [] => []
  | p :: rest =>
    if p.1 = leaf then (shPairs p.2).drop (i + 1).toNat ++ rest.flatMap (fun q => shPairs q.2)
    else aheadIn leaf i rest

/-- what a cursor resting at `(leaf, i)` has still in front of it -/
def _root_.Gobptree.Tree.ahead (t : Tree K V) (leaf : Nat) (i : Int) : List (K × V) :=
  aheadIn leaf i (flatLeaves t.flat)

/-- what a cursor is bound by: the start key of `NewScanner` (inclusive) until the first
    `Scan` has returned a pair, afterwards the last key returned (exclusive) -/
inductive Bound (K : Type) where
  | ge (start : K)
  | gt (cur : K)

def Bound.admits (lt : K → K → Bool) : Bound K → K → Bool
  | .ge s, k => !lt k s
  | .gt c, k => lt c k

/-- position of an open cursor with respect to its bound `b`: the leaf is on the search path
    of the bound's key, and inside the leaf exactly the pairs after index `i` are admitted -/
def CurPos (lt : K → K → Bool) (t : Tree K V) (b : Bound K) (leaf : Nat) (i : Int) : Prop :=
  ∃ sh, t.look leaf = some sh ∧ sh.height = 0 ∧
    (∀ (j : Nat) (k : K), sh.keys[j]? = some k → (b.admits lt k = true ↔ i < (j : Int))) ∧
    match b with
    | .ge s => OnRoute lt t s leaf
    | .gt c => ∃ j : Nat, (j : Int) = i ∧ sh.keys[j]? = some c

/-- cursor invariant of a thread: some bound describes its open cursor -/
def CursorPos (lt : K → K → Bool) (t : Tree K V) (th : Thread K V) : Prop :=
  match th.cursor with
  | some (some leaf, i) => ∃ b, CurPos lt t b leaf i
  | _ => True

/-- what the invariant buys: ahead of the cursor lie exactly the admitted pairs of the map -/
def AheadSpec (lt : K → K → Bool) (t : Tree K V) (b : Bound K) (leaf : Nat) (i : Int) : Prop :=
  t.ahead leaf i = t.abs.filter (fun p => b.admits lt p.1)

end Gobptree.Conc
