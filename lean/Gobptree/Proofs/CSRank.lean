/-
  Every configuration satisfying the structural invariant `SInv` is ranked by `posRank`
  (rootMutex, then the nodes level by level from the root, each level in pre-order):
  a thread parked at a `Lock()` call waits for a mutex ranked strictly above all it holds.
  With `ranked_not_deadlocked` this is deadlock freedom of lock coupling.
-/
import Gobptree.Proofs.CSFlatFacts
import Gobptree.Proofs.ConcRank

namespace Gobptree.Conc
open Gobptree

variable {K V : Type}

/-! ### looking nodes up in the flat view -/

theorem look_mem {t : Tree K V} {id : Nat} {sh : Shallow K V} (h : t.look id = some sh) :
    (id, sh) ∈ t.flat := mem_of_lookup _ _ _ h

theorem mem_look {t : Tree K V} (hi : IdsOk t) {id : Nat} {sh : Shallow K V} (h : (id, sh) ∈ t.flat) :
    t.look id = some sh := lookup_of_mem _ _ _ hi.1 h

theorem look_height_le {t : Tree K V} {id : Nat} {sh : Shallow K V} (h : t.look id = some sh) :
    sh.height ≤ t.depth := flat_height_le t.root _ (look_mem h)

theorem look_root {t : Tree K V} (hi : IdsOk t) : t.look t.rootId = some (shallow t.root) :=
  mem_look hi (self_mem_flat t.root)

theorem kidAt_look {t : Tree K V} {p j c : Nat} (h : t.kidAt p j = some c) :
    ∃ sh, t.look p = some sh ∧ sh.kids[j]? = some c := by
  unfold Tree.kidAt at h
  cases hl : t.look p with
  | none => rw [hl] at h; cases h
  | some sh => rw [hl] at h; exact ⟨sh, rfl, h⟩

/-- a child is a node of the tree, one level below its parent -/
theorem kid_look {t : Tree K V} (hi : IdsOk t) {p j c : Nat} {sh : Shallow K V}
    (h : t.kidAt p j = some c) (hp : t.look p = some sh) :
    ∃ shc, t.look c = some shc ∧ shc.height + 1 = sh.height := by
  obtain ⟨sh', hp', hj⟩ := kidAt_look h
  rw [hp] at hp'
  cases hp'
  obtain ⟨shc, hc, hh⟩ := flat_kid t.root p sh j c (look_mem hp) hj
  exact ⟨shc, mem_look hi hc, hh⟩

/-- two children of a node: same level, in the order of the `kids` array -/
theorem sib_look {t : Tree K V} (hi : IdsOk t) {p j j' a b : Nat}
    (ha : t.kidAt p j = some a) (hb : t.kidAt p j' = some b) (hlt : j < j') :
    ∃ sha shb, t.look a = some sha ∧ t.look b = some shb ∧ sha.height = shb.height ∧
      t.ids.idxOf a < t.ids.idxOf b := by
  obtain ⟨sh, hp, hj⟩ := kidAt_look ha
  obtain ⟨sh', hp', hj'⟩ := kidAt_look hb
  rw [hp] at hp'
  cases hp'
  obtain ⟨sha, shb, hs, h1, h2⟩ := flat_siblings t.root p sh j j' a b (look_mem hp) hj hj' hlt
  refine ⟨sha, shb, mem_look hi (hs.subset (by simp)), mem_look hi (hs.subset (by simp)), by omega, ?_⟩
  have hm : [a, b].Sublist t.ids := by
    have := hs.map Prod.fst
    simpa [Tree.ids, Tree.flat] using this
  exact idxOf_lt_of_pair_sublist hm hi.1

/-! ### rank lemmas -/

theorem posRank_node {t : Tree K V} {id : Nat} {sh : Shallow K V} (h : t.look id = some sh) :
    posRank t (.node id) = 1 + (t.depth - sh.height) * (t.ids.length + 1) + t.ids.idxOf id := by
  simp only [posRank, h]

theorem posRank_tree (t : Tree K V) : posRank t .tree = 0 := rfl

theorem rank_pos {t : Tree K V} {id : Nat} {sh : Shallow K V} (h : t.look id = some sh) :
    posRank t .tree < posRank t (.node id) := by
  rw [posRank_node h, posRank_tree]
  omega

theorem rank_lt_of_height {t : Tree K V} {a b : Nat} {sa sb : Shallow K V}
    (ha : t.look a = some sa) (hb : t.look b = some sb) (hlt : sb.height < sa.height) :
    posRank t (.node a) < posRank t (.node b) := by
  rw [posRank_node ha, posRank_node hb]
  have hle := look_height_le ha
  have hidx : t.ids.idxOf a ≤ t.ids.length := List.idxOf_le_length
  have hmul : (t.depth - sa.height + 1) * (t.ids.length + 1) ≤ (t.depth - sb.height) * (t.ids.length + 1) :=
    Nat.mul_le_mul_right _ (by omega)
  rw [Nat.add_mul, Nat.one_mul] at hmul
  omega

theorem rank_lt_of_idx {t : Tree K V} {a b : Nat} {sa sb : Shallow K V}
    (ha : t.look a = some sa) (hb : t.look b = some sb) (hh : sa.height = sb.height)
    (hlt : t.ids.idxOf a < t.ids.idxOf b) :
    posRank t (.node a) < posRank t (.node b) := by
  rw [posRank_node ha, posRank_node hb, hh]
  omega

theorem kid_rank {t : Tree K V} (hi : IdsOk t) {p j c : Nat} (h : t.kidAt p j = some c) :
    posRank t (.node p) < posRank t (.node c) := by
  obtain ⟨sh, hp, _⟩ := kidAt_look h
  obtain ⟨shc, hc, hh⟩ := kid_look hi h hp
  exact rank_lt_of_height hp hc (by omega)

theorem sib_rank {t : Tree K V} (hi : IdsOk t) {p j j' a b : Nat}
    (ha : t.kidAt p j = some a) (hb : t.kidAt p j' = some b) (hlt : j < j') :
    posRank t (.node a) < posRank t (.node b) := by
  obtain ⟨sha, shb, h1, h2, hh, hidx⟩ := sib_look hi ha hb hlt
  exact rank_lt_of_idx h1 h2 hh hidx

/-- the leaf chain runs along the pre-order -/
theorem next_rank {t : Tree K V} (hi : IdsOk t) (hc : ChainOk t) {cur nx : Nat} {sh : Shallow K V}
    (hl : t.look cur = some sh) (h0 : sh.height = 0) (hn : sh.next = some nx) :
    posRank t (.node cur) < posRank t (.node nx) := by
  have hmem : (cur, sh) ∈ flatLeaves t.flat := by
    unfold flatLeaves
    exact List.mem_filter.mpr ⟨look_mem hl, by simp [h0]⟩
  obtain ⟨q, hq, hs⟩ := chain_next _ (cur, sh) nx hc hmem hn
  have hqm : q ∈ flatLeaves t.flat := hs.subset (by simp)
  unfold flatLeaves at hqm
  obtain ⟨hqf, hq0⟩ := List.mem_filter.mp hqm
  have hq0' : q.2.height = 0 := by simpa using hq0
  obtain ⟨qi, qs⟩ := q
  simp only at hq hq0'
  subst hq
  have hlq : t.look qi = some qs := mem_look hi hqf
  have hs' : [(cur, sh), (qi, qs)].Sublist t.flat := hs.trans List.filter_sublist
  have hm : [cur, qi].Sublist t.ids := by
    have := hs'.map Prod.fst
    simpa [Tree.ids] using this
  exact rank_lt_of_idx hl hlq (by omega) (idxOf_lt_of_pair_sublist hm hi.1)

/-! ### the locks of a running Delete -/

/-- `l` is the mutex of a node of the tree at level `h` or above -/
def HighLock (t : Tree K V) (h : Nat) (l : Lk) : Prop :=
  ∃ id sh, l = .node id ∧ t.look id = some sh ∧ h ≤ sh.height

theorem HighLock.mono {t : Tree K V} {h h' : Nat} {l : Lk} (hl : HighLock t h l) (hle : h' ≤ h) :
    HighLock t h' l := by
  obtain ⟨id, sh, e, hk, hh⟩ := hl
  exact ⟨id, sh, e, hk, Nat.le_trans hle hh⟩

theorem high_rank {t : Tree K V} {h : Nat} {l : Lk} (hl : HighLock t h l) {w : Nat} {sw : Shallow K V}
    (hw : t.look w = some sw) (hlt : sw.height < h) : posRank t l < posRank t (.node w) := by
  obtain ⟨id, sh, rfl, hk, hh⟩ := hl
  exact rank_lt_of_height hk hw (by omega)

theorem root_high {t : Tree K V} (hi : IdsOk t) {id : Nat} {sh : Shallow K V} (h : t.look id = some sh) :
    HighLock t sh.height (.node t.rootId) :=
  ⟨t.rootId, shallow t.root, rfl, look_root hi, by rw [shallow_height]; exact look_height_le h⟩

/-- the activation records of a Delete hold only nodes at the level of the node the
    innermost activation runs on, or above -/
theorem frames_high {t : Tree K V} (hi : IdsOk t) :
    ∀ (frames : List Frame) (top : Nat), FramesOk t t.rootId frames top →
      ∃ sht, t.look top = some sht ∧ ∀ l ∈ framesHeld frames, HighLock t sht.height l := by
  intro frames
  induction frames with
  | nil =>
    intro top h
    simp only [FramesOk] at h
    subst h
    exact ⟨shallow t.root, look_root hi, by intro l hl; cases hl⟩
  | cons fr rest ih =>
    intro top h
    obtain ⟨htop, hfr, hrest⟩ := h
    obtain ⟨shn, hn, hhigh⟩ := ih fr.node hrest
    obtain ⟨hkid, hleft⟩ := hfr
    obtain ⟨shc, hc, hh⟩ := kid_look hi hkid hn
    subst htop
    refine ⟨shc, hc, ?_⟩
    intro l hl
    simp only [framesHeld, List.mem_append, List.mem_singleton] at hl
    rcases hl with hl | hl | hl
    · exact (hhigh l hl).mono (by omega)
    · cases hfl : fr.left with
      | none => rw [hfl] at hl; cases hl
      | some lf =>
        rw [hfl] at hl hleft
        simp only [optLock, List.mem_singleton] at hl
        obtain ⟨shl, hll, hlh⟩ := kid_look hi hleft.2 hn
        exact ⟨lf, shl, hl, hll, by omega⟩
    · exact ⟨fr.child, shc, hl, hc, Nat.le_refl _⟩

/-! ### every continuation wants a mutex above those it holds -/

theorem kont_ranked (t : Tree K V) (hi : IdsOk t) (hch : ChainOk t) (cur : Option (Option Nat × Int)) :
    ∀ (k : Kont K V) (l : Lk), KontOk t k → kontLock k = some l → KontPre cur k →
      ∀ hd ∈ cursorLocks cur ++ kontHeld k, posRank t hd < posRank t l := by
  intro k l hk hl hpre hd hhd
  cases k with
  | roTree sc key =>
    have hc : cursorLocks cur = [] := hpre
    simp [hc, kontHeld] at hhd
  | roNode sc key hold want =>
    have hc : cursorLocks cur = [] := hpre
    simp only [hc, kontHeld, List.nil_append, List.mem_singleton] at hhd
    simp only [kontLock, Option.some.injEq] at hl
    subst hl hhd
    cases hd with
    | tree =>
      have hk' : want = t.rootId := hk
      subst hk'
      exact rank_pos (look_root hi)
    | node p =>
      obtain ⟨i, hk'⟩ : ∃ i, t.kidAt p i = some want := hk
      exact kid_rank hi hk'
  | upTree key f y =>
    have hc : cursorLocks cur = [] := hpre
    simp [hc, kontHeld] at hhd
  | upRoot key f y r =>
    have hc : cursorLocks cur = [] := hpre
    simp only [hc, kontHeld, List.nil_append, List.mem_singleton] at hhd
    simp only [kontLock, Option.some.injEq] at hl
    have hk' : r = t.rootId := hk
    subst hl hhd hk'
    exact rank_pos (look_root hi)
  | upRootSib key f y root sib =>
    have hc : cursorLocks cur = [] := hpre
    simp only [hc, kontHeld, List.nil_append, List.mem_cons, List.not_mem_nil, or_false] at hhd
    simp only [kontLock, Option.some.injEq] at hl
    subst hl
    obtain ⟨⟨sh, hsh, hkids⟩, _, _⟩ := hk
    have h0 : t.kidAt t.rootId 0 = some root := by simp [Tree.kidAt, hsh, hkids]
    have h1 : t.kidAt t.rootId 1 = some sib := by simp [Tree.kidAt, hsh, hkids]
    rcases hhd with rfl | rfl
    · obtain ⟨shc, hc', _⟩ := kid_look hi h1 hsh
      exact rank_pos hc'
    · exact sib_rank hi h0 h1 (by omega)
  | upChild key f y parent index child =>
    have hc : cursorLocks cur = [] := hpre
    simp only [hc, kontHeld, List.nil_append, List.mem_singleton] at hhd
    simp only [kontLock, Option.some.injEq] at hl
    subst hl hhd
    exact kid_rank hi hk.1
  | upSib key f y parent child sib =>
    have hc : cursorLocks cur = [] := hpre
    simp only [hc, kontHeld, List.nil_append, List.mem_cons, List.not_mem_nil, or_false] at hhd
    simp only [kontLock, Option.some.injEq] at hl
    subst hl
    obtain ⟨⟨i, hci, hsi⟩, _, _⟩ := hk
    rcases hhd with rfl | rfl
    · exact kid_rank hi hsi
    · exact sib_rank hi hci hsi (by omega)
  | upCallback key f leaf arg => cases hl
  | delTree key =>
    have hc : cursorLocks cur = [] := hpre
    simp [hc, kontHeld] at hhd
  | delRoot key r =>
    have hc : cursorLocks cur = [] := hpre
    simp only [hc, kontHeld, List.nil_append, List.mem_singleton] at hhd
    simp only [kontLock, Option.some.injEq] at hl
    have hk' : r = t.rootId := hk
    subst hl hhd hk'
    exact rank_pos (look_root hi)
  | delLeft key frames node index left root =>
    have hc : cursorLocks cur = [] := hpre
    simp only [hc, kontHeld, List.nil_append, List.mem_cons] at hhd
    simp only [kontLock, Option.some.injEq] at hl
    subst hl
    obtain ⟨hr, hfr, _, hleft, _⟩ := hk
    subst hr
    obtain ⟨shn, hn, hhigh⟩ := frames_high hi frames node hfr
    obtain ⟨shl, hll, hlh⟩ := kid_look hi hleft hn
    rcases hhd with rfl | rfl | hhd
    · exact rank_pos hll
    · exact high_rank (root_high hi hn) hll (by omega)
    · exact high_rank (hhigh hd hhd) hll (by omega)
  | delChild key frames node index left child root =>
    have hc : cursorLocks cur = [] := hpre
    simp only [hc, kontHeld, List.nil_append, List.mem_cons, List.mem_append] at hhd
    simp only [kontLock, Option.some.injEq] at hl
    subst hl
    obtain ⟨hr, hfr, hkid, hleft⟩ := hk
    subst hr
    simp only at hkid hleft
    obtain ⟨shn, hn, hhigh⟩ := frames_high hi frames node hfr
    obtain ⟨shc, hcl, hch'⟩ := kid_look hi hkid hn
    rcases hhd with rfl | rfl | hhd | hhd
    · exact rank_pos hcl
    · exact high_rank (root_high hi hn) hcl (by omega)
    · exact high_rank (hhigh hd hhd) hcl (by omega)
    · cases left with
      | none => cases hhd
      | some lf =>
        simp only [optLock, List.mem_singleton] at hhd
        subst hhd
        simp only at hleft
        exact sib_rank hi hleft.2 hkid (by omega)
  | delRight key rest fr right root =>
    have hc : cursorLocks cur = [] := hpre
    simp only [hc, kontHeld, framesHeld, List.nil_append, List.mem_cons, List.mem_append,
      List.not_mem_nil, or_false] at hhd
    simp only [kontLock, Option.some.injEq] at hl
    subst hl
    obtain ⟨hr, ⟨_, ⟨hkid, hleft⟩, hrest⟩, hright, _⟩ := hk
    subst hr
    obtain ⟨shn, hn, hhigh⟩ := frames_high hi rest fr.node hrest
    obtain ⟨shr, hrl, hrh⟩ := kid_look hi hright hn
    rcases hhd with rfl | rfl | hhd | hhd | rfl
    · exact rank_pos hrl
    · exact high_rank (root_high hi hn) hrl (by omega)
    · exact high_rank (hhigh hd hhd) hrl (by omega)
    · cases hfl : fr.left with
      | none => rw [hfl] at hhd; cases hhd
      | some lf =>
        rw [hfl] at hhd hleft
        simp only [optLock, List.mem_singleton] at hhd
        subst hhd
        exact sib_rank hi hleft.2 hright (by omega)
    · exact sib_rank hi hkid hright (by omega)
  | hop c next =>
    have hc : cursorLocks cur = [.node c] := hpre
    simp only [hc, kontHeld, List.append_nil, List.mem_singleton] at hhd
    simp only [kontLock, Option.some.injEq] at hl
    subst hl hhd
    obtain ⟨sh, hsh, h0, hn⟩ := hk
    exact next_rank hi hch hsh h0 hn
  | paused => cases hl

/-- **the structural invariant implies the lock ranking** -/
theorem sinv_ranked (c : Config K V) (h : SInv c) : Ranked (posRank c.tree) c := by
  intro th hmem l k hp hd hhd
  obtain ⟨hperm, hpre, hlock⟩ := h.cfg th hmem
  have hs := (h.threads th hmem).1
  rw [hp] at hperm hpre hlock hs
  exact kont_ranked c.tree h.tree.ids h.tree.chain th.cursor k l hs hlock hpre hd (hperm.mem_iff.mp hhd)

end Gobptree.Conc

#print axioms Gobptree.Conc.sinv_ranked
