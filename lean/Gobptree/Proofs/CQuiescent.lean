/-
  Every tree left behind by ANY completed concurrent execution is a valid initial tree: the
  hypotheses of the concurrent theorems are closed under running programs to completion.
-/
import Gobptree.Proofs.CFinal2

namespace Gobptree.Conc
open Gobptree

variable {K V : Type}

/-- no operation is in flight (every thread has not started or has finished) -/
def AtRest (c : Config K V) : Prop := ∀ th ∈ c.threads, th.park = .start ∨ th.park = .finished

theorem rest_tree_ok (lt : K → K → Bool) (c : Config K V) (h : KFInv lt c) (hq : AtRest c) :
    TreeOk none c.tree ∧ OrdTree lt c.tree ∧ SepTree lt c.tree := by
  have hhole : holeOf c.threads = none := by
    apply holeOf_all_none
    intro b hb
    rcases hq b hb with e | e <;> rw [e] <;> rfl
  refine ⟨by have := h.cinv.s.tree; rw [hhole] at this; exact this, h.kinv.ord, ?_⟩
  have hI := (isep_iff lt c).1 h.isep
  refine isepW_mono hI ?_
  rintro r x ⟨th, hth, hw⟩
  rcases hq th hth with e | e <;> rw [e] at hw <;> exact hw

theorem reachable_P (P : Params K) (tree : Tree K V) (progs : List (List (COp K V))) (c : Config K V)
    (hr : Reachable (Config.init P tree progs) c) : c.P = P := by
  induction hr with
  | refl => rfl
  | @step c1 c2 t _ hs ih =>
    obtain ⟨th, _, _, r', _, hc'⟩ := step_shape hs
    rw [hc']; exact ih

/-- **closure**: the tree of any reachable configuration at rest can serve as the initial tree
    of a new family of programs — all concurrent theorems apply again from there -/
theorem reachable_rest_tree_ok (lt : K → K → Bool) (P : Params K) (tree : Tree K V) (progs : List (List (COp K V)))
    (hkp : KParams lt P) (ht : TreeOk none tree) (hord : OrdTree lt tree) (hsep : SepTree lt tree)
    (ho : tree.order = P.order) (hp : PadOk P) (hd : Disciplined progs) (hdel : 4 ≤ tree.order ∨ NoDelete progs)
    (c : Config K V) (hr : Reachable (Config.init P tree progs) c) (hq : AtRest c) :
    TreeOk none c.tree ∧ OrdTree lt c.tree ∧ SepTree lt c.tree ∧ c.tree.order = P.order :=
  let h := reachable_kfinv' lt P tree progs hkp ht hord hsep ho hp hd hdel c hr
  let r := rest_tree_ok lt c h hq
  ⟨r.1, r.2.1, r.2.2, by rw [h.cinv.s.order, reachable_P P tree progs c hr]⟩

end Gobptree.Conc
#print axioms Gobptree.Conc.reachable_rest_tree_ok
