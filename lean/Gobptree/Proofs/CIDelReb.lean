/-
  Separator invariant for Delete, part 6: `rebalance` on an inner node that satisfies the
  separator invariant (by equivalence at the window it rewrites) yields a node that satisfies
  it, with the same first separator, and keeps every key's path below the node except for
  the node itself and the siblings involved.  (Same case analysis as `rebalance_node`.)
-/
import Gobptree.Proofs.CIDelWin

namespace Gobptree.Conc
open Gobptree

variable {K V : Type} {lt : K → K → Bool}

/-- what the separator layer needs of a rebalanced node -/
def RebI (lt : K → K → Bool) (Wit : Nat → K → Prop) {d : Nat} (i : Inner K (Node K V d)) (index : Nat)
    (i' : Inner K (Node K V d)) : Prop :=
  i'.runts.head? = i.runts.head? ∧ SepN lt Wit (d + 1) i' ∧
  ∀ key x, x ∈ rids lt key (d + 1) i → x ≠ i.id →
    (∀ j k, i.kids[j]? = some k → index ≤ j + 1 → j ≤ index + 1 → x ≠ Node.id k) →
    x ∈ rids lt key (d + 1) i'

theorem rebalance_inode_left (h : SWO lt) (P : Params K) (hp : PadOk P) (o : Nat) {d : Nat}
    (i : Inner K (Node K V d)) (index : Nat) (child : Node K V d) (hin : RebIn o i index child)
    (lo hi : Option K) (hO : Ord lt (d + 1) lo hi i) (hPar : ParN (d + 1) i)
    (Wit : Nat → K → Prop) (hsep : SepN lt Wit (d + 1) i)
    (hWk : ∀ j k, i.kids[j]? = some k → index ≤ j + 1 → j ≤ index + 1 → ∀ x, ¬ Wit (Node.id k) x)
    (hnoR : index + 1 < i.runts.length → ∃ right, i.kids[index + 1]? = some right ∧ Node.count right ≤ o / 2)
    (hL : 0 < index)
    (i' : Inner K (Node K V d)) (small' : Bool)
    (heval : rebalance P {} (o / 2) i index child = .ok (i', small')) : RebI lt Wit i index i' := by
  obtain ⟨hlen, hidk, hh2, hoo, hcc⟩ := hin.lens
  obtain ⟨j, rfl⟩ : ∃ j, index = j + 1 := ⟨index - 1, by omega⟩
  obtain ⟨left, hleft⟩ : ∃ l, i.kids[j]? = some l := ⟨i.kids[j]'(by omega), List.getElem?_eq_getElem _⟩
  have hlo := hin.kocc j left hleft (by omega)
  obtain ⟨rA, rB, A, B, k1, k2, hr, hk, hl, hlB, hA⟩ := pair_setup i hPar j left child hleft hin.hc
  obtain ⟨hKA, hO1, h12, hO2, h2n, hKB⟩ := parent_split2 i lo hi rA rB A B k1 k2 left child hr hk hl hO
  have hPl : ParN d left := hPar.2.2 left (List.mem_of_getElem? hleft)
  have hPc : ParN d child := hPar.2.2 child (List.mem_of_getElem? hin.hc)
  have hlc1 := hlo.1
  have hlc2 := hlo.2.1
  subst hA
  have hfinal : ∀ (x : Nat),
      (∀ j k, i.kids[j]? = some k → A.length + 1 ≤ j + 1 → j ≤ A.length + 1 + 1 → x ≠ Node.id k) →
      x ≠ Node.id left ∧ x ≠ Node.id child :=
    fun x hx => ⟨hx A.length left hleft (by omega) (by omega), hx (A.length + 1) child hin.hc (by omega) (by omega)⟩
  have hW2 : ∀ x, ¬ Wit (Node.id child) x := hWk (A.length + 1) child hin.hc (by omega) (by omega)
  by_cases hLc : Node.count left > o / 2
  · obtain ⟨l', c', sm, hadopt, hsm, out⟩ :=
      adoptFromLeft_pair h P hp left child k1 k2 (nextLo hi (rB.zip B)) hO1 hO2 h2n hlo.par hin.cocc.par hPl hPc
        (by omega) (count_child_pos hin)
    have sh := adoptFromLeft_shape P left child l' c' sm hlo.par hin.cocc.par (by omega) (count_child_pos hin)
      hadopt hsm
    have hev := reb_borrowL P (o / 2) i (A.length + 1) child left l' c' sm hnoR hL (by simpa using hleft) hLc
      hadopt hsm (by omega)
    rw [hev] at heval
    injection heval with heval
    injection heval with e1 _
    have hshape : i' = (Inner.mk i.id (rA ++ k1 :: sm :: rB) (A ++ l' :: c' :: B) : Inner K (Node K V d)) := by
      rw [← e1, Nat.add_sub_cancel, hr, hk, ← hl, form_set_next, hl, form_set_pivot, form_set_next]
    obtain ⟨r1, r2, r3⟩ := parent_borrow_I h Wit i lo hi rA rB A B k1 k2 sm left child l' c' hr hk hl hlB hO hPar
      out sh i' hshape hsep hW2
    exact ⟨r1, r2, fun key x hx hne hx' => r3 key x hx hne (hfinal x hx').1 (hfinal x hx').2⟩
  · obtain ⟨m, habs, out⟩ :=
      absorbRight_pair h left child k1 k2 (nextLo hi (rB.zip B)) hO1 hO2 h12 h2n hlo.par hin.cocc.par hPl hPc
        (hin.chain_window A B left child hk)
    have sh := absorbRight_shape left child m habs
    have hev := reb_mergeL P (o / 2) i (A.length + 1) child left m hnoR hL (by simpa using hleft) (by omega)
      (by rw [count_eqD]; omega) habs (by omega) (by omega)
    rw [hev] at heval
    injection heval with heval
    injection heval with e1 _
    have hshape : i' = (Inner.mk i.id (rA ++ k1 :: rB) (A ++ m :: B) : Inner K (Node K V d)) := by
      rw [← e1, Nat.add_sub_cancel, hr, hk, ← hl, form_delete_next, hl, form_set_pivot, form_delete_next]
    obtain ⟨r1, r2, r3⟩ := parent_merge_I h Wit i lo hi rA rB A B k1 k2 left child m hr hk hl hlB hO hPar
      out sh i' hshape hsep hW2
    exact ⟨r1, r2, fun key x hx hne hx' => r3 key x hx hne (hfinal x hx').1 (hfinal x hx').2⟩

/-- **`rebalance` at the separator level** -/
theorem rebalance_inode (h : SWO lt) (P : Params K) (hp : PadOk P) (o : Nat) {d : Nat}
    (i : Inner K (Node K V d)) (index : Nat) (child : Node K V d) (hin : RebIn o i index child)
    (lo hi : Option K) (hO : Ord lt (d + 1) lo hi i) (hPar : ParN (d + 1) i)
    (Wit : Nat → K → Prop) (hsep : SepN lt Wit (d + 1) i)
    (hWk : ∀ j k, i.kids[j]? = some k → index ≤ j + 1 → j ≤ index + 1 → ∀ x, ¬ Wit (Node.id k) x)
    (i' : Inner K (Node K V d)) (small' : Bool)
    (heval : rebalance P {} (o / 2) i index child = .ok (i', small')) : RebI lt Wit i index i' := by
  obtain ⟨hlen, hidk, hh2, hoo, hcc⟩ := hin.lens
  by_cases hR : index + 1 < i.runts.length
  · obtain ⟨right, hright⟩ : ∃ r, i.kids[index + 1]? = some r :=
      ⟨i.kids[index + 1]'(by omega), List.getElem?_eq_getElem _⟩
    have hro := hin.kocc (index + 1) right hright (by omega)
    have hW2 : ∀ x, ¬ Wit (Node.id right) x := hWk (index + 1) right hright (by omega) (by omega)
    by_cases hRc : Node.count right > o / 2
    · obtain ⟨rA, rB, A, B, k1, k2, hr, hk, hl, hlB, hA⟩ := pair_setup i hPar index child right hin.hc hright
      obtain ⟨hKA, hO1, h12, hO2, h2n, hKB⟩ := parent_split2 i lo hi rA rB A B k1 k2 child right hr hk hl hO
      have hPc : ParN d child := hPar.2.2 child (List.mem_of_getElem? hin.hc)
      have hPr : ParN d right := hPar.2.2 right (List.mem_of_getElem? hright)
      subst hA
      obtain ⟨c', r', sm, hadopt, hsm, out⟩ :=
        adoptFromRight_pair h child right k1 k2 (nextLo hi (rB.zip B)) hO1 hO2 h12 hin.cocc.par hro.par hPc hPr
          (by omega)
      have sh := adoptFromRight_shape child right c' r' sm hin.cocc.par hro.par (by omega) hadopt hsm
      have hev := reb_borrowR P (o / 2) i A.length child right c' r' sm hR hright hRc hadopt hsm
      rw [hev] at heval
      injection heval with heval
      injection heval with e1 _
      have hshape : i' = (Inner.mk i.id (rA ++ k1 :: sm :: rB) (A ++ c' :: r' :: B) : Inner K (Node K V d)) := by
        rw [← e1, hr, hk, ← hl, form_set_next, hl, form_set_pivot, form_set_next]
      obtain ⟨r1, r2, r3⟩ := parent_borrow_I h Wit i lo hi rA rB A B k1 k2 sm child right c' r' hr hk hl hlB hO hPar
        out sh i' hshape hsep hW2
      exact ⟨r1, r2, fun key x hx hne hx' => r3 key x hx hne (hx' A.length child hin.hc (by omega) (by omega))
        (hx' (A.length + 1) right hright (by omega) (by omega))⟩
    · by_cases hL : 0 < index
      · exact rebalance_inode_left h P hp o i index child hin lo hi hO hPar Wit hsep hWk
          (fun _ => ⟨right, hright, by omega⟩) hL i' small' heval
      · obtain ⟨rA, rB, A, B, k1, k2, hr, hk, hl, hlB, hA⟩ := pair_setup i hPar index child right hin.hc hright
        obtain ⟨hKA, hO1, h12, hO2, h2n, hKB⟩ := parent_split2 i lo hi rA rB A B k1 k2 child right hr hk hl hO
        have hPc : ParN d child := hPar.2.2 child (List.mem_of_getElem? hin.hc)
        have hPr : ParN d right := hPar.2.2 right (List.mem_of_getElem? hright)
        subst hA
        obtain ⟨m, habs, out⟩ :=
          absorbRight_pair h child right k1 k2 (nextLo hi (rB.zip B)) hO1 hO2 h12 h2n hin.cocc.par hro.par hPc hPr
            (hin.chain_window A B child right hk)
        have sh := absorbRight_shape child right m habs
        have hrc := hro.2.1
        have hev := reb_mergeR P (o / 2) i A.length child right m hR hright (by omega)
          (by rw [count_eqD]; omega) (by omega) habs (by omega)
        rw [hev] at heval
        injection heval with heval
        injection heval with e1 _
        have hshape : i' = (Inner.mk i.id (rA ++ k1 :: rB) (A ++ m :: B) : Inner K (Node K V d)) := by
          rw [← e1, hr, hk, ← hl, form_delete_next, hl, form_set_pivot, form_delete_next]
        obtain ⟨r1, r2, r3⟩ := parent_merge_I h Wit i lo hi rA rB A B k1 k2 child right m hr hk hl hlB hO hPar
          out sh i' hshape hsep hW2
        exact ⟨r1, r2, fun key x hx hne hx' => r3 key x hx hne (hx' A.length child hin.hc (by omega) (by omega))
          (hx' (A.length + 1) right hright (by omega) (by omega))⟩
  · have := hin.two
    exact rebalance_inode_left h P hp o i index child hin lo hi hO hPar Wit hsep hWk
      (fun h' => absurd h' hR) (by omega) i' small' heval

end Gobptree.Conc
