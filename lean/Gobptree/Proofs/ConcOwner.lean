/-
  Mutual exclusion: the owner table and the threads' held lists agree, and no mutex
  is owned twice — in every reachable configuration.

  Method: after the one acquisition at its start, the code of a step only RELEASES
  (`RelOnly`); this is read off every block of Conc.lean.
-/
import Gobptree.Proofs.ConcReach

namespace Gobptree.Conc
open Gobptree

variable {K V : Type}

def eraseAllO (t : Nat) (o : List (Lk × Nat)) (ls : List Lk) : List (Lk × Nat) :=
  ls.foldl (fun o l => o.erase (l, t)) o

def eraseAllH (h : List Lk) (ls : List Lk) : List Lk :=
  ls.foldl (fun h l => h.erase l) h

/-- `s'` is obtained from `s` by releases of thread `t` (and changes to other fields) -/
def RelOnly (t : Nat) (s s' : St K V) : Prop :=
  ∃ ls, s'.owner = eraseAllO t s.owner ls ∧ s'.held = eraseAllH s.held ls

theorem RelOnly.refl (t : Nat) (s : St K V) : RelOnly t s s := ⟨[], rfl, rfl⟩

theorem RelOnly.of_eq {t : Nat} {s s1 s' : St K V} (h : RelOnly t s s1)
    (ho : s'.owner = s1.owner) (hh : s'.held = s1.held) : RelOnly t s s' := by
  obtain ⟨ls, h1, h2⟩ := h
  exact ⟨ls, by rw [ho, h1], by rw [hh, h2]⟩

theorem RelOnly.rel {t : Nat} {s s1 : St K V} (l : Lk) (h : RelOnly t s s1) : RelOnly t s (s1.rel t l) := by
  obtain ⟨ls, h1, h2⟩ := h
  refine ⟨ls ++ [l], ?_, ?_⟩
  · show s1.owner.erase (l, t) = _
    rw [h1]; simp [eraseAllO, List.foldl_append]
  · show s1.held.erase l = _
    rw [h2]; simp [eraseAllH, List.foldl_append]

theorem RelOnly.note {t : Nat} {s s1 : St K V} (n : Note K V) (h : RelOnly t s s1) : RelOnly t s (s1.note t n) :=
  h.of_eq rfl rfl

theorem RelOnly.trans {t : Nat} {s s1 s2 : St K V} (h1 : RelOnly t s s1) (h2 : RelOnly t s1 s2) : RelOnly t s s2 := by
  obtain ⟨l1, a1, b1⟩ := h1
  obtain ⟨l2, a2, b2⟩ := h2
  refine ⟨l1 ++ l2, ?_, ?_⟩
  · rw [a2, a1]; simp [eraseAllO, List.foldl_append]
  · rw [b2, b1]; simp [eraseAllH, List.foldl_append]

theorem RelOnly.relOpt {t : Nat} {s s1 : St K V} (o : Option Nat) (h : RelOnly t s s1) : RelOnly t s (relOpt t s1 o) := by
  cases o with
  | none => exact h
  | some r => exact h.rel _

theorem RelOnly.setTree {t : Nat} {s s1 : St K V} (tr : Tree K V) (h : RelOnly t s s1) :
    RelOnly t s { s1 with tree := tr } := h.of_eq rfl rfl

theorem RelOnly.setCursor {t : Nat} {s s1 : St K V} (c : Option (Option Nat × Int)) (e : Bool)
    (h : RelOnly t s s1) : RelOnly t s { s1 with cursor := c, exhausted := e } := h.of_eq rfl rfl

theorem RelOnly.setCursor' {t : Nat} {s s1 : St K V} (c : Option (Option Nat × Int))
    (h : RelOnly t s s1) : RelOnly t s { s1 with cursor := c } := h.of_eq rfl rfl

/-- closes goals `RelOnly t s <term built from s by rel / note / record updates>` -/
macro "relonly" : tactic => `(tactic| repeat (first
  | exact RelOnly.refl _ _
  | apply RelOnly.rel
  | apply RelOnly.note
  | apply RelOnly.relOpt
  | apply RelOnly.setTree
  | apply RelOnly.setCursor
  | apply RelOnly.setCursor'))

theorem roArrive_rel (P : Params K) (t : Nat) (s : St K V) (sc : Bool) (key : K) (hold : Lk) (n : Nat) :
    RelOnly t s (roArrive P t s sc key hold n).1 := by
  unfold roArrive
  simp only
  split
  · relonly
  · split
    · split
      · relonly
      · split
        · relonly
        · relonly
    · split
      · relonly
      · split <;> relonly

theorem upLeaf_rel (P : Params K) (t : Nat) (s : St K V) (key : K) (f : Option V → V) (y : Option Bool) (n : Nat)
    (l : Leaf K V) : RelOnly t s (upLeaf P t s key f y n l).1 := by
  unfold upLeaf
  split
  · relonly
  · split
    · relonly
    · relonly
    · relonly

theorem upContinue_rel (P : Params K) (t : Nat) (s : St K V) (key : K) (f : Option V → V) (y : Option Bool) (n : Nat) :
    RelOnly t s (upContinue P t s key f y n).1 := by
  unfold upContinue
  split
  · relonly
  · split
    · exact upLeaf_rel P t s key f y n _
    · split
      · relonly
      · simp only
        split <;> relonly

theorem upChildArrive_rel (P : Params K) (t : Nat) (s : St K V) (key : K) (f : Option V → V) (y : Option Bool)
    (parent index child : Nat) : RelOnly t s (upChildArrive P t s key f y parent index child).1 := by
  unfold upChildArrive
  split
  · split
    · relonly
    · split
      · relonly
      · split
        · relonly
        · refine RelOnly.trans ?_ (upContinue_rel P t _ key f y child)
          relonly
        · split
          · split
            · relonly
            · refine RelOnly.trans ?_ (upContinue_rel P t _ key f y child)
              relonly
          · relonly
  · relonly

theorem upRootArrive_rel (P : Params K) (t : Nat) (s : St K V) (key : K) (f : Option V → V) (y : Option Bool)
    (root : Nat) : RelOnly t s (upRootArrive P t s key f y root).1 := by
  unfold upRootArrive
  simp only
  split
  · relonly
  · refine RelOnly.trans ?_ (upContinue_rel P t _ key f y root)
    relonly
  · split
    · split
      · relonly
      · refine RelOnly.trans ?_ (upContinue_rel P t _ key f y root)
        relonly
    · relonly

theorem frameUnlock_rel (t : Nat) (s : St K V) (fr : Frame) (right : Option Nat) :
    RelOnly t s (frameUnlock t s fr right) := by
  unfold frameUnlock
  exact RelOnly.relOpt _ (RelOnly.rel _ (RelOnly.relOpt _ (RelOnly.refl t s)))

theorem delFinish_rel (t : Nat) (s : St K V) (small : Bool) (root : Nat) :
    RelOnly t s (delFinish t s small root).1 := by
  unfold delFinish
  simp only
  split
  · relonly
  · split
    · relonly
    · relonly

theorem delUnwind_rel (P : Params K) (t : Nat) (key : K) (root : Nat) :
    ∀ (frames : List Frame) (s : St K V) (small : Bool), RelOnly t s (delUnwind P t s key frames small root).1 := by
  intro frames
  induction frames with
  | nil => intro s small; unfold delUnwind; exact delFinish_rel t s small root
  | cons fr rest ih =>
    intro s small
    unfold delUnwind
    split
    · exact (frameUnlock_rel t s fr none).trans (ih _ false)
    · split
      · split
        · split <;> relonly
        · split
          · relonly
          · split
            · relonly
            · rename_i i' small' _
              refine RelOnly.trans ?_ (ih _ small')
              refine RelOnly.trans ?_ (frameUnlock_rel t _ fr none)
              relonly
      · relonly

theorem delRightArrive_rel (P : Params K) (t : Nat) (s : St K V) (key : K) (rest : List Frame) (fr : Frame)
    (right root : Nat) : RelOnly t s (delRightArrive P t s key rest fr right root).1 := by
  unfold delRightArrive
  split
  · split
    · relonly
    · split
      · relonly
      · rename_i i' small' _
        refine RelOnly.trans ?_ (delUnwind_rel P t key root rest _ small')
        refine RelOnly.trans ?_ (frameUnlock_rel t _ fr (some right))
        relonly
  · relonly

theorem delGo_rel (P : Params K) (t : Nat) (s : St K V) (key : K) (frames : List Frame) (n root : Nat) :
    RelOnly t s (delGo P t s key frames n root).1 := by
  unfold delGo
  have henter : RelOnly t s (delEnter P t s key frames n root).1 := by
    unfold delEnter
    split
    · relonly
    · split
      · split
        · relonly
        · relonly
      · split
        · relonly
        · simp only
          split
          · split <;> relonly
          · split <;> relonly
  split
  · rename_i s1 fl heq
    rw [heq] at henter; exact henter
  · rename_i s1 fl frames' small heq
    rw [heq] at henter
    exact henter.trans (delUnwind_rel P t key root frames' s1 small)

/-! ### resume / startOp / a whole step -/

theorem RelOnly.acq_then {t : Nat} {s s' : St K V} (l : Lk) (h : RelOnly t (s.acq t l) s') :
    RelOnly t (s.acq t l) s' := h

theorem resume_rel (P : Params K) (t : Nat) (s : St K V) (k : Kont K V) :
    match kontLock k with
    | some l => RelOnly t (s.acq t l) (resume P t s k).1
    | none => RelOnly t s (resume P t s k).1 := by
  cases k with
  | roTree sc key => simp only [kontLock, resume]; relonly
  | roNode sc key hold want => simp only [kontLock, resume]; exact roArrive_rel P t _ sc key hold want
  | upTree key f y => simp only [kontLock, resume]; relonly
  | upRoot key f y r => simp only [kontLock, resume]; exact upRootArrive_rel P t _ key f y r
  | upRootSib key f y root sib =>
    simp only [kontLock, resume]
    refine RelOnly.trans ?_ (upContinue_rel P t _ key f y sib)
    relonly
  | upChild key f y parent index child =>
    simp only [kontLock, resume]; exact upChildArrive_rel P t _ key f y parent index child
  | upSib key f y parent child sib =>
    simp only [kontLock, resume]
    refine RelOnly.trans ?_ (upContinue_rel P t _ key f y sib)
    relonly
  | upCallback key f leaf arg =>
    simp only [kontLock, resume]
    split
    · split
      · split <;> relonly
      · relonly
    · relonly
  | delTree key => simp only [kontLock, resume]; relonly
  | delRoot key r => simp only [kontLock, resume]; exact delGo_rel P t _ key [] r r
  | delLeft key frames node index left root =>
    simp only [kontLock, resume]
    split
    · split <;> relonly
    · relonly
  | delChild key frames node index left child root =>
    simp only [kontLock, resume]; exact delGo_rel P t _ key _ child root
  | delRight key rest fr right root =>
    simp only [kontLock, resume]; exact delRightArrive_rel P t _ key rest fr right root
  | hop cur next => simp only [kontLock, resume]; relonly
  | paused => simp only [kontLock, resume]; relonly

theorem startOp_rel (t : Nat) (s : St K V) (op : COp K V) : RelOnly t s (startOp t s op).1 := by
  cases op with
  | ins k v => simp only [startOp]; split <;> relonly
  | upd k f y => simp only [startOp]; split <;> relonly
  | del k => simp only [startOp]; split <;> relonly
  | get k => simp only [startOp]; split <;> relonly
  | ns k => simp only [startOp]; split <;> relonly
  | pause => simp only [startOp]; relonly
  | scan =>
    simp only [startOp]
    split
    · split
      · relonly
      · split
        · split <;> relonly
        · relonly
    · relonly
  | pair =>
    simp only [startOp]
    split
    · split
      · relonly
      · split
        · relonly
        · split <;> relonly
    · relonly
  | close =>
    simp only [startOp]
    split
    · relonly
    · rename_i leaf? i _
      cases leaf? <;> relonly

theorem threadLoop_rel (t : Nat) (th : Thread K V) :
    ∀ (fuel : Nat) (s : St K V) (fl : Flow K V) (pc : Nat),
      RelOnly t s (threadLoop t th fuel s fl pc).2.1 ∧
      (threadLoop t th fuel s fl pc).1.held = (threadLoop t th fuel s fl pc).2.1.held := by
  intro fuel
  induction fuel with
  | zero =>
    intro s fl pc
    cases fl with
    | panic => refine ⟨?_, rfl⟩; simp only [threadLoop]; relonly
    | park p => refine ⟨?_, rfl⟩; simp only [threadLoop]; relonly
    | done r => refine ⟨?_, rfl⟩; simp only [threadLoop]; relonly
  | succ fuel ih =>
    intro s fl pc
    cases fl with
    | panic => refine ⟨?_, rfl⟩; simp only [threadLoop]; relonly
    | park p => refine ⟨?_, rfl⟩; simp only [threadLoop]; relonly
    | done r =>
      unfold threadLoop
      cases hop : th.prog[pc + 1]? with
      | none => refine ⟨?_, rfl⟩; relonly
      | some op =>
        obtain ⟨h1, h2⟩ := ih (startOp t ((s.note t (.ret pc r)).note t (.inv (pc + 1))) op).1
          (startOp t ((s.note t (.ret pc r)).note t (.inv (pc + 1))) op).2 (pc + 1)
        refine ⟨RelOnly.trans ?_ h1, h2⟩
        refine RelOnly.trans ?_ (startOp_rel t _ op)
        relonly

/-! ### consequences of `RelOnly` for the owner table -/

theorem eraseAll_facts (t : Nat) (ls : List Lk) :
    ∀ (o : List (Lk × Nat)) (h : List Lk), (∀ l, o.count (l, t) = h.count l) →
      (∀ l, (eraseAllO t o ls).count (l, t) = (eraseAllH h ls).count l) ∧
      (∀ l t', t' ≠ t → (eraseAllO t o ls).count (l, t') = o.count (l, t')) ∧
      List.Sublist (eraseAllO t o ls) o := by
  induction ls with
  | nil => intro o h hc; exact ⟨hc, fun _ _ _ => rfl, List.Sublist.refl _⟩
  | cons a ls ih =>
    intro o h hc
    have hc' : ∀ l, (o.erase (a, t)).count (l, t) = (h.erase a).count l := by
      intro l
      by_cases hl : l = a
      · subst hl
        rw [List.count_erase_self, List.count_erase_self, hc]
      · rw [List.count_erase_of_ne (by intro e; exact hl (Prod.mk.inj e).1),
          List.count_erase_of_ne hl, hc]
    obtain ⟨h1, h2, h3⟩ := ih (o.erase (a, t)) (h.erase a) hc'
    refine ⟨h1, ?_, h3.trans (List.erase_sublist)⟩
    intro l t' ht'
    rw [show eraseAllO t o (a :: ls) = eraseAllO t (o.erase (a, t)) ls from rfl, h2 l t' ht',
      List.count_erase_of_ne (by intro e; exact ht' (Prod.mk.inj e).2)]

/-! ### the configuration invariant -/

def heldOf (c : Config K V) (t : Nat) : List Lk :=
  match c.threads[t]? with
  | some th => th.held
  | none => []

/-- the owner table is exactly the union of the threads' held lists, and no mutex is
    owned twice -/
def OwnerOk (c : Config K V) : Prop :=
  (∀ l t, c.owner.count (l, t) = (heldOf c t).count l) ∧ (c.owner.map Prod.fst).Nodup

theorem runThread_rel (P : Params K) (t : Nat) (th : Thread K V) (s0 : St K V) (hpl : ParkLockOk th.park)
    (hen : th.park ≠ .finished) :
    (match th.park with
      | .want l _ => RelOnly t (s0.acq t l) (runThread P t th s0).2.1
      | _ => RelOnly t s0 (runThread P t th s0).2.1) ∧
    (runThread P t th s0).1.held = (runThread P t th s0).2.1.held ∨
    (th.park = .start ∧ th.prog[0]? = none ∧ (runThread P t th s0).2.1 = s0 ∧ (runThread P t th s0).1.held = th.held) := by
  unfold runThread
  cases hp : th.park with
  | start =>
    cases hop : th.prog[0]? with
    | none => right; exact ⟨rfl, rfl, rfl, rfl⟩
    | some op =>
      left
      simp only
      obtain ⟨h1, h2⟩ := threadLoop_rel t th th.prog.length (startOp t (s0.note t (.inv 0)) op).1
        (startOp t (s0.note t (.inv 0)) op).2 0
      refine ⟨RelOnly.trans ?_ h1, h2⟩
      refine RelOnly.trans ?_ (startOp_rel t _ op)
      relonly
  | want l k =>
    left
    simp only
    rw [hp] at hpl
    have hk : kontLock k = some l := hpl
    have hr := resume_rel P t s0 k
    rw [hk] at hr
    obtain ⟨h1, h2⟩ := threadLoop_rel t th th.prog.length (resume P t s0 k).1 (resume P t s0 k).2 th.pc
    exact ⟨hr.trans h1, h2⟩
  | yielded k =>
    left
    simp only
    rw [hp] at hpl
    have hk : kontLock k = none := hpl
    have hr := resume_rel P t s0 k
    rw [hk] at hr
    obtain ⟨h1, h2⟩ := threadLoop_rel t th th.prog.length (resume P t s0 k).1 (resume P t s0 k).2 th.pc
    exact ⟨hr.trans h1, h2⟩
  | finished => exact absurd hp hen

theorem heldOf_set_same (c c' : Config K V) (t : Nat) (th th' : Thread K V) (hth : c.threads[t]? = some th)
    (hc' : c'.threads = c.threads.set t th') : heldOf c' t = th'.held := by
  unfold heldOf
  have hlt : t < c.threads.length := by
    rcases Nat.lt_or_ge t c.threads.length with h | h
    · exact h
    · rw [List.getElem?_eq_none h] at hth; exact absurd hth (by simp)
  rw [hc', List.getElem?_set_self hlt]

theorem heldOf_set_other (c c' : Config K V) (t t' : Nat) (th' : Thread K V) (hne : t' ≠ t)
    (hc' : c'.threads = c.threads.set t th') : heldOf c' t' = heldOf c t' := by
  unfold heldOf
  rw [hc', List.getElem?_set_ne (Ne.symm hne)]

theorem owner_step (c c' : Config K V) (t : Nat) (hs : c.step t = some c') (ho : OwnerOk c) (hok : ConfigOk c) :
    OwnerOk c' := by
  obtain ⟨hcount, hnodup⟩ := ho
  unfold Config.step at hs
  cases hth : c.threads[t]? with
  | none => simp [hth] at hs
  | some th =>
    simp only [hth] at hs
    split at hs
    · simp at hs
    · rename_i hen
      simp only [Option.some.injEq] at hs
      have hmem : th ∈ c.threads := List.mem_of_getElem? hth
      obtain ⟨_, _, hpl⟩ := hok th hmem
      have hheld0 : heldOf c t = th.held := by unfold heldOf; rw [hth]
      have hnf : th.park ≠ .finished := by
        intro e; simp [Thread.enabled, e] at hen
      -- the state the step starts from
      generalize hs0 : (St.mk c.tree c.owner th.held th.cursor th.exhausted (Ev.dec t c.enabledSet :: c.log) : St K V) = s0 at hs
      have hs0o : s0.owner = c.owner := by rw [← hs0]
      have hs0h : s0.held = th.held := by rw [← hs0]
      rcases runThread_rel c.P t th s0 hpl hnf with ⟨hrel, hheld⟩ | ⟨_, _, hsame, hheld⟩
      · -- base owner/held the releases start from
        obtain ⟨base_o, base_h, hrel', hbc, hbo, hbn⟩ :
            ∃ (bo : List (Lk × Nat)) (bh : List Lk),
              (∃ ls, (runThread c.P t th s0).2.1.owner = eraseAllO t bo ls ∧ (runThread c.P t th s0).2.1.held = eraseAllH bh ls) ∧
              (∀ l, bo.count (l, t) = bh.count l) ∧
              (∀ l t', t' ≠ t → bo.count (l, t') = c.owner.count (l, t')) ∧
              (bo.map Prod.fst).Nodup := by
          cases hp : th.park with
          | want l k =>
            rw [hp] at hrel
            simp only at hrel
            refine ⟨(l, t) :: c.owner, th.held ++ [l], ?_, ?_, ?_, ?_⟩
            · obtain ⟨ls, h1, h2⟩ := hrel
              exact ⟨ls, by rw [h1]; show _ = eraseAllO t ((l, t) :: c.owner) ls; rw [← hs0o]; rfl,
                by rw [h2]; show _ = eraseAllH (th.held ++ [l]) ls; rw [← hs0h]; rfl⟩
            · intro l'
              rw [List.count_cons, List.count_append, hcount l' t, hheld0]
              by_cases e : l' = l
              · subst e; simp
              · have : ((l, t) == (l', t)) = false := by
                  simp; intro e'; exact e e'.symm
                simp [this, e, List.count_cons]
                intro e'; exact absurd e'.symm e
            · intro l' t' ht'
              rw [List.count_cons]
              have : ((l, t) == (l', t')) = false := by
                simp; intro _ e'; exact ht' e'.symm
              simp [this]
            · rw [List.map_cons, List.nodup_cons]
              refine ⟨?_, hnodup⟩
              -- the wanted mutex is free
              have hfree : c.holder l = none := by
                simp only [Thread.enabled, hp, Bool.not_eq_true, Option.isNone_iff_eq_none] at hen
                cases hh : c.holder l with
                | none => rfl
                | some x => rw [hh] at hen; simp at hen
              intro hmem'
              obtain ⟨p, hp1, hp2⟩ := List.mem_map.mp hmem'
              unfold Config.holder at hfree
              rw [Option.map_eq_none_iff, List.find?_eq_none] at hfree
              have := hfree p hp1
              simp [hp2] at this
          | start =>
            rw [hp] at hrel
            simp only at hrel
            obtain ⟨ls, h1, h2⟩ := hrel
            exact ⟨c.owner, th.held, ⟨ls, by rw [h1, hs0o], by rw [h2, hs0h]⟩,
              fun l => by rw [hcount l t, hheld0], fun _ _ _ => rfl, hnodup⟩
          | yielded k =>
            rw [hp] at hrel
            simp only at hrel
            obtain ⟨ls, h1, h2⟩ := hrel
            exact ⟨c.owner, th.held, ⟨ls, by rw [h1, hs0o], by rw [h2, hs0h]⟩,
              fun l => by rw [hcount l t, hheld0], fun _ _ _ => rfl, hnodup⟩
          | finished => exact absurd hp hnf
        obtain ⟨ls, h1, h2⟩ := hrel'
        obtain ⟨f1, f2, f3⟩ := eraseAll_facts t ls base_o base_h hbc
        subst hs
        refine ⟨?_, ?_⟩
        · intro l t'
          by_cases ht' : t' = t
          · subst ht'
            rw [heldOf_set_same c _ t' th _ hth rfl]
            show (runThread c.P t' th s0).2.1.owner.count (l, t') = _
            rw [h1, f1 l, hheld, h2]
          · rw [heldOf_set_other c _ t t' _ ht' rfl]
            show (runThread c.P t th s0).2.1.owner.count (l, t') = _
            rw [h1, f2 l t' ht', hbo l t' ht', hcount l t']
        · show ((runThread c.P t th s0).2.1.owner.map Prod.fst).Nodup
          rw [h1]
          exact hbn.sublist (f3.map Prod.fst)
      · subst hs
        refine ⟨?_, ?_⟩
        · intro l t'
          by_cases ht' : t' = t
          · subst ht'
            rw [heldOf_set_same c _ t' th _ hth rfl]
            show (runThread c.P t' th s0).2.1.owner.count (l, t') = _
            rw [hsame, hs0o, hcount l t', hheld0, hheld]
          · rw [heldOf_set_other c _ t t' _ ht' rfl]
            show (runThread c.P t th s0).2.1.owner.count (l, t') = _
            rw [hsame, hs0o, hcount l t']
        · show ((runThread c.P t th s0).2.1.owner.map Prod.fst).Nodup
          rw [hsame, hs0o]; exact hnodup

theorem init_owner (P : Params K) (tree : Tree K V) (progs : List (List (COp K V))) :
    OwnerOk (Config.init P tree progs) := by
  refine ⟨?_, by simp [Config.init]⟩
  intro l t
  simp only [Config.init, List.count_nil, heldOf]
  cases h : (progs.map fun p => ({ prog := p, pc := 0, park := .start, held := [], cursor := none, exhausted := false } : Thread K V))[t]? with
  | none => simp
  | some th =>
    have := List.mem_of_getElem? h
    simp only [List.mem_map] at this
    obtain ⟨p, _, rfl⟩ := this
    simp

/-- mutual exclusion, for every reachable configuration in which no thread panicked -/
theorem reachable_owner (c0 c : Config K V) (h0 : ConfigOk c0) (ho : OwnerOk c0)
    (hr : Reachable c0 c) (hd : c.dead = false) : OwnerOk c := by
  induction hr with
  | refl => exact ho
  | @step c1 c2 t hr1 hs ih =>
    have hd1 := step_dead c1 c2 t hs hd
    exact owner_step c1 c2 t hs (ih hd1) (reachable_ok c0 c1 h0 hr1 hd1)

end Gobptree.Conc
