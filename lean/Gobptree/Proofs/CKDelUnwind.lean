/-
  Key-order proofs for Delete, part 5: the unwinding (`delUnwind`, `delRightArrive`) keeps
  `OrdTree` and the abstract map and only widens intervals of nodes the thread does not hold;
  the descent (`delGo`) erases the key when it reaches the leaf.
-/
import Gobptree.Proofs.CKDelStep

namespace Gobptree.Conc
open Gobptree

variable {K V : Type} {lt : K → K → Bool}

/-- outcome of a stretch of the unwinding -/
structure KOut (lt : K → K → Bool) (H : List Lk) (s s' : St K V) (fl : Flow K V) : Prop where
  ord : OrdTree lt s'.tree
  abs : s'.tree.abs = s.tree.abs
  post : postLeaf fl
  widen : Widen lt (fun x => Lk.node x ∈ H) s.tree s'.tree

/-- outcome of a stretch that starts in the descent -/
structure GoOut (lt : K → K → Bool) (H : List Lk) (key : K) (s s' : St K V) (fl : Flow K V) : Prop where
  ord : OrdTree lt s'.tree
  eff1 : postLeaf fl → s'.tree.abs = Spec.erase lt s.tree.abs key
  eff2 : ¬ postLeaf fl → s'.tree.abs = s.tree.abs
  kpos : ∀ p, fl = .park p → parkKPos lt s'.tree p
  widen : Widen lt (fun x => Lk.node x ∈ H) s.tree s'.tree

theorem kpos_of_postLeaf {fl : Flow K V} (t : Tree K V) (hpl : postLeaf fl) :
    ∀ p, fl = .park p → parkKPos lt t p := by
  intro p hp
  subst hp
  cases p with
  | start => exact False.elim hpl
  | want l k => cases k <;> first | exact False.elim hpl | trivial
  | yielded k => exact False.elim hpl
  | finished => exact False.elim hpl

/-- the siblings an activation may rewrite are held -/
theorem window_held {t : Tree K V} {fr : Frame} {rest : List Frame} {H : List Lk} (hfr : FrameOk t fr)
    (hH : ∀ l ∈ framesHeld (fr :: rest), l ∈ H)
    (hright : ∀ x, t.kidAt fr.node (fr.index + 1) = some x → Lk.node x ∈ H) :
    ∀ j x, t.kidAt fr.node j = some x → fr.index ≤ j + 1 → j ≤ fr.index + 1 → Lk.node x ∈ H := by
  obtain ⟨hHrest, hHchild, hHleft⟩ := framesHeld_cons_sub hH
  intro j x hx h1 h2
  have hcases : j = fr.index ∨ j + 1 = fr.index ∨ j = fr.index + 1 := by omega
  rcases hcases with rfl | hj | rfl
  · rw [hfr.1] at hx
    cases hx
    exact hHchild
  · have hl := hfr.2
    cases hfl : fr.left with
    | none => rw [hfl] at hl; simp only at hl; omega
    | some l =>
      rw [hfl] at hl
      simp only at hl
      have : fr.index - 1 = j := by omega
      rw [this, hx] at hl
      have := hl.2
      cases this
      exact hHleft _ hfl
  · exact hright x hx

/-! ### the unwinding loop -/

theorem delUnwind_k (h : SWO lt) (P : Params K) (hp : PadOk P) (t : Nat) (key : K) (root : Nat) (H : List Lk)
    (hroot : Lk.node root ∈ H) :
    ∀ (frames : List Frame) (s : St K V) (small : Bool) (top : Nat),
      UInv P root s frames small top → (∀ l ∈ framesHeld frames, l ∈ H) → OrdTree lt s.tree →
      KOut lt H s (delUnwind P t s key frames small root).1 (delUnwind P t s key frames small root).2 := by
  intro frames
  induction frames with
  | nil =>
    intro s small top hinv _ hO
    unfold delUnwind
    obtain ⟨h1, h2, h3⟩ := delFinish_tree t s small root
    have htop : top = s.tree.rootId := by
      have : top = root := hinv.frames
      rw [this]; exact hinv.rootEq
    have hok := hinv.ok
    rw [htop] at hok
    obtain ⟨r1, r2, r3⟩ := finish_kstep h (fun x => Lk.node x ∈ H) hok hO (by rw [← hinv.rootEq]; exact hroot)
    rw [← h1] at r1 r2 r3
    exact ⟨r1, r2, by rw [h3]; trivial, r3⟩
  | cons fr rest ih =>
    intro s small top hinv hH hO
    obtain ⟨hHrest, hHchild, hHleft⟩ := framesHeld_cons_sub hH
    obtain ⟨htop, hfr, hrest⟩ := hinv.frames
    unfold delUnwind
    cases small with
    | false =>
      simp only [Bool.not_false, if_true]
      have hinv' : UInv P root (frameUnlock t s fr none) rest false fr.node :=
        ⟨by simpa using hinv.ok, by simpa using hinv.order, by simpa using hinv.rootEq,
          by simpa using hrest, by intro h; cases h⟩
      have := ih _ false fr.node hinv' hHrest (by simpa using hO)
      exact ⟨this.ord, by simpa using this.abs, this.post, by simpa using this.widen⟩
    | true =>
      simp only [Bool.not_true, Bool.false_eq_true, if_false]
      subst htop
      have hok : TreeOk' (some fr.child) s.tree := by simpa using hinv.ok
      obtain ⟨d, i, hf, hlook, k, hk, hkid⟩ := inner_of_kidAt hfr.1
      obtain ⟨_, _, _, hin, _⟩ := rebIn_of_tree hok hf hfr.1 (hinv.small rfl)
      have hlen : i.runts.length = i.kids.length := hin.lens.1
      rw [hf]
      simp only
      by_cases hR : fr.index + 1 < i.runts.length
      · simp only [hR, if_true]
        obtain ⟨r, hr⟩ : ∃ r, i.kids[fr.index + 1]? = some r :=
          ⟨i.kids[fr.index + 1]'(by omega), List.getElem?_eq_getElem _⟩
        simp only [hr, Option.map_some]
        exact ⟨hO, rfl, trivial, Widen.refl h _ _⟩
      · simp only [hR, if_false]
        have hright : ∀ x, s.tree.kidAt fr.node (fr.index + 1) = some x → Lk.node x ∈ H := by
          intro x hx
          rw [kidAt_of_find hf] at hx
          have : i.kids[fr.index + 1]? = none := by
            apply List.getElem?_eq_none; omega
          rw [this] at hx
          cases hx
        obtain ⟨child, i', small', hc, heval, hnext⟩ := reb_inv P hp (keep := keepOf H 0)
          (fun x hx => keepOf_heldD H 0 x hx) hroot hH hinv hright hf
        simp only [hc, heval]
        obtain ⟨hinv', _, _, _⟩ := hnext (frameUnlock t { s with tree := putInner s.tree i' } fr none) (by simp)
        obtain ⟨k1, k2, k3⟩ := rebalance_kstep h P hp (fun x => Lk.node x ∈ H) hok hinv.order hf hfr.1
          (hinv.small rfl) hO (frames_top_held hroot rest fr.node hrest hHrest) (window_held hfr hH hright) hc heval
        have := ih _ small' fr.node hinv' hHrest (by simpa using k1)
        exact ⟨this.ord, by rw [this.abs]; simpa using k2, this.post,
          Widen.trans h k3 (by simpa using this.widen)⟩

/-! ### after the right sibling has been acquired -/

theorem delRightArrive_k (h : SWO lt) (P : Params K) (hp : PadOk P) (t : Nat) (key : K) (root : Nat) (H : List Lk)
    (hroot : Lk.node root ∈ H)
    (s : St K V) (rest : List Frame) (fr : Frame) (right : Nat)
    (hinv : UInv P root s (fr :: rest) true fr.child) (hH : ∀ l ∈ framesHeld (fr :: rest), l ∈ H)
    (hr : s.tree.kidAt fr.node (fr.index + 1) = some right) (hrH : Lk.node right ∈ H)
    (hO : OrdTree lt s.tree) :
    KOut lt H s (delRightArrive P t s key rest fr right root).1 (delRightArrive P t s key rest fr right root).2 := by
  obtain ⟨hHrest, _, _⟩ := framesHeld_cons_sub hH
  obtain ⟨_, hfr, hrest⟩ := hinv.frames
  obtain ⟨d, i, hf, _, _⟩ := inner_of_kidAt hfr.1
  have hok : TreeOk' (some fr.child) s.tree := by simpa using hinv.ok
  have hright : ∀ x, s.tree.kidAt fr.node (fr.index + 1) = some x → Lk.node x ∈ H := by
    intro x hx; rw [hr] at hx; cases hx; exact hrH
  obtain ⟨child, i', small', hc, heval, hnext⟩ := reb_inv P hp (keep := keepOf H 0)
    (fun x hx => keepOf_heldD H 0 x hx) hroot hH hinv hright hf
  unfold delRightArrive
  rw [hf]
  simp only [hc, heval]
  obtain ⟨hinv', _, _, _⟩ :=
    hnext (frameUnlock t { s with tree := putInner s.tree i' } fr (some right)) (by simp)
  obtain ⟨k1, k2, k3⟩ := rebalance_kstep h P hp (fun x => Lk.node x ∈ H) hok hinv.order hf hfr.1
    (hinv.small rfl) hO (frames_top_held hroot rest fr.node hrest hHrest) (window_held hfr hH hright) hc heval
  have := delUnwind_k h P hp t key root H hroot rest _ small' fr.node hinv' hHrest (by simpa using k1)
  exact ⟨this.ord, by rw [this.abs]; simpa using k2, this.post,
    Widen.trans h k3 (by simpa using this.widen)⟩

/-! ### the descent -/

theorem delGo_k (h : SWO lt) (P : Params K) (hP : P.lt = lt) (hp : PadOk P) (t : Nat) (key : K) (root : Nat)
    (H : List Lk) (hroot : Lk.node root ∈ H)
    (s : St K V) (frames : List Frame) (n : Nat)
    (hok : TreeOk none s.tree) (h4 : 4 ≤ s.tree.order) (hord : s.tree.order = P.order)
    (hrootEq : root = s.tree.rootId)
    (hfr : FramesOk s.tree root frames n) (hH : ∀ l ∈ framesHeld frames, l ∈ H)
    (hO : OrdTree lt s.tree) (hon : OnRoute lt s.tree key n) :
    GoOut lt H key s (delGo P t s key frames n root).1 (delGo P t s key frames n root).2 := by
  have hok' : TreeOk' none s.tree := hok.prime h4
  obtain ⟨sht, hlook, _⟩ := frames_high hok.ids frames n (by rw [← hrootEq]; exact hfr)
  obtain ⟨a, hf, hsh, _⟩ := find_some_of_look hlook
  obtain ⟨d', m⟩ := a
  have hnH : Lk.node n ∈ H := frames_top_held hroot frames n hfr hH
  cases d' with
  | zero =>
    obtain ⟨l', small, heval, out⟩ := leaf_step P hok' hord hf key
    have hlook' : s.tree.look n = some (shallow (d := 0) m) := (find_facts hf).2.1
    have hleaf : leafOf? (⟨0, m⟩ : AnyNode K V) = some (m : Leaf K V) := rfl
    unfold delGo delEnter
    rw [hf]
    simp only [hleaf, heval]
    have hinv : UInv P root ({ s with tree := putLeaf s.tree l' } : St K V) frames small n := by
      refine ⟨out.ok, out.order.trans hord, hrootEq.trans out.root.symm, ?_, out.small⟩
      refine framesOk_transfer hok.ids root frames n _ hfr hlook' ?_
      intro x sh hx hlt
      rw [← hx]
      exact out.look x (ne_of_height hlook' hx hlt).symm
    obtain ⟨k1, k2, k3⟩ := leaf_kstep h P hP (fun x => Lk.node x ∈ H) hok' hf hO key hon hnH (P.order >>> 1) heval
    have := delUnwind_k h P hp t key root H hroot frames _ small n hinv hH k1
    exact ⟨this.ord, fun _ => by rw [this.abs]; exact k2, fun hn => absurd this.post hn,
      kpos_of_postLeaf _ this.post, Widen.trans h k3 this.widen⟩
  | succ d =>
    have hlook' : s.tree.look n = some (shallow (d := d + 1) m) := (find_facts hf).2.1
    have occ := hok'.occ (n, shallow (d := d + 1) m) (look_mem hlook')
    have hp' := (par_inner (m : Inner K (Node K V d))).1 occ.par
    have hne : (m : Inner K (Node K V d)).runts ≠ [] := by
      intro e; rw [e] at hp'; simp at hp'
    have hidx := searchLE_lt_length (lt := P.lt) key (m : Inner K (Node K V d)).runts hne
    have hkeys : keysOf s.tree n = (m : Inner K (Node K V d)).runts := keysOf_find hf
    unfold delGo delEnter
    rw [hf]
    simp only [leafOf?, innerRunts?, innerKidId?]
    by_cases hpos : searchLE P.lt key (m : Inner K (Node K V d)).runts > 0
    · simp only [hpos, if_true]
      obtain ⟨l, hl⟩ : ∃ l, (m : Inner K (Node K V d)).kids[searchLE P.lt key (m : Inner K (Node K V d)).runts - 1]? = some l :=
        ⟨(m : Inner K (Node K V d)).kids[searchLE P.lt key (m : Inner K (Node K V d)).runts - 1]'(by omega),
          List.getElem?_eq_getElem _⟩
      simp only [hl, Option.map_some]
      refine ⟨hO, fun hpl => False.elim hpl, fun _ => rfl, ?_, Widen.refl h _ _⟩
      intro p hp
      cases hp
      refine ⟨hon, ?_⟩
      rw [hkeys, hP]
    · simp only [hpos, if_false]
      obtain ⟨c, hc⟩ : ∃ c, (m : Inner K (Node K V d)).kids[searchLE P.lt key (m : Inner K (Node K V d)).runts]? = some c :=
        ⟨(m : Inner K (Node K V d)).kids[searchLE P.lt key (m : Inner K (Node K V d)).runts]'(by omega),
          List.getElem?_eq_getElem _⟩
      simp only [hc, Option.map_some]
      refine ⟨hO, fun hpl => False.elim hpl, fun _ => rfl, ?_, Widen.refl h _ _⟩
      intro p hp
      cases hp
      refine ⟨hon, ?_⟩
      rw [hkeys, hP]

end Gobptree.Conc
