/-
  Single-thread agreement, part 8: Delete, the unwinding of a lone thread computes
  `unwindCtx` (rebalance at every activation whose callee reported "too small").
-/
import Gobptree.Proofs.CSoloDel

namespace Gobptree.Conc
open Gobptree

variable {K V : Type}

/-! ### the blocks of the unwinding, given what `find` returns -/

theorem delUnwind_nil (P : Params K) (t : Nat) (s : St K V) (key : K) (small : Bool) (rw : Nat) :
    delUnwind P t s key [] small rw = delFinish t s small rw := by
  unfold delUnwind; rfl

theorem delUnwind_false (P : Params K) (t : Nat) (s : St K V) (key : K) (fr : Frame) (rest : List Frame) (rw : Nat) :
    delUnwind P t s key (fr :: rest) false rw = delUnwind P t (frameUnlock t s fr none) key rest false rw := by
  rw [delUnwind]; rfl

theorem delUnwind_right (P : Params K) (t : Nat) (s : St K V) (key : K) (fr : Frame) (rest : List Frame) (rw : Nat)
    {d : Nat} (i : Inner K (Node K V d)) (right : Node K V d)
    (hfind : s.tree.find fr.node = some ⟨d + 1, i⟩) (hr : fr.index + 1 < i.runts.length)
    (hk : i.kids[fr.index + 1]? = some right) :
    delUnwind P t s key (fr :: rest) true rw =
      (s, .park (.want (.node (Node.id right)) (.delRight key rest fr (Node.id right) rw))) := by
  rw [delUnwind]
  simp only [Bool.not_true, Bool.false_eq_true, if_false, hfind, hr, if_true, hk, Option.map_some]

theorem delUnwind_reb (P : Params K) (t : Nat) (s : St K V) (key : K) (fr : Frame) (rest : List Frame) (rw : Nat)
    {d : Nat} (i i' : Inner K (Node K V d)) (child : Node K V d) (small' : Bool)
    (hfind : s.tree.find fr.node = some ⟨d + 1, i⟩) (hr : ¬ fr.index + 1 < i.runts.length)
    (hk : i.kids[fr.index]? = some child)
    (hreb : rebalance P {} (P.order >>> 1) i fr.index child = .ok (i', small')) :
    delUnwind P t s key (fr :: rest) true rw =
      delUnwind P t (frameUnlock t (s.setTree (putInner s.tree i')) fr none) key rest small' rw := by
  rw [delUnwind]
  simp only [Bool.not_true, Bool.false_eq_true, if_false, hfind, hr, hk, hreb]

theorem delRightArrive_eq (P : Params K) (t : Nat) (s : St K V) (key : K) (fr : Frame) (rest : List Frame)
    (right rw : Nat) {d : Nat} (i i' : Inner K (Node K V d)) (child : Node K V d) (small' : Bool)
    (hfind : s.tree.find fr.node = some ⟨d + 1, i⟩) (hk : i.kids[fr.index]? = some child)
    (hreb : rebalance P {} (P.order >>> 1) i fr.index child = .ok (i', small')) :
    delRightArrive P t s key rest fr right rw =
      delUnwind P t (frameUnlock t (s.setTree (putInner s.tree i')) fr (some right)) key rest small' rw := by
  unfold delRightArrive
  simp only [hfind, hk, hreb]

/-! ### locks -/

/-- the identities of the context and of the node in the hole are pairwise distinct -/
def LockInv {D d : Nat} (c : Ctx K V D d) (h : Nat) : Prop :=
  ∀ a, c.ids.count a + (if h = a then 1 else 0) ≤ 1

theorem IdInv.lockInv {D d : Nat} {c : Ctx K V D d} {x : Node K V d} {nid : Nat} (h : IdInv c x nid) :
    LockInv c (Node.id x) := by
  intro a
  have h1 := (h a).1
  by_cases e : Node.id x = a
  · subst e
    have := count_id_nids x
    rw [if_pos rfl]; omega
  · rw [if_neg e]; omega

theorem LockInv.not_mem {D d : Nat} {c : Ctx K V D d} {h : Nat} (hl : LockInv c h) : h ∉ c.ids := by
  intro hm
  have h1 := hl h
  rw [if_pos rfl] at h1
  have : 0 < c.ids.count h := List.count_pos_iff.2 hm
  omega

theorem leftOf_count {d : Nat} (pre : List (Node K V d)) (l : Nat) (h : Ctx.leftOf pre = some l) :
    1 ≤ (pre.flatMap nids).count l := by
  unfold Ctx.leftOf at h
  cases hg : pre.getLast? with
  | none => rw [hg] at h; cases h
  | some x =>
    rw [hg] at h
    have e : Node.id x = l := by simpa using h
    subst e
    apply List.count_pos_iff.2
    rw [List.mem_flatMap]
    exact ⟨x, List.mem_of_getLast? hg, id_mem_nids x⟩

theorem mem_locks {D : Nat} (a : Nat) : ∀ {d : Nat} (c : Ctx K V D d) (h : Nat),
    Lk.node a ∈ c.locks h → a = h ∨ 0 < c.ids.count a := by
  intro d c
  induction c with
  | top =>
    intro h hm
    simp only [Ctx.locks, List.mem_cons, List.not_mem_nil, or_false, Lk.node.injEq] at hm
    rcases hm with hm | hm
    · exact Lk.noConfusion hm
    · exact Or.inl hm
  | @kid d c id r pre post ih =>
    intro h hm
    simp only [Ctx.locks, List.mem_append, List.mem_map, List.mem_singleton, Lk.node.injEq] at hm
    rw [count_ids_kid]
    rcases hm with hm | hm | hm
    · rcases ih id hm with e | e
      · subst e; right; rw [if_pos rfl]; omega
      · right; omega
    · obtain ⟨l, hl, e⟩ := hm
      subst e
      have := leftOf_count pre l (by simpa using hl)
      right; omega
    · exact Or.inl hm

theorem erase_append_self {α : Type} [BEq α] [LawfulBEq α] (L : List α) (a : α) (h : a ∉ L) :
    (L ++ [a]).erase a = L := by
  rw [List.erase_append_right _ h]
  simp

/-- releasing the locks of the innermost activation -/
theorem unlock_held {D d : Nat} (c : Ctx K V D (d + 1)) (id : Nat) (r : List K) (pre post : List (Node K V d)) (h : Nat)
    (hl : LockInv (Ctx.kid c id r pre post) h) (L : List Lk)
    (hL : L = (Ctx.kid c id r pre post).locks h) :
    (match Ctx.leftOf pre with
      | some l => (L.erase (.node h)).erase (.node l)
      | none => L.erase (.node h)) = c.locks id := by
  subst hL
  have hh : ∀ a, Lk.node a ∈ c.locks id → 0 < (Ctx.kid c id r pre post).ids.count a := by
    intro a ha
    rw [count_ids_kid]
    rcases mem_locks a c id ha with e | e
    · subst e; rw [if_pos rfl]; omega
    · omega
  have hhn : Lk.node h ∉ c.locks id := by
    intro hm
    have h1 := hh h hm
    have h2 := hl h
    rw [if_pos rfl] at h2
    omega
  cases hlo : Ctx.leftOf pre with
  | none =>
    simp only [Ctx.locks, hlo, Option.toList_none, List.map_nil, List.nil_append]
    exact erase_append_self _ _ hhn
  | some l =>
    have hc := leftOf_count pre l hlo
    have hne : h ≠ l := by
      intro e
      subst e
      have h2 := hl h
      rw [if_pos rfl, count_ids_kid] at h2
      omega
    have hln : Lk.node l ∉ c.locks id := by
      intro hm
      have h2 := hl l
      rw [count_ids_kid] at h2
      rcases mem_locks l c id hm with e | e
      · subst e; rw [if_pos rfl] at h2; omega
      · omega
    simp only [Ctx.locks, hlo, Option.toList_some, List.map_cons, List.map_nil]
    rw [show c.locks id ++ ([Lk.node l] ++ [Lk.node h]) = (c.locks id ++ [Lk.node l]) ++ [Lk.node h] by simp,
      erase_append_self _ _ (by
        simp only [List.mem_append, List.mem_singleton, Lk.node.injEq, not_or]
        exact ⟨hhn, hne⟩),
      erase_append_self _ _ hln]

/-- the right sibling is not yet locked -/
theorem right_free {D d : Nat} (c : Ctx K V D (d + 1)) (id : Nat) (r : List K) (pre post : List (Node K V d)) (h : Nat)
    (hl : LockInv (Ctx.kid c id r pre post) h) (right : Node K V d) (hr : right ∈ post) :
    Lk.node (Node.id right) ∉ (Ctx.kid c id r pre post).locks h := by
  intro hm
  have hrc : 1 ≤ (post.flatMap nids).count (Node.id right) := by
    apply List.count_pos_iff.2
    rw [List.mem_flatMap]
    exact ⟨right, hr, id_mem_nids right⟩
  have h2 := hl (Node.id right)
  rw [count_ids_kid] at h2
  simp only [Ctx.locks, List.mem_append, List.mem_map, List.mem_singleton, Lk.node.injEq] at hm
  rcases hm with hm | hm | hm
  · rcases mem_locks _ c id hm with e | e
    · rw [if_pos e.symm] at h2; omega
    · omega
  · obtain ⟨l, hl', e⟩ := hm
    have := leftOf_count pre l (by simpa using hl')
    rw [e] at this
    omega
  · rw [if_pos hm.symm] at h2; omega

theorem LockInv.up {D d : Nat} {c : Ctx K V D (d + 1)} {id : Nat} {r : List K} {pre post : List (Node K V d)} {h : Nat}
    (hl : LockInv (Ctx.kid c id r pre post) h) : LockInv c id := by
  intro a
  have h2 := hl a
  rw [count_ids_kid] at h2
  omega

end Gobptree.Conc
