/-
  Single-thread agreement, part 5: `Insert` / `Update` at tree level (root split, then the
  descent): a lone thread computes `Tree.upsert`.
-/
import Gobptree.Proofs.CSoloUp2

namespace Gobptree.Conc
open Gobptree

variable {K V : Type}

theorem up_all (P : Params K) (key : K) (f : Option V → V) (y : Option Bool) (hy : y ≠ some true) :
    ∀ d, UpSim (V := V) P key f y d := by
  intro d
  induction d with
  | zero =>
    intro D c x o nid x' nid' cb s htree hheld ho hinv hup
    obtain ⟨hl, hn⟩ := upsertNode_zero_inv P key f x nid x' nid' cb hup
    subst hn
    exact up_leaf P key f y hy c x o nid' x' cb s htree hheld ho hinv hl
  | succ d ih =>
    intro D c x o nid x' nid' cb s htree hheld ho hinv hup
    exact up_inner P key f y d ih c x o nid x' nid' cb s htree hheld ho hinv hup

/-- the three ways `Insert`/`Update` starts -/
inductive RootCase (P : Params K) (key : K) (f : Option V → V) (t t' : Tree K V) (cb : Option V) : Prop where
  | nosplit (r' : Node K V t.depth) (nid' : Nat) :
      Node.maybeSplit t.order t.nextId t.root = .ok (t.root, none) →
      upsertNode P key f t.depth t.root t.nextId = .ok (r', nid', cb) →
      t' = { t with root := r', nextId := nid' } →
      RootCase P key f t t' cb
  | right (left right : Node K V t.depth) (ls rs : K) (c' : Node K V t.depth) (nid' : Nat) :
      Node.maybeSplit t.order t.nextId t.root = .ok (left, some right) →
      Node.smallest left = .ok ls → Node.smallest right = .ok rs → P.lt key rs = false →
      upsertNode P key f t.depth right (t.nextId + 2) = .ok (c', nid', cb) →
      t' = { order := t.order, depth := t.depth + 1,
             root := (⟨t.nextId + 1, [if P.lt key ls then key else ls, rs], [left, c']⟩ : Inner K (Node K V t.depth)),
             nextId := nid' } →
      RootCase P key f t t' cb
  | left (left right : Node K V t.depth) (ls rs : K) (c' : Node K V t.depth) (nid' : Nat) :
      Node.maybeSplit t.order t.nextId t.root = .ok (left, some right) →
      Node.smallest left = .ok ls → Node.smallest right = .ok rs → P.lt key rs = true →
      upsertNode P key f t.depth left (t.nextId + 2) = .ok (c', nid', cb) →
      t' = { order := t.order, depth := t.depth + 1,
             root := (⟨t.nextId + 1, [if P.lt key ls then key else ls, rs], [c', right]⟩ : Inner K (Node K V t.depth)),
             nextId := nid' } →
      RootCase P key f t t' cb

theorem Tree.upsert_inv (P : Params K) (key : K) (f : Option V → V) (t t' : Tree K V) (cb : Option V)
    (h : t.upsert P key f = .ok (t', cb)) : RootCase P key f t t' cb := by
  simp only [Tree.upsert, bind, Except.bind, pure, Except.pure] at h
  split at h
  · cases h
  · rename_i v1 hms
    obtain ⟨left, right?⟩ := v1
    split at h
    · rename_i hr
      simp only at hr; subst hr
      have := maybeSplit_none _ _ _ _ hms; subst this
      split at h
      · cases h
      · rename_i v2 hrec
        obtain ⟨r', nid2, cb2⟩ := v2
        injection h with h; injection h with h1 h2
        subst h1; subst h2
        exact RootCase.nosplit r' nid2 hms hrec rfl
    · rename_i right hr
      simp only at hr; subst hr
      split at h
      · cases h
      · rename_i ls hls
        split at h
        · cases h
        · rename_i rs hrs
          split at h
          · rename_i hlt
            split at h
            · cases h
            · rename_i v3 hrec
              obtain ⟨c', nid2, cb2⟩ := v3
              injection h with h; injection h with h1 h2
              subst h1; subst h2
              exact RootCase.right left right ls rs c' nid2 hms hls hrs (by simpa using hlt) hrec rfl
          · rename_i hlt
            split at h
            · cases h
            · rename_i v3 hrec
              obtain ⟨c', nid2, cb2⟩ := v3
              injection h with h; injection h with h1 h2
              subst h1; subst h2
              exact RootCase.left left right ls rs c' nid2 hms hls hrs (by simpa using hlt) hrec rfl

/-! ### the root block -/

theorem solo_upRootArrive_nosplit (P : Params K) (t : Nat) (s : St K V) (key : K) (f : Option V → V) (y : Option Bool)
    (root : Nat) (l : Node K V s.tree.depth)
    (hms : Node.maybeSplit s.tree.order s.tree.nextId s.tree.root = .ok (l, none)) :
    upRootArrive P t s key f y root = upContinue P t (s.rel t .tree) key f y root := by
  unfold upRootArrive
  simp only [hms]

/-- the tree after a root split -/
@[reducible] def splitRoot (tr : Tree K V) (ls rs : K) (left right : Node K V tr.depth) : Tree K V :=
  { order := tr.order, depth := tr.depth + 1,
    root := (⟨tr.nextId + 1, [ls, rs], [left, right]⟩ : Inner K (Node K V tr.depth)), nextId := tr.nextId + 2 }

theorem upRootArrive_right (P : Params K) (t : Nat) (s : St K V) (key : K) (f : Option V → V) (y : Option Bool)
    (root : Nat) (left right : Node K V s.tree.depth) (ls rs : K)
    (hms : Node.maybeSplit s.tree.order s.tree.nextId s.tree.root = .ok (left, some right))
    (hls : Node.smallest left = .ok ls) (hrs : Node.smallest right = .ok rs) (hlt : P.lt key rs = false) :
    upRootArrive P t s key f y root =
      (s.setTree (splitRoot s.tree (if P.lt key ls then key else ls) rs left right),
        .park (.want (.node (Node.id right)) (.upRootSib key f y root (Node.id right)))) := by
  unfold upRootArrive
  simp only [hms, hls, hrs, hlt, Bool.not_false, if_true]

theorem upRootArrive_left (P : Params K) (t : Nat) (s : St K V) (key : K) (f : Option V → V) (y : Option Bool)
    (root : Nat) (left right : Node K V s.tree.depth) (ls rs : K)
    (hms : Node.maybeSplit s.tree.order s.tree.nextId s.tree.root = .ok (left, some right))
    (hls : Node.smallest left = .ok ls) (hrs : Node.smallest right = .ok rs) (hlt : P.lt key rs = true) :
    upRootArrive P t s key f y root =
      upContinue P t ((s.setTree (splitRoot s.tree (if P.lt key ls then key else ls) rs left right)).rel t .tree)
        key f y root := by
  unfold upRootArrive
  simp only [hms, hls, hrs, hlt, Bool.not_true, Bool.false_eq_true, if_false]

theorem ite01 (c : Prop) [Decidable c] :
    ((if c then 1 else 0 : Nat) = 1 ∧ c) ∨ ((if c then 1 else 0 : Nat) = 0 ∧ ¬ c) := by
  by_cases h : c
  · left; exact ⟨if_pos h, h⟩
  · right; exact ⟨if_neg h, h⟩

theorem treeOf_eta (t : Tree K V) : treeOf t.order Ctx.top t.root t.nextId = t := by
  cases t; rfl

theorem count_ids_top {D : Nat} (a : Nat) : (Ctx.top : Ctx K V D D).ids.count a = 0 := rfl

/-- **Insert / Update of a lone thread computes `Tree.upsert`** -/
theorem up_tree (P : Params K) (key : K) (f : Option V → V) (y : Option Bool) (hy : y ≠ some true)
    (t t' : Tree K V) (cb : Option V) (s : St K V)
    (htree : s.tree = t) (hheld : s.held = []) (ho : OwnOk s)
    (hinv : IdInv Ctx.top t.root t.nextId) (hup : t.upsert P key f = .ok (t', cb)) :
    ∃ s', SoloFin P (s, .park (.want .tree (.upTree key f y))) s' .ok ∧ SoloPost s s' t' (cbOfY y cb) := by
  subst htree
  have hcase := Tree.upsert_inv P key f s.tree t' cb hup
  have hrlt : Node.id s.tree.root < s.tree.nextId := hinv.lt
  have ho1 : OwnOk (s.tick.acq 0 .tree) := ho.tick.acq _
  have ho2 : OwnOk ((s.tick.acq 0 .tree).tick.acq 0 (.node (Node.id s.tree.root))) := ho1.tick.acq _
  have hg2 : Grows s ((s.tick.acq 0 .tree).tick.acq 0 (.node (Node.id s.tree.root))) [] :=
    (Grows.tick _).trans_nil ((Grows.acq _ _).trans_nil ((Grows.tick _).trans_nil (Grows.acq _ _)))
  have hheld2 : ((s.tick.acq 0 .tree).tick.acq 0 (.node (Node.id s.tree.root))).held =
      [.tree, .node (Node.id s.tree.root)] := by
    show (s.held ++ [.tree]) ++ [.node (Node.id s.tree.root)] = _
    rw [hheld]; rfl
  suffices h : ∃ s', SoloFin P (upRootArrive P 0 ((s.tick.acq 0 .tree).tick.acq 0 (.node (Node.id s.tree.root))) key f y
      (Node.id s.tree.root)) s' .ok ∧ SoloPost s s' t' (cbOfY y cb) by
    obtain ⟨s', hf, hp⟩ := h
    refine ⟨s', SoloFin.park ho (by rw [hheld]; simp) ?_, hp⟩
    show SoloFin P (s.tick.acq 0 .tree, .park (.want (.node (Node.id s.tree.root))
      (.upRoot key f y (Node.id s.tree.root)))) s' .ok
    refine SoloFin.park ho1 ?_ hf
    show Lk.node _ ∉ s.held ++ [.tree]
    rw [hheld]; simp
  generalize hs2 : (s.tick.acq 0 .tree).tick.acq 0 (.node (Node.id s.tree.root)) = s2 at ho2 hg2 hheld2
  have htree2 : s2.tree = s.tree := by rw [← hs2]; rfl
  have hcur2 : s2.cursor = s.cursor := by rw [← hs2]; rfl
  have hex2 : s2.exhausted = s.exhausted := by rw [← hs2]; rfl
  obtain ⟨tree2, owner2, held2, cursor2, exh2, evs2⟩ := s2
  simp only at htree2 hcur2 hex2 hheld2
  subst htree2
  clear hs2
  cases hcase with
  | nosplit r' nid' hms hrec ht' =>
    rw [solo_upRootArrive_nosplit P 0 (⟨s.tree, owner2, held2, cursor2, exh2, evs2⟩ : St K V) key f y _ _ hms]
    obtain ⟨s', hf, hpost⟩ := up_all P key f y hy s.tree.depth Ctx.top s.tree.root s.tree.order s.tree.nextId r' nid' cb
      ((⟨s.tree, owner2, held2, cursor2, exh2, evs2⟩ : St K V).rel 0 .tree) (treeOf_eta s.tree).symm
      (by show held2.erase _ = _; rw [hheld2]; simp) (ho2.rel _) hinv hrec
    refine ⟨s', hf, ?_, hpost.held, hpost.own, hpost.cursor.trans hcur2, hpost.exhausted.trans hex2, ?_⟩
    · rw [hpost.tree, ht']; rfl
    · exact hg2.trans_nil ((Grows.rel _ _).trans_nil hpost.evs)
  | right left right ls rs c' nid' hms hls hrs hlt hrec ht' =>
    obtain ⟨hlid, hrid, hsplit⟩ := maybeSplit_some_facts _ _ _ _ _ hms
    rw [upRootArrive_right P 0 (⟨s.tree, owner2, held2, cursor2, exh2, evs2⟩ : St K V) key f y _ left right ls rs hms hls hrs hlt]
    have hinv3 : IdInv (Ctx.kid (Ctx.top : Ctx K V (s.tree.depth + 1) (s.tree.depth + 1)) (s.tree.nextId + 1)
        [if P.lt key ls then key else ls, rs] [left] []) right (s.tree.nextId + 2) := by
      intro a
      have h1 := hinv a
      have h2 := hsplit a
      rw [count_ids_top] at h1
      rw [count_ids_kid, count_ids_top, List.flatMap_cons, List.flatMap_nil, List.append_nil, List.count_nil]
      have i1 := ite01 (s.tree.nextId = a)
      have i2 := ite01 (s.tree.nextId + 1 = a)
      omega
    have hfree : Lk.node (Node.id right) ∉ held2 := by
      intro hm
      rw [hheld2, hrid] at hm
      simp only [List.mem_cons, List.not_mem_nil, or_false, Lk.node.injEq] at hm
      rcases hm with h | h
      · exact Lk.noConfusion h
      · omega
    obtain ⟨s', hf, hpost⟩ := up_all P key f y hy s.tree.depth
      (Ctx.kid (Ctx.top : Ctx K V (s.tree.depth + 1) (s.tree.depth + 1)) (s.tree.nextId + 1)
        [if P.lt key ls then key else ls, rs] [left] []) right s.tree.order (s.tree.nextId + 2) c' nid' cb
      ((((((⟨s.tree, owner2, held2, cursor2, exh2, evs2⟩ : St K V).setTree
        (splitRoot s.tree (if P.lt key ls then key else ls) rs left right)).tick.acq 0 (.node (Node.id right))).rel 0
        (.node (Node.id s.tree.root))).rel 0 .tree)) rfl
      (by show ((held2 ++ [_]).erase _).erase _ = _; rw [hheld2]; simp)
      ((((ho2.setTree _).tick.acq _).rel _).rel _) hinv3 hrec
    refine ⟨s', SoloFin.park (ho2.setTree _) hfree hf, ?_, hpost.held, hpost.own, hpost.cursor.trans hcur2,
      hpost.exhausted.trans hex2, ?_⟩
    · rw [hpost.tree, ht']; rfl
    · refine hg2.trans_nil (Grows.trans_nil ?_ hpost.evs)
      exact (Grows.tick _).trans_nil ((Grows.acq _ _).trans_nil ((Grows.rel _ _).trans_nil (Grows.rel _ _)))
  | left left right ls rs c' nid' hms hls hrs hlt hrec ht' =>
    obtain ⟨hlid, hrid, hsplit⟩ := maybeSplit_some_facts _ _ _ _ _ hms
    rw [upRootArrive_left P 0 (⟨s.tree, owner2, held2, cursor2, exh2, evs2⟩ : St K V) key f y _ left right ls rs hms hls hrs hlt]
    have hinv3 : IdInv (Ctx.kid (Ctx.top : Ctx K V (s.tree.depth + 1) (s.tree.depth + 1)) (s.tree.nextId + 1)
        [if P.lt key ls then key else ls, rs] [] [right]) left (s.tree.nextId + 2) := by
      intro a
      have h1 := hinv a
      have h2 := hsplit a
      rw [count_ids_top] at h1
      rw [count_ids_kid, count_ids_top, List.flatMap_cons, List.flatMap_nil, List.append_nil, List.count_nil]
      have i1 := ite01 (s.tree.nextId = a)
      have i2 := ite01 (s.tree.nextId + 1 = a)
      omega
    rw [← hlid]
    obtain ⟨s', hf, hpost⟩ := up_all P key f y hy s.tree.depth
      (Ctx.kid (Ctx.top : Ctx K V (s.tree.depth + 1) (s.tree.depth + 1)) (s.tree.nextId + 1)
        [if P.lt key ls then key else ls, rs] [] [right]) left s.tree.order (s.tree.nextId + 2) c' nid' cb
      ((((⟨s.tree, owner2, held2, cursor2, exh2, evs2⟩ : St K V).setTree
        (splitRoot s.tree (if P.lt key ls then key else ls) rs left right)).rel 0 .tree)) rfl
      (by show held2.erase _ = _; rw [hheld2, hlid]; simp)
      ((ho2.setTree _).rel _) hinv3 hrec
    refine ⟨s', hf, ?_, hpost.held, hpost.own, hpost.cursor.trans hcur2, hpost.exhausted.trans hex2, ?_⟩
    · rw [hpost.tree, ht']; rfl
    · exact hg2.trans_nil ((Grows.rel _ _).trans_nil hpost.evs)

end Gobptree.Conc
