/-
  Separator-invariant block lemma for every continuation except Delete's (`resume_isep_U`):
  with the other threads' witnesses `Wit` (all about nodes the running thread does not hold)
  and the running thread's own, the separator invariant `ISepW` survives the stretch, the own
  witness being replaced by the one of the continuation the thread parks with.

  Helper files: `CIUpBase` (node-level form `ISepN`, equivalence with the flat view, context
  lemma `isepN_modify`), `CIUpTree` (tree level: `isepW_putInner`, `putLeaf_isep`,
  `upContinue_isep`), `CIUpNode` (split halves, lowered first separator), `CIUpChild`
  (`upChildArrive`), `CIUpRoot` (`upRootArrive`).
-/
import Gobptree.Proofs.CIUpRoot

namespace Gobptree.Conc
open Gobptree

variable {K V : Type} {lt : K → K → Bool}

/-- Search / NewScanner never write the tree -/
theorem roArrive_tree (P : Params K) (t : Nat) (s : St K V) (sc : Bool) (key : K) (hold : Lk) (n : Nat) :
    (roArrive P t s sc key hold n).1.tree = s.tree := by
  unfold roArrive
  have htree : (s.rel t hold).tree = s.tree := rfl
  simp only
  rw [htree]
  cases s.tree.find n with
  | none => rfl
  | some a =>
    simp only
    cases leafOf? a with
    | some l =>
      simp only
      cases sc with
      | true => rfl
      | false =>
        simp only [Bool.false_eq_true, if_false]
        cases Leaf.search P l key with
        | ok v => rfl
        | error e => rfl
    | none =>
      simp only
      cases innerRunts? a with
      | none => rfl
      | some runts =>
        simp only
        cases innerKidId? a (searchLE P.lt key runts) with
        | none => rfl
        | some c => rfl

/-- the update callback returned: the leaf is written -/
theorem upCallback_isep (P : Params K) (hpad : PadOk P) (t : Nat) (s : St K V) (key : K) (f : Option V → V)
    (leaf : Nat) (arg : Option V) {hole : Option Nat} (hok : TreeOk hole s.tree) (W : Nat → K → Prop)
    (hI : ISepW lt W s.tree) :
    ISepW lt (fun r x => W r x ∨ flowWit (resume P t s (.upCallback key f leaf arg)).2 r x)
      (resume P t s (.upCallback key f leaf arg)).1.tree := by
  have hids := hok.ids.1
  have hsame : ISepW lt (fun r x => W r x ∨ flowWit (Flow.panic : Flow K V) r x) s.tree :=
    ISepW.mono (fun r x hw => Or.inl hw) hI
  simp only [resume]
  cases hfind : s.tree.find leaf with
  | none => exact hsame
  | some a =>
    simp only
    cases hleaf : leafOf? a with
    | none => exact hsame
    | some l =>
      simp only
      have ha := leafOf?_some hleaf
      subst ha
      cases hup : Leaf.upsert P l key f with
      | error e => exact hsame
      | ok res =>
        obtain ⟨l', arg'⟩ := res
        simp only
        have hlen := leaf_par hok hfind
        obtain ⟨l'', arg'', hup', hid, _⟩ := Leaf.upsert_spec P hpad l key f hlen
        rw [hup] at hup'
        cases hup'
        have hn : l.id = leaf := findNode_id hfind
        have hf' : s.tree.find l'.id = some ⟨0, l⟩ := by rw [hid, hn]; exact hfind
        exact ISepW.mono (fun r x hw => Or.inl hw) (putLeaf_isep W l' hf' hids hI)

theorem resume_isep_U : ResumeIU K V := by
  intro lt P t s k H hole Wit hnd hK hpre hk hc hkp hcov hord hpos hW hI
  obtain ⟨hheld, hlock, _⟩ := hcov
  have hok := hpre.tree
  cases k with
  | roTree sc key => exact isep_unchanged Wit (.roTree sc key) s.tree _ _ (fun _ _ h => h) rfl hI
  | roNode sc key hold want =>
    exact isep_unchanged Wit (.roNode sc key hold want) s.tree _ _ (fun _ _ h => h)
      (roArrive_tree P t (s.acq t (.node want)) sc key hold want) hI
  | upTree key f y => exact isep_unchanged Wit (.upTree key f y) s.tree _ _ (fun _ _ h => h) rfl hI
  | upRoot key f y r =>
    have hcur : cursorLocks s.cursor = [] := hkp
    have hI' : ISepW lt Wit s.tree := ISepW.mono (fun r x hw => hw.elim id (fun h => absurd h id)) hI
    exact upRootArrive_isep P hK t (s.acq t (.node r)) key f y r H hole ⟨hok, hpre.order, hpre.pad⟩ hord hk
      (hheld _ (by simp [kontHeld])) (hlock _ rfl) hcur Wit hI'
  | upRootSib key f y root sib =>
    have hI' : ISepW lt Wit s.tree := ISepW.mono (fun r x hw => hw.elim id (fun h => absurd h id)) hI
    exact upContinue_isep P hK hpre.pad t (((s.acq t (.node sib)).rel t (.node root)).rel t .tree) key f y sib
      (hole := hole) hok hord Wit (ISepW.mono (fun r x hw => Or.inl hw) hI')
  | upChild key f y parent index child =>
    have hcur : cursorLocks s.cursor = [] := hkp
    exact upChildArrive_isep P hK t (s.acq t (.node child)) key f y parent index child H hole
      ⟨hok, hpre.order, hpre.pad⟩ hord hk hpos (hheld _ (by simp [kontHeld])) (hlock _ rfl) hcur Wit hW hI
  | upSib key f y parent child sib =>
    have hI' : ISepW lt Wit s.tree := ISepW.mono (fun r x hw => hw.elim id (fun h => absurd h id)) hI
    exact upContinue_isep P hK hpre.pad t (((s.acq t (.node sib)).rel t (.node child)).rel t (.node parent)) key f y sib
      (hole := hole) hok hord Wit (ISepW.mono (fun r x hw => Or.inl hw) hI')
  | upCallback key f leaf arg =>
    have hI' : ISepW lt Wit s.tree := ISepW.mono (fun r x hw => hw.elim id (fun h => absurd h id)) hI
    exact upCallback_isep P hpre.pad t s key f leaf arg hok Wit hI'
  | delTree key => simp [isDelK] at hnd
  | delRoot key r => simp [isDelK] at hnd
  | delLeft key frames node index left root => simp [isDelK] at hnd
  | delChild key frames node index left child root => simp [isDelK] at hnd
  | delRight key rest fr right root => simp [isDelK] at hnd
  | hop cur next => exact isep_unchanged Wit (.hop cur next) s.tree _ _ (fun _ _ h => h) rfl hI
  | paused => exact isep_unchanged Wit .paused s.tree _ _ (fun _ _ h => h) rfl hI

end Gobptree.Conc

#print axioms Gobptree.Conc.resume_isep_U
