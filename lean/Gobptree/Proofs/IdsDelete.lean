/-
  Leaf identities under Delete: the surviving leaves are a sub-sequence of the old ones.
  Read off the code of the operations; independent of keys and of the shape invariant.
-/
import Gobptree.Proofs.Ids
import Gobptree.Proofs.Context

namespace Gobptree

variable {K V : Type}

/-! ### Delete: helper lemmas -/

theorem leafIds_leaf_d (l : Leaf K V) : leafIds (d := 0) (l : Node K V 0) = [l.id] := rfl

theorem leafIds_inner_d {d : Nat} (i : Node K V (d + 1)) :
    leafIds i = (Inner.kids (i : Inner K (Node K V d))).flatMap (leafIds (d := d)) := by
  unfold leafIds
  simp only [Node.leaves, List.map_flatMap]

theorem leafIds_mk {d : Nat} (id : Nat) (runts : List K) (kids : List (Node K V d)) :
    leafIds (d := d + 1) (Inner.mk id runts kids : Inner K (Node K V d)) = kids.flatMap (leafIds (d := d)) :=
  leafIds_inner_d _

theorem ite_some_inv {α : Type} {c : Prop} [Decidable c] {o : Option α} {x : α}
    (h : (if c then o else none) = some x) : o = some x := by
  split at h
  · exact h
  · cases h

theorem split_one {α : Type} (l : List α) (j : Nat) (x : α) (h : l[j]? = some x) :
    ∃ a b, l = a ++ x :: b ∧ a.length = j := by
  obtain ⟨hj, hx⟩ := List.getElem?_eq_some_iff.mp h
  exact ⟨l.take j, l.drop (j + 1), by rw [← hx]; exact self_form l j hj, length_take_of_lt l j hj⟩

theorem split_two {α : Type} (l : List α) (j : Nat) (x y : α) (h : l[j]? = some x)
    (h2 : l[j + 1]? = some y) : ∃ a b, l = a ++ x :: y :: b ∧ a.length = j := by
  obtain ⟨a, b, rfl, rfl⟩ := split_one l j x h
  rw [List.getElem?_append_right (by omega)] at h2
  cases b with
  | nil => simp at h2
  | cons z b =>
    simp at h2
    subst h2
    exact ⟨a, b, rfl, rfl⟩

theorem Leaf.deleteKey_id (P : Params K) (l l' : Leaf K V) (m : Nat) (key : K) (s : Bool)
    (h : Leaf.deleteKey P l m key = .ok (l', s)) : l'.id = l.id := by
  simp only [Leaf.deleteKey] at h
  split at h
  · cases h; rfl
  · split at h
    · cases h; rfl
    · split at h
      · cases h
      · cases h; rfl

theorem adoptFromRight_ids : ∀ (d : Nat) (left right l' r' : Node K V d),
    Node.adoptFromRight left right = .ok (l', r') →
    leafIds l' ++ leafIds r' = leafIds left ++ leafIds right := by
  intro d
  cases d with
  | zero =>
    intro left right l' r' h
    simp only [Node.adoptFromRight] at h
    split at h
    · cases h; rfl
    · cases h
  | succ d =>
    intro left right l' r' h
    simp only [Node.adoptFromRight] at h
    split at h
    · rename_i k c hk hc
      cases h
      obtain ⟨a, b, hab, ha⟩ := split_one _ _ _ hc
      have ha' : a = [] := List.length_eq_zero_iff.mp ha
      subst ha'
      simp only [leafIds_inner_d, leafIds_mk, popFrontIdiom_eq, hab]
      simp
    · cases h

theorem adoptFromLeft_ids (P : Params K) : ∀ (d : Nat) (left right l' r' : Node K V d),
    Node.adoptFromLeft P left right = .ok (l', r') →
    List.Sublist (leafIds l' ++ leafIds r') (leafIds left ++ leafIds right) := by
  intro d
  cases d with
  | zero =>
    intro left right l' r' h
    simp only [Node.adoptFromLeft] at h
    split at h
    · cases h
    · split at h
      · cases h
      · split at h
        · cases h; exact List.Sublist.refl _
        · cases h
  | succ d =>
    intro left right l' r' h
    simp only [Node.adoptFromLeft] at h
    split at h
    · cases h
    · split at h
      · cases h
      · split at h
        · rename_i k c hk hc
          cases h
          obtain ⟨a, b, hab, ha⟩ := split_one _ _ _ hc
          simp only [leafIds_inner_d, leafIds_mk, pushFrontIdiom_eq]
          rw [hab, ← ha, List.take_left' rfl]
          simp only [List.flatMap_append, List.flatMap_cons, List.append_assoc]
          refine List.Sublist.append (List.Sublist.refl _) (List.Sublist.append (List.Sublist.refl _) ?_)
          exact List.sublist_append_right _ _
        · cases h

theorem absorbRight_ids : ∀ (d : Nat) (left right m : Node K V d),
    Node.absorbRight left right = .ok m →
    List.Sublist (leafIds m) (leafIds left ++ leafIds right) := by
  intro d
  cases d with
  | zero =>
    intro left right m h
    simp only [Node.absorbRight] at h
    split at h
    · cases h
    · cases h
      exact List.sublist_append_left _ _
  | succ d =>
    intro left right m h
    simp only [Node.absorbRight] at h
    cases h
    simp only [leafIds_inner_d, leafIds_mk, List.flatMap_append]
    exact List.Sublist.refl _

theorem rebalance_inv (P : Params K) (vr : Variant) (minSize : Nat) {d : Nat}
    (i i' : Inner K (Node K V d)) (index : Nat) (child : Node K V d) (s : Bool)
    (h : rebalance P vr minSize i index child = .ok (i', s)) :
    (∃ right c' r', i.kids[index + 1]? = some right ∧
        Node.adoptFromRight child right = .ok (c', r') ∧
        i'.kids = (i.kids.set index c').set (index + 1) r') ∨
    (∃ left l' c', 0 < index ∧ i.kids[index - 1]? = some left ∧
        Node.adoptFromLeft P left child = .ok (l', c') ∧
        i'.kids = (i.kids.set (index - 1) l').set index c') ∨
    (∃ left l', 0 < index ∧ i.kids[index - 1]? = some left ∧
        Node.absorbRight left child = .ok l' ∧
        i'.kids = deleteIdiom (i.kids.set (index - 1) l') index) ∨
    (∃ right c', i.kids[index + 1]? = some right ∧
        Node.absorbRight child right = .ok c' ∧
        i'.kids = deleteIdiom (i.kids.set index c') (index + 1)) := by
  simp only [rebalance] at h
  generalize hr : (if decide (index + 1 < i.runts.length) = true then i.kids[index+1]? else none) = right? at h
  generalize hl : (if index > 0 then i.kids[index-1]? else none) = left? at h
  have hR : ∀ r, right? = some r → i.kids[index+1]? = some r := by
    intro r e; subst e; split at hr
    · exact hr
    · cases hr
  have hL : ∀ l, left? = some l → 0 < index ∧ i.kids[index-1]? = some l := by
    intro r e; subst e; split at hl
    · rename_i h0; exact ⟨h0, hl⟩
    · cases hl
  clear hr hl
  split at h
  · cases h
  · split at h
    · rename_i right heq
      have hrr : right? = some right := ite_some_inv heq
      cases hA : child.adoptFromRight right with
      | error e => rw [hA] at h; cases h
      | ok p =>
        rw [hA] at h
        obtain ⟨c', r'⟩ := p
        cases hS : Node.smallest r' with
        | error e => simp only [bind, Except.bind, hS] at h; cases h
        | ok sm =>
          simp only [bind, Except.bind, hS] at h
          split at h
          · cases h
          · cases h
            exact Or.inl ⟨right, c', r', hR _ hrr, hA, rfl⟩
    · split at h
      · cases h
      · split at h
        · rename_i left heq
          have hll : left? = some left := ite_some_inv heq
          cases hA : Node.adoptFromLeft P left child with
          | error e => rw [hA] at h; cases h
          | ok p =>
            rw [hA] at h
            obtain ⟨l', c'⟩ := p
            simp only [bind, Except.bind] at h
            split at h
            · cases h
            · cases h
              exact Or.inr (Or.inl ⟨left, l', c', (hL _ hll).1, (hL _ hll).2, hA, rfl⟩)
        · split at h
          · rename_i left heq
            have hll : left? = some left := ite_some_inv heq
            cases hA : Node.absorbRight left child with
            | error e => rw [hA] at h; cases h
            | ok l' =>
              rw [hA] at h
              simp only [bind, Except.bind] at h
              split at h
              · cases h
              · cases h
                exact Or.inr (Or.inr (Or.inl ⟨left, l', (hL _ hll).1, (hL _ hll).2, hA, rfl⟩))
          · cases right? with
            | none =>
              dsimp only at h
              split at h <;> cases h
            | some right =>
              dsimp only at h
              split at h
              · cases h
              · cases hA : Node.absorbRight child right with
                | error e => rw [hA] at h; cases h
                | ok c' =>
                  rw [hA] at h
                  simp only [bind, Except.bind] at h
                  split at h
                  · cases h
                  · cases h
                    exact Or.inr (Or.inr (Or.inr ⟨right, c', hR _ rfl, hA, rfl⟩))

theorem sublist_mid {α : Type} {A B X Y : List α} (h : List.Sublist X Y) :
    List.Sublist (A ++ (X ++ B)) (A ++ (Y ++ B)) :=
  List.Sublist.append (List.Sublist.refl _) (List.Sublist.append h (List.Sublist.refl _))

theorem rebalance_ids (P : Params K) (vr : Variant) (minSize : Nat) {d : Nat}
    (i i' : Inner K (Node K V d)) (index : Nat) (child c : Node K V d) (s : Bool)
    (h : rebalance P vr minSize i index child = .ok (i', s))
    (hc : i.kids[index]? = some c)
    (hrec : List.Sublist (leafIds child) (leafIds c)) :
    List.Sublist (i'.kids.flatMap leafIds) (i.kids.flatMap leafIds) := by
  rcases rebalance_inv P vr minSize i i' index child s h with
    ⟨right, c', r', hright, hadopt, hk⟩ | ⟨left, l', c', hpos, hleft, hadopt, hk⟩ |
    ⟨left, l', hpos, hleft, habs, hk⟩ | ⟨right, c', hright, habs, hk⟩
  · obtain ⟨a, b, hab, ha⟩ := split_two _ _ _ _ hc hright
    subst ha
    rw [hab, form_set_pivot, form_set_next] at hk
    have e := adoptFromRight_ids d child right c' r' hadopt
    have hs : List.Sublist (leafIds c' ++ leafIds r') (leafIds c ++ leafIds right) := by
      rw [e]; exact List.Sublist.append hrec (List.Sublist.refl _)
    have := sublist_mid (A := a.flatMap leafIds) (B := b.flatMap leafIds) hs
    rw [hk, hab]
    simpa [List.flatMap_append, List.flatMap_cons, List.append_assoc] using this
  · obtain ⟨j, rfl⟩ : ∃ j, index = j + 1 := ⟨index - 1, by omega⟩
    simp only [Nat.add_sub_cancel] at hleft hk
    obtain ⟨a, b, hab, ha⟩ := split_two _ _ _ _ hleft hc
    subst ha
    rw [hab, form_set_pivot, form_set_next] at hk
    have e := adoptFromLeft_ids P d left child l' c' hadopt
    have hs : List.Sublist (leafIds l' ++ leafIds c') (leafIds left ++ leafIds c) :=
      e.trans (List.Sublist.append (List.Sublist.refl _) hrec)
    have := sublist_mid (A := a.flatMap leafIds) (B := b.flatMap leafIds) hs
    rw [hk, hab]
    simpa [List.flatMap_append, List.flatMap_cons, List.append_assoc] using this
  · obtain ⟨j, rfl⟩ : ∃ j, index = j + 1 := ⟨index - 1, by omega⟩
    simp only [Nat.add_sub_cancel] at hleft hk
    obtain ⟨a, b, hab, ha⟩ := split_two _ _ _ _ hleft hc
    subst ha
    rw [hab, form_set_pivot, form_delete_next] at hk
    have e := absorbRight_ids d left child l' habs
    have hs : List.Sublist (leafIds l') (leafIds left ++ leafIds c) :=
      e.trans (List.Sublist.append (List.Sublist.refl _) hrec)
    have := sublist_mid (A := a.flatMap leafIds) (B := b.flatMap leafIds) hs
    rw [hk, hab]
    simpa [List.flatMap_append, List.flatMap_cons, List.append_assoc] using this
  · obtain ⟨a, b, hab, ha⟩ := split_two _ _ _ _ hc hright
    subst ha
    rw [hab, form_set_pivot, form_delete_next] at hk
    have e := absorbRight_ids d child right c' habs
    have hs : List.Sublist (leafIds c') (leafIds c ++ leafIds right) :=
      e.trans (List.Sublist.append hrec (List.Sublist.refl _))
    have := sublist_mid (A := a.flatMap leafIds) (B := b.flatMap leafIds) hs
    rw [hk, hab]
    simpa [List.flatMap_append, List.flatMap_cons, List.append_assoc] using this

/-- Delete: the surviving leaves are a sub-sequence of the old ones -/
theorem deleteNode_ids (P : Params K) (vr : Variant) (minSize : Nat) (key : K) :
    ∀ (d : Nat) (n n' : Node K V d) (small : Bool),
      deleteNode P vr minSize key d n = .ok (n', small) → List.Sublist (leafIds n') (leafIds n) := by
  intro d
  induction d with
  | zero =>
    intro n n' small h
    simp only [deleteNode] at h
    have e := Leaf.deleteKey_id P n n' minSize key small h
    show List.Sublist [Leaf.id n'] [Leaf.id n]
    rw [e]
    exact List.Sublist.refl _
  | succ d ih =>
    intro n n' small h
    simp only [deleteNode] at h
    split at h
    · rename_i child hc
      cases hrec : deleteNode P vr minSize key d child with
      | error e => rw [hrec] at h; cases h
      | ok p =>
        obtain ⟨child', sm⟩ := p
        rw [hrec] at h
        simp only [bind, Except.bind] at h
        have hsub := ih child child' sm hrec
        cases sm with
        | false =>
          simp only [Bool.not_false] at h
          cases h
          obtain ⟨a, b, hab, ha⟩ := split_one _ _ _ hc
          rw [leafIds_inner_d, leafIds_mk, hab, ← ha, form_set_pivot]
          have := sublist_mid (A := a.flatMap leafIds) (B := b.flatMap leafIds) hsub
          simpa [List.flatMap_append, List.flatMap_cons, List.append_assoc] using this
        | true =>
          simp only [Bool.not_true, Bool.false_eq_true] at h
          rw [leafIds_inner_d, leafIds_inner_d]
          exact rebalance_ids P vr minSize n n' _ child' child small h hc hsub
    · cases h

theorem collapseRoot_ids (order nextId : Nat) : ∀ (d : Nat) (r : Node K V d) (t' : Tree K V),
    collapseRoot order nextId d r = .ok t' →
    List.Sublist (leafIds t'.root) (leafIds r) ∧ t'.nextId = nextId := by
  intro d
  cases d with
  | zero =>
    intro r t' h
    simp only [collapseRoot] at h
    cases h
    exact ⟨List.Sublist.refl _, rfl⟩
  | succ d =>
    intro r t' h
    simp only [collapseRoot] at h
    split at h
    · cases h
    · rename_i c hc
      cases h
      obtain ⟨a, b, hab, ha⟩ := split_one _ _ _ hc
      have ha' : a = [] := List.length_eq_zero_iff.mp ha
      subst ha'
      refine ⟨?_, rfl⟩
      rw [leafIds_inner_d, hab]
      simp only [List.nil_append, List.flatMap_cons]
      exact List.sublist_append_left _ _

theorem Tree.delete_ids (P : Params K) (vr : Variant) (t t' : Tree K V) (key : K)
    (h : t.delete P vr key = .ok t') :
    List.Sublist (leafIds t'.root) (leafIds t.root) ∧ t'.nextId = t.nextId := by
  unfold Tree.delete at h
  simp only [bind, Except.bind] at h
  split at h
  · cases h
  · rename_i p hD
    obtain ⟨root', small⟩ := p
    have hsub := deleteNode_ids P vr _ key t.depth t.root root' small hD
    dsimp only at h
    split at h
    · cases h
      exact ⟨hsub, rfl⟩
    · obtain ⟨h1, h2⟩ := collapseRoot_ids t.order t.nextId t.depth root' t' h
      exact ⟨h1.trans hsub, h2⟩

end Gobptree
