/-
  Separator invariant, block lemmas for the non-Delete continuations, part 2: tree level —
  rewriting a node (`isepW_modify`, `isepW_putInner`), writing a leaf (`putLeaf_isep`), and
  the last stretch of an Insert/Update block (`upContinue_isep`).
-/
import Gobptree.Proofs.CIUpBase

namespace Gobptree.Conc
open Gobptree

variable {K V : Type} {lt : K → K → Bool}

/-! ### rewriting one node of the tree -/

theorem isepW_modify (Wit Wit' : Nat → K → Prop) {t : Tree K V} {id d' : Nat} {m : Node K V d'}
    (f : (d : Nat) → Node K V d → Node K V d) (m2 : Node K V d') (hfm : f d' m = m2)
    (hf : t.find id = some ⟨d', m⟩) (hids : t.ids.Nodup) (hpar : ParTree t)
    (hids' : (t.modify id f).ids.Nodup) (hpar' : ParTree (t.modify id f))
    (hI : ISepW lt Wit t) (hw : ∀ r x, r ≠ id → Wit r x → Wit' r x)
    (hid : Node.id m2 = id) (hI' : ISepN lt Wit' d' m2)
    (hface : ∀ lo' hi' s, t.boundsOf id = some (lo', hi') → lo' = some s →
      SepFact lt Wit d' m s → SepFact lt Wit' d' m2 s) :
    ISepW lt Wit' (t.modify id f) := by
  subst hfm
  rw [isepW_iff_N Wit hids hpar] at hI
  rw [isepW_iff_N Wit' hids' hpar']
  obtain ⟨lo', hi', hb, hrest⟩ :=
    isepN_modify Wit Wit' id f t.depth t.root none none d' m hf hids hpar hI hw hid hI'
  exact (hrest (fun s hs => hface lo' hi' s hb hs)).1

theorem isepW_putInner (Wit Wit' : Nat → K → Prop) {t : Tree K V} {d : Nat} {p : Node K V (d + 1)}
    (p' : Inner K (Node K V d))
    (hf : t.find p'.id = some ⟨d + 1, p⟩) (hids : t.ids.Nodup) (hpar : ParTree t)
    (hids' : (putInner t p').ids.Nodup) (hpar' : ParTree (putInner t p'))
    (hI : ISepW lt Wit t) (hw : ∀ r x, r ≠ p'.id → Wit r x → Wit' r x)
    (hI' : ISepN lt Wit' (d + 1) p')
    (hface : ∀ lo' hi' s, t.boundsOf p'.id = some (lo', hi') → lo' = some s →
      SepFact lt Wit (d + 1) p s → SepFact lt Wit' (d + 1) p' s) :
    ISepW lt Wit' (putInner t p') :=
  isepW_modify Wit Wit' (d' := d + 1) (m := p) _ (p' : Node K V (d + 1)) (putInner_apply p' p) hf hids hpar hids' hpar'
    hI hw rfl hI' hface

/-! ### writing a leaf -/

theorem lookup_swap {β : Type} (n : Nat) (a b : β) (R : List (Nat × β)) (g : Nat) (sg : β) :
    ∀ L : List (Nat × β), (L ++ [(n, a)] ++ R).lookup g = some sg → sg ≠ a →
      (L ++ [(n, b)] ++ R).lookup g = some sg := by
  intro L
  induction L with
  | nil =>
    intro h hne
    simp only [List.nil_append, List.singleton_append, List.lookup_cons] at h ⊢
    by_cases e : g = n
    · subst e
      simp only [beq_self_eq_true, Option.some.injEq] at h
      exact absurd h.symm hne
    · have hb : (g == n) = false := by simpa using e
      rw [hb] at h ⊢
      exact h
  | cons x L ih =>
    intro h hne
    obtain ⟨i, y⟩ := x
    simp only [List.cons_append, List.lookup_cons] at h ⊢
    by_cases e : g = i
    · subst e
      simp only [beq_self_eq_true] at h ⊢
      exact h
    · have hb : (g == i) = false := by simpa using e
      rw [hb] at h ⊢
      exact ih h hne

theorem putLeaf_isep (W : Nat → K → Prop) {t : Tree K V} {l : Node K V 0} (l' : Leaf K V)
    (hf : t.find l'.id = some ⟨0, l⟩) (hids : t.ids.Nodup) (h : ISepW lt W t) :
    ISepW lt W (putLeaf t l') := by
  obtain ⟨L, R, hflat, hflat', _⟩ := putLeaf_flat l' hf hids
  have hid : (l : Leaf K V).id = l'.id := findNode_id hf
  have e : flat (d := 0) l = [(l'.id, shallow (d := 0) l)] :=
    (flat_leaf (l : Leaf K V)).trans (congrArg (fun i => [(i, shallow (d := 0) l)]) hid)
  rw [e] at hflat
  rw [flat_leaf l'] at hflat'
  intro g j r sg sr s a b c d e
  have a' : t.look g = some sg := by
    unfold Tree.look at a ⊢
    rw [hflat'] at a
    rw [hflat]
    refine lookup_swap l'.id _ _ R g sg L a ?_
    intro e'
    rw [e', shallow_leaf_kids l'] at b
    simp at b
  have c' : t.look r = some sr := by
    unfold Tree.look at c ⊢
    rw [hflat'] at c
    rw [hflat]
    refine lookup_swap l'.id _ _ R r sr L c ?_
    intro e'
    rw [e'] at d
    exact Nat.lt_irrefl 0 d
  exact h g j r sg sr s a' b c' d e

/-! ### the last stretch of an Insert/Update block -/

/-- node `n` is inner and `key` is below its first separator: the descent continuing at `n`
    parks at `upChild key … n 0 …` -/
def LowAt (lt : K → K → Bool) (t : Tree K V) (n : Nat) (key : K) : Prop :=
  ∃ sh, t.look n = some sh ∧ 0 < sh.height ∧ ∃ h0, sh.keys.head? = some h0 ∧ lt key h0 = true

/-- the tree after `upContinue`: unchanged, or the leaf written -/
theorem upContinue_tree_cases (P : Params K) (t : Nat) (s : St K V) (key : K) (f : Option V → V) (y : Option Bool)
    (n : Nat) :
    ((upContinue P t s key f y n).1.tree = s.tree ∨
      ∃ (l l' : Leaf K V) (arg : Option V), s.tree.find n = some ⟨0, l⟩ ∧ Leaf.upsert P l key f = .ok (l', arg) ∧
        (upContinue P t s key f y n).1.tree = putLeaf s.tree l') ∧
    (∀ r x, flowWit (upContinue P t s key f y n).2 r x → ∃ sh, s.tree.look n = some sh ∧ 0 < sh.height) := by
  unfold upContinue
  cases hfind : s.tree.find n with
  | none => exact ⟨Or.inl rfl, fun r x h => absurd h id⟩
  | some a =>
    simp only
    cases hleaf : leafOf? a with
    | some l =>
      simp only
      have ha := leafOf?_some hleaf
      subst ha
      unfold upLeaf
      cases hu : Leaf.upsert P l key f with
      | error e => exact ⟨Or.inl rfl, fun r x h => absurd h id⟩
      | ok res =>
        obtain ⟨l', arg⟩ := res
        simp only
        cases y with
        | none => exact ⟨Or.inr ⟨l, l', arg, rfl, hu, rfl⟩, fun r x h => absurd h id⟩
        | some b =>
          cases b with
          | true => exact ⟨Or.inl rfl, fun r x h => absurd h id⟩
          | false => exact ⟨Or.inr ⟨l, l', arg, rfl, hu, rfl⟩, fun r x h => absurd h id⟩
    | none =>
      simp only
      obtain ⟨d, p, rfl⟩ := leafOf?_none hleaf
      have hl : s.tree.look n = some (shallow (d := d + 1) p) := by rw [look_eq_find, hfind]; rfl
      have hr : innerRunts? (⟨d + 1, p⟩ : AnyNode K V) = some p.runts := rfl
      rw [hr]
      simp only
      cases hkid : innerKidId? (⟨d + 1, p⟩ : AnyNode K V) (searchLE P.lt key p.runts) with
      | none => exact ⟨Or.inl rfl, fun r x h => absurd h id⟩
      | some c => exact ⟨Or.inl rfl, fun r x _ => ⟨_, hl, Nat.succ_pos d⟩⟩

theorem upContinue_isep (P : Params K) (hK : KParams lt P) (hpad : PadOk P) (t : Nat) (s1 : St K V) (key : K)
    (f : Option V → V) (y : Option Bool) (n : Nat) {hole : Option Nat}
    (hok : TreeOk hole s1.tree) (hord : OrdTree lt s1.tree) (W : Nat → K → Prop)
    (h : ISepW lt (fun r x => W r x ∨ (r = n ∧ x = key ∧ LowAt lt s1.tree n key)) s1.tree) :
    ISepW lt (fun r x => W r x ∨ flowWit (upContinue P t s1 key f y n).2 r x)
      (upContinue P t s1 key f y n).1.tree := by
  have hids := hok.ids.1
  have hpar := parTree_of_treeOk hok
  by_cases hL : LowAt lt s1.tree n key
  · obtain ⟨sh, hl, hpos, h0, hh0, hlt⟩ := hL
    obtain ⟨a, hfind, hsh, _⟩ := find_some_of_look hl
    obtain ⟨h1, h2, h3⟩ := any_inner a (by rw [hsh]; exact hpos)
    rw [hsh] at h2 h3
    obtain ⟨hlen, hone, _⟩ := (occ_of_look hok.occ hl).2.2.2 hpos
    have hsorted : Sorted lt sh.keys := by
      obtain ⟨d', m⟩ := a
      subst hsh
      rw [shallow_height] at hpos
      cases d' with
      | zero => simp at hpos
      | succ d =>
        obtain ⟨lo', hi', PL, PR, z⟩ := Tree.zoom hK.swo hfind hids hpar hord
        exact Ord_sorted hK.swo m z.ord z.par
    have hidx : searchLE P.lt key sh.keys = 0 := by
      rw [hK.lt]
      exact searchLE_zero_of_lt hK.swo key sh.keys hsorted h0 hh0 hlt
    have hk0 : 0 < sh.kids.length := by omega
    have hcomp : upContinue P t s1 key f y n =
        (s1, .park (.want (.node sh.kids[0]) (.upChild key f y n 0 sh.kids[0]))) := by
      unfold upContinue
      rw [hfind]
      simp only
      rw [h1, h2]
      simp only
      rw [h3, hidx, List.getElem?_eq_getElem hk0]
    rw [hcomp]
    refine ISepW.mono ?_ h
    intro r x hw
    rcases hw with hw | ⟨e1, e2, _⟩
    · exact Or.inl hw
    · exact Or.inr ⟨e1, e2⟩
  · have h' : ISepW lt W s1.tree := by
      refine ISepW.mono ?_ h
      intro r x hw
      rcases hw with hw | ⟨_, _, hw⟩
      · exact hw
      · exact absurd hw hL
    obtain ⟨hc, _⟩ := upContinue_tree_cases P t s1 key f y n
    rcases hc with hc | ⟨l, l', arg, hfind, hup, hc⟩
    · rw [hc]
      exact ISepW.mono (fun r x hw => Or.inl hw) h'
    · rw [hc]
      have hlen := leaf_par hok hfind
      obtain ⟨l'', arg'', hup', hid, _⟩ := Leaf.upsert_spec P hpad l key f hlen
      rw [hup] at hup'
      cases hup'
      have hn : l.id = n := findNode_id hfind
      have hf' : s1.tree.find l'.id = some ⟨0, l⟩ := by rw [hid, hn]; exact hfind
      exact ISepW.mono (fun r x hw => Or.inl hw) (putLeaf_isep W l' hf' hids h')

/-- a stretch that leaves the tree alone and starts without a witness of its own -/
theorem isep_unchanged (W : Nat → K → Prop) (k : Kont K V) (t t' : Tree K V) (fl : Flow K V)
    (hk : ∀ r x, ¬ kontWit k r x) (htree : t' = t)
    (h : ISepW lt (fun r x => W r x ∨ kontWit k r x) t) :
    ISepW lt (fun r x => W r x ∨ flowWit fl r x) t' := by
  rw [htree]
  refine ISepW.mono ?_ h
  intro r x hw
  rcases hw with hw | hw
  · exact Or.inl hw
  · exact absurd hw (hk r x)

end Gobptree.Conc
