/-
  Key-order zoom lemmas, tree level (the API for the block-level key-order proofs).

  A block rewrites one node found by `Tree.find` and written back by `putInner`/`putLeaf`.
  `Tree.zoom` hands out the interval `[lo', hi')` the tree assigns to that node, the pairs
  before (`PL`) and after (`PR`) it, and — `Zoom.putInner`, `Zoom.putLeaf` — the rule that any
  replacement that is `Ord` in the same interval can be written back.  `Tree.route_off` /
  `Tree.route_on` / `Tree.stable` relate search routes before and after; `lookup_of_find`,
  `putLeaf_upsert`, `putLeaf_delete` are the leaf-level consequences for `t.abs`.

  Helper files: `CKZoomBase` (`ParN`, `boundsOf`, decompositions), `CKZoomRoute` (routes),
  `CKZoomOrd` (`Zoom`, `zoom`), `CKZoomFacts` (routing step, `route_hi`, `routeLeaf`, leaf
  authority), `CKZoomLeaf` (leaf operations, `Spec` operations in the middle).
-/
import Gobptree.Proofs.CKZoomLeaf

namespace Gobptree.Conc
open Gobptree

variable {K V : Type} {lt : K → K → Bool}

/-! ### `Ord` / `pairs` -/

/-- **tree-level zoom.** -/
theorem Tree.zoom (h : SWO lt) {t : Tree K V} {id d' : Nat} {m : Node K V d'}
    (hf : t.find id = some ⟨d', m⟩) (hids : t.ids.Nodup) (hpar : ParTree t) (hord : OrdTree lt t) :
    ∃ lo' hi' PL PR, Zoom lt id t.depth none none t.root d' m lo' hi' PL PR :=
  Conc.zoom h id t.depth t.root none none d' m hf hids hpar hord

theorem Zoom.abs {t : Tree K V} {id d' : Nat} {m : Node K V d'} {lo' hi' : Option K} {PL PR : List (K × V)}
    (z : Zoom lt id t.depth none none t.root d' m lo' hi' PL PR) :
    t.abs = PL ++ Node.pairs m ++ PR := by
  rw [Tree.abs_eq_pairs]; exact z.pairs

theorem Zoom.tree_bounds {t : Tree K V} {id d' : Nat} {m : Node K V d'} {lo' hi' : Option K} {PL PR : List (K × V)}
    (z : Zoom lt id t.depth none none t.root d' m lo' hi' PL PR) :
    t.boundsOf id = some (lo', hi') := z.bounds

/-- keys inside the node's interval separate `PL` from `PR` -/
theorem Zoom.sep_of_bounds {id d d' : Nat} {lo hi : Option K} {n : Node K V d} {m : Node K V d'}
    {lo' hi' : Option K} {PL PR : List (K × V)}
    (z : Zoom lt id d lo hi n d' m lo' hi' PL PR) (key : K) (hlo : leO lt lo' key) (hhi : ltO lt key hi') :
    AllLt lt PL key ∧ AllGt lt PR key :=
  ⟨fun p hp => z.left p hp key hlo, fun p hp => z.right p hp key hhi⟩

/-- writing back a replacement `m2` (as `f d' m`) that fits the interval -/
theorem Zoom.modify {t : Tree K V} {id d' : Nat} {m : Node K V d'} {lo' hi' : Option K} {PL PR : List (K × V)}
    (z : Zoom lt id t.depth none none t.root d' m lo' hi' PL PR)
    (f : (d : Nat) → Node K V d → Node K V d) (m2 : Node K V d') (hfm : f d' m = m2)
    (hO : Ord lt d' lo' hi' m2) (hP : ParN d' m2) :
    OrdTree lt (t.modify id f) ∧ ParTree (t.modify id f) ∧
    (t.modify id f).abs = PL ++ Node.pairs m2 ++ PR := by
  subst hfm
  obtain ⟨h1, h2, h3⟩ := z.rewrite f hO hP
  refine ⟨h1, h2, ?_⟩
  rw [Tree.abs_eq_pairs]; exact h3

/-- the rewriting function of `putLeaf` -/
def leafFn (l' : Leaf K V) : (d : Nat) → Node K V d → Node K V d :=
  fun d n => match d, n with
    | 0, _ => (l' : Leaf K V)
    | _ + 1, n => n

theorem putLeaf_eq (t : Tree K V) (l' : Leaf K V) : putLeaf t l' = t.modify l'.id (leafFn l') := rfl

theorem putLeaf_apply (l' : Leaf K V) (l : Node K V 0) : leafFn l' 0 l = l' := rfl

/-- writing an inner node back (compare `putInner_flat`) -/
theorem Zoom.putInner {t : Tree K V} {d : Nat} {p : Node K V (d + 1)} (p' : Inner K (Node K V d))
    {lo' hi' : Option K} {PL PR : List (K × V)}
    (z : Zoom lt p'.id t.depth none none t.root (d + 1) p lo' hi' PL PR)
    (hO : Ord lt (d + 1) lo' hi' p') (hP : ParN (d + 1) p') :
    OrdTree lt (putInner t p') ∧ ParTree (putInner t p') ∧
    (putInner t p').abs = PL ++ Node.pairs (d := d + 1) p' ++ PR :=
  z.modify _ p' (putInner_apply p' p) hO hP

/-- writing a leaf back (compare `putLeaf_flat`) -/
theorem Zoom.putLeaf {t : Tree K V} {l : Node K V 0} (l' : Leaf K V)
    {lo' hi' : Option K} {PL PR : List (K × V)}
    (z : Zoom lt l'.id t.depth none none t.root 0 l lo' hi' PL PR)
    (hO : Ord lt 0 lo' hi' l') :
    OrdTree lt (putLeaf t l') ∧ ParTree (putLeaf t l') ∧
    (putLeaf t l').abs = PL ++ l'.keys.zip l'.vals ++ PR :=
  z.modify (leafFn l') l' (putLeaf_apply l' l) hO trivial

/-! ### routes -/

/-- a route that does not pass `id` is not changed by rewriting `id` -/
theorem Tree.route_off {t : Tree K V} {id d' : Nat} {m : Node K V d'}
    (hf : t.find id = some ⟨d', m⟩) (hids : t.ids.Nodup) (hpar : ParTree t) (key : K)
    (hoff : ¬ OnRoute lt t key id) (f : (d : Nat) → Node K V d → Node K V d) :
    (t.modify id f).routeB lt key = t.routeB lt key :=
  (route_zoom key id t.depth t.root none none d' m hf hids hpar).1
    (fun a b hab => hoff ⟨a, b, hab⟩) f

/-- a route that passes `id` does so with the interval `boundsOf` assigns, and is a fixed
    prefix followed by the route inside the node, before and after a rewrite -/
theorem Tree.route_on {t : Tree K V} {id d' : Nat} {m : Node K V d'}
    (hf : t.find id = some ⟨d', m⟩) (hids : t.ids.Nodup) (hpar : ParTree t) (key : K)
    (a b : Option K) (hon : (id, a, b) ∈ t.routeB lt key) :
    t.boundsOf id = some (a, b) ∧
    ∃ pre, (∀ e ∈ pre, e.1 ≠ id) ∧ t.routeB lt key = pre ++ routeB lt key d' a b m ∧
      ∀ (f : (d : Nat) → Node K V d → Node K V d) (m2 : Node K V d'), f d' m = m2 →
        (t.modify id f).routeB lt key = pre ++ routeB lt key d' a b m2 := by
  obtain ⟨hb, pre, hpre, h1, h2⟩ :=
    (route_zoom (lt := lt) key id t.depth t.root none none d' m hf hids hpar).2 a b hon
  exact ⟨hb, pre, hpre, h1, fun f m2 hfm => by rw [← hfm]; exact h2 f⟩

/-- the interval of any entry of a route is the one `boundsOf` assigns -/
theorem Tree.route_bounds {t : Tree K V} (hids : t.ids.Nodup) (hpar : ParTree t) (key : K)
    (x : Nat) (a b : Option K) (h : (x, a, b) ∈ t.routeB lt key) : t.boundsOf x = some (a, b) :=
  Conc.route_bounds key t.root none none hids hpar x a b h

/-- **stability of `OnRoute` / `InBounds`.**  `W` is the set of identities the block rewrites
    (or gives up on).  If every entry outside `W` of the route inside the old node occurs in
    the route inside the new node with the same or a wider interval, then `OnRoute` and
    `InBounds` of every identity outside `W` carry over to the rewritten tree. -/
theorem Tree.stable (h : SWO lt) {t : Tree K V} {id d' : Nat} {m : Node K V d'}
    (hf : t.find id = some ⟨d', m⟩) (hids : t.ids.Nodup) (hpar : ParTree t)
    {lo' hi' : Option K} (hb : t.boundsOf id = some (lo', hi'))
    (W : Nat → Prop) (f : (d : Nat) → Node K V d → Node K V d) (m2 : Node K V d') (hfm : f d' m = m2)
    (key : K)
    (hsub : ∀ x a b, (x, a, b) ∈ routeB lt key d' lo' hi' m → ¬ W x →
      ∃ a' b', (x, a', b') ∈ routeB lt key d' lo' hi' m2 ∧ loLe lt a' a ∧ hiLe lt b b') :
    (∀ x, ¬ W x → OnRoute lt t key x → OnRoute lt (t.modify id f) key x) ∧
    (∀ x, ¬ W x → InBounds lt t key x → InBounds lt (t.modify id f) key x) := by
  subst hfm
  have hs := route_stable h key id t.root none none m hf hids hpar lo' hi' hb W f hsub
  constructor
  · rintro x hW ⟨a, b, hab⟩
    obtain ⟨a', b', hm, _, _⟩ := hs x a b hab hW
    exact ⟨a', b', hm⟩
  · rintro x hW ⟨a, b, hab, hle⟩
    obtain ⟨a', b', hm, h1, _⟩ := hs x a b hab hW
    exact ⟨a', b', hm, leO_mono h h1 hle⟩

theorem putInner_route_off {t : Tree K V} {d : Nat} {p : Node K V (d + 1)} (p' : Inner K (Node K V d))
    (hf : t.find p'.id = some ⟨d + 1, p⟩) (hids : t.ids.Nodup) (hpar : ParTree t) (key : K)
    (hoff : ¬ OnRoute lt t key p'.id) :
    (putInner t p').routeB lt key = t.routeB lt key :=
  Tree.route_off hf hids hpar key hoff _

theorem putInner_route_on {t : Tree K V} {d : Nat} {p : Node K V (d + 1)} (p' : Inner K (Node K V d))
    (hf : t.find p'.id = some ⟨d + 1, p⟩) (hids : t.ids.Nodup) (hpar : ParTree t) (key : K)
    (a b : Option K) (hon : (p'.id, a, b) ∈ t.routeB lt key) :
    t.boundsOf p'.id = some (a, b) ∧
    ∃ pre, (∀ e ∈ pre, e.1 ≠ p'.id) ∧ t.routeB lt key = pre ++ routeB lt key (d + 1) a b p ∧
      (putInner t p').routeB lt key = pre ++ routeB lt key (d + 1) a b p' := by
  obtain ⟨hb, pre, hpre, h1, h2⟩ := Tree.route_on hf hids hpar key a b hon
  exact ⟨hb, pre, hpre, h1, h2 _ p' (putInner_apply p' p)⟩

theorem putInner_stable (h : SWO lt) {t : Tree K V} {d : Nat} {p : Node K V (d + 1)} (p' : Inner K (Node K V d))
    (hf : t.find p'.id = some ⟨d + 1, p⟩) (hids : t.ids.Nodup) (hpar : ParTree t)
    {lo' hi' : Option K} (hb : t.boundsOf p'.id = some (lo', hi')) (W : Nat → Prop) (key : K)
    (hsub : ∀ x a b, (x, a, b) ∈ routeB lt key (d + 1) lo' hi' p → ¬ W x →
      ∃ a' b', (x, a', b') ∈ routeB lt key (d + 1) lo' hi' p' ∧ loLe lt a' a ∧ hiLe lt b b') :
    (∀ x, ¬ W x → OnRoute lt t key x → OnRoute lt (putInner t p') key x) ∧
    (∀ x, ¬ W x → InBounds lt t key x → InBounds lt (putInner t p') key x) :=
  Tree.stable h hf hids hpar hb W _ p' (putInner_apply p' p) key hsub

/-- rewriting a leaf under its own identity changes no route -/
theorem putLeaf_routeB {t : Tree K V} {l : Node K V 0} (l' : Leaf K V)
    (hf : t.find l'.id = some ⟨0, l⟩) (hids : t.ids.Nodup) (hpar : ParTree t) (key : K) :
    (putLeaf t l').routeB lt key = t.routeB lt key := by
  by_cases hon : OnRoute lt t key l'.id
  · obtain ⟨a, b, hab⟩ := hon
    obtain ⟨_, pre, _, h1, h2⟩ := Tree.route_on hf hids hpar key a b hab
    have hid : (l : Leaf K V).id = l'.id := findNode_id hf
    have := h2 (leafFn l') l' (putLeaf_apply l' l)
    rw [putLeaf_eq, this, h1, routeB_zero key a b l', routeB_zero key a b l]
    exact congrArg (fun i => pre ++ [(i, a, b)]) hid.symm
  · exact Tree.route_off hf hids hpar key hon (leafFn l')

/-! ### one routing step, tree level -/

theorem keysOf_find {t : Tree K V} {id d : Nat} {p : Inner K (Node K V d)}
    (hf : t.find id = some ⟨d + 1, p⟩) : keysOf t id = p.runts := by
  unfold keysOf
  rw [look_eq_find, hf]
  rfl

theorem kidAt_find {t : Tree K V} {id d : Nat} {p : Inner K (Node K V d)}
    (hf : t.find id = some ⟨d + 1, p⟩) (j : Nat) : t.kidAt id j = (p.kids[j]?).map (Node.id (d := d)) := by
  unfold Tree.kidAt
  rw [look_eq_find, hf]
  show (p.kids.map (Node.id (d := d)))[j]? = _
  rw [List.getElem?_map]

theorem ParTree_find {t : Tree K V} {id d' : Nat} {m : Node K V d'}
    (hf : t.find id = some ⟨d', m⟩) (hpar : ParTree t) : ParN d' m :=
  ParN_find id t.depth t.root d' m hf hpar

/-- the kid the search descends into from an inner node on the route is on the route, with
    the interval `[runts[j], hiAt runts j b)` where `j = searchLE key runts` -/
theorem Tree.route_kid {t : Tree K V} {id d : Nat} {p : Inner K (Node K V d)}
    (hf : t.find id = some ⟨d + 1, p⟩) (hids : t.ids.Nodup) (hpar : ParTree t) (key : K)
    (a b : Option K) (hon : (id, a, b) ∈ t.routeB lt key) :
    ∃ (s : K) (c : Node K V d),
      p.runts[searchLE lt key p.runts]? = some s ∧ p.kids[searchLE lt key p.runts]? = some c ∧
      (Node.id c, some s, hiAt p.runts (searchLE lt key p.runts) b) ∈ t.routeB lt key := by
  obtain ⟨_, pre, _, h1, _⟩ := Tree.route_on hf hids hpar key a b hon
  obtain ⟨s, c, hs, hc, _, hr⟩ := routeB_inner (lt := lt) key a b p (ParTree_find hf hpar)
  obtain ⟨tl, htl⟩ := routeB_head (lt := lt) key d (some s) (hiAt p.runts (searchLE lt key p.runts) b) c
  refine ⟨s, c, hs, hc, ?_⟩
  rw [h1, hr, htl]
  simp

/-- `InBounds` passes from an inner node to the kid the search descends into, provided the
    key is not below the first separator when the search is clamped to kid 0 (what the
    pre-emptive lowering of the first separator establishes) -/
theorem Tree.inBounds_kid (h : SWO lt) {t : Tree K V} {id d : Nat} {p : Inner K (Node K V d)}
    (hf : t.find id = some ⟨d + 1, p⟩) (hids : t.ids.Nodup) (hpar : ParTree t) (hord : OrdTree lt t)
    (key : K) (hon : OnRoute lt t key id)
    (s : K) (c : Node K V d) (hs : p.runts[searchLE lt key p.runts]? = some s)
    (hc : p.kids[searchLE lt key p.runts]? = some c)
    (hclamp : searchLE lt key p.runts = 0 → lt key s = false) :
    InBounds lt t key (Node.id c) := by
  obtain ⟨a, b, hab⟩ := hon
  obtain ⟨s', c', hs', hc', hm⟩ := Tree.route_kid hf hids hpar key a b hab
  rw [hs] at hs'; rw [hc] at hc'
  injection hs' with hs'; injection hc' with hc'
  subst hs'; subst hc'
  obtain ⟨lo2, hi2, PL, PR, z⟩ := Tree.zoom h hf hids hpar hord
  exact ⟨_, _, hm, route_lo_step h key p z.ord z.par s hs hclamp⟩

/-! ### consequences for `t.abs` -/

/-- **leaf (node) authority, tree level**: the node the route of `key` passes decides `key` -/
theorem lookup_of_find (h : SWO lt) {t : Tree K V} {id d' : Nat} {m : Node K V d'}
    (hf : t.find id = some ⟨d', m⟩) (hids : t.ids.Nodup) (hpar : ParTree t) (hord : OrdTree lt t)
    (key : K) (hon : OnRoute lt t key id) :
    Spec.lookup lt t.abs key = Spec.lookup lt (Node.pairs m) key := by
  obtain ⟨a, b, hab⟩ := hon
  rw [Tree.abs_eq_pairs]
  exact lookup_of_onRoute h key id t.root none none m hf hids hpar hord a b hab

/-- leaf authority via `routeLeaf` (distinct identities not needed) -/
theorem Tree.lookup_routeLeaf (h : SWO lt) {t : Tree K V} (hpar : ParTree t) (hord : OrdTree lt t)
    (key : K) (l : Leaf K V) (hl : routeLeaf lt key t.depth t.root = some l) :
    Spec.lookup lt t.abs key = Spec.lookup lt (l.keys.zip l.vals) key := by
  rw [Tree.abs_eq_pairs]
  exact Conc.lookup_routeLeaf h key t.depth none none t.root l hord hpar hl

/-- every interval on a route of the tree has its upper end above the key -/
theorem Tree.route_hi (h : SWO lt) {t : Tree K V} (hpar : ParTree t) (hord : OrdTree lt t) (key : K)
    (x : Nat) (a b : Option K) (hx : (x, a, b) ∈ t.routeB lt key) : ltO lt key b :=
  Conc.route_hi h key t.depth none none t.root hord hpar trivial _ hx

/-- the route of a tree starts at the root (with the unbounded interval) and ends at the leaf
    `routeLeaf` returns, which is the node found under its identity -/
theorem Tree.route_shape {t : Tree K V} (hids : t.ids.Nodup) (hpar : ParTree t) (key : K) :
    ∃ (l : Leaf K V) (pre : List (Nat × Option K × Option K)) (a b : Option K),
      routeLeaf lt key t.depth t.root = some l ∧
      t.routeB lt key = pre ++ [(l.id, a, b)] ∧
      (t.routeB lt key).head? = some (t.rootId, none, none) ∧
      t.find l.id = some ⟨0, l⟩ := by
  obtain ⟨l, hl⟩ := routeLeaf_some (lt := lt) key t.depth t.root hpar
  obtain ⟨pre, a, b, h1, h2⟩ := routeLeaf_last (lt := lt) key t.depth none none t.root l hpar hl
  exact ⟨l, pre, a, b, hl, h1, h2, routeLeaf_find key t.depth t.root l hpar hids hl⟩

/-- replacing the leaf the route of `key` passes by one whose pairs are updated at `key`
    updates the abstract contents at `key` -/
theorem putLeaf_abs_update (h : SWO lt) {t : Tree K V} {l : Node K V 0} (l' : Leaf K V)
    (hf : t.find l'.id = some ⟨0, l⟩) (hids : t.ids.Nodup) (hpar : ParTree t) (hord : OrdTree lt t)
    (key : K) (hon : OnRoute lt t key l'.id) (f : Option V → V)
    (hz : l'.keys.zip l'.vals = Spec.update lt ((l : Leaf K V).keys.zip (l : Leaf K V).vals) key f)
    {lo' hi' : Option K} (hb : t.boundsOf l'.id = some (lo', hi')) (hO : Ord lt 0 lo' hi' l') :
    OrdTree lt (putLeaf t l') ∧ ParTree (putLeaf t l') ∧
    (putLeaf t l').abs = Spec.update lt t.abs key f := by
  obtain ⟨lo2, hi2, PL, PR, z⟩ := Tree.zoom h hf hids hpar hord
  have e := z.tree_bounds
  rw [hb] at e
  injection e with e
  injection e with e1 e2
  subst e1; subst e2
  obtain ⟨a, b, hab⟩ := hon
  obtain ⟨hL, hR⟩ := z.onRoute key a b hab
  obtain ⟨h1, h2, h3⟩ := z.putLeaf l' hO
  refine ⟨h1, h2, ?_⟩
  rw [h3, z.abs, update_mid h PL _ PR key f hL hR, hz]
  rfl

/-- the same for Delete -/
theorem putLeaf_abs_erase (h : SWO lt) {t : Tree K V} {l : Node K V 0} (l' : Leaf K V)
    (hf : t.find l'.id = some ⟨0, l⟩) (hids : t.ids.Nodup) (hpar : ParTree t) (hord : OrdTree lt t)
    (key : K) (hon : OnRoute lt t key l'.id)
    (hz : l'.keys.zip l'.vals = Spec.erase lt ((l : Leaf K V).keys.zip (l : Leaf K V).vals) key)
    {lo' hi' : Option K} (hb : t.boundsOf l'.id = some (lo', hi')) (hO : Ord lt 0 lo' hi' l') :
    OrdTree lt (putLeaf t l') ∧ ParTree (putLeaf t l') ∧
    (putLeaf t l').abs = Spec.erase lt t.abs key := by
  obtain ⟨lo2, hi2, PL, PR, z⟩ := Tree.zoom h hf hids hpar hord
  have e := z.tree_bounds
  rw [hb] at e
  injection e with e
  injection e with e1 e2
  subst e1; subst e2
  obtain ⟨a, b, hab⟩ := hon
  obtain ⟨hL, hR⟩ := z.onRoute key a b hab
  obtain ⟨h1, h2, h3⟩ := z.putLeaf l' hO
  refine ⟨h1, h2, ?_⟩
  rw [h3, z.abs, erase_mid' h PL _ PR key hL hR, hz]
  rfl

/-- **Insert/Update at the leaf, tree level.**  The thread holds leaf `l`, which is
    `InBounds` for its key; `Leaf.upsert` followed by `putLeaf` performs `Spec.update`. -/
theorem putLeaf_upsert (h : SWO lt) (P : Params K) (hP : P.lt = lt) (hpad : PadOk P)
    {t : Tree K V} (l : Leaf K V) (hf : t.find l.id = some ⟨0, l⟩)
    (hids : t.ids.Nodup) (hpar : ParTree t) (hord : OrdTree lt t)
    (hlen : l.keys.length = l.vals.length) (key : K) (f : Option V → V)
    (hin : InBounds lt t key l.id)
    (l' : Leaf K V) (arg : Option V) (hu : Leaf.upsert P l key f = .ok (l', arg)) :
    arg = Spec.lookup lt t.abs key ∧
    OrdTree lt (putLeaf t l') ∧ ParTree (putLeaf t l') ∧
    (putLeaf t l').abs = Spec.update lt t.abs key f ∧
    (∀ key', (putLeaf t l').routeB lt key' = t.routeB lt key') ∧
    l'.id = l.id ∧ l'.next = l.next ∧ l'.keys.length = l'.vals.length ∧
    l.keys.length ≤ l'.keys.length ∧ l'.keys.length ≤ l.keys.length + 1 := by
  obtain ⟨a, b, hab, hlo⟩ := hin
  have hhi : ltO lt key b := Tree.route_hi h hpar hord key _ a b hab
  have hb : t.boundsOf l.id = some (a, b) := Tree.route_bounds hids hpar key _ a b hab
  obtain ⟨lo2, hi2, PL, PR, z⟩ := Tree.zoom h hf hids hpar hord
  have e := z.tree_bounds
  rw [hb] at e
  injection e with e
  injection e with e1 e2
  subst e1; subst e2
  obtain ⟨harg, hO, hlen', hid, hnext, hzip, hle1, hle2⟩ :=
    leaf_upsert_ord h P hP hpad l a b z.ord hlen key f hlo hhi l' arg hu
  have hf' : t.find l'.id = some ⟨0, l⟩ := by rw [hid]; exact hf
  have hb' : t.boundsOf l'.id = some (a, b) := by rw [hid]; exact hb
  obtain ⟨h1, h2, h3⟩ := putLeaf_abs_update h l' hf' hids hpar hord key (by rw [hid]; exact ⟨a, b, hab⟩)
    f hzip hb' hO
  refine ⟨?_, h1, h2, h3, fun key' => putLeaf_routeB l' hf' hids hpar key', hid, hnext, hlen', hle1, hle2⟩
  rw [harg]
  exact (lookup_of_find h hf hids hpar hord key ⟨a, b, hab⟩).symm

/-- **Delete at the leaf, tree level.**  The leaf is on the route of the key (the key may be
    below the leaf's interval: then it is absent and nothing changes). -/
theorem putLeaf_delete (h : SWO lt) (P : Params K) (hP : P.lt = lt)
    {t : Tree K V} (l : Leaf K V) (hf : t.find l.id = some ⟨0, l⟩)
    (hids : t.ids.Nodup) (hpar : ParTree t) (hord : OrdTree lt t)
    (hlen : l.keys.length = l.vals.length) (minSize : Nat) (key : K)
    (hon : OnRoute lt t key l.id)
    (l' : Leaf K V) (small : Bool) (hd : Leaf.deleteKey P l minSize key = .ok (l', small)) :
    OrdTree lt (putLeaf t l') ∧ ParTree (putLeaf t l') ∧
    (putLeaf t l').abs = Spec.erase lt t.abs key ∧
    (∀ key', (putLeaf t l').routeB lt key' = t.routeB lt key') ∧
    l'.id = l.id ∧ l'.next = l.next ∧ l'.keys.length = l'.vals.length ∧
    (small = true → l'.keys.length < minSize) ∧
    (small = false → l' = l ∨ minSize ≤ l'.keys.length) ∧
    l'.keys.length ≤ l.keys.length ∧ l.keys.length ≤ l'.keys.length + 1 := by
  obtain ⟨a, b, hab⟩ := hon
  have hb : t.boundsOf l.id = some (a, b) := Tree.route_bounds hids hpar key _ a b hab
  obtain ⟨lo2, hi2, PL, PR, z⟩ := Tree.zoom h hf hids hpar hord
  have e := z.tree_bounds
  rw [hb] at e
  injection e with e
  injection e with e1 e2
  subst e1; subst e2
  obtain ⟨hO, hlen', hid, hnext, hzip, hs1, hs2, hle1, hle2⟩ :=
    leaf_delete_ord h P hP l a b z.ord hlen minSize key l' small hd
  have hf' : t.find l'.id = some ⟨0, l⟩ := by rw [hid]; exact hf
  have hb' : t.boundsOf l'.id = some (a, b) := by rw [hid]; exact hb
  obtain ⟨h1, h2, h3⟩ := putLeaf_abs_erase h l' hf' hids hpar hord key (by rw [hid]; exact ⟨a, b, hab⟩)
    hzip hb' hO
  exact ⟨h1, h2, h3, fun key' => putLeaf_routeB l' hf' hids hpar key', hid, hnext, hlen', hs1, hs2, hle1, hle2⟩

/-- **Search at the leaf, tree level.** -/
theorem leaf_search_tree (h : SWO lt) (P : Params K) (hP : P.lt = lt)
    {t : Tree K V} (l : Leaf K V) (hf : t.find l.id = some ⟨0, l⟩)
    (hids : t.ids.Nodup) (hpar : ParTree t) (hord : OrdTree lt t)
    (hlen : l.keys.length = l.vals.length) (key : K) (hon : OnRoute lt t key l.id) :
    Leaf.search P l key = .ok (Spec.lookup lt t.abs key) := by
  obtain ⟨lo2, hi2, PL, PR, z⟩ := Tree.zoom h hf hids hpar hord
  rw [leaf_search_ord h P hP l lo2 hi2 z.ord hlen key, lookup_of_find h hf hids hpar hord key hon]
  rfl

end Gobptree.Conc
