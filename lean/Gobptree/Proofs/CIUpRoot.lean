/-
  Separator invariant, block lemmas for the non-Delete continuations, part 5: the root block
  of Insert/Update (`upRootArrive`), with the root split.
-/
import Gobptree.Proofs.CIUpChild

namespace Gobptree.Conc
open Gobptree

variable {K V : Type} {lt : K → K → Bool}

theorem sepFact_head (h : SWO lt) : ∀ {d : Nat} (c : Node K V d) (ls : K), (0 < d → headN d c = some ls) →
    SepFact lt (fun _ _ => False) d c ls
  | 0, _, _, _ => trivial
  | d + 1, c, ls, hh => by
    rw [SepFact_iff_headN]
    exact Or.inl ⟨ls, hh (Nat.succ_pos d), h.eqv_refl ls⟩

theorem headN_of_smallest : ∀ {d : Nat} (l : Node K V d) (ls : K), Node.smallest l = .ok ls → 0 < d →
    headN d l = some ls
  | 0, _, _, _, h => absurd h (Nat.lt_irrefl 0)
  | _ + 1, l, ls, hs, _ => smallest_headN l ls hs

theorem upRootArrive_isep (P : Params K) (hK : KParams lt P) (t : Nat) (s : St K V) (key : K) (f : Option V → V)
    (y : Option Bool) (root : Nat) (H : List Lk) (hole : Option Nat) (hpre : Pre P hole s)
    (hord : OrdTree lt s.tree) (hk : KontOk s.tree (.upRoot key f y root)) (hHt : Lk.tree ∈ H)
    (hHr : Lk.node root ∈ H) (hcur : cursorLocks s.cursor = [])
    (W : Nat → K → Prop) (hI : ISepW lt W s.tree) :
    ISepW lt (fun r x => W r x ∨ flowWit (upRootArrive P t s key f y root).2 r x)
      (upRootArrive P t s key f y root).1.tree := by
  have hroot : root = s.tree.rootId := hk
  have hok := hpre.tree
  have hids := hok.ids.1
  have hpar := parTree_of_treeOk hok
  have hsw := hK.swo
  cases hms : Node.maybeSplit s.tree.order s.tree.nextId s.tree.root with
  | error e =>
    have : upRootArrive P t s key f y root = (s, .panic) := by
      unfold upRootArrive
      simp only
      rw [hms]
    rw [this]
    exact ISepW.mono (fun r x hw => Or.inl hw) hI
  | ok res =>
    obtain ⟨l, ro⟩ := res
    cases ro with
    | none =>
      rw [upRootArrive_nosplit P t s key f y root l hms]
      apply upContinue_isep P hK hpre.pad t (s.rel t .tree) key f y root (hole := hole) hok hord W
      exact ISepW.mono (fun r x hw => Or.inl hw) hI
    | some r =>
      have hoccR := hok.occ _ (self_mem_flat s.tree.root)
      have hsplit := maybeSplit_isSplit s.tree.order s.tree.nextId hok.even s.tree.root l r hoccR hms
      have ho4 := hok.half_pos
      obtain ⟨rs, ls, sp⟩ := split_ord hsw (by omega) hsplit hord hpar
      have hcomp := fun y' => upRootArrive_split P t s key f y' root l r ls rs hms sp.sml sp.smr
      rw [hK.lt] at hcomp
      have hlow : (if lt key ls = true then key else ls) = lowKey lt key [] ls := by
        unfold lowKey
        by_cases c : lt key ls = true
        · rw [if_pos c, if_pos ⟨rfl, c⟩]
        · rw [if_neg c, if_neg (fun h => c h.2)]
      generalize hls' : (if lt key ls = true then key else ls) = ls' at hcomp hlow
      have hle : lt ls ls' = false := by
        rw [← hls']
        by_cases c : lt key ls = true
        · rw [if_pos c]; exact hsw.asymm c
        · rw [if_neg c]; exact hsw.irrefl _
      obtain ⟨hO2, _, _, _, _⟩ := rootSplit_facts hsw s.tree ls' l r rs ls sp hle
      have hok2 : TreeOk hole (rootSplitTree s.tree ls' rs l r) := by
        have hp := (upRootArrive_post P t s key f (some true) root H hole hpre hk hHt hHr hcur).1.tree
        rw [hcomp (some true)] at hp
        by_cases c : (!lt key rs) = true
        · rw [if_pos c] at hp; exact hp
        · rw [if_neg c, upContinue_tree_yield] at hp; exact hp
      have hids2 := hok2.ids.1
      have hpar2 := parTree_of_treeOk hok2
      -- node level
      have hhl : headN s.tree.depth l = headN s.tree.depth s.tree.root := isSplit_headN (by omega) hsplit
      have hidl : Node.id l = root := sp.idl.trans hroot.symm
      have hIN : ISepN lt (fun r x => W r x ∨ (r = root ∧ x = key ∧ LowN lt key s.tree.depth s.tree.root))
          s.tree.depth s.tree.root :=
        ISepN.mono (fun r _ x hw => Or.inl hw) ((isepW_iff_N W hids hpar).1 hI)
      obtain ⟨hIl, hIr⟩ := isepN_split _ hsplit hIN
      have hfact : SepFact lt (fun _ _ => False) s.tree.depth s.tree.root ls :=
        sepFact_head hsw s.tree.root ls (fun hd => hhl ▸ headN_of_smallest l ls sp.sml hd)
      have hI2 : ISepW lt (fun r x => W r x ∨ (r = root ∧ x = key ∧ LowN lt key s.tree.depth s.tree.root))
          (rootSplitTree s.tree ls' rs l r) := by
        rw [isepW_iff_N _ hids2 hpar2]
        show ISepN lt _ (s.tree.depth + 1) (Inner.mk (s.tree.nextId + 1) [ls', rs] [l, r] : Inner K (Node K V s.tree.depth))
        rw [ISepN_succ]
        intro e he
        have he' : e ∈ [(ls', l), (rs, r)] := he
        simp only [List.mem_cons, List.not_mem_nil, or_false] at he'
        rcases he' with rfl | rfl
        · refine ⟨?_, hIl⟩
          have := sepFact_lowered hsw W s.tree.root l key ls [] root hidl hhl hfact
          rw [← hlow] at this
          exact this
        · exact ⟨sepFact_self hsw _ r rs sp.smr, hIr⟩
      have hlm : (Node.id l, shallow l) ∈ (rootSplitTree s.tree ls' rs l r).flat := by
        show (Node.id l, shallow l) ∈ flat (d := s.tree.depth + 1)
          (Inner.mk (s.tree.nextId + 1) [ls', rs] [l, r] : Inner K (Node K V s.tree.depth))
        rw [flat_mk]
        exact List.mem_cons_of_mem _ (List.mem_flatMap.2 ⟨l, by simp, self_mem_flat l⟩)
      rw [hcomp y]
      by_cases cc : (!lt key rs) = true
      · rw [if_pos cc]
        have cc' : lt key rs = false := by simpa using cc
        refine ISepW.mono ?_ hI2
        intro r' x hw
        rcases hw with hw | ⟨_, _, hl⟩
        · exact Or.inl hw
        · exfalso
          have h1 := LowN_lt_smallest sp.sml (LowN_of_head hhl hl)
          have := hsw.trans _ _ _ h1 sp.s0_s
          rw [cc'] at this
          cases this
      · rw [if_neg cc]
        apply upContinue_isep P hK hpre.pad t
          (St.rel { s with tree := rootSplitTree s.tree ls' rs l r } t .tree) key f y root (hole := hole) hok2 hO2 W
        refine ISepW.mono ?_ hI2
        intro r' x hw
        rcases hw with hw | ⟨e1, e2, hl⟩
        · exact Or.inl hw
        · refine Or.inr ⟨e1, e2, ?_⟩
          have := LowN_lowAt (lt := lt) hids2 hlm (LowN_of_head hhl hl)
          rw [hidl] at this
          exact this

end Gobptree.Conc
