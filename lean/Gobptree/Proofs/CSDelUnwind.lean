/-
  Delete's unwinding (`delUnwind`, `delRightArrive`) and descent (`delGo`): no panic, the
  tree invariant with the hole the outcome prescribes, frame, continuation.
-/
import Gobptree.Proofs.CSDelEnds
import Gobptree.Proofs.CSDelK

namespace Gobptree.Conc
open Gobptree

variable {K V : Type}

/-! ### bookkeeping-only operations -/

@[simp] theorem relOpt_tree (t : Nat) (s : St K V) (o : Option Nat) : (relOpt t s o).tree = s.tree := by
  cases o <;> rfl

@[simp] theorem relOpt_cursor (t : Nat) (s : St K V) (o : Option Nat) : (relOpt t s o).cursor = s.cursor := by
  cases o <;> rfl

@[simp] theorem frameUnlock_tree (t : Nat) (s : St K V) (fr : Frame) (r : Option Nat) :
    (frameUnlock t s fr r).tree = s.tree := by
  simp [frameUnlock]

@[simp] theorem frameUnlock_cursor (t : Nat) (s : St K V) (fr : Frame) (r : Option Nat) :
    (frameUnlock t s fr r).cursor = s.cursor := by
  simp [frameUnlock]

/-! ### outcome of a stretch of Delete's code -/

structure DPost (keep : Nat → Bool) (s s' : St K V) (fl : Flow K V) : Prop where
  nopanic : fl ≠ .panic
  tree : TreeOk (flowHole fl) s'.tree
  frame : FrameEq keep s.tree.flat s'.tree.flat
  nextId : s'.tree.nextId = s.tree.nextId
  order : s'.tree.order = s.tree.order
  cursor : s'.cursor = s.cursor
  kont : ∀ p, fl = .park p → ∃ l k, p = .want l k ∧ isDelK k = true ∧ KontOk s'.tree k

theorem DPost.trans {keep : Nat → Bool} {s s1 s' : St K V} {fl : Flow K V} (h : DPost keep s1 s' fl)
    (hf : FrameEq keep s.tree.flat s1.tree.flat) (hn : s1.tree.nextId = s.tree.nextId)
    (ho : s1.tree.order = s.tree.order) (hc : s1.cursor = s.cursor) : DPost keep s s' fl :=
  ⟨h.nopanic, h.tree, hf.trans h.frame, h.nextId.trans hn, h.order.trans ho, h.cursor.trans hc, h.kont⟩

/-- the invariant of the unwinding loop -/
structure UInv (P : Params K) (root : Nat) (s : St K V) (frames : List Frame) (small : Bool) (top : Nat) : Prop where
  ok : TreeOk' (if small then some top else none) s.tree
  order : s.tree.order = P.order
  rootEq : root = s.tree.rootId
  frames : FramesOk s.tree root frames top
  small : small = true → isSmall s.tree top

/-! ### a node that has a child is an inner node of the tree -/

theorem inner_of_kidAt {t : Tree K V} {n j c : Nat} (h : t.kidAt n j = some c) :
    ∃ (d : Nat) (i : Inner K (Node K V d)), t.find n = some ⟨d + 1, i⟩ ∧
      t.look n = some (shallow (d := d + 1) i) ∧ ∃ k, i.kids[j]? = some k ∧ Node.id k = c := by
  obtain ⟨sh, hl, hj⟩ := kidAt_look h
  obtain ⟨a, hf, hsh, _⟩ := find_some_of_look hl
  obtain ⟨d', m⟩ := a
  cases d' with
  | zero =>
    simp only at hsh
    rw [← hsh, shallow_leaf_kids (m : Leaf K V)] at hj
    simp at hj
  | succ d =>
    simp only at hsh
    refine ⟨d, m, hf, by rw [hl, hsh], ?_⟩
    rw [← hsh] at hj
    exact (shallow_kids_getElem (m : Inner K (Node K V d)) j c).1 hj

theorem kidAt_of_find {t : Tree K V} {n d : Nat} {i : Inner K (Node K V d)} (hf : t.find n = some ⟨d + 1, i⟩)
    (j : Nat) : t.kidAt n j = (i.kids[j]?).map Node.id := by
  obtain ⟨_, hl, _⟩ := find_facts hf
  unfold Tree.kidAt
  rw [hl]
  simp [shallow_inner_kids, List.getElem?_map]

/-! ### one level of the unwinding -/

theorem framesHeld_cons_sub {H : List Lk} {fr : Frame} {rest : List Frame}
    (hH : ∀ l ∈ framesHeld (fr :: rest), l ∈ H) :
    (∀ l ∈ framesHeld rest, l ∈ H) ∧ Lk.node fr.child ∈ H ∧ ∀ l, fr.left = some l → Lk.node l ∈ H := by
  refine ⟨fun l hl => hH l (by simp [framesHeld, hl]), hH _ (by simp [framesHeld]), ?_⟩
  intro l hl
  apply hH
  simp [framesHeld, hl, optLock]

/-- rebalancing at the innermost activation record re-establishes the loop invariant one
    level up -/
theorem reb_inv (P : Params K) (hp : PadOk P) {root : Nat} {s : St K V} {fr : Frame} {rest : List Frame}
    {H : List Lk} {keep : Nat → Bool}
    (hkeep : ∀ x, Lk.node x ∈ H → keep x = false) (hroot : Lk.node root ∈ H)
    (hH : ∀ l ∈ framesHeld (fr :: rest), l ∈ H)
    (hinv : UInv P root s (fr :: rest) true fr.child)
    (hright : ∀ x, s.tree.kidAt fr.node (fr.index + 1) = some x → Lk.node x ∈ H)
    {d : Nat} {i : Inner K (Node K V d)} (hf : s.tree.find fr.node = some ⟨d + 1, i⟩) :
    ∃ child i' small', i.kids[fr.index]? = some child ∧
      rebalance P {} (P.order >>> 1) i fr.index child = .ok (i', small') ∧
      ∀ s1 : St K V, s1.tree = putInner s.tree i' →
        UInv P root s1 rest small' fr.node ∧ FrameEq keep s.tree.flat s1.tree.flat ∧
        s1.tree.nextId = s.tree.nextId ∧ s1.tree.order = s.tree.order := by
  obtain ⟨_, hfr, hrest⟩ := hinv.frames
  have hok : TreeOk' (some fr.child) s.tree := by simpa using hinv.ok
  obtain ⟨child, i', small', hc, heval, out⟩ :=
    rebalance_step P hp hok hinv.order hf hfr.1 (hinv.small rfl)
  obtain ⟨_, hlookn, _⟩ := find_facts hf
  obtain ⟨hHrest, hHchild, hHleft⟩ := framesHeld_cons_sub hH
  refine ⟨child, i', small', hc, heval, ?_⟩
  intro s1 hs1
  rw [← hs1] at out
  refine ⟨⟨out.ok, out.order.trans hinv.order, hinv.rootEq.trans out.root.symm, ?_, out.small⟩, ?_,
    out.nextId, out.order⟩
  · refine framesOk_transfer hok.ids root rest fr.node _ hrest hlookn ?_
    intro x sh hx hlt
    rw [← hx]
    apply out.look
    · exact (ne_of_height hlookn hx hlt).symm
    · intro j hj
      obtain ⟨shx, hlx, hh⟩ := kid_look hok.ids hj hlookn
      rw [hx] at hlx
      cases hlx
      omega
  · apply out.frame keep (hkeep _ (frames_top_held hroot rest fr.node hrest hHrest))
    intro j x hx h1 h2
    apply hkeep
    have hcases : j = fr.index ∨ j + 1 = fr.index ∨ j = fr.index + 1 := by omega
    rcases hcases with rfl | hj | rfl
    · rw [hfr.1] at hx
      cases hx
      exact hHchild
    · have hl := hfr.2
      cases hfl : fr.left with
      | none => rw [hfl] at hl; simp only at hl; omega
      | some l =>
        rw [hfl] at hl
        simp only at hl
        have : fr.index - 1 = j := by omega
        rw [this, hx] at hl
        have := hl.2
        cases this
        exact hHleft _ hfl
    · exact hright x hx

/-! ### the unwinding loop -/

theorem top_ne_root {t : Tree K V} (hi : IdsOk t) {n j c : Nat} (h : t.kidAt n j = some c) : c ≠ t.rootId := by
  obtain ⟨sh, hl, _⟩ := kidAt_look h
  obtain ⟨shc, hlc, hh⟩ := kid_look hi h hl
  exact ne_root_of_height hi hlc hl (by omega)

theorem delUnwind_post (P : Params K) (hp : PadOk P) (t : Nat) (key : K) (root : Nat) (H : List Lk)
    (keep : Nat → Bool) (hkeep : ∀ x, Lk.node x ∈ H → keep x = false) (hroot : Lk.node root ∈ H) :
    ∀ (frames : List Frame) (s : St K V) (small : Bool) (top : Nat),
      UInv P root s frames small top → (∀ l ∈ framesHeld frames, l ∈ H) →
      DPost keep s (delUnwind P t s key frames small root).1 (delUnwind P t s key frames small root).2 := by
  intro frames
  induction frames with
  | nil =>
    intro s small top hinv _
    unfold delUnwind
    obtain ⟨h1, h2, h3⟩ := delFinish_tree t s small root
    have htop : top = s.tree.rootId := by
      have : top = root := hinv.frames
      rw [this]; exact hinv.rootEq
    have hok := hinv.ok
    rw [htop] at hok
    obtain ⟨htree, hord, hnid, hframe⟩ := finish_step hok
    rw [← h1] at htree hord hnid hframe
    refine ⟨by rw [h3]; simp, by rw [h3]; exact htree, ?_, hnid, hord, h2, by rw [h3]; intro p hp; cases hp⟩
    apply hframe
    apply hkeep
    rw [← hinv.rootEq]; exact hroot
  | cons fr rest ih =>
    intro s small top hinv hH
    obtain ⟨hHrest, hHchild, hHleft⟩ := framesHeld_cons_sub hH
    obtain ⟨htop, hfr, hrest⟩ := hinv.frames
    unfold delUnwind
    cases small with
    | false =>
      simp only [Bool.not_false, if_true]
      have hinv' : UInv P root (frameUnlock t s fr none) rest false fr.node :=
        ⟨by simpa using hinv.ok, by simpa using hinv.order, by simpa using hinv.rootEq,
          by simpa using hrest, by intro h; cases h⟩
      exact (ih _ false fr.node hinv' hHrest).trans (by simpa using FrameEq.refl keep _) (by simp) (by simp) (by simp)
    | true =>
      simp only [Bool.not_true, Bool.false_eq_true, if_false]
      subst htop
      have hok : TreeOk' (some fr.child) s.tree := by simpa using hinv.ok
      obtain ⟨d, i, hf, hlook, k, hk, hkid⟩ := inner_of_kidAt hfr.1
      obtain ⟨_, _, _, hin, _⟩ := rebIn_of_tree hok hf hfr.1 (hinv.small rfl)
      have hlen : i.runts.length = i.kids.length := hin.lens.1
      rw [hf]
      simp only
      by_cases hR : fr.index + 1 < i.runts.length
      · simp only [hR, if_true]
        obtain ⟨r, hr⟩ : ∃ r, i.kids[fr.index + 1]? = some r :=
          ⟨i.kids[fr.index + 1]'(by omega), List.getElem?_eq_getElem _⟩
        simp only [hr, Option.map_some]
        have hcr : fr.child ≠ s.tree.rootId := top_ne_root hok.ids hfr.1
        refine ⟨by simp, ?_, FrameEq.refl _ _, rfl, rfl, rfl, ?_⟩
        · exact hok.unprime (by intro c hc; cases hc; exact hcr)
        · intro p hp
          cases hp
          refine ⟨_, _, rfl, rfl, hinv.rootEq, hinv.frames, ?_, hinv.small rfl⟩
          rw [kidAt_of_find hf, hr]; rfl
      · simp only [hR, if_false]
        obtain ⟨child, i', small', hc, heval, hnext⟩ := reb_inv P hp hkeep hroot hH hinv
          (by
            intro x hx
            rw [kidAt_of_find hf] at hx
            have : i.kids[fr.index + 1]? = none := by
              apply List.getElem?_eq_none; omega
            rw [this] at hx
            cases hx) hf
        simp only [hc, heval]
        obtain ⟨hinv', hfe, hn, ho⟩ := hnext (frameUnlock t { s with tree := putInner s.tree i' } fr none) (by simp)
        exact (ih _ small' fr.node hinv' hHrest).trans hfe hn ho (by simp)

/-! ### after the right sibling has been acquired -/

theorem delRightArrive_post (P : Params K) (hp : PadOk P) (t : Nat) (key : K) (root : Nat) (H : List Lk)
    (keep : Nat → Bool) (hkeep : ∀ x, Lk.node x ∈ H → keep x = false) (hroot : Lk.node root ∈ H)
    (s : St K V) (rest : List Frame) (fr : Frame) (right : Nat)
    (hinv : UInv P root s (fr :: rest) true fr.child) (hH : ∀ l ∈ framesHeld (fr :: rest), l ∈ H)
    (hr : s.tree.kidAt fr.node (fr.index + 1) = some right) (hrH : Lk.node right ∈ H) :
    DPost keep s (delRightArrive P t s key rest fr right root).1 (delRightArrive P t s key rest fr right root).2 := by
  obtain ⟨hHrest, _, _⟩ := framesHeld_cons_sub hH
  obtain ⟨_, hfr, _⟩ := hinv.frames
  obtain ⟨d, i, hf, _, _⟩ := inner_of_kidAt hfr.1
  obtain ⟨child, i', small', hc, heval, hnext⟩ := reb_inv P hp hkeep hroot hH hinv
    (by intro x hx; rw [hr] at hx; cases hx; exact hrH) hf
  unfold delRightArrive
  rw [hf]
  simp only [hc, heval]
  obtain ⟨hinv', hfe, hn, ho⟩ :=
    hnext (frameUnlock t { s with tree := putInner s.tree i' } fr (some right)) (by simp)
  exact (delUnwind_post P hp t key root H keep hkeep hroot rest _ small' fr.node hinv' hHrest).trans hfe hn ho
    (by simp)

/-! ### the descent -/

theorem delGo_post (P : Params K) (hp : PadOk P) (t : Nat) (key : K) (root : Nat) (H : List Lk)
    (keep : Nat → Bool) (hkeep : ∀ x, Lk.node x ∈ H → keep x = false) (hroot : Lk.node root ∈ H)
    (s : St K V) (frames : List Frame) (n : Nat)
    (hok : TreeOk none s.tree) (h4 : 4 ≤ s.tree.order) (hord : s.tree.order = P.order)
    (hrootEq : root = s.tree.rootId)
    (hfr : FramesOk s.tree root frames n) (hH : ∀ l ∈ framesHeld frames, l ∈ H) :
    DPost keep s (delGo P t s key frames n root).1 (delGo P t s key frames n root).2 := by
  have hok' : TreeOk' none s.tree := hok.prime h4
  obtain ⟨sht, hlook, _⟩ := frames_high hok.ids frames n (by rw [← hrootEq]; exact hfr)
  obtain ⟨a, hf, hsh, _⟩ := find_some_of_look hlook
  obtain ⟨d', m⟩ := a
  have hnH : Lk.node n ∈ H := frames_top_held hroot frames n hfr hH
  cases d' with
  | zero =>
    obtain ⟨l', small, heval, out⟩ := leaf_step P hok' hord hf key
    have hlook' : s.tree.look n = some (shallow (d := 0) m) := (find_facts hf).2.1
    have hleaf : leafOf? (⟨0, m⟩ : AnyNode K V) = some (m : Leaf K V) := rfl
    unfold delGo delEnter
    rw [hf]
    simp only [hleaf, heval]
    have hinv : UInv P root ({ s with tree := putLeaf s.tree l' } : St K V) frames small n := by
      refine ⟨out.ok, out.order.trans hord, hrootEq.trans out.root.symm, ?_, out.small⟩
      refine framesOk_transfer hok.ids root frames n _ hfr hlook' ?_
      intro x sh hx hlt
      rw [← hx]
      exact out.look x (ne_of_height hlook' hx hlt).symm
    exact (delUnwind_post P hp t key root H keep hkeep hroot frames _ small n hinv hH).trans
      (out.frame keep (hkeep n hnH)) out.nextId out.order rfl
  | succ d =>
    have hlook' : s.tree.look n = some (shallow (d := d + 1) m) := (find_facts hf).2.1
    have occ := hok'.occ (n, shallow (d := d + 1) m) (look_mem hlook')
    have hp' := (par_inner (m : Inner K (Node K V d))).1 occ.par
    have hne : (m : Inner K (Node K V d)).runts ≠ [] := by
      intro e; rw [e] at hp'; simp at hp'
    have hidx := searchLE_lt_length (lt := P.lt) key (m : Inner K (Node K V d)).runts hne
    unfold delGo delEnter
    rw [hf]
    simp only [leafOf?, innerRunts?, innerKidId?]
    by_cases hpos : searchLE P.lt key (m : Inner K (Node K V d)).runts > 0
    · simp only [hpos, if_true]
      obtain ⟨l, hl⟩ : ∃ l, (m : Inner K (Node K V d)).kids[searchLE P.lt key (m : Inner K (Node K V d)).runts - 1]? = some l :=
        ⟨(m : Inner K (Node K V d)).kids[searchLE P.lt key (m : Inner K (Node K V d)).runts - 1]'(by omega),
          List.getElem?_eq_getElem _⟩
      simp only [hl, Option.map_some]
      refine ⟨by simp, hok, FrameEq.refl _ _, rfl, rfl, rfl, ?_⟩
      intro p hp
      cases hp
      refine ⟨_, _, rfl, rfl, hrootEq, hfr, hpos, ?_, ?_⟩
      · rw [kidAt_of_find hf, hl]; rfl
      · obtain ⟨c, hc⟩ : ∃ c, (m : Inner K (Node K V d)).kids[searchLE P.lt key (m : Inner K (Node K V d)).runts]? = some c :=
          ⟨(m : Inner K (Node K V d)).kids[searchLE P.lt key (m : Inner K (Node K V d)).runts]'(by omega),
            List.getElem?_eq_getElem _⟩
        exact ⟨Node.id c, by rw [kidAt_of_find hf, hc]; rfl⟩
    · simp only [hpos, if_false]
      obtain ⟨c, hc⟩ : ∃ c, (m : Inner K (Node K V d)).kids[searchLE P.lt key (m : Inner K (Node K V d)).runts]? = some c :=
        ⟨(m : Inner K (Node K V d)).kids[searchLE P.lt key (m : Inner K (Node K V d)).runts]'(by omega),
          List.getElem?_eq_getElem _⟩
      simp only [hc, Option.map_some]
      refine ⟨by simp, hok, FrameEq.refl _ _, rfl, rfl, rfl, ?_⟩
      intro p hp
      cases hp
      refine ⟨_, _, rfl, rfl, hrootEq, hfr, ?_, ?_⟩
      · show s.tree.kidAt n _ = _
        rw [kidAt_of_find hf, hc]; rfl
      · show searchLE P.lt key (m : Inner K (Node K V d)).runts = 0
        omega

end Gobptree.Conc
