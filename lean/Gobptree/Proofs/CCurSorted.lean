/-
  C04, static part 1: the abstract map of an ordered tree is strictly ascending, and it is the
  concatenation of the leaves' pairs in flat-view order.
-/
import Gobptree.Proofs.CCDefs
import Gobptree.Proofs.SpecSorted

namespace Gobptree.Conc
open Gobptree

variable {K V : Type} {lt : K → K → Bool}

/-! ### strictly ascending pairs -/

theorem KSorted_zip (keys : List K) (vals : List V) (hs : Sorted lt keys) : KSorted lt (keys.zip vals) := by
  induction keys generalizing vals with
  | nil => simp [KSorted]
  | cons k ks ih =>
    cases vals with
    | nil => simp [KSorted]
    | cons v vs =>
      have hq := List.pairwise_cons.mp hs
      rw [List.zip_cons_cons]
      refine List.pairwise_cons.mpr ⟨?_, ih vs hq.2⟩
      intro p hp
      exact hq.1 p.1 (List.of_mem_zip hp).1

theorem Kids_pairsE_sorted (h : SWO lt) {d : Nat} {R : Option K → Option K → Node K V d → Prop}
    (hi : Option K) (es : List (K × Node K V d))
    (hR : ∀ e ∈ es, ∀ a b, R a b e.2 → ∀ p ∈ Node.pairs e.2, leO lt a p.1 ∧ ltO lt p.1 b)
    (hS : ∀ e ∈ es, ∀ a b, R a b e.2 → KSorted lt (Node.pairs e.2))
    (hk : Kids lt R hi es) : KSorted lt (pairsE es) := by
  induction es with
  | nil => simp [pairsE, KSorted]
  | cons e es ih =>
    obtain ⟨k, c⟩ := e
    obtain ⟨hc, hklt, hrest⟩ := hk
    rw [pairsE_cons]
    have ih' := ih (fun e he => hR e (by simp [he])) (fun e he => hS e (by simp [he])) hrest
    have hb := Kids_pairsE_bounds h hi es (fun e he => hR e (by simp [he])) hrest
    refine List.pairwise_append.mpr ⟨hS (k, c) (by simp) _ _ hc, ih', ?_⟩
    intro p hp q hq
    have hp' := (hR (k, c) (by simp) _ _ hc p hp).2
    obtain ⟨_, e, he, h2⟩ := hb q hq
    have h1 : lt p.1 e.1 = true := Kids_next_lt h hi es hrest e he p.1 hp'
    exact h.lt_of_lt_of_le h1 h2

/-- the pairs below an ordered node are strictly ascending -/
theorem Ord_pairs_sorted (h : SWO lt) : ∀ {d : Nat} {lo hi : Option K} {n : Node K V d},
    Ord lt d lo hi n → ParN d n → KSorted lt (Node.pairs n) := by
  intro d
  induction d with
  | zero =>
    intro lo hi (n : Leaf K V) hw _
    obtain ⟨hs, _⟩ := hw
    exact KSorted_zip n.keys n.vals hs
  | succ d ih =>
    intro lo hi (n : Inner K (Node K V d)) hw hpar
    obtain ⟨_, hk⟩ := hw
    obtain ⟨hlen, _, hkids⟩ := hpar
    rw [pairs_inner_eq n hlen]
    exact Kids_pairsE_sorted h hi _
      (fun e he a b hr => Ord_pairs_bounds h hr (hkids e.2 (List.of_mem_zip he).2))
      (fun e he a b hr => ih hr (hkids e.2 (List.of_mem_zip he).2)) hk

theorem Tree.abs_sorted (h : SWO lt) {t : Tree K V} (hpar : ParTree t) (hord : OrdTree lt t) :
    KSorted lt t.abs := by
  rw [Tree.abs_eq_pairs]
  exact Ord_pairs_sorted h hord hpar

/-! ### the abstract map, read off the flat view -/

theorem flatLeaves_flatMap {α : Type} (f : α → List (Nat × Shallow K V)) (l : List α) :
    flatLeaves (l.flatMap f) = l.flatMap (fun a => flatLeaves (f a)) := by
  induction l with
  | nil => rfl
  | cons a l ih => rw [List.flatMap_cons, List.flatMap_cons, flatLeaves_append, ih]

theorem flat_pairs : ∀ {d : Nat} (n : Node K V d),
    (flatLeaves (flat n)).flatMap (fun q => shPairs q.2) = Node.pairs n := by
  intro d
  induction d with
  | zero =>
    intro (n : Leaf K V)
    rw [flat_leaf, flatLeaves_cons_leaf _ _ rfl]
    simp [shPairs, shallow, Node.pairs]
  | succ d ih =>
    intro (n : Inner K (Node K V d))
    rw [flat_inner, flatLeaves_cons_inner _ _ (by have := shallow_height (d := d + 1) n; show (shallow (d := d + 1) n).height ≠ 0; omega), flatLeaves_flatMap,
      List.flatMap_assoc]
    show _ = n.kids.flatMap (Node.pairs (d := d))
    congr 1
    funext c
    exact ih c

theorem Tree.abs_flat (t : Tree K V) :
    t.abs = (flatLeaves t.flat).flatMap (fun q => shPairs q.2) := by
  rw [Tree.abs_eq_pairs]
  exact (flat_pairs t.root).symm

/-! ### what lies ahead, as a suffix of the map -/

theorem aheadIn_split (leaf : Nat) (i : Int) (sh : Shallow K V) :
    ∀ (A B : List (Nat × Shallow K V)), (∀ p ∈ A, p.1 ≠ leaf) →
      aheadIn leaf i (A ++ (leaf, sh) :: B) =
        (shPairs sh).drop (i + 1).toNat ++ B.flatMap (fun q => shPairs q.2) := by
  intro A
  induction A with
  | nil => intro B _; simp [aheadIn]
  | cons a A ih =>
    intro B hA
    have ha : a.1 ≠ leaf := hA a (by simp)
    rw [List.cons_append, aheadIn, if_neg ha]
    exact ih B (fun p hp => hA p (by simp [hp]))

/-- the leaves before the cursor's leaf, the leaf, the leaves after it -/
theorem Tree.leaf_split {t : Tree K V} (hi : IdsOk t) {leaf : Nat} {sh : Shallow K V}
    (hl : t.look leaf = some sh) (h0 : sh.height = 0) :
    ∃ A B, flatLeaves t.flat = A ++ (leaf, sh) :: B ∧ (∀ p ∈ A, p.1 ≠ leaf) ∧ (∀ p ∈ B, p.1 ≠ leaf) := by
  have hm := leaf_mem_flatLeaves hl h0
  obtain ⟨A, B, hAB⟩ := List.append_of_mem hm
  have hn := flatLeaves_nodup hi
  rw [hAB, List.map_append, List.map_cons] at hn
  refine ⟨A, B, hAB, ?_, ?_⟩
  · intro p hp e
    have hd := (List.nodup_append.1 hn).2.2
    exact hd p.1 (List.mem_map.2 ⟨p, hp, rfl⟩) leaf (by simp) e
  · intro p hp e
    have hd := (List.nodup_cons.1 (List.nodup_append.1 hn).2.1).1
    exact hd (List.mem_map.2 ⟨p, hp, e⟩)

/-- **decomposition**: the map is the pairs of the earlier leaves, the leaf's pairs, the pairs of
    the later leaves; what lies ahead of `(leaf, i)` is the tail of the leaf and the later leaves -/
theorem Tree.ahead_split {t : Tree K V} (hi : IdsOk t) {leaf : Nat} {sh : Shallow K V}
    (hl : t.look leaf = some sh) (h0 : sh.height = 0) :
    ∃ PA PB : List (K × V), t.abs = PA ++ shPairs sh ++ PB ∧
      ∀ i : Int, t.ahead leaf i = (shPairs sh).drop (i + 1).toNat ++ PB := by
  obtain ⟨A, B, hAB, hA, _⟩ := Tree.leaf_split hi hl h0
  refine ⟨A.flatMap (fun q => shPairs q.2), B.flatMap (fun q => shPairs q.2), ?_, ?_⟩
  · rw [Tree.abs_flat, hAB]
    simp [List.flatMap_append, List.flatMap_cons]
  · intro i
    unfold Tree.ahead
    rw [hAB]
    exact aheadIn_split leaf i sh A B hA

end Gobptree.Conc
