/-
  C03, "no completed Insert or Update is lost, no deleted key reappears": statements on EVERY
  reachable configuration of disciplined programs (every schedule), in terms of the
  client-visible history `history c` and the abstract map `c.tree.abs`.

  The hypothesis on the OTHER calls of the programs is real-time: `SettledBefore (history c) t' i' t i`
  — the call `(t', i')` has not been invoked yet, or it returned before `(t, i)` was invoked.
  A call that is concurrent with `(t, i)`, or was invoked after it returned, is NOT settled: it may
  legitimately overwrite / remove / re-insert the key.

  * `insert_not_lost`: `ins k v` has returned and every other call of the programs that writes
    (a key equivalent to) `k` is settled before it ⟹ the map holds `v` at `k`.
  * `update_not_lost`: same for `upd k f`, whose response carries the argument `arg` its callback
    received ⟹ the map holds `f arg` at `k`.
  * `delete_not_undone`: `del k` has returned and every call that STORES at `k` (Insert/Update;
    other Deletes are harmless) is settled before it ⟹ `k` is absent.
  * the `_alone` forms: no other call of the programs writes `k` at all.
  * `lookup_last_write`: the general principle — the value at `k` is the one left by the last
    linearized operation writing `k`.
-/
import Gobptree.Proofs.CNoLossLin

namespace Gobptree.Conc
open Gobptree Gobptree.Lin

variable {K V : Type}

/-- the client call writes a key equivalent to `k` (Insert, Update or Delete) -/
def cWrites (lt : K → K → Bool) (k : K) : COp K V → Bool
  | .ins k' _ => eqv lt k' k
  | .upd k' _ _ => eqv lt k' k
  | .del k' => eqv lt k' k
  | _ => false

/-- the client call stores a value at a key equivalent to `k` (Insert or Update) -/
def cPuts (lt : K → K → Bool) (k : K) : COp K V → Bool
  | .ins k' _ => eqv lt k' k
  | .upd k' _ _ => eqv lt k' k
  | _ => false

theorem writesKey_of_opOf {lt : K → K → Bool} {k : K} {cop : COp K V} {op : Op K V} (ho : opOf cop = some op) :
    writesKey lt k op = cWrites lt k cop := by
  cases cop <;> simp only [opOf, Option.some.injEq] at ho <;> first | (subst ho; rfl) | cases ho

theorem putsKey_of_opOf {lt : K → K → Bool} {k : K} {cop : COp K V} {op : Op K V} (ho : opOf cop = some op) :
    putsKey lt k op = cPuts lt k cop := by
  cases cop <;> simp only [opOf, Option.some.injEq] at ho <;> first | (subst ho; rfl) | cases ho

theorem eqv_refl {lt : K → K → Bool} (h : SWO lt) (k : K) : eqv lt k k = true := by
  simp [eqv, h.irrefl k]

/-- a call `(t', i')` of the programs -/
def CallAt (progs : List (List (COp K V))) (t' i' : Nat) (cop : COp K V) : Prop :=
  ∃ p, progs[t']? = some p ∧ p[i']? = some cop

section Main

variable (lt : K → K → Bool) (P : Params K) (tree : Tree K V) (progs : List (List (COp K V)))

/-- everything the linearizability invariant says about a call that has RETURNED: the
    linearization order splits at its point; its response is the specification's at that point;
    the operations linearized after it are calls of the programs that are NOT settled before it -/
theorem split_at_returned
    (hkp : KParams lt P) (ht : TreeOk none tree) (hord : OrdTree lt tree) (hsep : SepTree lt tree)
    (ho : tree.order = P.order) (hp : PadOk P) (hd : Disciplined progs)
    (hdel : 4 ≤ tree.order ∨ NoDelete progs)
    (c : Config K V) (hr : Reachable (Config.init P tree progs) c)
    {t i : Nat} {out : Out V} (hret : HEv.ret t i out ∈ history c) :
    ∃ (op : Op K V) (pre post : List (Nat × Nat × Op K V)),
      (∃ cop, CallAt progs t i cop ∧ opOf cop = some op) ∧
      c.tree.abs = (Spec.run lt tree.abs (pre.map (·.2.2) ++ op :: post.map (·.2.2))).1 ∧
      out = (Spec.step lt (Spec.run lt tree.abs (pre.map (·.2.2))).1 op).2 ∧
      (∀ x ∈ pre, (x.1, x.2.1) ≠ (t, i) ∧ ∃ cop, CallAt progs x.1 x.2.1 cop ∧ opOf cop = some x.2.2) ∧
      (∀ x ∈ post, (x.1, x.2.1) ≠ (t, i) ∧ ¬ SettledBefore (history c) x.1 x.2.1 t i ∧
        ∃ cop, CallAt progs x.1 x.2.1 cop ∧ opOf cop = some x.2.2) := by
  obtain ⟨h, hl⟩ := reachable_lininv lt P tree progs hkp ht hord hsep ho hp hd hdel c hr
  have hfrom := histFrom_of_lininv P tree progs c hr hl
  have hwf := hl.pts.wf
  have hreth : HEv.ret t i out ∈ h := by
    rw [← hl.vis] at hret; exact (mem_visible.1 hret).1
  obtain ⟨L, op, pre, post, hL, hop, hsplit, hpre, hpost⟩ := lin_split hwf (lin_of_ret hwf hreth)
  have hcall : ∀ x ∈ linOrder h, ∃ cop, CallAt progs x.1 x.2.1 cop ∧ opOf cop = some x.2.2 := by
    intro x hx
    obtain ⟨p, cop, h1, h2, h3⟩ := hfrom _ _ _ (linOrder_inv hx)
    exact ⟨cop, ⟨p, h1, h2⟩, h3⟩
  have hne : ∀ (x : Nat × Nat × Op K V) (M : Nat), M ≠ L → h[M]? = some (HEv.lin x.1 x.2.1) → (x.1, x.2.1) ≠ (t, i) := by
    intro x M hML hM e
    simp only [Prod.mk.injEq] at e
    rw [e.1, e.2] at hM
    exact hML (hwf.lin_unique M L t i hM hL)
  refine ⟨op, pre, post, hcall (t, i, op) (by rw [hsplit]; simp), ?_, out_of_split hl.pts.spec hsplit hreth, ?_, ?_⟩
  · rw [← hl.pts.replay_map]
    unfold replay
    rw [hsplit, List.map_append, List.map_cons]
  · intro x hx
    obtain ⟨M, hM, hMl, _⟩ := hpre x hx
    exact ⟨hne x M (by omega) hMl, hcall x (by rw [hsplit]; simp [hx])⟩
  · intro x hx
    obtain ⟨M, hM, hMl, _⟩ := hpost x hx
    refine ⟨hne x M (by omega) hMl, ?_, hcall x (by rw [hsplit]; simp [hx])⟩
    intro hs
    rw [← hl.vis] at hs
    have := lin_before_of_settled hwf hL hMl hs
    omega

/-- **the value at `k` is the one left by the last linearized operation writing `k`**: in every
    reachable configuration the abstract map is the replay of the operations linearized so far
    (`reachable_abs_is_replay`), and if none of the operations after some point writes `k`, the value
    at `k` is the one right after the operation at that point -/
theorem lookup_last_write
    (hkp : KParams lt P) (ht : TreeOk none tree) (hord : OrdTree lt tree) (hsep : SepTree lt tree)
    (ho : tree.order = P.order) (hp : PadOk P) (hd : Disciplined progs)
    (hdel : 4 ≤ tree.order ∨ NoDelete progs)
    (c : Config K V) (hr : Reachable (Config.init P tree progs) c) (k : K) :
    ∃ h, PointsWF h ∧ PointsSpec lt tree.abs h ∧ visible h = history c ∧
      ∀ (pre post : List (Nat × Nat × Op K V)) (x : Nat × Nat × Op K V), linOrder h = pre ++ x :: post →
        (∀ y ∈ post, writesKey lt k y.2.2 = false) →
        Spec.lookup lt c.tree.abs k =
          Spec.lookup lt (Spec.step lt (Spec.run lt tree.abs (pre.map (·.2.2))).1 x.2.2).1 k := by
  obtain ⟨h, hl⟩ := reachable_lininv lt P tree progs hkp ht hord hsep ho hp hd hdel c hr
  refine ⟨h, hl.pts.wf, hl.pts.spec, hl.vis, ?_⟩
  intro pre post x hsplit hpost
  rw [← hl.pts.replay_map]
  unfold replay
  rw [hsplit, List.map_append, List.map_cons]
  apply run_lookup_last_write hkp.swo
  intro o ho'
  obtain ⟨y, hy, rfl⟩ := List.mem_map.1 ho'
  exact hpost y hy

/-- **no completed Insert is lost.**  `ins k v` (call `i` of thread `t`) has returned, and every
    OTHER call of the programs that writes a key equivalent to `k` (Insert, Update, Delete) is
    settled before it — not invoked so far, or returned before `(t, i)` was invoked.  Then the map
    holds `v` at `k`. -/
theorem insert_not_lost
    (hkp : KParams lt P) (ht : TreeOk none tree) (hord : OrdTree lt tree) (hsep : SepTree lt tree)
    (ho : tree.order = P.order) (hp : PadOk P) (hd : Disciplined progs)
    (hdel : 4 ≤ tree.order ∨ NoDelete progs)
    (c : Config K V) (hr : Reachable (Config.init P tree progs) c)
    {t i : Nat} {k : K} {v : V} (hcall : CallAt progs t i (.ins k v))
    {out : Out V} (hret : HEv.ret t i out ∈ history c)
    (hothers : ∀ t' i' cop, CallAt progs t' i' cop → (t', i') ≠ (t, i) → cWrites lt k cop = true →
      SettledBefore (history c) t' i' t i) :
    Spec.lookup lt c.tree.abs k = some v := by
  obtain ⟨op, pre, post, ⟨cop, ⟨p, hp1, hp2⟩, hop⟩, habs, _, _, hpost⟩ :=
    split_at_returned lt P tree progs hkp ht hord hsep ho hp hd hdel c hr hret
  obtain ⟨p', hp1', hp2'⟩ := hcall
  rw [hp1] at hp1'; cases hp1'
  rw [hp2] at hp2'; cases hp2'
  cases hop
  rw [habs, run_lookup_last_write hkp.swo k, step_lookup_insert hkp.swo _ v (eqv_refl hkp.swo k)]
  intro o ho'
  obtain ⟨y, hy, rfl⟩ := List.mem_map.1 ho'
  obtain ⟨hne, hns, cop', hc', ho''⟩ := hpost y hy
  cases hw : writesKey lt k y.2.2 with
  | false => rfl
  | true =>
    rw [writesKey_of_opOf ho''] at hw
    exact absurd (hothers _ _ cop' hc' hne hw) hns

/-- **no completed Update is lost.**  `upd k f` (call `i` of thread `t`) has returned; its response
    in the history carries the argument `arg` its callback received.  Every other call of the
    programs that writes a key equivalent to `k` is settled before it.  Then the map holds
    `f arg` at `k`. -/
theorem update_not_lost
    (hkp : KParams lt P) (ht : TreeOk none tree) (hord : OrdTree lt tree) (hsep : SepTree lt tree)
    (ho : tree.order = P.order) (hp : PadOk P) (hd : Disciplined progs)
    (hdel : 4 ≤ tree.order ∨ NoDelete progs)
    (c : Config K V) (hr : Reachable (Config.init P tree progs) c)
    {t i : Nat} {k : K} {f : Option V → V} {y : Bool} (hcall : CallAt progs t i (.upd k f y))
    {arg : Option V} (hret : HEv.ret t i (.callback arg) ∈ history c)
    (hothers : ∀ t' i' cop, CallAt progs t' i' cop → (t', i') ≠ (t, i) → cWrites lt k cop = true →
      SettledBefore (history c) t' i' t i) :
    Spec.lookup lt c.tree.abs k = some (f arg) := by
  obtain ⟨op, pre, post, ⟨cop, ⟨p, hp1, hp2⟩, hop⟩, habs, hout, _, hpost⟩ :=
    split_at_returned lt P tree progs hkp ht hord hsep ho hp hd hdel c hr hret
  obtain ⟨p', hp1', hp2'⟩ := hcall
  rw [hp1] at hp1'; cases hp1'
  rw [hp2] at hp2'; cases hp2'
  cases hop
  have harg : arg = Spec.lookup lt (Spec.run lt tree.abs (pre.map (·.2.2))).1 k := by
    simpa [Spec.step] using hout
  rw [habs, run_lookup_last_write hkp.swo k, step_lookup_update hkp.swo _ f (eqv_refl hkp.swo k), harg]
  intro o ho'
  obtain ⟨z, hz, rfl⟩ := List.mem_map.1 ho'
  obtain ⟨hne, hns, cop', hc', ho''⟩ := hpost z hz
  cases hw : writesKey lt k z.2.2 with
  | false => rfl
  | true =>
    rw [writesKey_of_opOf ho''] at hw
    exact absurd (hothers _ _ cop' hc' hne hw) hns

/-- **no deleted key reappears.**  `del k` (call `i` of thread `t`) has returned, and every call of
    the programs that STORES a value at a key equivalent to `k` (Insert or Update; other Deletes
    do not matter) is settled before it — not invoked so far, or returned before `(t, i)` was
    invoked.  Then `k` is absent from the map. -/
theorem delete_not_undone
    (hkp : KParams lt P) (ht : TreeOk none tree) (hord : OrdTree lt tree) (hsep : SepTree lt tree)
    (ho : tree.order = P.order) (hp : PadOk P) (hd : Disciplined progs)
    (hdel : 4 ≤ tree.order ∨ NoDelete progs)
    (c : Config K V) (hr : Reachable (Config.init P tree progs) c)
    {t i : Nat} {k : K} (hcall : CallAt progs t i (.del k))
    {out : Out V} (hret : HEv.ret t i out ∈ history c)
    (hothers : ∀ t' i' cop, CallAt progs t' i' cop → cPuts lt k cop = true →
      SettledBefore (history c) t' i' t i) :
    Spec.lookup lt c.tree.abs k = none := by
  obtain ⟨op, pre, post, ⟨cop, ⟨p, hp1, hp2⟩, hop⟩, habs, _, _, hpost⟩ :=
    split_at_returned lt P tree progs hkp ht hord hsep ho hp hd hdel c hr hret
  obtain ⟨p', hp1', hp2'⟩ := hcall
  rw [hp1] at hp1'; cases hp1'
  rw [hp2] at hp2'; cases hp2'
  cases hop
  rw [habs, run_fst_append, run_cons_fst]
  apply run_lookup_none_of_not_puts hkp.swo k
  · intro o ho'
    obtain ⟨z, hz, rfl⟩ := List.mem_map.1 ho'
    obtain ⟨_, hns, cop', hc', ho''⟩ := hpost z hz
    cases hw : putsKey lt k z.2.2 with
    | false => rfl
    | true =>
      rw [putsKey_of_opOf ho''] at hw
      exact absurd (hothers _ _ cop' hc' hw) hns
  · exact step_lookup_delete hkp.swo _ (eqv_refl hkp.swo k)

/-! ### the simplest forms: nobody else writes the key -/

/-- no call of the programs other than `(t, i)` writes a key equivalent to `k` -/
def NoOtherWrites (lt : K → K → Bool) (k : K) (progs : List (List (COp K V))) (t i : Nat) : Prop :=
  ∀ t' i' cop, CallAt progs t' i' cop → (t', i') ≠ (t, i) → cWrites lt k cop = false

/-- `ins k v` has returned and nothing else in the programs writes `k`: the map holds `v` at `k`,
    in every configuration from the response on (under every schedule) -/
theorem insert_not_lost_alone
    (hkp : KParams lt P) (ht : TreeOk none tree) (hord : OrdTree lt tree) (hsep : SepTree lt tree)
    (ho : tree.order = P.order) (hp : PadOk P) (hd : Disciplined progs)
    (hdel : 4 ≤ tree.order ∨ NoDelete progs)
    (c : Config K V) (hr : Reachable (Config.init P tree progs) c)
    {t i : Nat} {k : K} {v : V} (hcall : CallAt progs t i (.ins k v))
    {out : Out V} (hret : HEv.ret t i out ∈ history c) (hno : NoOtherWrites lt k progs t i) :
    Spec.lookup lt c.tree.abs k = some v :=
  insert_not_lost lt P tree progs hkp ht hord hsep ho hp hd hdel c hr hcall hret
    (fun t' i' cop hc hne hw => by rw [hno t' i' cop hc hne] at hw; cases hw)

/-- `upd k f` has returned and nothing else in the programs writes `k`: the map holds
    `f (initial value at k)` at `k`, in every configuration from the response on -/
theorem update_not_lost_alone
    (hkp : KParams lt P) (ht : TreeOk none tree) (hord : OrdTree lt tree) (hsep : SepTree lt tree)
    (ho : tree.order = P.order) (hp : PadOk P) (hd : Disciplined progs)
    (hdel : 4 ≤ tree.order ∨ NoDelete progs)
    (c : Config K V) (hr : Reachable (Config.init P tree progs) c)
    {t i : Nat} {k : K} {f : Option V → V} {y : Bool} (hcall : CallAt progs t i (.upd k f y))
    {out : Out V} (hret : HEv.ret t i out ∈ history c) (hno : NoOtherWrites lt k progs t i) :
    Spec.lookup lt c.tree.abs k = some (f (Spec.lookup lt tree.abs k)) := by
  obtain ⟨op, pre, post, ⟨cop, ⟨p, hp1, hp2⟩, hop⟩, habs, _, hpre, hpost⟩ :=
    split_at_returned lt P tree progs hkp ht hord hsep ho hp hd hdel c hr hret
  obtain ⟨p', hp1', hp2'⟩ := hcall
  rw [hp1] at hp1'; cases hp1'
  rw [hp2] at hp2'; cases hp2'
  cases hop
  rw [habs, run_lookup_last_write hkp.swo k, step_lookup_update hkp.swo _ f (eqv_refl hkp.swo k),
    run_lookup_of_not_writes hkp.swo k]
  · intro o ho'
    obtain ⟨z, hz, rfl⟩ := List.mem_map.1 ho'
    obtain ⟨hne, cop', hc', ho''⟩ := hpre z hz
    rw [writesKey_of_opOf ho'']; exact hno _ _ cop' hc' hne
  · intro o ho'
    obtain ⟨z, hz, rfl⟩ := List.mem_map.1 ho'
    obtain ⟨hne, _, cop', hc', ho''⟩ := hpost z hz
    rw [writesKey_of_opOf ho'']; exact hno _ _ cop' hc' hne

/-- `del k` has returned and no call of the programs stores a value at `k`: `k` is absent, in
    every configuration from the response on -/
theorem delete_not_undone_alone
    (hkp : KParams lt P) (ht : TreeOk none tree) (hord : OrdTree lt tree) (hsep : SepTree lt tree)
    (ho : tree.order = P.order) (hp : PadOk P) (hd : Disciplined progs)
    (hdel : 4 ≤ tree.order ∨ NoDelete progs)
    (c : Config K V) (hr : Reachable (Config.init P tree progs) c)
    {t i : Nat} {k : K} (hcall : CallAt progs t i (.del k))
    {out : Out V} (hret : HEv.ret t i out ∈ history c)
    (hno : ∀ t' i' cop, CallAt progs t' i' cop → cPuts lt k cop = false) :
    Spec.lookup lt c.tree.abs k = none :=
  delete_not_undone lt P tree progs hkp ht hord hsep ho hp hd hdel c hr hcall hret
    (fun t' i' cop hc hw => by rw [hno t' i' cop hc] at hw; cases hw)

end Main

end Gobptree.Conc
