/-
  Key-order zoom machinery, part 2: search routes (`routeB`) before and after rewriting one
  identity.  Only distinct identities and parallel lengths are used here, no ordering.
-/
import Gobptree.Proofs.CKZoomBase

namespace Gobptree.Conc
open Gobptree

variable {K V : Type} {lt : K → K → Bool}

/-! ### unfolding `routeB` -/

theorem routeB_zero (key : K) (lo hi : Option K) (l : Leaf K V) :
    routeB (V := V) lt key 0 lo hi l = [(l.id, lo, hi)] := rfl

/-- the part of the route below an inner node -/
def routeKid (lt : K → K → Bool) (key : K) {d : Nat} (hi : Option K) (i : Inner K (Node K V d)) :
    List (Nat × Option K × Option K) :=
  match i.runts[searchLE lt key i.runts]?, i.kids[searchLE lt key i.runts]? with
  | some s, some c => routeB lt key d (some s) (hiAt i.runts (searchLE lt key i.runts) hi) c
  | _, _ => []

theorem routeB_succ (key : K) {d : Nat} (lo hi : Option K) (i : Inner K (Node K V d)) :
    routeB lt key (d + 1) lo hi i = (i.id, lo, hi) :: routeKid lt key hi i := rfl

theorem routeB_head (key : K) : ∀ (d : Nat) (lo hi : Option K) (n : Node K V d),
    ∃ tl, routeB lt key d lo hi n = (Node.id n, lo, hi) :: tl
  | 0, _, _, _ => ⟨[], rfl⟩
  | _ + 1, _, _, _ => ⟨_, rfl⟩

/-- every entry of a route names a node of the subtree -/
theorem mem_routeB_ids (key : K) : ∀ (d : Nat) (lo hi : Option K) (n : Node K V d) (e : Nat × Option K × Option K),
    e ∈ routeB lt key d lo hi n → e.1 ∈ idsOf n := by
  intro d
  induction d with
  | zero =>
    intro lo hi n e he
    rw [routeB_zero key lo hi n] at he
    rw [List.mem_singleton.1 he, idsOf_zero n]
    exact List.mem_singleton.2 rfl
  | succ d ih =>
    intro lo hi n e he
    rw [routeB_succ key lo hi n, List.mem_cons] at he
    rw [idsOf_succ n]
    rcases he with rfl | he
    · exact List.mem_cons_self
    · apply List.mem_cons_of_mem
      unfold routeKid at he
      split at he
      · rename_i s c hs hc
        exact List.mem_flatMap.2 ⟨c, List.mem_of_getElem? hc, ih _ _ c e he⟩
      · cases he

theorem mem_routeKid_ids (key : K) {d : Nat} (hi : Option K) (i : Inner K (Node K V d))
    (e : Nat × Option K × Option K) (he : e ∈ routeKid lt key hi i) :
    ∃ j c, j = searchLE lt key i.runts ∧ i.kids[j]? = some c ∧ e.1 ∈ idsOf c := by
  unfold routeKid at he
  split at he
  · rename_i s c hs hc
    exact ⟨_, c, rfl, hc, mem_routeB_ids key d _ _ c e he⟩
  · cases he

/-- the route below an inner node decomposed at the routing index -/
theorem routeKid_at (key : K) {d : Nat} (hi : Option K) (i : Inner K (Node K V d))
    (rA rB : List K) (k : K) (A B : List (Node K V d)) (c : Node K V d)
    (hr : i.runts = rA ++ k :: rB) (hk : i.kids = A ++ c :: B)
    (hl : rA.length = A.length) (hlB : rB.length = B.length)
    (hj : searchLE lt key i.runts = A.length) :
    routeKid lt key hi i = routeB lt key d (some k) (nextLo hi (rB.zip B)) c := by
  unfold routeKid
  rw [hj]
  have h1 : i.runts[A.length]? = some k := by rw [hr, ← hl]; exact form_getElem_pivot rA rB k
  have h2 : i.kids[A.length]? = some c := by rw [hk]; exact form_getElem_pivot A B c
  rw [h1, h2]
  simp only
  rw [hr, ← hl, hiAt_decomp rA rB k B hi hlB]

theorem getElem?_replace_ne {α : Type} (A B : List α) (c c2 : α) (j : Nat) (hj : j ≠ A.length) :
    (A ++ c :: B)[j]? = (A ++ c2 :: B)[j]? := by
  by_cases h : j < A.length
  · rw [List.getElem?_append_left h, List.getElem?_append_left h]
  · have h' : A.length ≤ j := by omega
    rw [List.getElem?_append_right h', List.getElem?_append_right h']
    obtain ⟨n, hn⟩ : ∃ n, j - A.length = n + 1 := ⟨j - A.length - 1, by omega⟩
    rw [hn]
    rfl

theorem getElem?_ne_mem {α : Type} (A B : List α) (c x : α) (j : Nat) (hj : j ≠ A.length)
    (h : (A ++ c :: B)[j]? = some x) : x ∈ A ∨ x ∈ B := by
  by_cases h1 : j < A.length
  · rw [List.getElem?_append_left h1] at h
    exact Or.inl (List.mem_of_getElem? h)
  · have h' : A.length ≤ j := by omega
    rw [List.getElem?_append_right h'] at h
    obtain ⟨n, hn⟩ : ∃ n, j - A.length = n + 1 := ⟨j - A.length - 1, by omega⟩
    rw [hn] at h
    exact Or.inr (List.mem_of_getElem? h)

/-- replacing a kid the search does not descend into leaves the route unchanged -/
theorem routeKid_replace_ne (key : K) {d : Nat} (hi : Option K) (id0 : Nat) (runts : List K)
    (A B : List (Node K V d)) (c c2 : Node K V d)
    (hj : searchLE lt key runts ≠ A.length) :
    routeKid lt key hi (Inner.mk id0 runts (A ++ c2 :: B) : Inner K (Node K V d)) =
      routeKid lt key hi (Inner.mk id0 runts (A ++ c :: B) : Inner K (Node K V d)) := by
  unfold routeKid
  simp only
  rw [getElem?_replace_ne A B c2 c _ hj]

/-- an identity that occurs only below kid `c` is on the route only if the search descends
    into `c` -/
theorem route_index_of_mem (key : K) {d : Nat} (hi : Option K) (i : Inner K (Node K V d))
    (A B : List (Node K V d)) (c : Node K V d) (id : Nat)
    (hk : i.kids = A ++ c :: B) (hA : ∀ a ∈ A, id ∉ idsOf a) (hB : ∀ b ∈ B, id ∉ idsOf b)
    (e : Nat × Option K × Option K) (he : e ∈ routeKid lt key hi i) (hid : e.1 = id) :
    searchLE lt key i.runts = A.length := by
  obtain ⟨j, c', hj, hc', hm⟩ := mem_routeKid_ids key hi i e he
  apply Classical.byContradiction
  intro hne
  rw [hk] at hc'
  rw [hid] at hm
  rcases getElem?_ne_mem A B c c' j (by rw [hj]; exact hne) hc' with h | h
  · exact hA c' h hm
  · exact hB c' h hm

/-! ### the zoom lemma for routes -/

/-- **route zoom.** Rewriting identity `id`: a route that does not pass `id` is unchanged; a
    route that passes `id` (necessarily with the interval `boundsOf` assigns) is a fixed prefix
    followed by the route inside the node, before and after. -/
theorem route_zoom (key : K) (id : Nat) : ∀ (d : Nat) (n : Node K V d) (lo hi : Option K) (d' : Nat) (m : Node K V d'),
    findNode id d n = some ⟨d', m⟩ → (idsOf n).Nodup → ParN d n →
    ((∀ a b, (id, a, b) ∉ routeB lt key d lo hi n) →
       ∀ f : (d : Nat) → Node K V d → Node K V d,
         routeB lt key d lo hi (modifyNode id f d n) = routeB lt key d lo hi n) ∧
    (∀ a b, (id, a, b) ∈ routeB lt key d lo hi n →
       boundsOf id d lo hi n = some (a, b) ∧
       ∃ pre, (∀ e ∈ pre, e.1 ≠ id) ∧ routeB lt key d lo hi n = pre ++ routeB lt key d' a b m ∧
         ∀ f : (d : Nat) → Node K V d → Node K V d,
           routeB lt key d lo hi (modifyNode id f d n) = pre ++ routeB lt key d' a b (f d' m)) := by
  intro d
  induction d with
  | zero =>
    intro (n : Leaf K V) lo hi d' m hf hnd hpar
    have hf' : (if (n : Leaf K V).id = id then some (⟨0, n⟩ : AnyNode K V) else none) = some ⟨d', m⟩ := hf
    by_cases hid : (n : Leaf K V).id = id
    · simp only [hid, if_true, Option.some.injEq] at hf'
      cases hf'
      constructor
      · intro hno
        exact absurd (by rw [routeB_zero key lo hi n, hid]; exact List.mem_singleton.2 rfl) (hno lo hi)
      · intro a b hab
        rw [routeB_zero key lo hi n, List.mem_singleton] at hab
        have ea : a = lo := by injection hab with _ h2; injection h2
        have eb : b = hi := by injection hab with _ h2; injection h2
        subst ea; subst eb
        refine ⟨boundsOf_zero_eq id a b n hid, [], by simp, rfl, ?_⟩
        intro f
        rw [modifyNode_zero_eq id f n hid]
        rfl
    · simp [hid] at hf'
  | succ d ih =>
    intro (n : Inner K (Node K V d)) lo hi d' m hf hnd hpar
    by_cases hid : (n : Inner K (Node K V d)).id = id
    · have hf' : (if (n : Inner K (Node K V d)).id = id then some (⟨d + 1, n⟩ : AnyNode K V)
          else (n : Inner K (Node K V d)).kids.findSome? (findNode id d)) = some ⟨d', m⟩ := hf
      simp only [hid, if_true, Option.some.injEq] at hf'
      cases hf'
      constructor
      · intro hno
        exact absurd (by rw [routeB_succ key lo hi n, hid]; exact List.mem_cons_self) (hno lo hi)
      · intro a b hab
        rw [routeB_succ key lo hi n, List.mem_cons] at hab
        have hab' : (id, a, b) = ((n : Inner K (Node K V d)).id, lo, hi) := by
          rcases hab with h | h
          · exact h
          · exfalso
            obtain ⟨j, c', _, hc', hm⟩ := mem_routeKid_ids key hi n _ h
            rw [idsOf_succ n, List.nodup_cons] at hnd
            apply hnd.1
            rw [hid]
            exact List.mem_flatMap.2 ⟨c', List.mem_of_getElem? hc', hm⟩
        have ea : a = lo := by injection hab' with _ h2; injection h2
        have eb : b = hi := by injection hab' with _ h2; injection h2
        subst ea; subst eb
        refine ⟨boundsOf_succ_eq id a b n hid, [], by simp, rfl, ?_⟩
        intro f
        rw [modifyNode_succ_eq id f n hid]
        rfl
    · obtain ⟨rA, k, rB, A, c, B, hr, hk, hl, hlB, hfc, hndc, hparc, hA, hB, _, _⟩ :=
        find_step id n hf hid hnd hpar
      have hmod : ∀ f : (d : Nat) → Node K V d → Node K V d, modifyNode id f (d + 1) n =
          (Inner.mk (n : Inner K (Node K V d)).id (n : Inner K (Node K V d)).runts (A ++ modifyNode id f d c :: B) : Inner K (Node K V d)) :=
        fun f => modifyNode_kid id f n A B c hid hk hA hB
      have hself : (n : Inner K (Node K V d)) =
          (Inner.mk (n : Inner K (Node K V d)).id (n : Inner K (Node K V d)).runts (A ++ c :: B) : Inner K (Node K V d)) := by
        rw [← hk]
      obtain ⟨ih1, ih2⟩ := ih c (some k) (nextLo hi (rB.zip B)) d' m hfc hndc hparc
      by_cases hj : searchLE lt key (n : Inner K (Node K V d)).runts = A.length
      · have hroute : routeKid lt key hi (n : Inner K (Node K V d)) = routeB lt key d (some k) (nextLo hi (rB.zip B)) c :=
          routeKid_at key hi n rA rB k A B c hr hk hl hlB hj
        have hroute' : ∀ f : (d : Nat) → Node K V d → Node K V d,
            routeB lt key (d + 1) lo hi (modifyNode id f (d + 1) n) =
              ((n : Inner K (Node K V d)).id, lo, hi) :: routeB lt key d (some k) (nextLo hi (rB.zip B)) (modifyNode id f d c) := by
          intro f
          rw [hmod f]
          exact congrArg (List.cons ((n : Inner K (Node K V d)).id, lo, hi))
            (routeKid_at key hi (Inner.mk (n : Inner K (Node K V d)).id (n : Inner K (Node K V d)).runts (A ++ modifyNode id f d c :: B) : Inner K (Node K V d))
              rA rB k A B (modifyNode id f d c) hr rfl hl hlB hj)
        constructor
        · intro hno f
          rw [hroute' f, routeB_succ key lo hi n, hroute]
          rw [ih1 (fun a b hab => hno a b (by
            rw [routeB_succ key lo hi n, hroute]; exact List.mem_cons_of_mem _ hab)) f]
        · intro a b hab
          rw [routeB_succ key lo hi n, hroute, List.mem_cons] at hab
          have habc : (id, a, b) ∈ routeB lt key d (some k) (nextLo hi (rB.zip B)) c := by
            rcases hab with h | h
            · exfalso; injection h with h1 _; exact hid h1.symm
            · exact h
          obtain ⟨hb, pre, hpre, hr1, hr2⟩ := ih2 a b habc
          refine ⟨boundsOf_kid id lo hi n rA rB k A B c (a, b) hid hr hk hl hA hb,
            ((n : Inner K (Node K V d)).id, lo, hi) :: pre, ?_, ?_, ?_⟩
          · intro e he
            rcases List.mem_cons.1 he with rfl | he
            · exact hid
            · exact hpre e he
          · rw [routeB_succ key lo hi n, hroute, hr1]; rfl
          · intro f
            rw [hroute' f, hr2 f]; rfl
      · constructor
        · intro _ f
          rw [hmod f, routeB_succ key lo hi (Inner.mk (n : Inner K (Node K V d)).id (n : Inner K (Node K V d)).runts (A ++ modifyNode id f d c :: B) : Inner K (Node K V d)),
            routeKid_replace_ne key hi _ _ A B c (modifyNode id f d c) hj, ← hself]
          rfl
        · intro a b hab
          exfalso
          rw [routeB_succ key lo hi n, List.mem_cons] at hab
          rcases hab with h | h
          · injection h with h1 _; exact hid h1.symm
          · exact hj (route_index_of_mem key hi n A B c id hk hA hB _ h rfl)

/-- the interval of an entry of a route is the one `boundsOf` assigns -/
theorem route_bounds (key : K) {d : Nat} (n : Node K V d) (lo hi : Option K) (hnd : (idsOf n).Nodup)
    (hpar : ParN d n) (x : Nat) (a b : Option K) (h : (x, a, b) ∈ routeB lt key d lo hi n) :
    boundsOf x d lo hi n = some (a, b) := by
  have hx : x ∈ idsOf n := mem_routeB_ids key d lo hi n _ h
  cases hf : findNode x d n with
  | none => exact absurd hx ((findNode_none' x n).1 hf)
  | some am =>
    obtain ⟨d', m⟩ := am
    exact ((route_zoom key x d n lo hi d' m hf hnd hpar).2 a b h).1

theorem loLe_refl (h : SWO lt) (lo : Option K) : loLe lt lo lo := by
  cases lo with
  | none => trivial
  | some l => exact h.irrefl l

/-- **route stability.** If every entry outside `W` of the route inside the rewritten node
    survives the rewrite with the same or a wider interval, then so does every entry outside
    `W` of the whole route. -/
theorem route_stable (h : SWO lt) (key : K) (id : Nat) {d d' : Nat} (n : Node K V d) (lo hi : Option K)
    (m : Node K V d') (hf : findNode id d n = some ⟨d', m⟩) (hnd : (idsOf n).Nodup) (hpar : ParN d n)
    (lo' hi' : Option K) (hb : boundsOf id d lo hi n = some (lo', hi'))
    (W : Nat → Prop) (f : (d : Nat) → Node K V d → Node K V d)
    (hsub : ∀ x a b, (x, a, b) ∈ routeB lt key d' lo' hi' m → ¬ W x →
      ∃ a' b', (x, a', b') ∈ routeB lt key d' lo' hi' (f d' m) ∧ loLe lt a' a ∧ hiLe lt b b') :
    ∀ x a b, (x, a, b) ∈ routeB lt key d lo hi n → ¬ W x →
      ∃ a' b', (x, a', b') ∈ routeB lt key d lo hi (modifyNode id f d n) ∧ loLe lt a' a ∧ hiLe lt b b' := by
  intro x a b hx hW
  obtain ⟨z1, z2⟩ := route_zoom (lt := lt) key id d n lo hi d' m hf hnd hpar
  by_cases hon : ∃ a0 b0, (id, a0, b0) ∈ routeB lt key d lo hi n
  · obtain ⟨a0, b0, h0⟩ := hon
    obtain ⟨hb0, pre, _, hr1, hr2⟩ := z2 a0 b0 h0
    rw [hb] at hb0
    injection hb0 with hb0
    injection hb0 with e1 e2
    subst e1; subst e2
    rw [hr2 f]
    rw [hr1] at hx
    rcases List.mem_append.1 hx with hx | hx
    · exact ⟨a, b, List.mem_append.2 (Or.inl hx), loLe_refl h a, hiLe_refl h b⟩
    · obtain ⟨a', b', hm, h1, h2⟩ := hsub x a b hx hW
      exact ⟨a', b', List.mem_append.2 (Or.inr hm), h1, h2⟩
  · rw [z1 (fun a0 b0 h0 => hon ⟨a0, b0, h0⟩) f]
    exact ⟨a, b, hx, loLe_refl h a, hiLe_refl h b⟩

end Gobptree.Conc
