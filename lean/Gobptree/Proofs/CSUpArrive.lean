/-
  The two Insert/Update blocks that may split a node: `upChildArrive` (after acquiring
  the child) and `upRootArrive` (after acquiring the root).
-/
import Gobptree.Proofs.CSUpSplit
import Gobptree.Proofs.Context

namespace Gobptree.Conc
open Gobptree

variable {K V : Type}

theorem getElem?_split {α : Type} (l : List α) (i : Nat) (x : α) (h : l[i]? = some x) :
    ∃ A B, l = A ++ x :: B ∧ A.length = i := by
  obtain ⟨hi, hx⟩ := List.getElem?_eq_some_iff.1 h
  refine ⟨l.take i, l.drop (i + 1), ?_, ?_⟩
  · rw [← hx, ← List.drop_eq_getElem_cons, List.take_append_drop]
  · rw [List.length_take]; omega

/-- go on with the descent after a rewrite of the tree -/
theorem continue_after {H : List Lk} {hole : Option Nat} {P : Params K} (t : Nat) {s s1 : St K V}
    (key : K) (f : Option V → V) (y : Option Bool) (hpre : Pre P hole s) (hstep : Step H hole s.tree s1.tree)
    {n : Nat} {sh : Shallow K V} (hmem : (n, sh) ∈ s1.tree.flat) (hlt : sh.keys.length < s.tree.order)
    (hH : Lk.node n ∈ H) (hcur : cursorLocks s1.cursor = []) :
    Post H hole s (upContinue P t s1 key f y n).1 (upContinue P t s1 key f y n).2 ∧
      flowHole (upContinue P t s1 key f y n).2 = none := by
  have hpre1 : Pre P hole s1 := ⟨hstep.tree, hstep.order.trans hpre.order, hpre.pad⟩
  have hnf : notFull s1.tree n := ⟨sh, mem_look hstep.tree.ids hmem, by rw [hstep.order]; exact hlt⟩
  have h := upContinue_post P t s1 key f y n H hole hpre1 hnf hH hcur
  exact ⟨Post.of_step hstep h.1, h.2⟩

theorem flat_inner_split {d : Nat} (id : Nat) (runts : List K) (Ak Bk mid : List (Node K V d)) :
    flat (d := d + 1) (Inner.mk id runts (Ak ++ mid ++ Bk) : Inner K (Node K V d)) =
      (id, shallow (d := d + 1) (Inner.mk id runts (Ak ++ mid ++ Bk) : Inner K (Node K V d))) ::
        (Ak.flatMap flat ++ mid.flatMap flat ++ Bk.flatMap flat) := by
  rw [flat_mk]
  simp only [List.flatMap_append]

/-- after acquiring the child in the descent loop -/
theorem upChildArrive_post (P : Params K) (t : Nat) (s : St K V) (key : K) (f : Option V → V) (y : Option Bool)
    (parent index child : Nat) (H : List Lk) (hole : Option Nat) (hpre : Pre P hole s)
    (hk : KontOk s.tree (.upChild key f y parent index child)) (hHp : Lk.node parent ∈ H)
    (hHc : Lk.node child ∈ H) (hcur : cursorLocks s.cursor = []) :
    Post H hole s (upChildArrive P t s key f y parent index child).1
        (upChildArrive P t s key f y parent index child).2 ∧
      flowHole (upChildArrive P t s key f y parent index child).2 = none := by
  obtain ⟨hkid, hnfp⟩ := hk
  have hok := hpre.tree
  obtain ⟨shp, hlp, hkidx⟩ := kidAt_look hkid
  obtain ⟨a, hfind, hsh, _⟩ := find_some_of_look hlp
  obtain ⟨d, p, c, rfl, hpk, hcid⟩ := any_kid a index child (by rw [hsh]; exact hkidx)
  have hsh' : shp = shallow (d := d + 1) p := hsh.symm
  subst hsh'
  obtain ⟨hmid, L0, R0, hf0, _⟩ := Tree.find_modify hfind
  have hmid' : p.id = parent := hmid
  obtain ⟨Ak, Bk, hkids, hAk⟩ := getElem?_split p.kids index c hpk
  have hoccp : NodeOcc s.tree.order (minOf s.tree.order s.tree.rootId hole p.id (d + 1)) (shallow (d := d + 1) p) := by
    rw [hmid']; exact occ_of_look hok.occ hlp
  obtain ⟨hlenp, honep, _⟩ := hoccp.2.2.2 (Nat.succ_pos d)
  have hlenp' : p.runts.length = p.kids.length := by
    have : p.runts.length = (p.kids.map (Node.id (d := d))).length := hlenp
    rwa [List.length_map] at this
  have honep' : 1 ≤ p.runts.length := honep
  have hcapp : p.runts.length < s.tree.order := by
    obtain ⟨sh, hl, hlt⟩ := hnfp
    rw [hlp] at hl
    cases hl
    exact hlt
  have hidxlt : index < p.kids.length := (List.getElem?_eq_some_iff.1 hpk).1
  obtain ⟨r', hlow, hlen'⟩ := lowerFirst_ok P key index p.runts c honep'
  -- the parent and the child in the flat view
  have hpeq : p = (Inner.mk p.id p.runts (Ak ++ [c] ++ Bk) : Inner K (Node K V d)) := by
    cases p with
    | mk id runts kids => simp only at hkids; subst hkids; simp
  have hflatp : flat (d := d + 1) p =
      (p.id, shallow (d := d + 1) p) :: (Ak.flatMap flat ++ flat c ++ Bk.flatMap flat) := by
    conv => lhs; rw [hpeq]
    rw [flat_inner_split]
    simp only [List.flatMap_cons, List.flatMap_nil, List.append_nil]
    rw [← hpeq]
  have hmemc : (Node.id c, shallow c) ∈ s.tree.flat := by
    rw [hf0, hflatp]
    have := self_mem_flat c
    simp [this]
  have hoccC := hok.occ _ hmemc
  have hcne : Node.id c ≠ s.tree.rootId := by rw [hcid]; exact kid_ne_root hok.ids hkid
  have hfind' : ∀ (ru : List K) (ks : List (Node K V d)),
      s.tree.find (Inner.mk p.id ru ks : Inner K (Node K V d)).id = some ⟨d + 1, p⟩ := by
    intro ru ks
    show s.tree.find p.id = _
    rw [hmid']; exact hfind
  have hHp' : Lk.node p.id ∈ H := by rw [hmid']; exact hHp
  have hHc' : Lk.node (Node.id c) ∈ H := by rw [hcid]; exact hHc
  unfold upChildArrive
  rw [hfind]
  simp only
  rw [hpk]
  simp only
  rw [hlow]
  simp only
  have hoccC' : NodeOcc P.order _ (shallow c) := hpre.order ▸ hoccC
  have heven : P.order % 2 = 0 := hpre.order ▸ hok.even
  rcases maybeSplit_cases P.order s.tree.nextId heven c hoccC' with ⟨hlt, hms⟩ | ⟨l, r, hms, hso⟩
  · -- no split
    rw [hms]
    simp only
    have hset : p.kids.set index c = Ak ++ [c] ++ Bk := by
      rw [hkids, ← hAk, form_set_pivot]; simp
    rw [hset]
    obtain ⟨L, R, hf, hf', hroot, hdepth, hnid, hord⟩ :=
      putInner_flat (Inner.mk p.id r' (Ak ++ [c] ++ Bk) : Inner K (Node K V d)) (hfind' _ _) hok.ids.1
    rw [flat_inner_split] at hf'
    rw [hflatp] at hf
    simp only [List.flatMap_cons, List.flatMap_nil, List.append_nil] at hf'
    have hstep : Step H hole s.tree
        (putInner s.tree (Inner.mk p.id r' (Ak ++ [c] ++ Bk) : Inner K (Node K V d))) := by
      refine inner_surgery (M := []) (M' := []) (X := Ak.flatMap flat ++ flat c) (Y := Bk.flatMap flat)
        (L := L) (R := R) (pid := p.id) (shp := shallow (d := d + 1) p)
        (shp' := shallow (d := d + 1) (Inner.mk p.id r' (Ak ++ [c] ++ Bk) : Inner K (Node K V d))) hok
        (by rw [hf]; simp) (by rw [hf']; simp) hroot hdepth hord hHp' (Nat.succ_pos d) rfl ?_
        (MidOk.nil _ _ _ _ _) (by omega)
      refine ⟨?_, ?_, fun h0 => absurd h0 (Nat.succ_ne_zero d), fun _ => ⟨?_, ?_, rfl⟩⟩
      · show r'.length ≤ _
        rw [hlen']; exact hoccp.1
      · show minOf s.tree.order s.tree.rootId hole p.id (d + 1) ≤ r'.length
        rw [hlen']; exact hoccp.2.1
      · show r'.length = ((Ak ++ [c] ++ Bk).map (Node.id (d := d))).length
        rw [hlen', hlenp', hkids]; simp
      · show 1 ≤ r'.length
        omega
    refine continue_after (s1 := St.rel _ t (Lk.node parent)) t key f y hpre hstep (n := child)
      (sh := shallow c) ?_ ?_ hHc hcur
    · show (child, shallow c) ∈ (putInner s.tree _).flat
      rw [hf', ← hcid]
      have := self_mem_flat c
      simp [this]
    · rw [hpre.order]; exact hlt
  · -- split
    rw [hms]
    simp only
    obtain ⟨pad, hp⟩ : ∃ pad, P.pad (some key) = some pad := by
      cases h : P.pad (some key) with
      | none => exact absurd h (hpre.pad key)
      | some x => exact ⟨x, rfl⟩
    have hso' : SplitOut s.tree.order s.tree.nextId c l r := by rw [hpre.order]; exact hso
    obtain ⟨hoccl, hoccr, hlenl, hlenr⟩ := hso'.occ (m' := s.tree.order / 2) hoccC hok.order2 hok.even (Nat.le_refl _)
    have ho4 := hok.order2
    have hev := hok.even
    obtain ⟨rs, hrs⟩ := smallest_ok r (by rw [hlenr]; omega)
    rw [hp, hrs]
    simp only
    have hkids' : (insertIdiom r p.kids (index + 1) r).set index l = Ak ++ [l, r] ++ Bk := by
      rw [hkids, ← hAk, form_insert_next, form_set_pivot]; simp
    rw [hkids']
    have hrlen : (insertIdiom pad r' (index + 1) rs).length = p.runts.length + 1 := by
      rw [length_insertIdiom _ _ _ _ (by omega), hlen']
    generalize hru : insertIdiom pad r' (index + 1) rs = ru at hrlen
    obtain ⟨L, R, hf, hf', hroot, hdepth, hnid, hord⟩ :=
      putInner_flat (Inner.mk p.id ru (Ak ++ [l, r] ++ Bk) : Inner K (Node K V d)) (hfind' _ _) hok.ids.1
    rw [flat_inner_split] at hf'
    rw [hflatp] at hf
    simp only [List.flatMap_cons, List.flatMap_nil, List.append_nil] at hf'
    generalize ht1 : putInner s.tree (Inner.mk p.id ru (Ak ++ [l, r] ++ Bk) : Inner K (Node K V d)) = t1
      at hf' hroot hdepth hnid hord
    have hstep : Step H hole s.tree { t1 with nextId := t1.nextId + 1 } := by
      refine inner_surgery (M := flat c) (M' := flat l ++ flat r) (X := Ak.flatMap flat) (Y := Bk.flatMap flat) hok
        hf hf' hroot hdepth hord hHp' (Nat.succ_pos d) rfl ?_ ?_ (by show _ ≤ t1.nextId + 1; omega)
      · refine ⟨?_, ?_, fun h0 => absurd h0 (Nat.succ_ne_zero d), fun _ => ⟨?_, ?_, rfl⟩⟩
        · show ru.length ≤ _
          omega
        · show minOf s.tree.order s.tree.rootId hole p.id (d + 1) ≤ ru.length
          exact Nat.le_trans hoccp.2.1 (by show p.runts.length ≤ ru.length; omega)
        · show ru.length = ((Ak ++ [l, r] ++ Bk).map (Node.id (d := d))).length
          rw [hrlen, hlenp', hkids]; simp; omega
        · show 1 ≤ ru.length
          omega
      · show MidOk H hole s.tree (t1.nextId + 1) s.tree.rootId (flat c) (flat l ++ flat r)
        rw [hnid]
        refine split_mid hso' s.tree.rootId hHc' ?_ ?_ ?_
        · exact hoccl.mono (minOf_le _ _ _ _ _ hcne)
        · refine hoccr.mono (minOf_le _ _ _ _ _ ?_)
          have := hok.ids.2 _ (List.mem_map.2 ⟨_, self_mem_flat s.tree.root, rfl⟩)
          show s.tree.nextId ≠ s.tree.rootId
          exact fun e => absurd (show s.tree.rootId < s.tree.nextId from this) (by rw [← e]; exact Nat.lt_irrefl _)
        · intro q hq
          apply hok.occ
          rw [hf0, hflatp, flat_eq_cons c]
          simp [hq]
    have hids2 := hstep.tree.ids
    have hflat2 : ({ t1 with nextId := t1.nextId + 1 } : Tree K V).flat = t1.flat := rfl
    have hmeml : (child, shallow l) ∈ ({ t1 with nextId := t1.nextId + 1 } : Tree K V).flat := by
      rw [hflat2, hf', ← hcid, ← hso.idl]
      have := self_mem_flat l
      simp [this]
    have hmemr : (s.tree.nextId, shallow r) ∈ ({ t1 with nextId := t1.nextId + 1 } : Tree K V).flat := by
      rw [hflat2, hf']
      have := self_mem_flat r
      rw [hso.idr] at this
      simp [this]
    have hlp2 : Tree.look ({ t1 with nextId := t1.nextId + 1 } : Tree K V) parent =
        some (shallow (d := d + 1) (Inner.mk p.id ru (Ak ++ [l, r] ++ Bk) : Inner K (Node K V d))) :=
      mem_look hids2 (by rw [← hmid', hflat2, hf']; simp)
    split
    · -- the key goes to the new sibling: park for it
      rw [hso.idr]
      refine ⟨⟨by simp, hstep.tree, hstep.frame, hstep.nextId, hstep.root, hstep.order, ?_,
        cursorOk_of_noLocks _ false _ hcur⟩, rfl⟩
      intro q hq
      cases hq
      refine ⟨⟨⟨index, ?_, ?_⟩, notFull_of_mem hids2 hmemr ?_, ?_⟩, hcur, ?_⟩
      · show Tree.kidAt _ parent index = some child
        unfold Tree.kidAt
        rw [hlp2]
        show ((Ak ++ [l, r] ++ Bk).map (Node.id (d := d)))[index]? = some child
        rw [← hAk, ← hcid, ← hso.idl]
        simp
      · show Tree.kidAt _ parent (index + 1) = some s.tree.nextId
        unfold Tree.kidAt
        rw [hlp2]
        show ((Ak ++ [l, r] ++ Bk).map (Node.id (d := d)))[index + 1]? = some s.tree.nextId
        rw [← hAk, ← hso.idr]
        simp
      · show _ < t1.order
        rw [hlenr, hord]; omega
      · intro sh hl h0
        rw [mem_look hids2 hmeml] at hl
        cases hl
        rw [shallow_height] at h0
        rw [hso.shl]
        show (if d = 0 then some s.tree.nextId else none) = some s.tree.nextId
        rw [if_pos h0]
      · intro x hx
        have : x = s.tree.nextId := by simpa [parkExtra, kontExtra] using hx
        omega
    · -- the key stays in the left half
      refine continue_after (s1 := St.rel _ t (Lk.node parent)) t key f y hpre hstep (n := child)
        (sh := shallow l) hmeml ?_ hHc hcur
      rw [hlenl]; omega

/-- after acquiring the root -/
theorem upRootArrive_post (P : Params K) (t : Nat) (s : St K V) (key : K) (f : Option V → V) (y : Option Bool)
    (root : Nat) (H : List Lk) (hole : Option Nat) (hpre : Pre P hole s)
    (hk : KontOk s.tree (.upRoot key f y root)) (hHt : Lk.tree ∈ H) (hHr : Lk.node root ∈ H)
    (hcur : cursorLocks s.cursor = []) :
    Post H hole s (upRootArrive P t s key f y root).1 (upRootArrive P t s key f y root).2 ∧
      flowHole (upRootArrive P t s key f y root).2 = none := by
  have hroot : root = s.tree.rootId := hk
  subst hroot
  have hok := hpre.tree
  have hrootmem : (s.tree.rootId, shallow s.tree.root) ∈ s.tree.flat := self_mem_flat s.tree.root
  have hoccR := hok.occ _ hrootmem
  have ho4 := hok.order2
  have hev := hok.even
  unfold upRootArrive
  simp only
  rcases maybeSplit_cases s.tree.order s.tree.nextId hok.even s.tree.root hoccR with ⟨hlt, hms⟩ | ⟨l, r, hms, hso⟩
  · rw [hms]
    simp only
    exact continue_after (s1 := St.rel s t Lk.tree) t key f y hpre (Step.refl hok) hrootmem hlt hHr hcur
  · rw [hms]
    simp only
    obtain ⟨hoccl, hoccr, hlenl, hlenr⟩ := hso.occ (m' := s.tree.order / 2) hoccR hok.order2 hok.even (Nat.le_refl _)
    obtain ⟨ls, hls⟩ := smallest_ok l (by rw [hlenl]; omega)
    obtain ⟨rs, hrs⟩ := smallest_ok r (by rw [hlenr]; omega)
    rw [hls, hrs]
    simp only
    generalize (if P.lt key ls = true then key else ls) = ls'
    obtain ⟨hstep, hflat', hroot'⟩ := rootSplit_step (H := H) hok hso ls' rs hHt hHr _ rfl
    generalize ht2 : (Tree.mk s.tree.order (s.tree.depth + 1)
        (Inner.mk (s.tree.nextId + 1) [ls', rs] [l, r] : Inner K (Node K V s.tree.depth))
        (s.tree.nextId + 2) : Tree K V) = t2 at hstep hflat' hroot'
    have hids2 := hstep.tree.ids
    have hmeml : (s.tree.rootId, shallow l) ∈ t2.flat := by
      rw [hflat']
      have := self_mem_flat l
      rw [hso.idl] at this
      exact List.mem_cons_of_mem _ (List.mem_append_left _ this)
    have hmemr : (s.tree.nextId, shallow r) ∈ t2.flat := by
      rw [hflat']
      have := self_mem_flat r
      rw [hso.idr] at this
      exact List.mem_cons_of_mem _ (List.mem_append_right _ this)
    split
    · rw [hso.idr]
      refine ⟨⟨by simp, hstep.tree, hstep.frame, hstep.nextId, hstep.root, hstep.order, ?_,
        cursorOk_of_noLocks _ false _ hcur⟩, rfl⟩
      intro q hq
      cases hq
      refine ⟨⟨⟨_, mem_look hids2 (by rw [hroot', hflat']; exact List.mem_cons_self), rfl⟩,
        notFull_of_mem hids2 hmemr ?_, ?_⟩, hcur, ?_⟩
      · rw [hstep.order, hlenr]; omega
      · intro sh hl h0
        rw [mem_look hids2 hmeml] at hl
        cases hl
        rw [shallow_height] at h0
        rw [hso.shl]
        show (if s.tree.depth = 0 then some s.tree.nextId else none) = some s.tree.nextId
        rw [if_pos h0]
      · intro x hx
        have : x = s.tree.nextId + 1 ∨ x = s.tree.nextId := by
          simpa [parkExtra, kontExtra, hroot'] using hx
        omega
    · refine continue_after (s1 := St.rel _ t Lk.tree) t key f y hpre hstep (n := s.tree.rootId)
        (sh := shallow l) hmeml ?_ hHr hcur
      rw [hlenl]; omega

end Gobptree.Conc
