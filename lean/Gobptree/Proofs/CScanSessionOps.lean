/-
  Whole-scan guarantee: the ghost invariant through ONE operation of the session's thread —
  starting a call from the state between two calls (`startOp_sloopI`) and resuming a parked
  call (`resume_sloopI`).  A scheduler step fuses several of these (`CScanSessionStep`).
-/
import Gobptree.Proofs.CScanSessionDefs

namespace Gobptree.Conc
open Gobptree

variable {K V : Type}

/-- what the loop of one step of the session's thread may rely on: the tree `T` the step ends
    in, and the meaning of the ghost parameters on that tree -/
structure SEnv (X : SCtx K V) (T : Tree K V) (hole : Option Nat) : Prop where
  swo : SWO X.lt
  ok : TreeOk hole T
  ord : OrdTree X.lt T
  ns : X.prog[X.a]? = some (.ns X.start)
  nfp : ∀ y, X.a < y → (∀ x, X.a < x → x < y → X.prog[x]? = some .pause) → X.prog[y]? ≠ some .pair
  ks : ∀ k, X.KS k → X.lt k X.start = false ∧ ∃ v, (k, v) ∈ T.abs
  sd : ∀ y k v, (k, v) ∈ T.abs → X.Sd y k v

/-! ### the ghost state through the single calls -/

theorem Open.step_pause {X : SCtx K V} {T : Tree K V} {cur : Option (Option Nat × Int)} {exh : Bool}
    {rs : List (Nat × Res K V)} {n : Nat} {b : Bound K} {leaf : Nat} {i : Int}
    (h : Open X T false cur exh rs n b leaf i)
    (hp : X.prog[n]? = some .pause) : Open X T false cur exh ((n, Res.ok) :: rs) (n + 1) b leaf i where
  an := by have := h.an; omega
  nsret := List.mem_cons_of_mem _ h.nsret
  hcur := h.hcur
  hexh := h.hexh
  cok := h.cok
  pos := h.pos
  fresh := by
    intro st0 hb
    obtain ⟨h1, h2, h3⟩ := h.fresh st0 hb
    refine ⟨h1, ?_, ?_⟩
    · intro x hx1 hx2
      by_cases hx : x = n
      · subst hx; exact hp
      · exact h2 x hx1 (by omega)
    · intro y k v hy hm
      rcases mem_cons_ret.1 hm with ⟨_, e⟩ | hm
      · cases e
      · exact h3 y k v hy hm
  ord := by
    intro c hb
    obtain ⟨h1, h2⟩ := h.ord c hb
    refine ⟨h1, ?_⟩
    intro x k v hx hm
    rcases mem_cons_ret.1 hm with ⟨_, e⟩ | hm
    · cases e
    · obtain ⟨g1, g2⟩ := h2 x k v hx hm
      refine ⟨g1, ?_⟩
      rintro ⟨z, hz1, hz2⟩
      rcases mem_cons_ret.1 hz2 with ⟨_, e⟩ | hz2
      · cases e
      · exact g2 ⟨z, hz1, hz2⟩
  cov := by
    intro he hn k hk
    rcases h.cov he (by omega) k hk with g | g | ⟨g1, x, hx1, hx2, hx3, hx4⟩
    · exact Or.inl (g.cons _)
    · exact Or.inr (Or.inl g)
    · refine Or.inr (Or.inr ⟨g1, x, hx1, by omega, hx3, fun y h1 h2 => ?_⟩)
      by_cases hy : y = n
      · subst hy; exact hp
      · exact hx4 y h1 (by omega)

theorem Open.step_pair {X : SCtx K V} {T : Tree K V} {cur : Option (Option Nat × Int)} {exh : Bool}
    {rs : List (Nat × Res K V)} {n : Nat} {c : K} {leaf : Nat} {i : Int}
    (h : Open X T false cur exh rs n (.gt c) leaf i) (hswo : SWO X.lt)
    (hr1 : ∀ i r, (i, r) ∈ rs → i < n) (v : V) :
    Open X T false cur exh ((n, Res.pair c v) :: rs) (n + 1) (.gt c) leaf i where
  an := by have := h.an; omega
  nsret := List.mem_cons_of_mem _ h.nsret
  hcur := h.hcur
  hexh := h.hexh
  cok := h.cok
  pos := h.pos
  fresh := by intro st0 hb; cases hb
  ord := by
    intro c' hb
    cases hb
    obtain ⟨h1, h2⟩ := h.ord c rfl
    refine ⟨h1, ?_⟩
    intro x k v' hx hm
    rcases mem_cons_ret.1 hm with ⟨e1, e2⟩ | hm
    · cases e2
      refine ⟨hswo.irrefl c, ?_⟩
      rintro ⟨z, hz1, hz2⟩
      rcases mem_cons_ret.1 hz2 with ⟨_, e⟩ | hz2
      · cases e
      · have := hr1 z _ hz2
        omega
    · obtain ⟨g1, g2⟩ := h2 x k v' hx hm
      refine ⟨g1, ?_⟩
      rintro ⟨z, hz1, hz2⟩
      rcases mem_cons_ret.1 hz2 with ⟨_, e⟩ | hz2
      · cases e
      · exact g2 ⟨z, hz1, hz2⟩
  cov := by
    intro he hn k hk
    rcases h.cov he (by omega) k hk with g | g | ⟨g1, _⟩
    · exact Or.inl (g.cons _)
    · exact Or.inr (Or.inl g)
    · cases g1
      exact Or.inl ⟨n, v, h.an, by omega, List.mem_cons_self⟩

/-- a `Scan` returned `true`: the cursor moved to the least admitted key `k'` -/
theorem Open.step_true {X : SCtx K V} {T : Tree K V} {hole : Option Nat} {hb : Bool}
    {cur : Option (Option Nat × Int)} {exh : Bool}
    {rs : List (Nat × Res K V)} {n : Nat} {b : Bound K} {leaf : Nat} {i : Int}
    (h : Open X T hb cur exh rs n b leaf i) (E : SEnv X T hole) (hscan : X.prog[n]? = some .scan)
    {k' : K} {v' : V} (hadm : b.admits X.lt k' = true)
    (hleast : ∀ p ∈ T.abs, b.admits X.lt p.1 = true → p = (k', v') ∨ X.lt k' p.1 = true)
    {leaf' : Nat} {i' : Int} (hcok' : CursorOk T false (some (some leaf', i')))
    (hpos' : CurPosW X.lt T (.gt k') leaf' i') :
    Open X T false (some (some leaf', i')) false ((n, Res.bool true) :: rs) (n + 1) (.gt k') leaf' i' where
  an := by have := h.an; omega
  nsret := List.mem_cons_of_mem _ h.nsret
  hcur := rfl
  hexh := rfl
  cok := hcok'
  pos := hpos'
  fresh := by intro st0 hb; cases hb
  ord := by
    intro c' hb
    cases hb
    constructor
    · cases b with
      | ge st0 =>
        have := (h.fresh st0 rfl).1
        subst this
        simpa [Bound.admits] using hadm
      | gt c =>
        have h1 := (h.ord c rfl).1
        have hlt : X.lt c k' = true := hadm
        cases hks : X.lt k' X.start with
        | false => rfl
        | true =>
          have := E.swo.trans _ _ _ hlt hks
          rw [h1] at this; cases this
    · intro x k v hx hm
      rcases mem_cons_ret.1 hm with ⟨_, e⟩ | hm
      · cases e
      · cases b with
        | ge st0 => exact absurd hm ((h.fresh st0 rfl).2.2 x k v hx)
        | gt c =>
          have hlt : X.lt c k' = true := hadm
          obtain ⟨g1, _⟩ := (h.ord c rfl).2 x k v hx hm
          have hkk : X.lt k k' = true := by
            rcases E.swo.cotrans c k k' hlt with h' | h'
            · rw [g1] at h'; cases h'
            · exact h'
          exact ⟨E.swo.asymm hkk, fun _ => hkk⟩
  cov := by
    intro he hn k hk
    have hn' : n ≤ X.e := by omega
    rcases h.cov he hn' k hk with g | g | ⟨_, g2⟩
    · exact Or.inl (g.cons _)
    · obtain ⟨_, v, hv⟩ := E.ks k hk
      rcases hleast (k, v) hv g with e | hlt
      · cases e
        exact Or.inr (Or.inr ⟨rfl, n, h.an, by omega, hscan, fun y h1 h2 => by omega⟩)
      · exact Or.inr (Or.inl hlt)
    · exact absurd hscan (he.not_scan hn' g2)

/-- `NewScanner` returned -/
theorem Open.create {X : SCtx K V} {T : Tree K V} {hole : Option Nat} (E : SEnv X T hole)
    {rs : List (Nat × Res K V)} (hr1 : ∀ i r, (i, r) ∈ rs → i < X.a) {leaf : Nat} {i : Int}
    (hcok : CursorOk T false (some (some leaf, i))) (hpos : CurPosW X.lt T (.ge X.start) leaf i) :
    Open X T false (some (some leaf, i)) false ((X.a, Res.ok) :: rs) (X.a + 1) (.ge X.start) leaf i where
  an := by omega
  nsret := List.mem_cons_self
  hcur := rfl
  hexh := rfl
  cok := hcok
  pos := hpos
  fresh := by
    intro st0 hb
    cases hb
    refine ⟨rfl, fun x h1 h2 => by omega, ?_⟩
    intro y k v hy hm
    rcases mem_cons_ret.1 hm with ⟨_, e⟩ | hm
    · cases e
    · have := hr1 y _ hm
      omega
  ord := by intro c hb; cases hb
  cov := by
    intro _ _ k hk
    refine Or.inr (Or.inl ?_)
    show (!X.lt k X.start) = true
    rw [(E.ks k hk).1]; rfl

/-! ### calls on an exhausted cursor -/

theorem startOp_scan_exh (t : Nat) (s : St K V) (h : s.exhausted = true) :
    startOp t s .scan = (s, .done .skip) := by
  simp only [startOp]
  split
  · rename_i h2
    rw [h] at h2; cases h2
  · rfl

theorem startOp_pair_exh (t : Nat) (s : St K V) (h : s.exhausted = true) :
    startOp t s .pair = (s, .done .skip) := by
  simp only [startOp]
  split
  · rename_i h2
    rw [h] at h2; cases h2
  · rfl

/-! ### starting a call -/

/-- a stretch outside the session: nothing to maintain but the log facts -/
theorem sloopI_outside {X : SCtx K V} {T : Tree K V} {rs : List (Nat × Res K V)} {n : Nat}
    (hr1 : ∀ i r, (i, r) ∈ rs → i < n) (hlog : LogOk X rs) (hna : n ≠ X.a) (hout : ¬ InSess X.prog X.a n)
    (s' : St K V) (fl : Flow K V) (hT : s'.tree = T) (hrs : rets X.j s'.evs = rs)
    (hlive : ∀ p, fl = .park p → parkLive p) : SLoopI X T s' fl n := by
  refine ⟨hT, ?_⟩
  cases fl with
  | done r =>
    show Mid X T s'.cursor s'.exhausted ((n, r) :: rets X.j s'.evs) (n + 1)
    rw [hrs]
    refine ⟨?_, hlog.cons_outside hr1 hout, fun h1 h2 => absurd ⟨by omega, h2⟩ hout⟩
    intro i r' hm
    rcases mem_cons_ret.1 hm with ⟨e1, _⟩ | hm
    · omega
    · have := hr1 i r' hm; omega
  | panic =>
    show LogOk X (rets X.j s'.evs)
    rw [hrs]; exact hlog
  | park p =>
    show parkLive p ∧ _
    rw [hrs]
    exact ⟨hlive p rfl, hr1, hlog, fun e => absurd e hna, fun h1 h2 => absurd ⟨h1, h2⟩ hout⟩

theorem r1_cons {rs : List (Nat × Res K V)} {n : Nat} (hr1 : ∀ i r, (i, r) ∈ rs → i < n) (r0 : Res K V) :
    ∀ i r, (i, r) ∈ (n, r0) :: rs → i < n + 1 := by
  intro i r hm
  rcases mem_cons_ret.1 hm with ⟨e1, _⟩ | hm
  · omega
  · have := hr1 i r hm; omega

/-- **one call of the session's thread, from its start to its return or its first park** -/
theorem startOp_sloopI {X : SCtx K V} {T : Tree K V} {hole : Option Nat} (E : SEnv X T hole)
    (s : St K V) (n : Nat) (op : COp K V) (hT : s.tree = T)
    (hm : Mid X T s.cursor s.exhausted (rets X.j s.evs) n) (hop : X.prog[n]? = some op) :
    SLoopI X T (startOp X.j s op).1 (startOp X.j s op).2 n := by
  have hT' : (startOp X.j s op).1.tree = T := by rw [startOp_tree]; exact hT
  have hrs : rets X.j (startOp X.j s op).1.evs = rets X.j s.evs := rets_startOp X.j X.j s op
  have hlive : ∀ p, (startOp X.j s op).2 = .park p → parkLive p := fun p h => blocks_ok.startLive X.j s op p h
  by_cases hin : InSess X.prog X.a n
  · obtain ⟨han, hco⟩ := hin
    have hcop : CurOp (some op) := by have := hco n han (by omega); rwa [hop] at this
    have sess := hm.sess han (hco.mono (by omega))
    have hok : TreeOk hole s.tree := by rw [hT]; exact E.ok
    have hord : OrdTree X.lt s.tree := by rw [hT]; exact E.ord
    cases op with
    | ins k v => exact hcop.elim
    | upd k f y => exact hcop.elim
    | del k => exact hcop.elim
    | get k => exact hcop.elim
    | ns k => exact hcop.elim
    | close => exact hcop.elim
    | pause =>
      refine ⟨hT, trivial, hm.r1, hm.log, fun e => by omega, fun _ _ => Or.inl ⟨rfl, hop, sess⟩⟩
    | pair =>
      rcases sess with ⟨b, leaf, i, ho⟩ | hex
      · cases b with
        | ge st0 => exact absurd hop (E.nfp n han (ho.fresh st0 rfl).2.1)
        | gt c =>
          obtain ⟨sh, hl, h0, hi, hlt⟩ := ho.cok
          have hlt' : i < (sh.keys.length : Int) := hlt
          have hstrong := ho.pos.strengthen E.swo E.ok E.ord (by
            intro sh' hl'; rw [hl] at hl'; cases hl'; exact hlt')
          obtain ⟨sh', hl', _, _, jj, hjj, hkc⟩ := hstrong
          rw [hl] at hl'; cases hl'
          have hi0 : 0 ≤ i := by omega
          have hl1 : s.tree.look leaf = some sh := by rw [hT]; exact hl
          obtain ⟨k, v, heq, hk, _, hmem⟩ := pair_spec X.j s hok ho.hcur ho.hexh hl1 h0 hi0 hlt'
          have hjn : i.toNat = jj := by omega
          rw [hjn, hkc] at hk
          cases hk
          rw [hT] at hmem
          rw [heq]
          refine ⟨hT, r1_cons hm.r1 _, ?_, fun _ _ => Or.inl ⟨.gt c, leaf, i, ho.step_pair E.swo hm.r1 v⟩⟩
          refine hm.log.cons hm.r1 ?_ (fun e _ => by cases e)
          intro k0 v0 e _
          cases e
          obtain ⟨o1, o2⟩ := ho.ord c rfl
          exact ⟨ho.nsret, E.sd n c v hmem, o1, fun x k1 v1 hx hm1 => o2 x k1 v1 hx hm1⟩
      · rw [startOp_pair_exh X.j s hex]
        exact ⟨hT, r1_cons hm.r1 _, hm.log.cons_neutral hm.r1 ⟨fun _ _ e => (by cases e), fun e => (by cases e)⟩,
          fun _ _ => Or.inr hex⟩
    | scan =>
      rcases sess with ⟨b, leaf, i, ho⟩ | hex
      · obtain ⟨sh, hl, h0, hi, hlt⟩ := ho.cok
        have hlt' : i < (sh.keys.length : Int) := hlt
        have hl1 : s.tree.look leaf = some sh := by rw [hT]; exact hl
        -- the cursor does not rest on a key whose `Pair` is still due
        have hcov : EHyp X.prog X.a X.e → n ≤ X.e → ∀ k, X.KS k →
            Returned X.a X.e (rets X.j s.evs) k ∨ b.admits X.lt k = true := by
          intro he hn k hk
          rcases ho.cov he hn k hk with g | g | ⟨_, g2⟩
          · exact Or.inl g
          · exact Or.inr g
          · exact absurd hop (he.not_scan hn g2)
        rcases scan_cases hlt' with h1 | ⟨h1, h2⟩ | ⟨h1, nx, h2⟩
        · obtain ⟨heq, k, v, hk, hv, hah⟩ := scan_inleaf X.j s hok ho.hcur ho.hexh hl1 h0 hi h1
          rw [hT] at hah
          obtain ⟨hadm, _, _, hleast⟩ := ho.pos.head_least E.swo E.ok E.ord hah
          have hcp := curPos_gt E.swo E.ok E.ord hl h0 hk
          have e' : (((i + 1).toNat : Nat) : Int) = i + 1 := by omega
          rw [e'] at hcp
          have hcok' : CursorOk T false (some (some leaf, i + 1)) := ⟨sh, hl, h0, by omega, h1⟩
          rw [heq]
          refine ⟨hT, r1_cons hm.r1 _, hm.log.cons hm.r1 (fun _ _ e _ => by cases e) (fun e _ => by cases e),
            fun _ _ => Or.inl ⟨.gt k, leaf, i + 1, ?_⟩⟩
          have := ho.step_true E hop hadm hleast hcok' hcp.weaken
          rw [ho.hexh]
          exact this
        · obtain ⟨heq, hah⟩ := scan_exhaust X.j s hok ho.hcur ho.hexh hl1 h0 h1 h2
          rw [hT] at hah
          have hnone := (ho.pos.ahead_nil_iff E.swo E.ok E.ord).1 hah
          rw [heq]
          refine ⟨hT, r1_cons hm.r1 _, ?_, fun _ _ => Or.inr rfl⟩
          refine hm.log.cons hm.r1 (fun _ _ e _ => by cases e) ?_
          intro _ _
          refine ⟨ho.nsret, ?_⟩
          intro he hne k hk
          rcases hcov he (by omega) k hk with g | g
          · exact g
          · exfalso
            obtain ⟨_, v, hv⟩ := E.ks k hk
            have := hnone (k, v) hv
            rw [g] at this; cases this
        · obtain ⟨heq, _⟩ := scan_park X.j s hok ho.hcur ho.hexh hl1 h0 h1 h2
          have hpos' := ho.pos.park_at_end (by
            intro sh' hl'; rw [hl] at hl'; cases hl'; exact h1)
          have hcok' : CursorOk T true (some (some leaf, i + 1)) := ⟨sh, hl, h0, by omega, h1⟩
          rw [heq]
          refine ⟨hT, trivial, hm.r1, hm.log, fun e => by omega, fun _ _ => Or.inr ⟨.node nx, leaf, nx, rfl, hop, b, i + 1, ?_⟩⟩
          exact ⟨ho.an, ho.nsret, rfl, ho.hexh, hcok', hpos', ho.fresh, ho.ord, ho.cov⟩
      · rw [startOp_scan_exh X.j s hex]
        exact ⟨hT, r1_cons hm.r1 _, hm.log.cons_neutral hm.r1 ⟨fun _ _ e => (by cases e), fun e => (by cases e)⟩,
          fun _ _ => Or.inr hex⟩
  · by_cases hna : n = X.a
    · subst hna
      rw [E.ns] at hop
      cases hop
      simp only [startOp]
      split
      · exact ⟨hT, hm.log⟩
      · exact ⟨hT, trivial, hm.r1, hm.log, fun _ => Or.inl ⟨.tree, rfl⟩, fun h => absurd h (Nat.lt_irrefl _)⟩
    · exact sloopI_outside hm.r1 hm.log hna hin _ _ hT' hrs hlive

/-! ### resuming a parked call -/

/-- the three outcomes of `NewScanner` arriving at a node -/
theorem roArrive_scanner_cases (P : Params K) (t : Nat) (s : St K V) (key : K) (hold : Lk) (n : Nat) :
    (roArrive P t s true key hold n).2 = .panic ∨
    (∃ c, (roArrive P t s true key hold n).2 = .park (.want (.node c) (.roNode true key (.node n) c))) ∨
    (∃ l : Leaf K V, s.tree.find n = some ⟨0, l⟩ ∧
      roArrive P t s true key hold n =
        ({ (s.rel t hold) with cursor := some (some n, (startIndex P {} key l : Int) - 1), exhausted := false },
          .done .ok)) := by
  cases hfind : s.tree.find n with
  | none =>
    left
    unfold roArrive
    have : (s.rel t hold).tree.find n = none := hfind
    simp only [this]
  | some a =>
    cases hleaf : leafOf? a with
    | some l =>
      right; right
      have := leafOf?_some hleaf
      subst this
      exact ⟨l, rfl, roArrive_scanner_leaf P t s key hold n l hfind⟩
    | none =>
      unfold roArrive
      have : (s.rel t hold).tree.find n = some a := hfind
      simp only [this, hleaf]
      split
      · left; rfl
      · split
        · left; rfl
        · right; left; exact ⟨_, rfl⟩

/-- **the first stretch of a step of the session's thread that resumes a parked call** -/
theorem resume_sloopI {X : SCtx K V} {T : Tree K V} {hole : Option Nat} (E : SEnv X T hole)
    (P : Params K) (hK : KParams X.lt P) (s : St K V) (k : Kont K V) (p0 : Park K V) (pc : Nat)
    (hp0 : (∃ l, p0 = .want l k) ∨ p0 = .yielded k)
    (hr1 : ∀ i r, (i, r) ∈ rets X.j s.evs → i < pc) (hlog : LogOk X (rets X.j s.evs))
    (hpk : PkSess X s.tree s.cursor s.exhausted (rets X.j s.evs) p0 pc)
    (hT' : (resume P X.j s k).1.tree = T)
    (hko : KontOk s.tree k) (hkp : KPos X.lt s.tree k)
    (hcok : CursorOk T false (resume P X.j s k).1.cursor) :
    SLoopI X T (resume P X.j s k).1 (resume P X.j s k).2 pc := by
  have hrs : rets X.j (resume P X.j s k).1.evs = rets X.j s.evs := rets_resume X.j P X.j s k
  have hlive : ∀ p, (resume P X.j s k).2 = .park p → parkLive p := fun p h => blocks_ok.resLive P X.j s k p h
  by_cases hin : InSess X.prog X.a pc
  · obtain ⟨han, hco⟩ := hin
    rcases hpk.2 han hco with ⟨hp, hpz, sess⟩ | ⟨l, leaf, nx, hp, hsc, b, i, ho⟩
    · -- a client pause ends
      have hk : k = .paused := by
        rcases hp0 with ⟨l, e⟩ | e
        · rw [hp] at e; cases e
        · rw [hp] at e; cases e; rfl
      subst hk
      have hsT : s.tree = T := hT'
      rw [hsT] at sess
      refine ⟨hsT, r1_cons hr1 _, hlog.cons_neutral hr1 ⟨fun _ _ e => (by cases e), fun e => (by cases e)⟩, fun _ _ => ?_⟩
      rcases sess with ⟨b, leaf, i, ho⟩ | hex
      · exact Or.inl ⟨b, leaf, i, ho.step_pause hpz⟩
      · exact Or.inr hex
    · -- the hop: the next leaf is acquired, `Scan` returns `true`
      have hk : k = .hop leaf nx := by
        rcases hp0 with ⟨l', e⟩ | e
        · rw [hp] at e; cases e; rfl
        · rw [hp] at e; cases e
      subst hk
      have hsT : s.tree = T := hT'
      rw [hsT] at ho
      have hok : TreeOk hole s.tree := by rw [hsT]; exact E.ok
      have hord : OrdTree X.lt s.tree := by rw [hsT]; exact E.ord
      obtain ⟨h1, _, h3, shn, k0, v0, _, _, _, _, hcp, hah⟩ := resume_hop E.swo P X.j s leaf nx hok hord hko
      rw [hsT] at hcp hah
      obtain ⟨sh, hl, _, _, hlen⟩ := ho.cok
      have hlen' : i = (sh.keys.length : Int) := hlen
      have hah' := hah i (by
        intro sh' hl'; rw [hl] at hl'; cases hl'; omega)
      obtain ⟨hadm, _, _, hleast⟩ := ho.pos.head_least E.swo E.ok E.ord hah'
      rw [h3] at hcok
      have := ho.step_true E hsc hadm hleast hcok hcp.weaken
      refine ⟨hT', ?_⟩
      rw [h1]
      show Mid X T (resume P X.j s (.hop leaf nx)).1.cursor (resume P X.j s (.hop leaf nx)).1.exhausted _ _
      rw [h3, hrs]
      have hex : (resume P X.j s (.hop leaf nx)).1.exhausted = false := ho.hexh
      rw [hex]
      exact ⟨r1_cons hr1 _, hlog.cons hr1 (fun _ _ e _ => by cases e) (fun e _ => by cases e),
        fun _ _ => Or.inl ⟨_, _, _, this⟩⟩
  · by_cases hna : pc = X.a
    · subst hna
      rcases hpk.1 rfl with ⟨l, hp⟩ | ⟨l, hold, w, hp⟩
      · have hk : k = .roTree true X.start := by
          rcases hp0 with ⟨l', e⟩ | e
          · rw [hp] at e; cases e; rfl
          · rw [hp] at e; cases e
        subst hk
        refine ⟨hT', trivial, ?_, ?_, fun _ => Or.inr ⟨_, _, _, rfl⟩, fun h => absurd h (Nat.lt_irrefl _)⟩
        · rw [hrs]; exact hr1
        · rw [hrs]; exact hlog
      · have hk : k = .roNode true X.start hold w := by
          rcases hp0 with ⟨l', e⟩ | e
          · rw [hp] at e; cases e; rfl
          · rw [hp] at e; cases e
        subst hk
        have hsT : s.tree = T := by rw [← hT', resume_tree_read P X.j s _ rfl]
        have hres : resume P X.j s (.roNode true X.start hold w) =
            roArrive P X.j (s.acq X.j (.node w)) true X.start hold w := rfl
        rcases roArrive_scanner_cases P X.j (s.acq X.j (.node w)) X.start hold w with h | ⟨c, h⟩ | ⟨lf, hf, _⟩
        · refine ⟨hT', ?_⟩
          rw [hres, h]
          show LogOk X (rets X.j (resume P X.j s (.roNode true X.start hold w)).1.evs)
          rw [hrs]; exact hlog
        · refine ⟨hT', ?_⟩
          rw [hres, h]
          show parkLive _ ∧ (∀ i r, (i, r) ∈ rets X.j (resume P X.j s (.roNode true X.start hold w)).1.evs → i < X.a) ∧
            LogOk X (rets X.j (resume P X.j s (.roNode true X.start hold w)).1.evs) ∧
            PkSess X T (resume P X.j s (.roNode true X.start hold w)).1.cursor
              (resume P X.j s (.roNode true X.start hold w)).1.exhausted
              (rets X.j (resume P X.j s (.roNode true X.start hold w)).1.evs) _ X.a
          rw [hrs]
          exact ⟨trivial, hr1, hlog, fun _ => Or.inr ⟨_, _, _, rfl⟩, fun h => absurd h (Nat.lt_irrefl _)⟩
        · have hf' : s.tree.find w = some ⟨0, lf⟩ := hf
          obtain ⟨_, hl⟩ := find_leaf_look hf'
          have hok : TreeOk hole s.tree := by rw [hsT]; exact E.ok
          have hord : OrdTree X.lt s.tree := by rw [hsT]; exact E.ord
          obtain ⟨l', _, h2, _, h4, hcp, _⟩ :=
            resume_newScanner P hK X.j s X.start hold w hok hord hko hkp hl (shallow_height (d := 0) lf)
          rw [hsT] at hcp
          have hex : (resume P X.j s (.roNode true X.start hold w)).1.exhausted = false := by
            rw [hres, roArrive_scanner_leaf P X.j (s.acq X.j (.node w)) X.start hold w lf hf]
          rw [h4] at hcok
          refine ⟨hT', ?_⟩
          rw [h2]
          show Mid X T (resume P X.j s (.roNode true X.start hold w)).1.cursor
            (resume P X.j s (.roNode true X.start hold w)).1.exhausted _ _
          rw [h4, hex, hrs]
          exact ⟨r1_cons hr1 _, hlog.cons_outside hr1 (fun h => absurd h.1 (Nat.lt_irrefl _)),
            fun _ _ => Or.inl ⟨_, _, _, Open.create E hr1 hcok hcp.weaken⟩⟩
    · exact sloopI_outside hr1 hlog hna hin _ _ hT' hrs hlive

end Gobptree.Conc
