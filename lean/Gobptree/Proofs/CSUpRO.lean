/-
  The blocks that do not write the tree: Search / NewScanner arriving at a node
  (`roArrive`) and the cursor hop.
-/
import Gobptree.Proofs.CSUpLeaf

namespace Gobptree.Conc
open Gobptree

variable {K V : Type}

/-- the node a read-only descent waits for is a node of the tree -/
theorem roNode_look {t : Tree K V} (hi : IdsOk t) {sc : Bool} {key : K} {hold : Lk} {n : Nat}
    (hk : KontOk t (.roNode sc key hold n)) : ∃ sh, t.look n = some sh := by
  cases hold with
  | tree =>
    have : n = t.rootId := hk
    subst this
    exact ⟨_, look_root hi⟩
  | node p =>
    obtain ⟨i, hkid⟩ : ∃ i, t.kidAt p i = some n := hk
    obtain ⟨shp, hlp, _⟩ := kidAt_look hkid
    obtain ⟨shc, hc, _⟩ := kid_look hi hkid hlp
    exact ⟨shc, hc⟩

/-- Search / NewScanner after acquiring node `n` -/
theorem roArrive_post (P : Params K) (t : Nat) (s : St K V) (sc : Bool) (key : K) (hold : Lk) (n : Nat)
    (H : List Lk) (hole : Option Nat) (hpre : Pre P hole s) (hk : KontOk s.tree (.roNode sc key hold n))
    (hcur : cursorLocks s.cursor = []) :
    Post H hole s (roArrive P t s sc key hold n).1 (roArrive P t s sc key hold n).2 ∧
      flowHole (roArrive P t s sc key hold n).2 = none := by
  have hok := hpre.tree
  obtain ⟨sh, hl⟩ := roNode_look hok.ids hk
  obtain ⟨a, hfind, hsh, _⟩ := find_some_of_look hl
  have hocc := occ_of_look hok.occ hl
  have hfind' : (s.rel t hold).tree.find n = some a := hfind
  unfold roArrive
  simp only
  rw [hfind']
  simp only
  by_cases h0 : sh.height = 0
  · obtain ⟨l, rfl, hleaf⟩ := any_leaf a (by rw [hsh]; exact h0)
    have hsh' : sh = shallow (d := 0) l := hsh.symm
    subst hsh'
    have hpar : l.keys.length = l.vals.length := (hocc.2.2.1 rfl).1
    rw [hleaf]
    simp only
    cases sc with
    | true =>
      simp only [if_true]
      refine ⟨Post.of_unchanged hok rfl (by simp) (by intro p hp; cases hp) ?_, rfl⟩
      refine ⟨_, hl, rfl, ?_, ?_⟩
      · omega
      · have := startIndex_le P key l
        show ((startIndex P {} key l : Nat) : Int) - 1 < (l.keys.length : Int)
        omega
    | false =>
      obtain ⟨v, hv⟩ := Leaf.search_ok P l key hpar
      simp only [Bool.false_eq_true, if_false]
      rw [hv]
      simp only
      exact ⟨Post.of_unchanged hok rfl (by simp) (by intro p hp; cases hp)
        (cursorOk_of_noLocks _ false _ hcur), rfl⟩
  · have hpos : 0 < sh.height := Nat.pos_of_ne_zero h0
    obtain ⟨h1, h2, h3⟩ := any_inner a (by rw [hsh]; exact hpos)
    rw [hsh] at h2 h3
    rw [h1]
    simp only
    rw [h2]
    simp only
    rw [h3]
    obtain ⟨hlen, hone, _⟩ := hocc.2.2.2 hpos
    have hne : sh.keys ≠ [] := by intro e; rw [e] at hone; simp at hone
    have hidx := searchLE_lt_length (lt := P.lt) key sh.keys hne
    have hidx' : searchLE P.lt key sh.keys < sh.kids.length := by omega
    rw [List.getElem?_eq_getElem hidx']
    simp only
    refine ⟨Post.of_unchanged hok rfl (by simp) ?_ (cursorOk_of_noLocks _ false _ hcur), rfl⟩
    intro p hp
    cases hp
    refine ⟨⟨searchLE P.lt key sh.keys, ?_⟩, hcur, rfl⟩
    unfold Tree.kidAt
    rw [hl]
    exact List.getElem?_eq_getElem hidx'

theorem flat_length_leaf : ∀ {d : Nat} (n : Node K V d), d = 0 → (flat n).length = 1
  | 0, _, _ => rfl
  | _ + 1, _, h => absurd h (Nat.succ_ne_zero _)

/-- the successor of a leaf in the chain is a leaf of the tree that is not empty -/
theorem next_leaf {hole : Option Nat} {t : Tree K V} (hok : TreeOk hole t) {cur nx : Nat} {sh : Shallow K V}
    (hl : t.look cur = some sh) (h0 : sh.height = 0) (hn : sh.next = some nx) :
    ∃ shn, t.look nx = some shn ∧ shn.height = 0 ∧ 1 ≤ shn.keys.length := by
  have hi := hok.ids
  have hmem : (cur, sh) ∈ flatLeaves t.flat := by
    unfold flatLeaves
    exact List.mem_filter.mpr ⟨look_mem hl, by simp [h0]⟩
  obtain ⟨q, hq, hs⟩ := chain_next _ (cur, sh) nx hok.chain hmem hn
  have hqm : q ∈ flatLeaves t.flat := hs.subset (by simp)
  unfold flatLeaves at hqm
  obtain ⟨hqf, hq0⟩ := List.mem_filter.mp hqm
  have hq0' : q.2.height = 0 := by simpa using hq0
  obtain ⟨qi, qs⟩ := q
  simp only at hq hq0'
  subst hq
  have hlq : t.look qi = some qs := mem_look hi hqf
  have hne : qi ≠ t.rootId := by
    intro e
    rw [e, look_root hi] at hlq
    cases hlq
    rw [shallow_height] at hq0'
    have hlen : t.flat.length = 1 := flat_length_leaf t.root hq0'
    have h2 : [(cur, sh), (t.rootId, shallow t.root)].length ≤ t.flat.length :=
      (hs.trans List.filter_sublist).length_le
    rw [hlen] at h2
    simp at h2
  have hocc := hok.occ _ hqf
  refine ⟨qs, hlq, hq0', ?_⟩
  have hm : 1 ≤ minOf t.order t.rootId hole qi qs.height := hok.min_pos hne _
  exact Nat.le_trans hm hocc.2.1

/-- the cursor hop -/
theorem hop_post (P : Params K) (t : Nat) (s : St K V) (cur next : Nat) (H : List Lk) (hole : Option Nat)
    (hpre : Pre P hole s) (hk : KontOk s.tree (.hop cur next)) :
    Post H hole s (resume P t s (.hop cur next)).1 (resume P t s (.hop cur next)).2 ∧
      flowHole (resume P t s (.hop cur next)).2 = none := by
  obtain ⟨sh, hl, h0, hn⟩ := hk
  obtain ⟨shn, hln, hn0, hlen⟩ := next_leaf hpre.tree hl h0 hn
  simp only [resume]
  refine ⟨Post.of_unchanged hpre.tree rfl (by simp) (by intro p hp; cases hp) ?_, rfl⟩
  refine ⟨shn, hln, hn0, by omega, ?_⟩
  show (0 : Int) < (shn.keys.length : Int)
  omega

end Gobptree.Conc
