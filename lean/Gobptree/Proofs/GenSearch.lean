/-
  The REGENERATED binary searches (`Generated/SearchGen.lean`, written from the six Go files by
  harness/cmd/gen_search on every run) compute exactly what the hand-written model
  (`Search.lean`) computes: no index panic, termination within `len + 1` jumps, same result.
  The proof is one tactic script, instantiated for each key type's definitions.
-/
import Gobptree.Generated.SearchGen
import Gobptree.Proofs.Search

namespace Gobptree

variable {K : Type} {lt : K → K → Bool}

theorem goIdx_nat {α : Type} (xs : List α) (i : Nat) : goIdx xs (i : Int) = xs[i]? := by
  have h : ¬ ((i : Int) < 0) := by omega
  simp [goIdx, h]

theorem int_shr1 (a b : Nat) :
    ((a : Int) + (b : Int)) >>> (1 : Nat) = (((a + b) >>> 1 : Nat) : Int) := by
  rw [Int.shiftRight_eq_div_pow, Nat.shiftRight_eq_div_pow]
  simp

theorem int_succ (m : Nat) : (m : Int) + (1 : Int) = ((m + 1 : Nat) : Int) := by simp

/-- the statement about a translated `loop:` -/
def GenLoopEq (loop : (K → K → Bool) → K → List K → Nat → Int → Int → Except String Int) : Prop :=
  ∀ (lt : K → K → Bool) (key : K) (vs : List K), vs.length < 4611686018427387904 → ∀ (f1 f2 lo hi : Nat),
    lo < hi → hi < vs.length → hi - lo ≤ f1 → hi - lo ≤ f2 →
    loop lt key vs f1 (lo : Int) (hi : Int) = .ok ((searchGELoop lt key vs f2 lo hi : Nat) : Int)

/-- the statement about a translated `SearchGreaterThanOrEqualTo` -/
def GenGEEq (ge : (K → K → Bool) → K → List K → Except String Int) : Prop :=
  ∀ (lt : K → K → Bool) (key : K) (vs : List K), vs.length < 4611686018427387904 → ge lt key vs = .ok ((searchGE lt key vs : Nat) : Int)

/-- the statement about a translated `SearchLessThanOrEqualTo` -/
def GenLEEq (le : (K → K → Bool) → K → List K → Except String Int) : Prop :=
  ∀ (lt : K → K → Bool) (key : K) (vs : List K), vs.length < 4611686018427387904 → le lt key vs = .ok ((searchLE lt key vs : Nat) : Int)

/-- proof script for `GenLoopEq`, given the name of the translated loop -/
macro "gen_loop_proof" loop:ident : tactic => `(tactic| (
  intro lt key vs hlen f1
  induction f1 with
  | zero => intro f2 lo hi h1 h2 h3; omega
  | succ f1 ih =>
    intro f2 lo hi hlt hhi hf1 hf2
    cases f2 with
    | zero => omega
    | succ f2 =>
    have hmlt : (lo + hi) >>> 1 < vs.length := by rw [shiftRight_one_eq]; omega
    have hmhi : (lo + hi) >>> 1 < hi := by rw [shiftRight_one_eq]; omega
    have hmlo : lo ≤ (lo + hi) >>> 1 := by rw [shiftRight_one_eq]; omega
    have hw1 : w64 ((lo : Int) + (hi : Int)) = (lo : Int) + (hi : Int) := w64_id _ (by omega) (by omega)
    rw [$loop:ident]
    simp only [searchGELoop, hw1, int_shr1, goIdx_nat, List.getElem?_eq_getElem hmlt]
    generalize (lo + hi) >>> 1 = m at *
    have hw2 : w64 ((m : Int) + (1 : Int)) = (m : Int) + (1 : Int) := w64_id _ (by omega) (by omega)
    simp only [hw2]
    split
    · split
      · have hh : lo < m := by omega
        simp only [hh, ↓reduceIte]
        exact ih f2 lo m hh (by omega) (by omega) (by omega)
      · have hh : ¬ lo < m := by omega
        simp only [hh, ↓reduceIte]
    · split
      · simp only [int_succ]
        split
        · have hh : m + 1 < hi := by omega
          simp only [hh, ↓reduceIte]
          exact ih f2 (m+1) hi hh (by omega) (by omega) (by omega)
        · have hh : ¬ m + 1 < hi := by omega
          simp only [hh, ↓reduceIte]
      · rfl))

/-- proof script for `GenGEEq` from the loop fact -/
macro "gen_ge_proof" ge:ident hloop:ident : tactic => `(tactic| (
  intro lt key vs hlen
  unfold $ge:ident searchGE
  by_cases hl : vs.length ≤ 1
  · have hh : ((vs.length : Nat) : Int) ≤ (1 : Int) := by omega
    simp only [hl, hh, ↓reduceIte]
    rfl
  · have hh : ¬ ((vs.length : Nat) : Int) ≤ (1 : Int) := by omega
    simp only [hl, hh, ↓reduceIte]
    have e : w64 (((vs.length : Nat) : Int) - (1 : Int)) = ((vs.length - 1 : Nat) : Int) := by
      rw [w64_id _ (by omega) (by omega)]; omega
    rw [e]
    exact $hloop lt key vs hlen (vs.length + 1) vs.length 0 (vs.length - 1) (by omega) (by omega) (by omega) (by omega)))

theorem searchGE_le_length (key : K) (vs : List K) : searchGE lt key vs ≤ vs.length := by
  by_cases hne : vs = []
  · subst hne; simp [searchGE]
  · exact Nat.le_of_lt (searchGE_lt_length key vs hne)

/-- proof script for `GenLEEq` from the GE fact -/
macro "gen_le_proof" le:ident hge:ident : tactic => `(tactic| (
  intro lt key vs hlen
  unfold $le:ident searchLE
  rw [$hge:ident lt key vs hlen]
  simp only [goIdx_nat]
  have hidx := searchGE_le_length (lt := lt) key vs
  generalize searchGE lt key vs = index at hidx
  by_cases h0 : index > 0
  · have h3 : ((index : Nat) : Int) > (0 : Int) := by omega
    have h4 : w64 (((index : Nat) : Int) - (1 : Int)) = ((index - 1 : Nat) : Int) := by
      rw [w64_id _ (by omega) (by omega)]; omega
    by_cases hlen : index = vs.length
    · have h1 : ((index : Nat) : Int) = ((vs.length : Nat) : Int) := by omega
      have h2 : vs[index]? = none := by rw [hlen]; simp
      simp only [h1, h2, h3, h4, h0, ↓reduceIte]
      simp only [← h1, h3, h4, ↓reduceIte]
    · have h1 : ¬ ((index : Nat) : Int) = ((vs.length : Nat) : Int) := by omega
      have hlt : index < vs.length := by omega
      simp only [h1, h3, h4, h0, List.getElem?_eq_getElem hlt, ↓reduceIte]
      split <;> rfl
  · have h3 : ¬ ((index : Nat) : Int) > (0 : Int) := by omega
    by_cases hlen : index = vs.length
    · have h1 : ((index : Nat) : Int) = ((vs.length : Nat) : Int) := by omega
      have h2 : vs[index]? = none := by rw [hlen]; simp
      simp only [h1, h2, h0, ↓reduceIte]
      simp only [← h1, h3, ↓reduceIte]
    · have h1 : ¬ ((index : Nat) : Int) = ((vs.length : Nat) : Int) := by omega
      have hlt : index < vs.length := by omega
      simp only [h1, h3, h0, List.getElem?_eq_getElem hlt, ↓reduceIte]
      split <;> rfl))

end Gobptree
