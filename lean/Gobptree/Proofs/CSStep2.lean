/-
  One scheduler step preserves `CInv` and respects the write frame.
-/
import Gobptree.Proofs.CSStep

namespace Gobptree.Conc
open Gobptree

variable {K V : Type}

/-- the configuration a step produces, spelled out -/
theorem step_shape {c c' : Config K V} {t : Nat} (hstep : c.step t = some c') :
    ∃ th, c.threads[t]? = some th ∧ th.enabled c = true ∧
      let s0 : St K V := { tree := c.tree, owner := c.owner, held := th.held, cursor := th.cursor,
                           exhausted := th.exhausted, evs := Ev.dec t c.enabledSet :: c.log }
      let r := runThread c.P t th s0
      c' = { c with tree := r.2.1.tree, owner := r.2.1.owner, threads := c.threads.set t r.1,
                    log := r.2.1.evs, dead := c.dead || r.2.2 } := by
  unfold Config.step at hstep
  cases hth : c.threads[t]? with
  | none => simp [hth] at hstep
  | some th =>
    simp only [hth] at hstep
    by_cases hen : th.enabled c = true
    · simp only [hen, Bool.not_true, Bool.false_eq_true, if_false, Option.some.injEq] at hstep
      exact ⟨th, rfl, hen, hstep.symm⟩
    · simp [hen] at hstep

theorem enabled_not_finished {c : Config K V} {th : Thread K V} (h : th.enabled c = true) : th.park ≠ .finished := by
  intro hp
  unfold Thread.enabled at h
  rw [hp] at h
  cases h

/-- the hole of the configuration is the stepping Delete's own -/
theorem hole_of_stepper {c : Config K V} (hinv : SInv c) {t : Nat} {th : Thread K V}
    (ht : c.threads[t]? = some th) (hen : th.enabled c = true) (hdel : isDelPark th.park = true) :
    holeOf c.threads = parkHole th.park := by
  apply holeOf_eq_of_others_none c.threads t th ht
  intro j b hj hne
  cases hb : parkHole b.park with
  | none => rfl
  | some x =>
    exfalso
    have hbm : b ∈ c.threads := List.mem_of_getElem? hj
    have htm : th ∈ c.threads := List.mem_of_getElem? ht
    have hbt := hole_holds_tree (hinv.cfg b hbm) hb
    have hnot := stepHeld_excl hinv.owner ht hj hne hen hbt
    apply hnot
    unfold stepHeld
    cases hp : th.park with
    | want l k =>
      rw [hp] at hdel
      by_cases hl : l = Lk.tree
      · simp [hl]
      · apply List.mem_append_left
        exact del_holds_tree (hinv.cfg th htm) hp hdel hl
    | yielded k =>
      rw [hp] at hdel
      have hlock : kontLock k = none := by
        have := (hinv.cfg th htm).2.2; rw [hp] at this; exact this
      cases k <;> first | (simp [kontLock] at hlock; done) | (simp [isDelPark, isDelK] at hdel; done)
    | start => rw [hp] at hdel; simp [isDelPark] at hdel
    | finished => rw [hp] at hdel; simp [isDelPark] at hdel

end Gobptree.Conc
