/-
  One scheduler step preserves `CInv` and respects the write frame.
-/
import Gobptree.Proofs.CSStep

namespace Gobptree.Conc
open Gobptree

variable {K V : Type}

/-- the state a thread starts its step in -/
def stepSt (c : Config K V) (t : Nat) (th : Thread K V) : St K V :=
  { tree := c.tree, owner := c.owner, held := th.held, cursor := th.cursor,
    exhausted := th.exhausted, evs := Ev.dec t c.enabledSet :: c.log }

/-- the configuration a step produces, spelled out -/
theorem step_shape {c c' : Config K V} {t : Nat} (hstep : c.step t = some c') :
    ∃ th, c.threads[t]? = some th ∧ th.enabled c = true ∧
      ∃ r, r = runThread c.P t th (stepSt c t th) ∧
      c' = { c with tree := r.2.1.tree, owner := r.2.1.owner, threads := c.threads.set t r.1,
                    log := r.2.1.evs, dead := c.dead || r.2.2 } := by
  unfold Config.step at hstep
  cases hth : c.threads[t]? with
  | none => simp [hth] at hstep
  | some th =>
    simp only [hth] at hstep
    by_cases hen : th.enabled c = true
    · simp only [hen, Bool.not_true, Bool.false_eq_true, if_false, Option.some.injEq] at hstep
      exact ⟨th, rfl, hen, _, rfl, hstep.symm⟩
    · simp [hen] at hstep

theorem enabled_not_finished {c : Config K V} {th : Thread K V} (h : th.enabled c = true) : th.park ≠ .finished := by
  intro hp
  unfold Thread.enabled at h
  rw [hp] at h
  cases h

/-- the hole of the configuration is the stepping Delete's own -/
theorem hole_of_stepper {c : Config K V} (hinv : SInv c) {t : Nat} {th : Thread K V}
    (ht : c.threads[t]? = some th) (hen : th.enabled c = true) (hdel : isDelPark th.park = true) :
    holeOf c.threads = parkHole th.park := by
  apply holeOf_eq_of_others_none c.threads t th ht
  intro j b hj hne
  cases hb : parkHole b.park with
  | none => rfl
  | some x =>
    exfalso
    have hbm : b ∈ c.threads := List.mem_of_getElem? hj
    have htm : th ∈ c.threads := List.mem_of_getElem? ht
    have hbt := hole_holds_tree (hinv.cfg b hbm) hb
    have hnot := stepHeld_excl hinv.owner ht hj hne hen hbt
    apply hnot
    unfold stepHeld
    cases hp : th.park with
    | want l k =>
      rw [hp] at hdel
      by_cases hl : l = Lk.tree
      · simp [hl]
      · apply List.mem_append_left
        exact del_holds_tree (hinv.cfg th htm) hp hdel hl
    | yielded k =>
      rw [hp] at hdel
      have hlock : kontLock k = none := by
        have := (hinv.cfg th htm).2.2; rw [hp] at this; exact this
      cases k <;> first | (simp [kontLock] at hlock; done) | (simp [isDelPark, isDelK] at hdel; done)
    | start => rw [hp] at hdel; simp [isDelPark] at hdel
    | finished => rw [hp] at hdel; simp [isDelPark] at hdel


theorem getElem?_set_cases {α : Type} (l : List α) (t j : Nat) (a b : α) (h : (l.set t a)[j]? = some b) :
    (j = t ∧ b = a) ∨ (j ≠ t ∧ l[j]? = some b) := by
  by_cases e : j = t
  · subst e
    left
    rw [List.getElem?_set_self'] at h
    cases hl : l[j]? with
    | none => rw [hl] at h; cases h
    | some x => rw [hl] at h; exact ⟨rfl, by simpa using h.symm⟩
  · right
    rw [List.getElem?_set_ne (Ne.symm e)] at h
    exact ⟨e, h⟩

theorem parkExtra_nonempty {T : Tree K V} {p : Park K V} {x : Nat} (h : x ∈ parkExtra T p) :
    ∃ k, (p = .yielded k ∨ ∃ l, p = .want l k) ∧ x ∈ kontExtra T k := by
  cases p with
  | start => cases h
  | finished => cases h
  | want l k => exact ⟨k, Or.inr ⟨l, rfl⟩, h⟩
  | yielded k => exact ⟨k, Or.inl rfl, h⟩

/-- **one scheduler step preserves the invariant and respects the write frame** -/
theorem step_cinv (B : Blocks K V) (c c' : Config K V) (t : Nat) (hstep : c.step t = some c') (hinv : CInv c) :
    CInv c' ∧ ∃ th, c.threads[t]? = some th ∧ StepFrame c c' th := by
  obtain ⟨th, ht, hen, r, hr, hc'⟩ := step_shape hstep
  have htm : th ∈ c.threads := List.mem_of_getElem? ht
  have hS := hinv.s
  have hok := hS.cfg th htm
  have hnf := enabled_not_finished hen
  -- the step of the thread
  obtain ⟨hole', hout, hD, hU⟩ := runThread_sinv B c.P t th (stepSt c t th)
    (holeOf c.threads) rfl rfl rfl ⟨hS.tree, hS.order, hS.pad⟩ hok (hS.threads th htm) (hinv.disc th htm) hnf
    (fun hdel => hole_of_stepper hS ht hen hdel) (fun hdel => hinv.four htm hdel)
  rw [← hr] at hout hD hU
  have hT0 : (stepSt c t th).tree = c.tree := rfl
  rw [hT0] at hout
  have halive : c'.dead = false := by
    rw [hc']; simp [hinv.alive, hout.alive]
  have hcfg' : ConfigOk c' := step_ok c c' t hstep hS.cfg halive
  have hown' : OwnerOk c' := owner_step c c' t hstep hS.owner hS.cfg
  have htree' : c'.tree = r.2.1.tree := by rw [hc']
  have hths' : c'.threads = c.threads.set t r.1 := by rw [hc']
  have hP' : c'.P = c.P := by rw [hc']
  have hframe : FrameEq (keepOf (stepHeld th) c.tree.nextId) c.tree.flat c'.tree.flat := by
    rw [htree']; exact hout.frame
  have hroot : Lk.tree ∈ stepHeld th ∨ (c'.tree.rootId = c.tree.rootId ∧ c'.tree.depth = c.tree.depth) := by
    rw [htree']; exact hout.root
  have horder : c'.tree.order = c.tree.order := by rw [htree']; exact hout.order
  have hN : c.tree.nextId ≤ c'.tree.nextId := by rw [htree']; exact hout.nextId
  -- the other threads
  have hother : ∀ j b, c.threads[j]? = some b → j ≠ t →
      ThreadSOk c'.tree b ∧ parkExtra c'.tree b.park = parkExtra c.tree b.park :=
    fun j b hj hne => other_sok hS ht hj hne hen hframe hroot horder
  have hnew_sok : ThreadSOk c'.tree r.1 := by rw [htree']; exact hout.sok
  have hnew_held : ∀ x ∈ r.1.held, x ∈ stepHeld th := by
    rw [hr]; exact newHeld_sub c.P t th _ rfl hok hnf
  have hnew_extra : ∀ x ∈ parkExtra c'.tree r.1.park, c.tree.nextId ≤ x := by
    rw [htree']; exact hout.extra
  have hidx : ∀ j b, c'.threads[j]? = some b → (j = t ∧ b = r.1) ∨ (j ≠ t ∧ c.threads[j]? = some b) := by
    intro j b hj; rw [hths'] at hj; exact getElem?_set_cases _ _ _ _ _ hj
  have hnewt : c'.threads[t]? = some r.1 := by
    rw [hths', List.getElem?_set_self']; rw [ht]; rfl
  -- a node some old thread relies on is an old node
  have hold_lt : ∀ (j : Nat) (b : Thread K V), c.threads[j]? = some b → ∀ id,
      (Lk.node id ∈ b.held ∨ parkWant b.park = some (Lk.node id) ∨ id ∈ parkExtra c.tree b.park) →
      id < c.tree.nextId := by
    intro j b hj id h
    have hbm : b ∈ c.threads := List.mem_of_getElem? hj
    obtain ⟨sh, hsh⟩ := thread_present hS.tree.ids hS.tree.chain (hS.cfg b hbm) (hS.threads b hbm) id h
    exact look_lt_nextId hS.tree.ids hsh
  -- the tree invariant with the new hole
  have htreeOk : TreeOk (holeOf c'.threads) c'.tree := by
    rw [htree']
    have hTO := hout.tree
    cases hdel : isDelPark th.park with
    | true =>
      have h1 := hD hdel
      have : holeOf c'.threads = parkHole r.1.park := by
        apply holeOf_eq_of_others_none c'.threads t r.1 hnewt
        intro j b hj hne
        rcases hidx j b hj with ⟨e, _⟩ | ⟨_, hjo⟩
        · exact absurd e hne
        · -- the stepping Delete holds rootMutex, so nobody else has a hole
          cases hb : parkHole b.park with
          | none => rfl
          | some x =>
            exfalso
            have hbm : b ∈ c.threads := List.mem_of_getElem? hjo
            have hbt := hole_holds_tree (hS.cfg b hbm) hb
            have hnot := stepHeld_excl hS.owner ht hjo hne hen hbt
            apply hnot
            unfold stepHeld
            cases hp : th.park with
            | want l k =>
              rw [hp] at hdel
              by_cases hl : l = Lk.tree
              · simp [hl]
              · apply List.mem_append_left
                exact del_holds_tree hok hp hdel hl
            | yielded k =>
              rw [hp] at hdel
              have hlock : kontLock k = none := by
                have := hok.2.2; rw [hp] at this; exact this
              cases k <;> first | (simp [kontLock] at hlock; done) | (simp [isDelPark, isDelK] at hdel; done)
            | start => rw [hp] at hdel; simp [isDelPark] at hdel
            | finished => rw [hp] at hdel; simp [isDelPark] at hdel
      rw [this, ← h1]; exact hTO
    | false =>
      obtain ⟨h1, h2⟩ := hU hdel
      have hpn : parkHole th.park = none := by
        cases hp : th.park with
        | want l k =>
          rw [hp] at hdel
          cases k <;> first | rfl | (simp [isDelPark, isDelK] at hdel)
        | _ => rfl
      have : holeOf c'.threads = holeOf c.threads := by
        rw [hths']; exact holeOf_set_none c.threads t th r.1 ht hpn h2
      rw [this, ← h1]; exact hTO
  refine ⟨⟨⟨htreeOk, ?_, ?_, ?_, hcfg', hown', ?_⟩, ?_, halive, ?_⟩, th, ht, ?_⟩
  · -- threads
    intro b hb
    obtain ⟨j, hj⟩ := List.getElem?_of_mem hb
    rcases hidx j b hj with ⟨_, e⟩ | ⟨hne, hjo⟩
    · rw [e]; exact hnew_sok
    · exact (hother j b hjo hne).1
  · rw [horder, hP']; exact hS.order
  · rw [hP']; exact hS.pad
  · -- extra
    intro i j a b hi hj hij x hx
    rcases hidx i a hi with ⟨ei, ea⟩ | ⟨hit, hio⟩
    · -- the stepping thread's extras are fresh
      subst ei
      rcases hidx j b hj with ⟨ej, _⟩ | ⟨hjt, hjo⟩
      · exact absurd ej.symm hij
      · rw [ea] at hx
        have hfresh := hnew_extra x hx
        constructor
        · intro hh
          have := hold_lt j b hjo x (Or.inl hh)
          omega
        · intro hh
          have := hold_lt j b hjo x (Or.inr (Or.inl hh))
          omega
    · have hxo : x ∈ parkExtra c.tree a.park := by rw [← (hother i a hio hit).2]; exact hx
      rcases hidx j b hj with ⟨ej, eb⟩ | ⟨hjt, hjo⟩
      · -- `b` is the stepping thread
        subst ej
        rw [eb]
        have hexo := hS.extra i j a th hio ht hij
        have hnotstep : ∀ y ∈ parkExtra c.tree a.park, Lk.node y ∉ stepHeld th := by
          intro y hy hs
          obtain ⟨h1, h2⟩ := hexo y hy
          unfold stepHeld at hs
          cases hp : th.park with
          | want l' k' =>
            rw [hp] at hs
            rcases List.mem_append.1 hs with h | h
            · exact h1 h
            · have : Lk.node y = l' := by simpa using h
              apply h2
              rw [hp]; simp [parkWant, this]
          | start => rw [hp] at hs; exact h1 hs
          | yielded k' => rw [hp] at hs; exact h1 hs
          | finished => rw [hp] at hs; exact h1 hs
        have hnotheld : ∀ y ∈ parkExtra c.tree a.park, Lk.node y ∉ r.1.held :=
          fun y hy hh => hnotstep y hy (hnew_held _ hh)
        refine ⟨hnotheld x hxo, ?_⟩
        intro hw
        -- the new wanted node is one of `a`'s extras: impossible
        obtain ⟨ka, hpa, hxa⟩ := parkExtra_nonempty hx
        have ham : a ∈ c.threads := List.mem_of_getElem? hio
        have hoka := hS.cfg a ham
        have hsoka := (hother i a hio hit).1
        have hkoa : KontOk c'.tree ka := by
          have := hsoka.1
          rcases hpa with h | ⟨l, h⟩ <;> rw [h] at this <;> exact this
        have hprea : KontPre a.cursor ka := by
          have := hoka.2.1
          rcases hpa with h | ⟨l, h⟩ <;> rw [h] at this <;> exact this
        have hheldka : ∀ l ∈ kontHeld ka, l ∈ a.held := by
          intro l hl
          apply hoka.1.mem_iff.2
          apply List.mem_append_right
          rcases hpa with h | ⟨l', h⟩ <;> rw [h] <;> exact hl
        have hokb := hcfg' r.1 (List.mem_of_getElem? hnewt)
        cases hpb : r.1.park with
        | start => rw [hpb] at hw; cases hw
        | finished => rw [hpb] at hw; cases hw
        | yielded kb => rw [hpb] at hw; cases hw
        | want lb kb =>
          rw [hpb] at hw
          have hlb : lb = Lk.node x := by simpa [parkWant] using hw
          have hlockb : kontLock kb = some (Lk.node x) := by
            have := hokb.2.2; rw [hpb] at this
            have h2 : kontLock kb = some lb := this
            rw [h2, hlb]
          have hkob : KontOk c'.tree kb := by
            have := hnew_sok.1; rw [hpb] at this; exact this
          have hpreb : KontPre r.1.cursor kb := by
            have := hokb.2.1; rw [hpb] at this; exact this
          have hheldkb : ∀ l ∈ kontHeld kb ++ cursorLocks r.1.cursor, l ∈ r.1.held := by
            intro l hl
            apply hokb.1.mem_iff.2
            rcases List.mem_append.1 hl with h | h
            · apply List.mem_append_right; rw [hpb]; exact h
            · exact List.mem_append_left _ h
          rcases want_extra_conflict htreeOk.ids htreeOk.chain ka kb a.cursor r.1.cursor hkoa hkob hprea hpreb x hlockb hxa with
            ⟨l, hl1, hl2⟩ | ⟨y, hy1, hy2⟩ | h3
          · -- a common mutex
            have hia : c'.threads[i]? = some a := hi
            exact hij (held_excl hown' hia hnewt (hheldka l hl1) (hheldkb l hl2))
          · have hyo : y ∈ parkExtra c.tree a.park := by
              rw [← (hother i a hio hit).2]
              rcases hpa with h | ⟨l', h⟩ <;> rw [h] <;> exact hy1
            exact hnotheld y hyo (hheldkb _ (List.mem_append_left _ hy2))
          · have hfresh := hnew_extra x (by rw [hpb]; exact h3)
            have := hold_lt i a hio x (Or.inr (Or.inr hxo))
            omega
      · exact hS.extra i j a b hio hjo hij x hxo
  · -- discipline
    intro b hb
    obtain ⟨j, hj⟩ := List.getElem?_of_mem hb
    rcases hidx j b hj with ⟨_, e⟩ | ⟨hne, hjo⟩
    · rw [e]; exact hout.disc
    · exact hinv.disc b (List.mem_of_getElem? hjo)
  · -- order ≥ 4, or nobody deletes
    rcases hinv.del4 with h4 | hnd
    · left; rw [horder]; exact h4
    · right
      intro b hb
      obtain ⟨j, hj⟩ := List.getElem?_of_mem hb
      rcases hidx j b hj with ⟨_, e⟩ | ⟨hne, hjo⟩
      · obtain ⟨h1, h2⟩ := hnd th htm
        have := runThread_nodel c.P t th (stepSt c t th) h2 h1
        rw [← hr] at this
        rw [e]
        exact ⟨this.1, by rw [this.2]; exact h2⟩
      · exact hnd b (List.mem_of_getElem? hjo)
  · -- the frame
    refine ⟨?_, ?_⟩
    · intro id h1 h2
      exact (hframe.lookup id (keepOf_true h1 h2)).symm
    · intro hnt
      rcases hroot with h | h
      · exact absurd h hnt
      · exact h

end Gobptree.Conc
