/-
  Everything together: the key-order invariant in every reachable configuration and
  linearizability of the model's histories (programs without Delete: stage B).
-/
import Gobptree.Proofs.CKUp
import Gobptree.Proofs.CKDel
import Gobptree.Proofs.CLin

namespace Gobptree.Conc
open Gobptree

variable {K V : Type}

/-- **key-order invariant, every schedule** (Delete-free program families) -/
theorem reachable_kinv (lt : K → K → Bool) (P : Params K) (tree : Tree K V) (progs : List (List (COp K V)))
    (hkp : KParams lt P) (ht : TreeOk none tree) (hord : OrdTree lt tree) (ho : tree.order = P.order)
    (hp : PadOk P) (hd : Disciplined progs) (hnd : NoDelete progs)
    (c : Config K V) (hr : Reachable (Config.init P tree progs) c) : KInv lt c :=
  (reachable_kcinv resume_kpost_U lt P tree progs hkp ht hord ho hp hd hnd c hr).kinv

/-- **linearizability, every schedule** (Delete-free program families; cursor sessions may run
    alongside) -/
theorem linearizable_nodelete' (lt : K → K → Bool) (P : Params K) (tree : Tree K V)
    (progs : List (List (COp K V)))
    (hkp : KParams lt P) (ht : TreeOk none tree) (hord : OrdTree lt tree) (ho : tree.order = P.order)
    (hp : PadOk P) (hd : Disciplined progs) (hnd : NoDelete progs)
    (c : Config K V) (hr : Reachable (Config.init P tree progs) c) :
    Lin.Linearizable lt tree.abs (history c) :=
  linearizable_nodelete resume_kpost_U lt P tree progs hkp ht hord ho hp hd hnd c hr

end Gobptree.Conc

#print axioms Gobptree.Conc.reachable_kinv
#print axioms Gobptree.Conc.linearizable_nodelete'
