/-
  `Tree.upsert` (root split + descent) preserves `TreeWF` and refines `Spec.insert`.
-/
import Gobptree.Proofs.Upsert

namespace Gobptree

variable {K V : Type} {lt : K → K → Bool}

/-- the complete sequential invariant: shape + leaf chain -/
def TreeInv (lt : K → K → Bool) (t : Tree K V) : Prop :=
  TreeWF lt t ∧ Linked t.depth none t.root

theorem Tree.upsert_ok (h : SWO lt) (P : Params K) (hP : P.lt = lt) (hpad : ∀ k, P.pad (some k) ≠ none)
    (ho : 2 ≤ P.order) (hev : P.order % 2 = 0) (t : Tree K V) (hto : t.order = P.order)
    (hinv : TreeInv lt t) (key : K) (f : Option V → V) :
    ∃ t' : Tree K V, t.upsert P key f = .ok (t', Spec.lookup lt (Node.pairs t.root) key) ∧
      TreeInv lt t' ∧ t'.order = t.order ∧
      Node.pairs t'.root = Spec.insert lt (Node.pairs t.root) key (f (Spec.lookup lt (Node.pairs t.root) key)) := by
  obtain ⟨hw, hL⟩ := hinv
  obtain ⟨order, depth, root, nextId⟩ := t
  simp only at hto; subst hto
  unfold TreeWF at hw; simp only at hw hL
  rcases maybeSplit_ok h ho hev nextId hw none hL with ⟨hroom, hms⟩ | ⟨hfull, l, r, sr, hms, hsr, hWl, hWr, hcl, hcr, hpr, hsml, _, hLl, hLr, hfl⟩
  · obtain ⟨r', nid', heq, hW', hp', _, hL', _⟩ :=
      upsertNode_ok h P hP hpad ho hev key f depth root (rootMin depth) none none nextId none hw hroom trivial hL
    refine ⟨{ order := P.order, depth := depth, root := r', nextId := nid' }, ?_, ⟨hW', hL'⟩, rfl, hp'⟩
    simp only [Tree.upsert, hms, heq, bind, Except.bind, pure, Except.pure]
  · subst hP
    have hlpos : 0 < Node.count l := by omega
    obtain ⟨sl, hsl, _, hslsr, hWls⟩ := WF_smallest h hWl hlpos
    have hpl : AllLt P.lt (Node.pairs l) sr := fun q hq => (WF_pairs_bounds h hWl q hq).2
    have hpr' : ∀ q ∈ Node.pairs r, P.lt q.1 sr = false := fun q hq => (WF_pairs_bounds h hWr q hq).1
    have hslsr' : P.lt sl sr = true := hslsr
    cases hlt : P.lt key sr with
    | false =>
      have hroomr : Node.count r < P.order := by omega
      obtain ⟨r', nid', heq, hW', hp', _, hLr', hfr'⟩ :=
        upsertNode_ok h P rfl hpad ho hev key f depth r (P.order / 2) (some sr) none (nextId + 2) none hWr hroomr trivial hLr
      rw [lowered_of_ge sr key hlt] at hW'
      have hlookc : Spec.lookup P.lt (Node.pairs root) key = Spec.lookup P.lt (Node.pairs r) key := by
        rw [hpr, Spec.lookup_append_left h _ _ _ (fun q hq => h.lt_of_lt_of_le (hpl q hq) hlt)]
      refine ⟨{ order := P.order, depth := depth + 1,
                root := (Inner.mk (nextId + 1) [if P.lt key sl then key else sl, sr] [l, r'] : Inner K (Node K V depth)),
                nextId := nid' }, ?_, ?_, rfl, ?_⟩
      · simp only [Tree.upsert, hms, hsl, hsr, hlt, heq, hlookc, bind, Except.bind, pure, Except.pure]
        simp
      · refine ⟨?_, ⟨by show Linked depth (some (Node.firstId r')) l; rw [hfr']; exact hLl, hLr', trivial⟩⟩
        unfold TreeWF
        refine WF_inner_of_entries h _ _ _ rfl (by simp; omega) (by simp [rootMin]) (by simp)
          (fun _ _ => trivial) ?_
        simp only [List.zip_cons_cons, List.zip_nil_right, Kids, nextLo]
        refine ⟨?_, ?_, hW', trivial, trivial⟩
        · apply WF_mono_lo h _ hWls
          by_cases hk : P.lt key sl = true
          · simp only [hk, if_true]; exact h.asymm hk
          · simp only [hk]; exact h.irrefl sl
        · by_cases hk : P.lt key sl = true
          · simp only [hk, if_true]; exact h.trans _ _ _ hk hslsr'
          · simp only [hk]; exact hslsr'
      · show [l, r'].flatMap (Node.pairs (d := depth)) = _
        rw [hlookc, hpr, Spec.insert_append_left h _ _ _ _ (fun q hq => h.lt_of_lt_of_le (hpl q hq) hlt), ← hp']
        simp
    | true =>
      have hrooml : Node.count l < P.order := by omega
      obtain ⟨l', nid', heq, hW', hp', _, hLl', hfl'⟩ :=
        upsertNode_ok h P rfl hpad ho hev key f depth l (P.order / 2) (some sl) (some sr) (nextId + 2) _ hWls hrooml hlt hLl
      have hgt : AllGt P.lt (Node.pairs r) key := fun q hq => h.lt_of_lt_of_le hlt (hpr' q hq)
      have hlookc : Spec.lookup P.lt (Node.pairs root) key = Spec.lookup P.lt (Node.pairs l) key := by
        rw [hpr, Spec.lookup_append_right h _ _ _ hgt]
      refine ⟨{ order := P.order, depth := depth + 1,
                root := (Inner.mk (nextId + 1) [if P.lt key sl then key else sl, sr] [l', r] : Inner K (Node K V depth)),
                nextId := nid' }, ?_, ?_, rfl, ?_⟩
      · simp only [Tree.upsert, hms, hsl, hsr, hlt, heq, hlookc, bind, Except.bind, pure, Except.pure]
        simp
      · refine ⟨?_, ⟨hLl', hLr, trivial⟩⟩
        unfold TreeWF
        refine WF_inner_of_entries h _ _ _ rfl (by simp; omega) (by simp [rootMin]) (by simp)
          (fun _ _ => trivial) ?_
        simp only [List.zip_cons_cons, List.zip_nil_right, Kids, nextLo]
        refine ⟨?_, ?_, hWr, trivial, trivial⟩
        · have : lowered P.lt (some sl) key = some (if P.lt key sl then key else sl) := by
            unfold lowered; by_cases hk : P.lt key sl = true <;> simp [hk]
          rw [this] at hW'; exact hW'
        · by_cases hk : P.lt key sl = true
          · simp only [hk, if_true]; exact hlt
          · simp only [hk]; exact hslsr'
      · show [l', r].flatMap (Node.pairs (d := depth)) = _
        rw [hlookc, hpr, Spec.insert_append_right h _ _ _ _ hgt, ← hp']
        simp

end Gobptree
