/-
  READ FRAME, assembly: from the per-continuation results to one scheduler step.
-/
import Gobptree.Proofs.CReadFrameUp

namespace Gobptree.Conc
open Gobptree

variable {K V : Type}

/-- what the assembly needs of Delete's continuations (proved in `CReadFrameDel`) -/
def ResumeRfD (K V : Type) : Prop :=
  ∀ (S : Nat → Prop) (R : Prop) (b1 b2 : List (Ev K V)) (s1 s2 : St K V) (P : Params K) (t : Nat) (k : Kont K V),
    isDelK k = true → SRel S R b1 b2 s1 s2 → 4 ≤ s1.tree.order → 4 ≤ s2.tree.order →
    Pre P (kontHole k) s1 → Pre P (kontHole k) s2 → KontOk s1.tree k → KontOk s2.tree k →
    KontPre s1.cursor k →
    (∀ x, Lk.node x ∈ kontHeld k → S x) → (∀ x, kontLock k = some (Lk.node x) → S x) →
    ((Lk.tree ∈ kontHeld k ∨ kontLock k = some .tree) → R) →
    BRel S R b1 b2 (resume P t s1 k) (resume P t s2 k)

/-- identities the thread may read or write during the step: nodes it holds, nodes it creates -/
def stepIds (th : Thread K V) (n0 : Nat) (id : Nat) : Prop := Lk.node id ∈ stepHeld th ∨ n0 ≤ id

theorem step_rf_of (hD : ResumeRfD K V) (c1 c2 c1' c2' : Config K V) (t : Nat) (th : Thread K V)
    (h1 : c1.threads[t]? = some th) (h2 : c2.threads[t]? = some th) (hP : c1.P = c2.P)
    (hi1 : CInv c1) (hi2 : CInv c2) (hv : SameView (stepHeld th) c1.tree c2.tree)
    (hs1 : c1.step t = some c1') (hs2 : c2.step t = some c2') :
    TRes (stepIds th c1.tree.nextId) (Lk.tree ∈ stepHeld th) (Ev.dec t c1.enabledSet :: c1.log)
      (Ev.dec t c2.enabledSet :: c2.log) (runThread c1.P t th (stepSt c1 t th)) (runThread c1.P t th (stepSt c2 t th)) ∧
    c1' = { c1 with tree := (runThread c1.P t th (stepSt c1 t th)).2.1.tree,
                    owner := (runThread c1.P t th (stepSt c1 t th)).2.1.owner,
                    threads := c1.threads.set t (runThread c1.P t th (stepSt c1 t th)).1,
                    log := (runThread c1.P t th (stepSt c1 t th)).2.1.evs,
                    dead := c1.dead || (runThread c1.P t th (stepSt c1 t th)).2.2 } ∧
    c2' = { c2 with tree := (runThread c1.P t th (stepSt c2 t th)).2.1.tree,
                    owner := (runThread c1.P t th (stepSt c2 t th)).2.1.owner,
                    threads := c2.threads.set t (runThread c1.P t th (stepSt c2 t th)).1,
                    log := (runThread c1.P t th (stepSt c2 t th)).2.1.evs,
                    dead := c2.dead || (runThread c1.P t th (stepSt c2 t th)).2.2 } := by
  obtain ⟨th1, ht1, hen1, r1, hr1, hc1'⟩ := step_shape hs1
  obtain ⟨th2, ht2, hen2, r2, hr2, hc2'⟩ := step_shape hs2
  rw [h1] at ht1
  rw [h2] at ht2
  cases ht1
  cases ht2
  rw [← hP] at hr2
  subst hr1 hr2
  refine ⟨?_, hc1', hc2'⟩
  have htm1 : th ∈ c1.threads := List.mem_of_getElem? h1
  have htm2 : th ∈ c2.threads := List.mem_of_getElem? h2
  have hS1 := hi1.s
  have hS2 := hi2.s
  have hok := hS1.cfg th htm1
  obtain ⟨hvo, hvn, hvl, hvr⟩ := hv
  -- the initial states are related
  have hr0 : SRel (stepIds th c1.tree.nextId) (Lk.tree ∈ stepHeld th) (Ev.dec t c1.enabledSet :: c1.log)
      (Ev.dec t c2.enabledSet :: c2.log) (stepSt c1 t th) (stepSt c2 t th) := by
    refine ⟨⟨hvo, hvn, ?_, hvr⟩, rfl, rfl, rfl, ⟨[], rfl, rfl⟩, ?_⟩
    · intro id hid
      rcases hid with hid | hid
      · exact hvl id hid
      · have n1 : c1.tree.look id = none := by
          cases hl : c1.tree.look id with
          | none => rfl
          | some sh =>
            have := look_lt_nextId hS1.tree.ids hl
            omega
        have n2 : c2.tree.look id = none := by
          cases hl : c2.tree.look id with
          | none => rfl
          | some sh =>
            have := look_lt_nextId hS2.tree.ids hl
            omega
        show c1.tree.look id = c2.tree.look id
        rw [n1, n2]
    · intro leaf i hc
      left
      apply mem_stepHeld_of_held
      apply hok.1.mem_iff.2
      apply List.mem_append_left
      have : (stepSt c1 t th).cursor = th.cursor := rfl
      rw [this] at hc
      rw [hc]
      simp [cursorLocks]
  apply runThread_rf c1.P t th hr0
  intro k hp
  have hcov := covers_of_ok (s0 := stepSt c1 t th) rfl hok k hp
  obtain ⟨hheld, hlock, _⟩ := hcov
  have hheld' : ∀ x, Lk.node x ∈ kontHeld k → stepIds th c1.tree.nextId x := fun x hx => Or.inl (hheld _ hx)
  have hlock' : ∀ x, kontLock k = some (Lk.node x) → stepIds th c1.tree.nextId x := fun x hx => Or.inl (hlock _ hx)
  have hRt : (Lk.tree ∈ kontHeld k ∨ kontLock k = some .tree) → Lk.tree ∈ stepHeld th := by
    rintro (h | h)
    · exact hheld _ h
    · exact hlock _ h
  have hk1 : KontOk c1.tree k := by
    have := (hS1.threads th htm1).1
    rcases hp with hp | ⟨l, hp⟩ <;> rw [hp] at this <;> exact this
  have hk2 : KontOk c2.tree k := by
    have := (hS2.threads th htm2).1
    rcases hp with hp | ⟨l, hp⟩ <;> rw [hp] at this <;> exact this
  have hkp : KontPre th.cursor k := by
    have := hok.2.1
    rcases hp with hp | ⟨l, hp⟩ <;> rw [hp] at this <;> exact this
  have hpre1 : Pre c1.P (holeOf c1.threads) (stepSt c1 t th) := ⟨hS1.tree, hS1.order, hS1.pad⟩
  have hpre2 : Pre c1.P (holeOf c2.threads) (stepSt c2 t th) := ⟨hS2.tree, by rw [hP]; exact hS2.order, by rw [hP]; exact hS2.pad⟩
  cases hdel : isDelK k with
  | false =>
    exact resume_rf_U c1.P t k _ _ hdel hr0 hpre1 hpre2 hk1 hk2 hheld' hlock' hRt
  | true =>
    have hdp : isDelPark th.park = true := by
      rcases hp with hp | ⟨l, hp⟩ <;> rw [hp] <;> exact hdel
    have hh1 : holeOf c1.threads = kontHole k := by
      rw [hole_of_stepper hS1 h1 hen1 hdp]
      rcases hp with hp | ⟨l, hp⟩
      · rw [hp] at hdp ⊢
        have hlock0 : kontLock k = none := by
          have := hok.2.2; rw [hp] at this; exact this
        cases k <;> first | rfl | (simp [kontLock] at hlock0)
      · rw [hp, parkHole_want]
    have hh2 : holeOf c2.threads = kontHole k := by
      rw [hole_of_stepper hS2 h2 hen2 hdp]
      rcases hp with hp | ⟨l, hp⟩
      · rw [hp] at hdp ⊢
        have hlock0 : kontLock k = none := by
          have := hok.2.2; rw [hp] at this; exact this
        cases k <;> first | rfl | (simp [kontLock] at hlock0)
      · rw [hp, parkHole_want]
    rw [hh1] at hpre1
    rw [hh2] at hpre2
    exact hD _ _ _ _ _ _ c1.P t k hdel hr0 (hi1.four htm1 hdp) (hi2.four htm2 hdp) hpre1 hpre2 hk1 hk2 hkp
      hheld' hlock' hRt

end Gobptree.Conc
