/-
  Key-order block lemma for every continuation except Delete's (`resume_kpost_U`): resuming it
  keeps the ordering invariant, has the abstract effect `AbsEffect` prescribes, parks at a
  position consistent with the key of the operation, and keeps the positions of the nodes the
  running thread does not hold.

  Helper files: `CKUpBase` (route tails, `Picks`, `find` after a rewrite, `UpEff`), `CKUpLeaf`
  (leaf step, `upContinue`, `upCallback`), `CKUpRO` (Search / NewScanner), `CKUpList`
  (routing index under list surgery), `CKUpSplit` (`maybeSplit` on `Ord` nodes), `CKUpNode`
  (the rewritten parent), `CKUpRoot` (`upRootArrive`), `CKUpChild` (`upChildArrive`).
-/
import Gobptree.Proofs.CKUpChild

namespace Gobptree.Conc
open Gobptree

variable {K V : Type} {lt : K → K → Bool}

theorem resume_kpost_U : ResumeKU K V := by
  intro lt P t s k H hole hnd hK hpre hk hc hkp hcov hord hpos
  obtain ⟨hheld, hlock, _⟩ := hcov
  have hok := hpre.tree
  cases k with
  | roTree sc key =>
    exact kpost_unchanged t _ H s _ _ hord rfl (fun h => h) (fun p hp => by cases hp; trivial)
  | roNode sc key hold want =>
    exact roNode_kpost P hK t s sc key hold want H hok hord hk hpos
  | upTree key f y =>
    exact kpost_unchanged t _ H s _ _ hord rfl (fun h => h) (fun p hp => by cases hp; trivial)
  | upRoot key f y r =>
    have hcur : cursorLocks s.cursor = [] := hkp
    have hres := upRootArrive_kres P hK t (s.acq t (.node r)) key f y r H hole ⟨hok, hpre.order, hpre.pad⟩ hord hk
      (hheld _ (by simp [kontHeld])) (hlock _ rfl) hcur
    obtain ⟨h1, h2, h3, h4⟩ := KRes.of_acq _ hres
    exact ⟨⟨h1, h2, h3⟩, h4⟩
  | upRootSib key f y root sib =>
    have hin : InBounds lt s.tree key sib := hpos
    have hres : KRes lt t key f H s
        (upContinue P t (((s.acq t (.node sib)).rel t (.node root)).rel t .tree) key f y sib).1
        (upContinue P t (((s.acq t (.node sib)).rel t (.node root)).rel t .tree) key f y sib).2 := by
      refine KRes.continue P hK hpre.pad y sib (s1 := ((s.acq t (.node sib)).rel t (.node root)).rel t .tree)
        hok hord hin rfl ?_ (Stable.refl H _)
      intro arg ha
      have ha' : CbIn t arg (Ev.rel t Lk.tree :: Ev.rel t (Lk.node root) :: Ev.acq t (Lk.node sib) :: s.evs) := ha
      rw [cbIn_rel, cbIn_rel, cbIn_acq] at ha'
      exact ha'
    obtain ⟨h1, h2, h3, h4⟩ := hres
    exact ⟨⟨h1, h2, h3⟩, h4⟩
  | upChild key f y parent index child =>
    have hcur : cursorLocks s.cursor = [] := hkp
    have hres := upChildArrive_kres P hK t (s.acq t (.node child)) key f y parent index child H hole
      ⟨hok, hpre.order, hpre.pad⟩ hord hk hpos (hheld _ (by simp [kontHeld])) (hlock _ rfl) hcur
    obtain ⟨h1, h2, h3, h4⟩ := KRes.of_acq _ hres
    exact ⟨⟨h1, h2, h3⟩, h4⟩
  | upSib key f y parent child sib =>
    have hin : InBounds lt s.tree key sib := hpos
    have hres : KRes lt t key f H s
        (upContinue P t (((s.acq t (.node sib)).rel t (.node child)).rel t (.node parent)) key f y sib).1
        (upContinue P t (((s.acq t (.node sib)).rel t (.node child)).rel t (.node parent)) key f y sib).2 := by
      refine KRes.continue P hK hpre.pad y sib
        (s1 := ((s.acq t (.node sib)).rel t (.node child)).rel t (.node parent)) hok hord hin rfl ?_ (Stable.refl H _)
      intro arg ha
      have ha' : CbIn t arg
          (Ev.rel t (Lk.node parent) :: Ev.rel t (Lk.node child) :: Ev.acq t (Lk.node sib) :: s.evs) := ha
      rw [cbIn_rel, cbIn_rel, cbIn_acq] at ha'
      exact ha'
    obtain ⟨h1, h2, h3, h4⟩ := hres
    exact ⟨⟨h1, h2, h3⟩, h4⟩
  | upCallback key f leaf arg =>
    exact upCallback_kpost P hK hpre.pad t s key f leaf arg H hok hord hk hpos
  | delTree key => simp [isDelK] at hnd
  | delRoot key r => simp [isDelK] at hnd
  | delLeft key frames node index left root => simp [isDelK] at hnd
  | delChild key frames node index left child root => simp [isDelK] at hnd
  | delRight key rest fr right root => simp [isDelK] at hnd
  | hop cur next =>
    exact kpost_unchanged t _ H s _ _ hord rfl (fun h => h) (fun p hp => by cases hp)
  | paused =>
    exact kpost_unchanged t _ H s _ _ hord rfl (fun h => h) (fun p hp => by cases hp)

end Gobptree.Conc

#print axioms Gobptree.Conc.resume_kpost_U
