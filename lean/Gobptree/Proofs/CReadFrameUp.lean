/-
  READ FRAME, part 4: the blocks of Insert / Update.
-/
import Gobptree.Proofs.CReadFrameKids
import Gobptree.Proofs.CReadFrameRO

namespace Gobptree.Conc
open Gobptree

variable {K V : Type}

theorem upsert_id (P : Params K) (l : Leaf K V) (key : K) (f : Option V → V) (l' : Leaf K V) (a : Option V)
    (h : Leaf.upsert P l key f = .ok (l', a)) : l'.id = l.id := by
  unfold Leaf.upsert at h
  simp only [] at h
  repeat' split at h
  all_goals first
    | (cases h; rfl)
    | (cases h)

theorem deleteKey_id (P : Params K) (l : Leaf K V) (m : Nat) (key : K) (l' : Leaf K V) (b : Bool)
    (h : Leaf.deleteKey P l m key = .ok (l', b)) : l'.id = l.id := by
  unfold Leaf.deleteKey at h
  simp only [] at h
  repeat' split at h
  all_goals first
    | (cases h; rfl)
    | (cases h)

theorem find_depth_eq {S : Nat → Prop} {R : Prop} {T1 T2 : Tree K V} (h : TRel S R T1 T2) {id : Nat} (hs : S id)
    {d1 d2 : Nat} {n1 : Node K V d1} {n2 : Node K V d2}
    (h1 : T1.find id = some ⟨d1, n1⟩) (h2 : T2.find id = some ⟨d2, n2⟩) : d1 = d2 := by
  have hl := h.look id hs
  rw [look_eq_find, look_eq_find, h1, h2] at hl
  have hl' : shallow n1 = shallow n2 := by simpa using hl
  have := congrArg Shallow.height hl'
  rwa [shallow_height, shallow_height] at this

theorem find_shallow_eq {S : Nat → Prop} {R : Prop} {T1 T2 : Tree K V} (h : TRel S R T1 T2) {id : Nat} (hs : S id)
    {d : Nat} {n1 n2 : Node K V d}
    (h1 : T1.find id = some ⟨d, n1⟩) (h2 : T2.find id = some ⟨d, n2⟩) : shallow n1 = shallow n2 := by
  have hl := h.look id hs
  rw [look_eq_find, look_eq_find, h1, h2] at hl
  simpa using hl

section
variable {S : Nat → Prop} {R : Prop} {b1 b2 : List (Ev K V)} {s1 s2 : St K V}

/-- the leaf part of Insert/Update on the leaf both runs hold -/
theorem upLeaf_rf (P : Params K) (t : Nat) (key : K) (f : Option V → V) (y : Option Bool) (n : Nat) (l : Leaf K V)
    (hr : SRel S R b1 b2 s1 s2)
    (hf1 : s1.tree.find n = some ⟨0, l⟩) (hf2 : s2.tree.find n = some ⟨0, l⟩)
    (hn1 : s1.tree.ids.Nodup) (hn2 : s2.tree.ids.Nodup) :
    BRel S R b1 b2 (upLeaf P t s1 key f y n l) (upLeaf P t s2 key f y n l) := by
  unfold upLeaf
  cases hup : Leaf.upsert P l key f with
  | error e => exact ⟨hr, rfl⟩
  | ok res =>
    obtain ⟨l', arg⟩ := res
    have hid : l'.id = n := (upsert_id P l key f l' arg hup).trans (find_facts hf1).1
    have hT : TRel S R (putLeaf s1.tree l') (putLeaf s2.tree l') :=
      putLeaf_rf hr.tree l' (by rw [hid]; exact hf1) (by rw [hid]; exact hf2) hn1 hn2
    simp only []
    cases y with
    | none => exact ⟨(hr.withTree hT).rel t _, rfl⟩
    | some b =>
      cases b with
      | true => exact ⟨hr.note t _, rfl⟩
      | false => exact ⟨((hr.note t _).withTree hT).rel t _, rfl⟩

/-- continue the descent at a node both runs hold -/
theorem upContinue_rf (P : Params K) (t : Nat) (key : K) (f : Option V → V) (y : Option Bool) (n : Nat)
    (hr : SRel S R b1 b2 s1 s2) (hn : S n) (hn1 : s1.tree.ids.Nodup) (hn2 : s2.tree.ids.Nodup) :
    BRel S R b1 b2 (upContinue P t s1 key f y n) (upContinue P t s2 key f y n) := by
  unfold upContinue
  rcases find_arel hr.tree hn with ⟨h1, h2⟩ | ⟨a1, a2, h1, h2, hl, hru, hk⟩
  · rw [h1, h2]
    exact ⟨hr, rfl⟩
  · rw [h1, h2]
    simp only []
    cases hleaf : leafOf? a2 with
    | some l =>
      have e2 := leafOf?_some hleaf
      have e1 := leafOf?_some (hl.trans hleaf)
      subst e1 e2
      simp only [leafOf?]
      exact upLeaf_rf P t key f y n l hr h1 h2 hn1 hn2
    | none =>
      rw [hl, hleaf, hru]
      simp only []
      cases innerRunts? a2 with
      | none => exact ⟨hr, rfl⟩
      | some runts =>
        simp only []
        rw [hk]
        cases innerKidId? a2 (searchLE P.lt key runts) with
        | none => exact ⟨hr, rfl⟩
        | some c => exact ⟨hr, rfl⟩

/-- the update callback returned: write the leaf -/
theorem upCallback_rf (P : Params K) (t : Nat) (key : K) (f : Option V → V) (leaf : Nat) (arg : Option V)
    (hr : SRel S R b1 b2 s1 s2) (hn : S leaf) (hn1 : s1.tree.ids.Nodup) (hn2 : s2.tree.ids.Nodup) :
    BRel S R b1 b2 (resume P t s1 (.upCallback key f leaf arg)) (resume P t s2 (.upCallback key f leaf arg)) := by
  simp only [resume]
  rcases find_arel hr.tree hn with ⟨h1, h2⟩ | ⟨a1, a2, h1, h2, hl, hru, hk⟩
  · rw [h1, h2]
    exact ⟨hr, rfl⟩
  · rw [h1, h2]
    simp only []
    cases hleaf : leafOf? a2 with
    | some l =>
      have e2 := leafOf?_some hleaf
      have e1 := leafOf?_some (hl.trans hleaf)
      subst e1 e2
      simp only [leafOf?]
      cases hup : Leaf.upsert P l key f with
      | error e => exact ⟨hr, rfl⟩
      | ok res =>
        obtain ⟨l', arg'⟩ := res
        have hid : l'.id = leaf := (upsert_id P l key f l' arg' hup).trans (find_facts h1).1
        have hT : TRel S R (putLeaf s1.tree l') (putLeaf s2.tree l') :=
          putLeaf_rf hr.tree l' (by rw [hid]; exact h1) (by rw [hid]; exact h2) hn1 hn2
        exact ⟨(hr.withTree hT).rel t _, rfl⟩
    | none =>
      rw [hl, hleaf]
      exact ⟨hr, rfl⟩

/-! ### after acquiring the child in the descent loop -/

end

theorem upChild_unary (P : Params K) (s : St K V) (key : K) (f : Option V → V) (y : Option Bool)
    (parent index child : Nat) (hole : Option Nat) (hpre : Pre P hole s)
    (hk : KontOk s.tree (.upChild key f y parent index child)) :
    ∃ (d : Nat) (p : Inner K (Node K V d)) (c : Node K V d) (Ak Bk : List (Node K V d)) (r' : List K) (m : Nat),
      s.tree.find parent = some ⟨d + 1, p⟩ ∧ p.kids = Ak ++ c :: Bk ∧ Ak.length = index ∧ Node.id c = child ∧
      lowerFirst P key index p.runts c = .ok r' ∧ NodeOcc P.order m (shallow c) := by
  obtain ⟨hkid, hnfp⟩ := hk
  have hok := hpre.tree
  obtain ⟨shp, hlp, hkidx⟩ := kidAt_look hkid
  obtain ⟨a, hfind, hsh, _⟩ := find_some_of_look hlp
  obtain ⟨d, p, c, rfl, hpk, hcid⟩ := any_kid a index child (by rw [hsh]; exact hkidx)
  have hsh' : shp = shallow (d := d + 1) p := hsh.symm
  subst hsh'
  obtain ⟨hmid, L0, R0, hf0, _⟩ := Tree.find_modify hfind
  have hmid' : p.id = parent := hmid
  obtain ⟨Ak, Bk, hkids, hAk⟩ := getElem?_split p.kids index c hpk
  have hoccp : NodeOcc s.tree.order (minOf s.tree.order s.tree.rootId hole p.id (d + 1)) (shallow (d := d + 1) p) := by
    rw [hmid']; exact occ_of_look hok.occ hlp
  obtain ⟨hlenp, honep, _⟩ := hoccp.2.2.2 (Nat.succ_pos d)
  have honep' : 1 ≤ p.runts.length := honep
  obtain ⟨r', hlow, hlen'⟩ := lowerFirst_ok P key index p.runts c honep'
  have hmemc : (Node.id c, shallow c) ∈ s.tree.flat := by
    rw [hf0]
    exact List.mem_append_left _ (List.mem_append_right _ (kid_mem_flat p c (List.mem_of_getElem? hpk)))
  have hoccC := hok.occ _ hmemc
  exact ⟨d, p, c, Ak, Bk, r', _, hfind, hkids, hAk, hcid, hlow, hpre.order ▸ hoccC⟩

section
variable {S : Nat → Prop} {R : Prop} {b1 b2 : List (Ev K V)} {s1 s2 : St K V}

theorem lowerFirst_indep (P : Params K) (key : K) (index : Nat) (runts : List K) {d : Nat} (c1 c2 : Node K V d) :
    lowerFirst P key index runts c1 = lowerFirst P key index runts c2 := rfl

theorem upChildArrive_rf (P : Params K) (t : Nat) (key : K) (f : Option V → V) (y : Option Bool)
    (parent index child : Nat) (hole1 hole2 : Option Nat)
    (hr : SRel S R b1 b2 s1 s2) (hpre1 : Pre P hole1 s1) (hpre2 : Pre P hole2 s2)
    (hk1 : KontOk s1.tree (.upChild key f y parent index child))
    (hk2 : KontOk s2.tree (.upChild key f y parent index child))
    (hSp : S parent) (hSc : S child) :
    BRel S R b1 b2 (upChildArrive P t s1 key f y parent index child) (upChildArrive P t s2 key f y parent index child) := by
  obtain ⟨d1, p1, c1, Ak1, Bk1, r1', m1, hfind1, hkids1, hAk1, hcid1, hlow1, hocc1⟩ :=
    upChild_unary P s1 key f y parent index child hole1 hpre1 hk1
  obtain ⟨d2, p2, c2, Ak2, Bk2, r2', m2, hfind2, hkids2, hAk2, hcid2, hlow2, hocc2⟩ :=
    upChild_unary P s2 key f y parent index child hole2 hpre2 hk2
  have hd : d1 = d2 := by have := find_depth_eq hr.tree hSp hfind1 hfind2; omega
  subst hd
  have hn1 := hpre1.tree.ids.1
  have hn2 := hpre2.tree.ids.1
  have hsh := find_shallow_eq hr.tree hSp hfind1 hfind2
  have hkr := krel_of_find hr.tree hn1 hn2 hfind1 hfind2 hsh
  rw [hkids1, hkids2] at hkr
  obtain ⟨hkA, hkcB⟩ := hkr.split (by rw [hAk1, hAk2])
  obtain ⟨⟨hcid, hcsh⟩, hkB⟩ := hkcB.cons_inv
  have hcs : shallow c1 = shallow c2 := hcsh (by rw [hcid1]; exact hSc)
  have hru : p1.runts = p2.runts := (inner_of_shallow hsh).1
  have hr' : r1' = r2' := by
    have : lowerFirst P key index p1.runts c1 = lowerFirst P key index p2.runts c2 := by rw [hru]; rfl
    rw [hlow1, hlow2] at this
    cases this; rfl
  subst hr'
  have heven : P.order % 2 = 0 := hpre1.order ▸ hpre1.tree.even
  have hpk1 : p1.kids[index]? = some c1 := by rw [hkids1, ← hAk1]; exact form_getElem_pivot _ _ _
  have hpk2 : p2.kids[index]? = some c2 := by rw [hkids2, ← hAk2]; exact form_getElem_pivot _ _ _
  have hnid := hr.tree.nextId
  unfold upChildArrive
  rw [hfind1, hfind2]
  simp only []
  rw [hpk1, hpk2]
  simp only []
  rw [hlow1, hlow2]
  simp only []
  rcases maybeSplit_cases P.order s1.tree.nextId heven c1 hocc1 with ⟨hlt1, hms1⟩ | ⟨l1, r1, hms1, hso1⟩
  · rcases maybeSplit_cases P.order s2.tree.nextId heven c2 hocc2 with ⟨hlt2, hms2⟩ | ⟨l2, r2, hms2, hso2⟩
    · rw [hms1, hms2]
      simp only []
      have hset1 : p1.kids.set index c1 = p1.kids := by rw [hkids1, ← hAk1, form_set_pivot]
      have hset2 : p2.kids.set index c2 = p2.kids := by rw [hkids2, ← hAk2, form_set_pivot]
      rw [hset1, hset2]
      obtain ⟨hT, hn1', hn2'⟩ := putInner_rf' (p1' := Inner.mk p1.id r1' p1.kids) (p2' := Inner.mk p2.id r1' p2.kids)
        hr.tree hfind1 hfind2 (find_facts hfind1).1 (find_facts hfind2).1 hn1 hn2
        (List.Perm.refl _) (List.Perm.refl _) hsh
        (by
          show Shallow.mk (d1 + 1) r1' [] none (p1.kids.map Node.id) = Shallow.mk (d1 + 1) r1' [] none (p2.kids.map Node.id)
          rw [(inner_of_shallow hsh).2])
        (by show KRel S p1.kids p2.kids; rw [hkids1, hkids2]; exact hkr)
        [] List.nodup_nil (by simp) (by simp) (List.Perm.refl _) (List.Perm.refl _)
      exact upContinue_rf P t key f y child ((hr.withTree hT).rel t _) hSc hn1' hn2'
    · exfalso
      have := hso2.len
      rw [hcs] at hlt1
      omega
  · rcases maybeSplit_cases P.order s2.tree.nextId heven c2 hocc2 with ⟨hlt2, hms2⟩ | ⟨l2, r2, hms2, hso2⟩
    · exfalso
      have := hso1.len
      rw [hcs] at this
      omega
    · rw [hms1, hms2]
      simp only []
      have hnl : NRel l1 l2 := by
        refine ⟨by rw [hso1.idl, hso2.idl]; exact hcid, ?_⟩
        rw [hso1.shl, hso2.shl, hcs, hnid]
      have hnr : NRel r1 r2 := by
        refine ⟨by rw [hso1.idr, hso2.idr]; exact hnid, ?_⟩
        rw [hso1.shr, hso2.shr, hcs]
      rw [smallest_of_shallow hnr.2]
      cases hpad : P.pad (some key) with
      | none => exact ⟨hr, rfl⟩
      | some pad =>
        cases hsm : Node.smallest r2 with
        | error e => exact ⟨hr, rfl⟩
        | ok rs =>
          simp only []
          have hkids1' : (insertIdiom r1 p1.kids (index + 1) r1).set index l1 = Ak1 ++ [l1, r1] ++ Bk1 := by
            rw [hkids1, ← hAk1, form_insert_next, form_set_pivot]; simp
          have hkids2' : (insertIdiom r2 p2.kids (index + 1) r2).set index l2 = Ak2 ++ [l2, r2] ++ Bk2 := by
            rw [hkids2, ← hAk2, form_insert_next, form_set_pivot]; simp
          rw [hkids1', hkids2']
          generalize insertIdiom pad r1' (index + 1) rs = ru
          have htl : ∀ (A B : List (Node K V d1)) (c l r : Node K V d1) (fr : Nat), SplitOut P.order fr c l r →
              (tails (A ++ [l, r] ++ B)).Perm (tails (A ++ c :: B)) := by
            intro A B c l r fr hso
            obtain ⟨T1, T2, e, e1, e2, _⟩ := hso.tails
            unfold tails
            simp only [List.flatMap_append, List.flatMap_cons, List.flatMap_nil, List.append_nil]
            rw [e, e1, e2]
            simp only [List.append_assoc]
            exact List.Perm.refl _
          have hidp : ∀ (A B : List (Node K V d1)) (c l r : Node K V d1) (fr : Nat), SplitOut P.order fr c l r →
              ((A ++ [l, r] ++ B).map (Node.id (d := d1))).Perm ([fr] ++ (A ++ c :: B).map (Node.id (d := d1))) := by
            intro A B c l r fr hso
            simp only [List.map_append, List.map_cons, List.map_nil, hso.idl, hso.idr]
            simp only [List.append_assoc, List.cons_append, List.nil_append]
            have : (A.map (Node.id (d := d1)) ++ Node.id c :: fr :: B.map (Node.id (d := d1))).Perm
                (fr :: (A.map (Node.id (d := d1)) ++ Node.id c :: B.map (Node.id (d := d1)))) := by
              have := List.perm_middle (a := fr) (l₁ := A.map (Node.id (d := d1)) ++ [Node.id c]) (l₂ := B.map (Node.id (d := d1)))
              simpa [List.append_assoc] using this
            exact this
          have hfr1 : ∀ i ∈ [s1.tree.nextId], i ∉ s1.tree.ids := by
            intro i hi hm
            have : i = s1.tree.nextId := by simpa using hi
            have := hpre1.tree.ids.2 i hm
            omega
          have hfr2 : ∀ i ∈ [s1.tree.nextId], i ∉ s2.tree.ids := by
            intro i hi hm
            have : i = s1.tree.nextId := by simpa using hi
            have := hpre2.tree.ids.2 i hm
            omega
          obtain ⟨hT, hn1', hn2'⟩ := putInner_rf' (p1' := Inner.mk p1.id ru (Ak1 ++ [l1, r1] ++ Bk1))
            (p2' := Inner.mk p2.id ru (Ak2 ++ [l2, r2] ++ Bk2))
            hr.tree hfind1 hfind2 (find_facts hfind1).1 (find_facts hfind2).1 hn1 hn2
            (by rw [hkids1]; exact htl _ _ _ _ _ _ hso1) (by rw [hkids2]; exact htl _ _ _ _ _ _ hso2) hsh
            (by
              show Shallow.mk (d1 + 1) ru [] none ((Ak1 ++ [l1, r1] ++ Bk1).map Node.id) =
                Shallow.mk (d1 + 1) ru [] none ((Ak2 ++ [l2, r2] ++ Bk2).map Node.id)
              simp only [List.map_append, List.map_cons, List.map_nil, hnl.1, hnr.1, hkA.ids, hkB.ids])
            ((hkA.append ((KRel.single hnl).append (KRel.single hnr))).append hkB)
            [s1.tree.nextId] (by simp) hfr1 hfr2
            (by rw [hkids1]; exact hidp _ _ _ _ _ _ hso1) (by rw [hkids2, hnid]; exact hidp _ _ _ _ _ _ hso2)
          have hTb := hT.bump 1
          split
          · refine ⟨hr.withTree hTb, ?_⟩
            show Flow.park (Park.want (Lk.node (Node.id r1)) (Kont.upSib key f y parent child (Node.id r1))) =
              Flow.park (Park.want (Lk.node (Node.id r2)) (Kont.upSib key f y parent child (Node.id r2)))
            rw [hnr.1]
          · exact upContinue_rf P t key f y child ((hr.withTree hTb).rel t _) hSc hn1' hn2'

/-! ### after acquiring the root -/

theorem rootSplit_perm {T T' : Tree K V} {hole : Option Nat} (hok : TreeOk hole T)
    {l r : Node K V T.depth} (hso : SplitOut T.order T.nextId T.root l r) (ls rs : K)
    (ht' : T' = { order := T.order, depth := T.depth + 1,
                  root := (Inner.mk (T.nextId + 1) [ls, rs] [l, r] : Inner K (Node K V T.depth)),
                  nextId := T.nextId + 2 }) :
    T'.ids.Nodup ∧
    T.flat.Perm (ftail T.root ++ [(T.rootId, shallow T.root)]) ∧
    T'.flat.Perm (ftail T.root ++
      [(T.nextId + 1, ⟨T.depth + 1, [ls, rs], [], none, [T.rootId, T.nextId]⟩), top l, top r]) := by
  obtain ⟨hstep, hflat', _⟩ := rootSplit_step (H := [Lk.tree, Lk.node T.rootId]) hok hso ls rs (by simp) (by simp) T' ht'
  refine ⟨hstep.tree.ids.1, ?_, ?_⟩
  · show (flat T.root).Perm _
    rw [flat_eq_cons T.root]
    exact (List.perm_append_comm (l₁ := [(Node.id T.root, shallow T.root)]) (l₂ := ftail T.root))
  · rw [hflat']
    obtain ⟨T1, T2, e, e1, e2, _⟩ := hso.tails
    rw [flat_eq_cons l, flat_eq_cons r, e, e1, e2]
    generalize (T.nextId + 1, (⟨T.depth + 1, [ls, rs], [], none, [T.rootId, T.nextId]⟩ : Shallow K V)) = x
    show (x :: (top l :: T1 ++ top r :: T2)).Perm (T1 ++ T2 ++ [x, top l, top r])
    have h1 : (x :: (top l :: T1 ++ top r :: T2)).Perm (x :: top l :: top r :: (T1 ++ T2)) := by
      refine List.Perm.cons _ ?_
      show (top l :: (T1 ++ top r :: T2)).Perm _
      exact List.Perm.cons _ List.perm_middle
    exact h1.trans (List.perm_append_comm (l₁ := [x, top l, top r]) (l₂ := T1 ++ T2))

theorem rootSplit_rf {S : Nat → Prop} {R : Prop} {o dp nid : Nat} {root1 root2 l1 r1 l2 r2 : Node K V dp}
    {hole1 hole2 : Option Nat}
    (hT : TRel S R (Tree.mk o dp root1 nid) (Tree.mk o dp root2 nid))
    (hok1 : TreeOk hole1 (Tree.mk o dp root1 nid)) (hok2 : TreeOk hole2 (Tree.mk o dp root2 nid))
    (hso1 : SplitOut o nid root1 l1 r1) (hso2 : SplitOut o nid root2 l2 r2)
    (hnl : NRel l1 l2) (hnr : NRel r1 r2) (hrid : Node.id root1 = Node.id root2) (ls rs : K) :
    TRel S R (Tree.mk o (dp + 1) (Inner.mk (nid + 1) [ls, rs] [l1, r1] : Inner K (Node K V dp)) (nid + 2))
      (Tree.mk o (dp + 1) (Inner.mk (nid + 1) [ls, rs] [l2, r2] : Inner K (Node K V dp)) (nid + 2)) ∧
    (Tree.mk o (dp + 1) (Inner.mk (nid + 1) [ls, rs] [l1, r1] : Inner K (Node K V dp)) (nid + 2)).ids.Nodup ∧
    (Tree.mk o (dp + 1) (Inner.mk (nid + 1) [ls, rs] [l2, r2] : Inner K (Node K V dp)) (nid + 2)).ids.Nodup := by
  obtain ⟨hn1', hp1, hp1'⟩ := rootSplit_perm (T := Tree.mk o dp root1 nid) hok1 hso1 ls rs rfl
  obtain ⟨hn2', hp2, hp2'⟩ := rootSplit_perm (T := Tree.mk o dp root2 nid) hok2 hso2 ls rs rfl
  refine ⟨⟨rfl, rfl, ?_, fun _ => ⟨rfl, rfl⟩⟩, hn1', hn2'⟩
  refine rewrite_rf hp1 hp1' hok1.ids.1 hn1' hp2 hp2' hok2.ids.1 hn2' hT.look ?_ ?_
  · intro x _
    show x ∈ [Node.id root1] ↔ x ∈ [Node.id root2]
    rw [hrid]
  · intro x _ sh
    show (x, sh) ∈ [(nid + 1, (⟨dp + 1, [ls, rs], [], none, [Node.id root1, nid]⟩ : Shallow K V)), top l1, top r1] ↔
      (x, sh) ∈ [(nid + 1, (⟨dp + 1, [ls, rs], [], none, [Node.id root2, nid]⟩ : Shallow K V)), top l2, top r2]
    rw [hrid, hnl.top_eq, hnr.top_eq]
theorem upRootArrive_rf (P : Params K) (t : Nat) (key : K) (f : Option V → V) (y : Option Bool)
    (root : Nat) (hole1 hole2 : Option Nat) (s1 s2 : St K V)
    (hr : SRel S R b1 b2 s1 s2) (hpre1 : Pre P hole1 s1) (hpre2 : Pre P hole2 s2)
    (hk1 : KontOk s1.tree (.upRoot key f y root)) (hk2 : KontOk s2.tree (.upRoot key f y root))
    (hR : R) (hSr : S root) :
    BRel S R b1 b2 (upRootArrive P t s1 key f y root) (upRootArrive P t s2 key f y root) := by
  obtain ⟨tr1, ow1, he1, cu1, ex1, ev1⟩ := s1
  obtain ⟨tr2, ow2, he2, cu2, ex2, ev2⟩ := s2
  obtain ⟨o1, dp1, root1, nid1⟩ := tr1
  obtain ⟨o2, dp2, root2, nid2⟩ := tr2
  have hT := hr.tree
  obtain ⟨hrid, hdp⟩ := hT.root hR
  have ho := hT.order
  have hni := hT.nextId
  simp only at hdp ho hni
  subst hdp ho hni
  have hroot1 : root = Node.id root1 := hk1
  have hroot2 : root = Node.id root2 := hk2
  have hok1 := hpre1.tree
  have hok2 := hpre2.tree
  have hn1 := hok1.ids.1
  have hn2 := hok2.ids.1
  have hoccR1 := hok1.occ _ (self_mem_flat root1)
  have hoccR2 := hok2.occ _ (self_mem_flat root2)
  have hshr : shallow root1 = shallow root2 := by
    have h := hT.look root hSr
    have l1 := look_root hok1.ids
    have l2 := look_root hok2.ids
    rw [show (Tree.mk o1 dp1 root1 nid1).rootId = root from hroot1.symm] at l1
    rw [show (Tree.mk o1 dp1 root2 nid1).rootId = root from hroot2.symm] at l2
    rw [l1, l2] at h
    exact Option.some.inj h
  unfold upRootArrive
  simp only []
  rcases maybeSplit_cases o1 nid1 hok1.even root1 hoccR1 with ⟨hlt1, hms1⟩ | ⟨l1, r1, hms1, hso1⟩
  · rcases maybeSplit_cases o1 nid1 hok2.even root2 hoccR2 with ⟨hlt2, hms2⟩ | ⟨l2, r2, hms2, hso2⟩
    · rw [hms1, hms2]
      simp only []
      exact upContinue_rf P t key f y root (hr.rel t .tree) hSr hn1 hn2
    · exfalso
      have := hso2.len
      rw [hshr] at hlt1
      omega
  · rcases maybeSplit_cases o1 nid1 hok2.even root2 hoccR2 with ⟨hlt2, hms2⟩ | ⟨l2, r2, hms2, hso2⟩
    · exfalso
      have := hso1.len
      rw [hshr] at this
      omega
    · rw [hms1, hms2]
      simp only []
      have hnl : NRel l1 l2 := by
        refine ⟨by rw [hso1.idl, hso2.idl, ← hroot1, ← hroot2], ?_⟩
        rw [hso1.shl, hso2.shl, hshr]
      have hnr : NRel r1 r2 := by
        refine ⟨by rw [hso1.idr, hso2.idr], ?_⟩
        rw [hso1.shr, hso2.shr, hshr]
      rw [smallest_of_shallow hnl.2, smallest_of_shallow hnr.2]
      cases hsl : Node.smallest l2 with
      | error e => exact ⟨hr, rfl⟩
      | ok ls =>
        cases hsr : Node.smallest r2 with
        | error e => exact ⟨hr, rfl⟩
        | ok rs =>
          simp only []
          generalize (if P.lt key ls = true then key else ls) = ls'
          obtain ⟨hT', hn1', hn2'⟩ := rootSplit_rf hT hok1 hok2 hso1 hso2 hnl hnr (hroot1.symm.trans hroot2) ls' rs
          split
          · refine ⟨hr.withTree hT', ?_⟩
            show Flow.park (Park.want (Lk.node (Node.id r1)) (Kont.upRootSib key f y root (Node.id r1))) =
              Flow.park (Park.want (Lk.node (Node.id r2)) (Kont.upRootSib key f y root (Node.id r2)))
            rw [hnr.1]
          · exact upContinue_rf P t key f y root ((hr.withTree hT').rel t .tree) hSr hn1' hn2'

/-! ### every continuation except Delete's -/

theorem resume_rf_U (P : Params K) (t : Nat) (k : Kont K V) (hole1 hole2 : Option Nat)
    (hnd : isDelK k = false) (hr : SRel S R b1 b2 s1 s2) (hpre1 : Pre P hole1 s1) (hpre2 : Pre P hole2 s2)
    (hk1 : KontOk s1.tree k) (hk2 : KontOk s2.tree k)
    (hheld : ∀ x, Lk.node x ∈ kontHeld k → S x) (hlock : ∀ x, kontLock k = some (Lk.node x) → S x)
    (hRt : (Lk.tree ∈ kontHeld k ∨ kontLock k = some .tree) → R) :
    BRel S R b1 b2 (resume P t s1 k) (resume P t s2 k) := by
  have hn1 := hpre1.tree.ids.1
  have hn2 := hpre2.tree.ids.1
  cases k with
  | roTree sc key =>
    simp only [resume]
    refine ⟨hr.acq t _, ?_⟩
    have := (hr.tree.root (hRt (Or.inr rfl))).1
    show Flow.park (Park.want (Lk.node s1.tree.rootId) (Kont.roNode sc key Lk.tree s1.tree.rootId)) =
      Flow.park (Park.want (Lk.node s2.tree.rootId) (Kont.roNode sc key Lk.tree s2.tree.rootId))
    rw [this]
  | roNode sc key hold want =>
    exact roArrive_rf P t sc key hold want (hr.acq t _) (hlock want rfl)
  | upTree key f y =>
    simp only [resume]
    refine ⟨hr.acq t _, ?_⟩
    have := (hr.tree.root (hRt (Or.inr rfl))).1
    show Flow.park (Park.want (Lk.node s1.tree.rootId) (Kont.upRoot key f y s1.tree.rootId)) =
      Flow.park (Park.want (Lk.node s2.tree.rootId) (Kont.upRoot key f y s2.tree.rootId))
    rw [this]
  | upRoot key f y r =>
    exact upRootArrive_rf P t key f y r hole1 hole2 _ _ (hr.acq t _) ⟨hpre1.tree, hpre1.order, hpre1.pad⟩
      ⟨hpre2.tree, hpre2.order, hpre2.pad⟩ hk1 hk2 (hRt (Or.inl (by simp [kontHeld]))) (hlock r rfl)
  | upRootSib key f y root sib =>
    simp only [resume]
    exact upContinue_rf P t key f y sib (((hr.acq t _).rel t _).rel t _) (hlock sib rfl) hn1 hn2
  | upChild key f y parent index child =>
    exact upChildArrive_rf P t key f y parent index child hole1 hole2 (hr.acq t _)
      ⟨hpre1.tree, hpre1.order, hpre1.pad⟩ ⟨hpre2.tree, hpre2.order, hpre2.pad⟩ hk1 hk2
      (hheld parent (by simp [kontHeld])) (hlock child rfl)
  | upSib key f y parent child sib =>
    simp only [resume]
    exact upContinue_rf P t key f y sib (((hr.acq t _).rel t _).rel t _) (hlock sib rfl) hn1 hn2
  | upCallback key f leaf arg =>
    exact upCallback_rf P t key f leaf arg hr (hheld leaf (by simp [kontHeld])) hn1 hn2
  | delTree key => simp [isDelK] at hnd
  | delRoot key r => simp [isDelK] at hnd
  | delLeft key frames node index left root => simp [isDelK] at hnd
  | delChild key frames node index left child root => simp [isDelK] at hnd
  | delRight key rest fr right root => simp [isDelK] at hnd
  | hop cur next =>
    simp only [resume]
    refine ⟨((hr.acq t _).rel t _).withCursor' _ ?_, rfl⟩
    intro leaf i e
    cases e
    exact hlock next rfl
  | paused => exact ⟨hr, rfl⟩

end

end Gobptree.Conc
