/-
  List surgery normal forms for the inner-node steps, the `lowered` bound, and
  key bounds of the pairs below a `Kids` chain.
-/
import Gobptree.Proofs.Split

namespace Gobptree

variable {K V : Type} {lt : K → K → Bool}

/-! ### normal forms `take i l ++ x :: drop (i+1) l` -/

section forms
variable {α : Type}

theorem self_form (l : List α) (i : Nat) (hi : i < l.length) :
    l = l.take i ++ l[i] :: l.drop (i + 1) := by
  rw [← List.drop_eq_getElem_cons, List.take_append_drop]

theorem set_form (l : List α) (i : Nat) (x : α) (hi : i < l.length) :
    l.set i x = l.take i ++ x :: l.drop (i + 1) := by
  rw [List.set_eq_take_append_cons_drop]; simp [hi]

theorem length_take_of_lt (l : List α) (i : Nat) (hi : i < l.length) : (l.take i).length = i := by
  rw [List.length_take]; omega

/-- `set` at the pivot of a normal form -/
theorem form_set_pivot (a b : List α) (x y : α) :
    (a ++ x :: b).set a.length y = a ++ y :: b := by
  rw [List.set_append_right _ _ (by omega)]
  simp

/-- `set` just after the pivot -/
theorem form_set_next (a b : List α) (x y z : α) :
    (a ++ x :: y :: b).set (a.length + 1) z = a ++ x :: z :: b := by
  rw [List.set_append_right _ _ (by omega)]
  simp

/-- insertion just after the pivot (the `insertIdiom` of the descent loop) -/
theorem form_insert_next (pad : α) (a b : List α) (x y : α) :
    insertIdiom pad (a ++ x :: b) (a.length + 1) y = a ++ x :: y :: b := by
  rw [insertIdiom_eq _ _ _ _ (by simp)]
  have h1 : (a ++ x :: b).take (a.length + 1) = a ++ [x] := by
    rw [List.take_append]; simp [List.take_of_length_le]
  have h2 : (a ++ x :: b).drop (a.length + 1) = b := by
    rw [List.drop_append]; simp [List.drop_eq_nil_of_le]
  rw [h1, h2]; simp

/-- deletion at the pivot (the `deleteIdiom` of the merge steps) -/
theorem form_delete_pivot (a b : List α) (x : α) :
    deleteIdiom (a ++ x :: b) a.length = a ++ b := by
  rw [deleteIdiom_eq _ _ (by simp)]
  have h1 : (a ++ x :: b).take a.length = a := by rw [List.take_append]; simp
  have h2 : (a ++ x :: b).drop (a.length + 1) = b := by rw [List.drop_append]; simp
  rw [h1, h2]

theorem form_delete_next (a b : List α) (x y : α) :
    deleteIdiom (a ++ x :: y :: b) (a.length + 1) = a ++ x :: b := by
  have := form_delete_pivot (a ++ [x]) b y
  simp only [List.append_assoc, List.singleton_append, List.length_append, List.length_singleton] at this
  exact this

theorem form_getElem_pivot (a b : List α) (x : α) : (a ++ x :: b)[a.length]? = some x := by
  simp

theorem form_getElem_next (a b : List α) (x y : α) : (a ++ x :: y :: b)[a.length + 1]? = some y := by
  rw [List.getElem?_append_right (by omega)]; simp

theorem form_getElem_prev (a b : List α) (w x : α) : (a ++ w :: x :: b)[a.length]? = some w := by
  simp

end forms

/-! ### the lowered lower bound -/

/-- lower bound after inserting `key`: `min lo key` -/
def lowered (lt : K → K → Bool) (lo : Option K) (key : K) : Option K :=
  match lo with
  | none => none
  | some l => if lt key l then some key else some l

theorem lowered_le_key (h : SWO lt) (lo : Option K) (key : K) : leO lt (lowered lt lo key) key := by
  cases lo with
  | none => trivial
  | some l =>
    unfold lowered
    by_cases hk : lt key l = true
    · simp [hk, leO, h.irrefl]
    · simp only [hk]; simp only [Bool.not_eq_true] at hk; exact hk

theorem lowered_loLe (h : SWO lt) (lo : Option K) (key : K) : loLe lt (lowered lt lo key) lo := by
  cases lo with
  | none => trivial
  | some l =>
    unfold lowered
    by_cases hk : lt key l = true
    · simp only [hk, if_true]; exact h.asymm hk
    · simp only [hk]; exact h.irrefl l

theorem lowered_of_ge (lo : K) (key : K) (hk : lt key lo = false) : lowered lt (some lo) key = some lo := by
  simp [lowered, hk]

theorem lowered_of_lt (lo : K) (key : K) (hk : lt key lo = true) : lowered lt (some lo) key = some key := by
  simp [lowered, hk]

/-! ### pairs below a chain of children -/

theorem Kids_pairs_bounds (h : SWO lt) {o d : Nat} (hi : Option K) (es : List (K × Node K V d))
    (hk : Kids lt (fun a b c => WF lt o d (o / 2) a b c) hi es) :
    ∀ p ∈ pairsE es, ltO lt p.1 hi ∧ ∃ e ∈ es, lt p.1 e.1 = false := by
  induction es with
  | nil => intro p hp; simp [pairsE] at hp
  | cons e es ih =>
    obtain ⟨k, c⟩ := e
    have hkeys := Kids_keys_lt h hi _ hk
    obtain ⟨hc, hklt, hrest⟩ := hk
    intro p hp
    rw [pairsE_cons] at hp
    cases List.mem_append.mp hp with
    | inl hpc =>
      have hb := WF_pairs_bounds h hc p hpc
      refine ⟨?_, (k, c), by simp, hb.1⟩
      cases es with
      | nil => exact hb.2
      | cons e2 es2 =>
        obtain ⟨k2, c2⟩ := e2
        have h2 : ltO lt k2 hi := hkeys (k2, c2) (by simp)
        have hb2 : lt p.1 k2 = true := hb.2
        cases hi with
        | none => trivial
        | some u => exact h.trans _ _ _ hb2 h2
    | inr hpr =>
      obtain ⟨h1, e', he', h2⟩ := ih hrest p hpr
      exact ⟨h1, e', by simp [he'], h2⟩

theorem allLt_pairsE (h : SWO lt) {o d : Nat} (k key : K) (es : List (K × Node K V d))
    (hk : Kids lt (fun a b c => WF lt o d (o / 2) a b c) (some k) es) (hkk : lt key k = false) :
    AllLt lt (pairsE es) key := by
  intro p hp
  have := (Kids_pairs_bounds h (some k) es hk p hp).1
  exact h.lt_of_lt_of_le this hkk

theorem allGt_pairsE (h : SWO lt) {o d : Nat} (hi : Option K) (key : K) (es : List (K × Node K V d))
    (hk : Kids lt (fun a b c => WF lt o d (o / 2) a b c) hi es) (hkk : ∀ e ∈ es, lt key e.1 = true) :
    AllGt lt (pairsE es) key := by
  intro p hp
  obtain ⟨_, e, he, h2⟩ := Kids_pairs_bounds h hi es hk p hp
  exact h.lt_of_lt_of_le (hkk e he) h2

/-! ### decomposition at the routing index -/

theorem split_at {α : Type} (l : List α) (i : Nat) (hi : i < l.length) :
    ∃ a x b, l = a ++ x :: b ∧ a.length = i :=
  ⟨l.take i, l[i], l.drop (i + 1), self_form l i hi, length_take_of_lt l i hi⟩

theorem Kids_sorted {C : Type} {R : Option K → Option K → C → Prop} (h : SWO lt) (hi : Option K)
    (es : List (K × C)) (hk : Kids lt R hi es) : Sorted lt (es.map Prod.fst) := by
  induction es with
  | nil => simp [Sorted]
  | cons e es ih =>
    obtain ⟨k, c⟩ := e
    have hh := Kids_head_le h hi k c es hk
    obtain ⟨_, _, hrest⟩ := hk
    unfold Sorted
    rw [List.map_cons, List.pairwise_cons]
    refine ⟨?_, ih hrest⟩
    intro a ha
    obtain ⟨e', he', rfl⟩ := List.mem_map.mp ha
    exact hh e' he'

/-- routing facts for `searchLE` on a separator list decomposed at the result -/
theorem searchLE_split_facts (h : SWO lt) (key : K) (rA rB : List K) (k : K)
    (hs : Sorted lt (rA ++ k :: rB)) (hidx : searchLE lt key (rA ++ k :: rB) = rA.length) :
    (rA ≠ [] → lt key k = false) ∧ (∀ x ∈ rB, lt key x = true) := by
  constructor
  · intro hne
    have hpos : 0 < searchLE lt key (rA ++ k :: rB) := by
      rw [hidx]; exact List.length_pos_iff.mpr hne
    have := searchLE_at h key _ hs hpos (by rw [hidx]; simp)
    simpa [hidx] using this
  · intro x hx
    obtain ⟨j, hj, e⟩ := List.getElem_of_mem hx
    have hlen : rA.length + 1 + j < (rA ++ k :: rB).length := by simp; omega
    have h1 := searchLE_after h key _ hs (rA.length + 1 + j) (by rw [hidx]; omega) hlen
    have e2 : (rA ++ k :: rB)[rA.length + 1 + j]'hlen = rB[j] := by
      rw [List.getElem_append_right (by omega)]
      have : rA.length + 1 + j - rA.length = j + 1 := by omega
      simp [this]
    rw [e2, e] at h1
    exact h1

end Gobptree
