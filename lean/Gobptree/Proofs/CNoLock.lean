/-
  Quiescent instant = no mutex held.

  The implementation-side shape oracle runs at every scheduler state in which NO task holds a
  mutex.  This file proves that criterion sound in the small-step model: in every configuration
  that satisfies the invariants (`KFInv`, hence in every reachable configuration) and in which
  no thread holds a mutex, the tree satisfies the FULL quiescent shape invariant
  (`TreeOk none`, `OrdTree`, `SepTree`), hence the sequential `TreeInv ∧ IdsInv`.

  Why: the two relaxations of the in-flight invariant are each tied to a thread that holds a
  mutex —
    * the hole (`parkHole`): a Delete parked at `delRight`, which holds `rootMutex`;
    * the separator-lowering witness (`parkWit`): an Insert/Update parked at `upChild … r 0 …`,
      which holds node `r`.
  A thread that holds nothing is parked at `.start`, `.finished`, at the very first acquisition
  of an operation (`want .tree (roTree/upTree/delTree …)`) or at a client pause — and has no
  open cursor leaf (`idle_of_held_nil`).
-/
import Gobptree.Proofs.CBridge
import Gobptree.Proofs.CClean

namespace Gobptree.Conc
open Gobptree

variable {K V : Type}

/-- no thread holds any mutex -/
def NoLockHeld (c : Config K V) : Prop := ∀ th ∈ c.threads, th.held = []

/-! ### what a thread that holds nothing can be doing -/

/-- a continuation that holds no mutex: the first acquisition of an operation (`rootMutex`
    not yet granted), or a client pause.  (`hop` holds nothing by itself but presupposes the
    cursor's leaf, see `idle_of_held_nil`.) -/
def IdleKont : Kont K V → Prop
  | .roTree _ _ => True
  | .upTree _ _ _ => True
  | .delTree _ => True
  | .paused => True
  | _ => False

/-- the park positions of a thread that is not in flight -/
def IdlePark : Park K V → Prop
  | .start => True
  | .finished => True
  | .want l k => l = .tree ∧ IdleKont k ∧ k ≠ .paused
  | .yielded k => k = .paused

theorem cursorLocks_nil_of_held_nil {th : Thread K V} (hok : ThreadOk th) (hn : th.held = []) :
    cursorLocks th.cursor = [] := by
  have hp := hok.1
  rw [hn] at hp
  exact (List.append_eq_nil_iff.1 hp.symm.eq_nil).1

theorem parkHeld_nil_of_held_nil {th : Thread K V} (hok : ThreadOk th) (hn : th.held = []) :
    parkHeld th.park = [] := by
  have hp := hok.1
  rw [hn] at hp
  exact (List.append_eq_nil_iff.1 hp.symm.eq_nil).2

/-- `kontHeld k = []` pins the continuation down (up to `hop`, which needs the cursor leaf) -/
theorem idleKont_of_kontHeld_nil (k : Kont K V) (h : kontHeld k = []) :
    IdleKont k ∨ ∃ c n, k = .hop c n := by
  cases k with
  | roTree _ _ => exact Or.inl trivial
  | upTree _ _ _ => exact Or.inl trivial
  | delTree _ => exact Or.inl trivial
  | paused => exact Or.inl trivial
  | hop c n => exact Or.inr ⟨c, n, rfl⟩
  | roNode _ _ _ _ => simp [kontHeld] at h
  | upRoot _ _ _ _ => simp [kontHeld] at h
  | upRootSib _ _ _ _ _ => simp [kontHeld] at h
  | upChild _ _ _ _ _ _ => simp [kontHeld] at h
  | upSib _ _ _ _ _ _ => simp [kontHeld] at h
  | upCallback _ _ _ _ => simp [kontHeld] at h
  | delRoot _ _ => simp [kontHeld] at h
  | delLeft _ _ _ _ _ _ => simp [kontHeld] at h
  | delChild _ _ _ _ _ _ _ => simp [kontHeld] at h
  | delRight _ _ _ _ _ => simp [kontHeld] at h

/-- **classification**: a thread that holds no mutex has not started, has finished, waits for
    `rootMutex` as the very first acquisition of an operation, or is in a client pause — and its
    cursor (if any) rests on no leaf -/
theorem idle_of_held_nil {th : Thread K V} (hok : ThreadOk th) (hn : th.held = []) :
    IdlePark th.park ∧ cursorLocks th.cursor = [] := by
  have hc := cursorLocks_nil_of_held_nil hok hn
  have hh := parkHeld_nil_of_held_nil hok hn
  refine ⟨?_, hc⟩
  obtain ⟨_, hpre, hlock⟩ := hok
  cases hp : th.park with
  | start => trivial
  | finished => trivial
  | want l k =>
    rw [hp] at hh hpre hlock
    rcases idleKont_of_kontHeld_nil k hh with hi | ⟨c, n, rfl⟩
    · cases k with
      | roTree _ _ => exact ⟨(Option.some.inj hlock).symm, trivial, by intro e; cases e⟩
      | upTree _ _ _ => exact ⟨(Option.some.inj hlock).symm, trivial, by intro e; cases e⟩
      | delTree _ => exact ⟨(Option.some.inj hlock).symm, trivial, by intro e; cases e⟩
      | paused => cases hlock
      | _ => exact absurd hi id
    · have : cursorLocks th.cursor = [.node c] := hpre
      rw [hc] at this
      cases this
  | yielded k =>
    rw [hp] at hh hpre hlock
    rcases idleKont_of_kontHeld_nil k hh with hi | ⟨c, n, rfl⟩
    · cases k with
      | roTree _ _ => cases hlock
      | upTree _ _ _ => cases hlock
      | delTree _ => cases hlock
      | paused => rfl
      | _ => exact absurd hi id
    · cases hlock

/-- an idle park carries neither a hole nor a separator-lowering witness -/
theorem parkHole_of_idle {p : Park K V} (h : IdlePark p) : parkHole p = none := by
  cases p with
  | start => rfl
  | finished => rfl
  | yielded k => rfl
  | want l k =>
    obtain ⟨_, hi, _⟩ := h
    cases k <;> first | rfl | exact absurd hi id

theorem parkWit_of_idle {p : Park K V} (h : IdlePark p) (r : Nat) (x : K) : ¬ parkWit p r x := by
  cases p with
  | start => exact id
  | finished => exact id
  | yielded k => exact id
  | want l k =>
    obtain ⟨_, hi, _⟩ := h
    cases k <;> first | exact id | exact absurd hi id

/-- a Delete that has opened a hole holds `rootMutex` -/
theorem parkHole_held {b : Thread K V} (hok : ThreadOk b) {x : Nat} (h : parkHole b.park = some x) :
    Lk.tree ∈ b.held := by
  cases hp : b.park with
  | want l k =>
    rw [hp] at h
    cases k with
    | delRight key rest fr right root =>
      apply hok.1.mem_iff.2
      apply List.mem_append_right
      rw [hp]; simp [parkHeld, kontHeld]
    | _ => cases h
  | _ => rw [hp] at h; cases h

/-! ### the criterion -/

/-- **quiescent instant = no mutex held**: in every configuration satisfying the invariants in
    which no thread holds a mutex, the tree satisfies the FULL quiescent shape invariant -/
theorem nolock_tree_ok (lt : K → K → Bool) (c : Config K V) (h : KFInv lt c) (hq : NoLockHeld c) :
    TreeOk none c.tree ∧ OrdTree lt c.tree ∧ SepTree lt c.tree := by
  have hidle : ∀ th ∈ c.threads, IdlePark th.park := fun th hth =>
    (idle_of_held_nil (h.cinv.s.cfg th hth) (hq th hth)).1
  have hhole : holeOf c.threads = none :=
    holeOf_all_none _ fun b hb => parkHole_of_idle (hidle b hb)
  refine ⟨by have := h.cinv.s.tree; rw [hhole] at this; exact this, h.kinv.ord, ?_⟩
  have hI := (isep_iff lt c).1 h.isep
  refine isepW_mono hI ?_
  rintro r x ⟨th, hth, hw⟩
  exact absurd hw (parkWit_of_idle (hidle th hth) r x)

theorem reachable_nolock_tree_ok (lt : K → K → Bool) (P : Params K) (tree : Tree K V)
    (progs : List (List (COp K V)))
    (hkp : KParams lt P) (ht : TreeOk none tree) (hord : OrdTree lt tree) (hsep : SepTree lt tree)
    (ho : tree.order = P.order) (hp : PadOk P) (hd : Disciplined progs) (hdel : 4 ≤ tree.order ∨ NoDelete progs)
    (c : Config K V) (hr : Reachable (Config.init P tree progs) c) (hq : NoLockHeld c) :
    TreeOk none c.tree ∧ OrdTree lt c.tree ∧ SepTree lt c.tree ∧ c.tree.order = P.order :=
  let h := reachable_kfinv' lt P tree progs hkp ht hord hsep ho hp hd hdel c hr
  let r := nolock_tree_ok lt c h hq
  ⟨r.1, r.2.1, r.2.2, by rw [h.cinv.s.order, reachable_P P tree progs c hr]⟩

/-- and hence the sequential formulation (`CBridge`) -/
theorem reachable_nolock_treeInv (lt : K → K → Bool) (P : Params K) (tree : Tree K V)
    (progs : List (List (COp K V)))
    (hkp : KParams lt P) (ht : TreeOk none tree) (hord : OrdTree lt tree) (hsep : SepTree lt tree)
    (ho : tree.order = P.order) (hp : PadOk P) (hd : Disciplined progs) (hdel : 4 ≤ tree.order ∨ NoDelete progs)
    (c : Config K V) (hr : Reachable (Config.init P tree progs) c) (hq : NoLockHeld c) :
    TreeInv lt c.tree ∧ IdsInv c.tree ∧ c.tree.order = P.order :=
  let r := reachable_nolock_tree_ok lt P tree progs hkp ht hord hsep ho hp hd hdel c hr hq
  let b := treeInv_of_concurrent lt hkp.swo c.tree r.1 r.2.1
  ⟨b.1, b.2, r.2.2.2⟩

/-! ### the same criterion on the owner table (what the scheduler of the checker sees) -/

/-- no thread holds a mutex iff the owner table is empty -/
theorem noLockHeld_iff_owner_nil (c : Config K V) (ho : OwnerOk c) : NoLockHeld c ↔ c.owner = [] := by
  constructor
  · intro hq
    apply List.eq_nil_iff_forall_not_mem.2
    intro ⟨l, t⟩ hmem
    have hpos : 0 < c.owner.count (l, t) := List.count_pos_iff.mpr hmem
    rw [ho.1 l t] at hpos
    unfold heldOf at hpos
    cases hth : c.threads[t]? with
    | none => rw [hth] at hpos; simp at hpos
    | some th =>
      rw [hth] at hpos
      have hpos' : 0 < th.held.count l := hpos
      rw [hq th (List.mem_of_getElem? hth)] at hpos'
      simp at hpos'
  · intro hn th hth
    obtain ⟨t, hlt, hget⟩ := List.getElem_of_mem hth
    have hget' : c.threads[t]? = some th := by rw [List.getElem?_eq_getElem hlt, hget]
    apply List.eq_nil_iff_forall_not_mem.2
    intro l hl
    have hpos : 0 < th.held.count l := List.count_pos_iff.mpr hl
    have hc := ho.1 l t
    unfold heldOf at hc
    rw [hget', hn] at hc
    simp only [List.count_nil] at hc
    omega

theorem owner_nil_tree_ok (lt : K → K → Bool) (c : Config K V) (h : KFInv lt c) (hq : c.owner = []) :
    TreeOk none c.tree ∧ OrdTree lt c.tree ∧ SepTree lt c.tree :=
  nolock_tree_ok lt c h ((noLockHeld_iff_owner_nil c h.cinv.s.owner).2 hq)

/-! ### relation to `AtRest` -/

/-- `AtRest` alone does NOT give `NoLockHeld`: a finished thread may still hold the leaf of a
    cursor it never closed.  With `FinishedClean` (a theorem for programs that close their
    cursors, `CClean`) it does. -/
theorem noLockHeld_of_atRest (c : Config K V) (h : CInv c) (hq : AtRest c) (hf : FinishedClean c) :
    NoLockHeld c := by
  intro th hth
  rcases hq th hth with e | e
  · have hd := h.disc th hth
    unfold DiscOk at hd
    rw [e] at hd
    have hp := (h.s.cfg th hth).1
    rw [e, hd.2] at hp
    exact hp.eq_nil
  · exact hf th hth e

/-- conversely a no-lock instant is more general than rest: every thread is at rest, about to
    take `rootMutex` for an operation it has not begun, or in a client pause; none has a cursor
    resting on a leaf -/
theorem idle_of_noLockHeld (c : Config K V) (h : ConfigOk c) (hq : NoLockHeld c) :
    ∀ th ∈ c.threads, IdlePark th.park ∧ cursorLocks th.cursor = [] :=
  fun th hth => idle_of_held_nil (h th hth) (hq th hth)

theorem atRest_idle (c : Config K V) (hq : AtRest c) : ∀ th ∈ c.threads, IdlePark th.park := by
  intro th hth
  rcases hq th hth with e | e <;> rw [e] <;> trivial

/-! ### `AtRest` does not imply `NoLockHeld`: a concrete reachable configuration -/

theorem finished_of_unfinished_false (c : Config K V) (hu : c.unfinished = false) :
    ∀ th ∈ c.threads, th.park = .finished := by
  intro th hm
  unfold Config.unfinished at hu
  have := (List.any_eq_false.1 hu) th hm
  cases hp : th.park with
  | finished => rfl
  | start => rw [hp] at this; simp at this
  | want l k => rw [hp] at this; simp at this
  | yielded k => rw [hp] at this; simp at this

theorem atRest_of_unfinished_false (c : Config K V) (hu : c.unfinished = false) : AtRest c :=
  fun th hm => Or.inr (finished_of_unfinished_false c hu th hm)

/-- order 4, `Nat` keys -/
def exP : Params Nat := { lt := fun a b => decide (a < b), pad := fun _ => some 0, order := 4 }

/-- one thread: `NewScanner(0)` on the fresh tree and nothing else (the cursor is never closed) -/
def exProgs : List (List (COp Nat Nat)) := [[COp.ns 0]]

/-- the configuration after the thread has run to completion -/
def exC : Config Nat Nat := ((Config.init exP (Tree.new 4) exProgs).run [0, 0, 0]).1

theorem exP_kparams : KParams exP.lt exP :=
  ⟨⟨fun a => by simp [exP],
    fun a b c h1 h2 => by simp only [exP, decide_eq_true_eq] at *; omega,
    fun a b c h1 => by simp only [exP, decide_eq_true_eq] at *; omega⟩, rfl⟩

/-- **counterexample**: a disciplined (C06-conforming) program, a reachable configuration in
    which every thread has finished — so `AtRest` holds — and yet a mutex is held: the leaf the
    never-closed cursor rests on.  (`rest_tree_ok` still applies to it; the no-lock criterion of
    the checker simply never fires there.) -/
theorem atRest_not_noLockHeld :
    Disciplined exProgs ∧ Reachable (Config.init exP (Tree.new 4) exProgs) exC ∧ AtRest exC ∧
      ¬ NoLockHeld exC ∧ ¬ FinishedClean exC := by
  have hrun : (Config.init exP (Tree.new 4) exProgs).run [0, 0, 0] = (exC, none) :=
    Prod.ext rfl (by decide)
  have hheld : exC.threads.map (fun th => th.held) = [[Lk.node 0]] := by decide
  have hun : exC.unfinished = false := by decide
  have hrest := atRest_of_unfinished_false exC hun
  have hnl : ¬ NoLockHeld exC := by
    intro hq
    have : exC.threads.map (fun th => th.held) = exC.threads.map (fun _ => ([] : List Lk)) :=
      List.map_congr_left fun th hth => hq th hth
    rw [hheld] at this
    cases hthr : exC.threads with
    | nil => rw [hthr] at this; cases this
    | cons a rest => rw [hthr] at this; cases this
  refine ⟨by intro p hp; simp only [exProgs, List.mem_singleton] at hp; subst hp; decide,
    reachable_of_run _ _ _ _ Reachable.refl hrun, hrest, hnl, ?_⟩
  intro hf
  exact hnl fun th hth => hf th hth (finished_of_unfinished_false exC hun th hth)

end Gobptree.Conc

#print axioms Gobptree.Conc.nolock_tree_ok
#print axioms Gobptree.Conc.reachable_nolock_tree_ok
#print axioms Gobptree.Conc.reachable_nolock_treeInv
#print axioms Gobptree.Conc.noLockHeld_iff_owner_nil
#print axioms Gobptree.Conc.owner_nil_tree_ok
#print axioms Gobptree.Conc.noLockHeld_of_atRest
#print axioms Gobptree.Conc.idle_of_noLockHeld
#print axioms Gobptree.Conc.atRest_not_noLockHeld
