/-
  The structural invariant gives the parallel-array hypothesis of the key-order lemmas.
-/
import Gobptree.Proofs.CKZoom

namespace Gobptree.Conc
open Gobptree

variable {K V : Type}

theorem parN_of_flat : ∀ (d : Nat) (n : Node K V d),
    (∀ p ∈ flat n, 0 < p.2.height → p.2.keys.length = p.2.kids.length ∧ 1 ≤ p.2.keys.length) → ParN d n := by
  intro d
  induction d with
  | zero => intro n _; trivial
  | succ d ih =>
    intro n h
    have hself := h ((n : Inner K (Node K V d)).id, shallow n) (by rw [flat_succ]; simp) (by
      show 0 < (shallow n).height
      rw [shallow_height]; omega)
    have hk : (shallow n).kids.length = (n : Inner K (Node K V d)).kids.length := by
      show ((n : Inner K (Node K V d)).kids.map (Node.id (d := d))).length = _
      simp
    refine ⟨?_, hself.2, ?_⟩
    · have := hself.1
      rw [hk] at this
      exact this
    · intro c hc
      apply ih
      intro p hp
      apply h
      rw [flat_succ]
      exact List.mem_cons_of_mem _ (List.mem_flatMap.2 ⟨c, hc, hp⟩)

theorem parTree_of_treeOk {hole : Option Nat} {t : Tree K V} (h : TreeOk hole t) : ParTree t := by
  apply parN_of_flat
  intro p hp hpos
  have := (h.occ p hp).2.2.2 hpos
  exact ⟨this.1, this.2.1⟩

end Gobptree.Conc
