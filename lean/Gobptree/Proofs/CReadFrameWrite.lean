/-
  READ FRAME, part 3: writing a node back.  The flat view of the tree is, up to order, a
  shared rest `Z` plus the entries `E` the write replaces by `E'` (the node's own entry and the
  entries of its children; everything below the children is carried along unchanged).  If the
  two runs write the same entries, the two new trees agree wherever the old ones did.
-/
import Gobptree.Proofs.CReadFrameBase

namespace Gobptree.Conc
open Gobptree

variable {K V : Type}

/-! ### looking up after a rewrite `Z ++ E ↦ Z ++ E'` -/

theorem opt_ext {α : Type} {o1 o2 : Option α} (h : ∀ a, o1 = some a ↔ o2 = some a) : o1 = o2 := by
  cases o1 with
  | none =>
    cases o2 with
    | none => rfl
    | some b => exact ((h b).2 rfl).symm ▸ rfl
  | some a => exact ((h a).1 rfl).symm

theorem look_iff_mem {T : Tree K V} (hn : T.ids.Nodup) (x : Nat) (sh : Shallow K V) :
    T.look x = some sh ↔ (x, sh) ∈ T.flat := look_eq_some_iff hn x sh

theorem not_mem_fst_of {E : List (Nat × Shallow K V)} {x : Nat} {sh : Shallow K V}
    (h : x ∉ E.map Prod.fst) : (x, sh) ∉ E := fun hm => h (List.mem_map.2 ⟨_, hm, rfl⟩)

theorem look_rewrite {T T' : Tree K V} {Z E E' : List (Nat × Shallow K V)}
    (hp : T.flat.Perm (Z ++ E)) (hp' : T'.flat.Perm (Z ++ E')) (hn : T.ids.Nodup) (hn' : T'.ids.Nodup) :
    (∀ e ∈ E', T'.look e.1 = some e.2) ∧
    (∀ x, x ∈ E.map Prod.fst → x ∉ E'.map Prod.fst → T'.look x = none) ∧
    (∀ x, x ∉ E.map Prod.fst → x ∉ E'.map Prod.fst → T'.look x = T.look x) := by
  refine ⟨?_, ?_, ?_⟩
  · intro e he
    apply (look_iff_mem hn' e.1 e.2).2
    exact hp'.mem_iff.2 (List.mem_append_right _ he)
  · intro x hx hx'
    cases hl : T'.look x with
    | none => rfl
    | some sh =>
      exfalso
      have hm : (x, sh) ∈ Z ++ E' := hp'.mem_iff.1 ((look_iff_mem hn' x sh).1 hl)
      rcases List.mem_append.1 hm with hz | he
      · have hnd : ((Z ++ E).map Prod.fst).Nodup := (hp.map Prod.fst).nodup_iff.1 hn
        rw [List.map_append, List.nodup_append] at hnd
        exact hnd.2.2 x (List.mem_map.2 ⟨_, hz, rfl⟩) x hx rfl
      · exact not_mem_fst_of hx' he
  · intro x hx hx'
    apply opt_ext
    intro sh
    rw [look_iff_mem hn', look_iff_mem hn, hp'.mem_iff, hp.mem_iff, List.mem_append, List.mem_append]
    constructor
    · rintro (h | h)
      · exact Or.inl h
      · exact absurd h (not_mem_fst_of hx')
    · rintro (h | h)
      · exact Or.inl h
      · exact absurd h (not_mem_fst_of hx)

/-- **two runs that write the same entries**: the new trees agree on `S` if the old ones did -/
theorem rewrite_rf {S : Nat → Prop} {T1 T1' T2 T2' : Tree K V} {Z1 Z2 E1 E1' E2 E2' : List (Nat × Shallow K V)}
    (hp1 : T1.flat.Perm (Z1 ++ E1)) (hp1' : T1'.flat.Perm (Z1 ++ E1')) (hn1 : T1.ids.Nodup) (hn1' : T1'.ids.Nodup)
    (hp2 : T2.flat.Perm (Z2 ++ E2)) (hp2' : T2'.flat.Perm (Z2 ++ E2')) (hn2 : T2.ids.Nodup) (hn2' : T2'.ids.Nodup)
    (hl : ∀ id, S id → T1.look id = T2.look id)
    (hE : ∀ x, S x → (x ∈ E1.map Prod.fst ↔ x ∈ E2.map Prod.fst))
    (hE' : ∀ x, S x → ∀ sh, ((x, sh) ∈ E1' ↔ (x, sh) ∈ E2')) :
    ∀ x, S x → T1'.look x = T2'.look x := by
  obtain ⟨a1, b1, c1⟩ := look_rewrite hp1 hp1' hn1 hn1'
  obtain ⟨a2, b2, c2⟩ := look_rewrite hp2 hp2' hn2 hn2'
  intro x hx
  by_cases h1 : x ∈ E1'.map Prod.fst
  · obtain ⟨e, he, rfl⟩ := List.mem_map.1 h1
    have he2 : (e.1, e.2) ∈ E2' := (hE' e.1 hx e.2).1 he
    rw [a1 e he, a2 (e.1, e.2) he2]
  · have h2 : x ∉ E2'.map Prod.fst := by
      intro hm
      obtain ⟨e, he, rfl⟩ := List.mem_map.1 hm
      exact h1 (List.mem_map.2 ⟨_, (hE' e.1 hx e.2).2 he, rfl⟩)
    by_cases h3 : x ∈ E1.map Prod.fst
    · rw [b1 x h3 h1, b2 x ((hE x hx).1 h3) h2]
    · have h4 : x ∉ E2.map Prod.fst := fun hm => h3 ((hE x hx).2 hm)
      rw [c1 x h3 h1, c2 x h4 h2]
      exact hl x hx

/-! ### the entries of an inner node: itself, its children, what is below the children -/

def top {d : Nat} (k : Node K V d) : Nat × Shallow K V := (Node.id k, shallow k)

def tops {d : Nat} (ks : List (Node K V d)) : List (Nat × Shallow K V) := ks.map top

def tails {d : Nat} (ks : List (Node K V d)) : List (Nat × Shallow K V) := ks.flatMap ftail

theorem flatMap_flat_perm {d : Nat} (ks : List (Node K V d)) :
    (ks.flatMap flat).Perm (tops ks ++ tails ks) := by
  induction ks with
  | nil => exact List.Perm.refl _
  | cons k ks ih =>
    show (flat k ++ ks.flatMap flat).Perm (top k :: tops ks ++ (ftail k ++ tails ks))
    rw [flat_eq_cons k]
    show ((Node.id k, shallow k) :: (ftail k ++ ks.flatMap flat)).Perm
      ((Node.id k, shallow k) :: (tops ks ++ (ftail k ++ tails ks)))
    refine List.Perm.cons _ ?_
    refine (List.Perm.append_left _ ih).trans ?_
    exact List.perm_append_comm_assoc _ _ _

/-- the entries of an inner node written back: its own and its children's -/
def entries {d : Nat} (p : Inner K (Node K V d)) : List (Nat × Shallow K V) :=
  (p.id, shallow (d := d + 1) p) :: tops p.kids

theorem flat_inner_perm {d : Nat} (p : Inner K (Node K V d)) :
    (flat (d := d + 1) p).Perm (tails p.kids ++ entries p) := by
  rw [flat_inner]
  refine List.Perm.trans ?_ List.perm_middle.symm
  refine List.Perm.cons _ ?_
  exact (flatMap_flat_perm p.kids).trans List.perm_append_comm

/-- writing an inner node back whose children carry along what was below the old children -/
theorem putInner_perm {T : Tree K V} {d : Nat} {p : Node K V (d + 1)} (p' : Inner K (Node K V d))
    (h : T.find p'.id = some ⟨d + 1, p⟩) (hn : T.ids.Nodup)
    (ht : (tails p'.kids).Perm (tails (p : Inner K (Node K V d)).kids)) :
    ∃ Z, T.flat.Perm (Z ++ entries (p : Inner K (Node K V d))) ∧ (putInner T p').flat.Perm (Z ++ entries p') := by
  obtain ⟨L, R, hf, hf', _⟩ := putInner_flat p' h hn
  refine ⟨L ++ R ++ tails (p : Inner K (Node K V d)).kids, ?_, ?_⟩
  · rw [hf]
    have h1 : (L ++ flat (d := d + 1) p ++ R).Perm (L ++ R ++ flat (d := d + 1) p) := by
      rw [List.append_assoc, List.append_assoc]
      exact List.Perm.append_left _ List.perm_append_comm
    refine h1.trans ?_
    rw [List.append_assoc (L ++ R)]
    exact List.Perm.append_left _ (flat_inner_perm (p : Inner K (Node K V d)))
  · rw [hf']
    have h1 : (L ++ flat (d := d + 1) p' ++ R).Perm (L ++ R ++ flat (d := d + 1) p') := by
      rw [List.append_assoc, List.append_assoc]
      exact List.Perm.append_left _ List.perm_append_comm
    refine h1.trans ?_
    rw [List.append_assoc (L ++ R)]
    refine List.Perm.append_left _ ?_
    exact (flat_inner_perm p').trans (List.Perm.append_right _ ht)

/-! ### children of two related nodes -/

/-- two nodes with the same identity and the same own fields -/
def NRel {d : Nat} (n1 n2 : Node K V d) : Prop := Node.id n1 = Node.id n2 ∧ shallow n1 = shallow n2

theorem NRel.top_eq {d : Nat} {n1 n2 : Node K V d} (h : NRel n1 n2) : top n1 = top n2 := by
  unfold top; rw [h.1, h.2]

/-- children lists: the same identities, the same own fields where the identity is in `S` -/
def KRel (S : Nat → Prop) {d : Nat} (ks1 ks2 : List (Node K V d)) : Prop :=
  ks1.length = ks2.length ∧
  ∀ (j : Nat) (c1 c2 : Node K V d), ks1[j]? = some c1 → ks2[j]? = some c2 →
    Node.id c1 = Node.id c2 ∧ (S (Node.id c1) → shallow c1 = shallow c2)

theorem KRel.ids {S : Nat → Prop} {d : Nat} {ks1 ks2 : List (Node K V d)} (h : KRel S ks1 ks2) :
    ks1.map (Node.id (d := d)) = ks2.map (Node.id (d := d)) := by
  apply List.ext_getElem?
  intro j
  rw [List.getElem?_map, List.getElem?_map]
  cases h1 : ks1[j]? with
  | none =>
    have : ks2[j]? = none := by
      rw [List.getElem?_eq_none_iff] at h1 ⊢
      rw [← h.1]; exact h1
    rw [this]
  | some c1 =>
    have hj : j < ks2.length := by
      rw [← h.1]; exact (List.getElem?_eq_some_iff.1 h1).1
    rw [List.getElem?_eq_getElem hj]
    simp only [Option.map_some]
    rw [(h.2 j c1 _ h1 (List.getElem?_eq_getElem hj)).1]

theorem KRel.tops_iff {S : Nat → Prop} {d : Nat} {ks1 ks2 : List (Node K V d)} (h : KRel S ks1 ks2)
    (x : Nat) (hx : S x) (sh : Shallow K V) : (x, sh) ∈ tops ks1 ↔ (x, sh) ∈ tops ks2 := by
  have key : ∀ (a b : List (Node K V d)), KRel S a b → (x, sh) ∈ tops a → (x, sh) ∈ tops b := by
    intro a b hab hm
    obtain ⟨c, hc, he⟩ := List.mem_map.1 hm
    obtain ⟨j, hj⟩ := List.getElem?_of_mem hc
    have hjb : j < b.length := by
      rw [← hab.1]; exact (List.getElem?_eq_some_iff.1 hj).1
    obtain ⟨hid, hsh⟩ := hab.2 j c _ hj (List.getElem?_eq_getElem hjb)
    have hcx : Node.id c = x := congrArg Prod.fst he
    have hcs : shallow c = sh := congrArg Prod.snd he
    apply List.mem_map.2
    refine ⟨b[j], List.getElem_mem hjb, ?_⟩
    unfold top
    rw [← hid, ← hsh (by rw [hcx]; exact hx), hcx, hcs]
  have hsymm : KRel S ks2 ks1 := by
    refine ⟨h.1.symm, ?_⟩
    intro j c2 c1 h2 h1
    obtain ⟨a, b⟩ := h.2 j c1 c2 h1 h2
    exact ⟨a.symm, fun hs => (b (by rw [a]; exact hs)).symm⟩
  exact ⟨key _ _ h, key _ _ hsymm⟩

/-- the children of two nodes found under a held identity in two related trees -/
theorem krel_of_find {S : Nat → Prop} {R : Prop} {T1 T2 : Tree K V} (h : TRel S R T1 T2)
    (hn1 : T1.ids.Nodup) (hn2 : T2.ids.Nodup) {n d : Nat} {p1 p2 : Inner K (Node K V d)}
    (hf1 : T1.find n = some ⟨d + 1, p1⟩) (hf2 : T2.find n = some ⟨d + 1, p2⟩)
    (hsh : shallow (d := d + 1) p1 = shallow (d := d + 1) p2) : KRel S p1.kids p2.kids := by
  obtain ⟨_, hk⟩ := inner_of_shallow hsh
  have hlen : p1.kids.length = p2.kids.length := by
    have := congrArg List.length hk
    simpa using this
  refine ⟨hlen, ?_⟩
  intro j c1 c2 h1 h2
  have hid : Node.id c1 = Node.id c2 := by
    have := congrArg (fun l => l[j]?) hk
    simp only [List.getElem?_map, h1, h2, Option.map_some, Option.some.injEq] at this
    exact this
  refine ⟨hid, ?_⟩
  intro hs
  have hl1 : T1.look (Node.id c1) = some (shallow c1) := by
    obtain ⟨_, _, L, R, hfl⟩ := find_facts hf1
    apply (look_iff_mem hn1 _ _).2
    rw [hfl]
    exact List.mem_append_left _ (List.mem_append_right _ (kid_mem_flat p1 c1 (List.mem_of_getElem? h1)))
  have hl2 : T2.look (Node.id c2) = some (shallow c2) := by
    obtain ⟨_, _, L, R, hfl⟩ := find_facts hf2
    apply (look_iff_mem hn2 _ _).2
    rw [hfl]
    exact List.mem_append_left _ (List.mem_append_right _ (kid_mem_flat p2 c2 (List.mem_of_getElem? h2)))
  have := h.look _ hs
  rw [hl1, hid, hl2] at this
  exact Option.some.inj this

/-! ### writing back in the two runs -/

theorem putInner_rf {S : Nat → Prop} {R : Prop} {T1 T2 : Tree K V} (hT : TRel S R T1 T2)
    {n d : Nat} {p1 p2 p1' p2' : Inner K (Node K V d)}
    (hf1 : T1.find n = some ⟨d + 1, p1⟩) (hf2 : T2.find n = some ⟨d + 1, p2⟩)
    (hid1 : p1'.id = n) (hid2 : p2'.id = n)
    (hn1 : T1.ids.Nodup) (hn2 : T2.ids.Nodup)
    (hn1' : (putInner T1 p1').ids.Nodup) (hn2' : (putInner T2 p2').ids.Nodup)
    (ht1 : (tails p1'.kids).Perm (tails p1.kids)) (ht2 : (tails p2'.kids).Perm (tails p2.kids))
    (hsh : shallow (d := d + 1) p1 = shallow (d := d + 1) p2)
    (hsh' : shallow (d := d + 1) p1' = shallow (d := d + 1) p2')
    (hk' : KRel S p1'.kids p2'.kids) :
    TRel S R (putInner T1 p1') (putInner T2 p2') := by
  have hf1' : T1.find p1'.id = some ⟨d + 1, p1⟩ := by rw [hid1]; exact hf1
  have hf2' : T2.find p2'.id = some ⟨d + 1, p2⟩ := by rw [hid2]; exact hf2
  obtain ⟨Z1, hp1, hp1'⟩ := putInner_perm p1' hf1' hn1 ht1
  obtain ⟨Z2, hp2, hp2'⟩ := putInner_perm p2' hf2' hn2 ht2
  obtain ⟨_, _, _, _, hr1, hd1, hni1, ho1⟩ := putInner_flat p1' hf1' hn1
  obtain ⟨_, _, _, _, hr2, hd2, hni2, ho2⟩ := putInner_flat p2' hf2' hn2
  have hidp1 : p1.id = n := (find_facts hf1).1
  have hidp2 : p2.id = n := (find_facts hf2).1
  refine ⟨by rw [ho1, ho2]; exact hT.order, by rw [hni1, hni2]; exact hT.nextId, ?_, ?_⟩
  · refine rewrite_rf hp1 hp1' hn1 hn1' hp2 hp2' hn2 hn2' hT.look ?_ ?_
    · intro x _
      have : (entries p1).map Prod.fst = (entries p2).map Prod.fst := by
        show p1.id :: (p1.kids.map top).map Prod.fst = p2.id :: (p2.kids.map top).map Prod.fst
        rw [hidp1, hidp2, List.map_map, List.map_map]
        exact congrArg _ (inner_of_shallow hsh).2
      rw [this]
    · intro x hx sh
      show (x, sh) ∈ (p1'.id, shallow (d := d + 1) p1') :: tops p1'.kids ↔
        (x, sh) ∈ (p2'.id, shallow (d := d + 1) p2') :: tops p2'.kids
      rw [List.mem_cons, List.mem_cons, hid1, hid2, hsh', hk'.tops_iff x hx sh]
  · intro hR
    rw [hr1, hr2, hd1, hd2]
    exact hT.root hR

/-- the own fields after writing a leaf back -/
theorem putLeaf_perm {T : Tree K V} {l : Node K V 0} (l' : Leaf K V)
    (h : T.find l'.id = some ⟨0, l⟩) (hn : T.ids.Nodup) :
    ∃ Z, T.flat.Perm (Z ++ [((l : Leaf K V).id, shallow (d := 0) l)]) ∧
      (putLeaf T l').flat.Perm (Z ++ [(l'.id, shallow (d := 0) l')]) := by
  obtain ⟨L, R, hf, hf', _⟩ := putLeaf_flat l' h hn
  refine ⟨L ++ R, ?_, ?_⟩
  · rw [hf, List.append_assoc, List.append_assoc]
    exact List.Perm.append_left _ List.perm_append_comm
  · rw [hf', List.append_assoc, List.append_assoc]
    exact List.Perm.append_left _ List.perm_append_comm

theorem putLeaf_ids {T : Tree K V} {l : Node K V 0} (l' : Leaf K V)
    (h : T.find l'.id = some ⟨0, l⟩) (hn : T.ids.Nodup) : (putLeaf T l').ids = T.ids := by
  obtain ⟨L, R, hf, hf', _⟩ := putLeaf_flat l' h hn
  have hid : (l : Leaf K V).id = l'.id := (find_facts h).1
  unfold Tree.ids
  rw [hf, hf']
  simp only [List.map_append]
  show _ ++ [l'.id] ++ _ = _ ++ [(l : Leaf K V).id] ++ _
  rw [hid]

theorem putLeaf_rf {S : Nat → Prop} {R : Prop} {T1 T2 : Tree K V} (hT : TRel S R T1 T2)
    {l1 l2 : Leaf K V} (l' : Leaf K V)
    (hf1 : T1.find l'.id = some ⟨0, l1⟩) (hf2 : T2.find l'.id = some ⟨0, l2⟩)
    (hn1 : T1.ids.Nodup) (hn2 : T2.ids.Nodup) :
    TRel S R (putLeaf T1 l') (putLeaf T2 l') := by
  obtain ⟨Z1, hp1, hp1'⟩ := putLeaf_perm l' hf1 hn1
  obtain ⟨Z2, hp2, hp2'⟩ := putLeaf_perm l' hf2 hn2
  obtain ⟨_, _, _, _, hr1, hd1, hni1, ho1⟩ := putLeaf_flat l' hf1 hn1
  obtain ⟨_, _, _, _, hr2, hd2, hni2, ho2⟩ := putLeaf_flat l' hf2 hn2
  have hn1' : (putLeaf T1 l').ids.Nodup := by rw [putLeaf_ids l' hf1 hn1]; exact hn1
  have hn2' : (putLeaf T2 l').ids.Nodup := by rw [putLeaf_ids l' hf2 hn2]; exact hn2
  have hid1 : Node.id (d := 0) l1 = l'.id := (find_facts hf1).1
  have hid2 : Node.id (d := 0) l2 = l'.id := (find_facts hf2).1
  refine ⟨by rw [ho1, ho2]; exact hT.order, by rw [hni1, hni2]; exact hT.nextId, ?_, ?_⟩
  · refine rewrite_rf hp1 hp1' hn1 hn1' hp2 hp2' hn2 hn2' hT.look ?_ ?_
    · intro x _
      simp only [List.map_cons, List.map_nil]
      rw [hid1, hid2]
    · intro x _ sh
      exact Iff.rfl
  · intro hR
    rw [hr1, hr2, hd1, hd2]
    exact hT.root hR

end Gobptree.Conc
