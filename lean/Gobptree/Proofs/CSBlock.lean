/-
  Interface between the per-block lemmas (what one uninterrupted stretch of a thread's
  code does to the structural invariant) and the step-level assembly.
-/
import Gobptree.Proofs.CSFlat

namespace Gobptree.Conc
open Gobptree

variable {K V : Type}

theorem NodeOcc.mono {o m m' : Nat} {sh : Shallow K V} (h : NodeOcc o m sh) (hm : m' ≤ m) : NodeOcc o m' sh :=
  ⟨h.1, Nat.le_trans hm h.2.1, h.2.2⟩

/-- what a stretch of code may assume of the state it starts in -/
structure Pre (P : Params K) (hole : Option Nat) (s : St K V) : Prop where
  tree  : TreeOk hole s.tree
  order : s.tree.order = P.order
  pad   : PadOk P

def kontHole : Kont K V → Option Nat
  | .delRight _ _ fr _ _ => some fr.child
  | _ => none

def flowHole : Flow K V → Option Nat
  | .park p => parkHole p
  | _ => none

def isHopK : Kont K V → Bool
  | .hop _ _ => true
  | _ => false

/-- continuations of `Delete` -/
def isDelK : Kont K V → Bool
  | .delTree _ => true
  | .delRoot _ _ => true
  | .delLeft _ _ _ _ _ _ => true
  | .delChild _ _ _ _ _ _ _ => true
  | .delRight _ _ _ _ _ => true
  | _ => false

def isDelPark : Park K V → Bool
  | .want _ k => isDelK k
  | .yielded k => isDelK k
  | _ => false

def flowIsHop : Flow K V → Bool
  | .park p => isHop p
  | _ => false

/-- a block parks only at a `Lock()` or at a yield -/
def parkLive : Park K V → Prop
  | .want _ _ => True
  | .yielded _ => True
  | _ => False

/-- `H` contains every mutex the thread holds while it runs continuation `k`: what it held
    when it parked, the mutex it was granted, and its cursor's leaf -/
def Covers (H : List Lk) (cursor : Option (Option Nat × Int)) (k : Kont K V) : Prop :=
  (∀ l ∈ kontHeld k, l ∈ H) ∧ (∀ l, kontLock k = some l → l ∈ H) ∧ (∀ l ∈ cursorLocks cursor, l ∈ H)

/-- what a stretch of code run by a thread that never holds more than `H` guarantees:
    no panic; the tree invariant (with the hole the outcome prescribes); every node whose
    mutex is not in `H` and that existed before keeps its own fields, in place (`frame`);
    the root pointer moves only under `rootMutex`; the continuation it parks with is
    consistent with the NEW tree, and whatever that continuation relies on without
    holding it was allocated by this very stretch (`extra`). -/
structure Post (H : List Lk) (hole' : Option Nat) (s s' : St K V) (fl : Flow K V) : Prop where
  nopanic : fl ≠ .panic
  tree    : TreeOk hole' s'.tree
  frame   : FrameEq (keepOf H s.tree.nextId) s.tree.flat s'.tree.flat
  nextId  : s.tree.nextId ≤ s'.tree.nextId
  root    : Lk.tree ∈ H ∨ (s'.tree.rootId = s.tree.rootId ∧ s'.tree.depth = s.tree.depth)
  order   : s'.tree.order = s.tree.order
  kont    : ∀ p, fl = .park p → parkKontOk s'.tree p ∧ ParkPre s'.cursor p ∧
              ∀ x ∈ parkExtra s'.tree p, s.tree.nextId ≤ x
  cursor  : CursorOk s'.tree false s'.cursor

end Gobptree.Conc
