/-
  Monotonicity of `WF`, key bounds of `pairs`, list surgery on zipped children.
-/
import Gobptree.Proofs.WFLemmas

namespace Gobptree

variable {K V : Type} {lt : K → K → Bool}

theorem WF_mono_m {o : Nat} {d : Nat} {m m' : Nat} {lo hi : Option K} {n : Node K V d}
    (hm : m' ≤ m) (hw : WF lt o d m lo hi n) : WF lt o d m' lo hi n := by
  cases d with
  | zero =>
    obtain ⟨a, b, c, e, f⟩ := hw
    exact ⟨a, b, c, by omega, f⟩
  | succ d =>
    obtain ⟨a, b, c, e, f, g⟩ := hw
    exact ⟨a, b, by omega, e, f, g⟩

theorem WF_mono_hi (h : SWO lt) {o : Nat} : ∀ {d : Nat} {m : Nat} {lo hi hi' : Option K} {n : Node K V d},
    hiLe lt hi hi' → WF lt o d m lo hi n → WF lt o d m lo hi' n := by
  intro d
  induction d with
  | zero =>
    intro m lo hi hi' n hh hw
    obtain ⟨a, b, c, e, f⟩ := hw
    exact ⟨a, b, c, e, fun k hk => ⟨(f k hk).1, ltO_mono h hh (f k hk).2⟩⟩
  | succ d ih =>
    intro m lo hi hi' n hh hw
    obtain ⟨a, b, c, e, f, g⟩ := hw
    refine ⟨a, b, c, e, f, ?_⟩
    exact Kids_mono_hi (R := fun a b c => WF lt o d (o / 2) a b c) h (fun a b b' c hb hr => ih hb hr) hh _ g

theorem WF_mono_lo (h : SWO lt) {o : Nat} {d : Nat} {m : Nat} {lo lo' hi : Option K} {n : Node K V d}
    (hh : loLe lt lo' lo) (hw : WF lt o d m lo hi n) : WF lt o d m lo' hi n := by
  cases d with
  | zero =>
    obtain ⟨a, b, c, e, f⟩ := hw
    exact ⟨a, b, c, e, fun k hk => ⟨leO_mono h hh (f k hk).1, (f k hk).2⟩⟩
  | succ d =>
    obtain ⟨a, b, c, e, f, g⟩ := hw
    exact ⟨a, b, c, e, fun k hk => leO_mono h hh (f k hk), g⟩

/-! ### zipped children -/

section zipped
variable {C : Type}

theorem zip_surgery (rA rB : List K) (cA cB : List C) (hl : rA.length = cA.length) :
    (rA ++ rB).zip (cA ++ cB) = rA.zip cA ++ rB.zip cB :=
  List.zip_append hl

theorem zip_split (runts : List K) (kids : List C) (hlen : runts.length = kids.length)
    (j : Nat) (hj : j < kids.length) :
    runts.zip kids = (runts.take j).zip (kids.take j) ++
      (runts[j]'(by omega), kids[j]) :: (runts.drop (j + 1)).zip (kids.drop (j + 1)) := by
  have hjr : j < runts.length := by omega
  have e1 : (runts.take j ++ runts.drop j).zip (kids.take j ++ kids.drop j)
      = (runts.take j).zip (kids.take j) ++ (runts.drop j).zip (kids.drop j) :=
    zip_surgery _ _ _ _ (by simp [List.length_take]; omega)
  rw [List.take_append_drop, List.take_append_drop] at e1
  rw [e1, List.drop_eq_getElem_cons hjr, List.drop_eq_getElem_cons hj, List.zip_cons_cons]

theorem map_snd_zip_eq (runts : List K) (kids : List C) (hlen : runts.length = kids.length) :
    (runts.zip kids).map Prod.snd = kids :=
  List.map_snd_zip (by omega)

theorem map_fst_zip_eq (runts : List K) (kids : List C) (hlen : runts.length = kids.length) :
    (runts.zip kids).map Prod.fst = runts :=
  List.map_fst_zip (by omega)

end zipped

/-- pairs below a list of (separator, child) entries -/
def pairsE {d : Nat} (es : List (K × Node K V d)) : List (K × V) :=
  es.flatMap (fun e => Node.pairs e.2)

theorem pairsE_append {d : Nat} (a b : List (K × Node K V d)) : pairsE (a ++ b) = pairsE a ++ pairsE b := by
  simp [pairsE]

theorem pairsE_cons {d : Nat} (k : K) (c : Node K V d) (b : List (K × Node K V d)) :
    pairsE ((k, c) :: b) = Node.pairs c ++ pairsE b := by
  simp [pairsE]

theorem pairs_inner_eq {d : Nat} (i : Inner K (Node K V d)) (hlen : i.runts.length = i.kids.length) :
    Node.pairs (d := d + 1) i = pairsE (i.runts.zip i.kids) := by
  unfold pairsE
  show i.kids.flatMap (Node.pairs (d := d)) = _
  conv => lhs; rw [← map_snd_zip_eq i.runts i.kids hlen]
  rw [List.flatMap_map]

/-- key bounds of everything stored beneath a well-formed node -/
theorem WF_pairs_bounds (h : SWO lt) {o : Nat} : ∀ {d : Nat} {m : Nat} {lo hi : Option K} {n : Node K V d},
    WF lt o d m lo hi n → ∀ p ∈ Node.pairs n, leO lt lo p.1 ∧ ltO lt p.1 hi := by
  intro d
  induction d with
  | zero =>
    intro m lo hi n hw p hp
    obtain ⟨_, _, _, _, f⟩ := hw
    have : p.1 ∈ (n : Leaf K V).keys := by
      have := List.of_mem_zip hp
      exact this.1
    exact f p.1 this
  | succ d ih =>
    intro m lo hi n hw p hp
    obtain ⟨hlen, _, _, hne, hlo, hk⟩ := hw
    rw [pairs_inner_eq n hlen] at hp
    -- generic statement over the entry list
    have key : ∀ (es : List (K × Node K V d)) (hi : Option K),
        Kids lt (fun a b c => WF lt o d (o / 2) a b c) hi es →
        ∀ p ∈ pairsE es, (∀ k0, (es.head?.map Prod.fst) = some k0 → lt p.1 k0 = false) ∧ ltO lt p.1 hi := by
      intro es
      induction es with
      | nil => intro hi _ p hp; simp [pairsE] at hp
      | cons e es ihe =>
        obtain ⟨k, c⟩ := e
        intro hi hk p hp
        have hhead := Kids_head_le h hi k c es hk
        have hkeys := Kids_keys_lt h hi _ hk
        obtain ⟨hc, hklt, hrest⟩ := hk
        rw [pairsE_cons] at hp
        cases List.mem_append.mp hp with
        | inl hpc =>
          have hb := ih hc p hpc
          refine ⟨fun k0 hk0 => ?_, ?_⟩
          · simp at hk0; subst hk0; exact hb.1
          · -- p.1 < nextLo ≤ hi
            cases es with
            | nil => exact hb.2
            | cons e2 es2 =>
              obtain ⟨k2, c2⟩ := e2
              have h2 : ltO lt k2 hi := hkeys (k2, c2) (by simp)
              have hb2 : lt p.1 k2 = true := hb.2
              cases hi with
              | none => trivial
              | some u => exact h.trans _ _ _ hb2 h2
        | inr hpr =>
          have hb := ihe hi hrest p hpr
          refine ⟨fun k0 hk0 => ?_, hb.2⟩
          simp at hk0; subst hk0
          -- p.1 ≥ head of es > k
          cases es with
          | nil => simp [pairsE] at hpr
          | cons e2 es2 =>
            obtain ⟨k2, c2⟩ := e2
            have h1 : lt p.1 k2 = false := hb.1 k2 (by simp)
            have h2 : lt k k2 = true := hhead (k2, c2) (by simp)
            exact h.le_of_lt (h.lt_of_lt_of_le h2 h1)
    have hb := key _ hi hk p hp
    refine ⟨?_, hb.2⟩
    -- lo ≤ first separator ≤ p.1
    cases hz : n.runts.zip n.kids with
    | nil => rw [hz] at hp; simp [pairsE] at hp
    | cons e es =>
      obtain ⟨k0, c0⟩ := e
      have h0 : lt p.1 k0 = false := hb.1 k0 (by rw [hz]; rfl)
      have hh : n.runts.head? = some k0 := by
        have := map_fst_zip_eq n.runts n.kids hlen
        rw [hz] at this
        rw [← this]; rfl
      exact leO_trans h (hlo k0 hh) h0

end Gobptree
