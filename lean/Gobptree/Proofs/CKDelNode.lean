/-
  Key-order proofs for Delete, part 2: the three sibling operations (`adoptFromRight`,
  `adoptFromLeft`, `absorbRight`) on two adjacent `Ord` kids: the results are `Ord` around the
  refreshed separator, hold the same pairs, and every identity below them other than the two
  siblings keeps its interval or gets a wider one.
-/
import Gobptree.Proofs.CKDelBounds
import Gobptree.Proofs.Siblings

namespace Gobptree.Conc
open Gobptree

variable {K V : Type} {lt : K → K → Bool}

/-- outcome of a borrow between adjacent kids `c1` (separator `k1`) and `c2` (separator `k2`,
    upper end `nx`): the new separator of the right-hand node is `s` -/
structure BorrowOut (lt : K → K → Bool) {d : Nat} (k1 k2 s : K) (nx : Option K)
    (c1 c2 c1' c2' : Node K V d) : Prop where
  id1 : Node.id c1' = Node.id c1
  id2 : Node.id c2' = Node.id c2
  ord1 : Ord lt d (some k1) (some s) c1'
  ord2 : Ord lt d (some s) nx c2'
  lt1 : lt k1 s = true
  lt2 : ltO lt s nx
  par1 : ParN d c1'
  par2 : ParN d c2'
  pairs : Node.pairs c1' ++ Node.pairs c2' = Node.pairs c1 ++ Node.pairs c2
  bnd : ∀ x, x ≠ Node.id c1 → x ≠ Node.id c2 →
    OW lt ((boundsOf x d (some k1) (some k2) c1).or (boundsOf x d (some k2) nx c2))
          ((boundsOf x d (some k1) (some s) c1').or (boundsOf x d (some s) nx c2'))

/-- outcome of a merge of adjacent kids `a` (separator `k1`) and `b` (separator `k2`) -/
structure MergeOut (lt : K → K → Bool) {d : Nat} (k1 k2 : K) (nx : Option K)
    (a b m : Node K V d) : Prop where
  id : Node.id m = Node.id a
  ord : Ord lt d (some k1) nx m
  par : ParN d m
  pairs : Node.pairs m = Node.pairs a ++ Node.pairs b
  bnd : ∀ x, x ≠ Node.id a → x ≠ Node.id b →
    OW lt ((boundsOf x d (some k1) (some k2) a).or (boundsOf x d (some k2) nx b))
          (boundsOf x d (some k1) nx m)

theorem boundsOf_leaf_ne (x : Nat) (a b : Option K) (l : Node K V 0) (hne : x ≠ Node.id l) :
    boundsOf x 0 a b l = none :=
  boundsOf_zero_ne x a b l (fun e => hne e.symm)

theorem boundsOf_mk_ne (x : Nat) {d : Nat} (lo hi : Option K) (nid : Nat) (rs : List K)
    (ks : List (Node K V d)) (hne : x ≠ nid) :
    boundsOf x (d + 1) lo hi (Inner.mk nid rs ks : Inner K (Node K V d)) =
      firstE (boundsOf x d) hi (rs.zip ks) :=
  boundsOf_succ_ne x lo hi _ (fun e => hne e.symm)

theorem OW_leaf4 (x : Nat) (l1 l2 l1' l2' : Node K V 0) (a1 b1 a2 b2 a3 b3 a4 b4 : Option K)
    (h1 : x ≠ Node.id l1) (h2 : x ≠ Node.id l2) (h3 : Node.id l1' = Node.id l1) (h4 : Node.id l2' = Node.id l2) :
    OW lt ((boundsOf x 0 a1 b1 l1).or (boundsOf x 0 a2 b2 l2))
      ((boundsOf x 0 a3 b3 l1').or (boundsOf x 0 a4 b4 l2')) := by
  rw [boundsOf_leaf_ne x a1 b1 l1 h1, boundsOf_leaf_ne x a2 b2 l2 h2,
    boundsOf_leaf_ne x a3 b3 l1' (by rw [h3]; exact h1), boundsOf_leaf_ne x a4 b4 l2' (by rw [h4]; exact h2)]
  rfl

theorem OW_leaf3 (x : Nat) (l1 l2 m : Node K V 0) (a1 b1 a2 b2 a3 b3 : Option K)
    (h1 : x ≠ Node.id l1) (h2 : x ≠ Node.id l2) (h3 : Node.id m = Node.id l1) :
    OW lt ((boundsOf x 0 a1 b1 l1).or (boundsOf x 0 a2 b2 l2)) (boundsOf x 0 a3 b3 m) := by
  rw [boundsOf_leaf_ne x a1 b1 l1 h1, boundsOf_leaf_ne x a2 b2 l2 h2,
    boundsOf_leaf_ne x a3 b3 m (by rw [h3]; exact h1)]
  rfl

/-- `boundsOf` is monotone in the upper end, as needed under `firstE_mono` -/
theorem boundsOf_hi_mono (h : SWO lt) (x d : Nat) (es : List (K × Node K V d)) :
    ∀ e ∈ es, ∀ a b b', hiLe lt b b' → OW lt (boundsOf x d a b e.2) (boundsOf x d a b' e.2) :=
  fun e _ a b b' hb => boundsOf_mono h x d e.2 a b a b' (loLe_refl h a) hb

theorem head?_append_cons {α : Type} (a : List α) (x : α) (b c : List α) :
    (a ++ x :: b).head? = (a ++ x :: c).head? := by
  cases a <;> rfl

/-! ### borrow from the right -/

theorem adoptFromRight_pair (h : SWO lt) : ∀ {d : Nat} (c r : Node K V d) (k1 k2 : K) (nx : Option K),
    Ord lt d (some k1) (some k2) c → Ord lt d (some k2) nx r → lt k1 k2 = true →
    Par (shallow c) → Par (shallow r) → ParN d c → ParN d r → 2 ≤ Node.count r →
    ∃ c' r' s, Node.adoptFromRight c r = .ok (c', r') ∧ Node.smallest r' = .ok s ∧
      BorrowOut lt k1 k2 s nx c r c' r' := by
  intro d
  cases d with
  | zero =>
    intro c r k1 k2 nx hOc hOr h12 hc hr _ _ h2
    obtain ⟨cid, ckeys, cvals, cnext⟩ := (c : Leaf K V)
    obtain ⟨rid, rkeys, rvals, rnext⟩ := (r : Leaf K V)
    rw [par_leaf] at hr hc
    obtain ⟨cs, cb⟩ := hOc
    obtain ⟨rs, rb⟩ := hOr
    simp only at hr hc cs cb rs rb
    have h2' : 2 ≤ rkeys.length := h2
    match rkeys, rvals, hr, h2', rs, rb with
    | k0 :: s :: ks, v0 :: v1 :: vs, hr, _, rs, rb =>
      have hk0 : lt k0 k2 = false := (rb k0 (by simp)).1
      have hk0s : lt k0 s = true := (List.pairwise_cons.mp rs).1 s (by simp)
      have hrs' : Sorted lt (s :: ks) := (List.pairwise_cons.mp rs).2
      have hck0 : ∀ k ∈ ckeys, lt k k0 = true := fun k hk => h.lt_of_lt_of_le (cb k hk).2 hk0
      have hk1k0 : lt k1 k0 = true := h.lt_of_lt_of_le h12 hk0
      refine ⟨({ id := cid, keys := ckeys ++ [k0], vals := cvals ++ [v0], next := cnext } : Leaf K V),
        ({ id := rid, keys := s :: ks, vals := v1 :: vs, next := rnext } : Leaf K V), s, ?_, rfl, ?_⟩
      · simp [Node.adoptFromRight, popFrontIdiom_eq]; rfl
      · refine ⟨rfl, rfl, ⟨sorted_append_singleton cs hck0, ?_⟩, ⟨hrs', ?_⟩, h.trans _ _ _ hk1k0 hk0s,
          (rb s (by simp)).2, trivial, trivial, ?_, ?_⟩
        · intro k hk
          rcases List.mem_append.mp hk with hm | hm
          · exact ⟨(cb k hm).1, h.trans _ _ _ (hck0 k hm) hk0s⟩
          · simp only [List.mem_singleton] at hm
            subst hm
            exact ⟨h.le_of_lt hk1k0, hk0s⟩
        · intro k hk
          refine ⟨?_, (rb k (List.mem_cons_of_mem _ hk)).2⟩
          rcases List.mem_cons.mp hk with e | hm
          · subst e; exact h.irrefl _
          · exact h.le_of_lt ((List.pairwise_cons.mp hrs').1 k hm)
        · show (ckeys ++ [k0]).zip (cvals ++ [v0]) ++ (s :: ks).zip (v1 :: vs) =
            ckeys.zip cvals ++ (k0 :: s :: ks).zip (v0 :: v1 :: vs)
          rw [zip_surgery _ _ _ _ hc]
          simp
        · intro x hx1 hx2
          exact OW_leaf4 x _ _ _ _ _ _ _ _ _ _ _ _ hx1 hx2 rfl rfl
  | succ d =>
    intro c r k1 k2 nx hOc hOr h12 hc hr hPc hPr h2
    obtain ⟨cid, cr, ck⟩ := (c : Inner K (Node K V d))
    obtain ⟨rid, rr, rk⟩ := (r : Inner K (Node K V d))
    rw [par_inner] at hr hc
    obtain ⟨chd, cK⟩ := hOc
    obtain ⟨rhd, rK⟩ := hOr
    obtain ⟨_, _, cPk⟩ := hPc
    obtain ⟨_, _, rPk⟩ := hPr
    simp only at hr hc chd cK rhd rK cPk rPk
    have h2' : 2 ≤ rr.length := h2
    match rr, rk, hr, h2', rhd, rK, rPk with
    | r0 :: r1 :: rs, x0 :: x1 :: xs, hr, _, rhd, rK, rPk =>
      have rK2 : Kids lt (fun a b c => Ord lt d a b c) nx ((r0, x0) :: (r1, x1) :: rs.zip xs) := rK
      obtain ⟨hx0, h01, rK'⟩ := rK2
      have hx0' : Ord lt d (some r0) (some r1) x0 := hx0
      have h01' : lt r0 r1 = true := h01
      have hr0 : lt r0 k2 = false := rhd r0 rfl
      have hk1r0 : lt k1 r0 = true := h.lt_of_lt_of_le h12 hr0
      have hcne : cr ≠ [] := by
        intro e; rw [e] at hc; simp at hc
      refine ⟨({ id := cid, runts := cr ++ [r0], kids := ck ++ [x0] } : Inner K (Node K V d)),
        ({ id := rid, runts := r1 :: rs, kids := x1 :: xs } : Inner K (Node K V d)), r1, ?_, rfl, ?_⟩
      · simp [Node.adoptFromRight, popFrontIdiom_eq]; rfl
      · refine ⟨rfl, rfl, ⟨?_, ?_⟩, ⟨?_, rK'⟩, h.trans _ _ _ hk1r0 h01',
          Kids_keys_lt h nx _ rK' (r1, x1) (by simp), ⟨?_, ?_, ?_⟩, ⟨?_, ?_, ?_⟩, ?_, ?_⟩
        · intro k hk
          apply chd k
          cases cr with
          | nil => exact absurd rfl hcne
          | cons a cr' => exact hk
        · show Kids lt (fun a b c => Ord lt d a b c) (some r1) ((cr ++ [r0]).zip (ck ++ [x0]))
          rw [zip_surgery _ _ _ _ hc.1, Kids_append]
          refine ⟨?_, hx0', h01', trivial⟩
          exact Kids_mono_hi (R := fun a b c => Ord lt d a b c) h
            (fun a b b' c hb hr => Ord_mono_hi h hb hr) (hi := some k2) (hi' := some r0) hr0 _ cK
        · intro k hk
          have : r1 = k := by simpa using hk
          subst this
          exact h.irrefl _
        · show (cr ++ [r0]).length = (ck ++ [x0]).length
          simp [hc.1]
        · show 1 ≤ (cr ++ [r0]).length
          simp
        · intro y hy
          have hy' : y ∈ ck ++ [x0] := hy
          rcases List.mem_append.1 hy' with hy' | hy'
          · exact cPk y hy'
          · simp only [List.mem_singleton] at hy'
            subst hy'
            exact rPk _ (by simp)
        · show (r1 :: rs).length = (x1 :: xs).length
          simpa using hr.1
        · show 1 ≤ (r1 :: rs).length
          simp
        · intro y hy
          exact rPk y (List.mem_cons_of_mem _ hy)
        · show (ck ++ [x0]).flatMap (Node.pairs (d := d)) ++ (x1 :: xs).flatMap (Node.pairs (d := d)) =
            ck.flatMap (Node.pairs (d := d)) ++ (x0 :: x1 :: xs).flatMap (Node.pairs (d := d))
          simp
        · intro x hx1 hx2
          have hx1' : x ≠ cid := hx1
          have hx2' : x ≠ rid := hx2
          rw [boundsOf_mk_ne x _ _ cid cr ck hx1', boundsOf_mk_ne x _ _ rid _ _ hx2',
            boundsOf_mk_ne x _ _ cid _ _ hx1', boundsOf_mk_ne x _ _ rid _ _ hx2']
          rw [zip_surgery _ _ _ _ hc.1, firstE_append_or]
          show OW lt ((firstE (boundsOf x d) (some k2) (cr.zip ck)).or
              (firstE (boundsOf x d) nx ((r0, x0) :: (r1, x1) :: rs.zip xs)))
            (((firstE (boundsOf x d) (some r0) (cr.zip ck)).or
              (firstE (boundsOf x d) (some r1) [(r0, x0)])).or
              (firstE (boundsOf x d) nx ((r1, x1) :: rs.zip xs)))
          rw [firstE_cons_or, firstE_cons_or (rest := []), firstE_nil, Option.or_none, Option.or_assoc]
          exact OW.or (firstE_mono h _ _ (boundsOf_hi_mono h x d _) (hi := some k2) (hi2 := some r0) hr0)
            (OW.refl h _)

/-! ### borrow from the left -/

theorem adoptFromLeft_pair (h : SWO lt) (P : Params K) (hp : PadOk P) :
    ∀ {d : Nat} (l c : Node K V d) (k1 k2 : K) (nx : Option K),
    Ord lt d (some k1) (some k2) l → Ord lt d (some k2) nx c → ltO lt k2 nx →
    Par (shallow l) → Par (shallow c) → ParN d l → ParN d c → 2 ≤ Node.count l → 1 ≤ Node.count c →
    ∃ l' c' s, Node.adoptFromLeft P l c = .ok (l', c') ∧ Node.smallest c' = .ok s ∧
      BorrowOut lt k1 k2 s nx l c l' c' := by
  intro d
  cases d with
  | zero =>
    intro l c k1 k2 nx hOl hOc h2n hl hc _ _ h2 h1
    obtain ⟨lid, lkeys, lvals, lnext⟩ := (l : Leaf K V)
    obtain ⟨cid, ckeys, cvals, cnext⟩ := (c : Leaf K V)
    rw [par_leaf] at hl hc
    obtain ⟨ls, lb⟩ := hOl
    obtain ⟨cs, cb⟩ := hOc
    simp only at hl hc ls lb cs cb
    have h2' : 2 ≤ lkeys.length := h2
    have h1' : 1 ≤ ckeys.length := h1
    obtain ⟨lk0, s, rfl⟩ := snoc_of_pos lkeys (by omega)
    obtain ⟨lv0, v, rfl⟩ := snoc_of_pos lvals (by omega)
    have hlen : lk0.length = lv0.length := by simpa using hl
    have ls2 := List.pairwise_append.mp ls
    have hsk2 : lt s k2 = true := (lb s (by simp)).2
    have hsn : ltO lt s nx := ltO_of_lt h hsk2 h2n
    have hsc : ∀ x ∈ ckeys, lt s x = true := fun x hx => h.lt_of_lt_of_le hsk2 (cb x hx).1
    have hk1s : lt k1 s = true := by
      cases lk0 with
      | nil => simp at h2'
      | cons a lk0' =>
        have h1 : lt a k1 = false := (lb a (by simp)).1
        have h2 : lt a s = true := ls2.2.2 a (by simp) s (by simp)
        exact h.lt_of_le_of_lt h1 h2
    match ckeys, h1', cs, cb, hsc with
    | ck :: cks, _, cs, cb, hsc =>
      cases hpad : P.pad (some ck) with
      | none => exact absurd hpad (hp ck)
      | some pad =>
        refine ⟨({ id := lid, keys := lk0, vals := lv0, next := lnext } : Leaf K V),
          ({ id := cid, keys := s :: ck :: cks, vals := v :: cvals, next := cnext } : Leaf K V), s,
          ?_, rfl, ?_⟩
        · simp [Node.adoptFromLeft, hpad, pushFrontIdiom_eq, hlen]; rfl
        · refine ⟨rfl, rfl, ⟨ls2.1, ?_⟩, ⟨List.pairwise_cons.mpr ⟨hsc, cs⟩, ?_⟩, hk1s, hsn, trivial, trivial, ?_, ?_⟩
          · intro k hk
            exact ⟨(lb k (by simp [hk])).1, ls2.2.2 k hk s (by simp)⟩
          · intro k hk
            rcases List.mem_cons.mp hk with e | hm
            · subst e; exact ⟨h.irrefl _, hsn⟩
            · exact ⟨h.le_of_lt (hsc k hm), (cb k hm).2⟩
          · show lk0.zip lv0 ++ (s :: ck :: cks).zip (v :: cvals) =
              (lk0 ++ [s]).zip (lv0 ++ [v]) ++ (ck :: cks).zip cvals
            rw [zip_surgery _ _ _ _ hlen]
            simp
          · intro x hx1 hx2
            exact OW_leaf4 x _ _ _ _ _ _ _ _ _ _ _ _ hx1 hx2 rfl rfl
  | succ d =>
    intro l c k1 k2 nx hOl hOc h2n hl hc hPl hPc h2 h1
    obtain ⟨lid, lrunts, lkids⟩ := (l : Inner K (Node K V d))
    obtain ⟨cid, crunts, ckids⟩ := (c : Inner K (Node K V d))
    rw [par_inner] at hl hc
    obtain ⟨lhd, lK⟩ := hOl
    obtain ⟨chd, cK⟩ := hOc
    obtain ⟨_, _, lPk⟩ := hPl
    obtain ⟨_, _, cPk⟩ := hPc
    simp only at hl hc lhd lK chd cK lPk cPk
    have h2' : 2 ≤ lrunts.length := h2
    obtain ⟨lr0, s, rfl⟩ := snoc_of_pos lrunts (by omega)
    obtain ⟨lk0, y, rfl⟩ := snoc_of_pos lkids (by omega)
    have hlen : lr0.length = lk0.length := by simpa using hl.1
    have hpos : 1 ≤ lr0.length := by simp at h2'; omega
    rw [zip_surgery _ _ _ _ hlen, Kids_append] at lK
    obtain ⟨lK0, lKy⟩ := lK
    have lK0' : Kids lt (fun a b c => Ord lt d a b c) (some s) (lr0.zip lk0) := lK0
    have lKy' : Kids lt (fun a b c => Ord lt d a b c) (some k2) [(s, y)] := lKy
    obtain ⟨hOy, hsk2, _⟩ := lKy'
    have hOy' : Ord lt d (some s) (some k2) y := hOy
    have hsk2' : lt s k2 = true := hsk2
    have hsn : ltO lt s nx := ltO_of_lt h hsk2' h2n
    have hk1s : lt k1 s = true := by
      cases lr0 with
      | nil => simp at hpos
      | cons a lr0' =>
        cases lk0 with
        | nil => simp at hlen
        | cons b lk0' =>
          have h1 : lt a k1 = false := lhd a rfl
          have h2 : lt a s = true := Kids_keys_lt h (some s) _ lK0' (a, b) (by simp)
          exact h.lt_of_le_of_lt h1 h2
    match crunts, ckids, hc, chd, cK, cPk with
    | c0 :: crs, x0 :: xs, hc, chd, cK, cPk =>
      have hc0 : lt c0 k2 = false := chd c0 rfl
      have hsc0 : lt s c0 = true := h.lt_of_lt_of_le hsk2' hc0
      cases hpad : P.pad (some c0) with
      | none => exact absurd hpad (hp c0)
      | some pad =>
        refine ⟨({ id := lid, runts := lr0, kids := lk0 } : Inner K (Node K V d)),
          ({ id := cid, runts := s :: c0 :: crs, kids := y :: x0 :: xs } : Inner K (Node K V d)), s,
          ?_, rfl, ?_⟩
        · simp [Node.adoptFromLeft, hpad, pushFrontIdiom_eq, hlen]; rfl
        · refine ⟨rfl, rfl, ⟨?_, lK0'⟩, ⟨?_, ?_⟩, hk1s, hsn, ⟨hlen, hpos, ?_⟩, ⟨?_, ?_, ?_⟩, ?_, ?_⟩
          · intro k hk
            apply lhd k
            cases lr0 with
            | nil => simp at hpos
            | cons a lr0' => exact hk
          · intro k hk
            have : s = k := by simpa using hk
            subst this
            exact h.irrefl _
          · show Kids lt (fun a b c => Ord lt d a b c) nx ((s, y) :: (c0, x0) :: crs.zip xs)
            exact ⟨Ord_mono_hi h (hi := some k2) (hi' := some c0) hc0 hOy', hsc0, cK⟩
          · intro z hz
            exact lPk z (by simp [hz])
          · show (s :: c0 :: crs).length = (y :: x0 :: xs).length
            simpa using hc.1
          · show 1 ≤ (s :: c0 :: crs).length
            simp
          · intro z hz
            have hz' : z ∈ y :: x0 :: xs := hz
            rcases List.mem_cons.1 hz' with rfl | hz'
            · exact lPk _ (by simp)
            · exact cPk z hz'
          · show lk0.flatMap (Node.pairs (d := d)) ++ (y :: x0 :: xs).flatMap (Node.pairs (d := d)) =
              (lk0 ++ [y]).flatMap (Node.pairs (d := d)) ++ (x0 :: xs).flatMap (Node.pairs (d := d))
            simp
          · intro x hx1 hx2
            have hx1' : x ≠ lid := hx1
            have hx2' : x ≠ cid := hx2
            rw [boundsOf_mk_ne x _ _ lid _ _ hx1', boundsOf_mk_ne x _ _ cid _ _ hx2',
              boundsOf_mk_ne x _ _ lid _ _ hx1', boundsOf_mk_ne x _ _ cid _ _ hx2']
            rw [zip_surgery _ _ _ _ hlen, firstE_append_or]
            show OW lt (((firstE (boundsOf x d) (some s) (lr0.zip lk0)).or
                (firstE (boundsOf x d) (some k2) [(s, y)])).or
                (firstE (boundsOf x d) nx ((c0, x0) :: crs.zip xs)))
              ((firstE (boundsOf x d) (some s) (lr0.zip lk0)).or
                (firstE (boundsOf x d) nx ((s, y) :: (c0, x0) :: crs.zip xs)))
            rw [firstE_cons_or (rest := []), firstE_nil, Option.or_none, Option.or_assoc,
              firstE_cons_or (k := s)]
            exact OW.or (OW.refl h _) (OW.or
              (boundsOf_mono h x d y (some s) (some k2) (some s) (some c0) (loLe_refl h _) hc0) (OW.refl h _))

/-! ### merge -/

theorem absorbRight_pair (h : SWO lt) : ∀ {d : Nat} (a b : Node K V d) (k1 k2 : K) (nx : Option K),
    Ord lt d (some k1) (some k2) a → Ord lt d (some k2) nx b → lt k1 k2 = true → ltO lt k2 nx →
    Par (shallow a) → Par (shallow b) → ParN d a → ParN d b →
    ((shallow a).height = 0 → (shallow a).next = some (Node.id b)) →
    ∃ m, Node.absorbRight a b = .ok m ∧ MergeOut lt k1 k2 nx a b m := by
  intro d
  cases d with
  | zero =>
    intro a b k1 k2 nx hOa hOb h12 h2n ha hb _ _ hnx
    obtain ⟨aid, akeys, avals, anext⟩ := (a : Leaf K V)
    obtain ⟨bid, bkeys, bvals, bnext⟩ := (b : Leaf K V)
    rw [par_leaf] at ha hb
    obtain ⟨as, ab⟩ := hOa
    obtain ⟨bs, bb⟩ := hOb
    simp only at ha hb as ab bs bb
    have hnx' : anext = some bid := hnx rfl
    refine ⟨({ id := aid, keys := akeys ++ bkeys, vals := avals ++ bvals, next := bnext } : Leaf K V),
      ?_, rfl, ⟨?_, ?_⟩, trivial, ?_, ?_⟩
    · simp [Node.absorbRight, hnx']; rfl
    · exact List.pairwise_append.mpr ⟨as, bs, fun x hx y hy => h.lt_of_lt_of_le (ab x hx).2 (bb y hy).1⟩
    · intro x hx
      have hx' : x ∈ akeys ++ bkeys := hx
      rcases List.mem_append.mp hx' with hm | hm
      · exact ⟨(ab x hm).1, ltO_of_lt h (ab x hm).2 h2n⟩
      · exact ⟨h.le_of_lt (h.lt_of_lt_of_le h12 (bb x hm).1), (bb x hm).2⟩
    · show (akeys ++ bkeys).zip (avals ++ bvals) = akeys.zip avals ++ bkeys.zip bvals
      exact zip_surgery _ _ _ _ ha
    · intro x hx1 hx2
      exact OW_leaf3 x _ _ _ _ _ _ _ _ _ hx1 hx2 rfl
  | succ d =>
    intro a b k1 k2 nx hOa hOb h12 h2n ha hb hPa hPb _
    obtain ⟨aid, arunts, akids⟩ := (a : Inner K (Node K V d))
    obtain ⟨bid, brunts, bkids⟩ := (b : Inner K (Node K V d))
    rw [par_inner] at ha hb
    obtain ⟨ahd, aK⟩ := hOa
    obtain ⟨bhd, bK⟩ := hOb
    obtain ⟨_, _, aPk⟩ := hPa
    obtain ⟨_, _, bPk⟩ := hPb
    simp only at ha hb ahd aK bhd bK aPk bPk
    have hane : arunts ≠ [] := by
      intro e; rw [e] at ha; simp at ha
    match brunts, bkids, hb, bhd, bK, bPk with
    | [], _, hb, _, _, _ => simp at hb
    | b0 :: brs, [], hb, _, _, _ => simp at hb
    | b0 :: brs, y0 :: ys, hb, bhd, bK, bPk =>
      have hb0 : lt b0 k2 = false := bhd b0 rfl
      refine ⟨({ id := aid, runts := arunts ++ b0 :: brs, kids := akids ++ y0 :: ys } : Inner K (Node K V d)),
        rfl, rfl, ⟨?_, ?_⟩, ⟨?_, ?_, ?_⟩, ?_, ?_⟩
      · intro k hk
        apply ahd k
        cases arunts with
        | nil => exact absurd rfl hane
        | cons x ar' => exact hk
      · show Kids lt (fun a b c => Ord lt d a b c) nx ((arunts ++ b0 :: brs).zip (akids ++ y0 :: ys))
        rw [zip_surgery _ _ _ _ ha.1, Kids_append]
        refine ⟨?_, bK⟩
        show Kids lt (fun a b c => Ord lt d a b c) (some b0) (arunts.zip akids)
        exact Kids_mono_hi (R := fun a b c => Ord lt d a b c) h
          (fun a b b' c hb hr => Ord_mono_hi h hb hr) (hi := some k2) (hi' := some b0) hb0 _ aK
      · show (arunts ++ b0 :: brs).length = (akids ++ y0 :: ys).length
        simp only [List.length_append, ha.1, hb.1]
      · show 1 ≤ (arunts ++ b0 :: brs).length
        simp only [List.length_append, List.length_cons]
        omega
      · intro z hz
        have hz' : z ∈ akids ++ y0 :: ys := hz
        rcases List.mem_append.1 hz' with hz' | hz'
        · exact aPk z hz'
        · exact bPk z hz'
      · show (akids ++ y0 :: ys).flatMap (Node.pairs (d := d)) =
          akids.flatMap (Node.pairs (d := d)) ++ (y0 :: ys).flatMap (Node.pairs (d := d))
        exact List.flatMap_append
      · intro x hx1 hx2
        have hx1' : x ≠ aid := hx1
        have hx2' : x ≠ bid := hx2
        rw [boundsOf_mk_ne x _ _ aid _ _ hx1', boundsOf_mk_ne x _ _ bid _ _ hx2',
          boundsOf_mk_ne x _ _ aid _ _ hx1']
        rw [zip_surgery _ _ _ _ ha.1, firstE_append_or]
        show OW lt ((firstE (boundsOf x d) (some k2) (arunts.zip akids)).or
            (firstE (boundsOf x d) nx ((b0, y0) :: brs.zip ys)))
          ((firstE (boundsOf x d) (some b0) (arunts.zip akids)).or
            (firstE (boundsOf x d) nx ((b0, y0) :: brs.zip ys)))
        exact OW.or (firstE_mono h _ _ (boundsOf_hi_mono h x d _) (hi := some k2) (hi2 := some b0) hb0)
          (OW.refl h _)

end Gobptree.Conc
