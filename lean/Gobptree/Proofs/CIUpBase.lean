/-
  Separator invariant, block lemmas for the non-Delete continuations, part 1: the node-level
  form `ISepN` of `ISepW`, its equivalence with the flat-view form, monotonicity, and the
  context lemma for a rewrite of one node (`isepN_modify`).
-/
import Gobptree.Proofs.CIDefs
import Gobptree.Proofs.CKUp

namespace Gobptree.Conc
open Gobptree

variable {K V : Type} {lt : K → K → Bool}

/-! ### node-level form -/

/-- the fact the separator invariant states about a child `c` stored under separator `s` -/
def SepFact (lt : K → K → Bool) (Wit : Nat → K → Prop) : (d : Nat) → Node K V d → K → Prop
  | 0, _, _ => True
  | _ + 1, (c : Inner K _), s =>
    (∃ s', c.runts.head? = some s' ∧ eqv lt s s' = true) ∨ Wit c.id s

/-- the separator invariant below a node -/
def ISepN (lt : K → K → Bool) (Wit : Nat → K → Prop) : (d : Nat) → Node K V d → Prop
  | 0, _ => True
  | d + 1, (i : Inner K (Node K V d)) =>
    ∀ e ∈ i.runts.zip i.kids, SepFact lt Wit d e.2 e.1 ∧ ISepN lt Wit d e.2

theorem SepFact_zero (Wit : Nat → K → Prop) (c : Node K V 0) (s : K) : SepFact lt Wit 0 c s := trivial

theorem SepFact_succ (Wit : Nat → K → Prop) {d : Nat} (c : Inner K (Node K V d)) (s : K) :
    SepFact lt Wit (d + 1) c s ↔ (∃ s', c.runts.head? = some s' ∧ eqv lt s s' = true) ∨ Wit c.id s := Iff.rfl

theorem ISepN_zero (Wit : Nat → K → Prop) (c : Node K V 0) : ISepN lt Wit 0 c := trivial

theorem ISepN_succ (Wit : Nat → K → Prop) {d : Nat} (i : Inner K (Node K V d)) :
    ISepN lt Wit (d + 1) i ↔ ∀ e ∈ i.runts.zip i.kids, SepFact lt Wit d e.2 e.1 ∧ ISepN lt Wit d e.2 := Iff.rfl

/-! ### monotonicity in the witness set -/

theorem SepFact.mono {Wit Wit' : Nat → K → Prop} : ∀ {d : Nat} {c : Node K V d} {s : K},
    (Wit (Node.id c) s → Wit' (Node.id c) s) → SepFact lt Wit d c s → SepFact lt Wit' d c s
  | 0, _, _, _, _ => trivial
  | _ + 1, _, _, hw, h => by
    rcases h with h | h
    · exact Or.inl h
    · exact Or.inr (hw h)

theorem ISepN.mono {Wit Wit' : Nat → K → Prop} : ∀ {d : Nat} {n : Node K V d},
    (∀ r ∈ idsOf n, ∀ x, Wit r x → Wit' r x) → ISepN lt Wit d n → ISepN lt Wit' d n := by
  intro d
  induction d with
  | zero => intro n _ _; trivial
  | succ d ih =>
    intro (n : Inner K (Node K V d)) hw h e he
    have hmem : e.2 ∈ n.kids := (List.of_mem_zip he).2
    have hsub : ∀ r ∈ idsOf e.2, r ∈ idsOf (d := d + 1) n := by
      intro r hr
      rw [idsOf_succ n]
      exact List.mem_cons_of_mem _ (List.mem_flatMap.2 ⟨e.2, hmem, hr⟩)
    obtain ⟨h1, h2⟩ := h e he
    exact ⟨SepFact.mono (hw _ (hsub _ (id_mem_idsOf e.2)) _) h1, ih (fun r hr => hw r (hsub r hr)) h2⟩

/-- an entry of an inner node: the fact about the kid and the invariant below it -/
def SepEntry (lt : K → K → Bool) (Wit : Nat → K → Prop) (d : Nat) (e : K × Node K V d) : Prop :=
  SepFact lt Wit d e.2 e.1 ∧ ISepN lt Wit d e.2

theorem SepEntry.mono {Wit Wit' : Nat → K → Prop} {d : Nat} {e : K × Node K V d}
    (hw : ∀ r ∈ idsOf e.2, ∀ x, Wit r x → Wit' r x) (h : SepEntry lt Wit d e) : SepEntry lt Wit' d e :=
  ⟨SepFact.mono (hw _ (id_mem_idsOf e.2) _) h.1, ISepN.mono hw h.2⟩

/-! ### the node found under an identity -/

theorem ISepN_find (Wit : Nat → K → Prop) (id : Nat) : ∀ (d : Nat) (n : Node K V d) (d' : Nat) (m : Node K V d'),
    findNode id d n = some ⟨d', m⟩ → ParN d n → ISepN lt Wit d n → ISepN lt Wit d' m := by
  intro d
  induction d with
  | zero =>
    intro (n : Leaf K V) d' m hf _ h
    have hf' : (if n.id = id then some (⟨0, n⟩ : AnyNode K V) else none) = some ⟨d', m⟩ := hf
    by_cases hid : n.id = id
    · simp only [hid, if_true, Option.some.injEq] at hf'
      cases hf'
      exact h
    · simp [hid] at hf'
  | succ d ih =>
    intro (n : Inner K (Node K V d)) d' m hf hpar h
    by_cases hid : n.id = id
    · have hf' : (if n.id = id then some (⟨d + 1, n⟩ : AnyNode K V)
          else n.kids.findSome? (findNode id d)) = some ⟨d', m⟩ := hf
      simp only [hid, if_true, Option.some.injEq] at hf'
      cases hf'
      exact h
    · rw [findNode_succ_ne id n hid] at hf
      obtain ⟨A, c, B, hk, hc, _⟩ := findSome?_split _ _ _ hf
      have hcm : c ∈ n.kids := by rw [hk]; simp
      have : c ∈ (n.runts.zip n.kids).map Prod.snd := by
        rw [map_snd_zip_eq _ _ hpar.1]; exact hcm
      obtain ⟨e, he, hec⟩ := List.mem_map.1 this
      have := (h e he).2
      rw [hec] at this
      exact ih c d' m hc (hpar.2.2 c hcm) this

/-! ### equivalence with the flat-view form -/

/-- membership form of the flat-view statement -/
def ISepM (lt : K → K → Bool) (Wit : Nat → K → Prop) (l : List (Nat × Shallow K V)) : Prop :=
  ∀ (g j r : Nat) (sg sr : Shallow K V) (s : K), (g, sg) ∈ l → sg.kids[j]? = some r → (r, sr) ∈ l →
    0 < sr.height → sg.keys[j]? = some s →
    (∃ s', sr.keys.head? = some s' ∧ eqv lt s s' = true) ∨ Wit r s

theorem isepW_iff_M (Wit : Nat → K → Prop) {t : Tree K V} (hids : t.ids.Nodup) :
    ISepW lt Wit t ↔ ISepM lt Wit t.flat := by
  constructor
  · intro h g j r sg sr s a b c
    exact h g j r sg sr s ((look_eq_some_iff hids g sg).2 a) b ((look_eq_some_iff hids r sr).2 c)
  · intro h g j r sg sr s a b c
    exact h g j r sg sr s ((look_eq_some_iff hids g sg).1 a) b ((look_eq_some_iff hids r sr).1 c)

theorem mem_unique {β : Type} : ∀ (l : List (Nat × β)) (a : Nat) (b b' : β),
    (l.map Prod.fst).Nodup → (a, b) ∈ l → (a, b') ∈ l → b = b' := by
  intro l a b b' hn h1 h2
  have e1 := lookup_of_mem l a b hn h1
  have e2 := lookup_of_mem l a b' hn h2
  rw [e1] at e2
  exact Option.some.inj e2

theorem nodup_of_kid {d : Nat} (i : Inner K (Node K V d)) (c : Node K V d) (hc : c ∈ i.kids)
    (hnd : (idsOf (d := d + 1) i).Nodup) : (idsOf c).Nodup := by
  obtain ⟨A, B, hk⟩ := List.append_of_mem hc
  exact (nodup_kid i A B c hk hnd).1

theorem shallow_keys_succ {d : Nat} (i : Inner K (Node K V d)) : (shallow (d := d + 1) i).keys = i.runts := rfl

theorem isepM_iff_N (Wit : Nat → K → Prop) : ∀ (d : Nat) (n : Node K V d), (idsOf n).Nodup → ParN d n →
    (ISepM lt Wit (flat n) ↔ ISepN lt Wit d n) := by
  intro d
  induction d with
  | zero =>
    intro (n : Leaf K V) _ _
    constructor
    · intro _; trivial
    · intro _ g j r sg sr s hg hj
      rw [flat_leaf n] at hg
      simp only [List.mem_singleton, Prod.mk.injEq] at hg
      rw [hg.2, shallow_leaf_kids n] at hj
      simp at hj
  | succ d ih =>
    intro (n : Inner K (Node K V d)) hnd hpar
    have hflat := flat_inner n
    constructor
    · intro h e he
      obtain ⟨j, hj⟩ := List.mem_iff_getElem?.1 he
      rw [List.getElem?_zip_eq_some] at hj
      obtain ⟨hs, hc⟩ := hj
      have hcm : e.2 ∈ n.kids := List.mem_of_getElem? hc
      have hsub : ∀ p ∈ flat e.2, p ∈ flat (d := d + 1) n := by
        intro p hp
        rw [hflat]
        exact List.mem_cons_of_mem _ (List.mem_flatMap.2 ⟨e.2, hcm, hp⟩)
      refine ⟨?_, ?_⟩
      · cases d with
        | zero => trivial
        | succ d0 =>
          have := h n.id j (Node.id e.2) (shallow (d := d0 + 2) n) (shallow e.2) e.1
            (by rw [hflat]; exact List.mem_cons_self)
            (by rw [shallow_inner_kids n, List.getElem?_map, hc]; rfl)
            (hsub _ (self_mem_flat e.2)) (by rw [shallow_height]; omega)
            (by rw [shallow_keys_succ n]; exact hs)
          exact this
      · apply (ih e.2 (nodup_of_kid n e.2 hcm hnd) (hpar.2.2 _ hcm)).1
        intro g j r sg sr s a b c
        exact h g j r sg sr s (hsub _ a) b (hsub _ c)
    · intro h g j r sg sr s hg hj hr hpos hs
      rw [hflat] at hg
      have hnd' : ((flat (d := d + 1) n).map Prod.fst).Nodup := hnd
      rcases List.mem_cons.1 hg with hg | hg
      · simp only [Prod.mk.injEq] at hg
        obtain ⟨rfl, rfl⟩ := hg
        rw [shallow_inner_kids n, List.getElem?_map] at hj
        cases hc : n.kids[j]? with
        | none => rw [hc] at hj; cases hj
        | some c =>
          rw [hc] at hj
          have hrid : Node.id c = r := by simpa using hj
          have hcm : c ∈ n.kids := List.mem_of_getElem? hc
          have hcf : (r, shallow c) ∈ flat (d := d + 1) n := by
            rw [hflat, ← hrid]
            exact List.mem_cons_of_mem _ (List.mem_flatMap.2 ⟨c, hcm, self_mem_flat c⟩)
          have hsr : sr = shallow c := mem_unique _ r _ _ hnd' hr hcf
          have hs' : n.runts[j]? = some s := hs
          have hmem : (s, c) ∈ n.runts.zip n.kids :=
            List.mem_iff_getElem?.2 ⟨j, List.getElem?_zip_eq_some.2 ⟨hs', hc⟩⟩
          have hfact := (h (s, c) hmem).1
          subst hsr
          rw [shallow_height] at hpos
          cases d with
          | zero => omega
          | succ d0 =>
            rw [← hrid]
            exact hfact
      · obtain ⟨c, hcm, hgc⟩ := List.mem_flatMap.1 hg
        obtain ⟨shc, hrc, _⟩ := flat_kid c g sg j r hgc hj
        have hcf : (r, shc) ∈ flat (d := d + 1) n := by
          rw [hflat]
          exact List.mem_cons_of_mem _ (List.mem_flatMap.2 ⟨c, hcm, hrc⟩)
        have hsr : sr = shc := mem_unique _ r _ _ hnd' hr hcf
        subst hsr
        have : c ∈ (n.runts.zip n.kids).map Prod.snd := by
          rw [map_snd_zip_eq _ _ hpar.1]; exact hcm
        obtain ⟨e, he, hec⟩ := List.mem_map.1 this
        have hN := (h e he).2
        rw [hec] at hN
        exact (ih c (nodup_of_kid n c hcm hnd) (hpar.2.2 _ hcm)).2 hN g j r sg sr s hgc hj hrc hpos hs

/-- the tree-level statement is the node-level statement about the root -/
theorem isepW_iff_N (Wit : Nat → K → Prop) {t : Tree K V} (hids : t.ids.Nodup) (hpar : ParTree t) :
    ISepW lt Wit t ↔ ISepN lt Wit t.depth t.root :=
  (isepW_iff_M Wit hids).trans (isepM_iff_N Wit t.depth t.root hids hpar)

theorem ISepW.mono {Wit Wit' : Nat → K → Prop} {t : Tree K V} (hw : ∀ r x, Wit r x → Wit' r x)
    (h : ISepW lt Wit t) : ISepW lt Wit' t := by
  intro g j r sg sr s a b c d e
  rcases h g j r sg sr s a b c d e with h1 | h1
  · exact Or.inl h1
  · exact Or.inr (hw _ _ h1)

/-! ### the context lemma -/

/-- entries of an inner node at a decomposition -/
theorem isepN_decomp (Wit : Nat → K → Prop) {d : Nat} (id : Nat) (rA rB : List K) (k : K)
    (A B : List (Node K V d)) (c : Node K V d) (hl : rA.length = A.length) :
    ISepN lt Wit (d + 1) (Inner.mk id (rA ++ k :: rB) (A ++ c :: B) : Inner K (Node K V d)) ↔
      (∀ e ∈ rA.zip A, SepEntry lt Wit d e) ∧ SepEntry lt Wit d (k, c) ∧ ∀ e ∈ rB.zip B, SepEntry lt Wit d e := by
  rw [ISepN_succ]
  show (∀ e ∈ (rA ++ k :: rB).zip (A ++ c :: B), SepEntry lt Wit d e) ↔ _
  rw [zip_decomp _ _ _ _ _ _ hl]
  constructor
  · intro h
    exact ⟨fun e he => h e (List.mem_append_left _ he), h _ (List.mem_append_right _ List.mem_cons_self),
      fun e he => h e (List.mem_append_right _ (List.mem_cons_of_mem _ he))⟩
  · rintro ⟨h1, h2, h3⟩ e he
    rcases List.mem_append.1 he with he | he
    · exact h1 e he
    · rcases List.mem_cons.1 he with rfl | he
      · exact h2
      · exact h3 e he

/-- **context lemma.**  Rewriting the node with identity `id` (found as `m`, which the tree
    stores under the lower bound `lo'`) keeps the separator invariant, with a new witness set,
    provided the replacement satisfies it, the fact its parent states about it survives, and
    the witnesses about all other nodes are kept. -/
theorem isepN_modify (Wit Wit' : Nat → K → Prop) (id : Nat) (f : (d : Nat) → Node K V d → Node K V d) :
    ∀ (d : Nat) (n : Node K V d) (lo hi : Option K) (d' : Nat) (m : Node K V d'),
      findNode id d n = some ⟨d', m⟩ → (idsOf n).Nodup → ParN d n → ISepN lt Wit d n →
      (∀ r x, r ≠ id → Wit r x → Wit' r x) → Node.id (f d' m) = id → ISepN lt Wit' d' (f d' m) →
      ∃ lo' hi', boundsOf id d lo hi n = some (lo', hi') ∧
        ((∀ s, lo' = some s → SepFact lt Wit d' m s → SepFact lt Wit' d' (f d' m) s) →
          ISepN lt Wit' d (modifyNode id f d n) ∧
          ∀ s, lo = some s → SepFact lt Wit d n s → SepFact lt Wit' d (modifyNode id f d n) s) := by
  intro d
  induction d with
  | zero =>
    intro (n : Leaf K V) lo hi d' m hf _ _ _ _ _ _
    have hf' : (if n.id = id then some (⟨0, n⟩ : AnyNode K V) else none) = some ⟨d', m⟩ := hf
    by_cases hid : n.id = id
    · simp only [hid, if_true, Option.some.injEq] at hf'
      cases hf'
      exact ⟨lo, hi, boundsOf_zero_eq id lo hi n hid, fun _ => ⟨trivial, fun _ _ _ => trivial⟩⟩
    · simp [hid] at hf'
  | succ d ih =>
    intro (n : Inner K (Node K V d)) lo hi d' m hf hnd hpar hI hw hfid hI'
    by_cases hid : n.id = id
    · have hf' : (if n.id = id then some (⟨d + 1, n⟩ : AnyNode K V)
          else n.kids.findSome? (findNode id d)) = some ⟨d', m⟩ := hf
      simp only [hid, if_true, Option.some.injEq] at hf'
      cases hf'
      refine ⟨lo, hi, boundsOf_succ_eq id lo hi n hid, ?_⟩
      intro hface
      rw [modifyNode_succ_eq id f n hid]
      exact ⟨hI', hface⟩
    · obtain ⟨rA, k, rB, A, c, B, hr, hk, hl, hlB, hfc, hndc, hparc, hA, hB, hparA, hparB⟩ :=
        find_step id n hf hid hnd hpar
      have hn : n = (Inner.mk n.id (rA ++ k :: rB) (A ++ c :: B) : Inner K (Node K V d)) := by
        rw [← hr, ← hk]
      rw [hn, isepN_decomp Wit n.id rA rB k A B c hl] at hI
      obtain ⟨hIA, hIc, hIB⟩ := hI
      obtain ⟨lo', hi', hb, hrest⟩ := ih c (some k) (nextLo hi (rB.zip B)) d' m hfc hndc hparc hIc.2 hw hfid hI'
      refine ⟨lo', hi', boundsOf_kid id lo hi n rA rB k A B c (lo', hi') hid hr hk hl hA hb, ?_⟩
      intro hface
      obtain ⟨h1, h2⟩ := hrest hface
      rw [modifyNode_kid id f n A B c hid hk hA hB]
      refine ⟨?_, ?_⟩
      · rw [hr, isepN_decomp Wit' n.id rA rB k A B _ hl]
        refine ⟨?_, ⟨h2 k rfl hIc.1, h1⟩, ?_⟩
        · intro e he
          refine SepEntry.mono ?_ (hIA e he)
          intro r hr x
          apply hw
          intro e'
          exact hA e.2 (List.of_mem_zip he).2 (e' ▸ hr)
        · intro e he
          refine SepEntry.mono ?_ (hIB e he)
          intro r hr x
          apply hw
          intro e'
          exact hB e.2 (List.of_mem_zip he).2 (e' ▸ hr)
      · intro s _ hs
        exact SepFact.mono (d := d + 1) (c := (Inner.mk n.id n.runts (A ++ modifyNode id f d c :: B) : Inner K (Node K V d)))
          (hw _ _ hid) hs

end Gobptree.Conc
