/-
  Linearizability from linearization points (generic, independent of the tree).

  A concurrent history is a chronological list of invocation and response events.  If it can
  be decorated with ghost `lin` events — one inside the interval of every returned operation —
  such that replaying the operations on the sequential specification in the order of their
  `lin` events reproduces every returned value, then the client-visible history is
  linearizable in the sense of Herlihy and Wing (`linearizable_of_points`).

  The second half gives an incremental interface (`Points`, `linState`) for an induction over
  the steps of a transition system that appends events.
-/
import Gobptree.Run

namespace Gobptree.Lin

variable {K V : Type}

/-! ## Histories -/

/-- events of a concurrent history, in chronological order; `(tid, idx)` names an operation:
    the `idx`-th operation of thread `tid` -/
inductive HEv (K V : Type) where
  | inv (tid idx : Nat) (op : Op K V)
  | ret (tid idx : Nat) (out : Out V)
  | lin (tid idx : Nat)            -- ghost: the operation takes effect here

def HEv.isLin : HEv K V → Bool
  | .lin _ _ => true
  | _ => false

/-- the client-visible history: `lin` events erased -/
def visible (h : List (HEv K V)) : List (HEv K V) :=
  h.filter (fun e => !e.isLin)

/-- an operation of a history: its name, what was invoked, positions (indices in the list) of
    its invocation and, if it has returned, of its response and the value returned -/
structure HOp (K V : Type) where
  tid : Nat
  idx : Nat
  op  : Op K V
  inv : Nat
  ret : Option (Nat × Out V)

/-- position and value of the first response to the operation named `(t, i)` -/
def firstRet (h : List (HEv K V)) (t i : Nat) : Option (Nat × Out V) :=
  h.zipIdx.findSome? fun
    | (.ret t' i' out, p) => if t' = t ∧ i' = i then some (p, out) else none
    | _ => none

/-- the operations of a history: one for every `inv` event -/
def opsOf (h : List (HEv K V)) : List (HOp K V) :=
  h.zipIdx.filterMap fun
    | (.inv t i op, p) => some ⟨t, i, op, p, firstRet h t i⟩
    | _ => none

/-- `a` occurs before `b` in `l` -/
def Before {α : Type} (l : List α) (a b : α) : Prop :=
  ∃ i j : Nat, i < j ∧ l[i]? = some a ∧ l[j]? = some b

/-- Herlihy–Wing: `ord` lists every completed operation and some of the pending ones, each
    at most once; it respects real time (if `a` returned before `b` was invoked then `a`
    comes first); and replaying it on the specification from `init` yields, for every
    completed operation, the value that was returned -/
structure IsLinearization (lt : K → K → Bool) (init : List (K × V)) (h : List (HEv K V))
    (ord : List (HOp K V)) : Prop where
  ops      : ∀ o ∈ ord, o ∈ opsOf h
  nodup    : ord.Nodup
  complete : ∀ o ∈ opsOf h, o.ret.isSome → o ∈ ord
  realtime : ∀ a ∈ ord, ∀ b ∈ ord, ∀ p out, a.ret = some (p, out) → p < b.inv → Before ord a b
  spec     : ∀ x ∈ List.zip ord (Spec.run lt init (ord.map (·.op))).2,
               ∀ p out, x.1.ret = some (p, out) → x.2 = out

def Linearizable (lt : K → K → Bool) (init : List (K × V)) (h : List (HEv K V)) : Prop :=
  ∃ ord, IsLinearization lt init h ord

/-! ## Decorated histories -/

/-- a decorated history is well formed: every name has at most one `inv`, one `lin`, one
    `ret`; a `lin` comes after its `inv`, a `ret` after its `lin` (so every returned operation
    has a linearization point inside its interval); thread-sequentiality is NOT required -/
structure PointsWF (h : List (HEv K V)) : Prop where
  inv_unique : ∀ (p q t i : Nat) (op op' : Op K V),
    h[p]? = some (HEv.inv t i op) → h[q]? = some (HEv.inv t i op') → p = q
  lin_unique : ∀ (p q t i : Nat),
    h[p]? = some (HEv.lin t i) → h[q]? = some (HEv.lin t i) → p = q
  ret_unique : ∀ (p q t i : Nat) (o o' : Out V),
    h[p]? = some (HEv.ret t i o) → h[q]? = some (HEv.ret t i o') → p = q
  lin_after_inv : ∀ (p t i : Nat),
    h[p]? = some (HEv.lin t i) → ∃ q op, q < p ∧ h[q]? = some (HEv.inv t i op)
  ret_after_lin : ∀ (p t i : Nat) (o : Out V),
    h[p]? = some (HEv.ret t i o) → ∃ q, q < p ∧ h[q]? = some (HEv.lin t i)

/-- what the operation named `(t, i)` is: the argument of its (first) `inv` event -/
def invOp (h : List (HEv K V)) (t i : Nat) : Option (Op K V) :=
  h.findSome? fun
    | .inv t' i' op => if t' = t ∧ i' = i then some op else none
    | _ => none

/-- at a `lin` event: the name, and the operation invoked under that name -/
def linF (h : List (HEv K V)) : HEv K V → Option (Nat × Nat × Op K V)
  | .lin t i => (invOp h t i).map fun op => (t, i, op)
  | _ => none

/-- the operations (name and what was invoked) in the order of their `lin` events -/
def linOrder (h : List (HEv K V)) : List (Nat × Nat × Op K V) :=
  h.filterMap (linF h)

/-- the sequential run of the specification along the `lin` events -/
def replay (lt : K → K → Bool) (init : List (K × V)) (h : List (HEv K V)) :
    List (K × V) × List (Out V) :=
  Spec.run lt init ((linOrder h).map (·.2.2))

/-- replaying the operations in `lin` order gives every returned operation its returned value -/
def PointsSpec (lt : K → K → Bool) (init : List (K × V)) (h : List (HEv K V)) : Prop :=
  ∀ x ∈ List.zip (linOrder h) (replay lt init h).2,
    ∀ out, HEv.ret x.1.1 x.1.2.1 out ∈ h → out = x.2

/-! ## General list lemmas -/

theorem run_length (lt : K → K → Bool) (m : List (K × V)) (ops : List (Op K V)) :
    (Spec.run lt m ops).2.length = ops.length := by
  induction ops generalizing m with
  | nil => rfl
  | cons op ops ih => simp [Spec.run, ih]

theorem run_append (lt : K → K → Bool) (m : List (K × V)) (ops : List (Op K V)) (op : Op K V) :
    Spec.run lt m (ops ++ [op]) =
      ((Spec.step lt (Spec.run lt m ops).1 op).1,
        (Spec.run lt m ops).2 ++ [(Spec.step lt (Spec.run lt m ops).1 op).2]) := by
  induction ops generalizing m with
  | nil => simp [Spec.run]
  | cons o ops ih => simp [Spec.run, ih]

/-- number of elements kept by `filterMap f` among the first `I` elements -/
def cnt {α β : Type} (f : α → Option β) (l : List α) (I : Nat) : Nat :=
  ((l.take I).filterMap f).length

theorem cnt_mono {α β : Type} (f : α → Option β) (l : List α) {I J : Nat} (hIJ : I ≤ J) :
    cnt f l I ≤ cnt f l J := by
  obtain ⟨k, rfl⟩ := Nat.exists_eq_add_of_le hIJ
  simp [cnt, List.take_add]

theorem cnt_strict {α β : Type} (f : α → Option β) (l : List α) {I J : Nat} {a : α} {b : β}
    (hIJ : I < J) (ha : l[I]? = some a) (hf : f a = some b) : cnt f l I < cnt f l J := by
  induction l generalizing I J with
  | nil => simp at ha
  | cons x xs ih =>
    cases J with
    | zero => omega
    | succ J =>
      cases I with
      | zero =>
        simp at ha; subst ha
        simp [cnt, hf]
      | succ I =>
        simp at ha
        have := ih (I := I) (J := J) (by omega) ha
        simp only [cnt, List.take_succ_cons] at this ⊢
        cases hx : f x <;> simp [hx] <;> omega

theorem getElem?_filterMap_cnt {α β : Type} (f : α → Option β) (l : List α) {I : Nat} {a : α}
    {b : β} (ha : l[I]? = some a) (hf : f a = some b) :
    (l.filterMap f)[cnt f l I]? = some b := by
  induction l generalizing I with
  | nil => simp at ha
  | cons x xs ih =>
    cases I with
    | zero =>
      simp at ha; subst ha
      simp [cnt, hf]
    | succ I =>
      simp at ha
      have := ih ha
      simp only [cnt, List.take_succ_cons] at this ⊢
      cases hx : f x <;> simp [hx, this]

theorem exists_of_getElem?_filterMap {α β : Type} (f : α → Option β) (l : List α) {i : Nat}
    {b : β} (hb : (l.filterMap f)[i]? = some b) :
    ∃ I a, l[I]? = some a ∧ f a = some b ∧ cnt f l I = i := by
  induction l generalizing i with
  | nil => simp at hb
  | cons x xs ih =>
    cases hx : f x with
    | none =>
      rw [List.filterMap_cons_none hx] at hb
      obtain ⟨I, a, h1, h2, h3⟩ := ih hb
      exact ⟨I + 1, a, by simpa using h1, h2, by simpa [cnt, hx] using h3⟩
    | some y =>
      rw [List.filterMap_cons_some hx] at hb
      cases i with
      | zero =>
        simp at hb; subst hb
        exact ⟨0, x, by simp, hx, by simp [cnt]⟩
      | succ i =>
        simp at hb
        obtain ⟨I, a, h1, h2, h3⟩ := ih hb
        exact ⟨I + 1, a, by simpa using h1, h2, by simpa [cnt, hx] using h3⟩

theorem nodup_of_getElem?_inj {α : Type} (l : List α)
    (hinj : ∀ (i j : Nat) (a : α), l[i]? = some a → l[j]? = some a → i = j) : l.Nodup := by
  induction l with
  | nil => exact List.nodup_nil
  | cons x xs ih =>
    rw [List.nodup_cons]
    constructor
    · intro hx
      obtain ⟨j, hj⟩ := List.mem_iff_getElem?.1 hx
      have := hinj 0 (j + 1) x (by simp) (by simpa using hj)
      omega
    · apply ih
      intro i j a hi hj
      have := hinj (i + 1) (j + 1) a (by simpa using hi) (by simpa using hj)
      omega

theorem filterMap_congr' {α β : Type} {f g : α → Option β} {l : List α}
    (hfg : ∀ x ∈ l, f x = g x) : l.filterMap f = l.filterMap g := by
  induction l with
  | nil => rfl
  | cons x xs ih =>
    have hx := hfg x (by simp)
    have := ih (fun y hy => hfg y (by simp [hy]))
    simp only [List.filterMap_cons, hx, this]

/-! ## Facts about the definitions -/

/-- `visible` as a `filterMap` -/
def visF (e : HEv K V) : Option (HEv K V) := if e.isLin then none else some e

theorem visible_eq (h : List (HEv K V)) : visible h = h.filterMap visF := by
  induction h with
  | nil => rfl
  | cons e h ih =>
    cases e <;> simp_all [visible, visF, HEv.isLin]

theorem visF_eq_some {e e' : HEv K V} (he : visF e = some e') : e' = e ∧ e.isLin = false := by
  cases e <;> simp_all [visF, HEv.isLin]

theorem mem_opsOf {h : List (HEv K V)} {o : HOp K V} :
    o ∈ opsOf h ↔
      h[o.inv]? = some (HEv.inv o.tid o.idx o.op) ∧ o.ret = firstRet h o.tid o.idx := by
  unfold opsOf
  rw [List.mem_filterMap]
  constructor
  · rintro ⟨⟨e, p⟩, hmem, hf⟩
    rw [List.mem_zipIdx_iff_getElem?] at hmem
    cases e <;> simp at hf
    subst hf
    exact ⟨hmem, rfl⟩
  · rintro ⟨h1, h2⟩
    refine ⟨(HEv.inv o.tid o.idx o.op, o.inv), ?_, ?_⟩
    · rw [List.mem_zipIdx_iff_getElem?]; exact h1
    · cases o; simp_all

theorem firstRet_some {h : List (HEv K V)} {t i p : Nat} {out : Out V}
    (hr : firstRet h t i = some (p, out)) : h[p]? = some (HEv.ret t i out) := by
  unfold firstRet at hr
  obtain ⟨⟨e, q⟩, hmem, hf⟩ := List.exists_of_findSome?_eq_some hr
  rw [List.mem_zipIdx_iff_getElem?] at hmem
  cases e <;> simp at hf
  obtain ⟨⟨rfl, rfl⟩, rfl, rfl⟩ := hf
  exact hmem

theorem firstRet_isSome {h : List (HEv K V)} {t i p : Nat} {out : Out V}
    (hr : h[p]? = some (HEv.ret t i out)) : (firstRet h t i).isSome := by
  unfold firstRet
  rw [List.findSome?_isSome_iff]
  refine ⟨(HEv.ret t i out, p), ?_, by simp⟩
  rw [List.mem_zipIdx_iff_getElem?]; exact hr

theorem invOp_some {h : List (HEv K V)} {t i : Nat} {op : Op K V}
    (hr : invOp h t i = some op) : ∃ p : Nat, h[p]? = some (HEv.inv t i op) := by
  unfold invOp at hr
  obtain ⟨e, hmem, hf⟩ := List.exists_of_findSome?_eq_some hr
  cases e <;> simp at hf
  obtain ⟨⟨rfl, rfl⟩, rfl⟩ := hf
  exact List.mem_iff_getElem?.1 hmem

theorem invOp_isSome {h : List (HEv K V)} {t i p : Nat} {op : Op K V}
    (hr : h[p]? = some (HEv.inv t i op)) : (invOp h t i).isSome := by
  unfold invOp
  rw [List.findSome?_isSome_iff]
  exact ⟨HEv.inv t i op, List.mem_of_getElem? hr, by simp⟩

theorem invOp_eq {h : List (HEv K V)} (hwf : PointsWF h) {t i p : Nat} {op : Op K V}
    (hr : h[p]? = some (HEv.inv t i op)) : invOp h t i = some op := by
  have h1 := invOp_isSome hr
  obtain ⟨op', h2⟩ := Option.isSome_iff_exists.1 h1
  obtain ⟨q, h3⟩ := invOp_some h2
  have := hwf.inv_unique p q t i op op' hr h3
  subst this
  rw [hr] at h3
  simp at h3
  rw [h2, h3]

/-- positions in `visible h` come from positions in `h` -/
theorem visible_getElem? {h : List (HEv K V)} {i : Nat} {e : HEv K V}
    (he : (visible h)[i]? = some e) : ∃ I, h[I]? = some e ∧ cnt visF h I = i := by
  rw [visible_eq] at he
  obtain ⟨I, a, h1, h2, h3⟩ := exists_of_getElem?_filterMap _ _ he
  obtain ⟨rfl, _⟩ := visF_eq_some h2
  exact ⟨I, h1, h3⟩

theorem getElem?_visible {h : List (HEv K V)} {I : Nat} {e : HEv K V}
    (he : h[I]? = some e) (hl : e.isLin = false) : (visible h)[cnt visF h I]? = some e := by
  rw [visible_eq]
  exact getElem?_filterMap_cnt _ _ he (by simp [visF, hl])

/-! ## The linearization built from the `lin` events -/

/-- selector used to build the linearization: at a `lin` event, the operation of the visible
    history with that name -/
def ordF (h : List (HEv K V)) : HEv K V → Option (HOp K V)
  | .lin t i => (opsOf (visible h)).find? (fun o => o.tid = t ∧ o.idx = i)
  | _ => none

/-- the operations of the visible history in the order of their `lin` events -/
def ordOf (h : List (HEv K V)) : List (HOp K V) := h.filterMap (ordF h)

theorem ordF_some {h : List (HEv K V)} {e : HEv K V} {o : HOp K V} (he : ordF h e = some o) :
    e = HEv.lin o.tid o.idx ∧ o ∈ opsOf (visible h) := by
  cases e <;> simp [ordF] at he
  have h1 := List.find?_some he
  have h2 := List.mem_of_find?_eq_some he
  simp at h1
  simp [h1, h2]

/-- two operations of the visible history with the same name are the same -/
theorem opsOf_name_inj {h : List (HEv K V)} (hwf : PointsWF h) {a b : HOp K V}
    (ha : a ∈ opsOf (visible h)) (hb : b ∈ opsOf (visible h))
    (ht : a.tid = b.tid) (hi : a.idx = b.idx) : a = b := by
  rw [mem_opsOf] at ha hb
  obtain ⟨Ia, ha1, ha2⟩ := visible_getElem? ha.1
  obtain ⟨Ib, hb1, hb2⟩ := visible_getElem? hb.1
  rw [ht, hi] at ha1
  have := hwf.inv_unique Ia Ib _ _ _ _ ha1 hb1
  subst this
  rw [ha1] at hb1
  have hop : a.op = b.op := by simpa using hb1
  have hinv : a.inv = b.inv := by omega
  have hret : a.ret = b.ret := by rw [ha.2, hb.2, ht, hi]
  cases a; cases b; simp_all

/-- at a `lin` event of a well-formed history the selector succeeds, and agrees with `invOp` -/
theorem ordF_lin {h : List (HEv K V)} (hwf : PointsWF h) {L t i : Nat}
    (hL : h[L]? = some (HEv.lin t i)) :
    ∃ o, ordF h (HEv.lin t i) = some o ∧ o.tid = t ∧ o.idx = i ∧ invOp h t i = some o.op := by
  obtain ⟨q, op, _, hq⟩ := hwf.lin_after_inv L t i hL
  have hv := getElem?_visible hq rfl
  have hmem : (⟨t, i, op, cnt visF h q, firstRet (visible h) t i⟩ : HOp K V)
      ∈ opsOf (visible h) := by
    rw [mem_opsOf]; exact ⟨hv, rfl⟩
  have hsome : ((opsOf (visible h)).find? (fun o => o.tid = t ∧ o.idx = i)).isSome := by
    rw [List.find?_isSome]
    exact ⟨_, hmem, by simp⟩
  obtain ⟨o, ho⟩ := Option.isSome_iff_exists.1 hsome
  have h1 := List.find?_some ho
  have h2 := List.mem_of_find?_eq_some ho
  simp at h1
  have := opsOf_name_inj hwf h2 hmem h1.1 h1.2
  subst this
  exact ⟨_, ho, rfl, rfl, invOp_eq hwf hq⟩

theorem ordOf_getElem? {h : List (HEv K V)} {j : Nat} {o : HOp K V}
    (ho : (ordOf h)[j]? = some o) :
    ∃ L, h[L]? = some (HEv.lin o.tid o.idx) ∧ o ∈ opsOf (visible h) ∧ cnt (ordF h) h L = j := by
  obtain ⟨L, e, h1, h2, h3⟩ := exists_of_getElem?_filterMap _ _ ho
  obtain ⟨rfl, h4⟩ := ordF_some h2
  exact ⟨L, h1, h4, h3⟩

theorem ordOf_triples {h : List (HEv K V)} (hwf : PointsWF h) :
    (ordOf h).map (fun o => (o.tid, o.idx, o.op)) = linOrder h := by
  unfold ordOf linOrder
  rw [List.map_filterMap]
  apply filterMap_congr'
  intro e he
  cases e with
  | inv t i op => simp [ordF, linF]
  | ret t i out => simp [ordF, linF]
  | lin t i =>
    obtain ⟨L, hL⟩ := List.mem_iff_getElem?.1 he
    obtain ⟨o, h1, h2, h3, h4⟩ := ordF_lin hwf hL
    simp [linF, h1, h4, h2, h3]

theorem ordOf_ops {h : List (HEv K V)} (hwf : PointsWF h) :
    (ordOf h).map (·.op) = (linOrder h).map (·.2.2) := by
  rw [← ordOf_triples hwf, List.map_map]
  rfl

/-- a decorated history satisfying the two conditions is linearized by `ordOf` -/
theorem isLinearization_ordOf (lt : K → K → Bool) (init : List (K × V)) (h : List (HEv K V))
    (hwf : PointsWF h) (hsp : PointsSpec lt init h) :
    IsLinearization lt init (visible h) (ordOf h) where
  ops := by
    intro o ho
    obtain ⟨j, hj⟩ := List.mem_iff_getElem?.1 ho
    obtain ⟨_, _, h2, _⟩ := ordOf_getElem? hj
    exact h2
  nodup := by
    apply nodup_of_getElem?_inj
    intro i j a hi hj
    obtain ⟨Li, h1, _, h3⟩ := ordOf_getElem? hi
    obtain ⟨Lj, h1', _, h3'⟩ := ordOf_getElem? hj
    have := hwf.lin_unique Li Lj _ _ h1 h1'
    subst this
    omega
  complete := by
    intro o ho hret
    obtain ⟨⟨p, out⟩, hpo⟩ := Option.isSome_iff_exists.1 hret
    have hv := firstRet_some ((mem_opsOf.1 ho).2.symm.trans hpo)
    obtain ⟨P, hP, _⟩ := visible_getElem? hv
    obtain ⟨L, _, hL⟩ := hwf.ret_after_lin P _ _ _ hP
    obtain ⟨o', h1, h2, h3, _⟩ := ordF_lin hwf hL
    obtain ⟨_, h4⟩ := ordF_some h1
    have := opsOf_name_inj hwf h4 ho h2 h3
    subst this
    exact List.mem_of_getElem? (getElem?_filterMap_cnt _ _ hL h1)
  realtime := by
    intro a ha b hb p out hret hlt
    obtain ⟨ja, hja⟩ := List.mem_iff_getElem?.1 ha
    obtain ⟨jb, hjb⟩ := List.mem_iff_getElem?.1 hb
    obtain ⟨La, hLa, hao, hca⟩ := ordOf_getElem? hja
    obtain ⟨Lb, hLb, hbo, hcb⟩ := ordOf_getElem? hjb
    -- the response of `a` and the invocation of `b`, in `h`
    have hra : firstRet (visible h) a.tid a.idx = some (p, out) := by
      rw [← (mem_opsOf.1 hao).2]; exact hret
    obtain ⟨Ra, hRa, hcRa⟩ := visible_getElem? (firstRet_some hra)
    obtain ⟨Ib, hIb, hcIb⟩ := visible_getElem? (mem_opsOf.1 hbo).1
    have h1 : Ra < Ib := by
      apply Nat.lt_of_not_le
      intro hle
      have := cnt_mono visF h hle
      omega
    -- `lin a` before `ret a`
    obtain ⟨q, hq, hql⟩ := hwf.ret_after_lin Ra _ _ _ hRa
    have := hwf.lin_unique q La _ _ hql hLa
    subst this
    -- `inv b` before `lin b`
    obtain ⟨q', op', hq', hqi⟩ := hwf.lin_after_inv Lb _ _ hLb
    have := hwf.inv_unique q' Ib _ _ _ _ hqi hIb
    subst this
    have hab : q < Lb := by omega
    have hfa : ordF h (HEv.lin a.tid a.idx) = some a := by
      obtain ⟨oa, hoa, h5, h6, _⟩ := ordF_lin hwf hql
      have := opsOf_name_inj hwf (ordF_some hoa).2 hao h5 h6
      rw [this] at hoa; exact hoa
    refine ⟨ja, jb, ?_, hja, hjb⟩
    rw [← hca, ← hcb]
    exact cnt_strict _ _ hab hql hfa
  spec := by
    intro x hx p out hret
    obtain ⟨a, y⟩ := x
    have hx' : ((a.tid, a.idx, a.op), y) ∈ List.zip (linOrder h) (replay lt init h).2 := by
      rw [← ordOf_triples hwf, List.zip_map_left, replay, ← ordOf_ops hwf]
      exact List.mem_map.2 ⟨(a, y), hx, rfl⟩
    have ha : a ∈ opsOf (visible h) := by
      have := (List.of_mem_zip hx).1
      obtain ⟨j, hj⟩ := List.mem_iff_getElem?.1 this
      obtain ⟨_, _, h2, _⟩ := ordOf_getElem? hj
      exact h2
    have hra : firstRet (visible h) a.tid a.idx = some (p, out) := by
      rw [← (mem_opsOf.1 ha).2]; exact hret
    obtain ⟨P, hP, _⟩ := visible_getElem? (firstRet_some hra)
    exact (hsp _ hx' out (List.mem_of_getElem? hP)).symm

/-- **Linearization points imply linearizability** (Herlihy–Wing). -/
theorem linearizable_of_points (lt : K → K → Bool) (init : List (K × V)) (h : List (HEv K V))
    (hwf : PointsWF h) (hsp : PointsSpec lt init h) : Linearizable lt init (visible h) :=
  ⟨ordOf h, isLinearization_ordOf lt init h hwf hsp⟩

/-! ## Incremental interface -/

theorem getElem?_snoc {α : Type} {l : List α} {a e : α} {p : Nat}
    (h : (l ++ [a])[p]? = some e) :
    (p < l.length ∧ l[p]? = some e) ∨ (p = l.length ∧ e = a) := by
  rw [List.getElem?_append] at h
  split at h
  · exact .inl ⟨‹_›, h⟩
  · right
    have h0 : p - l.length = 0 := by
      cases hk : p - l.length with
      | zero => rfl
      | succ k => rw [hk] at h; simp at h
    rw [h0] at h
    simp at h
    exact ⟨by omega, h.symm⟩

theorem getElem?_snoc_of {α : Type} {l : List α} {a e : α} {p : Nat} (h : l[p]? = some e) :
    (l ++ [a])[p]? = some e := by
  have := (List.getElem?_eq_some_iff.1 h).1
  rw [List.getElem?_append_left this]; exact h

theorem mem_getElem?_lt {α : Type} {l : List α} {e : α} (h : e ∈ l) :
    ∃ q, q < l.length ∧ l[q]? = some e := by
  obtain ⟨q, hq⟩ := List.mem_iff_getElem?.1 h
  exact ⟨q, (List.getElem?_eq_some_iff.1 hq).1, hq⟩

theorem PointsWF.nil : PointsWF ([] : List (HEv K V)) := by
  constructor <;> intros <;> simp_all

/-- a fresh name may be invoked -/
theorem PointsWF.append_inv {h : List (HEv K V)} (hwf : PointsWF h) {t i : Nat} (op : Op K V)
    (hfresh : ∀ op', HEv.inv t i op' ∉ h) : PointsWF (h ++ [HEv.inv t i op]) where
  inv_unique := by
    intro p q t' i' o o' hp hq
    rcases getElem?_snoc hp with ⟨_, hp'⟩ | ⟨rfl, hpe⟩ <;>
      rcases getElem?_snoc hq with ⟨_, hq'⟩ | ⟨rfl, hqe⟩
    · exact hwf.inv_unique _ _ _ _ _ _ hp' hq'
    · cases hqe; exact absurd (List.mem_of_getElem? hp') (hfresh _)
    · cases hpe; exact absurd (List.mem_of_getElem? hq') (hfresh _)
    · rfl
  lin_unique := by
    intro p q t' i' hp hq
    rcases getElem?_snoc hp with ⟨_, hp'⟩ | ⟨_, hpe⟩
    · rcases getElem?_snoc hq with ⟨_, hq'⟩ | ⟨_, hqe⟩
      · exact hwf.lin_unique _ _ _ _ hp' hq'
      · cases hqe
    · cases hpe
  ret_unique := by
    intro p q t' i' o o' hp hq
    rcases getElem?_snoc hp with ⟨_, hp'⟩ | ⟨_, hpe⟩
    · rcases getElem?_snoc hq with ⟨_, hq'⟩ | ⟨_, hqe⟩
      · exact hwf.ret_unique _ _ _ _ _ _ hp' hq'
      · cases hqe
    · cases hpe
  lin_after_inv := by
    intro p t' i' hp
    rcases getElem?_snoc hp with ⟨_, hp'⟩ | ⟨_, hpe⟩
    · obtain ⟨q, op', hq, hq'⟩ := hwf.lin_after_inv _ _ _ hp'
      exact ⟨q, op', hq, getElem?_snoc_of hq'⟩
    · cases hpe
  ret_after_lin := by
    intro p t' i' o hp
    rcases getElem?_snoc hp with ⟨_, hp'⟩ | ⟨_, hpe⟩
    · obtain ⟨q, hq, hq'⟩ := hwf.ret_after_lin _ _ _ _ hp'
      exact ⟨q, hq, getElem?_snoc_of hq'⟩
    · cases hpe

/-- an invoked, not yet linearized name may be linearized -/
theorem PointsWF.append_lin {h : List (HEv K V)} (hwf : PointsWF h) {t i : Nat} {op : Op K V}
    (hinv : HEv.inv t i op ∈ h) (hnew : HEv.lin t i ∉ h) : PointsWF (h ++ [HEv.lin t i]) where
  inv_unique := by
    intro p q t' i' o o' hp hq
    rcases getElem?_snoc hp with ⟨_, hp'⟩ | ⟨_, hpe⟩
    · rcases getElem?_snoc hq with ⟨_, hq'⟩ | ⟨_, hqe⟩
      · exact hwf.inv_unique _ _ _ _ _ _ hp' hq'
      · cases hqe
    · cases hpe
  lin_unique := by
    intro p q t' i' hp hq
    rcases getElem?_snoc hp with ⟨_, hp'⟩ | ⟨rfl, hpe⟩ <;>
      rcases getElem?_snoc hq with ⟨_, hq'⟩ | ⟨rfl, hqe⟩
    · exact hwf.lin_unique _ _ _ _ hp' hq'
    · cases hqe; exact absurd (List.mem_of_getElem? hp') hnew
    · cases hpe; exact absurd (List.mem_of_getElem? hq') hnew
    · rfl
  ret_unique := by
    intro p q t' i' o o' hp hq
    rcases getElem?_snoc hp with ⟨_, hp'⟩ | ⟨_, hpe⟩
    · rcases getElem?_snoc hq with ⟨_, hq'⟩ | ⟨_, hqe⟩
      · exact hwf.ret_unique _ _ _ _ _ _ hp' hq'
      · cases hqe
    · cases hpe
  lin_after_inv := by
    intro p t' i' hp
    rcases getElem?_snoc hp with ⟨_, hp'⟩ | ⟨rfl, hpe⟩
    · obtain ⟨q, op', hq, hq'⟩ := hwf.lin_after_inv _ _ _ hp'
      exact ⟨q, op', hq, getElem?_snoc_of hq'⟩
    · cases hpe
      obtain ⟨q, hq, hq'⟩ := mem_getElem?_lt hinv
      exact ⟨q, op, hq, getElem?_snoc_of hq'⟩
  ret_after_lin := by
    intro p t' i' o hp
    rcases getElem?_snoc hp with ⟨_, hp'⟩ | ⟨_, hpe⟩
    · obtain ⟨q, hq, hq'⟩ := hwf.ret_after_lin _ _ _ _ hp'
      exact ⟨q, hq, getElem?_snoc_of hq'⟩
    · cases hpe

/-- a linearized, not yet returned name may return -/
theorem PointsWF.append_ret {h : List (HEv K V)} (hwf : PointsWF h) {t i : Nat} (out : Out V)
    (hlin : HEv.lin t i ∈ h) (hnew : ∀ o, HEv.ret t i o ∉ h) :
    PointsWF (h ++ [HEv.ret t i out]) where
  inv_unique := by
    intro p q t' i' o o' hp hq
    rcases getElem?_snoc hp with ⟨_, hp'⟩ | ⟨_, hpe⟩
    · rcases getElem?_snoc hq with ⟨_, hq'⟩ | ⟨_, hqe⟩
      · exact hwf.inv_unique _ _ _ _ _ _ hp' hq'
      · cases hqe
    · cases hpe
  lin_unique := by
    intro p q t' i' hp hq
    rcases getElem?_snoc hp with ⟨_, hp'⟩ | ⟨_, hpe⟩
    · rcases getElem?_snoc hq with ⟨_, hq'⟩ | ⟨_, hqe⟩
      · exact hwf.lin_unique _ _ _ _ hp' hq'
      · cases hqe
    · cases hpe
  ret_unique := by
    intro p q t' i' o o' hp hq
    rcases getElem?_snoc hp with ⟨_, hp'⟩ | ⟨rfl, hpe⟩ <;>
      rcases getElem?_snoc hq with ⟨_, hq'⟩ | ⟨rfl, hqe⟩
    · exact hwf.ret_unique _ _ _ _ _ _ hp' hq'
    · cases hqe; exact absurd (List.mem_of_getElem? hp') (hnew _)
    · cases hpe; exact absurd (List.mem_of_getElem? hq') (hnew _)
    · rfl
  lin_after_inv := by
    intro p t' i' hp
    rcases getElem?_snoc hp with ⟨_, hp'⟩ | ⟨_, hpe⟩
    · obtain ⟨q, op', hq, hq'⟩ := hwf.lin_after_inv _ _ _ hp'
      exact ⟨q, op', hq, getElem?_snoc_of hq'⟩
    · cases hpe
  ret_after_lin := by
    intro p t' i' o hp
    rcases getElem?_snoc hp with ⟨_, hp'⟩ | ⟨rfl, hpe⟩
    · obtain ⟨q, hq, hq'⟩ := hwf.ret_after_lin _ _ _ _ hp'
      exact ⟨q, hq, getElem?_snoc_of hq'⟩
    · cases hpe
      obtain ⟨q, hq, hq'⟩ := mem_getElem?_lt hlin
      exact ⟨q, hq, getElem?_snoc_of hq'⟩

/-! ### how `linOrder` and `replay` grow -/

theorem invOp_append_of_some {h : List (HEv K V)} (e : HEv K V) {t i : Nat} {op : Op K V}
    (h1 : invOp h t i = some op) : invOp (h ++ [e]) t i = some op := by
  unfold invOp at *
  rw [List.findSome?_append, h1]
  rfl

theorem invOp_eq_none {h : List (HEv K V)} {t i : Nat} :
    invOp h t i = none ↔ ∀ op, HEv.inv t i op ∉ h := by
  unfold invOp
  rw [List.findSome?_eq_none_iff]
  constructor
  · intro hn op hmem
    have := hn _ hmem
    simp at this
  · intro hn e hmem
    cases e with
    | inv t' i' op =>
      by_cases hc : t' = t ∧ i' = i
      · obtain ⟨rfl, rfl⟩ := hc
        exact absurd hmem (hn op)
      · simp [hc]
    | ret t' i' out => rfl
    | lin t' i' => rfl

theorem linF_append {h : List (HEv K V)} (hwf : PointsWF h) (e : HEv K V) :
    ∀ x ∈ h, linF (h ++ [e]) x = linF h x := by
  intro x hx
  cases x with
  | inv t i op => rfl
  | ret t i out => rfl
  | lin t i =>
    obtain ⟨L, hL⟩ := List.mem_iff_getElem?.1 hx
    obtain ⟨q, op, _, hq⟩ := hwf.lin_after_inv _ _ _ hL
    have h1 := invOp_eq hwf hq
    simp [linF, h1, invOp_append_of_some e h1]

theorem linOrder_append_nonlin {h : List (HEv K V)} (hwf : PointsWF h) {e : HEv K V}
    (he : e.isLin = false) : linOrder (h ++ [e]) = linOrder h := by
  unfold linOrder
  rw [List.filterMap_append, filterMap_congr' (linF_append hwf e)]
  cases e <;> simp_all [linF, HEv.isLin]

theorem linOrder_append_lin {h : List (HEv K V)} (hwf : PointsWF h) {t i : Nat} {op : Op K V}
    (hop : invOp h t i = some op) :
    linOrder (h ++ [HEv.lin t i]) = linOrder h ++ [(t, i, op)] := by
  unfold linOrder
  rw [List.filterMap_append, filterMap_congr' (linF_append hwf _)]
  simp [linF, invOp_append_of_some _ hop]

theorem mem_linOrder {h : List (HEv K V)} {x : Nat × Nat × Op K V} (hx : x ∈ linOrder h) :
    HEv.lin x.1 x.2.1 ∈ h := by
  unfold linOrder at hx
  obtain ⟨e, he, hf⟩ := List.mem_filterMap.1 hx
  cases e with
  | inv t i op => simp [linF] at hf
  | ret t i out => simp [linF] at hf
  | lin t i =>
    simp [linF] at hf
    obtain ⟨op, _, rfl⟩ := hf
    exact he

theorem replay_append_nonlin (lt : K → K → Bool) (init : List (K × V)) {h : List (HEv K V)}
    (hwf : PointsWF h) {e : HEv K V} (he : e.isLin = false) :
    replay lt init (h ++ [e]) = replay lt init h := by
  unfold replay
  rw [linOrder_append_nonlin hwf he]

theorem replay_append_lin (lt : K → K → Bool) (init : List (K × V)) {h : List (HEv K V)}
    (hwf : PointsWF h) {t i : Nat} {op : Op K V} (hop : invOp h t i = some op) :
    replay lt init (h ++ [HEv.lin t i]) =
      ((Spec.step lt (replay lt init h).1 op).1,
        (replay lt init h).2 ++ [(Spec.step lt (replay lt init h).1 op).2]) := by
  unfold replay
  rw [linOrder_append_lin hwf hop, List.map_append, List.map_singleton, run_append]

theorem zip_append_lin (lt : K → K → Bool) (init : List (K × V)) {h : List (HEv K V)}
    (hwf : PointsWF h) {t i : Nat} {op : Op K V} (hop : invOp h t i = some op) :
    List.zip (linOrder (h ++ [HEv.lin t i])) (replay lt init (h ++ [HEv.lin t i])).2 =
      List.zip (linOrder h) (replay lt init h).2 ++
        [((t, i, op), (Spec.step lt (replay lt init h).1 op).2)] := by
  rw [replay_append_lin lt init hwf hop, linOrder_append_lin hwf hop, List.zip_append]
  · rfl
  · simp [replay, run_length]

/-! ### the state carried along -/

/-- where an operation name stands -/
inductive Status (K V : Type) where
  | fresh                                   -- not invoked
  | invoked (op : Op K V)                   -- invoked with `op`, no `lin` yet
  | linearized (op : Op K V) (out : Out V)  -- took effect; the specification answered `out`
  | returned

/-- the abstract map after the `lin` events so far, and the status of every name -/
structure LinState (K V : Type) where
  map : List (K × V)
  status : Nat → Nat → Status K V

def LinState.set (s : LinState K V) (m : List (K × V)) (t i : Nat) (st : Status K V) :
    LinState K V :=
  ⟨m, fun t' i' => if t' = t ∧ i' = i then st else s.status t' i'⟩

/-- effect of one event; events that do not fit the status of their name are ignored -/
def LinState.step (lt : K → K → Bool) (s : LinState K V) : HEv K V → LinState K V
  | .inv t i op =>
    match s.status t i with
    | .fresh => s.set s.map t i (.invoked op)
    | _ => s
  | .lin t i =>
    match s.status t i with
    | .invoked op => s.set (Spec.step lt s.map op).1 t i (.linearized op (Spec.step lt s.map op).2)
    | _ => s
  | .ret t i _ =>
    match s.status t i with
    | .linearized _ _ => s.set s.map t i .returned
    | _ => s

def linState (lt : K → K → Bool) (init : List (K × V)) (h : List (HEv K V)) : LinState K V :=
  h.foldl (LinState.step lt) ⟨init, fun _ _ => .fresh⟩

@[simp] theorem linState_nil (lt : K → K → Bool) (init : List (K × V)) :
    linState lt init ([] : List (HEv K V)) = ⟨init, fun _ _ => .fresh⟩ := rfl

theorem linState_append (lt : K → K → Bool) (init : List (K × V)) (h : List (HEv K V))
    (e : HEv K V) : linState lt init (h ++ [e]) = (linState lt init h).step lt e := by
  simp [linState, List.foldl_append]

/-- what the status of a name says about the history -/
def StatusOk (lt : K → K → Bool) (init : List (K × V)) (h : List (HEv K V)) (t i : Nat) :
    Status K V → Prop
  | .fresh => ∀ op, HEv.inv t i op ∉ h
  | .invoked op => invOp h t i = some op ∧ HEv.lin t i ∉ h
  | .linearized _ out =>
      HEv.lin t i ∈ h ∧ (∀ o, HEv.ret t i o ∉ h) ∧
        ∀ x ∈ List.zip (linOrder h) (replay lt init h).2, x.1.1 = t → x.1.2.1 = i → x.2 = out
  | .returned => True

/-- `h` is a well-formed decorated history whose `lin` order replays correctly, `m` is the
    abstract map after its `lin` events, and `linState` describes it faithfully -/
structure Points (lt : K → K → Bool) (init : List (K × V)) (h : List (HEv K V))
    (m : List (K × V)) : Prop where
  wf : PointsWF h
  spec : PointsSpec lt init h
  replay_map : (replay lt init h).1 = m
  state_map : (linState lt init h).map = m
  status_ok : ∀ t i, StatusOk lt init h t i ((linState lt init h).status t i)

theorem Points.nil (lt : K → K → Bool) (init : List (K × V)) :
    Points lt init ([] : List (HEv K V)) init where
  wf := PointsWF.nil
  spec := by intro x hx; simp [linOrder] at hx
  replay_map := rfl
  state_map := rfl
  status_ok := by intro t i; simp [StatusOk]

theorem Points.linearizable {lt : K → K → Bool} {init : List (K × V)} {h : List (HEv K V)}
    {m : List (K × V)} (hp : Points lt init h m) : Linearizable lt init (visible h) :=
  linearizable_of_points lt init h hp.wf hp.spec

/-! ### the three append lemmas -/

theorem StatusOk.append_inv {lt : K → K → Bool} {init : List (K × V)} {h : List (HEv K V)}
    (hwf : PointsWF h) {t i t' i' : Nat} (op : Op K V) (hne : ¬(t' = t ∧ i' = i))
    {st : Status K V} (hst : StatusOk lt init h t' i' st) :
    StatusOk lt init (h ++ [HEv.inv t i op]) t' i' st := by
  have hlo := linOrder_append_nonlin hwf (e := HEv.inv t i op) rfl
  have hrp := replay_append_nonlin lt init hwf (e := HEv.inv t i op) rfl
  cases st with
  | fresh =>
    intro op' hmem
    rcases List.mem_append.1 hmem with h1 | h1
    · exact hst op' h1
    · simp at h1; exact hne ⟨h1.1, h1.2.1⟩
  | invoked op' =>
    exact ⟨invOp_append_of_some _ hst.1, by simp [hst.2]⟩
  | linearized op' out =>
    refine ⟨List.mem_append_left _ hst.1, ?_, ?_⟩
    · intro o; simp [hst.2.1 o]
    · rw [hlo, hrp]; exact hst.2.2
  | returned => trivial

theorem StatusOk.append_ret {lt : K → K → Bool} {init : List (K × V)} {h : List (HEv K V)}
    (hwf : PointsWF h) {t i t' i' : Nat} (out : Out V) (hne : ¬(t' = t ∧ i' = i))
    {st : Status K V} (hst : StatusOk lt init h t' i' st) :
    StatusOk lt init (h ++ [HEv.ret t i out]) t' i' st := by
  have hlo := linOrder_append_nonlin hwf (e := HEv.ret t i out) rfl
  have hrp := replay_append_nonlin lt init hwf (e := HEv.ret t i out) rfl
  cases st with
  | fresh =>
    intro op' hmem
    rcases List.mem_append.1 hmem with h1 | h1
    · exact hst op' h1
    · simp at h1
  | invoked op' =>
    exact ⟨invOp_append_of_some _ hst.1, by simp [hst.2]⟩
  | linearized op' out' =>
    refine ⟨List.mem_append_left _ hst.1, ?_, ?_⟩
    · intro o hmem
      rcases List.mem_append.1 hmem with h1 | h1
      · exact hst.2.1 o h1
      · simp at h1; exact hne ⟨h1.1, h1.2.1⟩
    · rw [hlo, hrp]; exact hst.2.2
  | returned => trivial

theorem StatusOk.append_lin {lt : K → K → Bool} {init : List (K × V)} {h : List (HEv K V)}
    (hwf : PointsWF h) {t i t' i' : Nat} {op : Op K V} (hop : invOp h t i = some op)
    (hne : ¬(t' = t ∧ i' = i)) {st : Status K V} (hst : StatusOk lt init h t' i' st) :
    StatusOk lt init (h ++ [HEv.lin t i]) t' i' st := by
  cases st with
  | fresh =>
    intro op' hmem
    rcases List.mem_append.1 hmem with h1 | h1
    · exact hst op' h1
    · simp at h1
  | invoked op' =>
    refine ⟨invOp_append_of_some _ hst.1, ?_⟩
    intro hmem
    rcases List.mem_append.1 hmem with h1 | h1
    · exact hst.2 h1
    · simp at h1; exact hne h1
  | linearized op' out' =>
    refine ⟨List.mem_append_left _ hst.1, ?_, ?_⟩
    · intro o; simp [hst.2.1 o]
    · rw [zip_append_lin lt init hwf hop]
      intro x hx h1 h2
      rcases List.mem_append.1 hx with h3 | h3
      · exact hst.2.2 x h3 h1 h2
      · simp at h3; subst h3; exact absurd ⟨h1.symm, h2.symm⟩ hne
  | returned => trivial

/-- appending `inv tid idx op` for a fresh name: the abstract map is unchanged -/
theorem points_append_inv {lt : K → K → Bool} {init : List (K × V)} {h : List (HEv K V)}
    {m : List (K × V)} (hp : Points lt init h m) {t i : Nat} (op : Op K V)
    (hs : (linState lt init h).status t i = .fresh) :
    Points lt init (h ++ [HEv.inv t i op]) m := by
  have hfresh : ∀ op', HEv.inv t i op' ∉ h := by
    have := hp.status_ok t i; rw [hs] at this; exact this
  have hnolin : HEv.lin t i ∉ h := by
    intro hmem
    obtain ⟨L, hL⟩ := List.mem_iff_getElem?.1 hmem
    obtain ⟨q, op', _, hq⟩ := hp.wf.lin_after_inv _ _ _ hL
    exact hfresh op' (List.mem_of_getElem? hq)
  have hlo := linOrder_append_nonlin hp.wf (e := HEv.inv t i op) rfl
  have hrp := replay_append_nonlin lt init hp.wf (e := HEv.inv t i op) rfl
  have hst : linState lt init (h ++ [HEv.inv t i op]) =
      (linState lt init h).set (linState lt init h).map t i (.invoked op) := by
    rw [linState_append]; simp [LinState.step, hs]
  refine ⟨hp.wf.append_inv op hfresh, ?_, ?_, ?_, ?_⟩
  · intro x hx out hmem
    rw [hlo, hrp] at hx
    rcases List.mem_append.1 hmem with h1 | h1
    · exact hp.spec x hx out h1
    · simp at h1
  · rw [hrp]; exact hp.replay_map
  · rw [hst]; exact hp.state_map
  · intro t' i'
    rw [hst]
    by_cases hc : t' = t ∧ i' = i
    · obtain ⟨rfl, rfl⟩ := hc
      simp only [LinState.set, and_self, if_true]
      refine ⟨?_, by simp [hnolin]⟩
      have hn := invOp_eq_none.2 hfresh
      unfold invOp at hn ⊢
      rw [List.findSome?_append, hn]
      simp
    · simp only [LinState.set, if_neg hc]
      exact (hp.status_ok t' i').append_inv hp.wf op hc

/-- appending `lin tid idx` for an invoked, not yet linearized name with operation `op`:
    the abstract map becomes `(Spec.step lt m op).1` -/
theorem points_append_lin {lt : K → K → Bool} {init : List (K × V)} {h : List (HEv K V)}
    {m : List (K × V)} (hp : Points lt init h m) {t i : Nat} {op : Op K V}
    (hs : (linState lt init h).status t i = .invoked op) :
    Points lt init (h ++ [HEv.lin t i]) (Spec.step lt m op).1 := by
  obtain ⟨hop, hnolin⟩ : invOp h t i = some op ∧ HEv.lin t i ∉ h := by
    have := hp.status_ok t i; rw [hs] at this; exact this
  have hinv : HEv.inv t i op ∈ h := by
    obtain ⟨q, hq⟩ := invOp_some hop
    exact List.mem_of_getElem? hq
  have hnoret : ∀ o, HEv.ret t i o ∉ h := by
    intro o hmem
    obtain ⟨P, hP⟩ := List.mem_iff_getElem?.1 hmem
    obtain ⟨q, _, hq⟩ := hp.wf.ret_after_lin _ _ _ _ hP
    exact hnolin (List.mem_of_getElem? hq)
  have hzip := zip_append_lin lt init hp.wf hop
  have hrp := replay_append_lin lt init hp.wf hop
  have hst : linState lt init (h ++ [HEv.lin t i]) =
      (linState lt init h).set (Spec.step lt (linState lt init h).map op).1 t i
        (.linearized op (Spec.step lt (linState lt init h).map op).2) := by
    rw [linState_append]; simp [LinState.step, hs]
  refine ⟨hp.wf.append_lin hinv hnolin, ?_, ?_, ?_, ?_⟩
  · intro x hx out hmem
    have hmem' : HEv.ret x.1.1 x.1.2.1 out ∈ h := by
      rcases List.mem_append.1 hmem with h1 | h1
      · exact h1
      · simp at h1
    rw [hzip] at hx
    rcases List.mem_append.1 hx with h1 | h1
    · exact hp.spec x h1 out hmem'
    · simp at h1; subst h1; exact absurd hmem' (hnoret out)
  · rw [hrp]; simp only; rw [hp.replay_map]
  · rw [hst]; simp only [LinState.set]; rw [hp.state_map]
  · intro t' i'
    rw [hst]
    by_cases hc : t' = t ∧ i' = i
    · obtain ⟨rfl, rfl⟩ := hc
      simp only [LinState.set, and_self, if_true]
      refine ⟨by simp, ?_, ?_⟩
      · intro o; simp [hnoret o]
      · rw [hzip]
        intro x hx h1 h2
        rcases List.mem_append.1 hx with h3 | h3
        · have := mem_linOrder (List.of_mem_zip h3).1
          rw [h1, h2] at this
          exact absurd this hnolin
        · simp at h3; subst h3
          simp only
          rw [hp.replay_map, hp.state_map]
    · simp only [LinState.set, if_neg hc]
      exact (hp.status_ok t' i').append_lin hp.wf hop hc

/-- appending `ret tid idx out` for a linearized, not yet returned name whose recorded output
    is `out`: the abstract map is unchanged -/
theorem points_append_ret {lt : K → K → Bool} {init : List (K × V)} {h : List (HEv K V)}
    {m : List (K × V)} (hp : Points lt init h m) {t i : Nat} {op : Op K V} {out : Out V}
    (hs : (linState lt init h).status t i = .linearized op out) :
    Points lt init (h ++ [HEv.ret t i out]) m := by
  obtain ⟨hlin, hnoret, hz⟩ := by
    have := hp.status_ok t i; rw [hs] at this; exact this
  have hlo := linOrder_append_nonlin hp.wf (e := HEv.ret t i out) rfl
  have hrp := replay_append_nonlin lt init hp.wf (e := HEv.ret t i out) rfl
  have hst : linState lt init (h ++ [HEv.ret t i out]) =
      (linState lt init h).set (linState lt init h).map t i .returned := by
    rw [linState_append]; simp [LinState.step, hs]
  refine ⟨hp.wf.append_ret out hlin hnoret, ?_, ?_, ?_, ?_⟩
  · intro x hx out' hmem
    rw [hlo, hrp] at hx
    rcases List.mem_append.1 hmem with h1 | h1
    · exact hp.spec x hx out' h1
    · simp at h1
      obtain ⟨h2, h3, rfl⟩ := h1
      exact (hz x hx h2 h3).symm
  · rw [hrp]; exact hp.replay_map
  · rw [hst]; exact hp.state_map
  · intro t' i'
    rw [hst]
    by_cases hc : t' = t ∧ i' = i
    · obtain ⟨rfl, rfl⟩ := hc
      simp only [LinState.set, and_self, if_true]
      trivial
    · simp only [LinState.set, if_neg hc]
      exact (hp.status_ok t' i').append_ret hp.wf out hc

/-! ### how the carried state evolves (for the client of the append lemmas) -/

theorem linState_append_inv {lt : K → K → Bool} {init : List (K × V)} {h : List (HEv K V)}
    {t i : Nat} (op : Op K V) (hs : (linState lt init h).status t i = .fresh) :
    linState lt init (h ++ [HEv.inv t i op]) =
      (linState lt init h).set (linState lt init h).map t i (.invoked op) := by
  rw [linState_append]; simp [LinState.step, hs]

theorem linState_append_lin {lt : K → K → Bool} {init : List (K × V)} {h : List (HEv K V)}
    {t i : Nat} {op : Op K V} (hs : (linState lt init h).status t i = .invoked op) :
    linState lt init (h ++ [HEv.lin t i]) =
      (linState lt init h).set (Spec.step lt (linState lt init h).map op).1 t i
        (.linearized op (Spec.step lt (linState lt init h).map op).2) := by
  rw [linState_append]; simp [LinState.step, hs]

theorem linState_append_ret {lt : K → K → Bool} {init : List (K × V)} {h : List (HEv K V)}
    {t i : Nat} {op : Op K V} {out : Out V} (o : Out V)
    (hs : (linState lt init h).status t i = .linearized op out) :
    linState lt init (h ++ [HEv.ret t i o]) =
      (linState lt init h).set (linState lt init h).map t i .returned := by
  rw [linState_append]; simp [LinState.step, hs]

@[simp] theorem LinState.set_map (s : LinState K V) (m : List (K × V)) (t i : Nat)
    (st : Status K V) : (s.set m t i st).map = m := rfl

@[simp] theorem LinState.set_status_self (s : LinState K V) (m : List (K × V)) (t i : Nat)
    (st : Status K V) : (s.set m t i st).status t i = st := by
  simp [LinState.set]

theorem LinState.set_status_of_ne (s : LinState K V) (m : List (K × V)) {t i t' i' : Nat}
    (st : Status K V) (hne : ¬(t' = t ∧ i' = i)) :
    (s.set m t i st).status t' i' = s.status t' i' := by
  simp [LinState.set, hne]

/-! ## Non-vacuity: an insert overlapping a search that sees it -/

namespace Example

def ltN : Nat → Nat → Bool := fun a b => decide (a < b)

/-- thread 0 inserts `1 ↦ 10`, thread 1 searches `1`; both are invoked before either returns,
    the search returns first and has seen the insert -/
def hist : List (HEv Nat Nat) :=
  [ .inv 0 0 (.insert 1 10),
    .inv 1 0 (.search 1),
    .lin 0 0,
    .lin 1 0,
    .ret 1 0 (.found (some 10)),
    .ret 0 0 .done ]

theorem hist_points : Points ltN [] hist [(1, 10)] := by
  have h0 := Points.nil ltN ([] : List (Nat × Nat))
  have h1 := points_append_inv h0 (t := 0) (i := 0) (.insert 1 10) rfl
  have h2 := points_append_inv h1 (t := 1) (i := 0) (.search 1) rfl
  have h3 := points_append_lin h2 (t := 0) (i := 0) (op := .insert 1 10) rfl
  have h4 := points_append_lin h3 (t := 1) (i := 0) (op := .search 1) rfl
  have h5 := points_append_ret h4 (t := 1) (i := 0) (op := .search 1)
    (out := .found (some 10)) rfl
  have h6 := points_append_ret h5 (t := 0) (i := 0) (op := .insert 1 10) (out := .done) rfl
  exact h6

example : Linearizable ltN [] (visible hist) := hist_points.linearizable

/-- the visible history is the four client events -/
example : visible hist =
    [ .inv 0 0 (.insert 1 10), .inv 1 0 (.search 1),
      .ret 1 0 (.found (some 10)), .ret 0 0 .done ] := rfl

/-- the definition of linearizability does reject: a search on the empty map that returns a
    value has no linearization -/
def bad : List (HEv Nat Nat) := [ .inv 0 0 (.search 1), .ret 0 0 (.found (some 10)) ]

theorem opsOf_bad : opsOf bad = [⟨0, 0, .search 1, 0, some (1, .found (some 10))⟩] := rfl

example : ¬ Linearizable ltN [] bad := by
  rintro ⟨ord, hl⟩
  have hmem := hl.complete _ (by rw [opsOf_bad]; exact List.mem_singleton.2 rfl) rfl
  have hall : ∀ o ∈ ord, o = ⟨0, 0, .search 1, 0, some (1, .found (some 10))⟩ := by
    intro o ho
    have := hl.ops o ho
    rw [opsOf_bad] at this
    exact List.mem_singleton.1 this
  match ord, hl, hmem, hall with
  | [], _, hmem, _ => simp at hmem
  | [a], hl, _, hall =>
    have ha := hall a (by simp)
    subst ha
    have := hl.spec (⟨0, 0, .search 1, 0, some (1, .found (some 10))⟩, .found none)
      (List.mem_singleton.2 rfl) 1 (.found (some 10)) rfl
    simp at this
  | a :: b :: rest, hl, _, hall =>
    have ha := hall a (by simp)
    have hb := hall b (by simp)
    have := hl.nodup
    rw [ha, hb] at this
    simp at this

end Example

end Gobptree.Lin
