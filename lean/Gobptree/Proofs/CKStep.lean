/-
  The key-order invariant is preserved by every scheduler step (programs without Delete:
  stage B), given the per-block results `ResumeKU`.
-/
import Gobptree.Proofs.CKBlock
import Gobptree.Proofs.CKPar
import Gobptree.Proofs.CSNoDel

namespace Gobptree.Conc
open Gobptree

variable {K V : Type}

/-- a freshly started operation parks with a trivial position (it holds no node yet) -/
theorem startOp_kpos (lt : K → K → Bool) (T : Tree K V) (t : Nat) (s : St K V) (op : COp K V) (p : Park K V)
    (h : (startOp t s op).2 = .park p) : parkKPos lt T p := by
  cases op with
  | ins k v =>
    simp only [startOp] at h
    split at h
    · cases h
    · cases h; simp [parkKPos, KPos]
  | upd k f y =>
    simp only [startOp] at h
    split at h
    · cases h
    · cases h; simp [parkKPos, KPos]
  | del k =>
    simp only [startOp] at h
    split at h
    · cases h
    · cases h; simp [parkKPos, KPos]
  | get k =>
    simp only [startOp] at h
    split at h
    · cases h
    · cases h; simp [parkKPos, KPos]
  | ns k =>
    simp only [startOp] at h
    split at h
    · cases h
    · cases h; simp [parkKPos, KPos]
  | pause =>
    simp only [startOp] at h
    injection h with h; subst h; simp [parkKPos, KPos]
  | scan =>
    simp only [startOp] at h
    split at h
    · split at h
      · cases h
      · split at h
        · split at h
          · cases h
          · injection h with h; subst h; simp [parkKPos, KPos]
        · cases h
    · cases h
  | pair =>
    simp only [startOp] at h
    split at h
    · split at h
      · cases h
      · split at h
        · cases h
        · split at h <;> cases h
    · cases h
  | close =>
    simp only [startOp] at h
    split at h <;> cases h

/-- where the park of the thread after the loop comes from -/
theorem threadLoop_park (t : Nat) (th : Thread K V) :
    ∀ (fuel : Nat) (s : St K V) (fl : Flow K V) (pc : Nat),
      let p' := (threadLoop t th fuel s fl pc).1.park
      fl = .park p' ∨ p' = .finished ∨ ∃ s1 op, (startOp t s1 op).2 = .park p' := by
  intro fuel
  induction fuel with
  | zero =>
    intro s fl pc
    cases fl with
    | panic => right; left; simp [threadLoop]
    | park p => left; simp [threadLoop]
    | done r => right; left; simp [threadLoop]
  | succ fuel ih =>
    intro s fl pc
    cases fl with
    | panic => right; left; simp [threadLoop]
    | park p => left; simp [threadLoop]
    | done r =>
      unfold threadLoop
      cases hop : th.prog[pc + 1]? with
      | none => right; left; simp
      | some op =>
        simp only
        rcases ih (startOp t ((s.note t (.ret pc r)).note t (.inv (pc + 1))) op).1
          (startOp t ((s.note t (.ret pc r)).note t (.inv (pc + 1))) op).2 (pc + 1) with h | h | h
        · right; right; exact ⟨_, op, h⟩
        · right; left; exact h
        · right; right; exact h


theorem keysOf_congr {t t' : Tree K V} {p : Nat} (h : t'.look p = t.look p) : keysOf t' p = keysOf t p := by
  unfold keysOf; rw [h]

/-- a parked thread's position survives any change that keeps the own fields of the nodes
    it holds and the route membership of the nodes it holds or relies on -/
theorem KPos_congr (lt : K → K → Bool) {t t' : Tree K V} (k : Kont K V)
    (hl : ∀ id, Lk.node id ∈ kontHeld k → t'.look id = t.look id)
    (hr : ∀ key id, (Lk.node id ∈ kontHeld k ∨ id ∈ kontExtra t k) →
      (OnRoute lt t key id → OnRoute lt t' key id) ∧ (InBounds lt t key id → InBounds lt t' key id))
    (hk : KontOk t k) (hp : KPos lt t k) : KPos lt t' k := by
  cases k with
  | roNode sc key hold want =>
    cases hold with
    | tree => trivial
    | node p =>
      simp only [KPos] at hp ⊢
      have e := hl p (by simp [kontHeld])
      exact ⟨(hr key p (Or.inl (by simp [kontHeld]))).1 hp.1, by rw [keysOf_congr e, kidAt_congr e]; exact hp.2⟩
  | upRootSib key f y root sib =>
    simp only [KPos] at hp ⊢
    exact (hr key sib (Or.inr (by simp [kontExtra]))).2 hp
  | upChild key f y parent index child =>
    simp only [KPos] at hp ⊢
    have e := hl parent (by simp [kontHeld])
    exact ⟨(hr key parent (Or.inl (by simp [kontHeld]))).2 hp.1, by rw [keysOf_congr e]; exact hp.2⟩
  | upSib key f y parent child sib =>
    simp only [KPos] at hp ⊢
    exact (hr key sib (Or.inr (by simp [kontExtra]))).2 hp
  | upCallback key f leaf arg =>
    simp only [KPos] at hp ⊢
    have e := hl leaf (by simp [kontHeld])
    obtain ⟨h1, sh, h2, h3⟩ := hp
    exact ⟨(hr key leaf (Or.inl (by simp [kontHeld]))).2 h1, sh, by rw [e]; exact h2, h3⟩
  | delLeft key frames node index left root =>
    simp only [KPos] at hp ⊢
    simp only [KontOk] at hk
    obtain ⟨h1, h2, _⟩ := hk
    have hmem : Lk.node node ∈ kontHeld (Kont.delLeft (V := V) key frames node index left root) := by
      rcases FramesOk_top h2 with e | e
      · rw [e]; simp [kontHeld]
      · simp [kontHeld, e]
    have e := hl node hmem
    exact ⟨(hr key node (Or.inl hmem)).1 hp.1, by rw [keysOf_congr e]; exact hp.2⟩
  | delChild key frames node index left child root =>
    simp only [KPos] at hp ⊢
    simp only [KontOk] at hk
    obtain ⟨h1, h2, _⟩ := hk
    have hmem : Lk.node node ∈ kontHeld (Kont.delChild (V := V) key frames node index left child root) := by
      rcases FramesOk_top h2 with e | e
      · rw [e]; simp [kontHeld]
      · simp [kontHeld, e]
    have e := hl node hmem
    exact ⟨(hr key node (Or.inl hmem)).1 hp.1, by rw [keysOf_congr e]; exact hp.2⟩
  | roTree sc key => trivial
  | upTree key f y => trivial
  | upRoot key f y r => trivial
  | delTree key => trivial
  | delRoot key r => trivial
  | delRight key rest fr right root => trivial
  | hop cur next => trivial
  | paused => trivial


/-- what another thread relies on without holding it is not in the stepping thread's hands -/
theorem extra_not_stepHeld {c : Config K V} (hS : SInv c) {t j : Nat} {th b : Thread K V}
    (ht : c.threads[t]? = some th) (hj : c.threads[j]? = some b) (hne : j ≠ t) {id : Nat}
    (hid : id ∈ parkExtra c.tree b.park) : Lk.node id ∉ stepHeld th := by
  have hex := hS.extra j t b th hj ht hne id hid
  intro hs
  unfold stepHeld at hs
  cases hp : th.park with
  | want l' k' =>
    rw [hp] at hs
    rcases List.mem_append.1 hs with h | h
    · exact hex.1 h
    · have : Lk.node id = l' := by simpa using h
      apply hex.2
      rw [hp]; simp [parkWant, this]
  | start => rw [hp] at hs; exact hex.1 hs
  | yielded k' => rw [hp] at hs; exact hex.1 hs
  | finished => rw [hp] at hs; exact hex.1 hs

/-- another thread's position survives the step -/
theorem other_kpos (lt : K → K → Bool) {c c' : Config K V} (hinv : CInv c) {t j : Nat} {th b : Thread K V}
    (ht : c.threads[t]? = some th) (hj : c.threads[j]? = some b) (hne : j ≠ t) (hen : th.enabled c = true)
    (hframe : StepFrame c c' th)
    (hst : StableRoutes lt (stepHeld th) c.tree c'.tree)
    (hp : parkKPos lt c.tree b.park) : parkKPos lt c'.tree b.park := by
  have hS := hinv.s
  have hbm : b ∈ c.threads := List.mem_of_getElem? hj
  have hok := hS.cfg b hbm
  have hsok := hS.threads b hbm
  have key : ∀ k, ((∃ l, b.park = .want l k) ∨ b.park = .yielded k) → KPos lt c.tree k → KPos lt c'.tree k := by
    intro k hbp hkp
    have hko : KontOk c.tree k := by
      have := hsok.1
      rcases hbp with ⟨l, h⟩ | h <;> rw [h] at this <;> exact this
    have hheld : ∀ l ∈ kontHeld k, l ∈ b.held := by
      intro l hl
      apply hok.1.mem_iff.2
      apply List.mem_append_right
      rcases hbp with ⟨l', h⟩ | h <;> rw [h] <;> exact hl
    apply KPos_congr lt k _ _ hko hkp
    · intro id hid
      obtain ⟨sh, hsh⟩ := thread_present hS.tree.ids hS.tree.chain hok hsok id (Or.inl (hheld _ hid))
      exact hframe.nodes id (look_lt_nextId hS.tree.ids hsh) (stepHeld_excl hS.owner ht hj hne hen (hheld _ hid))
    · intro key' id hid
      have hpe : id ∈ kontExtra c.tree k → id ∈ parkExtra c.tree b.park := by
        intro h
        rcases hbp with ⟨l', h'⟩ | h' <;> rw [h'] <;> exact h
      have hpres : ∃ sh, c.tree.look id = some sh := by
        rcases hid with h | h
        · exact thread_present hS.tree.ids hS.tree.chain hok hsok id (Or.inl (hheld _ h))
        · exact thread_present hS.tree.ids hS.tree.chain hok hsok id (Or.inr (Or.inr (hpe h)))
      obtain ⟨sh, hsh⟩ := hpres
      have hnot : Lk.node id ∉ stepHeld th := by
        rcases hid with h | h
        · exact stepHeld_excl hS.owner ht hj hne hen (hheld _ h)
        · exact extra_not_stepHeld hS ht hj hne (hpe h)
      exact hst key' id (look_lt_nextId hS.tree.ids hsh) hnot
  cases hpk : b.park with
  | start => trivial
  | finished => trivial
  | want l k => rw [hpk] at hp; exact key k (Or.inl ⟨l, hpk⟩) hp
  | yielded k => rw [hpk] at hp; exact key k (Or.inr hpk) hp

theorem StableRoutes.refl (lt : K → K → Bool) (H : List Lk) (t : Tree K V) : StableRoutes lt H t t :=
  fun _ _ _ _ => ⟨id, id⟩

/-- **the key-order invariant survives a step** (no Delete in flight) -/
theorem step_kinv_nodel (RU : ResumeKU K V) (lt : K → K → Bool) (c c' : Config K V) (t : Nat)
    (hstep : c.step t = some c') (hinv : CInv c) (hk : KInv lt c) (hkp : KParams lt c.P)
    (hnd : ∀ th ∈ c.threads, isDelPark th.park = false) : KInv lt c' := by
  obtain ⟨th, ht, hen, r, hr, hc'⟩ := step_shape hstep
  obtain ⟨hinv', th2, ht2, hframe⟩ := step_cinv blocks_ok c c' t hstep hinv
  rw [ht] at ht2
  cases ht2
  have htm : th ∈ c.threads := List.mem_of_getElem? ht
  have hS := hinv.s
  have hok := hS.cfg th htm
  have hsok := hS.threads th htm
  have hnf := enabled_not_finished hen
  have htree' : c'.tree = r.2.1.tree := by rw [hc']
  have hths' : c'.threads = c.threads.set t r.1 := by rw [hc']
  -- what the thread's own stretch gives
  have main : OrdTree lt r.2.1.tree ∧ parkKPos lt r.2.1.tree r.1.park ∧
      StableRoutes lt (stepHeld th) c.tree r.2.1.tree := by
    have hfin : ∀ (T : Tree K V) (fuel : Nat) (s : St K V) (fl : Flow K V) (pc : Nat),
        (∀ p, fl = .park p → parkKPos lt T p) → parkKPos lt T (threadLoop t th fuel s fl pc).1.park := by
      intro T fuel s fl pc hfl
      rcases threadLoop_park t th fuel s fl pc with h | h | ⟨s1, op, h⟩
      · exact hfl _ h
      · rw [h]; trivial
      · exact startOp_kpos lt T t s1 op _ h
    rw [hr]
    unfold runThread
    cases hp : th.park with
    | finished => exact absurd hp hnf
    | start =>
      simp only
      cases hop : th.prog[0]? with
      | none => exact ⟨hk.ord, trivial, StableRoutes.refl _ _ _⟩
      | some op =>
        simp only
        have ht1 : (threadLoop t th th.prog.length (startOp t ((stepSt c t th).note t (.inv 0)) op).1
            (startOp t ((stepSt c t th).note t (.inv 0)) op).2 0).2.1.tree = c.tree := by
          rw [threadLoop_tree, startOp_tree]; rfl
        rw [ht1]
        exact ⟨hk.ord, hfin _ _ _ _ _ (fun p h => startOp_kpos lt _ t _ op p h), StableRoutes.refl _ _ _⟩
    | want l k =>
      simp only
      have hkpos : KPos lt c.tree k := by
        have := hk.pos th htm; rw [hp] at this; exact this
      have hdel : isDelK k = false := by
        have := hnd th htm; rw [hp] at this; exact this
      have hko : KontOk c.tree k := by have := hsok.1; rw [hp] at this; exact this
      have hcur : CursorOk c.tree (isHopK k) th.cursor := by
        have := hsok.2; rw [hp, isHop_want] at this; exact this
      have hkpre : KontPre th.cursor k := by have := hok.2.1; rw [hp] at this; exact this
      have hcov := covers_of_ok (s0 := stepSt c t th) rfl hok k (Or.inr ⟨l, hp⟩)
      obtain ⟨hpost, hst⟩ := RU lt c.P t (stepSt c t th) k (stepHeld th) (holeOf c.threads) hdel hkp
        ⟨hS.tree, hS.order, hS.pad⟩ hko hcur hkpre hcov hk.ord hkpos
      rw [threadLoop_tree]
      exact ⟨hpost.ord, hfin _ _ _ _ _ hpost.kpos, hst⟩
    | yielded k =>
      simp only
      have hkpos : KPos lt c.tree k := by
        have := hk.pos th htm; rw [hp] at this; exact this
      have hdel : isDelK k = false := by
        have := hnd th htm; rw [hp] at this; exact this
      have hko : KontOk c.tree k := by have := hsok.1; rw [hp] at this; exact this
      have hlock : kontLock k = none := by have := hok.2.2; rw [hp] at this; exact this
      have hhop : isHopK k = false := by
        cases k <;> first | rfl | (simp [kontLock] at hlock)
      have hcur : CursorOk c.tree (isHopK k) th.cursor := by
        have := hsok.2; rw [hp, isHop_yielded] at this; rw [hhop]; exact this
      have hkpre : KontPre th.cursor k := by have := hok.2.1; rw [hp] at this; exact this
      have hcov := covers_of_ok (s0 := stepSt c t th) rfl hok k (Or.inl hp)
      obtain ⟨hpost, hst⟩ := RU lt c.P t (stepSt c t th) k (stepHeld th) (holeOf c.threads) hdel hkp
        ⟨hS.tree, hS.order, hS.pad⟩ hko hcur hkpre hcov hk.ord hkpos
      rw [threadLoop_tree]
      exact ⟨hpost.ord, hfin _ _ _ _ _ hpost.kpos, hst⟩
  obtain ⟨hord, hnewpos, hst⟩ := main
  refine ⟨by rw [htree']; exact hord, ?_⟩
  intro b hb
  obtain ⟨j, hj⟩ := List.getElem?_of_mem hb
  rw [hths'] at hj
  rcases getElem?_set_cases _ _ _ _ _ hj with ⟨_, e⟩ | ⟨hne, hjo⟩
  · rw [e, htree']; exact hnewpos
  · exact other_kpos lt hinv ht hjo hne hen hframe (by rw [htree']; exact hst) (hk.pos b (List.mem_of_getElem? hjo))

end Gobptree.Conc
