/-
  C05, the concurrent counter corollary: N concurrent `Update k (+1)` raise the counter at
  `k` by exactly N, under EVERY schedule, with arbitrary operations on other keys (Inserts,
  Updates, Deletes, cursor sessions) running alongside.

  1. `reachable_lininv` / `reachable_abs_is_replay`: what the linearizability proof knows but
     did not state — in every reachable configuration the abstract map of the tree IS the
     result of running the specification over the operations linearized so far, in
     linearization order.
  2. `counter_conc` (and the readable forms `C05_counter_conc`, `C05_counter_conc_zero`): the
     final count, once every thread has finished.
  3. `counter_at_every_moment`: in every reachable configuration the counter is the initial
     value bumped by a number of increments that lies between the increments that have
     returned and those that have been invoked (both read off `history c`).
-/
import Gobptree.Proofs.CCounterSpec
import Gobptree.Proofs.CCounterNames
import Gobptree.Proofs.CCounterRet
import Gobptree.Proofs.CFinal2
import Gobptree.Proofs.CClean

namespace Gobptree.Conc
open Gobptree Gobptree.Lin

variable {K V : Type}

/-! ## 1. the invariant behind linearizability, as a theorem -/

/-- **every reachable configuration has a decorated history satisfying the linearizability
    invariant** (the induction inside `linearizable_full'`, stated on its own) -/
theorem reachable_lininv (lt : K → K → Bool) (P : Params K) (tree : Tree K V) (progs : List (List (COp K V)))
    (hkp : KParams lt P) (ht : TreeOk none tree) (hord : OrdTree lt tree) (hsep : SepTree lt tree)
    (ho : tree.order = P.order) (hp : PadOk P) (hd : Disciplined progs)
    (hdel : 4 ≤ tree.order ∨ NoDelete progs)
    (c : Config K V) (hr : Reachable (Config.init P tree progs) c) :
    ∃ h, LinInv lt tree.abs c h := by
  induction hr with
  | refl => exact ⟨[], init_lininv lt P tree progs⟩
  | @step c1 c2 t hr1 hs ih =>
    obtain ⟨h, hl⟩ := ih
    exact step_lininv_full kblocks_ok lt tree.abs c1 c2 t hs
      (reachable_kfinv' lt P tree progs hkp ht hord hsep ho hp hd hdel c1 hr1) h hl

/-- **the abstract map is the replay of the specification along the linearization points**:
    in every reachable configuration there is a decoration `h` of the client-visible history
    with linearization points (well formed: one `lin` inside the interval of every returned
    operation) such that the contents of the tree are exactly `Spec.run` of the operations
    linearized so far, in linearization order, from the initial contents -/
theorem reachable_abs_is_replay (lt : K → K → Bool) (P : Params K) (tree : Tree K V) (progs : List (List (COp K V)))
    (hkp : KParams lt P) (ht : TreeOk none tree) (hord : OrdTree lt tree) (hsep : SepTree lt tree)
    (ho : tree.order = P.order) (hp : PadOk P) (hd : Disciplined progs)
    (hdel : 4 ≤ tree.order ∨ NoDelete progs)
    (c : Config K V) (hr : Reachable (Config.init P tree progs) c) :
    ∃ h, PointsWF h ∧ PointsSpec lt tree.abs h ∧ visible h = history c ∧
      c.tree.abs = (Spec.run lt tree.abs ((linOrder h).map (·.2.2))).1 := by
  obtain ⟨h, hl⟩ := reachable_lininv lt P tree progs hkp ht hord hsep ho hp hd hdel c hr
  exact ⟨h, hl.pts.wf, hl.pts.spec, hl.vis, hl.pts.replay_map.symm⟩

/-! ## the invocations of the history come from the programs -/

theorem hx_inv_prog (progs : Nat → List (COp K V)) :
    ∀ (evs : List (Ev K V)) (t i : Nat) (op : Op K V), HEv.inv t i op ∈ (hx progs evs).evs →
      ∃ cop, (progs t)[i]? = some cop ∧ opOf cop = some op := by
  intro evs
  induction evs with
  | nil => intro t i op h; simp [hx] at h
  | cons e rest ih =>
    intro t i op h
    rw [hx_cons] at h
    cases e with
    | note t' n =>
      cases n with
      | inv idx =>
        simp only [hxStep] at h
        split at h
        · rename_i op' hop'
          rcases List.mem_append.1 h with h1 | h1
          · exact ih t i op h1
          · simp only [List.mem_singleton, HEv.inv.injEq] at h1
            obtain ⟨rfl, rfl, rfl⟩ := h1
            cases hc : (progs t)[i]? with
            | none => rw [hc] at hop'; cases hop'
            | some cop => rw [hc] at hop'; exact ⟨cop, rfl, hop'⟩
        · exact ih t i op h
      | cb a => exact ih t i op h
      | ret idx r =>
        simp only [hxStep] at h
        split at h
        · split at h
          · rcases List.mem_append.1 h with h1 | h1
            · exact ih t i op h1
            · simp at h1
          · exact ih t i op h
        · exact ih t i op h
    | acq t' l => exact ih t i op h
    | rel t' l => exact ih t i op h
    | dec t' l => exact ih t i op h

/-- the invocations of a decorated history are calls of the programs -/
def HistFrom (progs : List (List (COp K V))) (h : List (HEv K V)) : Prop :=
  ∀ t i op, HEv.inv t i op ∈ h → ∃ p cop, progs[t]? = some p ∧ p[i]? = some cop ∧ opOf cop = some op

theorem mem_visible {h : List (HEv K V)} {x : HEv K V} : x ∈ visible h ↔ x ∈ h ∧ x.isLin = false := by
  unfold visible
  rw [List.mem_filter]
  cases x.isLin <;> simp

theorem progOf_reachable (P : Params K) (tree : Tree K V) (progs : List (List (COp K V)))
    (c : Config K V) (hr : Reachable (Config.init P tree progs) c) (t : Nat) :
    progOf c t = (progs[t]?).getD [] := by
  unfold progOf
  rw [← reachable_progs P tree progs c hr, List.getElem?_map]

theorem histFrom_of_lininv {lt : K → K → Bool} {init : List (K × V)} (P : Params K) (tree : Tree K V)
    (progs : List (List (COp K V))) (c : Config K V) (hr : Reachable (Config.init P tree progs) c)
    {h : List (HEv K V)} (hl : LinInv lt init c h) : HistFrom progs h := by
  intro t i op hm
  have hv : HEv.inv t i op ∈ history c := by
    rw [← hl.vis]; exact mem_visible.2 ⟨hm, rfl⟩
  obtain ⟨cop, hc, ho⟩ := hx_inv_prog (progOf c) c.log t i op hv
  rw [progOf_reachable P tree progs c hr t] at hc
  cases hp : progs[t]? with
  | none => rw [hp] at hc; simp at hc
  | some p => rw [hp] at hc; exact ⟨p, cop, rfl, hc, ho⟩

/-! ## facts on the linearization order of a well-formed decorated history -/

theorem mem_linOrder' {h : List (HEv K V)} {x : Nat × Nat × Op K V} (hx : x ∈ linOrder h) :
    HEv.lin x.1 x.2.1 ∈ h ∧ invOp h x.1 x.2.1 = some x.2.2 := by
  unfold linOrder at hx
  obtain ⟨e, he, hf⟩ := List.mem_filterMap.1 hx
  cases e with
  | inv t i op => simp [linF] at hf
  | ret t i out => simp [linF] at hf
  | lin t i =>
    simp only [linF, Option.map_eq_some_iff] at hf
    obtain ⟨op, h1, rfl⟩ := hf
    exact ⟨he, h1⟩

theorem linOrder_inv {h : List (HEv K V)} {x : Nat × Nat × Op K V} (hx : x ∈ linOrder h) :
    HEv.inv x.1 x.2.1 x.2.2 ∈ h := by
  obtain ⟨q, hq⟩ := invOp_some (mem_linOrder' hx).2
  exact List.mem_of_getElem? hq

theorem linOrder_of_lin {h : List (HEv K V)} (hwf : PointsWF h) {t i : Nat} (hl : HEv.lin t i ∈ h) :
    ∃ op, (t, i, op) ∈ linOrder h := by
  obtain ⟨L, hL⟩ := List.mem_iff_getElem?.1 hl
  obtain ⟨q, op, _, hq⟩ := hwf.lin_after_inv L t i hL
  refine ⟨op, ?_⟩
  unfold linOrder
  exact List.mem_filterMap.2 ⟨HEv.lin t i, hl, by simp [linF, invOp_eq hwf hq]⟩

theorem lin_of_ret {h : List (HEv K V)} (hwf : PointsWF h) {t i : Nat} {out : Out V}
    (hr : HEv.ret t i out ∈ h) : HEv.lin t i ∈ h := by
  obtain ⟨p, hp⟩ := List.mem_iff_getElem?.1 hr
  obtain ⟨q, _, hq⟩ := hwf.ret_after_lin p t i out hp
  exact List.mem_of_getElem? hq

/-- no name is linearized twice -/
theorem linOrder_names_nodup {h : List (HEv K V)} (hwf : PointsWF h) :
    ((linOrder h).map (fun x => (x.1, x.2.1))).Nodup := by
  apply nodup_of_getElem?_inj
  intro a b n ha hb
  rw [List.getElem?_map, Option.map_eq_some_iff] at ha hb
  obtain ⟨x, hxa, hxn⟩ := ha
  obtain ⟨y, hyb, hyn⟩ := hb
  obtain ⟨I, e1, h1, h2, h3⟩ := exists_of_getElem?_filterMap _ _ hxa
  obtain ⟨J, e2, h1', h2', h3'⟩ := exists_of_getElem?_filterMap _ _ hyb
  have he1 : e1 = HEv.lin x.1 x.2.1 := by
    cases e1 with
    | inv t i op => simp [linF] at h2
    | ret t i out => simp [linF] at h2
    | lin t i =>
      simp only [linF, Option.map_eq_some_iff] at h2
      obtain ⟨op, _, rfl⟩ := h2
      rfl
  have he2 : e2 = HEv.lin y.1 y.2.1 := by
    cases e2 with
    | inv t i op => simp [linF] at h2'
    | ret t i out => simp [linF] at h2'
    | lin t i =>
      simp only [linF, Option.map_eq_some_iff] at h2'
      obtain ⟨op, _, rfl⟩ := h2'
      rfl
  have hxy : x.1 = y.1 ∧ x.2.1 = y.2.1 := by
    have := hxn.trans hyn.symm
    simpa using this
  rw [he1] at h1
  rw [he2, ← hxy.1, ← hxy.2] at h1'
  have := hwf.lin_unique I J _ _ h1 h1'
  subst this
  omega

/-! ## programs that only increment the counter at `k` -/

/-- the call is an `Update` on a key equivalent to `k` -/
def isInc (lt : K → K → Bool) (k : K) : COp K Nat → Bool
  | .upd k' _ _ => eqv lt k' k
  | _ => false

/-- the call respects the counter at `k`: an Insert or Delete is on another key, an Update on
    a key equivalent to `k` has the increment as its callback (with or without a yield inside
    the callback); Search, cursor calls, pauses, and everything on other keys are free -/
def COpOk (lt : K → K → Bool) (k : K) : COp K Nat → Prop
  | .ins k' _ => eqv lt k' k = false
  | .del k' => eqv lt k' k = false
  | .upd k' f _ => eqv lt k' k = true → f = incr
  | _ => True

/-- every operation of `progs` on a key equivalent to `k` is `upd _ incr _` (or a read) -/
def CounterProgs (lt : K → K → Bool) (k : K) (progs : List (List (COp K Nat))) : Prop :=
  ∀ p ∈ progs, ∀ cop ∈ p, COpOk lt k cop

/-- the total number of `upd` calls on keys equivalent to `k` in all the programs -/
def incTotal (lt : K → K → Bool) (k : K) (progs : List (List (COp K Nat))) : Nat :=
  progs.flatten.countP (isInc lt k)

theorem opOk_of_copOk {lt : K → K → Bool} {k : K} {cop : COp K Nat} {op : Op K Nat}
    (h : COpOk lt k cop) (ho : opOf cop = some op) : OpOk lt k op := by
  cases cop <;> simp only [opOf, Option.some.injEq] at ho <;> first | (subst ho; exact h) | cases ho

theorem isIncOp_of_opOf {lt : K → K → Bool} {k : K} {cop : COp K Nat} {op : Op K Nat}
    (ho : opOf cop = some op) : isIncOp lt k op = isInc lt k cop := by
  cases cop <;> simp only [opOf, Option.some.injEq] at ho <;> first | (subst ho; rfl) | cases ho

theorem opOf_of_isInc {lt : K → K → Bool} {k : K} {cop : COp K Nat} (h : isInc lt k cop = true) :
    ∃ op, opOf cop = some op := by
  cases cop <;> first | exact ⟨_, rfl⟩ | cases h

/-- the number of increments of the counter at `k` linearized so far -/
def linIncs (lt : K → K → Bool) (k : K) (h : List (HEv K Nat)) : Nat :=
  ((linOrder h).map (·.2.2)).countP (isIncOp lt k)

section Points

variable {lt : K → K → Bool} {k : K} {progs : List (List (COp K Nat))} {h : List (HEv K Nat)}

theorem lin_entry_prog (hfrom : HistFrom progs h) {x : Nat × Nat × Op K Nat} (hx : x ∈ linOrder h) :
    ∃ p cop, progs[x.1]? = some p ∧ p[x.2.1]? = some cop ∧ opOf cop = some x.2.2 :=
  hfrom _ _ _ (linOrder_inv hx)

/-- **the counter at every linearization prefix**: the replay of the specification along the
    linearization points holds, at `k`, the initial value bumped by the number of increments
    linearized -/
theorem counter_of_points (hswo : SWO lt) (init : List (K × Nat)) (hfrom : HistFrom progs h)
    (hk : CounterProgs lt k progs) :
    Spec.lookup lt (replay lt init h).1 k = bump (linIncs lt k h) (Spec.lookup lt init k) := by
  unfold replay linIncs
  apply run_lookup_counter hswo k
  intro op hop
  obtain ⟨x, hx, rfl⟩ := List.mem_map.1 hop
  obtain ⟨p, cop, hp, hc, ho⟩ := lin_entry_prog hfrom hx
  exact opOk_of_copOk (hk p (List.mem_of_getElem? hp) cop (List.mem_of_getElem? hc)) ho

/-- the names of the increments linearized so far -/
def linIncNames (lt : K → K → Bool) (k : K) (h : List (HEv K Nat)) : List (Nat × Nat) :=
  ((linOrder h).filter (fun x => isIncOp lt k x.2.2)).map (fun x => (x.1, x.2.1))

theorem linIncs_eq_length : linIncs lt k h = (linIncNames lt k h).length := by
  unfold linIncs linIncNames
  rw [List.countP_map, List.length_map, List.countP_eq_length_filter]
  rfl

theorem linIncNames_nodup (hwf : PointsWF h) : (linIncNames lt k h).Nodup :=
  List.Nodup.sublist (List.Sublist.map _ List.filter_sublist) (linOrder_names_nodup hwf)

theorem mem_linIncNames {x : Nat × Nat} :
    x ∈ linIncNames lt k h ↔ ∃ op, (x.1, x.2, op) ∈ linOrder h ∧ isIncOp lt k op = true := by
  unfold linIncNames
  rw [List.mem_map]
  constructor
  · rintro ⟨y, hy, rfl⟩
    rw [List.mem_filter] at hy
    exact ⟨y.2.2, hy.1, hy.2⟩
  · rintro ⟨op, h1, h2⟩
    exact ⟨(x.1, x.2, op), List.mem_filter.2 ⟨h1, h2⟩, rfl⟩

/-- the increments linearized are calls `upd (≈k)` of the programs -/
theorem linIncNames_sub (hfrom : HistFrom progs h) :
    ∀ x ∈ linIncNames lt k h, x ∈ selNames (isInc lt k) progs 0 := by
  intro x hx
  obtain ⟨op, h1, h2⟩ := mem_linIncNames.1 hx
  obtain ⟨p, cop, hp, hc, ho⟩ := lin_entry_prog hfrom h1
  refine (mem_selNames _ _ _ _).2 ⟨x.1, p, cop, by omega, hp, hc, ?_⟩
  rw [← isIncOp_of_opOf ho]; exact h2

/-- **if every map operation of the programs has been linearized, the increments linearized
    are as many as the `upd (≈k)` calls of the programs** -/
theorem linIncs_total (hwf : PointsWF h) (hfrom : HistFrom progs h)
    (hall : ∀ t p i cop op, progs[t]? = some p → p[i]? = some cop → opOf cop = some op → HEv.lin t i ∈ h) :
    linIncs lt k h = incTotal lt k progs := by
  rw [linIncs_eq_length]
  unfold incTotal
  rw [← selNames_length (isInc lt k) progs 0]
  apply length_eq_of_nodup_subset _ _ (linIncNames_nodup hwf) (selNames_nodup _ _ _) (linIncNames_sub hfrom)
  intro x hx
  obtain ⟨j, p, a, h1, hp, ha, hq⟩ := (mem_selNames _ _ _ _).1 hx
  have hj : j = x.1 := by omega
  subst hj
  obtain ⟨op, ho⟩ := opOf_of_isInc hq
  have hlin := hall x.1 p x.2 a op hp ha ho
  obtain ⟨op', hop'⟩ := linOrder_of_lin hwf hlin
  obtain ⟨p', cop', hp', hc', ho'⟩ := lin_entry_prog hfrom hop'
  simp only at hp' hc' ho'
  rw [hp] at hp'; cases hp'
  rw [ha] at hc'; cases hc'
  exact mem_linIncNames.2 ⟨op', hop', by rw [isIncOp_of_opOf ho']; exact hq⟩

end Points

/-! ## 2. the final count -/

/-- **C05, the concurrent counter corollary** (general form).  Standard hypotheses of
    `linearizable_full'`; every operation of the programs on a key equivalent to `k` is an
    `Update` with the increment callback (or a read); anything on other keys, Deletes and
    cursor sessions included.  Then in every reachable configuration in which all threads
    have finished — under EVERY schedule — the value at `k` is the initial one bumped by the
    number `N` of those Updates: unchanged if `N = 0`, otherwise `some (base + N)`, absent
    counting as 0. -/
theorem counter_conc (lt : K → K → Bool) (P : Params K) (tree : Tree K Nat) (progs : List (List (COp K Nat)))
    (hkp : KParams lt P) (ht : TreeOk none tree) (hord : OrdTree lt tree) (hsep : SepTree lt tree)
    (ho : tree.order = P.order) (hp : PadOk P) (hd : Disciplined progs)
    (hdel : 4 ≤ tree.order ∨ NoDelete progs)
    (k : K) (hk : CounterProgs lt k progs)
    (c : Config K Nat) (hr : Reachable (Config.init P tree progs) c) (hu : c.unfinished = false) :
    Spec.lookup lt c.tree.abs k = bump (incTotal lt k progs) (Spec.lookup lt tree.abs k) := by
  obtain ⟨h, hl⟩ := reachable_lininv lt P tree progs hkp ht hord hsep ho hp hd hdel c hr
  have hfrom := histFrom_of_lininv P tree progs c hr hl
  have hwf := hl.pts.wf
  have hall : ∀ t p i cop op, progs[t]? = some p → p[i]? = some cop → opOf cop = some op → HEv.lin t i ∈ h := by
    intro t p i cop op hpt hpi hop
    obtain ⟨out, hout⟩ := finished_all_returned P tree progs ht ho hp hd hdel c hr hu t p i cop op hpt hpi hop
    rw [← hl.vis] at hout
    exact lin_of_ret hwf (mem_visible.1 hout).1
  rw [← hl.pts.replay_map, counter_of_points hkp.swo tree.abs hfrom hk, linIncs_total hwf hfrom hall]

/-- **C05: N concurrent Updates that each add one to a counter always raise it by exactly N**
    (`0 < N`), under every schedule, whatever else runs on other keys. -/
theorem C05_counter_conc (lt : K → K → Bool) (P : Params K) (tree : Tree K Nat) (progs : List (List (COp K Nat)))
    (hkp : KParams lt P) (ht : TreeOk none tree) (hord : OrdTree lt tree) (hsep : SepTree lt tree)
    (ho : tree.order = P.order) (hp : PadOk P) (hd : Disciplined progs)
    (hdel : 4 ≤ tree.order ∨ NoDelete progs)
    (k : K) (hk : CounterProgs lt k progs) (hN : 0 < incTotal lt k progs)
    (c : Config K Nat) (hr : Reachable (Config.init P tree progs) c) (hu : c.unfinished = false) :
    Spec.lookup lt c.tree.abs k = some ((Spec.lookup lt tree.abs k).getD 0 + incTotal lt k progs) := by
  rw [counter_conc lt P tree progs hkp ht hord hsep ho hp hd hdel k hk c hr hu, bump_pos hN]

/-- with no Update on `k` in the programs the value at `k` is the initial one -/
theorem C05_counter_conc_zero (lt : K → K → Bool) (P : Params K) (tree : Tree K Nat) (progs : List (List (COp K Nat)))
    (hkp : KParams lt P) (ht : TreeOk none tree) (hord : OrdTree lt tree) (hsep : SepTree lt tree)
    (ho : tree.order = P.order) (hp : PadOk P) (hd : Disciplined progs)
    (hdel : 4 ≤ tree.order ∨ NoDelete progs)
    (k : K) (hk : CounterProgs lt k progs) (hN : incTotal lt k progs = 0)
    (c : Config K Nat) (hr : Reachable (Config.init P tree progs) c) (hu : c.unfinished = false) :
    Spec.lookup lt c.tree.abs k = Spec.lookup lt tree.abs k := by
  rw [counter_conc lt P tree progs hkp ht hord hsep ho hp hd hdel k hk c hr hu, hN]; rfl

/-! ## 3. at every moment -/

/-- the call named `(t, i)` is an `Update` on a key equivalent to `k` -/
def isIncAt (lt : K → K → Bool) (k : K) (progs : List (List (COp K Nat))) (t i : Nat) : Bool :=
  match (progs[t]?).bind (·[i]?) with
  | some cop => isInc lt k cop
  | none => false

/-- responses of increments of the counter at `k` -/
def retIncP (lt : K → K → Bool) (k : K) (progs : List (List (COp K Nat))) : HEv K Nat → Bool
  | .ret t i _ => isIncAt lt k progs t i
  | _ => false

/-- invocations of increments of the counter at `k` -/
def invIncP (lt : K → K → Bool) (k : K) : HEv K Nat → Bool
  | .inv _ _ op => isIncOp lt k op
  | _ => false

/-- the number of increments of the counter at `k` that have returned, read off a history -/
def retIncs (lt : K → K → Bool) (k : K) (progs : List (List (COp K Nat))) (H : List (HEv K Nat)) : Nat :=
  H.countP (retIncP lt k progs)

/-- the number of increments of the counter at `k` that have been invoked, read off a history -/
def invIncs (lt : K → K → Bool) (k : K) (H : List (HEv K Nat)) : Nat :=
  H.countP (invIncP lt k)

theorem nodup_filterMap_of_inj {α β : Type} (f : α → Option β) (l : List α)
    (hinj : ∀ (I J : Nat) (a b : α) (y : β), l[I]? = some a → l[J]? = some b → f a = some y → f b = some y → I = J) :
    (l.filterMap f).Nodup := by
  apply nodup_of_getElem?_inj
  intro i j y hi hj
  obtain ⟨I, a, h1, h2, h3⟩ := exists_of_getElem?_filterMap _ _ hi
  obtain ⟨J, b, h1', h2', h3'⟩ := exists_of_getElem?_filterMap _ _ hj
  have := hinj I J a b y h1 h1' h2 h2'
  subst this
  omega

section Moment

variable {lt : K → K → Bool} {k : K} {progs : List (List (COp K Nat))} {h : List (HEv K Nat)}

def retF (lt : K → K → Bool) (k : K) (progs : List (List (COp K Nat))) : HEv K Nat → Option (Nat × Nat)
  | .ret t i _ => if isIncAt lt k progs t i then some (t, i) else none
  | _ => none

def invF (lt : K → K → Bool) (k : K) : HEv K Nat → Option (Nat × Nat)
  | .inv t i op => if isIncOp lt k op then some (t, i) else none
  | _ => none

theorem retF_some {e : HEv K Nat} {y : Nat × Nat} (he : retF lt k progs e = some y) :
    ∃ out, e = HEv.ret y.1 y.2 out ∧ isIncAt lt k progs y.1 y.2 = true := by
  cases e with
  | inv t i op => simp [retF] at he
  | lin t i => simp [retF] at he
  | ret t i out =>
    simp only [retF] at he
    split at he
    · cases he; exact ⟨out, rfl, ‹_›⟩
    · cases he

theorem invF_some {e : HEv K Nat} {y : Nat × Nat} (he : invF lt k e = some y) :
    ∃ op, e = HEv.inv y.1 y.2 op ∧ isIncOp lt k op = true := by
  cases e with
  | ret t i out => simp [invF] at he
  | lin t i => simp [invF] at he
  | inv t i op =>
    simp only [invF] at he
    split at he
    · cases he; exact ⟨op, rfl, ‹_›⟩
    · cases he

theorem retIncs_visible : retIncs lt k progs (visible h) = ((h.filterMap (retF lt k progs)).length) := by
  unfold retIncs visible
  rw [List.countP_filter, List.length_filterMap_eq_countP]
  apply List.countP_congr
  intro e _
  cases e with
  | inv t i op => simp [retIncP, retF]
  | lin t i => simp [retIncP, retF]
  | ret t i out =>
    simp only [retIncP, retF, HEv.isLin]
    cases isIncAt lt k progs t i <;> simp

theorem invIncs_visible : invIncs lt k (visible h) = ((h.filterMap (invF lt k)).length) := by
  unfold invIncs visible
  rw [List.countP_filter, List.length_filterMap_eq_countP]
  apply List.countP_congr
  intro e _
  cases e with
  | ret t i out => simp [invIncP, invF]
  | lin t i => simp [invIncP, invF]
  | inv t i op =>
    simp only [invIncP, invF, HEv.isLin]
    cases isIncOp lt k op <;> simp

theorem isIncAt_of {t i : Nat} {p : List (COp K Nat)} {cop : COp K Nat} (hp : progs[t]? = some p)
    (hc : p[i]? = some cop) : isIncAt lt k progs t i = isInc lt k cop := by
  unfold isIncAt
  rw [hp]
  simp only [Option.bind_some, hc]

/-- returned increments ≤ linearized increments ≤ invoked increments ≤ all the increments of
    the programs -/
theorem incs_bounds (hwf : PointsWF h) (hfrom : HistFrom progs h) :
    retIncs lt k progs (visible h) ≤ linIncs lt k h ∧ linIncs lt k h ≤ invIncs lt k (visible h) ∧
      invIncs lt k (visible h) ≤ incTotal lt k progs := by
  rw [retIncs_visible, invIncs_visible, linIncs_eq_length]
  refine ⟨?_, ?_, ?_⟩
  · apply length_le_of_nodup_subset
    · apply nodup_filterMap_of_inj
      intro I J a b y hI hJ ha hb
      obtain ⟨o, rfl, _⟩ := retF_some ha
      obtain ⟨o', rfl, _⟩ := retF_some hb
      exact hwf.ret_unique I J _ _ _ _ hI hJ
    · intro x hx
      obtain ⟨e, he, hf⟩ := List.mem_filterMap.1 hx
      obtain ⟨out, rfl, hinc⟩ := retF_some hf
      obtain ⟨op', hop'⟩ := linOrder_of_lin hwf (lin_of_ret hwf he)
      obtain ⟨p, cop, hp, hc, ho⟩ := lin_entry_prog hfrom hop'
      simp only at hp hc ho
      refine mem_linIncNames.2 ⟨op', hop', ?_⟩
      rw [isIncOp_of_opOf ho, ← isIncAt_of hp hc]
      exact hinc
  · apply length_le_of_nodup_subset _ _ (linIncNames_nodup hwf)
    intro x hx
    obtain ⟨op, h1, h2⟩ := mem_linIncNames.1 hx
    refine List.mem_filterMap.2 ⟨HEv.inv x.1 x.2 op, linOrder_inv h1, ?_⟩
    simp only [invF, h2, if_true]
  · unfold incTotal
    rw [← selNames_length (isInc lt k) progs 0]
    apply length_le_of_nodup_subset
    · apply nodup_filterMap_of_inj
      intro I J a b y hI hJ ha hb
      obtain ⟨o, rfl, _⟩ := invF_some ha
      obtain ⟨o', rfl, _⟩ := invF_some hb
      exact hwf.inv_unique I J _ _ _ _ hI hJ
    · intro x hx
      obtain ⟨e, he, hf⟩ := List.mem_filterMap.1 hx
      obtain ⟨op, rfl, hinc⟩ := invF_some hf
      obtain ⟨p, cop, hp, hc, ho⟩ := hfrom _ _ _ he
      refine (mem_selNames _ _ _ _).2 ⟨x.1, p, cop, by omega, hp, hc, ?_⟩
      rw [← isIncOp_of_opOf ho]; exact hinc

end Moment

/-- **C05, the counter at every moment.**  In EVERY reachable configuration (threads in the
    middle of their operations, under every schedule) the value at `k` is the initial one
    bumped by a number `n` of increments — those that have taken effect — with
    `returned ≤ n ≤ invoked ≤ N`: every `Update k (+1)` that has returned is counted, none
    that has not been invoked is, and none is counted twice. -/
theorem counter_at_every_moment (lt : K → K → Bool) (P : Params K) (tree : Tree K Nat)
    (progs : List (List (COp K Nat)))
    (hkp : KParams lt P) (ht : TreeOk none tree) (hord : OrdTree lt tree) (hsep : SepTree lt tree)
    (ho : tree.order = P.order) (hp : PadOk P) (hd : Disciplined progs)
    (hdel : 4 ≤ tree.order ∨ NoDelete progs)
    (k : K) (hk : CounterProgs lt k progs)
    (c : Config K Nat) (hr : Reachable (Config.init P tree progs) c) :
    ∃ n, retIncs lt k progs (history c) ≤ n ∧ n ≤ invIncs lt k (history c) ∧
      invIncs lt k (history c) ≤ incTotal lt k progs ∧
      Spec.lookup lt c.tree.abs k = bump n (Spec.lookup lt tree.abs k) := by
  obtain ⟨h, hl⟩ := reachable_lininv lt P tree progs hkp ht hord hsep ho hp hd hdel c hr
  have hfrom := histFrom_of_lininv P tree progs c hr hl
  obtain ⟨h1, h2, h3⟩ := incs_bounds (lt := lt) (k := k) hl.pts.wf hfrom
  rw [hl.vis] at h1 h2 h3
  refine ⟨linIncs lt k h, h1, h2, h3, ?_⟩
  rw [← hl.pts.replay_map]
  exact counter_of_points hkp.swo tree.abs hfrom hk

/-- at quiescence the three counts coincide: every increment of the programs has been invoked
    and has returned (so `counter_conc` is the instance `n = N` of `counter_at_every_moment`) -/
theorem finished_retIncs (lt : K → K → Bool) (P : Params K) (tree : Tree K Nat) (progs : List (List (COp K Nat)))
    (hkp : KParams lt P) (ht : TreeOk none tree) (hord : OrdTree lt tree) (hsep : SepTree lt tree)
    (ho : tree.order = P.order) (hp : PadOk P) (hd : Disciplined progs)
    (hdel : 4 ≤ tree.order ∨ NoDelete progs) (k : K)
    (c : Config K Nat) (hr : Reachable (Config.init P tree progs) c) (hu : c.unfinished = false) :
    retIncs lt k progs (history c) = incTotal lt k progs ∧ invIncs lt k (history c) = incTotal lt k progs := by
  obtain ⟨h, hl⟩ := reachable_lininv lt P tree progs hkp ht hord hsep ho hp hd hdel c hr
  have hfrom := histFrom_of_lininv P tree progs c hr hl
  have hwf := hl.pts.wf
  obtain ⟨h1, h2, h3⟩ := incs_bounds (lt := lt) (k := k) hwf hfrom
  rw [hl.vis] at h1 h2 h3
  -- every increment of the programs has returned
  have hge : incTotal lt k progs ≤ retIncs lt k progs (history c) := by
    rw [← hl.vis, retIncs_visible]
    unfold incTotal
    rw [← selNames_length (isInc lt k) progs 0]
    apply length_le_of_nodup_subset _ _ (selNames_nodup _ _ _)
    intro x hx
    obtain ⟨j, p, a, hj, hp', ha, hq⟩ := (mem_selNames _ _ _ _).1 hx
    have hj' : j = x.1 := by omega
    subst hj'
    obtain ⟨op, hop⟩ := opOf_of_isInc hq
    obtain ⟨out, hout⟩ := finished_all_returned P tree progs ht ho hp hd hdel c hr hu x.1 p x.2 a op hp' ha hop
    rw [← hl.vis] at hout
    refine List.mem_filterMap.2 ⟨HEv.ret x.1 x.2 out, (mem_visible.1 hout).1, ?_⟩
    simp only [retF, isIncAt_of hp' ha, hq, if_true]
  omega

/-- **C05, every maximal execution.**  For programs that close their cursors no side condition
    on the run is left: run ANY schedule from the start until nothing is enabled (that happens
    within `termBound` steps, `C06_every_execution_terminates`); the counter at `k` then holds
    the initial value plus the number of `Update k (+1)` calls of the programs. -/
theorem C05_counter_conc_maximal (lt : K → K → Bool) (P : Params K) (tree : Tree K Nat)
    (progs : List (List (COp K Nat)))
    (hkp : KParams lt P) (ht : TreeOk none tree) (hord : OrdTree lt tree) (hsep : SepTree lt tree)
    (ho : tree.order = P.order) (hp : PadOk P) (hcl : Closing progs)
    (hdel : 4 ≤ tree.order ∨ NoDelete progs)
    (k : K) (hk : CounterProgs lt k progs) (hN : 0 < incTotal lt k progs)
    (ts : List Nat) (c : Config K Nat) (hrun : (Config.init P tree progs).run ts = (c, none))
    (hstuck : c.enabledSet = []) :
    Spec.lookup lt c.tree.abs k = some ((Spec.lookup lt tree.abs k).getD 0 + incTotal lt k progs) :=
  C05_counter_conc lt P tree progs hkp ht hord hsep ho hp hcl.disciplined hdel k hk hN c
    (reachable_of_run _ ts _ c Reachable.refl hrun)
    (all_operations_return_closing P tree progs ht ho hp hcl hdel _ Reachable.refl ts c hrun hstuck)

/-! ## instances: the hypotheses are satisfiable -/

/-- the instance for a fresh tree (every even order ≥ 2): whatever else the programs do on
    other keys, once all threads have finished the counter at `k` holds exactly the number of
    `Update k (+1)` calls -/
theorem C05_counter_conc_fresh (lt : K → K → Bool) (P : Params K) (progs : List (List (COp K Nat)))
    (hkp : KParams lt P) (h2 : 2 ≤ P.order) (he : P.order % 2 = 0) (hp : PadOk P) (hd : Disciplined progs)
    (hdel : 4 ≤ P.order ∨ NoDelete progs)
    (k : K) (hk : CounterProgs lt k progs) (hN : 0 < incTotal lt k progs)
    (c : Config K Nat) (hr : Reachable (Config.init P (Tree.new P.order) progs) c) (hu : c.unfinished = false) :
    Spec.lookup lt c.tree.abs k = some (incTotal lt k progs) := by
  have := C05_counter_conc lt P (Tree.new P.order) progs hkp (new_treeOk P.order h2 he) (new_ordTree lt P.order)
    (new_sepTree lt P.order) rfl hp hd hdel k hk hN c hr hu
  rw [this]
  have habs : (Tree.new P.order : Tree K Nat).abs = [] := rfl
  rw [habs]
  simp [Spec.lookup]

namespace CounterExample

def ltN : Nat → Nat → Bool := fun a b => decide (a < b)
def PN : Params Nat := Params.mk ltN (fun _ => some 0) 4

/-- two threads, three increments of the counter at 7 (with and without a yield inside the
    callback), a Delete, an Insert and a Search alongside -/
def progs : List (List (COp Nat Nat)) :=
  [[.upd 7 incr false, .del 3, .upd 7 incr true], [.upd 7 incr true, .ins 3 5, .get 7]]

/-- every schedule of `progs` on a fresh tree of order 4 that runs to the end leaves 3 at key 7 -/
theorem three (c : Config Nat Nat) (hr : Reachable (Config.init PN (Tree.new 4) progs) c)
    (hu : c.unfinished = false) : Spec.lookup ltN c.tree.abs 7 = some 3 := by
  have hkp : KParams ltN PN := by
    refine ⟨⟨?_, ?_, ?_⟩, rfl⟩
    · intro a; simp [ltN]
    · intro a b c h1 h2; simp [ltN] at *; omega
    · intro a b c h1; simp [ltN] at *; omega
  have hpad : PadOk PN := by intro k h; simp [PN] at h
  have hd : Disciplined progs := by
    intro p hp; simp [progs] at hp; rcases hp with rfl | rfl <;> rfl
  have hk : CounterProgs ltN 7 progs := by
    intro p hp cop hc
    simp [progs] at hp
    rcases hp with rfl | rfl <;> simp at hc <;> rcases hc with rfl | rfl | rfl <;>
      first | exact fun _ => rfl | exact rfl | trivial
  have hN : incTotal ltN 7 progs = 3 := rfl
  have := C05_counter_conc_fresh ltN PN progs hkp (by simp [PN]) (by simp [PN]) hpad hd (Or.inl (by simp [PN])) 7 hk
    (by rw [hN]; omega) c hr hu
  rw [hN] at this
  exact this

end CounterExample

end Gobptree.Conc

#print axioms Gobptree.Conc.reachable_lininv
#print axioms Gobptree.Conc.reachable_abs_is_replay
#print axioms Gobptree.Conc.finished_all_returned
#print axioms Gobptree.Conc.counter_conc
#print axioms Gobptree.Conc.C05_counter_conc
#print axioms Gobptree.Conc.C05_counter_conc_zero
#print axioms Gobptree.Conc.counter_at_every_moment
#print axioms Gobptree.Conc.finished_retIncs
#print axioms Gobptree.Conc.C05_counter_conc_maximal
#print axioms Gobptree.Conc.C05_counter_conc_fresh
#print axioms Gobptree.Conc.CounterExample.three
