/-
  Separator invariant, block lemmas for the non-Delete continuations, part 3: node level —
  the witness of `upChild`, the halves of a split node, the lowered first separator.
-/
import Gobptree.Proofs.CIUpTree

namespace Gobptree.Conc
open Gobptree

variable {K V : Type} {lt : K → K → Bool}

/-! ### witnesses -/

theorem kontWit_upChild {key : K} {f : Option V → V} {y : Option Bool} {parent index child r : Nat} {x : K}
    (h : kontWit (.upChild key f y parent index child) r x) : r = parent ∧ x = key ∧ index = 0 := by
  cases index with
  | zero => exact ⟨h.1, h.2, rfl⟩
  | succ n => exact absurd h id

/-! ### first separator -/

/-- the first separator of an inner node -/
def headN : (d : Nat) → Node K V d → Option K
  | 0, _ => none
  | _ + 1, (c : Inner K _) => c.runts.head?

/-- the node is inner and `key` is below its first separator -/
def LowN (lt : K → K → Bool) (key : K) (d : Nat) (c : Node K V d) : Prop :=
  ∃ s', headN d c = some s' ∧ lt key s' = true

theorem smallest_headN : ∀ {d : Nat} (n : Node K V (d + 1)) (s : K), Node.smallest n = .ok s → headN (d + 1) n = some s := by
  intro d (n : Inner K (Node K V d)) s h
  have h' : (match n.runts with | [] => (throw Panic.noChildren : R K) | k :: _ => pure k) = .ok s := h
  show n.runts.head? = some s
  cases hr : n.runts with
  | nil => rw [hr] at h'; cases h'
  | cons k rest =>
    rw [hr] at h'
    have : k = s := by injection h'
    rw [this]; rfl

theorem SepFact_iff_headN (Wit : Nat → K → Prop) {d : Nat} (c : Node K V (d + 1)) (s : K) :
    SepFact lt Wit (d + 1) c s ↔ (∃ s', headN (d + 1) c = some s' ∧ eqv lt s s' = true) ∨ Wit (Node.id c) s := Iff.rfl

/-- the node-level statement gives the flat-view one -/
theorem LowN_lowAt {t : Tree K V} (hids : t.ids.Nodup) {key : K} {d : Nat} {c : Node K V d}
    (hm : (Node.id c, shallow c) ∈ t.flat) (h : LowN lt key d c) : LowAt lt t (Node.id c) key := by
  obtain ⟨s', hs', hlt⟩ := h
  cases d with
  | zero => cases hs'
  | succ d =>
    exact ⟨shallow c, (look_eq_some_iff hids _ _).2 hm, Nat.succ_pos d, s', hs', hlt⟩

/-! ### the halves of a split node -/

theorem isSplit_ids {hh fresh : Nat} : ∀ {d : Nat} {n l r : Node K V d}, IsSplit hh fresh n l r →
    Node.id l = Node.id n ∧ Node.id r = fresh
  | 0, _, _, _, h => by obtain ⟨rfl, rfl, _, _⟩ := h; exact ⟨rfl, rfl⟩
  | _ + 1, _, _, _, h => by obtain ⟨rfl, rfl, _, _⟩ := h; exact ⟨rfl, rfl⟩

theorem isSplit_headN {hh fresh : Nat} (hpos : 1 ≤ hh) : ∀ {d : Nat} {n l r : Node K V d}, IsSplit hh fresh n l r →
    headN d l = headN d n
  | 0, _, _, _, _ => rfl
  | d + 1, (n : Inner K (Node K V d)), _, _, h => by
    obtain ⟨rfl, rfl, hk, _⟩ := h
    show (n.runts.take hh).head? = n.runts.head?
    have h0 : 0 < n.runts.length := by omega
    rw [take_head _ h0 hh hpos, head?_getElem _ h0]
    rfl

theorem isepN_split (Wit : Nat → K → Prop) {hh fresh : Nat} : ∀ {d : Nat} {n l r : Node K V d},
    IsSplit hh fresh n l r → ISepN lt Wit d n → ISepN lt Wit d l ∧ ISepN lt Wit d r
  | 0, _, _, _, _, _ => ⟨trivial, trivial⟩
  | d + 1, (n : Inner K (Node K V d)), _, _, h, hI => by
    obtain ⟨rfl, rfl, hk, hv⟩ := h
    have hz : n.runts.zip n.kids =
        (n.runts.take hh).zip (n.kids.take hh) ++ (n.runts.drop hh).zip (n.kids.drop hh) := by
      rw [← zip_surgery _ _ _ _ (by simp [List.length_take]; omega), List.take_append_drop, List.take_append_drop]
    rw [ISepN_succ, hz] at hI
    constructor
    · rw [ISepN_succ]
      intro e he
      exact hI e (List.mem_append_left _ he)
    · rw [ISepN_succ]
      intro e he
      exact hI e (List.mem_append_right _ he)

/-- the identities of the halves are identities of the split node, or the fresh one -/
theorem isSplit_idsOf {hh fresh : Nat} : ∀ {d : Nat} {n l r : Node K V d}, IsSplit hh fresh n l r →
    (∀ x ∈ idsOf l, x ∈ idsOf n) ∧ (∀ x ∈ idsOf r, x = fresh ∨ x ∈ idsOf n)
  | 0, (n : Leaf K V), _, _, h => by
    obtain ⟨rfl, rfl, _, _⟩ := h
    constructor
    · intro x hx; exact hx
    · intro x hx
      left
      have : x ∈ [fresh] := hx
      simpa using this
  | d + 1, (n : Inner K (Node K V d)), _, _, h => by
    obtain ⟨rfl, rfl, _, _⟩ := h
    constructor
    · intro x hx
      rw [idsOf_succ] at hx ⊢
      rcases List.mem_cons.1 hx with hx | hx
      · exact hx ▸ List.mem_cons_self
      · obtain ⟨c, hc, hxc⟩ := List.mem_flatMap.1 hx
        exact List.mem_cons_of_mem _ (List.mem_flatMap.2 ⟨c, List.mem_of_mem_take hc, hxc⟩)
    · intro x hx
      rw [idsOf_succ] at hx
      rcases List.mem_cons.1 hx with hx | hx
      · exact Or.inl hx
      · right
        obtain ⟨c, hc, hxc⟩ := List.mem_flatMap.1 hx
        rw [idsOf_succ]
        exact List.mem_cons_of_mem _ (List.mem_flatMap.2 ⟨c, List.mem_of_mem_drop hc, hxc⟩)

/-! ### the lowered first separator -/

/-- the fact about the kid at the routing index after the pre-emptive lowering: either the
    old equivalence, or the running thread is the witness -/
theorem sepFact_lowered (h : SWO lt) (W : Nat → K → Prop) {d : Nat} (c c' : Node K V d) (key k : K) (rA : List K)
    (child : Nat) (hid : Node.id c' = child) (hh : headN d c' = headN d c)
    (hfact : SepFact lt (fun _ _ => False) d c k) :
    SepFact lt (fun r x => W r x ∨ (r = child ∧ x = key ∧ LowN lt key d c)) d c' (lowKey lt key rA k) := by
  cases d with
  | zero => trivial
  | succ d =>
    rw [SepFact_iff_headN] at hfact ⊢
    rcases hfact with ⟨s', hs', he⟩ | hf
    · by_cases hc : rA = [] ∧ lt key k = true
      · have : lowKey lt key rA k = key := by unfold lowKey; rw [if_pos hc]
        rw [this]
        refine Or.inr (Or.inr ⟨hid, rfl, s', hs', ?_⟩)
        rw [← h.lt_congr_right he]
        exact hc.2
      · have : lowKey lt key rA k = k := by unfold lowKey; rw [if_neg hc]
        rw [this]
        exact Or.inl ⟨s', hh ▸ hs', he⟩
    · exact absurd hf id

/-- the fact the parent's parent states about the parent after the lowering -/
theorem face_low (h : SWO lt) (key s k : K) (rA rB X : List K) (hle : lt key s = false)
    (hlo : rA = [] → lt k s = false)
    (hfact : (∃ s', (rA ++ k :: rB).head? = some s' ∧ eqv lt s s' = true) ∨ (s = key ∧ rA = [])) :
    ∃ s', (rA ++ lowKey lt key rA k :: X).head? = some s' ∧ eqv lt s s' = true := by
  cases rA with
  | cons a rA =>
    rcases hfact with ⟨s', hs', he⟩ | ⟨_, e⟩
    · exact ⟨s', hs', he⟩
    · cases e
  | nil =>
    simp only [List.nil_append, List.head?_cons, Option.some.injEq, exists_eq_left'] at hfact ⊢
    rcases hfact with he | ⟨e, _⟩
    · -- the separator above is equivalent to the first separator: nothing is lowered
      have hk : lt key k = false := by rw [← h.lt_congr_right he]; exact hle
      have : lowKey lt key [] k = k := by unfold lowKey; rw [if_neg (by rw [hk]; simp)]
      rw [this]
      exact he
    · subst e
      by_cases hc : lt s k = true
      · have : lowKey lt s [] k = s := by unfold lowKey; rw [if_pos ⟨rfl, hc⟩]
        rw [this]
        exact h.eqv_refl s
      · have : lowKey lt s [] k = k := by unfold lowKey; rw [if_neg (fun c => hc c.2)]
        rw [this]
        have hc' : lt s k = false := by simpa using hc
        simp [eqv, hc', hlo rfl]

end Gobptree.Conc
