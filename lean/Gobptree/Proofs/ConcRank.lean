/-
  Deadlock freedom from a lock ranking (the reduction used for C06).

  If some ranking of the mutexes makes every waiting thread wait for a mutex ranked
  strictly above everything it holds, and no thread has terminated while still holding a
  mutex, then a configuration with an unfinished thread always has an enabled thread.
  The ranking is arbitrary here; the one gobptree's lock coupling follows is the
  level order of the tree (rootMutex, root, then level by level, left to right), checked
  on every state the concurrent harness and the model replay visit.
-/
import Gobptree.Proofs.ConcOwner
import Gobptree.ConcRank

namespace Gobptree.Conc
open Gobptree

variable {K V : Type}

/-- every waiting thread waits for a mutex ranked above all it holds -/
def Ranked (rank : Lk → Nat) (c : Config K V) : Prop :=
  ∀ th ∈ c.threads, ∀ l k, th.park = .want l k → ∀ h ∈ th.held, rank h < rank l

/-- no thread has ended while holding a mutex (the client side of C06: an open cursor is
    advanced to exhaustion or closed) -/
def FinishedClean (c : Config K V) : Prop :=
  ∀ th ∈ c.threads, th.park = .finished → th.held = []

def wantRank (rank : Lk → Nat) (th : Thread K V) : Nat :=
  match th.park with
  | .want l _ => rank l
  | _ => 0

def maxWant (rank : Lk → Nat) (c : Config K V) : Nat :=
  (c.threads.map (wantRank rank)).foldr max 0

theorem le_foldr_max (l : List Nat) (x : Nat) (h : x ∈ l) : x ≤ l.foldr max 0 := by
  induction l with
  | nil => cases h
  | cons a l ih =>
    simp only [List.foldr_cons]
    rcases List.mem_cons.mp h with rfl | h
    · exact Nat.le_max_left _ _
    · exact Nat.le_trans (ih h) (Nat.le_max_right _ _)

theorem le_maxWant (rank : Lk → Nat) (c : Config K V) (th : Thread K V) (h : th ∈ c.threads) :
    wantRank rank th ≤ maxWant rank c :=
  le_foldr_max _ _ (List.mem_map.mpr ⟨th, h, rfl⟩)

/-- in a configuration where nothing is enabled, thread `t` is finished or waits for a
    held mutex -/
theorem not_enabled_of_enabledSet_nil (c : Config K V) (h : c.enabledSet = []) (t : Nat) (th : Thread K V)
    (hth : c.threads[t]? = some th) : th.enabled c = false := by
  have hlt : t < c.threads.length := by
    rcases Nat.lt_or_ge t c.threads.length with h' | h'
    · exact h'
    · rw [List.getElem?_eq_none h'] at hth; cases hth
  unfold Config.enabledSet at h
  have := List.filter_eq_nil_iff.mp h t (List.mem_range.mpr hlt)
  simpa [hth] using this

/-- the holder of a mutex has it in its held list -/
theorem holder_held (c : Config K V) (ho : OwnerOk c) (l : Lk) (t : Nat) (h : c.holder l = some t) :
    ∃ th, c.threads[t]? = some th ∧ l ∈ th.held := by
  unfold Config.holder at h
  cases hf : c.owner.find? (fun p => p.1 = l) with
  | none => rw [hf] at h; cases h
  | some p =>
    rw [hf] at h
    simp only [Option.map_some, Option.some.injEq] at h
    have hmem := List.mem_of_find?_eq_some hf
    have hp1 : p.1 = l := by simpa using List.find?_some hf
    have hp : p = (l, t) := by cases p; simp_all
    rw [hp] at hmem
    have hc : 0 < c.owner.count (l, t) := List.count_pos_iff.mpr hmem
    rw [ho.1 l t] at hc
    unfold heldOf at hc
    cases hth : c.threads[t]? with
    | none => rw [hth] at hc; simp at hc
    | some th =>
      rw [hth] at hc
      exact ⟨th, rfl, List.count_pos_iff.mp hc⟩

/-- **a ranked configuration is never deadlocked** -/
theorem ranked_not_deadlocked (rank : Lk → Nat) (c : Config K V) (ho : OwnerOk c)
    (hr : Ranked rank c) (hf : FinishedClean c) (hu : c.unfinished = true) : c.enabledSet ≠ [] := by
  intro hnil
  -- every unfinished thread waits for a held mutex
  have hwait : ∀ (t : Nat) (th : Thread K V), c.threads[t]? = some th → th.park ≠ .finished →
      ∃ l k, th.park = .want l k ∧ (c.holder l).isSome := by
    intro t th hth hnf
    have hen := not_enabled_of_enabledSet_nil c hnil t th hth
    unfold Thread.enabled at hen
    cases hp : th.park with
    | start => rw [hp] at hen; cases hen
    | yielded k => rw [hp] at hen; cases hen
    | finished => exact absurd hp hnf
    | want l k =>
      rw [hp] at hen
      simp only at hen
      refine ⟨l, k, rfl, ?_⟩
      cases hh : c.holder l with
      | none => rw [hh] at hen; cases hen
      | some _ => rfl
  -- climbing the wait-for chain strictly raises the wanted rank, which is bounded
  have climb : ∀ (n t : Nat) (th : Thread K V) (l : Lk) (k : Kont K V), c.threads[t]? = some th → th.park = .want l k →
      maxWant rank c - rank l = n → False := by
    intro n
    induction n using Nat.strongRecOn with
    | _ n ih =>
      intro t th l k hth hp hn
      obtain ⟨l', k', hp', hheld⟩ := hwait t th hth (by rw [hp]; intro h; cases h)
      rw [hp] at hp'
      cases hp'
      cases hh : c.holder l with
      | none => rw [hh] at hheld; cases hheld
      | some t1 =>
        obtain ⟨th1, hth1, hl1⟩ := holder_held c ho l t1 hh
        have hmem1 : th1 ∈ c.threads := List.mem_of_getElem? hth1
        have hnf1 : th1.park ≠ .finished := by
          intro hfin
          rw [hf th1 hmem1 hfin] at hl1
          cases hl1
        obtain ⟨l1, k1, hp1, _⟩ := hwait t1 th1 hth1 hnf1
        have hlt : rank l < rank l1 := hr th1 hmem1 l1 k1 hp1 l hl1
        have hb : rank l1 ≤ maxWant rank c := by
          have := le_maxWant rank c th1 hmem1
          unfold wantRank at this
          rw [hp1] at this
          exact this
        exact ih (maxWant rank c - rank l1) (by omega) t1 th1 l1 k1 hth1 hp1 rfl
  -- some thread is unfinished
  unfold Config.unfinished at hu
  obtain ⟨th, hmem, hnf⟩ := List.any_eq_true.mp hu
  obtain ⟨t, hlt, hget⟩ := List.getElem_of_mem hmem
  have hth : c.threads[t]? = some th := by rw [List.getElem?_eq_getElem hlt, hget]
  have hnf' : th.park ≠ .finished := by
    intro h; rw [h] at hnf; cases hnf
  obtain ⟨l, k, hp, _⟩ := hwait t th hth hnf'
  exact climb _ t th l k hth hp rfl

end Gobptree.Conc


namespace Gobptree.Conc
open Gobptree

variable {K V : Type}

theorem rankedB_iff (c : Config K V) : rankedB c = true ↔ Ranked (levelRank c.tree) c := by
  unfold rankedB Ranked
  rw [List.all_eq_true]
  constructor
  · intro h th hth l k hp x hx
    have := h th hth
    rw [hp] at this
    simp only [List.all_eq_true, decide_eq_true_eq] at this
    exact this x hx
  · intro h th hth
    cases hp : th.park with
    | want l k =>
      simp only [List.all_eq_true, decide_eq_true_eq]
      exact fun x hx => h th hth l k hp x hx
    | start => rfl
    | yielded k => rfl
    | finished => rfl

end Gobptree.Conc
