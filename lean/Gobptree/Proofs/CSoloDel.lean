/-
  Single-thread agreement, part 7: Delete, sequential side.

  The concurrent model rewrites the leaf in place and rebalances a parent that already
  contains the rewritten child; the sequential `deleteNode` hands the rewritten child to
  `rebalance` next to the OLD parent.  `rebalance_set` shows that `rebalance` never reads
  the old child, so the two agree.
-/
import Gobptree.Proofs.CSoloRo
import Gobptree.Proofs.CLinNotes
import Gobptree.Proofs.IdsDelete

namespace Gobptree.Conc
open Gobptree

variable {K V : Type}

theorem deleteIdiom_set_same {α : Type} (l : List α) (i : Nat) (a : α) :
    deleteIdiom (l.set i a) i = deleteIdiom l i := by
  by_cases h : i < l.length
  · rw [deleteIdiom_eq _ _ (by simpa using h), deleteIdiom_eq _ _ h, List.take_set_of_le (Nat.le_refl _),
      List.drop_set_of_lt (by omega)]
  · rw [List.set_eq_of_length_le (by omega)]

theorem set_set_swap {α : Type} (l : List α) (i : Nat) (a b c : α) :
    ((l.set i a).set (i - 1) b).set i c = (l.set (i - 1) b).set i c := by
  by_cases h : i = 0
  · subst h; simp
  · rw [List.set_comm _ _ (by omega), List.set_set, List.set_comm _ _ (by omega)]

theorem deleteIdiom_set_prev {α : Type} (l : List α) (i : Nat) (a b : α) :
    deleteIdiom ((l.set i a).set (i - 1) b) i = deleteIdiom (l.set (i - 1) b) i := by
  by_cases h : i = 0
  · subst h; simp
  · rw [List.set_comm _ _ (by omega), deleteIdiom_set_same]

/-- `rebalance` does not read the old child at `index` -/
theorem rebalance_set (P : Params K) (vr : Variant) (m : Nat) {d : Nat} (i : Inner K (Node K V d)) (index : Nat)
    (c child : Node K V d) :
    rebalance P vr m ({ i with kids := i.kids.set index c } : Inner K (Node K V d)) index child =
      rebalance P vr m i index child := by
  have h1 : (i.kids.set index c)[index + 1]? = i.kids[index + 1]? := by
    rw [List.getElem?_set_ne (by omega)]
  have h2 : (if index > 0 then (i.kids.set index c)[index - 1]? else none) =
      (if index > 0 then i.kids[index - 1]? else none) := by
    split
    · rw [List.getElem?_set_ne (by omega)]
    · rfl
  unfold rebalance
  simp only [h1, h2, List.set_set, List.length_set, set_set_swap, deleteIdiom_set_prev]

theorem rebalance_id (P : Params K) (vr : Variant) (m : Nat) {d : Nat} (i i' : Inner K (Node K V d)) (index : Nat)
    (child : Node K V d) (sm : Bool) (h : rebalance P vr m i index child = .ok (i', sm)) : i'.id = i.id := by
  unfold rebalance at h
  simp only [bind, Except.bind, pure, Except.pure] at h
  repeat' split at h
  all_goals (cases h; try rfl)

theorem rebalance_right_exists (P : Params K) (vr : Variant) (m : Nat) {d : Nat} (i : Inner K (Node K V d)) (index : Nat)
    (child : Node K V d) (w : Inner K (Node K V d) × Bool) (h : rebalance P vr m i index child = .ok w)
    (hr : index + 1 < i.runts.length) : ∃ r, i.kids[index + 1]? = some r := by
  cases hk : i.kids[index + 1]? with
  | some r => exact ⟨r, rfl⟩
  | none =>
    unfold rebalance at h
    simp [hr, hk, bind, Except.bind, throw, throwThe, MonadExceptOf.throw] at h

/-! ### the activations of `deleteKey` along a context -/

namespace Ctx

/-- identity of the left sibling the activation on this level locks -/
def leftOf {d : Nat} (pre : List (Node K V d)) : Option Nat := pre.getLast?.map Node.id

/-- the frames the descent has pushed when it stands at the hole (`h` = identity of the node in the hole) -/
def frames {D : Nat} : {d : Nat} → Ctx K V D d → Nat → List Frame
  | _, .top, _ => []
  | _, .kid c id _ pre _, h => ⟨id, pre.length, leftOf pre, h⟩ :: c.frames id

/-- the locks a Delete holds when it stands at the hole -/
def locks {D : Nat} : {d : Nat} → Ctx K V D d → Nat → List Lk
  | _, .top, h => [.tree, .node h]
  | _, .kid c id _ pre _, h => c.locks id ++ ((leftOf pre).toList.map Lk.node ++ [.node h])

/-- identity of the root -/
def rootId {D : Nat} : {d : Nat} → Ctx K V D d → Nat → Nat
  | _, .top, h => h
  | _, .kid c id _ _ _, _ => c.rootId id

end Ctx

/-- one activation of the internal `deleteKey` returning: the child (already written back)
    reported `small` -/
def unwind1 (P : Params K) (m : Nat) {d : Nat} (id : Nat) (r : List K) (pre post : List (Node K V d))
    (v : Node K V d × Bool) : R (Node K V (d + 1) × Bool) :=
  if !v.2 then pure (((⟨id, r, pre ++ v.1 :: post⟩ : Inner K (Node K V d)) : Node K V (d + 1)), false)
  else rebalance P {} m (⟨id, r, pre ++ v.1 :: post⟩ : Inner K (Node K V d)) pre.length v.1

/-- all activations above the hole returning -/
def unwindCtx (P : Params K) (m : Nat) {D : Nat} : {d : Nat} → Ctx K V D d → Node K V d × Bool → R (Node K V D × Bool)
  | _, .top, v => pure v
  | _, .kid c id r pre post, v => do
    let w ← unwind1 P m id r pre post v
    unwindCtx P m c w

/-- one level of the sequential recursion, in context form -/
theorem deleteNode_succ (P : Params K) (m : Nat) (key : K) {d : Nat} (id : Nat) (r : List K) (A B : List (Node K V d))
    (child : Node K V d) (hA : A.length = searchLE P.lt key r) :
    deleteNode P {} m key (d + 1) ((⟨id, r, A ++ child :: B⟩ : Inner K (Node K V d)) : Node K V (d + 1)) =
      (deleteNode P {} m key d child >>= unwind1 P m id r A B) := by
  have hk : (A ++ child :: B)[searchLE P.lt key r]? = some child := by
    rw [← hA]; exact form_getElem_pivot A B child
  simp only [deleteNode, hk, bind, Except.bind]
  cases deleteNode P {} m key d child with
  | error e => rfl
  | ok v =>
    obtain ⟨x', small⟩ := v
    simp only [unwind1]
    cases small with
    | false =>
      simp only [Bool.not_false, pure, Except.pure]
      rw [← hA, form_set_pivot']
      rfl
    | true =>
      simp only [Bool.not_true, Bool.false_eq_true]
      rw [← hA]
      have := rebalance_set P {} m (⟨id, r, A ++ child :: B⟩ : Inner K (Node K V d)) A.length x' x'
      simp only [form_set_pivot'] at this
      exact this.symm

theorem deleteNode_succ_none (P : Params K) (m : Nat) (key : K) {d : Nat} (p : Inner K (Node K V d))
    (hk : p.kids[searchLE P.lt key p.runts]? = none) :
    deleteNode P {} m key (d + 1) (p : Node K V (d + 1)) = .error .indexOutOfRange := by
  simp only [deleteNode, hk]
  rfl

end Gobptree.Conc
