/-
  Single-thread agreement, part 11: one client operation.
-/
import Gobptree.Proofs.CSoloDel4
import Gobptree.Run

namespace Gobptree.Conc
open Gobptree

variable {K V : Type}

/-- the client call that stands for a map operation (Update with a non-yielding callback) -/
def copOf : Op K V → COp K V
  | .insert k v => .ins k v
  | .update k f => .upd k f false
  | .delete k => .del k
  | .search k => .get k

/-- where the thread parks when it starts the operation -/
def kontOf : Op K V → Kont K V
  | .insert k v => .upTree k (fun _ => v) none
  | .update k f => .upTree k f (some false)
  | .delete k => .delTree k
  | .search k => .roTree false k

/-- results correspond: Search's value; the others return `.ok`; `cbs` are the callback
    arguments the run noted (Update: exactly one, the argument the sequential model reports;
    the others: none) -/
def ResMatches : Out V → Res K V → List (Option V) → Prop
  | .done, .ok, cbs => cbs = []
  | .callback a, .ok, cbs => cbs = [a]
  | .found v, .found v', cbs => v' = v ∧ cbs = []
  | _, _, _ => False

theorem startOp_copOf (s : St K V) (op : Op K V) (h : s.cursor = none) :
    startOp 0 s (copOf op) = (s, .park (.want .tree (kontOf op))) := by
  have hm : misuse s = false := by
    unfold misuse cursorLocks; rw [h]; rfl
  cases op <;> simp [copOf, kontOf, startOp, hm]

theorem Tree.insert_inv (P : Params K) (t t' : Tree K V) (k : K) (v : V) (h : t.insert P k v = .ok t') :
    ∃ cb, t.upsert P k (fun _ => v) = .ok (t', cb) := by
  simp only [Tree.insert, bind, Except.bind, pure, Except.pure] at h
  split at h
  · cases h
  · rename_i w hw
    obtain ⟨t2, cb⟩ := w
    injection h with h
    subst h
    exact ⟨cb, hw⟩

/-- **one operation of a lone thread computes `Tree.step`** (thread-level form) -/
theorem op_fin (P : Params K) (op : Op K V) (t t' : Tree K V) (out : Out V) (s : St K V)
    (htree : s.tree = t) (hheld : s.held = []) (ho : OwnOk s)
    (hinv : IdInv Ctx.top t.root t.nextId) (hord : t.order = P.order)
    (hseq : Tree.step P t op = .ok (t', out)) :
    ∃ s' r cbs, SoloFin P (s, .park (.want .tree (kontOf op))) s' r ∧ SoloPost s s' t' cbs ∧ ResMatches out r cbs := by
  cases op with
  | insert k v =>
    simp only [Tree.step, bind, Except.bind, pure, Except.pure] at hseq
    split at hseq
    · cases hseq
    · rename_i t2 hins
      injection hseq with hseq; injection hseq with h1 h2
      subst h1; subst h2
      obtain ⟨cb, hup⟩ := Tree.insert_inv P t t2 k v hins
      obtain ⟨s', hf, hp⟩ := up_tree P k (fun _ => v) none (by simp) t t2 cb s htree hheld ho hinv hup
      exact ⟨s', .ok, _, hf, hp, rfl⟩
  | update k f =>
    simp only [Tree.step, Tree.update, bind, Except.bind, pure, Except.pure] at hseq
    split at hseq
    · cases hseq
    · rename_i w hup
      obtain ⟨t2, arg⟩ := w
      injection hseq with hseq; injection hseq with h1 h2
      subst h1; subst h2
      obtain ⟨s', hf, hp⟩ := up_tree P k f (some false) (by simp) t t2 arg s htree hheld ho hinv hup
      exact ⟨s', .ok, _, hf, hp, rfl⟩
  | delete k =>
    simp only [Tree.step, bind, Except.bind, pure, Except.pure] at hseq
    split at hseq
    · cases hseq
    · rename_i t2 hdel
      injection hseq with hseq; injection hseq with h1 h2
      subst h1; subst h2
      obtain ⟨s', hf, hp⟩ := del_tree P k t t2 s htree hheld ho hinv hord hdel
      exact ⟨s', .ok, _, hf, hp, rfl⟩
  | search k =>
    simp only [Tree.step, bind, Except.bind, pure, Except.pure] at hseq
    split at hseq
    · cases hseq
    · rename_i v hs
      injection hseq with hseq; injection hseq with h1 h2
      subst h1; subst h2
      obtain ⟨s', hf, hp⟩ := ro_tree P k t v s htree hheld ho hinv hs
      exact ⟨s', .found v, _, hf, hp, rfl, rfl⟩

end Gobptree.Conc
