/-
  C04, the invariant: in every reachable configuration the open cursor of every thread is
  positioned with respect to some bound (`CursorPosW`; `CursorPos` unless it waits in a hop).
-/
import Gobptree.Proofs.CCurStep

namespace Gobptree.Conc
open Gobptree

variable {K V : Type} {lt : K → K → Bool}

/-- the position clause of a cursor value -/
def CurW (lt : K → K → Bool) (T : Tree K V) : Option (Option Nat × Int) → Prop
  | some (some leaf, i) => ∃ b, CurPosW lt T b leaf i
  | _ => True

theorem cursorPosW_iff (T : Tree K V) (th : Thread K V) : CursorPosW lt T th ↔ CurW lt T th.cursor := by
  unfold CursorPosW CurW
  split <;> simp_all

theorem curW_of_noLocks (T : Tree K V) (c : Option (Option Nat × Int)) (h : cursorLocks c = []) : CurW lt T c := by
  match c, h with
  | none, _ => trivial
  | some (none, _), _ => trivial
  | some (some _, _), h => simp [cursorLocks] at h

/-! ### starting an operation -/

theorem startOp_pair_state (t : Nat) (s : St K V) :
    (startOp t s .pair).1 = s ∧ flowIsHop (startOp t s .pair).2 = false := by
  simp only [startOp]
  split
  · split
    · exact ⟨rfl, rfl⟩
    · split
      · exact ⟨rfl, rfl⟩
      · split <;> exact ⟨rfl, rfl⟩
  · exact ⟨rfl, rfl⟩

/-- starting an operation keeps the cursor positioned (the tree is not touched) -/
theorem startOp_curW (h : SWO lt) (t : Nat) (s : St K V) (op : COp K V) {hole : Option Nat}
    (hok : TreeOk hole s.tree) (hord : OrdTree lt s.tree)
    (hc : CursorOk s.tree false s.cursor) (hw : CurW lt s.tree s.cursor) :
    CursorOk s.tree (flowIsHop (startOp t s op).2) (startOp t s op).1.cursor ∧
      CurW lt s.tree (startOp t s op).1.cursor := by
  cases op with
  | ins k v => simp only [startOp]; split <;> exact ⟨hc, hw⟩
  | upd k f y => simp only [startOp]; split <;> exact ⟨hc, hw⟩
  | del k => simp only [startOp]; split <;> exact ⟨hc, hw⟩
  | get k => simp only [startOp]; split <;> exact ⟨hc, hw⟩
  | ns k => simp only [startOp]; split <;> exact ⟨hc, hw⟩
  | pause => exact ⟨hc, hw⟩
  | pair =>
    obtain ⟨h1, h2⟩ := startOp_pair_state t s
    rw [h1, h2]; exact ⟨hc, hw⟩
  | close =>
    simp only [startOp]
    split
    · exact ⟨hc, hw⟩
    · exact ⟨trivial, trivial⟩
  | scan =>
    cases hcur : s.cursor with
    | none =>
      have : startOp t s .scan = (s, .done .skip) := by simp only [startOp, hcur]
      rw [this]; exact ⟨hc, hw⟩
    | some p =>
      obtain ⟨leaf?, i⟩ := p
      cases leaf? with
      | none =>
        have : startOp t s .scan = (s, .done .skip) := by simp only [startOp, hcur]
        rw [this]; exact ⟨hc, hw⟩
      | some leaf =>
        cases hex : s.exhausted with
        | true =>
          have : startOp t s .scan = (s, .done .skip) := by simp only [startOp, hcur, hex]
          rw [this]; exact ⟨hc, hw⟩
        | false =>
          rw [hcur] at hc hw
          obtain ⟨sh, hl, h0, hi, hlt⟩ := hc
          have hlt' : i < (sh.keys.length : Int) := hlt
          obtain ⟨b, hb⟩ := hw
          rcases scan_cases hlt' with h1 | ⟨h1, h2⟩ | ⟨h1, n, h2⟩
          · rw [(scan_inleaf t s hok hcur hex hl h0 hi h1).1]
            have hj : sh.keys[(i + 1).toNat]? = some (sh.keys[(i + 1).toNat]'(by omega)) :=
              List.getElem?_eq_getElem (by omega)
            have hcp := curPos_gt h hok hord hl h0 hj
            have e : (((i + 1).toNat : Nat) : Int) = i + 1 := by omega
            rw [e] at hcp
            exact ⟨⟨sh, hl, h0, by omega, h1⟩, _, hcp.weaken⟩
          · rw [(scan_exhaust t s hok hcur hex hl h0 h1 h2).1]
            exact ⟨trivial, trivial⟩
          · rw [(scan_park t s hok hcur hex hl h0 h1 h2).1]
            refine ⟨⟨sh, hl, h0, by omega, h1⟩, b, hb.park_at_end ?_⟩
            intro sh' hl'
            rw [hl] at hl'
            cases hl'
            exact h1

/-! ### the loop of operations after the first stretch -/

theorem loop_curW (h : SWO lt) (t : Nat) (th : Thread K V) (T : Tree K V) {hole : Option Nat}
    (hok : TreeOk hole T) (hord : OrdTree lt T) :
    ∀ (fuel : Nat) (s : St K V) (fl : Flow K V) (pc : Nat), s.tree = T →
      CursorOk T (flowIsHop fl) s.cursor → CurW lt T s.cursor →
      CursorOk T (isHop (threadLoop t th fuel s fl pc).1.park) (threadLoop t th fuel s fl pc).1.cursor ∧
        CurW lt T (threadLoop t th fuel s fl pc).1.cursor := by
  intro fuel
  induction fuel with
  | zero =>
    intro s fl pc _ hc hw
    cases fl with
    | panic => simp only [threadLoop]; exact ⟨hc, hw⟩
    | park p => simp only [threadLoop]; exact ⟨hc, hw⟩
    | done r => simp only [threadLoop]; exact ⟨hc, hw⟩
  | succ fuel ih =>
    intro s fl pc hT hc hw
    cases fl with
    | panic => simp only [threadLoop]; exact ⟨hc, hw⟩
    | park p => simp only [threadLoop]; exact ⟨hc, hw⟩
    | done r =>
      unfold threadLoop
      cases hop : th.prog[pc + 1]? with
      | none => simp only; exact ⟨hc, hw⟩
      | some op =>
        simp only
        have hs1 : ((s.note t (.ret pc r)).note t (.inv (pc + 1))).tree = T := hT
        have hst := startOp_curW h t ((s.note t (.ret pc r)).note t (.inv (pc + 1))) op
          (by rw [hs1]; exact hok) (by rw [hs1]; exact hord) (by rw [hs1]; exact hc) (by rw [hs1]; exact hw)
        rw [hs1] at hst
        exact ih _ _ _ (by rw [startOp_tree]; exact hs1) hst.1 hst.2

/-! ### the first stretch -/

/-- resuming a continuation leaves the thread's cursor positioned -/
theorem resume_curW (P : Params K) (hK : KParams lt P) (t : Nat) (s : St K V) (k : Kont K V) (H : List Lk)
    {hole : Option Nat} (hpre : Pre P hole s) (hord : OrdTree lt s.tree)
    (hk : KontOk s.tree k) (hc : CursorOk s.tree (isHopK k) s.cursor) (hkp : KontPre s.cursor k)
    (hcov : Covers H s.cursor k) (hpos : KPos lt s.tree k) (hw : CurW lt s.tree s.cursor) :
    CursorOk (resume P t s k).1.tree false (resume P t s k).1.cursor ∧
      CurW lt (resume P t s k).1.tree (resume P t s k).1.cursor := by
  have hsame : setsCursor k = false → cursorLocks s.cursor = [] →
      CursorOk (resume P t s k).1.tree false (resume P t s k).1.cursor ∧
        CurW lt (resume P t s k).1.tree (resume P t s k).1.cursor := by
    intro h1 h2
    rw [(resume_cursor_same P t s k h1).1]
    exact ⟨cursorOk_of_noLocks _ _ _ h2, curW_of_noLocks _ _ h2⟩
  cases k with
  | paused => exact ⟨hc, hw⟩
  | hop cur next =>
    obtain ⟨_, _, h3, shn, kk, v, hln, hn0, hk0, _, hcp, _⟩ := resume_hop hK.swo P t s cur next hpre.tree hord hk
    have hpost := (resume_post_U P t s (.hop cur next) H hole rfl hpre hk hc hkp hcov).1
    refine ⟨hpost.cursor, ?_⟩
    rw [h3]
    exact ⟨_, hcp.weaken⟩
  | roNode sc key hold want =>
    cases sc with
    | false => exact hsame rfl hkp
    | true =>
      have hcur : cursorLocks s.cursor = [] := hkp
      have hpost := (resume_post_U P t s (.roNode true key hold want) H hole rfl hpre hk hc hkp hcov).1
      refine ⟨hpost.cursor, ?_⟩
      cases hfind : s.tree.find want with
      | none =>
        have : resume P t s (.roNode true key hold want) = ((s.acq t (.node want)).rel t hold, .panic) := by
          show roArrive P t (s.acq t (.node want)) true key hold want = _
          unfold roArrive
          have : ((s.acq t (.node want)).rel t hold).tree.find want = none := hfind
          simp only [this]
        rw [this]
        exact curW_of_noLocks _ _ hcur
      | some a =>
        cases hleaf : leafOf? a with
        | some l =>
          rw [leafOf?_some hleaf] at hfind
          obtain ⟨_, hl⟩ := find_leaf_look hfind
          obtain ⟨l', hf', _, h2, h3, hcp, _⟩ :=
            resume_newScanner P hK t s key hold want hpre.tree hord hk hpos hl (shallow_height (d := 0) l)
          rw [h2, h3]
          exact ⟨_, hcp.weaken⟩
        | none =>
          have hr : (resume P t s (.roNode true key hold want)).1.cursor = s.cursor := by
            show (roArrive P t (s.acq t (.node want)) true key hold want).1.cursor = s.cursor
            unfold roArrive
            have : ((s.acq t (.node want)).rel t hold).tree.find want = some a := hfind
            simp only [this, hleaf]
            split
            · rfl
            · split <;> rfl
          rw [hr]
          exact curW_of_noLocks _ _ hcur
  | roTree sc key => exact hsame rfl hkp
  | upTree key f y => exact hsame rfl hkp
  | upRoot key f y r => exact hsame rfl hkp
  | upRootSib key f y root sib => exact hsame rfl hkp
  | upChild key f y parent index child => exact hsame rfl hkp
  | upSib key f y parent child sib => exact hsame rfl hkp
  | upCallback key f leaf arg => exact hsame rfl hkp
  | delTree key => exact hsame rfl hkp
  | delRoot key r => exact hsame rfl hkp
  | delLeft key frames node index left root => exact hsame rfl hkp
  | delChild key frames node index left child root => exact hsame rfl hkp
  | delRight key rest fr right root => exact hsame rfl hkp

/-! ### the other threads -/

/-- **carrying a cursor position across another thread's step, with the SAME bound**: the
    cursor's leaf is held by its thread, so its own fields are unchanged; its place on the route
    of the bound's key is preserved by the stepping thread's stretch -/
theorem other_curPosW {c c' : Config K V} (hinv : CInv c) {t j : Nat} {th b : Thread K V}
    (ht : c.threads[t]? = some th) (hj : c.threads[j]? = some b) (hne : j ≠ t) (hen : th.enabled c = true)
    (hframe : StepFrame c c' th) (hst : StableRoutes lt (stepHeld th) c.tree c'.tree)
    {leaf : Nat} {i : Int} (hcur : b.cursor = some (some leaf, i)) {bd : Bound K}
    (hp : CurPosW lt c.tree bd leaf i) : CurPosW lt c'.tree bd leaf i := by
  have hS := hinv.s
  have hbm : b ∈ c.threads := List.mem_of_getElem? hj
  have hok := hS.cfg b hbm
  have hheld : Lk.node leaf ∈ b.held :=
    parkHeld_sub_held hok _ (List.mem_append_right _ (by rw [hcur]; simp [cursorLocks]))
  have hnot : Lk.node leaf ∉ stepHeld th := stepHeld_excl hS.owner ht hj hne hen hheld
  obtain ⟨sh, hl, h0, hidx, hb⟩ := hp
  have hlt := look_lt_nextId hS.tree.ids hl
  have hl' : c'.tree.look leaf = some sh := by rw [hframe.nodes leaf hlt hnot]; exact hl
  refine ⟨sh, hl', h0, hidx, ?_⟩
  cases bd with
  | ge s => exact (hst s leaf hlt hnot).1 hb
  | gt cc => exact hb

/-! ### the stepping thread's stretch keeps the other threads' routes -/

/-- the `StableRoutes` part of `step_kfinv` -/
theorem step_stable_routes (B : KBlocks K V) (lt : K → K → Bool) (c c' : Config K V) (t : Nat)
    (hstep : c.step t = some c') (h : KFInv lt c) :
    ∀ th, c.threads[t]? = some th → StableRoutes lt (stepHeld th) c.tree c'.tree := by
  intro th0 ht0
  have hinv := h.cinv
  have hk := h.kinv
  have hkp := h.kp
  obtain ⟨th, ht, hen, r, hr, hc'⟩ := step_shape hstep
  rw [ht0] at ht
  cases ht
  have ht := ht0
  have htm : th0 ∈ c.threads := List.mem_of_getElem? ht
  have hS := hinv.s
  have hok := hS.cfg th0 htm
  have hsok := hS.threads th0 htm
  have hnf := enabled_not_finished hen
  have htree' : c'.tree = r.2.1.tree := by rw [hc']
  rw [htree', hr]
  have hwit : ∀ r' x, othersWit c t r' x → Lk.node r' ∉ stepHeld th0 := by
    rintro r' x ⟨j, b, hne, hj, hw⟩
    exact stepHeld_excl hS.owner ht hj hne hen (parkWit_held (hS.cfg b (List.mem_of_getElem? hj)) hw)
  have hisep0 : ISepW lt (fun r' x => othersWit c t r' x ∨ parkWit th0.park r' x) c.tree := by
    refine isepW_mono ((isep_iff lt c).1 h.isep) ?_
    rintro r' x ⟨b, hb, hw⟩
    obtain ⟨j, hj⟩ := List.getElem?_of_mem hb
    by_cases e : j = t
    · subst e; rw [ht] at hj; cases hj; exact Or.inr hw
    · exact Or.inl ⟨j, b, e, hj, hw⟩
  unfold runThread
  cases hp : th0.park with
  | finished => exact absurd hp hnf
  | start =>
    simp only
    cases hop : th0.prog[0]? with
    | none => exact fun _ _ _ _ => ⟨id, id⟩
    | some op =>
      simp only
      have ht1 : (threadLoop t th0 th0.prog.length (startOp t ((stepSt c t th0).note t (.inv 0)) op).1
          (startOp t ((stepSt c t th0).note t (.inv 0)) op).2 0).2.1.tree = c.tree := by
        rw [threadLoop_tree, startOp_tree]; rfl
      rw [ht1]
      exact fun _ _ _ _ => ⟨id, id⟩
  | want l k =>
    simp only
    rw [hp] at hisep0
    have hkpos : KPos lt c.tree k := by
      have := hk.pos th0 htm; rw [hp] at this; exact this
    have hko : KontOk c.tree k := by have := hsok.1; rw [hp] at this; exact this
    have hcur : CursorOk c.tree (isHopK k) th0.cursor := by
      have := hsok.2; rw [hp, isHop_want] at this; exact this
    have hkpre : KontPre th0.cursor k := by have := hok.2.1; rw [hp] at this; exact this
    have hcov := covers_of_ok (s0 := stepSt c t th0) rfl hok k (Or.inr ⟨l, hp⟩)
    rw [threadLoop_tree]
    cases hdel : isDelK k with
    | false =>
      exact (B.ku lt c.P t (stepSt c t th0) k (stepHeld th0) (holeOf c.threads) hdel hkp
        ⟨hS.tree, hS.order, hS.pad⟩ hko hcur hkpre hcov hk.ord hkpos).2
    | true =>
      have hhole : holeOf c.threads = kontHole k := by
        rw [hole_of_stepper hS ht hen (by rw [hp]; exact hdel), hp, parkHole_want]
      have hpre : Pre c.P (kontHole k) (stepSt c t th0) := ⟨by rw [← hhole]; exact hS.tree, hS.order, hS.pad⟩
      have hI0 : ISepW lt (othersWit c t) c.tree := by
        refine isepW_mono hisep0 ?_
        rintro r' x (hw | hw)
        · exact hw
        · exfalso
          cases k <;> first | exact hw | (simp [isDelK] at hdel)
      have h4 : 4 ≤ (stepSt c t th0).tree.order := hinv.four htm (by rw [hp]; exact hdel)
      exact (B.id lt c.P t (stepSt c t th0) k (stepHeld th0) (othersWit c t) hdel h4 hkp hpre hko hkpre hcov
        hk.ord hkpos hwit hI0).2
  | yielded k =>
    simp only
    have hkpos : KPos lt c.tree k := by
      have := hk.pos th0 htm; rw [hp] at this; exact this
    have hko : KontOk c.tree k := by have := hsok.1; rw [hp] at this; exact this
    have hlock : kontLock k = none := by have := hok.2.2; rw [hp] at this; exact this
    have hhop : isHopK k = false := by
      cases k <;> first | rfl | (simp [kontLock] at hlock)
    have hdel : isDelK k = false := by
      cases k <;> first | rfl | (simp [kontLock] at hlock)
    have hcur : CursorOk c.tree (isHopK k) th0.cursor := by
      have := hsok.2; rw [hp, isHop_yielded] at this; rw [hhop]; exact this
    have hkpre : KontPre th0.cursor k := by have := hok.2.1; rw [hp] at this; exact this
    have hcov := covers_of_ok (s0 := stepSt c t th0) rfl hok k (Or.inl hp)
    rw [threadLoop_tree]
    exact (B.ku lt c.P t (stepSt c t th0) k (stepHeld th0) (holeOf c.threads) hdel hkp
      ⟨hS.tree, hS.order, hS.pad⟩ hko hcur hkpre hcov hk.ord hkpos).2

/-! ### the invariant -/

/-- **one step keeps every cursor positioned** -/
theorem step_cursorPosW (B : KBlocks K V) (lt : K → K → Bool) (c c' : Config K V) (t : Nat)
    (hstep : c.step t = some c') (h : KFInv lt c) (hw : ∀ th ∈ c.threads, CursorPosW lt c.tree th) :
    ∀ th ∈ c'.threads, CursorPosW lt c'.tree th := by
  have h' : KFInv lt c' := step_kfinv B lt c c' t hstep h
  have hinv := h.cinv
  have hk := h.kinv
  have hkp := h.kp
  obtain ⟨th, ht, hen, r, hr, hc'⟩ := step_shape hstep
  obtain ⟨_, th2, ht2, hframe⟩ := step_cinv blocks_ok c c' t hstep hinv
  rw [ht] at ht2
  cases ht2
  have hst := step_stable_routes B lt c c' t hstep h th ht
  have htm : th ∈ c.threads := List.mem_of_getElem? ht
  have hS := hinv.s
  have hok := hS.cfg th htm
  have hsok := hS.threads th htm
  have hnf := enabled_not_finished hen
  have htree' : c'.tree = r.2.1.tree := by rw [hc']
  have hths' : c'.threads = c.threads.set t r.1 := by rw [hc']
  have hswo := hkp.swo
  have hw0 : CurW lt c.tree th.cursor := (cursorPosW_iff _ _).1 (hw th htm)
  have hok' := h'.cinv.s.tree
  have hord' := h'.kinv.ord
  rw [htree'] at hok' hord'
  -- the stepping thread
  have main : CurW lt r.2.1.tree r.1.cursor := by
    rw [hr] at hok' hord' ⊢
    unfold runThread at hok' hord' ⊢
    cases hp : th.park with
    | finished => exact absurd hp hnf
    | start =>
      simp only [hp] at hok' hord' ⊢
      have hc0 : CursorOk c.tree false th.cursor := by
        have := hsok.2; rw [hp] at this; exact this
      cases hop : th.prog[0]? with
      | none => exact hw0
      | some op =>
        simp only [hop] at hok' hord' ⊢
        have ht1 : (threadLoop t th th.prog.length (startOp t ((stepSt c t th).note t (.inv 0)) op).1
            (startOp t ((stepSt c t th).note t (.inv 0)) op).2 0).2.1.tree = c.tree := by
          rw [threadLoop_tree, startOp_tree]; rfl
        have hs1 : ((stepSt c t th).note t (.inv 0)).tree = c.tree := rfl
        have hsto := startOp_curW hswo t ((stepSt c t th).note t (.inv 0)) op
          (by rw [hs1]; exact hS.tree) (by rw [hs1]; exact hk.ord) hc0 hw0
        rw [hs1] at hsto
        rw [ht1]
        exact (loop_curW hswo t th c.tree hS.tree hk.ord _ _ _ _ (by rw [startOp_tree]; rfl) hsto.1 hsto.2).2
    | want l k =>
      simp only [hp] at hok' hord' ⊢
      rw [threadLoop_tree] at hok' hord' ⊢
      have hkpos : KPos lt c.tree k := by
        have := hk.pos th htm; rw [hp] at this; exact this
      have hko : KontOk c.tree k := by have := hsok.1; rw [hp] at this; exact this
      have hcur : CursorOk c.tree (isHopK k) th.cursor := by
        have := hsok.2; rw [hp, isHop_want] at this; exact this
      have hkpre : KontPre th.cursor k := by have := hok.2.1; rw [hp] at this; exact this
      have hcov := covers_of_ok (s0 := stepSt c t th) rfl hok k (Or.inr ⟨l, hp⟩)
      have hres := resume_curW c.P hkp t (stepSt c t th) k (stepHeld th) ⟨hS.tree, hS.order, hS.pad⟩ hk.ord hko hcur
        hkpre hcov hkpos hw0
      have hnh := resume_not_hop c.P t (stepSt c t th) k
      exact (loop_curW hswo t th _ hok' hord' _ _ _ _ rfl (by rw [hnh]; exact hres.1) hres.2).2
    | yielded k =>
      simp only [hp] at hok' hord' ⊢
      rw [threadLoop_tree] at hok' hord' ⊢
      have hkpos : KPos lt c.tree k := by
        have := hk.pos th htm; rw [hp] at this; exact this
      have hko : KontOk c.tree k := by have := hsok.1; rw [hp] at this; exact this
      have hlock : kontLock k = none := by have := hok.2.2; rw [hp] at this; exact this
      have hhop : isHopK k = false := by
        cases k <;> first | rfl | (simp [kontLock] at hlock)
      have hcur : CursorOk c.tree (isHopK k) th.cursor := by
        have := hsok.2; rw [hp, isHop_yielded] at this; rw [hhop]; exact this
      have hkpre : KontPre th.cursor k := by have := hok.2.1; rw [hp] at this; exact this
      have hcov := covers_of_ok (s0 := stepSt c t th) rfl hok k (Or.inl hp)
      have hres := resume_curW c.P hkp t (stepSt c t th) k (stepHeld th) ⟨hS.tree, hS.order, hS.pad⟩ hk.ord hko hcur
        hkpre hcov hkpos hw0
      have hnh := resume_not_hop c.P t (stepSt c t th) k
      exact (loop_curW hswo t th _ hok' hord' _ _ _ _ rfl (by rw [hnh]; exact hres.1) hres.2).2
  intro b hb
  obtain ⟨j, hj⟩ := List.getElem?_of_mem hb
  rw [hths'] at hj
  rcases getElem?_set_cases _ _ _ _ _ hj with ⟨_, e⟩ | ⟨hne, hjo⟩
  · rw [e, htree']; exact (cursorPosW_iff _ _).2 main
  · have hwb := hw b (List.mem_of_getElem? hjo)
    unfold CursorPosW at hwb ⊢
    split
    · rename_i leaf i hcur
      rw [hcur] at hwb
      obtain ⟨bd, hbd⟩ := hwb
      exact ⟨bd, other_curPosW hinv ht hjo hne hen hframe hst hcur hbd⟩
    · trivial

theorem init_cursorPosW (lt : K → K → Bool) (P : Params K) (tree : Tree K V) (progs : List (List (COp K V))) :
    ∀ th ∈ (Config.init P tree progs).threads, CursorPosW lt (Config.init P tree progs).tree th := by
  intro th hth
  simp only [Config.init, List.mem_map] at hth
  obtain ⟨p, _, e⟩ := hth
  rw [← e]
  trivial

/-- the weak form, in every reachable configuration -/
theorem reachable_cursorPosW (B : KBlocks K V) (lt : K → K → Bool) (P : Params K) (tree : Tree K V)
    (progs : List (List (COp K V)))
    (hkp : KParams lt P) (ht : TreeOk none tree) (hord : OrdTree lt tree) (hsep : SepTree lt tree)
    (ho : tree.order = P.order) (hp : PadOk P) (hd : Disciplined progs)
    (hdel : 4 ≤ tree.order ∨ NoDelete progs)
    (c : Config K V) (hr : Reachable (Config.init P tree progs) c) :
    KFInv lt c ∧ ∀ th ∈ c.threads, CursorPosW lt c.tree th := by
  induction hr with
  | refl => exact ⟨init_kfinv lt P tree progs hkp ht hord hsep ho hp hd hdel, init_cursorPosW lt P tree progs⟩
  | @step c1 c2 t _ hs ih => exact ⟨step_kfinv B lt c1 c2 t hs ih.1, step_cursorPosW B lt c1 c2 t hs ih.1 ih.2⟩

/-- **C04, the invariant**: in every reachable configuration every open cursor is positioned with
    respect to some bound — in the form `CursorPosW` always, in the form `CursorPos` of `CCDefs`
    unless the thread is parked in the cursor hop (where `CursorPos` is unsatisfiable) -/
theorem reachable_cursorPos (B : KBlocks K V) (lt : K → K → Bool) (P : Params K) (tree : Tree K V)
    (progs : List (List (COp K V)))
    (hkp : KParams lt P) (ht : TreeOk none tree) (hord : OrdTree lt tree) (hsep : SepTree lt tree)
    (ho : tree.order = P.order) (hp : PadOk P) (hd : Disciplined progs)
    (hdel : 4 ≤ tree.order ∨ NoDelete progs)
    (c : Config K V) (hr : Reachable (Config.init P tree progs) c) :
    ∀ th ∈ c.threads, CursorPosW lt c.tree th ∧ (isHop th.park = false → CursorPos lt c.tree th) := by
  obtain ⟨hinv, hw⟩ := reachable_cursorPosW B lt P tree progs hkp ht hord hsep ho hp hd hdel c hr
  intro th hth
  refine ⟨hw th hth, ?_⟩
  intro hnh
  have hwt := hw th hth
  have hcok := (hinv.cinv.s.threads th hth).2
  rw [hnh] at hcok
  unfold CursorPosW at hwt
  unfold CursorPos
  split
  · rename_i leaf i hcur
    rw [hcur] at hwt hcok
    obtain ⟨b, hb⟩ := hwt
    obtain ⟨sh, hl, _, _, hlt⟩ := hcok
    refine ⟨b, hb.strengthen hinv.kp.swo hinv.cinv.s.tree hinv.kinv.ord ?_⟩
    intro sh' hl'
    rw [hl] at hl'
    cases hl'
    exact hlt
  · trivial

end Gobptree.Conc
