/-
  READ FRAME, part 6a: the end of Delete's unwinding (root collapse) in the two runs.
-/
import Gobptree.Proofs.CReadFrameReb
import Gobptree.Proofs.CReadFrameUp

namespace Gobptree.Conc
open Gobptree

variable {K V : Type}

theorem delFinish_eq (t : Nat) (s : St K V) (small : Bool) (rootWas : Nat) :
    delFinish t s small rootWas =
      ((({ s with tree := finishTree s.tree small } : St K V).rel t (.node rootWas)).rel t .tree, .done .ok) := by
  by_cases hc : (!small) = true ∨ Node.count s.tree.root > 1
  · simp only [delFinish, finishTree, hc, if_true]
  · simp only [delFinish, finishTree, hc, if_false]
    cases collapseRoot s.tree.order s.tree.nextId s.tree.depth s.tree.root <;> rfl

theorem finishTree_rf {S : Nat → Prop} {R : Prop} {T1 T2 : Tree K V} (small : Bool) (hT : TRel S R T1 T2) (hR : R)
    (hSr : S T1.rootId)
    (hok1 : TreeOk' (if small then some T1.rootId else none) T1)
    (hok2 : TreeOk' (if small then some T2.rootId else none) T2) :
    TRel S R (finishTree T1 small) (finishTree T2 small) := by
  obtain ⟨o1, dp1, root1, nid1⟩ := T1
  obtain ⟨o2, dp2, root2, nid2⟩ := T2
  obtain ⟨hrid, hdp⟩ := hT.root hR
  have ho := hT.order
  have hni := hT.nextId
  simp only at hdp ho hni
  subst hdp ho hni
  have hrid' : Node.id root1 = Node.id root2 := hrid
  have hshr : shallow root1 = shallow root2 := by
    have h := hT.look _ hSr
    have l1 := look_root (t := Tree.mk o1 dp1 root1 nid1) hok1.ids
    have l2 := look_root (t := Tree.mk o1 dp1 root2 nid1) hok2.ids
    rw [← hrid] at l2
    rw [l1, l2] at h
    exact Option.some.inj h
  have hcnt : Node.count root1 = Node.count root2 := count_of_shallow hshr
  cases small with
  | false =>
    have e1 : finishTree (Tree.mk o1 dp1 root1 nid1) false = Tree.mk o1 dp1 root1 nid1 := by simp [finishTree]
    have e2 : finishTree (Tree.mk o1 dp1 root2 nid1) false = Tree.mk o1 dp1 root2 nid1 := by simp [finishTree]
    rw [e1, e2]; exact hT
  | true =>
    simp only [if_true] at hok1 hok2
    by_cases hc : Node.count root1 > 1
    · have e1 : finishTree (Tree.mk o1 dp1 root1 nid1) true = Tree.mk o1 dp1 root1 nid1 := by simp [finishTree, hc]
      have e2 : finishTree (Tree.mk o1 dp1 root2 nid1) true = Tree.mk o1 dp1 root2 nid1 := by
        simp [finishTree, hcnt ▸ hc]
      rw [e1, e2]; exact hT
    · have hc2 : ¬ Node.count root2 > 1 := by rw [← hcnt]; exact hc
      cases dp1 with
      | zero =>
        have e1 : finishTree (K := K) (V := V) ⟨o1, 0, root1, nid1⟩ true = ⟨o1, 0, root1, nid1⟩ := by
          simp [finishTree, hc, collapseRoot, pure, Except.pure]
        have e2 : finishTree (K := K) (V := V) ⟨o1, 0, root2, nid1⟩ true = ⟨o1, 0, root2, nid1⟩ := by
          simp [finishTree, hc2, collapseRoot, pure, Except.pure]
        rw [e1, e2]; exact hT
      | succ d =>
        have key : ∀ (r : Inner K (Node K V d)), TreeOk' (some (Tree.mk o1 (d + 1) r nid1 : Tree K V).rootId) (Tree.mk o1 (d + 1) r nid1) →
            ¬ Node.count (d := d + 1) r > 1 →
            ∃ k, r.kids = [k] ∧ finishTree (K := K) (V := V) ⟨o1, d + 1, r, nid1⟩ true = ⟨o1, d, k, nid1⟩ := by
          intro r hok hcnt
          have occ := hok.occ (r.id, shallow (d := d + 1) r) (self_mem_flat (d := d + 1) r)
          have hp := (par_inner r).1 occ.par
          have hc1 : r.runts.length = 1 := by
            have : Node.count (d := d + 1) r = r.runts.length := rfl
            omega
          obtain ⟨k, hk⟩ : ∃ k, r.kids = [k] := by
            have hl : r.kids.length = 1 := by omega
            match h : r.kids, hl with
            | [k], _ => exact ⟨k, rfl⟩
          refine ⟨k, hk, ?_⟩
          simp [finishTree, hcnt, collapseRoot, hk, pure, Except.pure]
        obtain ⟨k1, hk1, e1⟩ := key root1 hok1 hc
        obtain ⟨k2, hk2, e2⟩ := key root2 hok2 hc2
        have hn1' : (finishTree (Tree.mk o1 (d + 1) root1 nid1) true).ids.Nodup := (finish_step (small := true) (by simpa using hok1)).1.ids.1
        have hn2' : (finishTree (Tree.mk o1 (d + 1) root2 nid1) true).ids.Nodup := (finish_step (small := true) (by simpa using hok2)).1.ids.1
        rw [e1] at hn1' ⊢
        rw [e2] at hn2' ⊢
        have hkid : Node.id k1 = Node.id k2 := by
          have := (inner_of_shallow (i1 := root1) (i2 := root2) hshr).2
          rw [hk1, hk2] at this
          simpa using this
        refine ⟨rfl, rfl, ?_, fun _ => ⟨hkid, rfl⟩⟩
        have hfl : ∀ (r : Inner K (Node K V d)) (k : Node K V d), r.kids = [k] →
            (Tree.mk o1 (d + 1) r nid1 : Tree K V).flat.Perm (flat k ++ [(r.id, shallow (d := d + 1) r)]) := by
          intro r k hk
          show (flat (d := d + 1) r).Perm _
          rw [flat_inner, hk]
          simp only [List.flatMap_cons, List.flatMap_nil, List.append_nil]
          exact List.perm_append_comm (l₁ := [_]) (l₂ := flat k)
        refine rewrite_rf (E1' := []) (E2' := []) (hfl root1 k1 hk1) (by simp; exact List.Perm.refl _) hok1.ids.1 hn1'
          (hfl root2 k2 hk2) (by simp; exact List.Perm.refl _) hok2.ids.1 hn2' hT.look ?_ ?_
        · intro x _
          show x ∈ [Node.id (d := d + 1) root1] ↔ x ∈ [Node.id (d := d + 1) root2]
          rw [hrid']
        · intro x _ sh
          exact Iff.rfl

end Gobptree.Conc
