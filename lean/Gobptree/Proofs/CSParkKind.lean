/-
  No block of the small-step model ever parks at `.start` or `.finished`: whenever the code
  between two parks ends in `.park p`, `p` is a `.want` or a `.yielded`.  Read off every block
  of Conc.lean, as in ConcHeld/ConcOwner/CSDiscLemmas.
-/
import Gobptree.Proofs.CSDiscLemmas

namespace Gobptree.Conc
open Gobptree

variable {K V : Type}

def Park.live : Park K V → Prop
  | .want _ _ => True
  | .yielded _ => True
  | _ => False

/-- a block's outcome, if it is a park, is a live park -/
def liveFlow : Flow K V → Prop
  | .park p => p.live
  | _ => True

/-- closes `liveFlow fl` for an explicit `fl` -/
macro "live" : tactic => `(tactic| exact True.intro)

/-! ### the blocks -/

theorem roArrive_live (P : Params K) (t : Nat) (s : St K V) (sc : Bool) (key : K) (hold : Lk) (n : Nat) :
    liveFlow (roArrive P t s sc key hold n).2 := by
  unfold roArrive
  simp only
  split
  · live
  · split
    · split
      · live
      · split
        · live
        · live
    · split
      · live
      · split <;> live

theorem upLeaf_live (P : Params K) (t : Nat) (s : St K V) (key : K) (f : Option V → V) (y : Option Bool) (n : Nat)
    (l : Leaf K V) : liveFlow (upLeaf P t s key f y n l).2 := by
  unfold upLeaf
  split
  · live
  · split
    · live
    · live
    · live

theorem upContinue_live (P : Params K) (t : Nat) (s : St K V) (key : K) (f : Option V → V) (y : Option Bool) (n : Nat) :
    liveFlow (upContinue P t s key f y n).2 := by
  unfold upContinue
  split
  · live
  · split
    · exact upLeaf_live P t s key f y n _
    · split
      · live
      · simp only
        split <;> live

theorem upChildArrive_live (P : Params K) (t : Nat) (s : St K V) (key : K) (f : Option V → V) (y : Option Bool)
    (parent index child : Nat) : liveFlow (upChildArrive P t s key f y parent index child).2 := by
  unfold upChildArrive
  split
  · split
    · live
    · split
      · live
      · split
        · live
        · exact upContinue_live P t _ key f y child
        · split
          · split
            · live
            · exact upContinue_live P t _ key f y child
          · live
  · live

theorem upRootArrive_live (P : Params K) (t : Nat) (s : St K V) (key : K) (f : Option V → V) (y : Option Bool)
    (root : Nat) : liveFlow (upRootArrive P t s key f y root).2 := by
  unfold upRootArrive
  simp only
  split
  · live
  · exact upContinue_live P t _ key f y root
  · split
    · split
      · live
      · exact upContinue_live P t _ key f y root
    · live

theorem delFinish_live (t : Nat) (s : St K V) (small : Bool) (root : Nat) :
    liveFlow (delFinish t s small root).2 := by
  unfold delFinish
  live

theorem delUnwind_live (P : Params K) (t : Nat) (key : K) (root : Nat) :
    ∀ (frames : List Frame) (s : St K V) (small : Bool), liveFlow (delUnwind P t s key frames small root).2 := by
  intro frames
  induction frames with
  | nil => intro s small; unfold delUnwind; exact delFinish_live t s small root
  | cons fr rest ih =>
    intro s small
    unfold delUnwind
    split
    · exact ih _ false
    · split
      · split
        · split <;> live
        · split
          · live
          · split
            · live
            · rename_i i' small' _
              exact ih _ small'
      · live

theorem delRightArrive_live (P : Params K) (t : Nat) (s : St K V) (key : K) (rest : List Frame) (fr : Frame)
    (right root : Nat) : liveFlow (delRightArrive P t s key rest fr right root).2 := by
  unfold delRightArrive
  split
  · split
    · live
    · split
      · live
      · rename_i i' small' _
        exact delUnwind_live P t key root rest _ small'
  · live

theorem delGo_live (P : Params K) (t : Nat) (s : St K V) (key : K) (frames : List Frame) (n root : Nat) :
    liveFlow (delGo P t s key frames n root).2 := by
  unfold delGo
  have henter : liveFlow (delEnter P t s key frames n root).2.1 := by
    unfold delEnter
    split
    · live
    · split
      · split
        · live
        · live
      · split
        · live
        · simp only
          split
          · split <;> live
          · split <;> live
  split
  · rename_i s1 fl heq
    rw [heq] at henter; exact henter
  · rename_i s1 fl frames' small heq
    exact delUnwind_live P t key root frames' s1 small

/-! ### resume / startOp -/

theorem resume_live (P : Params K) (t : Nat) (s : St K V) (k : Kont K V) : liveFlow (resume P t s k).2 := by
  cases k with
  | roTree sc key => simp only [resume]; live
  | roNode sc key hold want => simp only [resume]; exact roArrive_live P t _ sc key hold want
  | upTree key f y => simp only [resume]; live
  | upRoot key f y r => simp only [resume]; exact upRootArrive_live P t _ key f y r
  | upRootSib key f y root sib => simp only [resume]; exact upContinue_live P t _ key f y sib
  | upChild key f y parent index child =>
    simp only [resume]; exact upChildArrive_live P t _ key f y parent index child
  | upSib key f y parent child sib => simp only [resume]; exact upContinue_live P t _ key f y sib
  | upCallback key f leaf arg =>
    simp only [resume]
    split
    · split
      · split <;> live
      · live
    · live
  | delTree key => simp only [resume]; live
  | delRoot key r => simp only [resume]; exact delGo_live P t _ key [] r r
  | delLeft key frames node index left root =>
    simp only [resume]
    split
    · split <;> live
    · live
  | delChild key frames node index left child root =>
    simp only [resume]; exact delGo_live P t _ key _ child root
  | delRight key rest fr right root =>
    simp only [resume]; exact delRightArrive_live P t _ key rest fr right root
  | hop cur next => simp only [resume]; live
  | paused => simp only [resume]; live

theorem startOp_live (t : Nat) (s : St K V) (op : COp K V) : liveFlow (startOp t s op).2 := by
  cases op with
  | ins k v => simp only [startOp]; split <;> live
  | upd k f y => simp only [startOp]; split <;> live
  | del k => simp only [startOp]; split <;> live
  | get k => simp only [startOp]; split <;> live
  | ns k => simp only [startOp]; split <;> live
  | pause => simp only [startOp]; live
  | scan =>
    simp only [startOp]
    split
    · split
      · live
      · split
        · split <;> live
        · live
    · live
  | pair =>
    simp only [startOp]
    split
    · split
      · live
      · split
        · live
        · split <;> live
    · live
  | close =>
    simp only [startOp]
    split
    · live
    · live

/-- a thread resumed from a park never parks at `.start` or `.finished` -/
theorem resume_park_live (P : Params K) (t : Nat) (s : St K V) (k : Kont K V) (p : Park K V)
    (h : (resume P t s k).2 = .park p) : p.live := by
  have := resume_live P t s k
  rw [h] at this
  exact this

/-- an operation's first stretch never parks at `.start` or `.finished` -/
theorem startOp_park_live (t : Nat) (s : St K V) (op : COp K V) (p : Park K V)
    (h : (startOp t s op).2 = .park p) : p.live := by
  have := startOp_live t s op
  rw [h] at this
  exact this

end Gobptree.Conc
