/-
  Single-thread agreement, part 10: Delete, the descent; `Delete` of a lone thread computes
  `Tree.delete`.
-/
import Gobptree.Proofs.CSoloDel3

namespace Gobptree.Conc
open Gobptree

variable {K V : Type}

/-! ### the blocks of the descent, given what `find` returns -/

theorem delGo_leaf (P : Params K) (t : Nat) (s : St K V) (key : K) (frames : List Frame) (n rw : Nat)
    (l l' : Leaf K V) (small : Bool)
    (hfind : s.tree.find n = some ⟨0, l⟩) (hd : Leaf.deleteKey P l (P.order >>> 1) key = .ok (l', small)) :
    delGo P t s key frames n rw = delUnwind P t (s.setTree (putLeaf s.tree l')) key frames small rw := by
  unfold delGo delEnter
  rw [hfind]
  simp only [leafOf?, hd]

theorem delGo_left (P : Params K) (t : Nat) (s : St K V) (key : K) (frames : List Frame) (n rw : Nat)
    {d : Nat} (p : Inner K (Node K V d)) (l : Node K V d)
    (hfind : s.tree.find n = some ⟨d + 1, p⟩) (hpos : searchLE P.lt key p.runts > 0)
    (hk : p.kids[searchLE P.lt key p.runts - 1]? = some l) :
    delGo P t s key frames n rw =
      (s, .park (.want (.node (Node.id l)) (.delLeft key frames n (searchLE P.lt key p.runts) (Node.id l) rw))) := by
  unfold delGo delEnter
  rw [hfind]
  simp only [leafOf?, innerRunts?, innerKidId?, hpos, if_true, hk, Option.map_some]

theorem delGo_zero (P : Params K) (t : Nat) (s : St K V) (key : K) (frames : List Frame) (n rw : Nat)
    {d : Nat} (p : Inner K (Node K V d)) (c : Node K V d)
    (hfind : s.tree.find n = some ⟨d + 1, p⟩) (hpos : ¬ searchLE P.lt key p.runts > 0)
    (hk : p.kids[searchLE P.lt key p.runts]? = some c) :
    delGo P t s key frames n rw =
      (s, .park (.want (.node (Node.id c)) (.delChild key frames n (searchLE P.lt key p.runts) none (Node.id c) rw))) := by
  unfold delGo delEnter
  rw [hfind]
  simp only [leafOf?, innerRunts?, innerKidId?, hpos, if_false, hk, Option.map_some]

theorem resume_delLeft (P : Params K) (t : Nat) (s : St K V) (key : K) (frames : List Frame) (node index left root : Nat)
    {d : Nat} (p : Inner K (Node K V d)) (c : Node K V d)
    (hfind : s.tree.find node = some ⟨d + 1, p⟩) (hk : p.kids[index]? = some c) :
    resume P t s (.delLeft key frames node index left root) =
      (s.acq t (.node left), .park (.want (.node (Node.id c))
        (.delChild key frames node index (some left) (Node.id c) root))) := by
  simp only [resume, show (s.acq t (.node left)).tree = s.tree from rfl, hfind, innerKidId?, hk, Option.map_some]

/-- the statement proved by induction on the height -/
def DelSim (P : Params K) (key : K) (rootWas : Nat) (d : Nat) : Prop :=
  ∀ {D : Nat} (c : Ctx K V D d) (x : Node K V d) (o nid : Nat) (s : St K V) (res : Node K V D × Bool),
    s.tree = treeOf o c x nid → s.held = c.locks (Node.id x) → OwnOk s → IdInv c x nid →
    c.rootId (Node.id x) = rootWas →
    (deleteNode P {} (P.order >>> 1) key d x >>= unwindCtx P (P.order >>> 1) c) = .ok res →
    ∃ s', SoloFin P (delGo P 0 s key (c.frames (Node.id x)) (Node.id x) rootWas) s' .ok ∧
      SoloPost s s' (finishTree ⟨o, D, res.1, nid⟩ res.2) []

theorem del_leaf (P : Params K) (key : K) (rootWas : Nat) : DelSim (V := V) P key rootWas 0 := by
  intro D c l o nid s res htree hheld ho hinv hroot hseq
  have hnm : Node.id (d := 0) l ∉ c.ids := hinv.not_mem
  have hfind : s.tree.find (Node.id (d := 0) l) = some ⟨0, l⟩ := by
    rw [htree]; exact find_treeOf o c l nid hnm
  have hseq' : (Leaf.deleteKey P l (P.order >>> 1) key >>= unwindCtx P (P.order >>> 1) c) = .ok res := hseq
  cases hd : Leaf.deleteKey P l (P.order >>> 1) key with
  | error e => rw [hd] at hseq'; cases hseq'
  | ok v =>
    obtain ⟨l', small⟩ := v
    rw [hd] at hseq'
    have hun : unwindCtx P (P.order >>> 1) c ((l' : Node K V 0), small) = .ok res := hseq'
    have hid : (l' : Leaf K V).id = (l : Leaf K V).id := Leaf.deleteKey_id P l l' _ key small hd
    have hid' : Node.id (d := 0) l' = Node.id (d := 0) l := hid
    rw [delGo_leaf P 0 s key _ _ rootWas l l' small hfind hd]
    obtain ⟨s', hf, hpost⟩ := unw_all P key rootWas c (l' : Node K V 0) small o nid
      (s.setTree (putLeaf s.tree l')) res
      (by show putLeaf s.tree l' = _; rw [htree]; exact putLeaf_treeOf o c l l' nid hid hnm)
      (by rw [hid']; exact hheld) (ho.setTree _) (by rw [hid']; exact hinv.lockInv)
      (by rw [hid']; exact hroot) hun
    rw [hid'] at hf
    exact ⟨s', hf, hpost.tree, hpost.held, hpost.own, hpost.cursor, hpost.exhausted,
      (Grows.of_evs_eq (s' := s.setTree (putLeaf s.tree l')) rfl).trans_nil hpost.evs⟩

theorem del_inner (P : Params K) (key : K) (rootWas : Nat) (d : Nat) (ih : DelSim (V := V) P key rootWas d)
    {D : Nat} (c : Ctx K V D (d + 1)) (p : Inner K (Node K V d)) (o nid : Nat) (s : St K V) (res : Node K V D × Bool)
    (htree : s.tree = treeOf o c (p : Node K V (d + 1)) nid) (hheld : s.held = c.locks p.id) (ho : OwnOk s)
    (hinv : IdInv c (p : Node K V (d + 1)) nid) (hroot : c.rootId p.id = rootWas)
    (hseq : (deleteNode P {} (P.order >>> 1) key (d + 1) (p : Node K V (d + 1)) >>= unwindCtx P (P.order >>> 1) c) = .ok res) :
    ∃ s', SoloFin P (delGo P 0 s key (c.frames p.id) p.id rootWas) s' .ok ∧
      SoloPost s s' (finishTree ⟨o, D, res.1, nid⟩ res.2) [] := by
  cases hk : p.kids[searchLE P.lt key p.runts]? with
  | none =>
    rw [deleteNode_succ_none P _ key p hk] at hseq
    cases hseq
  | some child =>
    obtain ⟨A, B, hkids, hA⟩ := kids_split _ _ _ hk
    have hnm : p.id ∉ c.ids := hinv.not_mem
    have hfind : s.tree.find p.id = some ⟨d + 1, p⟩ := by
      rw [htree]; exact find_treeOf o c (p : Node K V (d + 1)) nid hnm
    have hgl := delGo_left P 0 s key (c.frames p.id) p.id rootWas p
    have hgz := delGo_zero P 0 s key (c.frames p.id) p.id rootWas p child hfind
    have hrl := fun (s1 : St K V) (l : Nat) => resume_delLeft P 0 s1 key (c.frames p.id) p.id
      (searchLE P.lt key p.runts) l rootWas p child
    obtain ⟨pid, prunts, pkids⟩ := p
    simp only at hkids hA hk hnm hfind hheld hroot hgl hgz hrl
    subst hkids
    rw [deleteNode_succ P _ key pid prunts A B child hA, bind_assoc] at hseq
    have hseq2 : (deleteNode P {} (P.order >>> 1) key d child >>=
        unwindCtx P (P.order >>> 1) (Ctx.kid c pid prunts A B)) = .ok res := hseq
    have hcnt : ∀ a, (c.ids.count a + ((if pid = a then 1 else 0) + (A.flatMap nids).count a + (nids child).count a +
        (B.flatMap nids).count a) ≤ 1) ∧ (0 < c.ids.count a + ((if pid = a then 1 else 0) + (A.flatMap nids).count a +
        (nids child).count a + (B.flatMap nids).count a) → a < nid) := by
      intro a
      have := hinv a
      rw [count_nids_split] at this
      exact this
    have hcc := count_id_nids child
    have hinv2 : IdInv (Ctx.kid c pid prunts A B) child nid := by
      intro a
      have := hcnt a
      rw [count_ids_kid]
      omega
    have hcfree : Lk.node (Node.id child) ∉ c.locks pid := by
      intro hm
      have h1 := (hcnt (Node.id child)).1
      rcases mem_locks _ c pid hm with e | e
      · rw [if_pos e.symm] at h1; omega
      · omega
    by_cases hpos : A.length > 0
    · -- the left sibling is locked first
      cases hgla : A.getLast? with
      | none =>
        rw [List.getLast?_eq_none_iff] at hgla
        subst hgla
        simp at hpos
      | some left =>
        have hk1 : (A ++ child :: B)[searchLE P.lt key prunts - 1]? = some left := by
          rw [← hA, List.getElem?_append_left (by omega), ← List.getLast?_eq_getElem?]
          exact hgla
        have hlo : Ctx.leftOf A = some (Node.id left) := by
          unfold Ctx.leftOf; rw [hgla]; rfl
        have hlc := leftOf_count A _ hlo
        have hlfree : Lk.node (Node.id left) ∉ s.held := by
          rw [hheld]
          intro hm
          have h1 := (hcnt (Node.id left)).1
          rcases mem_locks _ c pid hm with e | e
          · rw [if_pos e.symm] at h1; omega
          · omega
        have hne : Node.id child ≠ Node.id left := by
          intro e
          have h1 := (hcnt (Node.id child)).1
          rw [e] at h1 hcc
          omega
        rw [hgl left hfind (by omega) hk1]
        obtain ⟨s', hf, hpost⟩ := ih (Ctx.kid c pid prunts A B) child o nid
          (((s.tick.acq 0 (.node (Node.id left))).tick.acq 0 (.node (Node.id child)))) res htree
          (by
            show (s.held ++ [_]) ++ [_] = c.locks pid ++ ((Ctx.leftOf A).toList.map Lk.node ++ [_])
            rw [hheld, hlo]; simp)
          ((ho.tick.acq _).tick.acq _) hinv2 hroot hseq2
        refine ⟨s', SoloFin.park ho hlfree ?_, hpost.tree, hpost.held, hpost.own, hpost.cursor, hpost.exhausted, ?_⟩
        · rw [hrl s.tick (Node.id left) hfind hk]
          refine SoloFin.park (ho.tick.acq _) ?_ ?_
          · show Lk.node (Node.id child) ∉ s.held ++ [Lk.node (Node.id left)]
            rw [hheld]
            simp only [List.mem_append, List.mem_singleton, Lk.node.injEq, not_or]
            exact ⟨hcfree, hne⟩
          · show SoloFin P (delGo P 0 ((s.tick.acq 0 (.node (Node.id left))).tick.acq 0 (.node (Node.id child))) key
              (⟨pid, searchLE P.lt key prunts, some (Node.id left), Node.id child⟩ :: c.frames pid) (Node.id child) rootWas)
              s' .ok
            have hfr : (Ctx.kid c pid prunts A B).frames (Node.id child) =
                ⟨pid, searchLE P.lt key prunts, some (Node.id left), Node.id child⟩ :: c.frames pid := by
              show (⟨pid, A.length, Ctx.leftOf A, Node.id child⟩ : Frame) :: c.frames pid = _
              rw [hA, hlo]
            rw [← hfr]
            exact hf
        · exact (Grows.tick _).trans_nil ((Grows.acq _ _).trans_nil ((Grows.tick _).trans_nil
            ((Grows.acq _ _).trans_nil hpost.evs)))
    · -- no left sibling
      have hAe : A = [] := List.eq_nil_of_length_eq_zero (by omega)
      subst hAe
      have hz : ¬ searchLE P.lt key prunts > 0 := by rw [← hA]; simp
      rw [hgz hz hk]
      obtain ⟨s', hf, hpost⟩ := ih (Ctx.kid c pid prunts [] B) child o nid
        (s.tick.acq 0 (.node (Node.id child))) res htree
        (by
          show s.held ++ [_] = c.locks pid ++ ((Ctx.leftOf ([] : List (Node K V d))).toList.map Lk.node ++ [_])
          rw [hheld]; rfl)
        (ho.tick.acq _) hinv2 hroot hseq2
      refine ⟨s', SoloFin.park ho (by rw [hheld]; exact hcfree) ?_, hpost.tree, hpost.held, hpost.own, hpost.cursor,
        hpost.exhausted, (Grows.tick _).trans_nil ((Grows.acq _ _).trans_nil hpost.evs)⟩
      show SoloFin P (delGo P 0 (s.tick.acq 0 (.node (Node.id child))) key
        (⟨pid, searchLE P.lt key prunts, none, Node.id child⟩ :: c.frames pid) (Node.id child) rootWas) s' .ok
      have hfr : (Ctx.kid c pid prunts [] B).frames (Node.id child) =
          ⟨pid, searchLE P.lt key prunts, none, Node.id child⟩ :: c.frames pid := by
        show (⟨pid, ([] : List (Node K V d)).length, Ctx.leftOf ([] : List (Node K V d)), Node.id child⟩ : Frame) :: c.frames pid = _
        rw [hA]; rfl
      rw [← hfr]
      exact hf

theorem del_all (P : Params K) (key : K) (rootWas : Nat) : ∀ d, DelSim (V := V) P key rootWas d := by
  intro d
  induction d with
  | zero => exact del_leaf P key rootWas
  | succ d ih =>
    intro D c x o nid s res htree hheld ho hinv hroot hseq
    exact del_inner P key rootWas d ih c x o nid s res htree hheld ho hinv hroot hseq

/-- **Delete of a lone thread computes `Tree.delete`** -/
theorem del_tree (P : Params K) (key : K) (t t' : Tree K V) (s : St K V)
    (htree : s.tree = t) (hheld : s.held = []) (ho : OwnOk s)
    (hinv : IdInv Ctx.top t.root t.nextId) (hord : t.order = P.order) (hdel : t.delete P {} key = .ok t') :
    ∃ s', SoloFin P (s, .park (.want .tree (.delTree key))) s' .ok ∧ SoloPost s s' t' [] := by
  subst htree
  simp only [Tree.delete, hord, Bool.false_eq_true, if_false, bind, Except.bind] at hdel
  cases hdn : deleteNode P {} (P.order >>> 1) key s.tree.depth s.tree.root with
  | error e => rw [hdn] at hdel; cases hdel
  | ok v =>
    rw [hdn] at hdel
    obtain ⟨root', small⟩ := v
    simp only at hdel
    have hfin : finishTree ⟨s.tree.order, s.tree.depth, root', s.tree.nextId⟩ small = t' := by
      unfold finishTree
      simp only
      split at hdel
      · rename_i hc
        rw [if_pos hc]
        injection hdel with hdel
        rw [hord]; exact hdel
      · rename_i hc
        rw [if_neg hc, hord, hdel]
    obtain ⟨s', hf, hpost⟩ := del_all P key (Node.id s.tree.root) s.tree.depth Ctx.top s.tree.root s.tree.order s.tree.nextId
      ((s.tick.acq 0 .tree).tick.acq 0 (.node (Node.id s.tree.root))) (root', small) (treeOf_eta s.tree).symm
      (by show (s.held ++ [_]) ++ [_] = _; rw [hheld]; rfl) ((ho.tick.acq _).tick.acq _) hinv rfl
      (by
        show (deleteNode P {} (P.order >>> 1) key s.tree.depth s.tree.root >>= pure) = _
        rw [bind_pure, hdn])
    refine ⟨s', SoloFin.park ho (by rw [hheld]; simp) ?_, ?_, hpost.held, hpost.own, hpost.cursor, hpost.exhausted, ?_⟩
    · show SoloFin P (s.tick.acq 0 .tree, .park (.want (.node (Node.id s.tree.root))
        (.delRoot key (Node.id s.tree.root)))) s' .ok
      refine SoloFin.park (ho.tick.acq _) ?_ hf
      show Lk.node _ ∉ s.held ++ [.tree]
      rw [hheld]; simp
    · rw [hpost.tree]; exact hfin
    · exact (Grows.tick _).trans_nil ((Grows.acq _ _).trans_nil ((Grows.tick _).trans_nil ((Grows.acq _ _).trans_nil hpost.evs)))

end Gobptree.Conc
