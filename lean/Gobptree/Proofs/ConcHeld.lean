/-
  Lock bookkeeping of the small-step model: what a parked thread holds is a
  function of where it is parked (`Kont`) and of its cursor.  From this: nothing is
  held when an operation has returned (C09) and the coupling bound (C10).
-/
import Gobptree.Conc

namespace Gobptree.Conc
open Gobptree

variable {K V : Type}

def optLock : Option Nat → List Lk
  | some l => [.node l]
  | none => []

def framesHeld : List Frame → List Lk
  | [] => []
  | fr :: rest => framesHeld rest ++ (optLock fr.left ++ [.node fr.child])

/-- locks a thread parked with continuation `k` holds (besides its cursor's leaf) -/
def kontHeld : Kont K V → List Lk
  | .roTree _ _ => []
  | .roNode _ _ hold _ => [hold]
  | .upTree _ _ _ => []
  | .upRoot _ _ _ _ => [.tree]
  | .upRootSib _ _ _ root _ => [.tree, .node root]
  | .upChild _ _ _ parent _ _ => [.node parent]
  | .upSib _ _ _ parent child _ => [.node parent, .node child]
  | .upCallback _ _ leaf _ => [.node leaf]
  | .delTree _ => []
  | .delRoot _ _ => [.tree]
  | .delLeft _ frames _ _ _ root => .tree :: .node root :: framesHeld frames
  | .delChild _ frames _ _ left _ root => .tree :: .node root :: (framesHeld frames ++ optLock left)
  | .delRight _ rest fr _ root => .tree :: .node root :: framesHeld (fr :: rest)
  | .hop _ _ => []
  | .paused => []

/-- the mutex a continuation acquires when it is resumed (`none`: it resumes from a yield) -/
def kontLock : Kont K V → Option Lk
  | .roTree _ _ => some .tree
  | .roNode _ _ _ want => some (.node want)
  | .upTree _ _ _ => some .tree
  | .upRoot _ _ _ r => some (.node r)
  | .upRootSib _ _ _ _ sib => some (.node sib)
  | .upChild _ _ _ _ _ child => some (.node child)
  | .upSib _ _ _ _ _ sib => some (.node sib)
  | .upCallback _ _ _ _ => none
  | .delTree _ => some .tree
  | .delRoot _ r => some (.node r)
  | .delLeft _ _ _ _ left _ => some (.node left)
  | .delChild _ _ _ _ _ child _ => some (.node child)
  | .delRight _ _ _ right _ => some (.node right)
  | .hop _ next => some (.node next)
  | .paused => none

/-- a park names exactly the mutex its continuation will acquire -/
def ParkLockOk : Park K V → Prop
  | .want l k => kontLock k = some l
  | .yielded k => kontLock k = none
  | _ => True

def parkHeld : Park K V → List Lk
  | .start => []
  | .want _ k => kontHeld k
  | .yielded k => kontHeld k
  | .finished => []

/-- which cursor state a continuation presupposes -/
def KontPre (cur : Option (Option Nat × Int)) : Kont K V → Prop
  | .hop c _ => cursorLocks cur = [.node c]
  | .paused => True
  | _ => cursorLocks cur = []

def ParkPre (cur : Option (Option Nat × Int)) : Park K V → Prop
  | .want _ k => KontPre cur k
  | .yielded k => KontPre cur k
  | _ => True

/-- outcome of a block is consistent with the bookkeeping (up to the order in which
    the held list records the locks) -/
def FlowOk (s : St K V) : Flow K V → Prop
  | .park p => List.Perm s.held (cursorLocks s.cursor ++ parkHeld p) ∧ ParkPre s.cursor p ∧ ParkLockOk p
  | .done _ => List.Perm s.held (cursorLocks s.cursor)
  | .panic => True

@[simp] theorem acq_held (s : St K V) (t : Nat) (l : Lk) : (s.acq t l).held = s.held ++ [l] := rfl
@[simp] theorem rel_held (s : St K V) (t : Nat) (l : Lk) : (s.rel t l).held = s.held.erase l := rfl
@[simp] theorem acq_cursor (s : St K V) (t : Nat) (l : Lk) : (s.acq t l).cursor = s.cursor := rfl
@[simp] theorem rel_cursor (s : St K V) (t : Nat) (l : Lk) : (s.rel t l).cursor = s.cursor := rfl
@[simp] theorem note_held (s : St K V) (t : Nat) (n : Note K V) : (s.note t n).held = s.held := rfl
@[simp] theorem note_cursor (s : St K V) (t : Nat) (n : Note K V) : (s.note t n).cursor = s.cursor := rfl
@[simp] theorem acq_tree (s : St K V) (t : Nat) (l : Lk) : (s.acq t l).tree = s.tree := rfl
@[simp] theorem rel_tree (s : St K V) (t : Nat) (l : Lk) : (s.rel t l).tree = s.tree := rfl
@[simp] theorem note_tree (s : St K V) (t : Nat) (n : Note K V) : (s.note t n).tree = s.tree := rfl

/-- releasing `a` from a held list that is `a :: rest` up to order -/
theorem perm_erase {l rest : List Lk} {a : Lk} (h : List.Perm l (a :: rest)) : List.Perm (l.erase a) rest := by
  have := h.erase a
  simpa using this

theorem perm_acq {l l' : List Lk} (a : Lk) (h : List.Perm l l') : List.Perm (l ++ [a]) (l' ++ [a]) :=
  h.append_right [a]

/-- Search / NewScanner arriving at a node, holding `[hold, node n]` and no cursor leaf -/
theorem roArrive_ok (P : Params K) (t : Nat) (s : St K V) (sc : Bool) (key : K) (hold : Lk) (n : Nat)
    (hh : List.Perm s.held [hold, .node n]) (hc : cursorLocks s.cursor = []) :
    FlowOk (roArrive P t s sc key hold n).1 (roArrive P t s sc key hold n).2 := by
  have h1 : List.Perm (s.held.erase hold) [.node n] := perm_erase hh
  unfold roArrive
  simp only
  split
  · trivial
  · split
    · split
      · simpa [FlowOk, cursorLocks] using h1
      · split
        · simp only [FlowOk, rel_held, rel_cursor, hc]
          exact perm_erase h1
        · trivial
    · split
      · trivial
      · split
        · trivial
        · simpa [FlowOk, parkHeld, kontHeld, ParkPre, KontPre, ParkLockOk, kontLock, hc] using h1

theorem upLeaf_ok (P : Params K) (t : Nat) (s : St K V) (key : K) (f : Option V → V) (y : Option Bool) (n : Nat)
    (l : Leaf K V) (hh : List.Perm s.held [.node n]) (hc : cursorLocks s.cursor = []) :
    FlowOk (upLeaf P t s key f y n l).1 (upLeaf P t s key f y n l).2 := by
  unfold upLeaf
  split
  · trivial
  · split
    · simpa [FlowOk, parkHeld, kontHeld, ParkPre, KontPre, ParkLockOk, kontLock, hc] using hh
    · simp only [FlowOk, rel_held, rel_cursor, note_held, note_cursor, hc]
      exact perm_erase hh
    · simp only [FlowOk, rel_held, rel_cursor, hc]
      exact perm_erase hh

theorem upContinue_ok (P : Params K) (t : Nat) (s : St K V) (key : K) (f : Option V → V) (y : Option Bool) (n : Nat)
    (hh : List.Perm s.held [.node n]) (hc : cursorLocks s.cursor = []) :
    FlowOk (upContinue P t s key f y n).1 (upContinue P t s key f y n).2 := by
  unfold upContinue
  split
  · trivial
  · split
    · exact upLeaf_ok P t s key f y n _ hh hc
    · split
      · trivial
      · simp only
        split
        · trivial
        · simpa [FlowOk, parkHeld, kontHeld, ParkPre, KontPre, ParkLockOk, kontLock, hc] using hh

theorem putInner_cursor_irrelevant : True := trivial

theorem upChildArrive_ok (P : Params K) (t : Nat) (s : St K V) (key : K) (f : Option V → V) (y : Option Bool)
    (parent index child : Nat)
    (hh : List.Perm s.held [.node parent, .node child]) (hc : cursorLocks s.cursor = []) :
    FlowOk (upChildArrive P t s key f y parent index child).1 (upChildArrive P t s key f y parent index child).2 := by
  have h1 : List.Perm (s.held.erase (.node parent)) [.node child] := perm_erase hh
  unfold upChildArrive
  split
  · split
    · trivial
    · split
      · trivial
      · split
        · trivial
        · exact upContinue_ok P t _ key f y child (by simpa using h1) (by simpa using hc)
        · split
          · simp only
            split
            · simpa [FlowOk, parkHeld, kontHeld, ParkPre, KontPre, ParkLockOk, kontLock, hc] using hh
            · exact upContinue_ok P t _ key f y child (by simpa using h1) (by simpa using hc)
          · trivial
  · trivial

theorem upRootArrive_ok (P : Params K) (t : Nat) (s : St K V) (key : K) (f : Option V → V) (y : Option Bool)
    (root : Nat)
    (hh : List.Perm s.held [.tree, .node root]) (hc : cursorLocks s.cursor = []) :
    FlowOk (upRootArrive P t s key f y root).1 (upRootArrive P t s key f y root).2 := by
  have h1 : List.Perm (s.held.erase .tree) [.node root] := perm_erase hh
  unfold upRootArrive
  simp only
  split
  · trivial
  · exact upContinue_ok P t _ key f y root (by simpa using h1) (by simpa using hc)
  · split
    · split
      · exact (by simpa [FlowOk, parkHeld, kontHeld, ParkPre, KontPre, ParkLockOk, kontLock, hc] using hh)
      · exact upContinue_ok P t _ key f y root h1 hc
    · trivial

/-! #### Delete -/

theorem relOpt_held (t : Nat) (s : St K V) (o : Option Nat) (base : List Lk)
    (hh : List.Perm s.held (base ++ optLock o)) :
    List.Perm (relOpt t s o).held base ∧ (relOpt t s o).cursor = s.cursor := by
  cases o with
  | none => exact ⟨by simpa [relOpt, optLock] using hh, rfl⟩
  | some r =>
    refine ⟨?_, rfl⟩
    show List.Perm (s.held.erase (.node r)) base
    apply perm_erase
    exact hh.trans (List.perm_append_singleton _ _)

theorem frameUnlock_held (t : Nat) (s : St K V) (fr : Frame) (right : Option Nat) (base : List Lk)
    (hh : List.Perm s.held (base ++ (optLock fr.left ++ [.node fr.child]) ++ optLock right)) :
    List.Perm (frameUnlock t s fr right).held base ∧ (frameUnlock t s fr right).cursor = s.cursor := by
  unfold frameUnlock
  obtain ⟨h1, c1⟩ := relOpt_held t s right _ hh
  have h2 : List.Perm ((relOpt t s right).rel t (.node fr.child)).held (base ++ optLock fr.left) := by
    show List.Perm ((relOpt t s right).held.erase (.node fr.child)) _
    apply perm_erase
    refine h1.trans ?_
    rw [← List.append_assoc]
    exact List.perm_append_singleton _ _
  obtain ⟨h3, c3⟩ := relOpt_held t _ fr.left _ h2
  exact ⟨h3, by rw [c3]; exact c1⟩

theorem delFinish_ok (t : Nat) (s : St K V) (small : Bool) (root : Nat)
    (hh : List.Perm s.held [.tree, .node root]) (hc : cursorLocks s.cursor = []) :
    FlowOk (delFinish t s small root).1 (delFinish t s small root).2 := by
  unfold delFinish
  simp only [FlowOk, rel_held, rel_cursor]
  have hheld : ∀ s1 : St K V, s1.held = s.held → s1.cursor = s.cursor →
      List.Perm ((s1.held.erase (.node root)).erase .tree) (cursorLocks s1.cursor) := by
    intro s1 e1 e2
    rw [e1, e2, hc]
    apply perm_erase
    apply perm_erase
    exact hh.trans (List.Perm.swap _ _ _)
  split
  · exact hheld _ rfl rfl
  · split
    · exact hheld _ rfl rfl
    · exact hheld _ rfl rfl

theorem delUnwind_ok (P : Params K) (t : Nat) (key : K) (root : Nat) :
    ∀ (frames : List Frame) (s : St K V) (small : Bool),
      List.Perm s.held (.tree :: .node root :: framesHeld frames) → cursorLocks s.cursor = [] →
      FlowOk (delUnwind P t s key frames small root).1 (delUnwind P t s key frames small root).2 := by
  intro frames
  induction frames with
  | nil =>
    intro s small hh hc
    unfold delUnwind
    exact delFinish_ok t s small root (by simpa [framesHeld] using hh) hc
  | cons fr rest ih =>
    intro s small hh hc
    have hbase : List.Perm s.held ((.tree :: .node root :: framesHeld rest) ++ (optLock fr.left ++ [.node fr.child]) ++ optLock none) := by
      simpa [framesHeld, optLock] using hh
    unfold delUnwind
    split
    · obtain ⟨h1, hc1⟩ := frameUnlock_held t s fr none _ hbase
      exact ih _ false h1 (by rw [hc1]; exact hc)
    · split
      · split
        · split
          · trivial
          · simpa [FlowOk, parkHeld, kontHeld, ParkPre, KontPre, ParkLockOk, kontLock, hc] using hh
        · split
          · trivial
          · split
            · trivial
            · rename_i i' small' _
              have hfu := frameUnlock_held t ({ s with tree := putInner s.tree i' } : St K V) fr none _ hbase
              exact ih _ small' hfu.1 (by rw [hfu.2]; exact hc)
      · trivial

theorem delRightArrive_ok (P : Params K) (t : Nat) (s : St K V) (key : K) (rest : List Frame) (fr : Frame)
    (right root : Nat)
    (hh : List.Perm s.held (.tree :: .node root :: framesHeld (fr :: rest) ++ [.node right]))
    (hc : cursorLocks s.cursor = []) :
    FlowOk (delRightArrive P t s key rest fr right root).1 (delRightArrive P t s key rest fr right root).2 := by
  have hbase : List.Perm s.held ((.tree :: .node root :: framesHeld rest) ++ (optLock fr.left ++ [.node fr.child]) ++ optLock (some right)) := by
    simpa [framesHeld, optLock] using hh
  unfold delRightArrive
  split
  · split
    · trivial
    · split
      · trivial
      · rename_i i' small' _
        have hfu := frameUnlock_held t ({ s with tree := putInner s.tree i' } : St K V) fr (some right) _ hbase
        exact delUnwind_ok P t key root rest _ small' hfu.1 (by rw [hfu.2]; exact hc)
  · trivial

theorem delGo_ok (P : Params K) (t : Nat) (s : St K V) (key : K) (frames : List Frame) (n root : Nat)
    (hh : List.Perm s.held (.tree :: .node root :: framesHeld frames)) (hc : cursorLocks s.cursor = []) :
    FlowOk (delGo P t s key frames n root).1 (delGo P t s key frames n root).2 := by
  unfold delGo
  unfold delEnter
  split
  · rename_i s1 fl heq
    -- the callee parked or panicked: `delEnter` returned without a result
    split at heq
    · simp only [Prod.mk.injEq] at heq; obtain ⟨rfl, rfl, _⟩ := heq; trivial
    · split at heq
      · split at heq
        · simp only [Prod.mk.injEq] at heq; obtain ⟨rfl, rfl, _⟩ := heq; trivial
        · simp only [Prod.mk.injEq] at heq; exact absurd heq.2.2 (by simp)
      · split at heq
        · simp only [Prod.mk.injEq] at heq; obtain ⟨rfl, rfl, _⟩ := heq; trivial
        · simp only at heq
          split at heq
          · split at heq
            · simp only [Prod.mk.injEq] at heq; obtain ⟨rfl, rfl, _⟩ := heq; trivial
            · simp only [Prod.mk.injEq] at heq; obtain ⟨rfl, rfl, _⟩ := heq
              simpa [FlowOk, parkHeld, kontHeld, ParkPre, KontPre, ParkLockOk, kontLock, hc] using hh
          · split at heq
            · simp only [Prod.mk.injEq] at heq; obtain ⟨rfl, rfl, _⟩ := heq; trivial
            · simp only [Prod.mk.injEq] at heq; obtain ⟨rfl, rfl, _⟩ := heq
              simpa [FlowOk, parkHeld, kontHeld, ParkPre, KontPre, ParkLockOk, kontLock, hc, optLock] using hh
  · rename_i s1 fl frames' small heq
    -- the leaf was processed
    have : s1.held = s.held ∧ s1.cursor = s.cursor ∧ frames' = frames := by
      split at heq
      · simp at heq
      · split at heq
        · split at heq
          · simp at heq
          · simp only [Prod.mk.injEq, Option.some.injEq] at heq
            obtain ⟨rfl, _, rfl, _⟩ := heq
            exact ⟨rfl, rfl, rfl⟩
        · split at heq
          · simp at heq
          · simp only at heq
            split at heq
            · split at heq <;> simp at heq
            · split at heq <;> simp at heq
    obtain ⟨e1, e2, e3⟩ := this
    subst e3
    exact delUnwind_ok P t key root frames' s1 small (by rw [e1]; exact hh) (by rw [e2]; exact hc)

/-! ### resuming and starting -/

theorem resume_ok (P : Params K) (t : Nat) (s : St K V) (k : Kont K V)
    (hh : List.Perm s.held (cursorLocks s.cursor ++ kontHeld k)) (hpre : KontPre s.cursor k) :
    FlowOk (resume P t s k).1 (resume P t s k).2 := by
  cases k with
  | roTree sc key =>
    have hc : cursorLocks s.cursor = [] := hpre
    rw [hc] at hh
    simp only [resume, FlowOk, parkHeld, kontHeld, ParkPre, KontPre, ParkLockOk, kontLock, acq_held, acq_cursor, hc, and_true]
    simpa [kontHeld] using perm_acq .tree hh
  | roNode sc key hold want =>
    have hc : cursorLocks s.cursor = [] := hpre
    rw [hc] at hh
    exact roArrive_ok P t _ sc key hold want (by simpa [kontHeld] using perm_acq (.node want) hh) hc
  | upTree key f y =>
    have hc : cursorLocks s.cursor = [] := hpre
    rw [hc] at hh
    simp only [resume, FlowOk, parkHeld, kontHeld, ParkPre, KontPre, ParkLockOk, kontLock, acq_held, acq_cursor, hc, and_true]
    simpa [kontHeld] using perm_acq .tree hh
  | upRoot key f y r =>
    have hc : cursorLocks s.cursor = [] := hpre
    rw [hc] at hh
    exact upRootArrive_ok P t _ key f y r (by simpa [kontHeld] using perm_acq (.node r) hh) hc
  | upRootSib key f y root sib =>
    have hc : cursorLocks s.cursor = [] := hpre
    rw [hc] at hh
    simp only [resume]
    refine upContinue_ok P t _ key f y sib ?_ hc
    simp only [rel_held, acq_held]
    apply perm_erase
    apply perm_erase
    have := perm_acq (.node sib) hh
    simp only [kontHeld, List.nil_append] at this
    exact this.trans (by
      show List.Perm [Lk.tree, Lk.node root, Lk.node sib] [Lk.node root, Lk.tree, Lk.node sib]
      exact List.Perm.swap _ _ _)
  | upChild key f y parent index child =>
    have hc : cursorLocks s.cursor = [] := hpre
    rw [hc] at hh
    exact upChildArrive_ok P t _ key f y parent index child (by simpa [kontHeld] using perm_acq (.node child) hh) hc
  | upSib key f y parent child sib =>
    have hc : cursorLocks s.cursor = [] := hpre
    rw [hc] at hh
    simp only [resume]
    refine upContinue_ok P t _ key f y sib ?_ hc
    simp only [rel_held, acq_held]
    apply perm_erase
    apply perm_erase
    have := perm_acq (.node sib) hh
    simp only [kontHeld, List.nil_append] at this
    exact this.trans (by
      show List.Perm [Lk.node parent, Lk.node child, Lk.node sib] [Lk.node child, Lk.node parent, Lk.node sib]
      exact List.Perm.swap _ _ _)
  | upCallback key f leaf arg =>
    have hc : cursorLocks s.cursor = [] := hpre
    rw [hc] at hh
    simp only [resume]
    split
    · split
      · split
        · simp only [FlowOk, rel_held, rel_cursor, hc]
          exact perm_erase (by simpa [kontHeld] using hh)
        · trivial
      · trivial
    · trivial
  | delTree key =>
    have hc : cursorLocks s.cursor = [] := hpre
    rw [hc] at hh
    simp only [resume, FlowOk, parkHeld, kontHeld, ParkPre, KontPre, ParkLockOk, kontLock, acq_held, acq_cursor, hc, and_true]
    simpa [kontHeld] using perm_acq .tree hh
  | delRoot key r =>
    have hc : cursorLocks s.cursor = [] := hpre
    rw [hc] at hh
    exact delGo_ok P t _ key [] r r (by simpa [kontHeld, framesHeld] using perm_acq (.node r) hh) hc
  | delLeft key frames node index left root =>
    have hc : cursorLocks s.cursor = [] := hpre
    rw [hc] at hh
    simp only [resume]
    split
    · split
      · simp only [FlowOk, parkHeld, kontHeld, ParkPre, KontPre, ParkLockOk, kontLock, acq_held, acq_cursor, hc, optLock, and_true]
        have := perm_acq (.node left) hh
        simpa [kontHeld] using this
      · trivial
    · trivial
  | delChild key frames node index left child root =>
    have hc : cursorLocks s.cursor = [] := hpre
    rw [hc] at hh
    simp only [resume]
    refine delGo_ok P t _ key _ child root ?_ hc
    have := perm_acq (.node child) hh
    simpa [kontHeld, framesHeld] using this
  | delRight key rest fr right root =>
    have hc : cursorLocks s.cursor = [] := hpre
    rw [hc] at hh
    exact delRightArrive_ok P t _ key rest fr right root (by simpa [kontHeld] using perm_acq (.node right) hh) hc
  | hop cur next =>
    have hc : cursorLocks s.cursor = [.node cur] := hpre
    rw [hc] at hh
    simp only [resume, FlowOk, rel_held, acq_held, cursorLocks]
    apply perm_erase
    have := perm_acq (.node next) hh
    simpa [kontHeld] using this
  | paused =>
    simpa [resume, FlowOk, kontHeld] using hh

theorem startOp_ok (t : Nat) (s : St K V) (op : COp K V)
    (hh : List.Perm s.held (cursorLocks s.cursor)) :
    FlowOk (startOp t s op).1 (startOp t s op).2 := by
  have hmis : misuse s = false → cursorLocks s.cursor = [] := by
    intro h; simpa [misuse] using h
  cases op with
  | ins k v =>
    simp only [startOp]; split
    · trivial
    · rename_i hm
      have hc := hmis (by simpa using hm)
      simp only [FlowOk, parkHeld, kontHeld, ParkPre, KontPre, ParkLockOk, kontLock, List.append_nil, and_true]
      exact ⟨hh, hc⟩
  | upd k f y =>
    simp only [startOp]; split
    · trivial
    · rename_i hm
      have hc := hmis (by simpa using hm)
      simp only [FlowOk, parkHeld, kontHeld, ParkPre, KontPre, ParkLockOk, kontLock, List.append_nil, and_true]
      exact ⟨hh, hc⟩
  | del k =>
    simp only [startOp]; split
    · trivial
    · rename_i hm
      have hc := hmis (by simpa using hm)
      simp only [FlowOk, parkHeld, kontHeld, ParkPre, KontPre, ParkLockOk, kontLock, List.append_nil, and_true]
      exact ⟨hh, hc⟩
  | get k =>
    simp only [startOp]; split
    · trivial
    · rename_i hm
      have hc := hmis (by simpa using hm)
      simp only [FlowOk, parkHeld, kontHeld, ParkPre, KontPre, ParkLockOk, kontLock, List.append_nil, and_true]
      exact ⟨hh, hc⟩
  | ns k =>
    simp only [startOp]; split
    · trivial
    · rename_i hm
      have hc := hmis (by simpa using hm)
      simp only [FlowOk, parkHeld, kontHeld, ParkPre, KontPre, ParkLockOk, kontLock, List.append_nil, and_true]
      exact ⟨hh, hc⟩
  | pause =>
    simp only [startOp, FlowOk, parkHeld, kontHeld, ParkPre, KontPre, ParkLockOk, kontLock, List.append_nil, and_true]
    exact hh
  | scan =>
    simp only [startOp]
    split
    · rename_i leaf i hcur hex
      have hc : cursorLocks s.cursor = [.node leaf] := by rw [hcur]; rfl
      rw [hc] at hh
      split
      · trivial
      · split
        · split
          · simp only [FlowOk, rel_held, cursorLocks]
            exact perm_erase hh
          · simpa [FlowOk, parkHeld, kontHeld, ParkPre, KontPre, ParkLockOk, kontLock, cursorLocks] using hh
        · simpa [FlowOk, cursorLocks] using hh
    · simpa [FlowOk] using hh
  | pair =>
    simp only [startOp]
    split
    · split
      · trivial
      · split
        · trivial
        · split
          · simpa [FlowOk] using hh
          · trivial
    · simpa [FlowOk] using hh
  | close =>
    simp only [startOp]
    split
    · simpa [FlowOk] using hh
    · rename_i leaf? i hcur
      cases leaf? with
      | none =>
        simp only [FlowOk, cursorLocks]
        rw [hcur] at hh; simpa [cursorLocks] using hh
      | some leaf =>
        simp only [FlowOk, cursorLocks, rel_held]
        rw [hcur] at hh
        exact perm_erase (by simpa [cursorLocks] using hh)

/-! ### a whole scheduler step of one thread -/

/-- the bookkeeping invariant of a thread -/
def ThreadOk (th : Thread K V) : Prop :=
  List.Perm th.held (cursorLocks th.cursor ++ parkHeld th.park) ∧ ParkPre th.cursor th.park ∧ ParkLockOk th.park

theorem loop_ok (t : Nat) (th : Thread K V) :
    ∀ (fuel : Nat) (s : St K V) (fl : Flow K V) (pc : Nat), FlowOk s fl →
      (threadLoop t th fuel s fl pc).2.2 = false →
      ThreadOk (threadLoop t th fuel s fl pc).1 := by
  intro fuel
  induction fuel with
  | zero =>
    intro s fl pc hf hd
    cases fl with
    | panic => simp [threadLoop] at hd
    | park p => simpa [threadLoop, ThreadOk, FlowOk] using hf
    | done r =>
      simp only [threadLoop, ThreadOk, parkHeld, ParkPre, ParkLockOk, List.append_nil, and_true, note_held, note_cursor]
      exact hf
  | succ fuel ih =>
    intro s fl pc hf hd
    cases fl with
    | panic => simp [threadLoop] at hd
    | park p => simpa [threadLoop, ThreadOk, FlowOk] using hf
    | done r =>
      unfold threadLoop at hd ⊢
      cases hop : th.prog[pc + 1]? with
      | none =>
        simp only [hop, ThreadOk, parkHeld, ParkPre, ParkLockOk, List.append_nil, and_true, note_held, note_cursor]
        exact hf
      | some op =>
        simp only [hop] at hd ⊢
        apply ih
        · apply startOp_ok
          simpa [FlowOk] using hf
        · exact hd

/-- **one scheduler step keeps the bookkeeping**: if the thread's held locks are the
    ones its park position prescribes, they still are after it ran to its next park
    (unless the thread panicked) -/
theorem runThread_ok (P : Params K) (t : Nat) (th : Thread K V) (s0 : St K V)
    (h0 : s0.held = th.held) (hc0 : s0.cursor = th.cursor) (hinv : ThreadOk th)
    (hd : (runThread P t th s0).2.2 = false) : ThreadOk (runThread P t th s0).1 := by
  obtain ⟨hh, hpre⟩ := hinv
  unfold runThread at hd ⊢
  cases hp : th.park with
  | start =>
    rw [hp] at hh
    simp only [hp] at hd ⊢
    cases hop : th.prog[0]? with
    | none =>
      simp only [ThreadOk, parkHeld, ParkPre, ParkLockOk, List.append_nil, and_true]
      simpa [parkHeld] using hh
    | some op =>
      simp only [hop] at hd ⊢
      apply loop_ok t th _ _ _ _ _ hd
      apply startOp_ok
      simpa [parkHeld, h0, hc0] using hh
  | want l k =>
    rw [hp] at hh hpre
    simp only [hp] at hd ⊢
    exact loop_ok t th _ _ _ _ (resume_ok P t s0 k (by rw [h0, hc0]; exact hh) (by rw [hc0]; exact hpre.1)) hd
  | yielded k =>
    rw [hp] at hh hpre
    simp only [hp] at hd ⊢
    exact loop_ok t th _ _ _ _ (resume_ok P t s0 k (by rw [h0, hc0]; exact hh) (by rw [hc0]; exact hpre.1)) hd
  | finished =>
    simp only [ThreadOk, hp]
    rw [hp] at hh
    exact ⟨hh, trivial, trivial⟩

end Gobptree.Conc
