/-
  Static facts about one tree (no step involved): a node has one parent, the root is
  nobody's child, the leaf chain is injective, every identity a continuation mentions is
  a node of the tree, and the conflict lemma behind the `extra` clause of `SInv`: a thread
  cannot wait for a node another thread relies on without holding it, unless the two
  already share a mutex.
-/
import Gobptree.Proofs.CSRank
import Gobptree.Proofs.CSFrame

namespace Gobptree.Conc
open Gobptree

variable {K V : Type}

/-! ### lists of pairs with distinct keys -/

/-- with distinct first components, the first component determines the entry -/
theorem snd_unique {β : Type} {l : List (Nat × β)} (hn : (l.map Prod.fst).Nodup) {a : Nat} {b b' : β}
    (h : (a, b) ∈ l) (h' : (a, b') ∈ l) : b = b' := by
  have e := lookup_of_mem l a b hn h
  have e' := lookup_of_mem l a b' hn h'
  rw [e] at e'
  exact Option.some.inj e'

/-! ### one parent -/

/-- no two entries of the list name the same child -/
def UniqueParent (l : List (Nat × Shallow K V)) : Prop :=
  ∀ (p p' : Nat) (sh sh' : Shallow K V) (i j w : Nat), (p, sh) ∈ l → (p', sh') ∈ l →
    sh.kids[i]? = some w → sh'.kids[j]? = some w → p = p'

/-- children of entries of a forest of typed nodes are entries of the forest, one level down -/
theorem forest_kid {d : Nat} (ks : List (Node K V d)) (p : Nat) (sh : Shallow K V) (j c : Nat)
    (hp : (p, sh) ∈ ks.flatMap (flat (d := d))) (hj : sh.kids[j]? = some c) :
    ∃ shc, (c, shc) ∈ ks.flatMap (flat (d := d)) ∧ shc.height + 1 = sh.height ∧ sh.height ≤ d := by
  obtain ⟨k, hk, hpk⟩ := List.mem_flatMap.mp hp
  obtain ⟨shc, hc, hh⟩ := flat_kid k p sh j c hpk hj
  exact ⟨shc, List.mem_flatMap.mpr ⟨k, hk, hc⟩, hh, flat_height_le k _ hpk⟩

theorem forest_unique_parent {d : Nat}
    (ih : ∀ n : Node K V d, ((flat n).map Prod.fst).Nodup → UniqueParent (flat n)) :
    ∀ ks : List (Node K V d), ((ks.flatMap (flat (d := d))).map Prod.fst).Nodup →
      UniqueParent (ks.flatMap (flat (d := d))) := by
  intro ks
  induction ks with
  | nil => intro _ p p' sh sh' i j w hp; simp at hp
  | cons k ks ihl =>
    intro hn p p' sh sh' i j w hp hp' hi hj
    rw [List.flatMap_cons] at hn hp hp'
    rw [List.map_append, List.nodup_append] at hn
    obtain ⟨hn1, hn2, hdis⟩ := hn
    rcases List.mem_append.mp hp with h | h <;> rcases List.mem_append.mp hp' with h' | h'
    · exact ih k hn1 p p' sh sh' i j w h h' hi hj
    · exfalso
      obtain ⟨shc, hc, _⟩ := flat_kid k p sh i w h hi
      obtain ⟨shc', hc', _⟩ := forest_kid ks p' sh' j w h' hj
      exact hdis w (List.mem_map.mpr ⟨_, hc, rfl⟩) w (List.mem_map.mpr ⟨_, hc', rfl⟩) rfl
    · exfalso
      obtain ⟨shc, hc, _⟩ := forest_kid ks p sh i w h hi
      obtain ⟨shc', hc', _⟩ := flat_kid k p' sh' j w h' hj
      exact hdis w (List.mem_map.mpr ⟨_, hc', rfl⟩) w (List.mem_map.mpr ⟨_, hc, rfl⟩) rfl
    · exact ihl hn2 p p' sh sh' i j w h h' hi hj

/-- the head of an inner node's flat view and an entry of its forest do not share a child -/
theorem head_forest_disjoint {d : Nat} (n : Inner K (Node K V d))
    (hn : ((n.kids.flatMap (flat (d := d))).map Prod.fst).Nodup) {i j w p' : Nat} {sh' : Shallow K V}
    (hi : (shallow (d := d + 1) n).kids[i]? = some w)
    (hp' : (p', sh') ∈ n.kids.flatMap (flat (d := d))) (hj : sh'.kids[j]? = some w) : False := by
  rw [shallow_inner_kids, List.getElem?_map] at hi
  cases hk : n.kids[i]? with
  | none => rw [hk] at hi; simp at hi
  | some k =>
    rw [hk] at hi
    simp only [Option.map_some, Option.some.injEq] at hi
    have h1 : (w, shallow k) ∈ n.kids.flatMap (flat (d := d)) := by
      rw [← hi]
      exact List.mem_flatMap.mpr ⟨k, List.mem_of_getElem? hk, self_mem_flat k⟩
    obtain ⟨shc, h2, hh, hle⟩ := forest_kid n.kids p' sh' j w hp' hj
    have e := snd_unique hn h1 h2
    have : (shallow k).height = d := shallow_height k
    rw [e] at this
    omega

theorem flat_unique_parent : ∀ {d : Nat} (n : Node K V d),
    ((flat n).map Prod.fst).Nodup → UniqueParent (flat n) := by
  intro d
  induction d with
  | zero =>
    intro n _ p p' sh sh' i j w hp _ hi _
    rw [flat_leaf (n : Leaf K V)] at hp
    simp only [List.mem_singleton, Prod.mk.injEq] at hp
    rw [hp.2, shallow_leaf_kids (n : Leaf K V)] at hi
    simp at hi
  | succ d ih =>
    intro n hn p p' sh sh' i j w hp hp' hi hj
    rw [flat_inner (n : Inner K (Node K V d))] at hn hp hp'
    rw [List.map_cons, List.nodup_cons] at hn
    obtain ⟨_, hn2⟩ := hn
    rcases List.mem_cons.mp hp with h | h <;> rcases List.mem_cons.mp hp' with h' | h'
    · simp only [Prod.mk.injEq] at h h'
      rw [h.1, h'.1]
    · exfalso
      simp only [Prod.mk.injEq] at h
      obtain ⟨_, rfl⟩ := h
      exact head_forest_disjoint (n : Inner K (Node K V d)) hn2 hi h' hj
    · exfalso
      simp only [Prod.mk.injEq] at h'
      obtain ⟨_, rfl⟩ := h'
      exact head_forest_disjoint (n : Inner K (Node K V d)) hn2 hj h hi
    · exact forest_unique_parent ih _ hn2 p p' sh sh' i j w h h' hi hj

/-- a node has one parent -/
theorem kid_unique_parent {t : Tree K V} (hi : IdsOk t) {p p' i j w : Nat}
    (h : t.kidAt p i = some w) (h' : t.kidAt p' j = some w) : p = p' := by
  obtain ⟨sh, hp, hk⟩ := kidAt_look h
  obtain ⟨sh', hp', hk'⟩ := kidAt_look h'
  exact flat_unique_parent t.root hi.1 p p' sh sh' i j w (look_mem hp) (look_mem hp') hk hk'

/-- the root is nobody's child -/
theorem root_not_kid {t : Tree K V} (hi : IdsOk t) {p i : Nat} : t.kidAt p i ≠ some t.rootId := by
  intro h
  obtain ⟨sh, hp, _⟩ := kidAt_look h
  obtain ⟨shc, hc, hh⟩ := kid_look hi h hp
  rw [look_root hi] at hc
  have e := Option.some.inj hc
  have hd : (shallow t.root).height = t.depth := shallow_height t.root
  have hle := look_height_le hp
  rw [← e] at hh
  omega

/-! ### the leaf chain -/

theorem leaf_mem_flatLeaves {t : Tree K V} {a : Nat} {sha : Shallow K V}
    (ha : t.look a = some sha) (h0 : sha.height = 0) : (a, sha) ∈ flatLeaves t.flat := by
  unfold flatLeaves
  exact List.mem_filter.mpr ⟨look_mem ha, by simp [h0]⟩

theorem flatLeaves_nodup {t : Tree K V} (hi : IdsOk t) : ((flatLeaves t.flat).map Prod.fst).Nodup := by
  have hs : (flatLeaves t.flat).Sublist t.flat := List.filter_sublist
  exact (hs.map Prod.fst).nodup hi.1

/-- the leaf a `next` pointer names is a leaf of the tree -/
theorem next_is_leaf {t : Tree K V} (hi : IdsOk t) (hc : ChainOk t) {a w : Nat} {sha : Shallow K V}
    (ha : t.look a = some sha) (h0 : sha.height = 0) (hn : sha.next = some w) :
    ∃ shw, t.look w = some shw ∧ shw.height = 0 := by
  obtain ⟨q, hq, hs⟩ := chain_next _ (a, sha) w hc (leaf_mem_flatLeaves ha h0) hn
  have hqm : q ∈ flatLeaves t.flat := hs.subset (by simp)
  unfold flatLeaves at hqm
  obtain ⟨hqf, hq0⟩ := List.mem_filter.mp hqm
  obtain ⟨qi, qs⟩ := q
  simp only at hq
  subst hq
  exact ⟨qs, mem_look hi hqf, by simpa using hq0⟩

/-- in a chain with distinct identities nobody points to the first entry -/
theorem chain_head_no_pred : ∀ (b : Nat × Shallow K V) (rest : List (Nat × Shallow K V)) (p : Nat × Shallow K V),
    Chain (b :: rest) → ((b :: rest).map Prod.fst).Nodup → p ∈ b :: rest → p.2.next ≠ some b.1 := by
  intro b rest p hc hn hp hnx
  obtain ⟨q, hq, hs⟩ := chain_next _ p b.1 hc hp hnx
  have hm : [p.1, b.1].Sublist ((b :: rest).map Prod.fst) := by
    have := hs.map Prod.fst
    simpa [hq] using this
  have hlt := idxOf_lt_of_pair_sublist hm hn
  rw [List.map_cons, List.idxOf_cons_self] at hlt
  exact Nat.not_lt_zero _ hlt

/-- in a chain with distinct identities an entry has one predecessor -/
theorem chain_pred_unique_list : ∀ (l : List (Nat × Shallow K V)), Chain l → (l.map Prod.fst).Nodup →
    ∀ (p p' : Nat × Shallow K V) (w : Nat), p ∈ l → p' ∈ l → p.2.next = some w → p'.2.next = some w →
      p = p' := by
  intro l
  induction l with
  | nil => intro _ _ p p' w hp; cases hp
  | cons a l ih =>
    intro hc hn p p' w hp hp' hw hw'
    cases l with
    | nil =>
      simp only [List.mem_singleton] at hp hp'
      rw [hp, hp']
    | cons b rest =>
      have hc' : a.2.next = some b.1 ∧ Chain (b :: rest) := hc
      have hn' : ((b :: rest).map Prod.fst).Nodup := by
        rw [List.map_cons, List.nodup_cons] at hn
        exact hn.2
      rcases List.mem_cons.mp hp with h | h <;> rcases List.mem_cons.mp hp' with h' | h'
      · rw [h, h']
      · exfalso
        subst h
        rw [hc'.1] at hw
        have e : b.1 = w := Option.some.inj hw
        rw [← e] at hw'
        exact chain_head_no_pred b rest p' hc'.2 hn' h' hw'
      · exfalso
        subst h'
        rw [hc'.1] at hw'
        have e : b.1 = w := Option.some.inj hw'
        rw [← e] at hw
        exact chain_head_no_pred b rest p hc'.2 hn' h hw
      · exact ih hc'.2 hn' p p' w h h' hw hw'

/-- a leaf has one chain predecessor -/
theorem chain_pred_unique {t : Tree K V} (hi : IdsOk t) (hc : ChainOk t) {a b w : Nat} {sha shb : Shallow K V}
    (ha : t.look a = some sha) (ha0 : sha.height = 0) (han : sha.next = some w)
    (hb : t.look b = some shb) (hb0 : shb.height = 0) (hbn : shb.next = some w) : a = b := by
  have := chain_pred_unique_list _ hc (flatLeaves_nodup hi) (a, sha) (b, shb) w
    (leaf_mem_flatLeaves ha ha0) (leaf_mem_flatLeaves hb hb0) han hbn
  exact (Prod.mk.inj this).1

/-! ### every identity a continuation mentions is a node of the tree -/

def present (t : Tree K V) (id : Nat) : Prop := ∃ sh, t.look id = some sh

theorem kid_present {t : Tree K V} (hi : IdsOk t) {p j c : Nat} (h : t.kidAt p j = some c) :
    present t p ∧ present t c := by
  obtain ⟨sh, hp, _⟩ := kidAt_look h
  obtain ⟨shc, hc, _⟩ := kid_look hi h hp
  exact ⟨⟨sh, hp⟩, ⟨shc, hc⟩⟩

theorem root_present {t : Tree K V} (hi : IdsOk t) : present t t.rootId := ⟨_, look_root hi⟩

theorem frames_present {t : Tree K V} (hi : IdsOk t) {frames : List Frame} {top : Nat}
    (h : FramesOk t t.rootId frames top) :
    present t top ∧ ∀ id, Lk.node id ∈ framesHeld frames → present t id := by
  obtain ⟨sht, ht, hhigh⟩ := frames_high hi frames top h
  refine ⟨⟨sht, ht⟩, ?_⟩
  intro id hid
  obtain ⟨id', sh, e, hl, _⟩ := hhigh _ hid
  cases e
  exact ⟨sh, hl⟩

theorem cursor_present {t : Tree K V} {b : Bool} {cursor : Option (Option Nat × Int)}
    (hcur : CursorOk t b cursor) {id : Nat} (h : Lk.node id ∈ cursorLocks cursor) : present t id := by
  cases cursor with
  | none => simp [cursorLocks] at h
  | some p =>
    obtain ⟨leaf?, i⟩ := p
    cases leaf? with
    | none => simp [cursorLocks] at h
    | some leaf =>
      simp only [cursorLocks, List.mem_singleton, Lk.node.injEq] at h
      subst h
      obtain ⟨sh, h1, _⟩ := hcur
      exact ⟨sh, h1⟩

theorem optLock_mem {o : Option Nat} {id : Nat} (h : Lk.node id ∈ optLock o) : o = some id := by
  cases o with
  | none => cases h
  | some l =>
    simp only [optLock, List.mem_singleton, Lk.node.injEq] at h
    rw [h]

/-- every node a continuation holds, relies on, or waits for is a node of the tree -/
theorem kont_present {t : Tree K V} (hi : IdsOk t) (hc : ChainOk t) (k : Kont K V) (cursor : Option (Option Nat × Int)) (b : Bool)
    (hk : KontOk t k) (hpre : KontPre cursor k) (hcur : CursorOk t b cursor) (id : Nat)
    (h : Lk.node id ∈ kontHeld k ++ cursorLocks cursor ∨ id ∈ kontExtra t k ∨ kontLock k = some (Lk.node id)) :
    ∃ sh, t.look id = some sh := by
  show present t id
  have h' : Lk.node id ∈ kontHeld k ∨ id ∈ kontExtra t k ∨ kontLock k = some (Lk.node id) ∨
      Lk.node id ∈ cursorLocks cursor := by
    rcases h with h | h | h
    · rcases List.mem_append.mp h with h | h
      · exact Or.inl h
      · exact Or.inr (Or.inr (Or.inr h))
    · exact Or.inr (Or.inl h)
    · exact Or.inr (Or.inr (Or.inl h))
  clear h
  rcases h' with h | h | h | h
  rotate_left 3
  · exact cursor_present hcur h
  all_goals
    cases k with
    | roTree sc key => simp [kontHeld, kontExtra, kontLock] at h
    | upTree key f y => simp [kontHeld, kontExtra, kontLock] at h
    | delTree key => simp [kontHeld, kontExtra, kontLock] at h
    | paused => simp [kontHeld, kontExtra, kontLock] at h
    | roNode sc key hold want =>
      cases hold with
      | tree =>
        have hk' : want = t.rootId := hk
        first
          | (simp only [kontLock, Option.some.injEq, Lk.node.injEq] at h
             rw [← h, hk']; exact root_present hi)
          | simp [kontHeld, kontExtra] at h
      | node p =>
        obtain ⟨i, hk'⟩ : ∃ i, t.kidAt p i = some want := hk
        first
          | (simp only [kontLock, Option.some.injEq, Lk.node.injEq] at h
             rw [← h]; exact (kid_present hi hk').2)
          | (simp only [kontHeld, List.mem_singleton, Lk.node.injEq] at h
             rw [h]; exact (kid_present hi hk').1)
          | simp [kontExtra] at h
    | upRoot key f y r =>
      have hk' : r = t.rootId := hk
      first
        | (simp only [kontLock, Option.some.injEq, Lk.node.injEq] at h
           rw [← h, hk']; exact root_present hi)
        | simp [kontHeld, kontExtra] at h
    | delRoot key r =>
      have hk' : r = t.rootId := hk
      first
        | (simp only [kontLock, Option.some.injEq, Lk.node.injEq] at h
           rw [← h, hk']; exact root_present hi)
        | simp [kontHeld, kontExtra] at h
    | upRootSib key f y root sib =>
      obtain ⟨⟨sh, hsh, hkids⟩, _, _⟩ := hk
      have h0 : t.kidAt t.rootId 0 = some root := by simp [Tree.kidAt, hsh, hkids]
      have h1 : t.kidAt t.rootId 1 = some sib := by simp [Tree.kidAt, hsh, hkids]
      first
        | (simp only [kontLock, Option.some.injEq, Lk.node.injEq] at h
           rw [← h]; exact (kid_present hi h1).2)
        | (simp only [kontHeld, List.mem_cons, List.not_mem_nil, or_false, Lk.node.injEq, reduceCtorEq, false_or] at h
           rw [h]; exact (kid_present hi h0).2)
        | (simp only [kontExtra, List.mem_cons, List.not_mem_nil, or_false] at h
           rcases h with h | h
           · rw [h]; exact root_present hi
           · rw [h]; exact (kid_present hi h1).2)
    | upChild key f y parent index child =>
      have hk' := hk.1
      first
        | (simp only [kontLock, Option.some.injEq, Lk.node.injEq] at h
           rw [← h]; exact (kid_present hi hk').2)
        | (simp only [kontHeld, List.mem_singleton, Lk.node.injEq] at h
           rw [h]; exact (kid_present hi hk').1)
        | simp [kontExtra] at h
    | upSib key f y parent child sib =>
      obtain ⟨⟨i, hci, hsi⟩, _, _⟩ := hk
      first
        | (simp only [kontLock, Option.some.injEq, Lk.node.injEq] at h
           rw [← h]; exact (kid_present hi hsi).2)
        | (simp only [kontHeld, List.mem_cons, List.not_mem_nil, or_false, Lk.node.injEq] at h
           rcases h with h | h
           · rw [h]; exact (kid_present hi hci).1
           · rw [h]; exact (kid_present hi hci).2)
        | (simp only [kontExtra, List.mem_singleton] at h
           rw [h]; exact (kid_present hi hsi).2)
    | upCallback key f leaf arg =>
      obtain ⟨⟨sh, hl, _⟩, _⟩ := hk
      first
        | (simp only [kontHeld, List.mem_singleton, Lk.node.injEq] at h
           rw [h]; exact ⟨sh, hl⟩)
        | simp [kontExtra, kontLock] at h
    | delLeft key frames node index left root =>
      obtain ⟨hr, hfr, _, hleft, _⟩ := hk
      subst hr
      obtain ⟨_, hfp⟩ := frames_present hi hfr
      first
        | (simp only [kontLock, Option.some.injEq, Lk.node.injEq] at h
           rw [← h]; exact (kid_present hi hleft).2)
        | (simp only [kontHeld, List.mem_cons, Lk.node.injEq, reduceCtorEq, false_or] at h
           rcases h with h | h
           · rw [h]; exact root_present hi
           · exact hfp id h)
        | simp [kontExtra] at h
    | delChild key frames node index left child root =>
      obtain ⟨hr, hfr, hkid, hleft⟩ := hk
      subst hr
      simp only at hkid hleft
      obtain ⟨_, hfp⟩ := frames_present hi hfr
      first
        | (simp only [kontLock, Option.some.injEq, Lk.node.injEq] at h
           rw [← h]; exact (kid_present hi hkid).2)
        | (simp only [kontHeld, List.mem_cons, List.mem_append, Lk.node.injEq, reduceCtorEq, false_or] at h
           rcases h with h | h | h
           · rw [h]; exact root_present hi
           · exact hfp id h
           · have e := optLock_mem h
             subst e
             simp only at hleft
             exact (kid_present hi hleft.2).2)
        | simp [kontExtra] at h
    | delRight key rest fr right root =>
      obtain ⟨hr, hfr, hright, _⟩ := hk
      subst hr
      obtain ⟨_, hfp⟩ := frames_present hi hfr
      first
        | (simp only [kontLock, Option.some.injEq, Lk.node.injEq] at h
           rw [← h]; exact (kid_present hi hright).2)
        | (simp only [kontHeld, List.mem_cons, Lk.node.injEq, reduceCtorEq, false_or] at h
           rcases h with h | h
           · rw [h]; exact root_present hi
           · exact hfp id h)
        | simp [kontExtra] at h
    | hop cur next =>
      obtain ⟨sh, hsh, h0, hn⟩ := hk
      first
        | (simp only [kontLock, Option.some.injEq, Lk.node.injEq] at h
           rw [← h]
           obtain ⟨shw, hw, _⟩ := next_is_leaf hi hc hsh h0 hn
           exact ⟨shw, hw⟩)
        | simp [kontHeld, kontExtra] at h

/-! ### the conflict lemma -/

/-- how a continuation knows the node it waits for -/
theorem want_class {t : Tree K V} (kb : Kont K V) (cb : Option (Option Nat × Int))
    (hkb : KontOk t kb) (hpb : KontPre cb kb) (w : Nat) (hw : kontLock kb = some (Lk.node w)) :
    (Lk.tree ∈ kontHeld kb ∧ w = t.rootId) ∨
    (∃ p i, Lk.node p ∈ kontHeld kb ∧ t.kidAt p i = some w) ∨
    w ∈ kontExtra t kb ∨
    (∃ cur sh, Lk.node cur ∈ cursorLocks cb ∧ t.look cur = some sh ∧ sh.height = 0 ∧ sh.next = some w) := by
  cases kb with
  | roTree sc key => simp [kontLock] at hw
  | upTree key f y => simp [kontLock] at hw
  | delTree key => simp [kontLock] at hw
  | paused => simp [kontLock] at hw
  | upCallback key f leaf arg => simp [kontLock] at hw
  | roNode sc key hold want =>
    simp only [kontLock, Option.some.injEq, Lk.node.injEq] at hw
    subst hw
    cases hold with
    | tree =>
      have hk' : want = t.rootId := hkb
      exact Or.inl ⟨by simp [kontHeld], hk'⟩
    | node p =>
      obtain ⟨i, hk'⟩ : ∃ i, t.kidAt p i = some want := hkb
      exact Or.inr (Or.inl ⟨p, i, by simp [kontHeld], hk'⟩)
  | upRoot key f y r =>
    simp only [kontLock, Option.some.injEq, Lk.node.injEq] at hw
    subst hw
    have hk' : r = t.rootId := hkb
    exact Or.inl ⟨by simp [kontHeld], hk'⟩
  | delRoot key r =>
    simp only [kontLock, Option.some.injEq, Lk.node.injEq] at hw
    subst hw
    have hk' : r = t.rootId := hkb
    exact Or.inl ⟨by simp [kontHeld], hk'⟩
  | upRootSib key f y root sib =>
    simp only [kontLock, Option.some.injEq, Lk.node.injEq] at hw
    subst hw
    exact Or.inr (Or.inr (Or.inl (by simp [kontExtra])))
  | upSib key f y parent child sib =>
    simp only [kontLock, Option.some.injEq, Lk.node.injEq] at hw
    subst hw
    exact Or.inr (Or.inr (Or.inl (by simp [kontExtra])))
  | upChild key f y parent index child =>
    simp only [kontLock, Option.some.injEq, Lk.node.injEq] at hw
    subst hw
    exact Or.inr (Or.inl ⟨parent, index, by simp [kontHeld], hkb.1⟩)
  | delLeft key frames node index left root =>
    simp only [kontLock, Option.some.injEq, Lk.node.injEq] at hw
    subst hw
    obtain ⟨_, hfr, _, hleft, _⟩ := hkb
    refine Or.inr (Or.inl ⟨node, index - 1, ?_, hleft⟩)
    simp only [kontHeld, List.mem_cons]
    rcases FramesOk_top hfr with e | e
    · exact Or.inr (Or.inl (by rw [e]))
    · exact Or.inr (Or.inr e)
  | delChild key frames node index left child root =>
    simp only [kontLock, Option.some.injEq, Lk.node.injEq] at hw
    subst hw
    obtain ⟨_, hfr, hkid, _⟩ := hkb
    simp only at hkid
    refine Or.inr (Or.inl ⟨node, index, ?_, hkid⟩)
    simp only [kontHeld, List.mem_cons, List.mem_append]
    rcases FramesOk_top hfr with e | e
    · exact Or.inr (Or.inl (by rw [e]))
    · exact Or.inr (Or.inr (Or.inl e))
  | delRight key rest fr right root =>
    simp only [kontLock, Option.some.injEq, Lk.node.injEq] at hw
    subst hw
    obtain ⟨_, ⟨_, _, hrest⟩, hright, _⟩ := hkb
    refine Or.inr (Or.inl ⟨fr.node, fr.index + 1, ?_, hright⟩)
    simp only [kontHeld, framesHeld, List.mem_cons, List.mem_append]
    rcases FramesOk_top hrest with e | e
    · exact Or.inr (Or.inl (by rw [e]))
    · exact Or.inr (Or.inr (Or.inl e))
  | hop cur next =>
    simp only [kontLock, Option.some.injEq, Lk.node.injEq] at hw
    subst hw
    have hc : cursorLocks cb = [.node cur] := hpb
    obtain ⟨sh, hsh, h0, hn⟩ := hkb
    exact Or.inr (Or.inr (Or.inr ⟨cur, sh, by simp [hc], hsh, h0, hn⟩))

/-- a leaf whose `next` is the right sibling `w` of `child` is `child` -/
theorem hop_sib {t : Tree K V} (hi : IdsOk t) (hc : ChainOk t) {parent child w i i' cur : Nat}
    {sh : Shallow K V} (hci : t.kidAt parent i = some child) (hwi : t.kidAt parent i' = some w) (hlt : i < i')
    (hnext : ∀ sh, t.look child = some sh → sh.height = 0 → sh.next = some w)
    (hcur : t.look cur = some sh) (h0 : sh.height = 0) (hn : sh.next = some w) : cur = child := by
  obtain ⟨shw, hlw, hw0⟩ := next_is_leaf hi hc hcur h0 hn
  obtain ⟨sha, shb, hla, hlb, hh, _⟩ := sib_look hi hci hwi hlt
  rw [hlw] at hlb
  cases hlb
  have ha0 : sha.height = 0 := by omega
  exact chain_pred_unique hi hc hcur h0 hn hla ha0 (hnext sha hla ha0)

/-- if thread B waits for a node that thread A relies on without holding it (`kontExtra`), then
    either they hold a common mutex, or B holds one of A's extras, or the node is B's own
    freshly allocated sibling -/
theorem want_extra_conflict {t : Tree K V} (hi : IdsOk t) (hc : ChainOk t) (ka kb : Kont K V)
    (ca cb : Option (Option Nat × Int)) (hka : KontOk t ka) (hkb : KontOk t kb)
    (hpa : KontPre ca ka) (hpb : KontPre cb kb) (w : Nat)
    (hw : kontLock kb = some (Lk.node w)) (hx : w ∈ kontExtra t ka) :
    (∃ l, l ∈ kontHeld ka ∧ l ∈ kontHeld kb ++ cursorLocks cb) ∨
    (∃ x ∈ kontExtra t ka, Lk.node x ∈ kontHeld kb) ∨
    w ∈ kontExtra t kb := by
  have hcls := want_class kb cb hkb hpb w hw
  cases ka with
  | upSib key f y parent child sib =>
    simp only [kontExtra, List.mem_singleton] at hx
    subst hx
    obtain ⟨⟨i, hci, hsi⟩, _, hnext⟩ := hka
    rcases hcls with ⟨_, hroot⟩ | ⟨p, j, hp, hkid⟩ | hext | ⟨cur, sh, hcur, hl, h0, hn⟩
    · rw [hroot] at hsi
      exact absurd hsi (root_not_kid hi)
    · have e := kid_unique_parent hi hkid hsi
      subst e
      exact Or.inl ⟨.node p, by simp [kontHeld], List.mem_append_left _ hp⟩
    · exact Or.inr (Or.inr hext)
    · have e := hop_sib hi hc hci hsi (Nat.lt_succ_self i) hnext hl h0 hn
      subst e
      exact Or.inl ⟨.node cur, by simp [kontHeld], List.mem_append_right _ hcur⟩
  | upRootSib key f y root sib =>
    obtain ⟨⟨shr, hshr, hkids⟩, _, hnext⟩ := hka
    have hk0 : t.kidAt t.rootId 0 = some root := by simp [Tree.kidAt, hshr, hkids]
    have hk1 : t.kidAt t.rootId 1 = some sib := by simp [Tree.kidAt, hshr, hkids]
    have htree : Lk.tree ∈ kontHeld (Kont.upRootSib (K := K) (V := V) key f y root sib) := by simp [kontHeld]
    simp only [kontExtra, List.mem_cons, List.not_mem_nil, or_false] at hx
    rcases hcls with ⟨hbt, _⟩ | ⟨p, j, hp, hkid⟩ | hext | ⟨cur, sh, hcur, hl, h0, hn⟩
    · exact Or.inl ⟨.tree, htree, List.mem_append_left _ hbt⟩
    · rcases hx with hx | hx
      · rw [hx] at hkid
        exact absurd hkid (root_not_kid hi)
      · subst hx
        have e := kid_unique_parent hi hkid hk1
        subst e
        exact Or.inr (Or.inl ⟨t.rootId, by simp [kontExtra], hp⟩)
    · exact Or.inr (Or.inr hext)
    · rcases hx with hx | hx
      · exfalso
        subst hx
        obtain ⟨shw, hlw, hw0⟩ := next_is_leaf hi hc hl h0 hn
        obtain ⟨shc, _, hh⟩ := kid_look hi hk0 hshr
        rw [hshr] at hlw
        cases hlw
        omega
      · subst hx
        have e := hop_sib hi hc hk0 hk1 (by omega) hnext hl h0 hn
        subst e
        exact Or.inl ⟨.node cur, by simp [kontHeld], List.mem_append_right _ hcur⟩
  | roTree sc key => simp [kontExtra] at hx
  | roNode sc key hold want => simp [kontExtra] at hx
  | upTree key f y => simp [kontExtra] at hx
  | upRoot key f y r => simp [kontExtra] at hx
  | upChild key f y parent index child => simp [kontExtra] at hx
  | upCallback key f leaf arg => simp [kontExtra] at hx
  | delTree key => simp [kontExtra] at hx
  | delRoot key r => simp [kontExtra] at hx
  | delLeft key frames node index left root => simp [kontExtra] at hx
  | delChild key frames node index left child root => simp [kontExtra] at hx
  | delRight key rest fr right root => simp [kontExtra] at hx
  | hop cur next => simp [kontExtra] at hx
  | paused => simp [kontExtra] at hx

end Gobptree.Conc

#print axioms Gobptree.Conc.kid_unique_parent
#print axioms Gobptree.Conc.root_not_kid
#print axioms Gobptree.Conc.next_is_leaf
#print axioms Gobptree.Conc.chain_pred_unique
#print axioms Gobptree.Conc.kont_present
#print axioms Gobptree.Conc.want_extra_conflict
