/-
  Leaf identities: allocation keeps them pairwise distinct.  These facts do not depend
  on keys or on the shape invariant: they are read off the code of the operations.
-/
import Gobptree.Ops
import Gobptree.Proofs.Slice

namespace Gobptree

variable {K V : Type}

/-- identities of the leaves beneath a node, in order -/
def leafIds {d : Nat} (n : Node K V d) : List Nat := (Node.leaves n).map (·.id)

/-- identities of the leaves beneath a list of siblings -/
def idsOf {d : Nat} (cs : List (Node K V d)) : List Nat := cs.flatMap leafIds

theorem leafIds_leaf (l : Leaf K V) : leafIds (d := 0) l = [l.id] := rfl

theorem leafIds_inner {d : Nat} (p : Inner K (Node K V d)) :
    leafIds (d := d + 1) p = idsOf p.kids := by
  simp only [leafIds, idsOf, Node.leaves, List.map_flatMap]
  rfl

theorem idsOf_form1 {d : Nat} (A B : List (Node K V d)) (x : Node K V d) :
    idsOf (A ++ x :: B) = idsOf A ++ leafIds x ++ idsOf B := by
  simp [idsOf, List.flatMap_append, List.flatMap_cons]

theorem idsOf_form2 {d : Nat} (A B : List (Node K V d)) (x y : Node K V d) :
    idsOf (A ++ x :: y :: B) = idsOf A ++ (leafIds x ++ leafIds y) ++ idsOf B := by
  simp [idsOf, List.flatMap_append, List.flatMap_cons]

theorem sublist_flatMap {α β : Type} (f : α → List β) {l₁ l₂ : List α} (h : l₁.Sublist l₂) :
    (l₁.flatMap f).Sublist (l₂.flatMap f) := by
  induction h with
  | slnil => simp
  | cons a _ ih =>
    rw [List.flatMap_cons]
    exact ih.trans (List.sublist_append_right _ _)
  | cons_cons a _ ih =>
    rw [List.flatMap_cons, List.flatMap_cons]
    exact List.Sublist.append (List.Sublist.refl _) ih

/-- one allocation step on identity lists: `new` arises from `old` by dropping
    identities and adding fresh ones from `[a, b)` -/
def IdStep (old new : List Nat) (a b : Nat) : Prop :=
  a ≤ b ∧ (∀ id ∈ new, id ∈ old ∨ (a ≤ id ∧ id < b)) ∧
  (old.Nodup → (∀ id ∈ old, id < a) → new.Nodup)

theorem IdStep.refl (l : List Nat) (a : Nat) : IdStep l l a a :=
  ⟨Nat.le_refl _, fun _ h => Or.inl h, fun h _ => h⟩

theorem IdStep.bound {old new : List Nat} {a b : Nat} (h : IdStep old new a b)
    (hb : ∀ id ∈ old, id < a) : ∀ id ∈ new, id < b := by
  intro id hid
  rcases h.2.1 id hid with h1 | h1
  · have := hb id h1; have := h.1; omega
  · exact h1.2

theorem IdStep.trans {l₁ l₂ l₃ : List Nat} {a b c : Nat}
    (h₁ : IdStep l₁ l₂ a b) (h₂ : IdStep l₂ l₃ b c) : IdStep l₁ l₃ a c := by
  refine ⟨Nat.le_trans h₁.1 h₂.1, ?_, ?_⟩
  · intro id hid
    rcases h₂.2.1 id hid with h | h
    · rcases h₁.2.1 id h with h' | h'
      · exact Or.inl h'
      · have := h₂.1; exact Or.inr ⟨h'.1, by omega⟩
    · have := h₁.1; exact Or.inr ⟨by omega, h.2⟩
  · intro hn hb
    exact h₂.2.2 (h₁.2.2 hn hb) (h₁.bound hb)

theorem IdStep.mono {old new : List Nat} {a b a' b' : Nat} (h : IdStep old new a b)
    (ha : a' ≤ a) (hb : b ≤ b') : IdStep old new a' b' := by
  have := h.1
  refine ⟨by omega, ?_, ?_⟩
  · intro id hid
    rcases h.2.1 id hid with h1 | h1
    · exact Or.inl h1
    · exact Or.inr ⟨by omega, by omega⟩
  · intro hn hlt
    exact h.2.2 hn (fun id hid => by have := hlt id hid; omega)

theorem IdStep.append_left {old new : List Nat} {a b : Nat} (A : List Nat)
    (h : IdStep old new a b) : IdStep (A ++ old) (A ++ new) a b := by
  refine ⟨h.1, ?_, ?_⟩
  · intro id hid
    rcases List.mem_append.1 hid with h1 | h1
    · exact Or.inl (List.mem_append_left _ h1)
    · rcases h.2.1 id h1 with h2 | h2
      · exact Or.inl (List.mem_append_right _ h2)
      · exact Or.inr h2
  · intro hn hlt
    rw [List.nodup_append] at hn ⊢
    obtain ⟨hA, hO, hD⟩ := hn
    refine ⟨hA, h.2.2 hO (fun id hid => hlt id (List.mem_append_right _ hid)), ?_⟩
    intro x hx y hy hxy
    subst hxy
    rcases h.2.1 x hy with h2 | h2
    · exact hD x hx x h2 rfl
    · have := hlt x (List.mem_append_left _ hx); omega

theorem IdStep.append_right {old new : List Nat} {a b : Nat} (B : List Nat)
    (h : IdStep old new a b) : IdStep (old ++ B) (new ++ B) a b := by
  refine ⟨h.1, ?_, ?_⟩
  · intro id hid
    rcases List.mem_append.1 hid with h1 | h1
    · rcases h.2.1 id h1 with h2 | h2
      · exact Or.inl (List.mem_append_left _ h2)
      · exact Or.inr h2
    · exact Or.inl (List.mem_append_right _ h1)
  · intro hn hlt
    rw [List.nodup_append] at hn ⊢
    obtain ⟨hO, hB, hD⟩ := hn
    refine ⟨h.2.2 hO (fun id hid => hlt id (List.mem_append_left _ hid)), hB, ?_⟩
    intro x hx y hy hxy
    subst hxy
    rcases h.2.1 x hx with h2 | h2
    · exact hD x h2 x hy rfl
    · have := hlt x (List.mem_append_right _ hy); omega

theorem IdStep.context {old new : List Nat} {a b : Nat} (A B : List Nat)
    (h : IdStep old new a b) : IdStep (A ++ old ++ B) (A ++ new ++ B) a b :=
  (h.append_left A).append_right B

theorem IdStep.of_sublist {old new : List Nat} (h : new.Sublist old) (a : Nat) :
    IdStep old new a (a + 1) :=
  ⟨Nat.le_succ _, fun _ hid => Or.inl (h.subset hid), fun hn _ => h.nodup hn⟩

theorem Leaf.upsert_id (P : Params K) (l l' : Leaf K V) (key : K) (f : Option V → V) (a : Option V)
    (h : Leaf.upsert P l key f = .ok (l', a)) : l'.id = l.id := by
  unfold Leaf.upsert at h
  simp only [pure, Except.pure, throw, throwThe, MonadExceptOf.throw] at h
  repeat' split at h
  all_goals first
    | (injection h with h; injection h with h; subst h; rfl)
    | cases h

theorem maybeSplit_none (o fresh : Nat) : ∀ {d : Nat} (n l : Node K V d),
    Node.maybeSplit o fresh n = .ok (l, none) → l = n
  | 0, n, l, h => by
    simp only [Node.maybeSplit, pure, Except.pure, throw, throwThe, MonadExceptOf.throw] at h
    repeat' split at h
    all_goals first
      | (injection h with h; injection h with h h'; first | exact h.symm | cases h')
      | cases h
  | d + 1, n, l, h => by
    simp only [Node.maybeSplit, pure, Except.pure, throw, throwThe, MonadExceptOf.throw] at h
    repeat' split at h
    all_goals first
      | (injection h with h; injection h with h h'; first | exact h.symm | cases h')
      | cases h

theorem maybeSplit_some_leaf (o fresh : Nat) (n l r : Leaf K V)
    (h : Node.maybeSplit (d := 0) o fresh n = .ok (l, some r)) :
    IdStep (leafIds (d := 0) n) (leafIds (d := 0) l ++ leafIds (d := 0) r) fresh (fresh + 1) := by
  simp only [Node.maybeSplit, pure, Except.pure, throw, throwThe, MonadExceptOf.throw] at h
  split at h
  · cases h
  · split at h
    · cases h
    · injection h with h; injection h with h1 h2; injection h2 with h2
      subst h1; subst h2
      simp only [leafIds_leaf, List.singleton_append]
      refine ⟨Nat.le_succ _, ?_, ?_⟩
      · intro id hid
        simp only [List.mem_cons, List.not_mem_nil, or_false] at hid ⊢
        rcases hid with h | h
        · exact Or.inl h
        · exact Or.inr ⟨by omega, by omega⟩
      · intro _ hlt
        have := hlt n.id (by simp)
        simp; omega

theorem maybeSplit_some_inner (o fresh : Nat) {d : Nat} (n l r : Inner K (Node K V d))
    (h : Node.maybeSplit (d := d + 1) o fresh n = .ok (l, some r)) :
    IdStep (leafIds (d := d + 1) n) (leafIds (d := d + 1) l ++ leafIds (d := d + 1) r)
      fresh (fresh + 1) := by
  simp only [Node.maybeSplit, pure, Except.pure, throw, throwThe, MonadExceptOf.throw] at h
  split at h
  · cases h
  · split at h
    · cases h
    · injection h with h; injection h with h1 h2; injection h2 with h2
      subst h1; subst h2
      rw [leafIds_inner, leafIds_inner, leafIds_inner]
      apply IdStep.of_sublist
      simp only [idsOf, ← List.flatMap_append]
      apply sublist_flatMap
      have : (n.kids.take (o >>> 1) ++ (n.kids.drop (o >>> 1)).take (o >>> 1)).Sublist
          (n.kids.take (o >>> 1) ++ n.kids.drop (o >>> 1)) :=
        List.Sublist.append (List.Sublist.refl _) (List.take_sublist _ _)
      rwa [List.take_append_drop] at this

theorem maybeSplit_some (o fresh : Nat) : ∀ {d : Nat} (n l r : Node K V d),
    Node.maybeSplit o fresh n = .ok (l, some r) →
    IdStep (leafIds n) (leafIds l ++ leafIds r) fresh (fresh + 1)
  | 0, n, l, r, h => maybeSplit_some_leaf o fresh n l r h
  | _ + 1, n, l, r, h => maybeSplit_some_inner o fresh n l r h

/-- the child at the routing index splits the child list -/
theorem kids_split {α : Type} (l : List α) (i : Nat) (x : α) (h : l[i]? = some x) :
    ∃ A B, l = A ++ x :: B ∧ A.length = i := by
  obtain ⟨hi, hx⟩ := List.getElem?_eq_some_iff.1 h
  refine ⟨l.take i, l.drop (i + 1), ?_, ?_⟩
  · rw [← hx, ← List.drop_eq_getElem_cons, List.take_append_drop]
  · rw [List.length_take]; omega

theorem form_set_pivot' {α : Type} (a b : List α) (x y : α) :
    (a ++ x :: b).set a.length y = a ++ y :: b := by
  rw [List.set_append_right _ _ (by omega)]
  simp

theorem form_set_next' {α : Type} (a b : List α) (x y z : α) :
    (a ++ x :: y :: b).set (a.length + 1) z = a ++ x :: z :: b := by
  rw [List.set_append_right _ _ (by omega)]
  simp

theorem form_insert_next' {α : Type} (pad : α) (a b : List α) (x y : α) :
    insertIdiom pad (a ++ x :: b) (a.length + 1) y = a ++ x :: y :: b := by
  rw [insertIdiom_eq _ _ _ _ (by simp)]
  have h1 : (a ++ x :: b).take (a.length + 1) = a ++ [x] := by
    rw [List.take_append]; simp [List.take_of_length_le]
  have h2 : (a ++ x :: b).drop (a.length + 1) = b := by
    rw [List.drop_append]; simp [List.drop_eq_nil_of_le]
  rw [h1, h2]; simp

theorem upsertNode_IdStep_leaf (P : Params K) (key : K) (f : Option V → V)
    (n : Leaf K V) (nid : Nat) (n' : Leaf K V) (nid' : Nat) (cb : Option V)
    (h : upsertNode P key f 0 n nid = .ok (n', nid', cb)) :
    IdStep (leafIds (d := 0) n) (leafIds (d := 0) n') nid nid' := by
  simp only [upsertNode, bind, Except.bind, pure, Except.pure] at h
  split at h
  · cases h
  · rename_i v hv
    injection h with h; injection h with h1 h2; injection h2 with h2 h3
    subst h1; subst h2
    have := Leaf.upsert_id P n v.1 key f v.2 hv
    rw [leafIds_leaf, leafIds_leaf, this]
    exact IdStep.refl _ _

theorem upsertNode_IdStep_inner (P : Params K) (key : K) (f : Option V → V) (d : Nat)
    (ih : ∀ (n : Node K V d) (nid : Nat) (n' : Node K V d) (nid' : Nat) (cb : Option V),
      upsertNode P key f d n nid = .ok (n', nid', cb) → IdStep (leafIds n) (leafIds n') nid nid')
    (p : Inner K (Node K V d)) (nid : Nat) (n' : Inner K (Node K V d)) (nid' : Nat) (cb : Option V)
    (h : upsertNode P key f (d + 1) p nid = .ok (n', nid', cb)) :
    IdStep (leafIds (d := d + 1) p) (leafIds (d := d + 1) n') nid nid' := by
  simp only [upsertNode, bind, Except.bind, pure, Except.pure] at h
  split at h
  · rename_i child hchild
    obtain ⟨A, B, hk, hA⟩ := kids_split _ _ _ hchild
    split at h
    · cases h
    · split at h
      · cases h
      · rename_i runts _ v1 hms
        obtain ⟨left, right?⟩ := v1
        split at h
        · -- no split
          rename_i hr
          simp only at hr; subst hr
          have := maybeSplit_none _ _ _ _ hms; subst this
          split at h
          · cases h
          · rename_i v2 hrec
            obtain ⟨c', nid2, cb2⟩ := v2
            injection h with h; injection h with h1 h2; injection h2 with h2 h3
            subst h1; subst h2
            have hs := ih _ _ _ _ _ hrec
            rw [leafIds_inner, leafIds_inner]
            simp only
            rw [hk, ← hA, form_set_pivot', idsOf_form1, idsOf_form1]
            exact hs.context _ _
        · -- split
          rename_i right hr
          simp only at hr; subst hr
          have hsp := maybeSplit_some _ _ _ _ _ hms
          split at h
          · split at h
            · cases h
            · split at h
              · split at h
                · cases h
                · rename_i v3 hrec
                  obtain ⟨c', nid2, cb2⟩ := v3
                  injection h with h; injection h with h1 h2; injection h2 with h2 h3
                  subst h1; subst h2
                  have hs := ih _ _ _ _ _ hrec
                  rw [leafIds_inner, leafIds_inner]
                  simp only
                  rw [hk, ← hA, form_insert_next', form_set_pivot', form_set_next',
                    idsOf_form1, idsOf_form2]
                  exact (hsp.trans (hs.append_left _)).context _ _
              · split at h
                · cases h
                · rename_i v3 hrec
                  obtain ⟨c', nid2, cb2⟩ := v3
                  injection h with h; injection h with h1 h2; injection h2 with h2 h3
                  subst h1; subst h2
                  have hs := ih _ _ _ _ _ hrec
                  rw [leafIds_inner, leafIds_inner]
                  simp only
                  rw [hk, ← hA, form_insert_next', form_set_pivot', form_set_pivot',
                    idsOf_form1, idsOf_form2]
                  exact (hsp.trans (hs.append_right _)).context _ _
          · cases h
  · cases h

theorem upsertNode_IdStep (P : Params K) (key : K) (f : Option V → V) :
    ∀ (d : Nat) (n : Node K V d) (nid : Nat) (n' : Node K V d) (nid' : Nat) (cb : Option V),
      upsertNode P key f d n nid = .ok (n', nid', cb) →
      IdStep (leafIds n) (leafIds n') nid nid'
  | 0, n, nid, n', nid', cb, h => upsertNode_IdStep_leaf P key f n nid n' nid' cb h
  | d + 1, p, nid, n', nid', cb, h =>
    upsertNode_IdStep_inner P key f d (upsertNode_IdStep P key f d) p nid n' nid' cb h

/-- Insert/Update descent: fresh identities come from the counter -/
theorem upsertNode_ids (P : Params K) (key : K) (f : Option V → V) :
    ∀ (d : Nat) (n : Node K V d) (nid : Nat) (n' : Node K V d) (nid' : Nat) (cb : Option V),
      upsertNode P key f d n nid = .ok (n', nid', cb) →
      nid ≤ nid' ∧
      (∀ id ∈ leafIds n', id ∈ leafIds n ∨ (nid ≤ id ∧ id < nid')) ∧
      ((leafIds n).Nodup → (∀ id ∈ leafIds n, id < nid) → (leafIds n').Nodup) :=
  fun d n nid n' nid' cb h => upsertNode_IdStep P key f d n nid n' nid' cb h

theorem Tree.upsert_ids (P : Params K) (t t' : Tree K V) (key : K) (f : Option V → V) (cb : Option V)
    (h : t.upsert P key f = .ok (t', cb))
    (hn : (leafIds t.root).Nodup) (hb : ∀ id ∈ leafIds t.root, id < t.nextId) :
    (leafIds t'.root).Nodup ∧ (∀ id ∈ leafIds t'.root, id < t'.nextId) := by
  obtain ⟨order, depth, root, nextId⟩ := t
  simp only at hn hb
  simp only [Tree.upsert, bind, Except.bind, pure, Except.pure] at h
  split at h
  · cases h
  · rename_i v1 hms
    obtain ⟨left, right?⟩ := v1
    split at h
    · rename_i hr
      simp only at hr; subst hr
      have := maybeSplit_none _ _ _ _ hms; subst this
      split at h
      · cases h
      · rename_i v2 hrec
        obtain ⟨r', nid2, cb2⟩ := v2
        injection h with h; injection h with h1 h2
        subst h1
        have hs := upsertNode_IdStep P key f _ _ _ _ _ _ hrec
        exact ⟨hs.2.2 hn hb, hs.bound hb⟩
    · rename_i right hr
      simp only at hr; subst hr
      have hsp := maybeSplit_some _ _ _ _ _ hms
      split at h
      · cases h
      · split at h
        · cases h
        · split at h
          · split at h
            · cases h
            · rename_i v3 hrec
              obtain ⟨c', nid2, cb2⟩ := v3
              injection h with h; injection h with h1 h2
              subst h1
              have hs := (upsertNode_IdStep P key f _ _ _ _ _ _ hrec).mono
                (Nat.le_succ (nextId + 1)) (Nat.le_refl _)
              have hst := hsp.trans (hs.append_left _)
              simp only
              rw [leafIds_inner]
              simp only [idsOf, List.flatMap_cons, List.flatMap_nil, List.append_nil]
              exact ⟨hst.2.2 hn hb, hst.bound hb⟩
          · split at h
            · cases h
            · rename_i v3 hrec
              obtain ⟨c', nid2, cb2⟩ := v3
              injection h with h; injection h with h1 h2
              subst h1
              have hs := (upsertNode_IdStep P key f _ _ _ _ _ _ hrec).mono
                (Nat.le_succ (nextId + 1)) (Nat.le_refl _)
              have hst := hsp.trans (hs.append_right _)
              simp only
              rw [leafIds_inner]
              simp only [idsOf, List.flatMap_cons, List.flatMap_nil, List.append_nil]
              exact ⟨hst.2.2 hn hb, hst.bound hb⟩

end Gobptree
