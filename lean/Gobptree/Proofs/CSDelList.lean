/-
  List-level machinery for Delete's blocks: the leaf chain as a recursive predicate,
  and `Rw`, the description of one local rewrite of a window of the flat view
  (which identities are written, which entries are new) from which every component of
  the structural invariant is derived.
-/
import Gobptree.Proofs.CSBlock
import Gobptree.Proofs.CSRank

namespace Gobptree.Conc
open Gobptree

variable {K V : Type}

/-! ### the chain predicate -/

theorem chain_cons (x : Nat × Shallow K V) (l : List (Nat × Shallow K V)) :
    Chain (x :: l) ↔ x.2.next = l.head?.map Prod.fst ∧ Chain l := by
  cases l with
  | nil => simp [Chain]
  | cons q rest => simp [Chain]

/-- what the chain predicate looks at -/
def sig (p : Nat × Shallow K V) : Nat × Option Nat := (p.1, p.2.next)

theorem head?_fst_of_sig {l l' : List (Nat × Shallow K V)} (h : l.map sig = l'.map sig) :
    l.head?.map Prod.fst = l'.head?.map Prod.fst := by
  cases l with
  | nil => cases l' with
    | nil => rfl
    | cons b l' => simp at h
  | cons a l => cases l' with
    | nil => simp at h
    | cons b l' =>
      simp only [List.map_cons, List.cons.injEq] at h
      have := congrArg Prod.fst h.1
      simpa [sig] using this

theorem chain_congr : ∀ (l l' : List (Nat × Shallow K V)), l.map sig = l'.map sig → Chain l → Chain l' := by
  intro l
  induction l with
  | nil =>
    intro l' h _
    cases l' with
    | nil => trivial
    | cons b l' => simp at h
  | cons a l ih =>
    intro l' h hc
    cases l' with
    | nil => simp at h
    | cons b l' =>
      simp only [List.map_cons, List.cons.injEq] at h
      rw [chain_cons] at hc ⊢
      refine ⟨?_, ih l' h.2 hc.2⟩
      have h1 : a.2.next = b.2.next := by
        have := congrArg Prod.snd h.1
        simpa [sig] using this
      rw [← h1, hc.1]
      exact head?_fst_of_sig h.2

theorem chain_append_right : ∀ (X Y : List (Nat × Shallow K V)), Chain (X ++ Y) → Chain Y := by
  intro X
  induction X with
  | nil => intro Y h; exact h
  | cons x X ih =>
    intro Y h
    rw [List.cons_append, chain_cons] at h
    exact ih Y h.2

/-- in a chain, adjacent entries are linked -/
theorem chain_adjacent (X Y : List (Nat × Shallow K V)) (p q : Nat × Shallow K V)
    (h : Chain (X ++ p :: q :: Y)) : p.2.next = some q.1 := by
  have := chain_append_right X _ h
  rw [chain_cons] at this
  simpa using this.1

/-- replacing a segment by one with the same first identity (both non-empty), in a chain
    context: only the chain property of the tail from the segment on matters -/
theorem chain_context (A A' : List (Nat × Shallow K V))
    (hhead : ∀ Y : List (Nat × Shallow K V), (A ++ Y).head?.map Prod.fst = (A' ++ Y).head?.map Prod.fst)
    (hstep : ∀ Y, Chain (A ++ Y) → Chain (A' ++ Y)) :
    ∀ X Y, Chain (X ++ A ++ Y) → Chain (X ++ A' ++ Y) := by
  intro X
  induction X with
  | nil => intro Y h; simpa using hstep Y (by simpa using h)
  | cons x X ih =>
    intro Y h
    rw [List.cons_append, List.cons_append, chain_cons] at h ⊢
    refine ⟨?_, ih Y h.2⟩
    rw [h.1]
    cases X with
    | nil => simpa using hhead Y
    | cons y X => rfl

/-- leaf merge on the chain: `[a, b] ↦ [a']` with `a'` carrying `a`'s identity and `b`'s link -/
theorem chain_merge (a b a' : Nat × Shallow K V) (h1 : a'.1 = a.1) (h2 : a'.2.next = b.2.next) :
    ∀ X Y, Chain (X ++ [a, b] ++ Y) → Chain (X ++ [a'] ++ Y) := by
  apply chain_context
  · intro Y; simp [h1]
  · intro Y h
    simp only [List.cons_append, List.nil_append] at h ⊢
    rw [chain_cons] at h
    have hb := h.2
    rw [chain_cons] at hb ⊢
    exact ⟨by rw [h2]; exact hb.1, hb.2⟩

/-- segments with the same signature are interchangeable -/
theorem chain_sig_context (A A' : List (Nat × Shallow K V)) (h : A.map sig = A'.map sig) :
    ∀ X Y, Chain (X ++ A ++ Y) → Chain (X ++ A' ++ Y) := by
  intro X Y hc
  refine chain_congr _ _ ?_ hc
  simp only [List.map_append, h]

/-! ### leaves of the flat view -/

theorem flatLeaves_append (A B : List (Nat × Shallow K V)) :
    flatLeaves (A ++ B) = flatLeaves A ++ flatLeaves B := by
  unfold flatLeaves; exact List.filter_append _ _

theorem flatLeaves_cons_inner (p : Nat × Shallow K V) (A : List (Nat × Shallow K V)) (h : p.2.height ≠ 0) :
    flatLeaves (p :: A) = flatLeaves A := by
  unfold flatLeaves
  rw [List.filter_cons]
  simp [h]

theorem flatLeaves_cons_leaf (p : Nat × Shallow K V) (A : List (Nat × Shallow K V)) (h : p.2.height = 0) :
    flatLeaves (p :: A) = p :: flatLeaves A := by
  unfold flatLeaves
  rw [List.filter_cons]
  simp [h]

@[simp] theorem flatLeaves_nil : flatLeaves ([] : List (Nat × Shallow K V)) = [] := rfl

/-! ### one local rewrite of a window -/

theorem nodup_two {a b : Nat} {A B : List Nat} (h : (a :: (A ++ b :: B)).Nodup) :
    a ≠ b ∧ ∀ x, x ∈ A ∨ x ∈ B → x ≠ a ∧ x ≠ b := by
  rw [List.nodup_cons, List.nodup_append, List.nodup_cons] at h
  obtain ⟨h1, h2, ⟨h3, h4⟩, h5⟩ := h
  simp only [List.mem_append, List.mem_cons, not_or] at h1
  refine ⟨h1.2.1, ?_⟩
  intro x hx
  rcases hx with hx | hx
  · exact ⟨fun e => h1.1 (e ▸ hx), h5 x hx b (by simp)⟩
  · exact ⟨fun e => h1.2.2 (e ▸ hx), fun e => h3 (e ▸ hx)⟩

theorem fst_mem {W : List (Nat × Shallow K V)} {e : Nat × Shallow K V} (h : e ∈ W) : e.1 ∈ W.map Prod.fst :=
  List.mem_map.2 ⟨e, h, rfl⟩

/-- `W ↦ W'` writes only identities in `wr` (all of which occur in `W`); the entries of `W'`
    are the entries listed in `new` and entries of `W` whose identity is not written -/
structure Rw (wr : List Nat) (new W W' : List (Nat × Shallow K V)) : Prop where
  ids   : ∃ M, (W'.map Prod.fst).Perm M ∧ M.Sublist (W.map Prod.fst)
  mem   : ∀ e ∈ W', e ∈ new ∨ (e ∈ W ∧ e.1 ∉ wr)
  wrsub : ∀ x ∈ wr, x ∈ W.map Prod.fst
  frame : ∀ keep : Nat → Bool, (∀ x ∈ wr, keep x = false) →
            W.filter (fun p => keep p.1) = W'.filter (fun p => keep p.1)
  chain : ∀ X Y, Chain (X ++ flatLeaves W ++ Y) → Chain (X ++ flatLeaves W' ++ Y)

theorem Rw.refl (W : List (Nat × Shallow K V)) : Rw [] [] W W :=
  ⟨⟨_, List.Perm.refl _, List.Sublist.refl _⟩, fun _ h => Or.inr ⟨h, by simp⟩, fun _ h => (by cases h),
   fun _ _ => rfl, fun _ _ h => h⟩

theorem Rw.mono {wr : List Nat} {new new' W W' : List (Nat × Shallow K V)} (h : Rw wr new W W')
    (hn : ∀ e ∈ new, e ∈ new') : Rw wr new' W W' :=
  ⟨h.ids, fun e he => (h.mem e he).imp (hn e) id, h.wrsub, h.frame, h.chain⟩

theorem Rw.append {wr1 wr2 : List Nat} {n1 n2 A A' B B' : List (Nat × Shallow K V)}
    (h1 : Rw wr1 n1 A A') (h2 : Rw wr2 n2 B B') (hn : ((A ++ B).map Prod.fst).Nodup) :
    Rw (wr1 ++ wr2) (n1 ++ n2) (A ++ B) (A' ++ B') := by
  obtain ⟨M1, p1, s1⟩ := h1.ids
  obtain ⟨M2, p2, s2⟩ := h2.ids
  rw [List.map_append, List.nodup_append] at hn
  obtain ⟨_, _, hdis⟩ := hn
  refine ⟨⟨M1 ++ M2, ?_, ?_⟩, ?_, ?_, ?_, ?_⟩
  · rw [List.map_append]; exact p1.append p2
  · rw [List.map_append]; exact s1.append s2
  · intro e he
    rcases List.mem_append.1 he with he | he
    · rcases h1.mem e he with h | ⟨h, hw⟩
      · exact Or.inl (List.mem_append_left _ h)
      · refine Or.inr ⟨List.mem_append_left _ h, ?_⟩
        intro hx
        rcases List.mem_append.1 hx with hx | hx
        · exact hw hx
        · exact hdis e.1 (fst_mem h) e.1 (h2.wrsub _ hx) rfl
    · rcases h2.mem e he with h | ⟨h, hw⟩
      · exact Or.inl (List.mem_append_right _ h)
      · refine Or.inr ⟨List.mem_append_right _ h, ?_⟩
        intro hx
        rcases List.mem_append.1 hx with hx | hx
        · exact hdis e.1 (h1.wrsub _ hx) e.1 (fst_mem h) rfl
        · exact hw hx
  · intro x hx
    rw [List.map_append]
    rcases List.mem_append.1 hx with hx | hx
    · exact List.mem_append_left _ (h1.wrsub x hx)
    · exact List.mem_append_right _ (h2.wrsub x hx)
  · intro keep hk
    rw [List.filter_append, List.filter_append,
      h1.frame keep (fun x hx => hk x (List.mem_append_left _ hx)),
      h2.frame keep (fun x hx => hk x (List.mem_append_right _ hx))]
  · intro X Y hc
    rw [flatLeaves_append] at hc ⊢
    have e1 : X ++ (flatLeaves A ++ flatLeaves B) ++ Y = X ++ flatLeaves A ++ (flatLeaves B ++ Y) := by
      simp [List.append_assoc]
    rw [e1] at hc
    have hc1 := h1.chain X _ hc
    have e2 : X ++ flatLeaves A' ++ (flatLeaves B ++ Y) = (X ++ flatLeaves A') ++ flatLeaves B ++ Y := by
      simp [List.append_assoc]
    rw [e2] at hc1
    have hc2 := h2.chain _ Y hc1
    simpa [List.append_assoc] using hc2

theorem Rw.context {wr : List Nat} {new W W' : List (Nat × Shallow K V)} (L R : List (Nat × Shallow K V))
    (h : Rw wr new W W') (hn : ((L ++ W ++ R).map Prod.fst).Nodup) :
    Rw wr new (L ++ W ++ R) (L ++ W' ++ R) := by
  have hn1 : ((L ++ W).map Prod.fst).Nodup := by
    rw [List.map_append, List.nodup_append] at hn
    exact hn.1
  have := ((Rw.refl L).append h hn1).append (Rw.refl R) hn
  simpa using this

theorem Rw.cons {wr : List Nat} {new W W' : List (Nat × Shallow K V)} (p : Nat × Shallow K V)
    (h : Rw wr new W W') (hn : ((p :: W).map Prod.fst).Nodup) : Rw wr new (p :: W) (p :: W') := by
  have := (Rw.refl [p]).append h hn
  simpa using this

/-- one entry rewritten in place -/
theorem Rw.single (id : Nat) (sh sh' : Shallow K V) (hh : sh'.height = sh.height)
    (hn : sh.height = 0 → sh'.next = sh.next) : Rw [id] [(id, sh')] [(id, sh)] [(id, sh')] := by
  refine ⟨⟨[id], List.Perm.refl _, List.Sublist.refl _⟩, fun e he => Or.inl he, ?_, ?_, ?_⟩
  · intro x hx; simpa using hx
  · intro keep hk
    have : keep id = false := hk id (by simp)
    simp [this]
  · by_cases h0 : sh.height = 0
    · apply chain_sig_context
      rw [flatLeaves_cons_leaf _ _ h0, flatLeaves_cons_leaf _ _ (by simpa [hh] using h0)]
      simp [sig, flatLeaves, hn h0]
    · intro X Y hc
      rw [flatLeaves_cons_inner _ _ h0] at hc
      rw [flatLeaves_cons_inner _ _ (by simpa [hh] using h0)]
      exact hc

/-- a borrow from the right sibling between two inner nodes: the first child subtree `X`
    of the right node moves to the end of the left node's children -/
theorem Rw.rotR (a b : Nat) (sa sa' sb sb' : Shallow K V) (CK X RK : List (Nat × Shallow K V))
    (ha : sa.height ≠ 0) (ha' : sa'.height ≠ 0) (hb : sb.height ≠ 0) (hb' : sb'.height ≠ 0)
    (hn : (((a, sa) :: CK ++ (b, sb) :: (X ++ RK)).map Prod.fst).Nodup) :
    Rw [a, b] [(a, sa'), (b, sb')] ((a, sa) :: CK ++ (b, sb) :: (X ++ RK))
      ((a, sa') :: (CK ++ X) ++ (b, sb') :: RK) := by
  have hn' : (a :: (CK.map Prod.fst ++ b :: (X ++ RK).map Prod.fst)).Nodup := by
    simpa using hn
  obtain ⟨_, hsep⟩ := nodup_two hn'
  have hold : ∀ e, e ∈ CK ∨ e ∈ X ∨ e ∈ RK → e.1 ∉ [a, b] := by
    intro e he
    have : e.1 ≠ a ∧ e.1 ≠ b := by
      apply hsep
      rcases he with he | he | he
      · exact Or.inl (fst_mem he)
      · exact Or.inr (fst_mem (List.mem_append_left _ he))
      · exact Or.inr (fst_mem (List.mem_append_right _ he))
    simp [this.1, this.2]
  refine ⟨⟨_, ?_, List.Sublist.refl _⟩, ?_, ?_, ?_, ?_⟩
  · simp only [List.map_cons, List.map_append, List.cons_append, List.append_assoc]
    refine List.Perm.cons _ (List.Perm.append_left _ ?_)
    have h1 : (List.map Prod.fst X ++ b :: List.map Prod.fst RK).Perm (b :: (List.map Prod.fst X ++ List.map Prod.fst RK)) :=
      List.perm_middle
    exact h1
  · intro e he
    simp only [List.cons_append, List.mem_cons, List.mem_append] at he
    rcases he with he | (he | he) | he | he
    · left; simp [he]
    · right; exact ⟨by simp [he], hold e (Or.inl he)⟩
    · right; exact ⟨by simp [he], hold e (Or.inr (Or.inl he))⟩
    · left; simp [he]
    · right; exact ⟨by simp [he], hold e (Or.inr (Or.inr he))⟩
  · intro x hx
    simp only [List.mem_cons, List.not_mem_nil, or_false] at hx
    rcases hx with rfl | rfl <;> simp
  · intro keep hk
    have h1 : keep a = false := hk a (by simp)
    have h2 : keep b = false := hk b (by simp)
    simp [List.filter_append, h1, h2]
  · intro X' Y hc
    have e1 : flatLeaves ((a, sa) :: CK ++ (b, sb) :: (X ++ RK)) = flatLeaves CK ++ (flatLeaves X ++ flatLeaves RK) := by
      rw [List.cons_append, flatLeaves_cons_inner _ _ ha, flatLeaves_append, flatLeaves_cons_inner _ _ hb,
        flatLeaves_append]
    have e2 : flatLeaves ((a, sa') :: (CK ++ X) ++ (b, sb') :: RK) = flatLeaves CK ++ (flatLeaves X ++ flatLeaves RK) := by
      rw [List.cons_append, flatLeaves_cons_inner _ _ ha', flatLeaves_append, flatLeaves_append,
        flatLeaves_cons_inner _ _ hb', List.append_assoc]
    rw [e2, ← e1]
    exact hc

/-- a borrow from the left sibling between two inner nodes: the last child subtree `X` of
    the left node moves to the front of the right node's children -/
theorem Rw.rotL (a b : Nat) (sa sa' sb sb' : Shallow K V) (LK X CK : List (Nat × Shallow K V))
    (ha : sa.height ≠ 0) (ha' : sa'.height ≠ 0) (hb : sb.height ≠ 0) (hb' : sb'.height ≠ 0)
    (hn : (((a, sa) :: (LK ++ X) ++ (b, sb) :: CK).map Prod.fst).Nodup) :
    Rw [a, b] [(a, sa'), (b, sb')] ((a, sa) :: (LK ++ X) ++ (b, sb) :: CK)
      ((a, sa') :: LK ++ (b, sb') :: (X ++ CK)) := by
  have hn' : (a :: ((LK ++ X).map Prod.fst ++ b :: CK.map Prod.fst)).Nodup := by
    simpa using hn
  obtain ⟨_, hsep⟩ := nodup_two hn'
  have hold : ∀ e, e ∈ LK ∨ e ∈ X ∨ e ∈ CK → e.1 ∉ [a, b] := by
    intro e he
    have : e.1 ≠ a ∧ e.1 ≠ b := by
      apply hsep
      rcases he with he | he | he
      · exact Or.inl (fst_mem (List.mem_append_left _ he))
      · exact Or.inl (fst_mem (List.mem_append_right _ he))
      · exact Or.inr (fst_mem he)
    simp [this.1, this.2]
  refine ⟨⟨_, ?_, List.Sublist.refl _⟩, ?_, ?_, ?_, ?_⟩
  · simp only [List.map_cons, List.map_append, List.cons_append, List.append_assoc]
    refine List.Perm.cons _ (List.Perm.append_left _ ?_)
    have h1 : (List.map Prod.fst X ++ b :: List.map Prod.fst CK).Perm (b :: (List.map Prod.fst X ++ List.map Prod.fst CK)) :=
      List.perm_middle
    exact h1.symm
  · intro e he
    simp only [List.cons_append, List.mem_cons, List.mem_append] at he
    rcases he with he | he | he | he | he
    · left; simp [he]
    · right; exact ⟨by simp [he], hold e (Or.inl he)⟩
    · left; simp [he]
    · right; exact ⟨by simp [he], hold e (Or.inr (Or.inl he))⟩
    · right; exact ⟨by simp [he], hold e (Or.inr (Or.inr he))⟩
  · intro x hx
    simp only [List.mem_cons, List.not_mem_nil, or_false] at hx
    rcases hx with rfl | rfl <;> simp
  · intro keep hk
    have h1 : keep a = false := hk a (by simp)
    have h2 : keep b = false := hk b (by simp)
    simp [List.filter_append, h1, h2]
  · intro X' Y hc
    have e1 : flatLeaves ((a, sa) :: (LK ++ X) ++ (b, sb) :: CK) = flatLeaves LK ++ (flatLeaves X ++ flatLeaves CK) := by
      rw [List.cons_append, flatLeaves_cons_inner _ _ ha, flatLeaves_append, flatLeaves_append,
        flatLeaves_cons_inner _ _ hb, List.append_assoc]
    have e2 : flatLeaves ((a, sa') :: LK ++ (b, sb') :: (X ++ CK)) = flatLeaves LK ++ (flatLeaves X ++ flatLeaves CK) := by
      rw [List.cons_append, flatLeaves_cons_inner _ _ ha', flatLeaves_append, flatLeaves_cons_inner _ _ hb',
        flatLeaves_append]
    rw [e2, ← e1]
    exact hc

/-- two inner nodes merged: the right node's entry disappears, its children follow the left node's -/
theorem Rw.mergeInner (a b : Nat) (sa sa' sb : Shallow K V) (AK BK : List (Nat × Shallow K V))
    (ha : sa.height ≠ 0) (ha' : sa'.height ≠ 0) (hb : sb.height ≠ 0)
    (hn : (((a, sa) :: AK ++ (b, sb) :: BK).map Prod.fst).Nodup) :
    Rw [a, b] [(a, sa')] ((a, sa) :: AK ++ (b, sb) :: BK) ((a, sa') :: (AK ++ BK)) := by
  have hn' : (a :: (AK.map Prod.fst ++ b :: BK.map Prod.fst)).Nodup := by
    simpa using hn
  obtain ⟨_, hsep⟩ := nodup_two hn'
  have hold : ∀ e, e ∈ AK ∨ e ∈ BK → e.1 ∉ [a, b] := by
    intro e he
    have : e.1 ≠ a ∧ e.1 ≠ b := by
      apply hsep
      rcases he with he | he
      · exact Or.inl (fst_mem he)
      · exact Or.inr (fst_mem he)
    simp [this.1, this.2]
  refine ⟨⟨_, List.Perm.refl _, ?_⟩, ?_, ?_, ?_, ?_⟩
  · simp only [List.map_cons, List.map_append, List.cons_append]
    exact List.Sublist.cons_cons _ (List.Sublist.append (List.Sublist.refl _) (List.sublist_cons_self _ _))
  · intro e he
    simp only [List.mem_cons, List.mem_append] at he
    rcases he with he | he | he
    · left; simp [he]
    · right; exact ⟨by simp [he], hold e (Or.inl he)⟩
    · right; exact ⟨by simp [he], hold e (Or.inr he)⟩
  · intro x hx
    simp only [List.mem_cons, List.not_mem_nil, or_false] at hx
    rcases hx with rfl | rfl <;> simp
  · intro keep hk
    have h1 : keep a = false := hk a (by simp)
    have h2 : keep b = false := hk b (by simp)
    simp [List.filter_append, h1, h2]
  · intro X' Y hc
    have e1 : flatLeaves ((a, sa) :: AK ++ (b, sb) :: BK) = flatLeaves AK ++ flatLeaves BK := by
      rw [List.cons_append, flatLeaves_cons_inner _ _ ha, flatLeaves_append, flatLeaves_cons_inner _ _ hb]
    have e2 : flatLeaves ((a, sa') :: (AK ++ BK)) = flatLeaves AK ++ flatLeaves BK := by
      rw [flatLeaves_cons_inner _ _ ha', flatLeaves_append]
    rw [e2, ← e1]
    exact hc

/-- two leaves merged -/
theorem Rw.mergeLeaf (a b : Nat) (sa sa' sb : Shallow K V)
    (ha : sa.height = 0) (ha' : sa'.height = 0) (hb : sb.height = 0) (hn : sa'.next = sb.next) :
    Rw [a, b] [(a, sa')] [(a, sa), (b, sb)] [(a, sa')] := by
  refine ⟨⟨_, List.Perm.refl _, ?_⟩, fun e he => Or.inl he, ?_, ?_, ?_⟩
  · simp only [List.map_cons, List.map_nil]
    exact List.Sublist.cons_cons _ (List.nil_sublist _)
  · intro x hx
    simp only [List.mem_cons, List.not_mem_nil, or_false] at hx
    rcases hx with rfl | rfl <;> simp
  · intro keep hk
    have h1 : keep a = false := hk a (by simp)
    have h2 : keep b = false := hk b (by simp)
    simp [h1, h2]
  · have e1 : flatLeaves [(a, sa), (b, sb)] = [(a, sa), (b, sb)] := by
      rw [flatLeaves_cons_leaf _ _ ha, flatLeaves_cons_leaf _ _ hb]; rfl
    have e2 : flatLeaves [(a, sa')] = [(a, sa')] := by
      rw [flatLeaves_cons_leaf _ _ ha']; rfl
    rw [e1, e2]
    exact chain_merge (a, sa) (b, sb) (a, sa') rfl hn

/-- the head of the window is dropped (root collapse); it is not a leaf -/
theorem Rw.dropHead (a : Nat) (sa : Shallow K V) (W : List (Nat × Shallow K V)) (ha : sa.height ≠ 0)
    (hn : (((a, sa) :: W).map Prod.fst).Nodup) :
    Rw [a] [] ((a, sa) :: W) W := by
  rw [List.map_cons, List.nodup_cons] at hn
  refine ⟨⟨_, List.Perm.refl _, ?_⟩, ?_, ?_, ?_, ?_⟩
  · simp only [List.map_cons]
    exact List.sublist_cons_self _ _
  · intro e he
    refine Or.inr ⟨List.mem_cons_of_mem _ he, ?_⟩
    intro hx
    simp only [List.mem_cons, List.not_mem_nil, or_false] at hx
    have := fst_mem he
    rw [hx] at this
    exact hn.1 this
  · intro x hx
    simp only [List.mem_cons, List.not_mem_nil, or_false] at hx
    subst hx; simp
  · intro keep hk
    have h1 : keep a = false := hk a (by simp)
    simp [h1]
  · intro X Y hc
    rw [flatLeaves_cons_inner _ _ ha] at hc
    exact hc

/-! ### consequences of a rewrite -/

theorem Rw.nodup {wr : List Nat} {new W W' : List (Nat × Shallow K V)} (h : Rw wr new W W')
    (hn : (W.map Prod.fst).Nodup) : (W'.map Prod.fst).Nodup := by
  obtain ⟨M, p, s⟩ := h.ids
  exact (p.nodup_iff).2 (hn.sublist s)

theorem Rw.idmem {wr : List Nat} {new W W' : List (Nat × Shallow K V)} (h : Rw wr new W W')
    (x : Nat) (hx : x ∈ W'.map Prod.fst) : x ∈ W.map Prod.fst := by
  obtain ⟨M, p, s⟩ := h.ids
  exact s.subset ((p.mem_iff).1 hx)

theorem Rw.frameEq {wr : List Nat} {new W W' : List (Nat × Shallow K V)} (h : Rw wr new W W')
    (keep : Nat → Bool) (hk : ∀ x ∈ wr, keep x = false) : FrameEq keep W W' := h.frame keep hk

/-- an identity that is not written keeps its own fields -/
theorem Rw.lookup {wr : List Nat} {new W W' : List (Nat × Shallow K V)} (h : Rw wr new W W')
    (x : Nat) (hx : x ∉ wr) : W.lookup x = W'.lookup x := by
  apply FrameEq.lookup (h.frameEq (fun y => decide (y ∉ wr)) (by intro y hy; simp [hy])) x
  simp [hx]

/-- entries are determined by their identity -/
theorem entry_eq_of_nodup {W : List (Nat × Shallow K V)} (hn : (W.map Prod.fst).Nodup)
    {e e' : Nat × Shallow K V} (h : e ∈ W) (h' : e' ∈ W) (hid : e.1 = e'.1) : e = e' := by
  obtain ⟨a, b⟩ := e
  obtain ⟨a', b'⟩ := e'
  simp only at hid
  subst hid
  have h1 := lookup_of_mem W a b hn h
  have h2 := lookup_of_mem W a b' hn h'
  rw [h1] at h2
  cases h2
  rfl

end Gobptree.Conc
