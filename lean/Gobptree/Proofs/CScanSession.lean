/-
  WHOLE-SCAN GUARANTEE: weak consistency of a scan under concurrent writers.

  Setting.  A run is the list of the configurations visited, newest first (`RunFrom init (c :: hist)`),
  under ANY schedule, for any family of disciplined programs.  A SESSION is thread `j` together with
  the index `a` of a `NewScanner(start)` in its program; a call `y` belongs to it (`InSess prog a y`)
  if `a < y` and every call of the thread after `a` up to `y` is `Scan`, `Pair` or a client pause
  (the cursor is not closed, no other one is opened).  Responses are read off the log:
  `Ev.note j (.ret y r) ∈ c.log`.  The INTERVAL of the session consists of the configurations `d` of
  the run with `nsReturned j a d` (the response of `NewScanner` is in `d.log`).

  Proved (one step of the scheduler may run several calls of the thread; the ghost invariant
  `ThInv` of `CScanSessionDefs` is carried through every single call and every step):
    (S1) `scan_session_sound`     every pair a `Pair` of the session returned was an entry of the map,
                                  with that value, in a configuration of the interval in whose log the
                                  response already stands;
    (S2) `scan_session_ge_start`  every returned key is `≥ start`;
         `scan_session_monotone`  successive `Pair`s never descend;
         `scan_session_strict`    across a `Scan` that returned `true` they strictly ascend;
    (S3) `scan_session_complete`  if the `Scan` at index `e` of the session returned `false`, and `Pair` is
                                  called between any two `Scan`s of the session up to `e` (client pauses —
                                  the points where other threads get to run between `Scan` and `Pair` — may
                                  sit anywhere), then every key
                                  `≥ start` that was in the map in EVERY configuration of the interval up to
                                  the current one has been returned by a `Pair` of the session before `e`
                                  (`scan_session_complete_upto`: the interval may end at the configuration
                                  in which `Scan` returned `false`, whatever the run does later);
    (S4) `scan_session_no_phantom` a key that is in the map in no configuration of the interval is never
                                  returned.
-/
import Gobptree.Proofs.CScanSessionStep

namespace Gobptree.Conc
open Gobptree

variable {K V : Type}

/-- the response of the session's `NewScanner` (thread `j`, call `a`) stands in the log of `d` -/
def nsReturned (j a : Nat) (d : Config K V) : Prop := Ev.note j (.ret a .ok) ∈ d.log

/-- key `k` is in the map in every configuration of the run in which `NewScanner` has returned -/
def AlwaysPresent (j a : Nat) (run : List (Config K V)) (k : K) : Prop :=
  ∀ d ∈ run, nsReturned j a d → ∃ v, (k, v) ∈ d.tree.abs

/-- the pair `(k, v)` returned by call `y` was an entry of the map in a configuration of the
    interval that already shows the response -/
def SoundAt (lt : K → K → Bool) (j a : Nat) (run : List (Config K V)) (y : Nat) (k : K) (v : V) : Prop :=
  ∃ d ∈ run, nsReturned j a d ∧ Ev.note j (.ret y (.pair k v)) ∈ d.log ∧ (k, v) ∈ d.tree.abs ∧
    Spec.lookup lt d.tree.abs k = some v

/-- the ghost parameters along a run -/
def runCtx (lt : K → K → Bool) (j a e : Nat) (start : K) (prog : List (COp K V)) (run : List (Config K V)) :
    SCtx K V :=
  { lt := lt, j := j, a := a, e := e, start := start, prog := prog,
    Sd := SoundAt lt j a run,
    KS := fun k => lt k start = false ∧ AlwaysPresent j a run k }

theorem SoundAt.cons {lt : K → K → Bool} {j a : Nat} {run : List (Config K V)} {y : Nat} {k : K} {v : V}
    (h : SoundAt lt j a run y k v) (c : Config K V) : SoundAt lt j a (c :: run) y k v := by
  obtain ⟨d, hd, h1⟩ := h
  exact ⟨d, List.mem_cons_of_mem _ hd, h1⟩

theorem AlwaysPresent.tail {j a : Nat} {run : List (Config K V)} {c : Config K V} {k : K}
    (h : AlwaysPresent j a (c :: run) k) : AlwaysPresent j a run k :=
  fun d hd => h d (List.mem_cons_of_mem _ hd)

section Full
variable (lt : K → K → Bool) (P : Params K) (tree : Tree K V) (progs : List (List (COp K V)))
  (hkp : KParams lt P) (ht : TreeOk none tree) (hord : OrdTree lt tree) (hsep : SepTree lt tree)
  (ho : tree.order = P.order) (hp : PadOk P) (hd : Disciplined progs)
  (hdel : 4 ≤ tree.order ∨ NoDelete progs)
include hkp ht hord hsep ho hp hd hdel

/-- **the ghost invariant holds along every run** -/
theorem run_thInv (j a e : Nat) (start : K) (prog : List (COp K V)) (hprog : progs[j]? = some prog)
    (hns : prog[a]? = some (.ns start)) {run : List (Config K V)}
    (hrun : RunFrom (Config.init P tree progs) run) :
    ∀ c hist, run = c :: hist →
      ∃ th, c.threads[j]? = some th ∧ ThInv (runCtx lt j a e start prog run) c.tree th (rets j c.log) := by
  have hdp : disciplined .N prog = true := hd prog (List.mem_of_getElem? hprog)
  have hnfp : ∀ y, a < y → (∀ x, a < x → x < y → prog[x]? = some .pause) → prog[y]? ≠ some .pair :=
    fun y hay hpz => disc_no_fresh_pair prog .N a y start hdp hns hay hpz
  induction hrun with
  | init =>
    intro c hist e0
    cases e0
    refine ⟨{ prog := prog, pc := 0, park := .start, held := [], cursor := none, exhausted := false }, ?_, rfl,
      LogOk.nil _, ?_⟩
    · simp [Config.init, hprog]
    · intro i r hm
      cases hm
  | @step c c' hist t hrun' hstep ih =>
    intro c0 hist0 e0
    cases e0
    obtain ⟨th, hth, hinvj⟩ := ih c hist rfl
    have hreach : Reachable (Config.init P tree progs) c := hrun'.reachable
    obtain ⟨hinv, hw⟩ := reachable_cursorPosW kblocks_ok lt P tree progs hkp ht hord hsep ho hp hd hdel c hreach
    have h' : KFInv lt c' := step_kfinv kblocks_ok lt c c' t hstep hinv
    by_cases htj : t = j
    · subst htj
      -- the parameters during the step: what is known at its end
      have ih' := hinvj.mono
        (fun y k v => SoundAt lt t a (c :: hist) y k v ∨ (k, v) ∈ c'.tree.abs)
        (fun k => (lt k start = false ∧ AlwaysPresent t a (c' :: c :: hist) k) ∧ nsReturned t a c')
        (fun _ _ _ _ _ h => Or.inl h)
        (fun _ k hk => ⟨hk.1.1, hk.1.2.tail⟩)
      obtain ⟨th', hth', hres⟩ := step_own_thInv
        (X := { runCtx lt t a e start prog (c :: hist) with
                Sd := fun y k v => SoundAt lt t a (c :: hist) y k v ∨ (k, v) ∈ c'.tree.abs,
                KS := fun k => (lt k start = false ∧ AlwaysPresent t a (c' :: c :: hist) k) ∧ nsReturned t a c' })
        c c' hstep hinv hw hns hnfp
        (fun k hk => ⟨hk.1.1, hk.1.2 c' List.mem_cons_self hk.2⟩)
        (fun _ _ _ h => Or.inr h) hth ih'
      refine ⟨th', hth', ?_⟩
      have hfin := hres.mono (SoundAt lt t a (c' :: c :: hist))
        (fun k => lt k start = false ∧ AlwaysPresent t a (c' :: c :: hist) k)
        (by
          intro y k v hy hnsr hsd
          rcases hsd with hsd | hmem
          · exact hsd.cons c'
          · exact ⟨c', List.mem_cons_self, mem_rets.1 hnsr, mem_rets.1 hy, hmem,
              lookup_of_mem_sorted h'.kp.swo _
                (Tree.abs_sorted h'.kp.swo (parTree_of_treeOk h'.cinv.s.tree) h'.kinv.ord) k v hmem⟩)
        (fun hnsr k hk => ⟨hk, mem_rets.1 hnsr⟩)
      exact hfin
    · obtain ⟨hth', hres⟩ := step_other_thInv (X := runCtx lt j a e start prog (c :: hist)) c c' t
        (fun h => htj h.symm) hstep hinv hth hinvj
      refine ⟨th, hth', ?_⟩
      have hfin := hres.mono (SoundAt lt j a (c' :: c :: hist))
        (fun k => lt k start = false ∧ AlwaysPresent j a (c' :: c :: hist) k)
        (fun _ _ _ _ _ h => h.cons c')
        (fun _ k hk => ⟨hk.1, hk.2.tail⟩)
      exact hfin

/-- the log facts of a session, in every configuration of every run -/
theorem run_logOk (j a e : Nat) (start : K) (prog : List (COp K V)) (hprog : progs[j]? = some prog)
    (hns : prog[a]? = some (.ns start)) {c : Config K V} {hist : List (Config K V)}
    (hrun : RunFrom (Config.init P tree progs) (c :: hist)) :
    LogOk (runCtx lt j a e start prog (c :: hist)) (rets j c.log) := by
  obtain ⟨_, _, h⟩ := run_thInv lt P tree progs hkp ht hord hsep ho hp hd hdel j a e start prog hprog hns hrun
    c hist rfl
  exact h.2.1

/-- **(S1) soundness.**  A pair returned by a `Pair` of the session was an entry of the map, with
    that value, in a configuration of the session's interval that already shows the response. -/
theorem scan_session_sound (j a : Nat) (start : K) (prog : List (COp K V)) (hprog : progs[j]? = some prog)
    (hns : prog[a]? = some (.ns start)) {c : Config K V} {hist : List (Config K V)}
    (hrun : RunFrom (Config.init P tree progs) (c :: hist))
    {y : Nat} {k : K} {v : V} (hy : InSess prog a y) (hret : Ev.note j (.ret y (.pair k v)) ∈ c.log) :
    ∃ d ∈ c :: hist, nsReturned j a d ∧ Ev.note j (.ret y (.pair k v)) ∈ d.log ∧ (k, v) ∈ d.tree.abs ∧
      Spec.lookup lt d.tree.abs k = some v :=
  ((run_logOk lt P tree progs hkp ht hord hsep ho hp hd hdel j a 0 start prog hprog hns hrun).s1 y k v
    (mem_rets.2 hret) hy).2

/-- **(S2) every returned key is `≥ start`.** -/
theorem scan_session_ge_start (j a : Nat) (start : K) (prog : List (COp K V)) (hprog : progs[j]? = some prog)
    (hns : prog[a]? = some (.ns start)) {c : Config K V} {hist : List (Config K V)}
    (hrun : RunFrom (Config.init P tree progs) (c :: hist))
    {y : Nat} {k : K} {v : V} (hy : InSess prog a y) (hret : Ev.note j (.ret y (.pair k v)) ∈ c.log) :
    lt k start = false :=
  (run_logOk lt P tree progs hkp ht hord hsep ho hp hd hdel j a 0 start prog hprog hns hrun).s2a y k v
    (mem_rets.2 hret) hy

/-- **(S2) successive `Pair`s never descend.** -/
theorem scan_session_monotone (j a : Nat) (start : K) (prog : List (COp K V)) (hprog : progs[j]? = some prog)
    (hns : prog[a]? = some (.ns start)) {c : Config K V} {hist : List (Config K V)}
    (hrun : RunFrom (Config.init P tree progs) (c :: hist))
    {x y : Nat} {k k' : K} {v v' : V} (hax : a < x) (hxy : x < y) (hy : InSess prog a y)
    (hx : Ev.note j (.ret x (.pair k v)) ∈ c.log) (hret : Ev.note j (.ret y (.pair k' v')) ∈ c.log) :
    lt k' k = false :=
  (run_logOk lt P tree progs hkp ht hord hsep ho hp hd hdel j a 0 start prog hprog hns hrun).s2b x y k v k' v'
    (mem_rets.2 hx) (mem_rets.2 hret) hax hxy hy

/-- **(S2) across a `Scan` that returned `true` the keys strictly ascend.** -/
theorem scan_session_strict (j a : Nat) (start : K) (prog : List (COp K V)) (hprog : progs[j]? = some prog)
    (hns : prog[a]? = some (.ns start)) {c : Config K V} {hist : List (Config K V)}
    (hrun : RunFrom (Config.init P tree progs) (c :: hist))
    {x z y : Nat} {k k' : K} {v v' : V} (hax : a < x) (hxz : x < z) (hzy : z < y) (hy : InSess prog a y)
    (hx : Ev.note j (.ret x (.pair k v)) ∈ c.log) (hz : Ev.note j (.ret z (.bool true)) ∈ c.log)
    (hret : Ev.note j (.ret y (.pair k' v')) ∈ c.log) :
    lt k k' = true :=
  (run_logOk lt P tree progs hkp ht hord hsep ho hp hd hdel j a 0 start prog hprog hns hrun).s2c x z y k v k' v'
    (mem_rets.2 hx) (mem_rets.2 hz) (mem_rets.2 hret) hax hxz hzy hy

/-- **(S3) completeness.**  The `Scan` at index `e` of the session has returned `false`; between any two
    `Scan`s of the session up to `e` there is a `Pair`.  Then every key `≥ start` that was in the
    map in every configuration from the return of `NewScanner` on has been returned by a `Pair` of the
    session before `e`. -/
theorem scan_session_complete (j a e : Nat) (start : K) (prog : List (COp K V)) (hprog : progs[j]? = some prog)
    (hns : prog[a]? = some (.ns start)) {c : Config K V} {hist : List (Config K V)}
    (hrun : RunFrom (Config.init P tree progs) (c :: hist))
    (hae : a < e) (hseg : CurOps prog a e) (hscan : prog[e]? = some .scan)
    (hshape : ∀ i m, a < i → i < m → m ≤ e → prog[i]? = some .scan → prog[m]? = some .scan →
      ∃ x, i < x ∧ x < m ∧ prog[x]? = some .pair)
    (hfalse : Ev.note j (.ret e (.bool false)) ∈ c.log)
    (k : K) (hk : lt k start = false)
    (hpres : ∀ d ∈ c :: hist, nsReturned j a d → ∃ v, (k, v) ∈ d.tree.abs) :
    ∃ x v, a < x ∧ x < e ∧ Ev.note j (.ret x (.pair k v)) ∈ c.log := by
  obtain ⟨x, v, h1, h2, h3⟩ :=
    (run_logOk lt P tree progs hkp ht hord hsep ho hp hd hdel j a e start prog hprog hns hrun).s3
      ⟨hae, hseg, hscan, hshape⟩ (mem_rets.2 hfalse) k ⟨hk, hpres⟩
  exact ⟨x, v, h1, h2, mem_rets.1 h3⟩

/-- **(S3), with the interval ending where `Scan` returned `false`**: `c` is any configuration of a
    longer run whose log shows the response `false` (e.g. the first one); presence is only required
    up to `c`, and the pairs have been returned by then. -/
theorem scan_session_complete_upto (j a e : Nat) (start : K) (prog : List (COp K V)) (hprog : progs[j]? = some prog)
    (hns : prog[a]? = some (.ns start)) (later : List (Config K V)) {c : Config K V} {hist : List (Config K V)}
    (hrun : RunFrom (Config.init P tree progs) (later ++ c :: hist))
    (hae : a < e) (hseg : CurOps prog a e) (hscan : prog[e]? = some .scan)
    (hshape : ∀ i m, a < i → i < m → m ≤ e → prog[i]? = some .scan → prog[m]? = some .scan →
      ∃ x, i < x ∧ x < m ∧ prog[x]? = some .pair)
    (hfalse : Ev.note j (.ret e (.bool false)) ∈ c.log)
    (k : K) (hk : lt k start = false)
    (hpres : ∀ d ∈ c :: hist, nsReturned j a d → ∃ v, (k, v) ∈ d.tree.abs) :
    ∃ x v, a < x ∧ x < e ∧ Ev.note j (.ret x (.pair k v)) ∈ c.log :=
  scan_session_complete lt P tree progs hkp ht hord hsep ho hp hd hdel j a e start prog hprog hns
    (RunFrom.tail later hrun) hae hseg hscan hshape hfalse k hk hpres

/-- **(S3), the session hypothesis discharged by the client discipline**: it suffices that the cursor
    is not closed before the exhausting `Scan`. -/
theorem scan_session_complete_not_closed (j a e : Nat) (start : K) (prog : List (COp K V))
    (hprog : progs[j]? = some prog)
    (hns : prog[a]? = some (.ns start)) {c : Config K V} {hist : List (Config K V)}
    (hrun : RunFrom (Config.init P tree progs) (c :: hist))
    (hae : a < e) (hnc : ∀ x, a < x → x < e → prog[x]? ≠ some .close) (hscan : prog[e]? = some .scan)
    (hshape : ∀ i m, a < i → i < m → m ≤ e → prog[i]? = some .scan → prog[m]? = some .scan →
      ∃ x, i < x ∧ x < m ∧ prog[x]? = some .pair)
    (hfalse : Ev.note j (.ret e (.bool false)) ∈ c.log)
    (k : K) (hk : lt k start = false)
    (hpres : ∀ d ∈ c :: hist, nsReturned j a d → ∃ v, (k, v) ∈ d.tree.abs) :
    ∃ x v, a < x ∧ x < e ∧ Ev.note j (.ret x (.pair k v)) ∈ c.log := by
  have hdp : disciplined .N prog = true := hd prog (List.mem_of_getElem? hprog)
  have hel : e ≤ prog.length := Nat.le_of_lt (List.getElem?_eq_some_iff.1 hscan).1
  exact scan_session_complete lt P tree progs hkp ht hord hsep ho hp hd hdel j a e start prog hprog hns hrun hae
    (curOps_of_not_closed prog .N a e start hdp hns hel hnc) hscan hshape hfalse k hk hpres

/-- **(S4) no phantom.**  A key that is in the map in no configuration of the session's interval is
    never returned by a `Pair` of the session. -/
theorem scan_session_no_phantom (j a : Nat) (start : K) (prog : List (COp K V)) (hprog : progs[j]? = some prog)
    (hns : prog[a]? = some (.ns start)) {c : Config K V} {hist : List (Config K V)}
    (hrun : RunFrom (Config.init P tree progs) (c :: hist)) (k : K)
    (habs : ∀ d ∈ c :: hist, nsReturned j a d → ∀ v, (k, v) ∉ d.tree.abs)
    {y : Nat} {v : V} (hy : InSess prog a y) : Ev.note j (.ret y (.pair k v)) ∉ c.log := by
  intro hret
  obtain ⟨d, hd', hnsr, _, hmem, _⟩ :=
    scan_session_sound lt P tree progs hkp ht hord hsep ho hp hd hdel j a start prog hprog hns hrun hy hret
  exact habs d hd' hnsr v hmem

end Full

end Gobptree.Conc

#print axioms Gobptree.Conc.run_thInv
#print axioms Gobptree.Conc.scan_session_sound
#print axioms Gobptree.Conc.scan_session_ge_start
#print axioms Gobptree.Conc.scan_session_monotone
#print axioms Gobptree.Conc.scan_session_strict
#print axioms Gobptree.Conc.scan_session_complete
#print axioms Gobptree.Conc.scan_session_complete_upto
#print axioms Gobptree.Conc.scan_session_complete_not_closed
#print axioms Gobptree.Conc.scan_session_no_phantom
