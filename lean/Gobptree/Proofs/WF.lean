/-
  The shape invariant `WF` (every clause of C08, plus the lower-bound clause
  that makes separators sound under the pre-emptive "lower the first
  separator" update) and the abstraction `pairs`.
-/
import Gobptree.Ops
import Gobptree.Spec
import Gobptree.Proofs.Order
import Gobptree.Proofs.SpecLemmas

namespace Gobptree

variable {K V : Type}

/-- `lo ≤ k` for an optional lower bound -/
def leO (lt : K → K → Bool) (lo : Option K) (k : K) : Prop :=
  match lo with
  | none => True
  | some l => lt k l = false

/-- `k < hi` for an optional upper bound -/
def ltO (lt : K → K → Bool) (k : K) (hi : Option K) : Prop :=
  match hi with
  | none => True
  | some h => lt k h = true

/-- upper bound of the entry in front of `rest`: the next separator, or `hi` -/
def nextLo {C : Type} (hi : Option K) : List (K × C) → Option K
  | [] => hi
  | (k, _) :: _ => some k

/-- children with their separators: child `c` with separator `k` satisfies `R`
    between `k` and the next separator (or `hi`), separators strictly ascend -/
def Kids {C : Type} (lt : K → K → Bool) (R : Option K → Option K → C → Prop) (hi : Option K) :
    List (K × C) → Prop
  | [] => True
  | (k, c) :: rest => R (some k) (nextLo hi rest) c ∧ ltO lt k (nextLo hi rest) ∧ Kids lt R hi rest

/-- `WF lt o m d lo hi n`: node `n` of height `d` is well formed for order `o`,
    holds at least `m` entries, and all its keys lie in `[lo, hi)`. -/
def WF (lt : K → K → Bool) (o : Nat) : (d : Nat) → Nat → Option K → Option K → Node K V d → Prop
  | 0, m, lo, hi, (l : Leaf K V) =>
    Sorted lt l.keys ∧ l.keys.length = l.vals.length ∧ l.keys.length ≤ o ∧ m ≤ l.keys.length ∧
    (∀ k ∈ l.keys, leO lt lo k ∧ ltO lt k hi)
  | d + 1, m, lo, hi, (i : Inner K (Node K V d)) =>
    i.runts.length = i.kids.length ∧ i.runts.length ≤ o ∧ m ≤ i.runts.length ∧ 1 ≤ i.runts.length ∧
    (∀ k, i.runts.head? = some k → leO lt lo k) ∧
    Kids lt (fun a b c => WF lt o d (o / 2) a b c) hi (i.runts.zip i.kids)

/-- in-order key/value pairs below a node -/
def Node.pairs : {d : Nat} → Node K V d → List (K × V)
  | 0, (l : Leaf K V) => l.keys.zip l.vals
  | d + 1, (i : Inner K (Node K V d)) => i.kids.flatMap (Node.pairs (d := d))

/-- minimum occupancy demanded of a root of height `d` -/
def rootMin : Nat → Nat
  | 0 => 0
  | _ + 1 => 2

/-- the tree-level invariant -/
def TreeWF (lt : K → K → Bool) (t : Tree K V) : Prop :=
  WF lt t.order t.depth (rootMin t.depth) none none t.root

theorem Tree.abs_eq_pairs (t : Tree K V) : t.abs = Node.pairs t.root := by
  unfold Tree.abs
  suffices h : ∀ (d : Nat) (n : Node K V d),
      (Node.leaves n).flatMap (fun l => l.keys.zip l.vals) = Node.pairs n from h _ _
  intro d
  induction d with
  | zero => intro n; exact List.append_nil _
  | succ d ih =>
    intro n
    simp only [Node.leaves, Node.pairs, List.flatMap_assoc]
    congr 1
    funext c
    exact ih c

end Gobptree
