/-
  Interface for the key-order block lemmas: what one stretch of a continuation does to the
  ordering invariant, to the abstract map, and to the positions of the other threads.
-/
import Gobptree.Proofs.CKDefs

namespace Gobptree.Conc
open Gobptree

variable {K V : Type}

/-- the flow ends a Delete's descent: the key has been removed from its leaf -/
def postLeaf : Flow K V → Prop
  | .done _ => True
  | .park (.want _ (.delRight _ _ _ _ _)) => True
  | _ => False

/-- abstract effect of one stretch of continuation `k` run by thread `t` -/
def AbsEffect (lt : K → K → Bool) (t : Nat) (k : Kont K V) (s s' : St K V) (fl : Flow K V) : Prop :=
  match k with
  | .roNode false key _ _ =>
    s'.tree.abs = s.tree.abs ∧ ∀ v, fl = .done (.found v) → v = Spec.lookup lt s.tree.abs key
  | .upRoot key f _ _ | .upRootSib key f _ _ _ | .upChild key f _ _ _ _ | .upSib key f _ _ _ _ =>
    (∀ r, fl = .done r → s'.tree.abs = Spec.update lt s.tree.abs key f) ∧
    (∀ p, fl = .park p → s'.tree.abs = s.tree.abs) ∧
    (∀ arg, Ev.note t (.cb arg) ∈ s'.evs → Ev.note t (.cb arg) ∈ s.evs ∨ arg = Spec.lookup lt s.tree.abs key)
  | .upCallback key f _ arg =>
    s'.tree.abs = Spec.update lt s.tree.abs key f ∧ arg = Spec.lookup lt s.tree.abs key
  | .delRoot key _ | .delChild key _ _ _ _ _ _ =>
    (postLeaf fl → s'.tree.abs = Spec.erase lt s.tree.abs key) ∧
    (¬ postLeaf fl → s'.tree.abs = s.tree.abs)
  | _ => s'.tree.abs = s.tree.abs

/-- positions of nodes the stepping thread does not hold survive the stretch -/
def StableRoutes (lt : K → K → Bool) (H : List Lk) (t t' : Tree K V) : Prop :=
  ∀ key id, id < t.nextId → Lk.node id ∉ H →
    (OnRoute lt t key id → OnRoute lt t' key id) ∧ (InBounds lt t key id → InBounds lt t' key id)

/-- for a Delete's stretch: only the positions of threads that are inside their node's
    interval are guaranteed (a reader clamped to child 0 with a key below the interval may be
    re-routed by a borrow or merge; excluded by the separator invariant, stage C) -/
def StableBounds (lt : K → K → Bool) (H : List Lk) (t t' : Tree K V) : Prop :=
  ∀ key id, id < t.nextId → Lk.node id ∉ H → InBounds lt t key id → InBounds lt t' key id

structure KPost (lt : K → K → Bool) (t : Nat) (k : Kont K V) (s s' : St K V) (fl : Flow K V) : Prop where
  ord  : OrdTree lt s'.tree
  eff  : AbsEffect lt t k s s' fl
  kpos : ∀ p, fl = .park p → parkKPos lt s'.tree p

/-- Search / NewScanner / Insert / Update / hop / pause -/
def ResumeKU (K V : Type) : Prop :=
  ∀ (lt : K → K → Bool) (P : Params K) (t : Nat) (s : St K V) (k : Kont K V) (H : List Lk) (hole : Option Nat),
    isDelK k = false → KParams lt P → Pre P hole s → KontOk s.tree k →
    CursorOk s.tree (isHopK k) s.cursor → KontPre s.cursor k → Covers H s.cursor k →
    OrdTree lt s.tree → KPos lt s.tree k →
    KPost lt t k s (resume P t s k).1 (resume P t s k).2 ∧
    StableRoutes lt H s.tree (resume P t s k).1.tree

/-- Delete -/
def ResumeKD (K V : Type) : Prop :=
  ∀ (lt : K → K → Bool) (P : Params K) (t : Nat) (s : St K V) (k : Kont K V) (H : List Lk),
    isDelK k = true → 4 ≤ s.tree.order → KParams lt P → Pre P (kontHole k) s → KontOk s.tree k →
    KontPre s.cursor k → Covers H s.cursor k →
    OrdTree lt s.tree → KPos lt s.tree k →
    KPost lt t k s (resume P t s k).1 (resume P t s k).2 ∧
    StableBounds lt H s.tree (resume P t s k).1.tree

end Gobptree.Conc
