/-
  Key-order proofs for Delete, part 1: the interval `boundsOf` assigns to an identity, as an
  algebra over `Option.or`; `InBounds` is "the interval contains the key"; intervals of
  unwritten nodes only widen (`Widen`) ⇒ `StableBounds`.
-/
import Gobptree.Proofs.CKPar
import Gobptree.Proofs.CKBlock
import Gobptree.Proofs.CSDel

namespace Gobptree.Conc
open Gobptree

variable {K V : Type} {lt : K → K → Bool}

/-! ### order on bounds -/

theorem loLe_trans (h : SWO lt) {a b c : Option K} (h1 : loLe lt a b) (h2 : loLe lt b c) : loLe lt a c := by
  cases a with
  | none => trivial
  | some x =>
    cases b with
    | none => exact absurd h1 id
    | some y =>
      cases c with
      | none => exact absurd h2 id
      | some z => exact h.le_trans h1 h2

theorem hiLe_trans (h : SWO lt) {a b c : Option K} (h1 : hiLe lt a b) (h2 : hiLe lt b c) : hiLe lt a c := by
  cases c with
  | none => trivial
  | some z =>
    cases b with
    | none => exact absurd h2 id
    | some y =>
      cases a with
      | none => exact absurd h1 id
      | some x => exact h.le_trans h1 h2

/-- an interval, or absence, carried to the same or a wider interval, or absence -/
def OW (lt : K → K → Bool) (o o' : Option (Option K × Option K)) : Prop :=
  match o with
  | none => o' = none
  | some (a, b) => ∃ a' b', o' = some (a', b') ∧ loLe lt a' a ∧ hiLe lt b b'

theorem OW.refl (h : SWO lt) (o : Option (Option K × Option K)) : OW lt o o := by
  cases o with
  | none => rfl
  | some p => exact ⟨p.1, p.2, rfl, loLe_refl h _, hiLe_refl h _⟩

theorem OW.of_eq (h : SWO lt) {o o' : Option (Option K × Option K)} (e : o' = o) : OW lt o o' := by
  rw [e]; exact OW.refl h o

theorem OW.trans (h : SWO lt) {a b c : Option (Option K × Option K)} (h1 : OW lt a b) (h2 : OW lt b c) :
    OW lt a c := by
  cases a with
  | none =>
    have : b = none := h1
    subst this
    exact h2
  | some p =>
    obtain ⟨a', b', rfl, l1, l2⟩ := h1
    obtain ⟨a'', b'', rfl, l3, l4⟩ := h2
    exact ⟨a'', b'', rfl, loLe_trans h l3 l1, hiLe_trans h l2 l4⟩

theorem OW.or {a a' b b' : Option (Option K × Option K)} (h1 : OW lt a a') (h2 : OW lt b b') :
    OW lt (a.or b) (a'.or b') := by
  cases a with
  | none =>
    have : a' = none := h1
    subst this
    exact h2
  | some p =>
    obtain ⟨x, y, rfl, l1, l2⟩ := h1
    exact ⟨x, y, rfl, l1, l2⟩

theorem OW.some {a b : Option K} {o' : Option (Option K × Option K)} (h : OW lt (some (a, b)) o') :
    ∃ a' b', o' = some (a', b') ∧ loLe lt a' a ∧ hiLe lt b b' := h

/-! ### `firstE` as an `Option.or` -/

theorem nextLo_append {C : Type} (hi : Option K) (l r : List (K × C)) :
    nextLo hi (l ++ r) = nextLo (nextLo hi r) l := by
  cases l <;> rfl

theorem firstE_cons_or {C β : Type} (g : Option K → Option K → C → Option β) (hi : Option K)
    (k : K) (c : C) (rest : List (K × C)) :
    firstE g hi ((k, c) :: rest) = (g (some k) (nextLo hi rest) c).or (firstE g hi rest) := by
  simp only [firstE]
  cases g (some k) (nextLo hi rest) c <;> rfl

theorem firstE_nil {C β : Type} (g : Option K → Option K → C → Option β) (hi : Option K) :
    firstE g hi ([] : List (K × C)) = none := rfl

theorem firstE_append_or {C β : Type} (g : Option K → Option K → C → Option β) (hi : Option K)
    (l r : List (K × C)) :
    firstE g hi (l ++ r) = (firstE g (nextLo hi r) l).or (firstE g hi r) := by
  induction l with
  | nil => rfl
  | cons e l ih =>
    obtain ⟨k, c⟩ := e
    rw [List.cons_append, firstE_cons_or, firstE_cons_or, ih, nextLo_append, Option.or_assoc]

theorem firstE_none {C β : Type} (g : Option K → Option K → C → Option β) (hi : Option K)
    (l : List (K × C)) (hl : ∀ e ∈ l, ∀ a b, g a b e.2 = none) : firstE g hi l = none := by
  have := firstE_append g hi l [] hl
  rw [List.append_nil] at this
  exact this

theorem firstE_mono {C : Type} (h : SWO lt) (g : Option K → Option K → C → Option (Option K × Option K))
    (es : List (K × C))
    (hg : ∀ e ∈ es, ∀ a b b', hiLe lt b b' → OW lt (g a b e.2) (g a b' e.2))
    {hi hi2 : Option K} (hh : hiLe lt hi hi2) : OW lt (firstE g hi es) (firstE g hi2 es) := by
  induction es with
  | nil => rfl
  | cons e es ih =>
    obtain ⟨k, c⟩ := e
    rw [firstE_cons_or, firstE_cons_or]
    apply OW.or
    · apply hg (k, c) (by simp)
      cases es with
      | nil => exact hh
      | cons e2 es2 => exact hiLe_refl h _
    · exact ih (fun e he => hg e (by simp [he]))

/-! ### presence -/

theorem mem_zip_of_mem_right {α β : Type} (r : List α) (c : List β) (hlen : r.length = c.length)
    (x : β) (hx : x ∈ c) : ∃ k, (k, x) ∈ r.zip c := by
  obtain ⟨j, hj, e⟩ := List.getElem_of_mem hx
  have hjr : j < r.length := by omega
  refine ⟨r[j], ?_⟩
  have : (r.zip c)[j]'(by simp; omega) = (r[j], c[j]) := by simp
  rw [← e, ← this]
  exact List.getElem_mem _

theorem firstE_some_of_mem {C β : Type} (g : Option K → Option K → C → Option β) (hi : Option K)
    (es : List (K × C)) (e : K × C) (he : e ∈ es) (hg : ∀ a b, g a b e.2 ≠ none) :
    ∃ bd, firstE g hi es = some bd := by
  induction es with
  | nil => cases he
  | cons e0 es ih =>
    obtain ⟨k, c⟩ := e0
    rw [firstE_cons_or]
    cases hgc : g (some k) (nextLo hi es) c with
    | some bd => exact ⟨bd, rfl⟩
    | none =>
      rcases List.mem_cons.1 he with rfl | he
      · exact absurd hgc (hg _ _)
      · simpa using ih he

theorem boundsOf_succ_ne (x : Nat) {d : Nat} (lo hi : Option K) (i : Inner K (Node K V d)) (hne : i.id ≠ x) :
    boundsOf x (d + 1) lo hi i = firstE (boundsOf x d) hi (i.runts.zip i.kids) := by
  show (if i.id = x then some (lo, hi) else firstE (boundsOf x d) hi (i.runts.zip i.kids)) = _
  simp only [hne, ↓reduceIte]

theorem boundsOf_zero_ne (x : Nat) (lo hi : Option K) (l : Leaf K V) (hne : l.id ≠ x) :
    boundsOf (V := V) x 0 lo hi l = none := by
  show (if l.id = x then some (lo, hi) else none) = _
  simp only [hne, ↓reduceIte]

theorem boundsOf_present (x : Nat) : ∀ (d : Nat) (n : Node K V d) (lo hi : Option K),
    ParN d n → x ∈ idsOf n → ∃ bd, boundsOf x d lo hi n = some bd := by
  intro d
  induction d with
  | zero =>
    intro n lo hi _ hx
    rw [idsOf_zero n, List.mem_singleton] at hx
    exact ⟨_, boundsOf_zero_eq x lo hi n hx.symm⟩
  | succ d ih =>
    intro (n : Inner K (Node K V d)) lo hi hpar hx
    by_cases hid : n.id = x
    · exact ⟨_, boundsOf_succ_eq x lo hi n hid⟩
    · rw [boundsOf_succ_ne x lo hi n hid]
      rw [idsOf_succ n, List.mem_cons] at hx
      rcases hx with hx | hx
      · exact absurd hx.symm hid
      · obtain ⟨c, hc, hxc⟩ := List.mem_flatMap.1 hx
        obtain ⟨k, hk⟩ := mem_zip_of_mem_right n.runts n.kids hpar.1 c hc
        apply firstE_some_of_mem _ _ _ (k, c) hk
        intro a b hn
        obtain ⟨bd, hbd⟩ := ih c a b (hpar.2.2 c hc) hxc
        rw [hbd] at hn
        cases hn

theorem boundsOf_mem {x d : Nat} {lo hi : Option K} {n : Node K V d} {bd : Option K × Option K}
    (hb : boundsOf x d lo hi n = some bd) : x ∈ idsOf n := by
  apply Classical.byContradiction
  intro hc
  rw [boundsOf_absent x d lo hi n hc] at hb
  cases hb

/-! ### monotonicity in the outer interval -/

theorem boundsOf_mono (h : SWO lt) (x : Nat) : ∀ (d : Nat) (n : Node K V d) (lo hi lo2 hi2 : Option K),
    loLe lt lo2 lo → hiLe lt hi hi2 → OW lt (boundsOf x d lo hi n) (boundsOf x d lo2 hi2 n) := by
  intro d
  induction d with
  | zero =>
    intro (n : Leaf K V) lo hi lo2 hi2 h1 h2
    by_cases hid : n.id = x
    · rw [boundsOf_zero_eq x lo hi n hid, boundsOf_zero_eq x lo2 hi2 n hid]
      exact ⟨lo2, hi2, rfl, h1, h2⟩
    · rw [boundsOf_zero_ne x lo hi n hid, boundsOf_zero_ne x lo2 hi2 n hid]
      rfl
  | succ d ih =>
    intro (n : Inner K (Node K V d)) lo hi lo2 hi2 h1 h2
    by_cases hid : n.id = x
    · rw [boundsOf_succ_eq x lo hi n hid, boundsOf_succ_eq x lo2 hi2 n hid]
      exact ⟨lo2, hi2, rfl, h1, h2⟩
    · rw [boundsOf_succ_ne x lo hi n hid, boundsOf_succ_ne x lo2 hi2 n hid]
      apply firstE_mono h _ _ _ h2
      intro e _ a b b' hb
      exact ih e.2 a b a b' (loLe_refl h a) hb

/-! ### an inner node decomposed at one kid -/

theorem boundsOf_decomp (x : Nat) {d : Nat} (lo hi : Option K) (nid : Nat) (rA rB : List K) (k : K)
    (A B : List (Node K V d)) (c : Node K V d) (hne : nid ≠ x) (hl : rA.length = A.length) :
    boundsOf x (d + 1) lo hi (Inner.mk nid (rA ++ k :: rB) (A ++ c :: B) : Inner K (Node K V d)) =
      (firstE (boundsOf x d) (some k) (rA.zip A)).or
        ((boundsOf x d (some k) (nextLo hi (rB.zip B)) c).or (firstE (boundsOf x d) hi (rB.zip B))) := by
  rw [boundsOf_succ_ne x lo hi _ hne]
  show firstE (boundsOf x d) hi ((rA ++ k :: rB).zip (A ++ c :: B)) = _
  rw [zip_decomp _ _ _ _ _ _ hl, firstE_append_or, firstE_cons_or]
  rfl

theorem idsOf_sub_of_find {id d d' : Nat} {n : Node K V d} {m : Node K V d'}
    (hf : findNode id d n = some ⟨d', m⟩) : ∀ x ∈ idsOf m, x ∈ idsOf n := by
  obtain ⟨_, L, R, hflat, _⟩ := find_modify_flat id d n d' m hf
  intro x hx
  show x ∈ (flat n).map Prod.fst
  rw [hflat]
  simp only [List.map_append, List.mem_append]
  exact Or.inl (Or.inr hx)

/-- **`boundsOf` under a rewrite of identity `id`.** -/
theorem boundsOf_modify (id : Nat) : ∀ (d : Nat) (n : Node K V d) (lo hi : Option K) (d' : Nat) (m : Node K V d')
    (lo' hi' : Option K),
    findNode id d n = some ⟨d', m⟩ → (idsOf n).Nodup → ParN d n → boundsOf id d lo hi n = some (lo', hi') →
    ∀ (f : (d : Nat) → Node K V d → Node K V d) (x : Nat),
      (x ∈ idsOf m → boundsOf x d lo hi n = boundsOf x d' lo' hi' m ∧
         boundsOf x d lo hi (modifyNode id f d n) = boundsOf x d' lo' hi' (f d' m)) ∧
      (x ∉ idsOf m → x ∉ idsOf (f d' m) →
         boundsOf x d lo hi (modifyNode id f d n) = boundsOf x d lo hi n) := by
  intro d
  induction d with
  | zero =>
    intro (n : Leaf K V) lo hi d' m lo' hi' hf hnd hpar hb f x
    have hf' : (if n.id = id then some (⟨0, n⟩ : AnyNode K V) else none) = some ⟨d', m⟩ := hf
    by_cases hid : n.id = id
    · simp only [hid, if_true, Option.some.injEq] at hf'
      cases hf'
      rw [boundsOf_zero_eq id lo hi n hid] at hb
      injection hb with hb
      injection hb with e1 e2
      subst e1; subst e2
      rw [modifyNode_zero_eq id f n hid]
      refine ⟨fun _ => ⟨rfl, rfl⟩, fun h1 h2 => ?_⟩
      rw [boundsOf_absent x 0 lo hi (f 0 n) h2, boundsOf_absent x 0 lo hi n h1]
    · simp [hid] at hf'
  | succ d ih =>
    intro (n : Inner K (Node K V d)) lo hi d' m lo' hi' hf hnd hpar hb f x
    by_cases hid : n.id = id
    · have hf' : (if n.id = id then some (⟨d + 1, n⟩ : AnyNode K V)
          else n.kids.findSome? (findNode id d)) = some ⟨d', m⟩ := hf
      simp only [hid, if_true, Option.some.injEq] at hf'
      cases hf'
      rw [boundsOf_succ_eq id lo hi n hid] at hb
      injection hb with hb
      injection hb with e1 e2
      subst e1; subst e2
      rw [modifyNode_succ_eq id f n hid]
      refine ⟨fun _ => ⟨rfl, rfl⟩, fun h1 h2 => ?_⟩
      rw [boundsOf_absent x (d + 1) lo hi (f (d + 1) n) h2, boundsOf_absent x (d + 1) lo hi n h1]
    · obtain ⟨rA, k, rB, A, c, B, hr, hk, hl, hlB, hfc, hndc, hparc, hA, hB, hparA, hparB⟩ :=
        find_step id n hf hid hnd hpar
      have hself : n = (Inner.mk n.id (rA ++ k :: rB) (A ++ c :: B) : Inner K (Node K V d)) := by
        rw [← hr, ← hk]
      have hmod : modifyNode id f (d + 1) n =
          (Inner.mk n.id (rA ++ k :: rB) (A ++ modifyNode id f d c :: B) : Inner K (Node K V d)) := by
        rw [modifyNode_kid id f n A B c hid hk hA hB, hr]
      obtain ⟨hndc', hxc⟩ := nodup_kid n A B c hk hnd
      -- the interval of `id` inside kid `c`
      have hidc : id ∈ idsOf c := findNode_some_mem hfc
      obtain ⟨bd, hbd⟩ := boundsOf_present id d c (some k) (nextLo hi (rB.zip B)) hparc hidc
      have hbc : boundsOf id d (some k) (nextLo hi (rB.zip B)) c = some (lo', hi') := by
        have := boundsOf_kid id lo hi n rA rB k A B c bd hid hr hk hl hA hbd
        rw [hb] at this
        injection this with this
        rw [hbd, this]
      obtain ihx := ih c (some k) (nextLo hi (rB.zip B)) d' m lo' hi' hfc hndc hparc hbc f x
      have hnoneA : ∀ y, (∀ a ∈ A, y ∉ idsOf a) → firstE (boundsOf y d) (some k) (rA.zip A) = none := by
        intro y hy
        apply firstE_none
        intro e he a b
        exact boundsOf_absent y d a b e.2 (hy e.2 (List.of_mem_zip he).2)
      have hnoneB : ∀ y, (∀ b ∈ B, y ∉ idsOf b) → firstE (boundsOf y d) hi (rB.zip B) = none := by
        intro y hy
        apply firstE_none
        intro e he a b
        exact boundsOf_absent y d a b e.2 (hy e.2 (List.of_mem_zip he).2)
      constructor
      · intro hxm
        have hxc' : x ∈ idsOf c := idsOf_sub_of_find hfc x hxm
        obtain ⟨hxn, hxA, hxB⟩ := hxc x hxc'
        have hne : n.id ≠ x := fun e => hxn e.symm
        obtain ⟨e1, e2⟩ := ihx.1 hxm
        constructor
        · rw [hself, boundsOf_decomp x lo hi n.id rA rB k A B c hne hl, hnoneA x hxA, hnoneB x hxB,
            Option.none_or, Option.or_none]
          exact e1
        · rw [hmod, boundsOf_decomp x lo hi n.id rA rB k A B _ hne hl, hnoneA x hxA, hnoneB x hxB,
            Option.none_or, Option.or_none]
          exact e2
      · intro h1 h2
        by_cases hne : n.id = x
        · rw [hmod, boundsOf_succ_eq x lo hi n hne]
          exact boundsOf_succ_eq x lo hi
            (Inner.mk n.id (rA ++ k :: rB) (A ++ modifyNode id f d c :: B) : Inner K (Node K V d)) hne
        · rw [hmod, boundsOf_decomp x lo hi n.id rA rB k A B _ hne hl]
          conv => rhs; rw [hself, boundsOf_decomp x lo hi n.id rA rB k A B c hne hl]
          rw [ihx.2 h1 h2]

/-! ### tree level -/

theorem Tree.boundsOf_find {t : Tree K V} {id d' : Nat} {m : Node K V d'}
    (hf : t.find id = some ⟨d', m⟩) (hpar : ParTree t) : ∃ lo' hi', t.boundsOf id = some (lo', hi') := by
  obtain ⟨bd, hbd⟩ := boundsOf_present id t.depth t.root none none hpar (findNode_some_mem hf)
  exact ⟨bd.1, bd.2, hbd⟩

theorem Tree.boundsOf_modify {t : Tree K V} {id d' : Nat} {m : Node K V d'}
    (hf : t.find id = some ⟨d', m⟩) (hids : t.ids.Nodup) (hpar : ParTree t)
    {lo' hi' : Option K} (hb : t.boundsOf id = some (lo', hi'))
    (f : (d : Nat) → Node K V d → Node K V d) (x : Nat) :
    (x ∈ idsOf m → t.boundsOf x = boundsOf x d' lo' hi' m ∧
       (t.modify id f).boundsOf x = boundsOf x d' lo' hi' (f d' m)) ∧
    (x ∉ idsOf m → x ∉ idsOf (f d' m) → (t.modify id f).boundsOf x = t.boundsOf x) :=
  Conc.boundsOf_modify id t.depth t.root none none d' m lo' hi' hf hids hpar hb f x

/-! ### `InBounds` is "the interval contains the key" -/

theorem searchLE_eq_of (h : SWO lt) (key : K) (rA rB : List K) (k : K)
    (hs : Sorted lt (rA ++ k :: rB)) (h1 : lt key k = false) (h2 : ∀ x ∈ rB, lt key x = true) :
    searchLE lt key (rA ++ k :: rB) = rA.length := by
  have hne : rA ++ k :: rB ≠ [] := by simp
  have hj := searchLE_lt_length (lt := lt) key _ hne
  apply Classical.byContradiction
  intro hc
  rcases Nat.lt_or_gt_of_ne hc with hlt | hgt
  · have hlen : rA.length < (rA ++ k :: rB).length := by simp
    have := searchLE_after h key _ hs rA.length hlt hlen
    have e : (rA ++ k :: rB)[rA.length]'hlen = k := by simp
    rw [e, h1] at this
    cases this
  · have h0 : 0 < searchLE lt key (rA ++ k :: rB) := by omega
    have := searchLE_at h key _ hs h0 hj
    have hm : (rA ++ k :: rB)[searchLE lt key (rA ++ k :: rB)]'hj ∈ rB := by
      rw [List.getElem_append_right (by omega)]
      obtain ⟨q, hq⟩ : ∃ q, searchLE lt key (rA ++ k :: rB) - rA.length = q + 1 :=
        ⟨searchLE lt key (rA ++ k :: rB) - rA.length - 1, by omega⟩
      simp only [hq, List.getElem_cons_succ]
      exact List.getElem_mem _
    rw [h2 _ hm] at this
    cases this

theorem mem_zip_of_mem_left {α β : Type} (r : List α) (c : List β) (hlen : r.length = c.length)
    (x : α) (hx : x ∈ r) : ∃ y, (x, y) ∈ r.zip c := by
  obtain ⟨j, hj, e⟩ := List.getElem_of_mem hx
  have hjc : j < c.length := by omega
  refine ⟨c[j], ?_⟩
  have : (r.zip c)[j]'(by simp; omega) = (r[j], c[j]) := by simp
  rw [← e, ← this]
  exact List.getElem_mem _

/-- a node whose interval contains the key is on the key's route -/
theorem mem_route_of_bounds (h : SWO lt) (key : K) (x : Nat) (a b : Option K) :
    ∀ (d : Nat) (n : Node K V d) (lo hi : Option K),
      Ord lt d lo hi n → ParN d n → (idsOf n).Nodup → boundsOf x d lo hi n = some (a, b) →
      leO lt a key → ltO lt key b → (x, a, b) ∈ routeB lt key d lo hi n := by
  intro d
  induction d with
  | zero =>
    intro (n : Leaf K V) lo hi _ _ _ hb _ _
    by_cases hid : n.id = x
    · rw [boundsOf_zero_eq x lo hi n hid] at hb
      injection hb with hb
      rw [routeB_zero key lo hi n, hid, hb]
      exact List.mem_singleton.2 rfl
    · rw [boundsOf_zero_ne x lo hi n hid] at hb
      cases hb
  | succ d ih =>
    intro (n : Inner K (Node K V d)) lo hi hord hpar hnd hb hlo hhi
    rw [routeB_succ key lo hi n]
    by_cases hid : n.id = x
    · rw [boundsOf_succ_eq x lo hi n hid] at hb
      injection hb with hb
      rw [hid, hb]
      exact List.mem_cons_self
    · apply List.mem_cons_of_mem
      have hxn : x ∈ idsOf (d := d + 1) n := boundsOf_mem hb
      cases hf : findNode x (d + 1) n with
      | none => exact absurd hxn ((findNode_none' x (d := d + 1) n).1 hf)
      | some am =>
        obtain ⟨d', m⟩ := am
        obtain ⟨rA, k, rB, A, c, B, hr, hk, hl, hlB, hfc, hndc, hparc, hA, hB, hparA, hparB⟩ :=
          find_step x n hf hid hnd hpar
        have hsorted : Sorted lt n.runts := Ord_sorted h n hord hpar
        have hkids := hord.2
        rw [hr, hk, Kids_decomp hi rA rB k A B c hl] at hkids
        obtain ⟨hKA, hOc, hklt, hKB⟩ := hkids
        obtain ⟨bd, hbd⟩ := boundsOf_present x d c (some k) (nextLo hi (rB.zip B)) hparc (findNode_some_mem hfc)
        have hbc : boundsOf x d (some k) (nextLo hi (rB.zip B)) c = some (a, b) := by
          have := boundsOf_kid x lo hi n rA rB k A B c bd hid hr hk hl hA hbd
          rw [hb] at this
          injection this with this
          rw [hbd, this]
        obtain ⟨lo', hi', PL, PR, z⟩ := zoom h x d c (some k) (nextLo hi (rB.zip B)) d' m hfc hndc hparc hOc
        have e := z.bounds
        rw [hbc] at e
        injection e with e
        injection e with e1 e2
        subst e1; subst e2
        have hk1 : lt key k = false := z.lo_le key hlo
        have hk2 : ltO lt key (nextLo hi (rB.zip B)) := z.hi_le key hhi
        have hj : searchLE lt key n.runts = A.length := by
          rw [hr, ← hl]
          apply searchLE_eq_of h key rA rB k (by rw [← hr]; exact hsorted) hk1
          intro y hy
          obtain ⟨cy, hcy⟩ := mem_zip_of_mem_left rB B hlB y hy
          exact Kids_next_lt h hi _ hKB (y, cy) hcy key hk2
        rw [routeKid_at key hi n rA rB k A B c hr hk hl hlB hj]
        exact ih c (some k) (nextLo hi (rB.zip B)) hOc hparc hndc hbc hlo hhi

theorem inBounds_iff (h : SWO lt) {t : Tree K V} (hids : t.ids.Nodup) (hpar : ParTree t) (hord : OrdTree lt t)
    (key : K) (x : Nat) :
    InBounds lt t key x ↔ ∃ a b, t.boundsOf x = some (a, b) ∧ leO lt a key ∧ ltO lt key b := by
  constructor
  · rintro ⟨a, b, hab, hle⟩
    exact ⟨a, b, Tree.route_bounds hids hpar key x a b hab, hle, Tree.route_hi h hpar hord key x a b hab⟩
  · rintro ⟨a, b, hb, hlo, hhi⟩
    exact ⟨a, b, mem_route_of_bounds h key x a b t.depth t.root none none hord hpar hids hb hlo hhi, hlo⟩

/-! ### widening -/

/-- every identity outside `W` keeps its interval, or gets a wider one -/
def Widen (lt : K → K → Bool) (W : Nat → Prop) (t t' : Tree K V) : Prop :=
  ∀ x, ¬ W x → OW lt (t.boundsOf x) (t'.boundsOf x)

theorem Widen.refl (h : SWO lt) (W : Nat → Prop) (t : Tree K V) : Widen lt W t t :=
  fun _ _ => OW.refl h _

theorem Widen.of_eq (h : SWO lt) (W : Nat → Prop) {t t' : Tree K V} (e : t' = t) : Widen lt W t t' := by
  rw [e]; exact Widen.refl h W t

theorem Widen.trans (h : SWO lt) {W : Nat → Prop} {t1 t2 t3 : Tree K V}
    (h1 : Widen lt W t1 t2) (h2 : Widen lt W t2 t3) : Widen lt W t1 t3 :=
  fun x hx => (h1 x hx).trans h (h2 x hx)

theorem stableBounds_of_widen (h : SWO lt) {H : List Lk} {t t' : Tree K V}
    (hw : Widen lt (fun x => Lk.node x ∈ H) t t')
    (hids : t.ids.Nodup) (hpar : ParTree t) (hord : OrdTree lt t)
    (hids' : t'.ids.Nodup) (hpar' : ParTree t') (hord' : OrdTree lt t') : StableBounds lt H t t' := by
  intro key id _ hH hin
  obtain ⟨a, b, hb, hlo, hhi⟩ := (inBounds_iff h hids hpar hord key id).1 hin
  have := hw id hH
  rw [hb] at this
  obtain ⟨a', b', hb', l1, l2⟩ := this.some
  exact (inBounds_iff h hids' hpar' hord' key id).2 ⟨a', b', hb', leO_mono h l1 hlo, ltO_mono h l2 hhi⟩

theorem stableBounds_of_eq {H : List Lk} {t t' : Tree K V} (e : t' = t) : StableBounds lt H t t' := by
  subst e
  intro _ _ _ _ h
  exact h

end Gobptree.Conc
