/-
  Whole-scan guarantee (weak consistency of a scan under concurrent writers), definitions.

  A SESSION is identified by a thread `j` and the program index `a` of its `NewScanner(start)`.
  Its responses are read off the log (`rets j log`: the `ret` notes of thread `j`, newest first).
  The ghost state carried along a run is the bound `b` the session's cursor is currently
  positioned for (`.ge start` until the first successful `Scan`, then `.gt k_last`), together with
    * order facts relating `b` to the pairs returned so far (`Open.fresh`, `Open.ord`), and
    * coverage of the keys that have been present all the time (`Open.cov`): such a key has been
      returned, or is still admitted by `b`, or the cursor rests on it and its `Pair` is still due.
  Facts about the log alone (`LogOk`) persist for ever; they are the session-level statements.
-/
import Gobptree.Props.C04

namespace Gobptree.Conc
open Gobptree

variable {K V : Type}

/-! ### the responses of one thread, read off the log -/

/-- the `(program index, response)` pairs thread `j` has logged, newest first -/
def rets (j : Nat) : List (Ev K V) → List (Nat × Res K V)
  | [] => []
  | ev :: rest =>
    match ev with
    | .note t (.ret i r) => if t = j then (i, r) :: rets j rest else rets j rest
    | _ => rets j rest

theorem rets_cons_ret (j i : Nat) (r : Res K V) (evs : List (Ev K V)) :
    rets j (Ev.note j (.ret i r) :: evs) = (i, r) :: rets j evs := by
  simp [rets]

theorem rets_cons_ret_ne {j t : Nat} (h : t ≠ j) (i : Nat) (r : Res K V) (evs : List (Ev K V)) :
    rets j (Ev.note t (.ret i r) :: evs) = rets j evs := by
  simp [rets, h]

theorem rets_append (j : Nat) (l1 l2 : List (Ev K V)) : rets j (l1 ++ l2) = rets j l1 ++ rets j l2 := by
  induction l1 with
  | nil => rfl
  | cons ev rest ih =>
    cases ev with
    | note t n =>
      cases n with
      | ret i r =>
        by_cases h : t = j
        · subst h
          rw [List.cons_append, rets_cons_ret, rets_cons_ret, ih, List.cons_append]
        · rw [List.cons_append, rets_cons_ret_ne h, rets_cons_ret_ne h, ih]
      | inv i => exact ih
      | cb x => exact ih
    | acq t l => exact ih
    | rel t l => exact ih
    | dec t l => exact ih

theorem mem_rets {j i : Nat} {r : Res K V} :
    ∀ {evs : List (Ev K V)}, (i, r) ∈ rets j evs ↔ Ev.note j (.ret i r) ∈ evs := by
  intro evs
  induction evs with
  | nil => simp [rets]
  | cons ev rest ih =>
    cases ev with
    | note t n =>
      cases n with
      | ret i' r' =>
        by_cases h : t = j
        · subst h
          rw [rets_cons_ret, List.mem_cons, List.mem_cons, ih]
          constructor
          · rintro (h | h)
            · cases h; exact Or.inl rfl
            · exact Or.inr h
          · rintro (h | h)
            · cases h; exact Or.inl rfl
            · exact Or.inr h
        · rw [rets_cons_ret_ne h, List.mem_cons, ih]
          constructor
          · intro h'; exact Or.inr h'
          · rintro (h' | h')
            · cases h'; exact absurd rfl h
            · exact h'
      | inv i' =>
        show (i, r) ∈ rets j rest ↔ _
        rw [ih, List.mem_cons]
        constructor
        · intro h; exact Or.inr h
        · rintro (h | h)
          · cases h
          · exact h
      | cb x =>
        show (i, r) ∈ rets j rest ↔ _
        rw [ih, List.mem_cons]
        constructor
        · intro h; exact Or.inr h
        · rintro (h | h)
          · cases h
          · exact h
    | acq t l =>
      show (i, r) ∈ rets j rest ↔ _
      rw [ih, List.mem_cons]
      constructor
      · intro h; exact Or.inr h
      · rintro (h | h)
        · cases h
        · exact h
    | rel t l =>
      show (i, r) ∈ rets j rest ↔ _
      rw [ih, List.mem_cons]
      constructor
      · intro h; exact Or.inr h
      · rintro (h | h)
        · cases h
        · exact h
    | dec t l =>
      show (i, r) ∈ rets j rest ↔ _
      rw [ih, List.mem_cons]
      constructor
      · intro h; exact Or.inr h
      · rintro (h | h)
        · cases h
        · exact h

/-- quiet events (lock events, scheduler decisions, callback notes) carry no response -/
theorem rets_quiet (j t : Nat) : ∀ new : List (Ev K V), new.all (quietB t) = true → rets j new = [] := by
  intro new
  induction new with
  | nil => intro _; rfl
  | cons ev rest ih =>
    intro h
    rw [List.all_cons, Bool.and_eq_true] at h
    cases ev with
    | note t' n =>
      cases n with
      | ret i r => exact absurd h.1 (by simp [quietB])
      | inv i => exact absurd h.1 (by simp [quietB])
      | cb x => exact ih h.2
    | acq t' l => exact ih h.2
    | rel t' l => exact ih h.2
    | dec t' l => exact ih h.2

theorem rets_silent (j : Nat) : ∀ new : List (Ev K V), new.all silentB = true → rets j new = [] := by
  intro new
  induction new with
  | nil => intro _; rfl
  | cons ev rest ih =>
    intro h
    rw [List.all_cons, Bool.and_eq_true] at h
    cases ev with
    | note t' n => exact absurd h.1 (by simp [silentB])
    | acq t' l => exact ih h.2
    | rel t' l => exact ih h.2
    | dec t' l => exact ih h.2

theorem rets_startOp (j t : Nat) (s : St K V) (op : COp K V) :
    rets j (startOp t s op).1.evs = rets j s.evs := by
  obtain ⟨new, e, q, _⟩ := startOp_tr t s op
  rw [e, rets_append, rets_silent j new q]; rfl

theorem rets_resume (j : Nat) (P : Params K) (t : Nat) (s : St K V) (k : Kont K V) :
    rets j (resume P t s k).1.evs = rets j s.evs := by
  obtain ⟨new, e, q, _⟩ := resume_tr P t s k
  rw [e, rets_append, rets_quiet j t new q]; rfl

theorem mem_cons_ret {y n : Nat} {r' r : Res K V} {rs : List (Nat × Res K V)} :
    (y, r') ∈ (n, r) :: rs ↔ (y = n ∧ r' = r) ∨ (y, r') ∈ rs := by
  rw [List.mem_cons]
  constructor
  · rintro (h | h)
    · cases h; exact Or.inl ⟨rfl, rfl⟩
    · exact Or.inr h
  · rintro (⟨h1, h2⟩ | h)
    · subst h1; subst h2; exact Or.inl rfl
    · exact Or.inr h

/-! ### a generic induction principle for the loop of operations of one step -/

theorem threadLoop_induct (t : Nat) (th : Thread K V) (I : St K V → Flow K V → Nat → Prop)
    (Q : Thread K V × St K V × Bool → Prop)
    (hpark : ∀ s p pc, I s (.park p) pc →
      Q ({ th with pc := pc, park := p, held := s.held, cursor := s.cursor, exhausted := s.exhausted }, s, false))
    (hpanic : ∀ s pc, I s .panic pc →
      Q ({ th with pc := pc, park := .finished, held := s.held, cursor := s.cursor, exhausted := s.exhausted },
        s.note t (.ret pc .panic), true))
    (hfin : ∀ s r pc, I s (.done r) pc →
      Q ({ th with pc := pc + 1, park := .finished, held := s.held, cursor := s.cursor, exhausted := s.exhausted },
        s.note t (.ret pc r), false))
    (hstep : ∀ s r pc op, I s (.done r) pc → th.prog[pc + 1]? = some op →
      I (startOp t ((s.note t (.ret pc r)).note t (.inv (pc + 1))) op).1
        (startOp t ((s.note t (.ret pc r)).note t (.inv (pc + 1))) op).2 (pc + 1)) :
    ∀ (fuel : Nat) (s : St K V) (fl : Flow K V) (pc : Nat), I s fl pc → Q (threadLoop t th fuel s fl pc) := by
  intro fuel
  induction fuel with
  | zero =>
    intro s fl pc hi
    cases fl with
    | panic => simp only [threadLoop]; exact hpanic s pc hi
    | park p => simp only [threadLoop]; exact hpark s p pc hi
    | done r => simp only [threadLoop]; exact hfin s r pc hi
  | succ fuel ih =>
    intro s fl pc hi
    cases fl with
    | panic => simp only [threadLoop]; exact hpanic s pc hi
    | park p => simp only [threadLoop]; exact hpark s p pc hi
    | done r =>
      unfold threadLoop
      cases hop : th.prog[pc + 1]? with
      | none => simp only; exact hfin s r pc hi
      | some op => simp only; exact ih _ _ _ (hstep s r pc op hi hop)

/-! ### client discipline: no `Pair` on a fresh cursor -/

theorem disc_F_no_pair : ∀ (y : Nat) (rest : List (COp K V)), disciplined .F rest = true →
    (∀ x, x < y → rest[x]? = some .pause) → rest[y]? ≠ some .pair := by
  intro y
  induction y with
  | zero =>
    intro rest hd _ h
    cases rest with
    | nil => simp at h
    | cons op r =>
      simp only [List.getElem?_cons_zero, Option.some.injEq] at h
      subst h
      simp [disciplined, discStep] at hd
  | succ y ih =>
    intro rest hd hx h
    cases rest with
    | nil => simp at h
    | cons op r =>
      have h0 := hx 0 (by omega)
      simp only [List.getElem?_cons_zero, Option.some.injEq] at h0
      subst h0
      obtain ⟨st', hs, hr⟩ := disciplined_cons hd
      simp only [discStep, Option.some.injEq] at hs
      subst hs
      refine ih r hr (fun x hxy => ?_) (by simpa using h)
      have := hx (x + 1) (by omega)
      simpa using this

/-- in a disciplined program, the first call after `NewScanner` other than a pause is not `Pair` -/
theorem disc_no_fresh_pair : ∀ (prog : List (COp K V)) (st : CSt) (a y : Nat) (k : K),
    disciplined st prog = true → prog[a]? = some (.ns k) → a < y →
    (∀ x, a < x → x < y → prog[x]? = some .pause) → prog[y]? ≠ some .pair := by
  intro prog
  induction prog with
  | nil => intro st a y k _ hns; simp at hns
  | cons op r ih =>
    intro st a y k hd hns hay hpz
    obtain ⟨y', rfl⟩ : ∃ y', y = y' + 1 := ⟨y - 1, by omega⟩
    obtain ⟨st', hs, hr⟩ := disciplined_cons hd
    rw [List.getElem?_cons_succ]
    cases a with
    | zero =>
      simp only [List.getElem?_cons_zero, Option.some.injEq] at hns
      subst hns
      have : st' = .F := by
        cases st <;> simp [discStep] at hs
        exact hs.symm
      subst this
      refine disc_F_no_pair y' r hr (fun x hx => ?_)
      have := hpz (x + 1) (by omega) (by omega)
      simpa using this
    | succ a =>
      refine ih st' a y' k hr (by simpa using hns) (by omega) (fun x h1 h2 => ?_)
      have := hpz (x + 1) (by omega) (by omega)
      simpa using this

/-! ### sessions -/

/-- the calls of an open session: `Scan`, `Pair`, and client pauses -/
def CurOp : Option (COp K V) → Prop
  | some .scan => True
  | some .pair => True
  | some .pause => True
  | _ => False

/-- every call strictly between `a` and `n` is a cursor call -/
def CurOps (prog : List (COp K V)) (a n : Nat) : Prop := ∀ x, a < x → x < n → CurOp prog[x]?

/-- call `y` belongs to the session opened at `a`: after `a`, and nothing but `Scan`/`Pair`/pause
    in between (in particular the cursor was not closed and no other one opened) -/
def InSess (prog : List (COp K V)) (a y : Nat) : Prop := a < y ∧ CurOps prog a (y + 1)

theorem CurOps.mono {prog : List (COp K V)} {a n m : Nat} (h : CurOps prog a n) (hmn : m ≤ n) : CurOps prog a m :=
  fun x h1 h2 => h x h1 (by omega)

theorem InSess.of_le {prog : List (COp K V)} {a y x : Nat} (h : InSess prog a y) (hax : a < x) (hxy : x ≤ y) :
    InSess prog a x := ⟨hax, h.2.mono (by omega)⟩

/-- the hypotheses on the exhausting `Scan` at index `e` (used for completeness only):
    it belongs to the session, and `Pair` is called between any two `Scan`s of the session
    (client pauses may sit anywhere) -/
structure EHyp (prog : List (COp K V)) (a e : Nat) : Prop where
  lt : a < e
  seg : CurOps prog a e
  scan : prog[e]? = some .scan
  shape : ∀ i m, a < i → i < m → m ≤ e → prog[i]? = some .scan → prog[m]? = some .scan →
    ∃ x, i < x ∧ x < m ∧ prog[x]? = some .pair

/-- the last call before `n` other than a pause was a `Scan` (the `Pair` of the key it found is
    still due) -/
def PairDue (prog : List (COp K V)) (a n : Nat) : Prop :=
  ∃ x, a < x ∧ x < n ∧ prog[x]? = some .scan ∧ ∀ y, x < y → y < n → prog[y]? = some .pause

theorem EHyp.not_scan {prog : List (COp K V)} {a e n : Nat} (he : EHyp prog a e) (hn : n ≤ e)
    (hd : PairDue prog a n) : prog[n]? ≠ some .scan := by
  intro hs
  obtain ⟨x, h1, h2, h3, h4⟩ := hd
  obtain ⟨y, g1, g2, g3⟩ := he.shape x n h1 h2 hn h3 hs
  rw [h4 y g1 g2] at g3
  cases g3

theorem EHyp.inSess {prog : List (COp K V)} {a e : Nat} (h : EHyp prog a e) : InSess prog a e := by
  refine ⟨h.lt, fun x h1 h2 => ?_⟩
  by_cases hx : x = e
  · subst hx; rw [h.scan]; trivial
  · exact h.seg x h1 (by omega)

/-! ### the session hypothesis from client discipline: the cursor is simply not closed -/

theorem curOp_of_disc_open : ∀ (rest : List (COp K V)) (st : CSt), st ≠ .N → disciplined st rest = true →
    ∀ n, n ≤ rest.length → (∀ x, x < n → rest[x]? ≠ some .close) → ∀ x, x < n → CurOp rest[x]? := by
  intro rest
  induction rest with
  | nil => intro st _ _ n hn _ x hx; simp at hn; omega
  | cons op r ih =>
    intro st hst hd n hn hnc x hx
    obtain ⟨st', hs, hr⟩ := disciplined_cons hd
    have h0 := hnc 0 (by omega)
    simp only [List.getElem?_cons_zero, ne_eq, Option.some.injEq] at h0
    have hst' : st' ≠ .N ∧ CurOp (some op) := by
      cases st with
      | N => exact absurd rfl hst
      | F =>
        cases op <;> simp [discStep] at hs <;> first | (exact absurd rfl h0) | (subst hs; exact ⟨by simp, trivial⟩)
      | S =>
        cases op <;> simp [discStep] at hs <;> first | (exact absurd rfl h0) | (subst hs; exact ⟨by simp, trivial⟩)
    cases x with
    | zero => rw [List.getElem?_cons_zero]; exact hst'.2
    | succ x =>
      rw [List.getElem?_cons_succ]
      refine ih st' hst'.1 hr (n - 1) (by simp at hn; omega) (fun y hy => ?_) x (by omega)
      have := hnc (y + 1) (by omega)
      simpa using this

/-- in a disciplined program, the calls after a `NewScanner` are `Scan`/`Pair`/pause for as long as
    the cursor is not closed -/
theorem curOps_of_not_closed : ∀ (prog : List (COp K V)) (st : CSt) (a e : Nat) (k : K),
    disciplined st prog = true → prog[a]? = some (.ns k) → e ≤ prog.length →
    (∀ x, a < x → x < e → prog[x]? ≠ some .close) → CurOps prog a e := by
  intro prog
  induction prog with
  | nil => intro st a e k _ hns; simp at hns
  | cons op r ih =>
    intro st a e k hd hns he hnc x hax hxe
    obtain ⟨st', hs, hr⟩ := disciplined_cons hd
    obtain ⟨x', rfl⟩ : ∃ x', x = x' + 1 := ⟨x - 1, by omega⟩
    rw [List.getElem?_cons_succ]
    cases a with
    | zero =>
      simp only [List.getElem?_cons_zero, Option.some.injEq] at hns
      subst hns
      have : st' = .F := by
        cases st <;> simp [discStep] at hs
        exact hs.symm
      subst this
      refine curOp_of_disc_open r .F (by simp) hr (e - 1) (by simp at he; omega) (fun y hy => ?_) x' (by omega)
      have := hnc (y + 1) (by omega) (by omega)
      simpa using this
    | succ a =>
      refine ih st' a (e - 1) k hr (by simpa using hns) (by simp at he; omega) (fun y h1 h2 => ?_) x' (by omega) (by omega)
      have := hnc (y + 1) (by omega) (by omega)
      simpa using this

/-- parameters of a session and of the ghost state -/
structure SCtx (K V : Type) where
  lt : K → K → Bool
  j : Nat
  a : Nat
  e : Nat
  start : K
  prog : List (COp K V)
  /-- pairs known to have been in the map at a moment of the session -/
  Sd : Nat → K → V → Prop
  /-- keys that have been in the map ever since `NewScanner` returned -/
  KS : K → Prop

/-- key `k` has been returned by a `Pair` of the session, before call `e` -/
def Returned (a e : Nat) (rs : List (Nat × Res K V)) (k : K) : Prop :=
  ∃ x v, a < x ∧ x < e ∧ (x, Res.pair k v) ∈ rs

theorem Returned.cons {a e : Nat} {rs : List (Nat × Res K V)} {k : K} (h : Returned a e rs k) (p : Nat × Res K V) :
    Returned a e (p :: rs) k := by
  obtain ⟨x, v, h1, h2, h3⟩ := h
  exact ⟨x, v, h1, h2, List.mem_cons_of_mem _ h3⟩

/-- the session-level statements about the responses logged so far -/
structure LogOk (X : SCtx K V) (rs : List (Nat × Res K V)) : Prop where
  s0 : ∀ y, (y, Res.bool false) ∈ rs → InSess X.prog X.a y → (X.a, Res.ok) ∈ rs
  s1 : ∀ y k v, (y, Res.pair k v) ∈ rs → InSess X.prog X.a y → (X.a, Res.ok) ∈ rs ∧ X.Sd y k v
  s2a : ∀ y k v, (y, Res.pair k v) ∈ rs → InSess X.prog X.a y → X.lt k X.start = false
  s2b : ∀ x y k v k' v', (x, Res.pair k v) ∈ rs → (y, Res.pair k' v') ∈ rs → X.a < x → x < y →
    InSess X.prog X.a y → X.lt k' k = false
  s2c : ∀ x z y k v k' v', (x, Res.pair k v) ∈ rs → (z, Res.bool true) ∈ rs → (y, Res.pair k' v') ∈ rs →
    X.a < x → x < z → z < y → InSess X.prog X.a y → X.lt k k' = true
  s3 : EHyp X.prog X.a X.e → (X.e, Res.bool false) ∈ rs → ∀ k, X.KS k → Returned X.a X.e rs k

theorem LogOk.nil (X : SCtx K V) : LogOk X [] :=
  ⟨fun _ h => (by cases h), fun _ _ _ h => (by cases h), fun _ _ _ h => (by cases h),
   fun _ _ _ _ _ _ h => (by cases h), fun _ _ _ _ _ _ _ h => (by cases h), fun _ h => (by cases h)⟩

/-- logging one more response, at an index above all logged ones -/
theorem LogOk.cons {X : SCtx K V} {rs : List (Nat × Res K V)} {n : Nat} {r : Res K V} (h : LogOk X rs)
    (hr1 : ∀ i r', (i, r') ∈ rs → i < n)
    (hpair : ∀ k v, r = .pair k v → InSess X.prog X.a n →
      (X.a, Res.ok) ∈ rs ∧ X.Sd n k v ∧ X.lt k X.start = false ∧
        ∀ x k0 v0, X.a < x → (x, Res.pair k0 v0) ∈ rs →
          X.lt k k0 = false ∧ ((∃ z, x < z ∧ (z, Res.bool true) ∈ rs) → X.lt k0 k = true))
    (hfalse : r = .bool false → InSess X.prog X.a n →
      (X.a, Res.ok) ∈ rs ∧ (EHyp X.prog X.a X.e → n = X.e → ∀ k, X.KS k → Returned X.a X.e rs k)) :
    LogOk X ((n, r) :: rs) where
  s0 := by
    intro y hy hs
    rcases mem_cons_ret.1 hy with ⟨e1, e2⟩ | hy
    · subst e1
      exact List.mem_cons_of_mem _ (hfalse e2.symm hs).1
    · exact List.mem_cons_of_mem _ (h.s0 y hy hs)
  s1 := by
    intro y k v hy hs
    rcases mem_cons_ret.1 hy with ⟨e1, e2⟩ | hy
    · subst e1
      obtain ⟨h1, h2, _⟩ := hpair k v e2.symm hs
      exact ⟨List.mem_cons_of_mem _ h1, h2⟩
    · obtain ⟨h1, h2⟩ := h.s1 y k v hy hs
      exact ⟨List.mem_cons_of_mem _ h1, h2⟩
  s2a := by
    intro y k v hy hs
    rcases mem_cons_ret.1 hy with ⟨e1, e2⟩ | hy
    · subst e1
      exact (hpair k v e2.symm hs).2.2.1
    · exact h.s2a y k v hy hs
  s2b := by
    intro x y k v k' v' hx hy hax hxy hs
    rcases mem_cons_ret.1 hy with ⟨e1, e2⟩ | hy
    · subst e1
      rcases mem_cons_ret.1 hx with ⟨e3, _⟩ | hx
      · omega
      · exact ((hpair k' v' e2.symm hs).2.2.2 x k v hax hx).1
    · have := hr1 y _ hy
      rcases mem_cons_ret.1 hx with ⟨e3, _⟩ | hx
      · omega
      · exact h.s2b x y k v k' v' hx hy hax hxy hs
  s2c := by
    intro x z y k v k' v' hx hz hy hax hxz hzy hs
    rcases mem_cons_ret.1 hy with ⟨e1, e2⟩ | hy
    · subst e1
      rcases mem_cons_ret.1 hx with ⟨e3, _⟩ | hx
      · omega
      · rcases mem_cons_ret.1 hz with ⟨e4, _⟩ | hz
        · omega
        · exact ((hpair k' v' e2.symm hs).2.2.2 x k v hax hx).2 ⟨z, hxz, hz⟩
    · have := hr1 y _ hy
      rcases mem_cons_ret.1 hx with ⟨e3, _⟩ | hx
      · omega
      · rcases mem_cons_ret.1 hz with ⟨e4, _⟩ | hz
        · omega
        · exact h.s2c x z y k v k' v' hx hz hy hax hxz hzy hs
  s3 := by
    intro he hf k hk
    rcases mem_cons_ret.1 hf with ⟨e1, e2⟩ | hf
    · exact ((hfalse e2.symm (e1 ▸ he.inSess)).2 he e1.symm k hk).cons _
    · exact (h.s3 he hf k hk).cons _

/-- a response that is neither a pair nor a boolean -/
def Neutral (r : Res K V) : Prop := (∀ k v, r ≠ .pair k v) ∧ r ≠ .bool false

theorem LogOk.cons_neutral {X : SCtx K V} {rs : List (Nat × Res K V)} {n : Nat} {r : Res K V} (h : LogOk X rs)
    (hr1 : ∀ i r', (i, r') ∈ rs → i < n) (hn : Neutral r) : LogOk X ((n, r) :: rs) :=
  h.cons hr1 (fun k v e _ => absurd e (hn.1 k v)) (fun e _ => absurd e hn.2)

theorem LogOk.cons_outside {X : SCtx K V} {rs : List (Nat × Res K V)} {n : Nat} {r : Res K V} (h : LogOk X rs)
    (hr1 : ∀ i r', (i, r') ∈ rs → i < n) (hout : ¬ InSess X.prog X.a n) : LogOk X ((n, r) :: rs) :=
  h.cons hr1 (fun _ _ _ hs => absurd hs hout) (fun _ hs => absurd hs hout)

/-- the session's cursor is open at `(leaf, i)`, positioned for the ghost bound `b`;
    `n` is the index of the next call (or of the call in progress) -/
structure Open (X : SCtx K V) (T : Tree K V) (hb : Bool) (cur : Option (Option Nat × Int)) (exh : Bool)
    (rs : List (Nat × Res K V)) (n : Nat) (b : Bound K) (leaf : Nat) (i : Int) : Prop where
  an : X.a < n
  nsret : (X.a, Res.ok) ∈ rs
  hcur : cur = some (some leaf, i)
  hexh : exh = false
  cok : CursorOk T hb (some (some leaf, i))
  pos : CurPosW X.lt T b leaf i
  fresh : ∀ st0, b = .ge st0 → st0 = X.start ∧ (∀ x, X.a < x → x < n → X.prog[x]? = some .pause) ∧
    ∀ y k v, X.a < y → (y, Res.pair k v) ∉ rs
  ord : ∀ c, b = .gt c → X.lt c X.start = false ∧
    ∀ x k v, X.a < x → (x, Res.pair k v) ∈ rs →
      X.lt c k = false ∧ ((∃ z, x < z ∧ (z, Res.bool true) ∈ rs) → X.lt k c = true)
  cov : EHyp X.prog X.a X.e → n ≤ X.e → ∀ k, X.KS k →
    Returned X.a X.e rs k ∨ b.admits X.lt k = true ∨ (b = .gt k ∧ PairDue X.prog X.a n)

/-- state of the session between two calls: open, or over -/
def SessSt (X : SCtx K V) (T : Tree K V) (cur : Option (Option Nat × Int)) (exh : Bool)
    (rs : List (Nat × Res K V)) (n : Nat) : Prop :=
  (∃ b leaf i, Open X T false cur exh rs n b leaf i) ∨ exh = true

/-- between two calls: all calls before `n` have returned and are logged -/
structure Mid (X : SCtx K V) (T : Tree K V) (cur : Option (Option Nat × Int)) (exh : Bool)
    (rs : List (Nat × Res K V)) (n : Nat) : Prop where
  r1 : ∀ i r, (i, r) ∈ rs → i < n
  log : LogOk X rs
  sess : X.a < n → CurOps X.prog X.a n → SessSt X T cur exh rs n

/-- parked inside call `pc` -/
def PkSess (X : SCtx K V) (T : Tree K V) (cur : Option (Option Nat × Int)) (exh : Bool)
    (rs : List (Nat × Res K V)) (p : Park K V) (pc : Nat) : Prop :=
  (pc = X.a → (∃ l, p = .want l (.roTree true X.start)) ∨ (∃ l hold w, p = .want l (.roNode true X.start hold w))) ∧
  (X.a < pc → CurOps X.prog X.a (pc + 1) →
    (p = .yielded .paused ∧ X.prog[pc]? = some .pause ∧ SessSt X T cur exh rs pc) ∨
    (∃ l leaf nx, p = .want l (.hop leaf nx) ∧ X.prog[pc]? = some .scan ∧
      ∃ b i, Open X T true cur exh rs pc b leaf i))

/-- the invariant of the loop of operations of one step of thread `j` -/
def SLoopI (X : SCtx K V) (T : Tree K V) (s : St K V) (fl : Flow K V) (pc : Nat) : Prop :=
  s.tree = T ∧
  match fl with
  | .done r => Mid X T s.cursor s.exhausted ((pc, r) :: rets X.j s.evs) (pc + 1)
  | .panic => LogOk X (rets X.j s.evs)
  | .park p => parkLive p ∧ (∀ i r, (i, r) ∈ rets X.j s.evs → i < pc) ∧ LogOk X (rets X.j s.evs) ∧
      PkSess X T s.cursor s.exhausted (rets X.j s.evs) p pc

/-- the invariant of thread `j` between two scheduler steps -/
def ThInv (X : SCtx K V) (T : Tree K V) (th : Thread K V) (rs : List (Nat × Res K V)) : Prop :=
  th.prog = X.prog ∧ LogOk X rs ∧
  match th.park with
  | .start => ∀ i r, (i, r) ∉ rs
  | .finished => True
  | .want l k => (∀ i r, (i, r) ∈ rs → i < th.pc) ∧ PkSess X T th.cursor th.exhausted rs (.want l k) th.pc
  | .yielded k => (∀ i r, (i, r) ∈ rs → i < th.pc) ∧ PkSess X T th.cursor th.exhausted rs (.yielded k) th.pc

/-! ### runs -/

/-- a run from `c0`, as the list of the configurations visited, NEWEST FIRST -/
inductive RunFrom (c0 : Config K V) : List (Config K V) → Prop where
  | init : RunFrom c0 [c0]
  | step {c c' : Config K V} {hist : List (Config K V)} (t : Nat) :
      RunFrom c0 (c :: hist) → c.step t = some c' → RunFrom c0 (c' :: c :: hist)

theorem RunFrom.reachable {c0 c : Config K V} {hist : List (Config K V)} (h : RunFrom c0 (c :: hist)) :
    Reachable c0 c := by
  generalize hl : c :: hist = l at h
  induction h generalizing c hist with
  | init => cases hl; exact .refl
  | @step c1 c2 hist' t _ hs ih => cases hl; exact .step t (ih rfl) hs

/-- a run stopped earlier is a run -/
theorem RunFrom.tail {c0 : Config K V} : ∀ (later : List (Config K V)) {c : Config K V} {hist : List (Config K V)},
    RunFrom c0 (later ++ c :: hist) → RunFrom c0 (c :: hist) := by
  intro later
  induction later with
  | nil => intro c hist h; exact h
  | cons d later ih =>
    intro c hist h
    apply ih
    generalize hl : d :: later ++ c :: hist = l at h
    cases h with
    | init =>
      exfalso
      have := congrArg List.length hl
      simp at this
    | @step c1 c2 hist' t h1 hs =>
      simp only [List.cons_append, List.cons.injEq] at hl
      rw [hl.2]; exact h1

end Gobptree.Conc
